/-
Model of the measurement helpers (C17). Core Lean only.

Mirrors
* `QmcStepper::timesteps_measure_with_self` and the wrappers built on it
  (`timesteps`, `timesteps_sample`, `timesteps_sample_iter`, `timesteps_sample_iter_zip`,
  `timesteps_measure`, `timesteps_iter_zip_with_self`)            — src/sse/qmc_traits/qmc_stepper.rs
* `TemperingContainer::timesteps_sample` and
  `rayon_tempering::ParallelQmcTimeSteps::parallel_timesteps_sample`
  (the `while remaining_timesteps > 0` chunk loop)          — src/sse/parallel_tempering/tempering_container.rs
* `OpContainer::itime_fold` (FastOps) / `QmcStepper::imaginary_time_fold` — fast_ops.rs, qmc_ising.rs, qmc_runner.rs

Abstraction: the sampler is an abstract state `σ` with a deterministic step function (the RNG is
part of the state), the operator count `n` and whatever the user's fold reads.  Everything is a
function of those; nothing about the SSE update itself is used here.
-/
import QmcModel.Basic

namespace Qmc

universe u v

/-- `k` applications of `g` (the state after `k` steps) -/
def iter {σ : Type u} (g : σ → σ) : Nat → σ → σ
  | 0, s => s
  | k + 1, s => g (iter g k s)

/-! ## 1. `timesteps_measure_with_self` -/

/-- loop variables of `timesteps_measure_with_self`: the sampler, the user's accumulator,
`steps_measured`, `total_n`. -/
structure MState (σ : Type u) (α : Type v) where
  st : σ
  acc : α
  measured : Nat
  totalN : Nat

/-- body of `for t in 0..timesteps`: take a step; if `(t + 1) % sampling_freq == 0` fold the
sampler into the accumulator, count the measurement, add `get_n()`. -/
def measureBody {σ : Type u} {α : Type v} (step : σ → σ) (n : σ → Nat) (fold : α → σ → α) (f : Nat)
    (r : MState σ α) (t : Nat) : MState σ α :=
  let s' := step r.st
  if (t + 1) % f = 0 then
    { st := s', acc := fold r.acc s', measured := r.measured + 1, totalN := r.totalN + n s' }
  else
    { st := s', acc := r.acc, measured := r.measured, totalN := r.totalN }

/-- the whole loop (`sampling_freq = f`; `None` is `f = 1`).  For `f = 0` the Rust code panics
(remainder by zero) as soon as `T > 0`; see `measurePanics`.  Lean's `x % 0 = x` makes the model
loop sample nothing in that case; theorems are stated for `0 < f`. -/
def measureLoop {σ : Type u} {α : Type v} (step : σ → σ) (n : σ → Nat) (fold : α → σ → α) (T f : Nat)
    (s0 : σ) (a0 : α) : MState σ α :=
  (List.range T).foldl (measureBody step n fold f) { st := s0, acc := a0, measured := 0, totalN := 0 }

/-- `Some(0)` as sampling frequency panics on the first iteration (`(t + 1) % 0`). -/
def measurePanics (T f : Nat) : Bool := f == 0 && decide (0 < T)

/-- `get_energy_for_average_n` of `QmcIsingGraph` and `Qmc`: `-(average_n / beta) + offset`. -/
def energyForAvgN (β off avg : Rat) : Rat := -(avg / β) + off

/-- the returned energy: `total_n as f64 / steps_measured as f64` fed to
`get_energy_for_average_n`.  `none` stands for NaN (`0.0 / 0.0` when nothing was measured). -/
def measureEnergy {σ : Type u} {α : Type v} (β off : Rat) (r : MState σ α) : Option Rat :=
  if r.measured = 0 then none
  else some (energyForAvgN β off ((r.totalN : Rat) / (r.measured : Rat)))

/-- sum of `g 0 … g (k-1)` -/
def sumTo (g : Nat → Nat) : Nat → Nat
  | 0 => 0
  | k + 1 => sumTo g k + g k

/-- sum of `g 0 … g (k-1)` over the rationals -/
def sumToQ (g : Nat → Rat) : Nat → Rat
  | 0 => 0
  | k + 1 => sumToQ g k + g k

/-- fold used by `timesteps_sample` / `calculate_autocorrelation`: push a copy of the state -/
def pushFold {σ : Type u} {β : Type v} (view : σ → β) (acc : List β) (s : σ) : List β := acc ++ [view s]

/-- accumulator step of `timesteps_iter_zip_with_self`: `Some(iterator)` until the iterator runs dry,
then `None` forever; the user's function is called with `(next, sampler)`; calls are logged. -/
def zipStep {σ : Type u} {τ : Type v} (acc : Option (List τ) × List (τ × σ)) (s : σ) :
    Option (List τ) × List (τ × σ) :=
  match acc.1 with
  | some (x :: xs) => (some xs, acc.2 ++ [(x, s)])
  | some [] => (none, acc.2)
  | none => (none, acc.2)

/-! ## 2. The chunk loop of the tempering drivers -/

/-- events of the chunk loop, in program order -/
inductive Ev where
  | adv (t : Nat)   -- every replica runs `timesteps(t, beta)`
  | swap            -- `tempering_step()` / `parallel_tempering_step()`
  | sample          -- `state_ref().to_vec()` pushed for every replica
  deriving DecidableEq, Repr, Inhabited

/-- what the chunk loop needs from the container -/
structure Container (κ : Type u) where
  /-- all replicas run `timesteps(t, beta_i)`; returns the chunk energies `te_i` -/
  advance : Nat → κ → κ × (Nat → Rat)
  swapStep : κ → κ
  states : κ → List (List Bool)

/-- loop variables of `timesteps_sample` -/
structure CState (κ : Type u) where
  c : κ
  remaining : Nat
  toSwap : Nat
  toSample : Nat
  energyAcc : Nat → Rat
  /-- one entry per sampling time (the Rust keeps one vector per replica: the transpose) -/
  samples : List (List (List Bool))
  log : List Ev

/-- one iteration of `while remaining_timesteps > 0` -/
def chunkIter {κ : Type u} (C : Container κ) (s f : Nat) (x : CState κ) : CState κ :=
  let t := min (min x.toSample x.toSwap) x.remaining
  let r := C.advance t x.c
  let acc := fun i => x.energyAcc i + r.2 i * (t : Rat)
  let toSample := x.toSample - t
  let toSwap := x.toSwap - t
  let remaining := x.remaining - t
  let log := x.log ++ [Ev.adv t]
  let c1 := if toSwap = 0 then C.swapStep r.1 else r.1
  let log1 := if toSwap = 0 then log ++ [Ev.swap] else log
  let toSwap1 := if toSwap = 0 then s else toSwap
  let samples1 := if toSample = 0 then x.samples ++ [C.states c1] else x.samples
  let log2 := if toSample = 0 then log1 ++ [Ev.sample] else log1
  let toSample1 := if toSample = 0 then f else toSample
  { c := c1, remaining := remaining, toSwap := toSwap1, toSample := toSample1,
    energyAcc := acc, samples := samples1, log := log2 }

/-- the `while` loop with fuel.  `chunk_terminates` shows fuel `T` suffices when `0 < s`, `0 < f`.
For `s = 0` or `f = 0` (and `T > 0`) the Rust loop makes no progress (`t = 0` forever) or panics
before the loop (`timesteps / sampling_freq` in `with_capacity`); excluded inputs. -/
def chunkLoop {κ : Type u} (C : Container κ) (s f : Nat) : Nat → CState κ → CState κ
  | 0, x => x
  | fuel + 1, x => if x.remaining = 0 then x else chunkLoop C s f fuel (chunkIter C s f x)

/-- `Vec::with_capacity(timesteps / sampling_freq)` is evaluated once per replica before the loop:
sampling period 0 panics (division by zero) as soon as there is a replica. -/
def chunkPanics (nrep f : Nat) : Bool := f == 0 && decide (0 < nrep)

def chunkInit {κ : Type u} (T s f : Nat) (c0 : κ) : CState κ :=
  { c := c0, remaining := T, toSwap := s, toSample := f, energyAcc := fun _ => 0, samples := [], log := [] }

/-- `timesteps_sample(T, s, f)` up to the final division -/
def chunkRun {κ : Type u} (C : Container κ) (T s f : Nat) (c0 : κ) : CState κ :=
  chunkLoop C s f T (chunkInit T s f c0)

/-- the energy returned for replica `i`: `energy_acc[i] / timesteps`
(added by the commit "fix: tempering drivers return the average energy") -/
def chunkEnergy {κ : Type u} (T : Nat) (x : CState κ) (i : Nat) : Rat := x.energyAcc i / (T : Rat)

/-- documented cadence, one step at a time: after step `k` (1-based) a swap step if `s ∣ k`, then a
sample if `f ∣ k`. -/
def tickEvents (s f k : Nat) : List Ev :=
  (if k % s = 0 then [Ev.swap] else []) ++ (if k % f = 0 then [Ev.sample] else [])

def tickLog (s f : Nat) : Nat → List Ev
  | 0 => []
  | k + 1 => tickLog s f k ++ (Ev.adv 1 :: tickEvents s f (k + 1))

/-- `adv t` ↦ `t` single steps -/
def expandEv : List Ev → List Ev
  | [] => []
  | Ev.adv t :: r => List.replicate t (Ev.adv 1) ++ expandEv r
  | e :: r => e :: expandEv r

/-! ### replicas -/

/-- a tempering container over abstract replicas `ρ` and container-private state `γ` (container RNG,
swap counter, cached Hamiltonian comparisons).  `energy i` is `get_energy_for_average_n(·, beta_i)`
of the replica in slot `i` (offset and temperature stay with the slot when graphs are swapped). -/
structure ReplicaSys (ρ : Type u) (γ : Type v) where
  step : ρ → ρ
  n : ρ → Nat
  state : ρ → List Bool
  energy : Nat → Rat → Rat
  swap : List ρ × γ → List ρ × γ

/-- `g.timesteps(t, beta)`: the measuring loop with `sampling_freq = None` and a unit fold -/
def replicaRun {ρ : Type u} {γ : Type v} (R : ReplicaSys ρ γ) (t : Nat) (r : ρ) : MState ρ Unit :=
  measureLoop R.step R.n (fun _ _ => ()) t 1 r ()

/-- average handed to `get_energy_for_average_n` -/
def avgN {ρ : Type u} (m : MState ρ Unit) : Rat := (m.totalN : Rat) / (m.measured : Rat)

/-- chunk energy of slot `i` -/
def chunkTe {ρ : Type u} {γ : Type v} (R : ReplicaSys ρ γ) (ms : List (MState ρ Unit)) (i : Nat) : Rat :=
  match ms[i]? with
  | some m => R.energy i (avgN m)
  | none => 0

/-- serial driver: `graphs.iter_mut().map(|(g, beta)| g.timesteps(t, *beta))` -/
def serialAdvance {ρ : Type u} {γ : Type v} (R : ReplicaSys ρ γ) (t : Nat) (c : List ρ × γ) :
    (List ρ × γ) × (Nat → Rat) :=
  let ms := c.1.map (replicaRun R t)
  ((ms.map (·.st), c.2), chunkTe R ms)

def serialContainer {ρ : Type u} {γ : Type v} (R : ReplicaSys ρ γ) : Container (List ρ × γ) :=
  { advance := serialAdvance R, swapStep := R.swap, states := fun c => c.1.map R.state }

/-- one `timestep` + `get_n` of one replica inside `timesteps(t, beta)` -/
def tickOne {ρ : Type u} {γ : Type v} (R : ReplicaSys ρ γ) (m : MState ρ Unit) : MState ρ Unit :=
  let s' := R.step m.st
  { st := s', acc := (), measured := m.measured + 1, totalN := m.totalN + R.n s' }

/-- parallel driver (`par_iter_mut`): the single steps of the replicas are executed in the order of an
arbitrary schedule (a list of slot indices; entry `i` = "slot `i` takes its next step"). -/
def runSched {ρ : Type u} {γ : Type v} (R : ReplicaSys ρ γ) (sched : List Nat)
    (ms : List (MState ρ Unit)) : List (MState ρ Unit) :=
  sched.foldl (fun ms i => ms.modify i (tickOne R)) ms

/-- a schedule is complete for a chunk of `t` steps on `k` replicas when every slot gets exactly `t` turns -/
def ValidSched (sched : List Nat) (k t : Nat) : Prop := ∀ i, i < k → sched.count i = t

def parallelAdvance {ρ : Type u} {γ : Type v} (R : ReplicaSys ρ γ) (pick : Nat → List ρ × γ → List Nat)
    (t : Nat) (c : List ρ × γ) : (List ρ × γ) × (Nat → Rat) :=
  let ms := runSched R (pick t c) (c.1.map fun r => { st := r, acc := (), measured := 0, totalN := 0 })
  ((ms.map (·.st), c.2), chunkTe R ms)

def parallelContainer {ρ : Type u} {γ : Type v} (R : ReplicaSys ρ γ) (pick : Nat → List ρ × γ → List Nat) :
    Container (List ρ × γ) :=
  { advance := parallelAdvance R pick, swapStep := R.swap, states := fun c => c.1.map R.state }

/-- the documented process, one step at a time: every replica steps; after step `k`, a swap step if
`s ∣ k`. -/
def tickState {ρ : Type u} {γ : Type v} (R : ReplicaSys ρ γ) (s : Nat) (c0 : List ρ × γ) : Nat → List ρ × γ
  | 0 => c0
  | k + 1 =>
    let c := tickState R s c0 k
    let c' := (c.1.map R.step, c.2)
    if (k + 1) % s = 0 then R.swap c' else c'

/-- the replicas right after step `k + 1`, before a possible swap: where `get_n` is read -/
def preState {ρ : Type u} {γ : Type v} (R : ReplicaSys ρ γ) (s : Nat) (c0 : List ρ × γ) (k : Nat) : List ρ :=
  (tickState R s c0 k).1.map R.step

/-- `n` of slot `i` right after step `k + 1` (0 if the slot does not exist) -/
def nAt {ρ : Type u} {γ : Type v} (R : ReplicaSys ρ γ) (s : Nat) (c0 : List ρ × γ) (i k : Nat) : Nat :=
  match (preState R s c0 k)[i]? with
  | some r => R.n r
  | none => 0

/-- energy of slot `i` at the `n` read right after step `k + 1` (0 if the slot does not exist) -/
def stepEnergy {ρ : Type u} {γ : Type v} (R : ReplicaSys ρ γ) (s : Nat) (c0 : List ρ × γ) (i k : Nat) : Rat :=
  match (preState R s c0 k)[i]? with
  | some r => R.energy i (R.n r)
  | none => 0

/-- the per-replica states at the sampling times up to `T` (documented cadence) -/
def samplesUpTo {ρ : Type u} {γ : Type v} (R : ReplicaSys ρ γ) (s f : Nat) (c0 : List ρ × γ) : Nat → List (List (List Bool))
  | 0 => []
  | k + 1 => samplesUpTo R s f c0 k ++
      (if (k + 1) % f = 0 then [(tickState R s c0 (k + 1)).1.map R.state] else [])

/-! ## 3. `itime_fold` -/

/-- states handed to the user's fold by `itime_fold`: for `p = 0 … cutoff-1` the state *before* slot
`p` is applied (the code calls `fold_fn(acc, state)` first and then writes the outputs of the op at
`p`); so the first one is the sampler's own state and the effect of the last slot is never shown. -/
def itimeStates (st : List Bool) : Slots → List (List Bool)
  | [] => []
  | none :: t => st :: itimeStates st t
  | some o :: t => st :: itimeStates (writeVars st o.vars o.outs) t

/-- `imaginary_time_fold(fold_fn, init)`: works on a *copy* of the state (`clone_state`), takes `&self`;
the configuration is returned unchanged alongside the folded value. -/
def itimeFold {α : Type u} (c : Config) (fold : α → List Bool → α) (init : α) : Config × α :=
  (c, (itimeStates c.state c.slots).foldl fold init)

/-! ## 4. The harness' mock replica, shared by the C17 and C20 drivers (protocol glue, no theorems) -/

namespace MockIO
open Proto

def nanOr (r : Option Rat) : String :=
  match r with
  | some x => showApprox x
  | none => "nan"

def scriptN (ns : List Nat) (age : Nat) : Nat :=
  if age = 0 || ns.isEmpty then 0 else ns.getD ((age - 1) % ns.length) 0


structure Rep where
  gid : Nat
  age : Nat
  deriving Repr, BEq

def bitsOf (width v : Nat) : List Bool := (List.range width).reverse.map fun b => v.testBit b
def ofBits (bs : List Bool) : Nat := bs.foldl (fun a b => a * 2 + (if b then 1 else 0)) 0

def encRep (r : Rep) : List Bool := bitsOf 4 r.gid ++ bitsOf 12 r.age
def decRep (s : List Bool) : Rep := { gid := ofBits (s.take 4), age := ofBits (s.drop 4) }
def showRep (r : Rep) : String := s!"{r.gid}.{r.age}"

def swapAt (rs : List Rep) (a b : Nat) : List Rep :=
  match rs[a]?, rs[b]? with
  | some x, some y => (rs.set a y).set b x
  | _, _ => rs

abbrev SwapScript := List (List (Nat × Nat))

def mockSys (nss : List (List Nat)) (βs offs : List Rat) : ReplicaSys Rep SwapScript :=
  { step := fun r => { r with age := r.age + 1 }
    n := fun r => scriptN (nss.getD (r.gid % nss.length) []) r.age
    state := encRep
    energy := fun i a => energyForAvgN (βs.getD i 1) (offs.getD i 0) a
    swap := fun c =>
      match c.2 with
      | [] => c
      | sw :: rest => (sw.foldl (fun rs p => swapAt rs p.1 p.2) c.1, rest) }

def parseSwapScript (s : String) : SwapScript :=
  if s == "-" then [] else
  (s.splitOn ";").map fun step =>
    if step == "_" then [] else
    (step.splitOn ".").filterMap fun pr =>
      match pr.splitOn "-" with
      | [a, b] => some (parseNat a, parseNat b)
      | _ => none

/-- a schedule for the model of the parallel driver: round robin from the last slot down -/
def revRoundRobin (t : Nat) (c : List Rep × SwapScript) : List Nat :=
  (List.range t).flatMap fun _ => (List.range c.1.length).reverse

def parseNss (s : String) : List (List Nat) :=
  if s == "-" then [] else (s.splitOn ",").map fun t => (t.splitOn ".").map parseNat


end MockIO

end Qmc
