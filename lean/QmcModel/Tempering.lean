/-
Model of the replica-exchange machinery:
  * `GraphWeights::{relative_weight, ham_eq}` and `SwapManagers` for `QmcIsingGraph`
    (src/sse/parallel_tempering/tempering_traits.rs, src/sse/qmc_ising.rs: `can_swap_managers`,
    `swap_manager_and_state`, `HamInfo::eq`, `hamiltonian`) and for `Qmc`
    (src/sse/qmc_runner.rs, `OpWeights for FastOps`),
  * `TemperingContainer::{tempering_step, tempering_a/b, make_first/second_subgraphs,
    make_ham_equalities}`, `perform_swaps`, `swap_on_chunks`, and the rayon variants
    `parallel_tempering_step`, `parallel_perform_swaps`
    (src/sse/parallel_tempering/tempering_container.rs).

Replicas are abstract records `(H, β, offset, rng, bond-weight table, cutoff, configuration)`; a
swap exchanges the configuration only. Numbers are exact rationals. Core Lean only.
-/
import QmcModel.Basic
import QmcModel.Rand
import QmcModel.Interaction

namespace Qmc
namespace Tempering

/-! ### small numeric helpers -/

/-- product of a list of rationals -/
def prodR : List Rat → Rat
  | [] => 1
  | x :: t => x * prodR t

/-- `f64::powi(x, e)` on exact rationals -/
def powi (x : Rat) (e : Int) : Rat :=
  if 0 ≤ e then x ^ e.toNat else (x ^ (-e).toNat)⁻¹

/-- own factorial (core only) -/
def fact : Nat → Nat
  | 0 => 1
  | n + 1 => (n + 1) * fact n

/-- `f64::signum` on the values the generators use (`+0.0 ↦ 1`; `-0.0`, NaN outside the domain) -/
def sgn (x : Rat) : Int := if x < 0 then -1 else 1

/-! ### the Ising Hamiltonian of `QmcIsingGraph` -/

/-- the fields of `QmcIsingGraph` that make up its Hamiltonian (`HamInfo`) -/
structure IsingH where
  edges : List (List Nat × Rat)
  gamma : Rat
  h : Rat
  nvars : Nat
  deriving Repr, DecidableEq

/-- `two_site_hamiltonian` -/
def twoSite (i0 i1 o0 o1 : Bool) (J : Rat) : Rat :=
  if i0 = o0 ∧ i1 = o1 then absR J + (if i0 = i1 then -J else J) else 0

/-- `longitudinal_hamiltonian`: diagonal only (`|h| ± h`), 0 off the diagonal (the code after fix
9464564; before it the off-diagonal entries were `|h|`) -/
def longitudinalW (i o : Bool) (h : Rat) : Rat :=
  if i = o then absR h + (if i then h else -h) else 0

namespace IsingH

def nedges (H : IsingH) : Nat := H.edges.length

/-- J of edge `b` -/
def J (H : IsingH) (b : Nat) : Rat := (H.edges.getD b ([], 0)).2

/-- `QmcIsingGraph::hamiltonian` (`unreachable!()` ↦ 0) -/
def w (H : IsingH) (bond : Nat) (ins outs : List Bool) : Rat :=
  if bond < H.nedges then
    twoSite (ins.getD 0 false) (ins.getD 1 false) (outs.getD 0 false) (outs.getD 1 false) (H.J bond)
  else if bond < H.nedges + H.nvars then H.gamma
  else if bond < H.nedges + 2 * H.nvars then
    longitudinalW (ins.getD 0 false) (outs.getD 0 false) H.h
  else 0

def wOp (H : IsingH) (o : Op) : Rat := H.w o.bond o.ins o.outs

/-- `num_bonds` handed to the diagonal update: the longitudinal bonds exist only when
`|h| > f64::EPSILON` -/
def numBonds (H : IsingH) : Nat :=
  H.nedges + H.nvars + (if absR H.h > eps then H.nvars else 0)

/-- number of variables derived from the edge list, as the constructor does -/
def nvarsOf (edges : List (List Nat × Rat)) : Nat :=
  (edges.foldl (fun m e => e.1.foldl max m) 0) + 1

end IsingH

/-- `∏ (ja / jb)^count(bond)` over `other.edges.zip(self.edges).enumerate()` starting at `k` -/
def bondRatioFrom : Nat → List (List Nat × Rat) → List (List Nat × Rat) → (Nat → Nat) → Rat
  | k, (_, ja) :: o, (_, jb) :: s, c => (ja / jb) ^ (c k) * bondRatioFrom (k + 1) o s c
  | _, _, _, _ => 1

/-- `(0..n).map(|v| count(v + start)).sum()` -/
def sumCount (c : Nat → Nat) (start : Nat) : Nat → Nat
  | 0 => 0
  | n + 1 => sumCount c start n + c (n + start)

/-- `GraphWeights::relative_weight` for `QmcIsingGraph`, as a function of the per-bond counters -/
def relWIsingCounts (self other : IsingH) (c : Nat → Nat) : Rat :=
  let br := bondRatioFrom 0 other.edges self.edges c
  let ne := self.nedges
  let tr := (other.gamma / self.gamma) ^ (sumCount c ne self.nvars)
  if absR self.h > eps then
    br * tr * (other.h / self.h) ^ (sumCount c (self.nvars + ne) self.nvars)
  else br * tr

/-- … on an operator string (`get_count(bond)` = number of stored ops with that bond) -/
def relativeWeightIsing (self other : IsingH) (s : Slots) : Rat :=
  relWIsingCounts self other (countBond s)

/-- `HamInfo::eq` (edges, transverse and longitudinal field compared exactly; the unfixed code
ignored the longitudinal field, known_findings F10) -/
def hamEqIsing (a b : IsingH) : Bool :=
  decide (a.edges = b.edges) && decide (a.gamma = b.gamma) && decide (a.h = b.h)

/-- the `zip … try_for_each` of `can_swap_managers` -/
def canSwapEdges : List (List Nat × Rat) → List (List Nat × Rat) → Bool
  | (ea, ja) :: a, (eb, jb) :: b => decide (ea = eb) && decide (sgn ja = sgn jb) && canSwapEdges a b
  | _, _ => true

/-- `QmcIsingGraph::can_swap_managers` (with the edge-count check; the unfixed code only zipped,
known_findings F14) -/
def canSwapIsing (a b : IsingH) : Bool :=
  decide (a.edges.length = b.edges.length) && canSwapEdges a.edges b.edges &&
    decide (sgn a.h = sgn b.h)

/-- the unfixed rule (zip without length check) — kept for the documented counter-witness -/
def canSwapIsingOld (a b : IsingH) : Bool :=
  canSwapEdges a.edges b.edges && decide (sgn a.h = sgn b.h)

/-! ### the generic sampler `Qmc` -/

abbrev GenH := List Interaction

/-- `bonds[bond].at(ins, outs).unwrap()` (a panic ↦ 0; never happens on a legal string) -/
def genW (H : GenH) (bond : Nat) (ins outs : List Bool) : Rat :=
  match H[bond]? with
  | some I => match I.atP ins outs with
    | .ok v => v
    | _ => 0
  | none => 0

def genWOp (H : GenH) (o : Op) : Rat := genW H o.bond o.ins o.outs

/-- `OpWeights::relative_weight_for_hamiltonians` for `FastOps`: walk the ops in time order;
`none` = `f64::INFINITY` -/
def relWLoop (w1 w2 : Op → Rat) : Slots → Rat → Option Rat
  | [], t => some t
  | none :: s, t => relWLoop w1 w2 s t
  | some op :: s, t =>
    if w1 op = 0 then some 0
    else if w2 op = 0 then none
    else relWLoop w1 w2 s (t * (w1 op / w2 op))

/-- `GraphWeights::relative_weight` for `Qmc` (`h1` = the other Hamiltonian, `h2` = own) -/
def relativeWeightGeneric (self other : GenH) (s : Slots) : Option Rat :=
  relWLoop (genWOp other) (genWOp self) s 1

/-- `Interaction::eq` -/
def interEq (a b : Interaction) : Bool :=
  decide (a.itype = b.itype) && decide (a.n = b.n) && decide (a.vars = b.vars) &&
    decide (a.constDiag = b.constDiag) &&
    (a.mat.zip b.mat).all (fun xy => decide (absR (xy.1 - xy.2) < eps))

/-- slice equality `self.bonds == other.bonds` -/
def bondsEq : GenH → GenH → Bool
  | [], [] => true
  | a :: s, b :: t => interEq a b && bondsEq s t
  | _, _ => false

/-- `GraphWeights::ham_eq` and `can_swap_managers` for `Qmc` are the same test -/
def hamEqGeneric (a b : GenH) : Bool := bondsEq a b
def canSwapGeneric (a b : GenH) : Bool := bondsEq a b

/-! ### abstract replicas and the container -/

/-- One ladder position. `ham`, `beta`, `offset`, `rng`, `bw` (heat-bath bond-weight table and
every other per-position field) belong to the position; `cfg` (spin state + operator string =
`state` + `op_manager`) is what a swap moves; `cutoff` is the sampler's own cutoff field. -/
structure Replica (H : Type) where
  ham : H
  beta : Rat
  offset : Rat
  rng : Nat
  bw : Nat
  cutoff : Nat
  cfg : Config

/-- what stays with the position -/
def Replica.frame {H : Type} (r : Replica H) : H × Rat × Rat × Nat × Nat :=
  (r.ham, r.beta, r.offset, r.rng, r.bw)

/-- `set_cutoff`: the sampler field is overwritten, the manager only grows -/
def padTo (s : Slots) (c : Nat) : Slots := s ++ List.replicate (c - s.length) none

def Replica.setCutoff {H : Type} (r : Replica H) (c : Nat) : Replica H :=
  { r with cutoff := c, cfg := { r.cfg with slots := padTo r.cfg.slots c } }

/-- what the container asks of its replicas -/
structure Iface (H : Type) where
  /-- `self.relative_weight(other)` on the string held by `self` -/
  relW : H → H → Slots → Rat
  hamEq : H → H → Bool
  canSwap : H → H → Bool

def isingIface : Iface IsingH :=
  { relW := relativeWeightIsing, hamEq := hamEqIsing, canSwap := canSwapIsing }

/-- for the generic sampler `∞` is mapped to 0 here; the value is never used by the container
because `canSwap → hamEq` (theorem `generic_canSwap_imp_hamEq`) -/
def genericIface : Iface GenH :=
  { relW := fun s o sl => (relativeWeightGeneric s o sl).getD 0
    hamEq := hamEqGeneric, canSwap := canSwapGeneric }

section
variable {H : Type} (I : Iface H)

/-- `rel_h_weight` of `swap_on_chunks` -/
def relH (a b : Replica H) (evalH : Bool) : Rat :=
  if evalH then I.relW a.ham b.ham a.cfg.slots * I.relW b.ham a.ham b.cfg.slots else 1

/-- `p_swap = (βa/βb)^(n_b − n_a) · rel_h_weight` -/
def pSwap (a b : Replica H) (evalH : Bool) : Rat :=
  powi (a.beta / b.beta) ((countOps b.cfg.slots : Int) - (countOps a.cfg.slots : Int)) *
    relH I a b evalH

/-- `swap_manager_and_state` (`SwapManagers::swap_graphs`): exchange (state, operator manager), then
both samplers take the larger of the two cutoffs through `set_cutoff` (the code after fix 074d32a;
inside a tempering step the cutoffs are already equal, so this part is the identity there —
`swapGraphs_eq_exchange`). -/
def swapGraphs (a b : Replica H) : Replica H × Replica H :=
  (({ a with cfg := b.cfg } : Replica H).setCutoff (max a.cutoff b.cutoff),
   ({ b with cfg := a.cfg } : Replica H).setCutoff (max a.cutoff b.cutoff))

/-- `swap_on_chunks`: exchange the configurations iff `p_swap > u` -/
def swapOnChunks (a b : Replica H) (u : Rat) (evalH : Bool) : Replica H × Replica H × Bool :=
  if u < pSwap I a b evalH then ((swapGraphs a b).1, (swapGraphs a b).2, true)
  else (a, b, false)

/-- record of one pair decision -/
structure Dec where
  left : Nat
  evaluated : Bool
  p : Rat
  u : Rat
  accepted : Bool
  relB : Rat
  relA : Rat
  deriving Repr

def mkDec (pos : Nat) (a b : Replica H) (u : Rat) (eq : Bool) : Dec :=
  { left := pos, evaluated := !eq, p := pSwap I a b (!eq), u := u,
    accepted := decide (u < pSwap I a b (!eq)),
    relB := I.relW a.ham b.ham a.cfg.slots, relA := I.relW b.ham a.ham b.cfg.slots }

/-- `perform_swaps`: for each chunk of two, draw `gen_range(0.0..1.0)`, then decide -/
def performSwaps : Nat → List (Replica H) → List Bool → RS → List (Replica H) × List Dec × RS
  | pos, a :: b :: rest, eq :: eqs, s =>
    let (u, s1) := s.genRangeF 1
    let r := swapOnChunks I a b u (!eq)
    let (rest', ds, s2) := performSwaps (pos + 2) rest eqs s1
    (r.1 :: r.2.1 :: rest', mkDec I pos a b u eq :: ds, s2)
  | _, rs, _, s => (rs, [], s)

/-- the uniforms of `parallel_perform_swaps`, drawn ahead of time -/
def drawUniforms : Nat → RS → List Rat × RS
  | 0, s => ([], s)
  | k + 1, s =>
    let (u, s1) := s.genRangeF 1
    let (us, s2) := drawUniforms k s1
    (u :: us, s2)

def decideSwaps : Nat → List (Replica H) → List Rat → List Bool → List (Replica H) × List Dec
  | pos, a :: b :: rest, u :: us, eq :: eqs =>
    let r := swapOnChunks I a b u (!eq)
    let (rest', ds) := decideSwaps (pos + 2) rest us eqs
    (r.1 :: r.2.1 :: rest', mkDec I pos a b u eq :: ds)
  | _, rs, _, _ => (rs, [])

/-- `parallel_perform_swaps` -/
def parallelPerformSwaps (pos : Nat) (gs : List (Replica H)) (eqs : List Bool) (s : RS) :
    List (Replica H) × List Dec × RS :=
  let (us, s') := drawUniforms (gs.length / 2) s
  let (gs', ds) := decideSwaps I pos gs us eqs
  (gs', ds, s')

/-- `make_eqs_from_graphs` -/
def makeEqs : List (Replica H) → List Bool
  | a :: b :: rest => I.hamEq a.ham b.ham :: makeEqs rest
  | _ => []

end

/-- length of `make_first_subgraphs` -/
def firstLen (n : Nat) : Nat := if n % 2 = 0 then n else n - 1
/-- end index of `make_second_subgraphs` (`[1..n]` for odd `n`, `[1..n-1]` for even `n`) -/
def secondEnd (n : Nat) : Nat := if n % 2 = 1 then n else n - 1

def firstSub {α : Type} (gs : List α) : List α := gs.take (firstLen gs.length)
def secondSub {α : Type} (gs : List α) : List α := (gs.take (secondEnd gs.length)).drop 1

structure Container (H : Type) where
  graphs : List (Replica H)
  rng : RS
  eqA : Option (List Bool)
  eqB : Option (List Bool)
  totalSwaps : Nat

def maxCutoff {H : Type} (gs : List (Replica H)) : Nat := gs.foldl (fun m r => max m r.cutoff) 0

def countAccepted (ds : List Dec) : Nat := (ds.filter (·.accepted)).length

section
variable {H : Type} (I : Iface H)

/-- the swap routine used for a phase: serial `perform_swaps` or `parallel_perform_swaps` -/
abbrev SwapFn (H : Type) := Nat → List (Replica H) → List Bool → RS → List (Replica H) × List Dec × RS

/-- `tempering_a`: pairs (0,1), (2,3), … -/
def phaseA (f : SwapFn H) (gs : List (Replica H)) (eqs : List Bool) (s : RS) :
    List (Replica H) × List Dec × RS :=
  let r := f 0 (firstSub gs) eqs s
  (r.1 ++ gs.drop (firstLen gs.length), r.2.1, r.2.2)

/-- `tempering_b`: pairs (1,2), (3,4), … -/
def phaseB (f : SwapFn H) (gs : List (Replica H)) (eqs : List Bool) (s : RS) :
    List (Replica H) × List Dec × RS :=
  let r := f 1 (secondSub gs) eqs s
  (gs.take 1 ++ r.1 ++ gs.drop (secondEnd gs.length), r.2.1, r.2.2)

/-- the cached pairwise Hamiltonian equalities, recomputed when either is missing
(`make_ham_equalities`) -/
def hamEqualities (c : Container H) : List Bool × List Bool :=
  match c.eqA, c.eqB with
  | some a, some b => (a, b)
  | _, _ => (makeEqs I (firstSub c.graphs), makeEqs I (secondSub c.graphs))

/-- the two phases in the order decided by the `gen_bool(0.5)` draw `g` (`fa` = swap routine of
phase a; phase b always uses the serial routine), on the cutoff-equalised ladder `gs` -/
def stepCore (fa : SwapFn H) (ts : Nat) (eqs : List Bool × List Bool) (gs : List (Replica H))
    (g : Bool × RS) : Container H × List Dec :=
  if g.1 then
    let ra := phaseA fa gs eqs.1 g.2
    let rb := phaseB (performSwaps I) ra.1 eqs.2 ra.2.2
    ({ graphs := rb.1, rng := rb.2.2, eqA := some eqs.1, eqB := some eqs.2,
       totalSwaps := ts + countAccepted ra.2.1 + countAccepted rb.2.1 }, ra.2.1 ++ rb.2.1)
  else
    let rb := phaseB (performSwaps I) gs eqs.2 g.2
    let ra := phaseA fa rb.1 eqs.1 rb.2.2
    ({ graphs := ra.1, rng := ra.2.2, eqA := some eqs.1, eqB := some eqs.2,
       totalSwaps := ts + countAccepted rb.2.1 + countAccepted ra.2.1 }, rb.2.1 ++ ra.2.1)

/-- body shared by `tempering_step` and `parallel_tempering_step`: Hamiltonian equalities (cached),
cutoffs raised to the ladder maximum, order draw, two phases -/
def stepBody (fa : SwapFn H) (c : Container H) : Container H × List Dec :=
  stepCore I fa c.totalSwaps (hamEqualities I c)
    (c.graphs.map (·.setCutoff (maxCutoff c.graphs))) (c.rng.genBool (1 / 2))

/-- `TemperingContainer::tempering_step` (returns the decision log as well) -/
def temperingStep (c : Container H) : Container H × List Dec :=
  if c.graphs.length ≤ 1 then (c, []) else stepBody I (performSwaps I) c

/-- `ParallelQmcTimeSteps::parallel_tempering_step` (returns early for ≤ 1 replica, like the serial step — since
`fix:` f20b8b5, finding F30; before, only an *empty* ladder returned early) -/
def parallelTemperingStep (c : Container H) : Container H × List Dec :=
  if c.graphs.length ≤ 1 then (c, []) else stepBody I (parallelPerformSwaps I) c

/-- `add_qmc_stepper` -/
def addStepper (c : Container H) (r : Replica H) : Option (Container H) :=
  match c.graphs.getLast? with
  | some g => if I.canSwap g.ham r.ham then
      some { c with graphs := c.graphs ++ [r], eqA := none, eqB := none } else none
  | none => some { c with graphs := c.graphs ++ [r], eqA := none, eqB := none }

end

/-! ### configuration weights (what the property statement calls `W_x(C)`) -/

/-- product of `w(op)` over the stored operators -/
def opsProd (w : Op → Rat) : Slots → Rat
  | [] => 1
  | none :: s => opsProd w s
  | some o :: s => w o * opsProd w s

/-- SSE weight of an operator string `s` for a replica with weight function `w`, inverse
temperature `β` and cutoff `L`: `β^n (L−n)!/L! ∏ w(op)` -/
def configWeight (w : Op → Rat) (β : Rat) (L : Nat) (s : Slots) : Rat :=
  β ^ (countOps s) * ((fact (L - countOps s) : Rat) / (fact L : Rat)) * opsProd w s

/-- every stored op is a positive-weight term of the Hamiltonian (`nb` bonds, weights `w`) -/
def LegalOps (nb : Nat) (w : Op → Rat) (s : Slots) : Prop :=
  ∀ o, some o ∈ s → o.bond < nb ∧ 0 < w o

def LegalIsing (H : IsingH) (s : Slots) : Prop := LegalOps H.numBonds H.wOp s

/-- `W_x(C)` for an Ising replica -/
def WIsing (x : Replica IsingH) (s : Slots) : Rat := configWeight x.ham.wOp x.beta x.cutoff s

/-- the Metropolis ratio of the property statement -/
def metropolisRatio (a b : Replica IsingH) : Rat :=
  WIsing a b.cfg.slots * WIsing b a.cfg.slots / (WIsing a a.cfg.slots * WIsing b b.cfg.slots)

/-! ### protocol (shared by the C10 and C05 drivers) -/
namespace Drv
open Proto

def parseEdges (s : String) : List (List Nat × Rat) :=
  if s == "-" then [] else
  (s.splitOn ",").filterMap fun tok =>
    match tok.splitOn ":" with
    | [vs, j] => some ((vs.splitOn ".").map parseNat, parseRat j)
    | _ => none

def parseHex (s : String) : Nat :=
  s.toList.foldl (fun a c => a * 16 + (if c.isDigit then c.toNat - 48 else c.toNat - 87)) 0

def parseMat (s : String) : List Rat := if s == "-" || s == "" then [] else (s.splitOn ";").map parseRat

/-- generic interactions `k:vars:mat,…` rebuilt through the model constructors -/
def parseGenH (s : String) : GenH :=
  if s == "-" then [] else
  (s.splitOn ",").filterMap fun tok =>
    match tok.splitOn ":" with
    | [k, vs, m] =>
      let vars := (vs.splitOn ".").map parseNat
      let r := if k == "d" then Interaction.newDiagonal (parseMat m) vars else Interaction.new (parseMat m) vars
      match r with
      | .ok i => some i
      | _ => none
    | _ => none

def fl (r : Rat) : String := showApprox r
def flInv (r : Rat) : String := if r = 0 then "inf" else showApprox (1 / r)
def clamp01 (p : Rat) : Rat := if p < 0 then 0 else if 1 < p then 1 else p

/-- kind-specific pieces -/
structure Kind (H : Type) where
  iface : Iface H
  /-- number of tokens describing the Hamiltonian -/
  ntok : Nat
  parse : List String → H
  wOp : H → Op → Rat

def isingKind : Kind IsingH :=
  { iface := isingIface, ntok := 4
    parse := fun t => match t with
      | [e, g, h, n] => { edges := parseEdges e, gamma := parseRat g, h := parseRat h, nvars := parseNat n }
      | _ => { edges := [], gamma := 0, h := 0, nvars := 0 }
    wOp := IsingH.wOp }

def genericKind : Kind GenH :=
  { iface := genericIface, ntok := 2
    parse := fun t => match t with
      | [b, _] => parseGenH b
      | _ => []
    wOp := genWOp }

/-- replicas: `<ham tokens> beta cutoff state slots tag` each -/
partial def parseReplicas {H : Type} (K : Kind H) (toks : List String) : List (Replica H) :=
  let per := K.ntok + 5
  if toks.length < per then [] else
  let t := toks.take per
  let ham := K.parse (t.take K.ntok)
  match t.drop K.ntok with
  | [beta, cutoff, st, slots, tag] =>
    { ham := ham, beta := parseRat beta, offset := 0, rng := parseHex tag, bw := parseHex tag,
      cutoff := parseNat cutoff, cfg := { state := parseBits st, slots := parseSlots slots } } ::
      parseReplicas K (toks.drop per)
  | _ => []

def showHex16 (n : Nat) : String :=
  let ds := (List.range 16).reverse.map fun k =>
    let d := (n / 16 ^ k) % 16
    Char.ofNat (if d < 10 then 48 + d else 87 + d)
  String.ofList ds

def showAfter {H : Type} (r : Replica H) : String :=
  s!"{r.cutoff} {r.cfg.slots.length} {showBits r.cfg.state} {showSlots r.cfg.slots} {showHex16 r.bw}"

/-- the Metropolis probability computed independently from the operator strings -/
def ratioFromStrings {H : Type} (K : Kind H) (a b : Replica H) : Rat :=
  let W (x : Replica H) (s : Slots) := configWeight (K.wOp x.ham) x.beta x.cutoff s
  W a b.cfg.slots * W b a.cfg.slots / (W a a.cfg.slots * W b b.cfg.slots)

/-- replay a decision log on the equalised ladder to recover the two replicas each decision saw -/
def replicasAt {H : Type} (gs : List (Replica H)) (ds : List Dec) : List (Replica H × Replica H) :=
  (ds.foldl (fun (acc : List (Replica H) × List (Replica H × Replica H)) d =>
    match acc.1[d.left]?, acc.1[d.left + 1]? with
    | some a, some b =>
      let gs' := if d.accepted then
        (acc.1.set d.left { a with cfg := b.cfg }).set (d.left + 1) { b with cfg := a.cfg } else acc.1
      (gs', acc.2 ++ [(a, b)])
    | _, _ => acc) (gs, [])).2

def showDec {H : Type} (K : Kind H) (bisect : Bool) (d : Dec) (ab : Option (Replica H × Replica H)) : String :=
  let p1 := if bisect then fl (clamp01 d.p) else "x"
  let p2 := if bisect then
      match ab with
      | some (a, b) => fl (clamp01 (ratioFromStrings K a b))
      | none => "noreplica"
    else "x"
  -- exact zero test: a pair whose ratio is 0 must be rejected even when the uniform draw is 0.0
  -- (`p_swap > u`, not `>=`); `?` (tie) if the rational is positive but could underflow in f64
  let z := if !bisect then "x" else if d.p ≤ 0 then "Z"
    else if d.p < 1 / (10 : Rat) ^ 200 then "?" else "N"
  let base := s!"{d.left} {if d.evaluated then "V" else "E"} {showBool d.accepted} {p1} {p2} {z}"
  if d.evaluated then s!"{base} {fl d.relB} {flInv d.relB} {fl d.relA} {flInv d.relA}" else base

def minMargin (ds : List Dec) : Rat :=
  ds.foldl (fun m d => let x := absR (d.p - d.u); if x < m then x else m) 1

def verdict (s : RS) (ds : List Dec) : String :=
  if minMargin ds < 1 / 1000000000 then "?" else s.verdict

/-- Replay the container's life so far — the exact sequence of public calls `a` (`add_qmc_stepper`
of the next replica), `s` (`tempering_step`), `p` (`parallel_tempering_step`) — to obtain the state
of the cached Hamiltonian equalities the way the code maintains it (cleared by every add, rebuilt
by a step when either is missing). Only the frames matter for the cache, so the current replicas
are used throughout; `none` = an add is refused. -/
def replayCache {H : Type} (I : Iface H) (gs : List (Replica H)) (evs : List Char) :
    Option (Option (List Bool) × Option (List Bool) × Nat) :=
  let init : Option (Container H × List (Replica H)) :=
    some ({ graphs := [], rng := RS.ofScript [], eqA := none, eqB := none, totalSwaps := 0 }, gs)
  let fin := evs.foldl (fun (st : Option (Container H × List (Replica H))) e =>
    match st with
    | none => none
    | some (c, rest) =>
      if e == 'a' then
        match rest with
        | r :: rest' => (addStepper I c r).map (fun c' => (c', rest'))
        | [] => none
      else if e == 's' then some ((temperingStep I c).1, rest)
      else if e == 'p' then some ((parallelTemperingStep I c).1, rest)
      else some (c, rest)) init
  fin.map (fun (c, _) => (c.eqA, c.eqB, c.graphs.length))

def runStep {H : Type} (K : Kind H) (par : Bool) (toks : List String) : String :=
  match toks with
  | bis :: _n :: sw :: words :: hist :: rest =>
    let gs := parseReplicas K rest
    match replayCache K.iface gs hist.toList with
    | none => "refused"
    | some (eqA, eqB, added) =>
    if added != gs.length then "bad-history" else
    let c : Container H := { graphs := gs, rng := RS.ofScript (parseNats words), eqA := eqA, eqB := eqB,
                             totalSwaps := parseNat sw }
    let bisect := bis == "1"
    let (c', ds) := if par then parallelTemperingStep K.iface c else temperingStep K.iface c
    let after := String.intercalate " " (c'.graphs.map showAfter)
    if par then
      s!"{after} {c'.totalSwaps} {countAccepted ds} {verdict c'.rng ds}"
    else
      let eqd := gs.map (·.setCutoff (maxCutoff gs))
      let seen := replicasAt eqd ds
      let decs := (List.range ds.length).filterMap fun k => ds[k]?.map fun d => showDec K bisect d seen[k]?
      let order := if bisect && gs.length ≥ 3 then "9223372036854775808" else "-"
      let dtok := if decs.isEmpty then "-" else String.intercalate " " decs
      s!"{after} {c'.totalSwaps} {order} {ds.length} {dtok} {verdict c'.rng ds}"
  | _ => "bad-step"

def flOpt (r : Option Rat) : String :=
  match r with
  | some v => fl v
  | none => "inf"

def step (toks : List String) : String :=
  match toks with
  | "sw" :: "i" :: rest => runStep isingKind false rest
  | "sw" :: "g" :: rest => runStep genericKind false rest
  | "psw" :: "i" :: rest => runStep isingKind true rest
  | "psw" :: "g" :: rest => runStep genericKind true rest
  | ["pair", "i", e1, g1, h1, n1, s1, e2, g2, h2, n2, s2] =>
    let a := isingKind.parse [e1, g1, h1, n1]
    let b := isingKind.parse [e2, g2, h2, n2]
    let can := canSwapIsing a b
    let sameShape := a.edges.length == b.edges.length && a.nvars == b.nvars
    let (rab, rba) := if can && sameShape then
        (fl (relativeWeightIsing a b (parseSlots s1)), fl (relativeWeightIsing b a (parseSlots s2)))
      else ("x", "x")
    s!"{showBool can} {showBool (canSwapIsing b a)} {showBool (hamEqIsing a b)} {rab} {rba}"
  | ["pair", "g", b1, _n1, s1, b2, _n2, s2] =>
    let a := parseGenH b1
    let b := parseGenH b2
    s!"{showBool (canSwapGeneric a b)} {showBool (canSwapGeneric b a)} {showBool (hamEqGeneric a b)} {flOpt (relativeWeightGeneric a b (parseSlots s1))} {flOpt (relativeWeightGeneric b a (parseSlots s2))}"
  | ["mat", e, g, h, n] =>
    -- every matrix element of `QmcIsingGraph::hamiltonian`: all bonds × all in/out patterns
    let H := isingKind.parse [e, g, h, n]
    let bonds := List.range (H.nedges + 2 * H.nvars)
    let vals := bonds.flatMap fun b =>
      let k := if b < H.nedges then 2 else 1
      (patterns k).flatMap fun ins => (patterns k).map fun outs => showRat (H.w b ins outs)
    String.intercalate "," vals
  | ["swapg", e1, g1, h1, n1, c1, st1, sl1, e2, g2, h2, n2, c2, st2, sl2] =>
    -- the public `swap_graphs` on two samplers with (possibly) different cutoffs
    let mk (e g h n c st sl : String) : Replica IsingH :=
      { ham := isingKind.parse [e, g, h, n], beta := 1, offset := 0, rng := 0, bw := 0,
        cutoff := parseNat c, cfg := { state := parseBits st, slots := parseSlots sl } }
    let r := swapGraphs (mk e1 g1 h1 n1 c1 st1 sl1) (mk e2 g2 h2 n2 c2 st2 sl2)
    let sh (x : Replica IsingH) := s!"{x.cutoff} {x.cfg.slots.length} {showBits x.cfg.state} {showSlots x.cfg.slots}"
    s!"{sh r.1} {sh r.2}"
  | "gadmit" :: hams =>
    -- admission of generic replicas: `add_qmc_stepper` tests the newcomer against the last replica with
    -- `can_swap_managers` (= `bonds == bonds`); the verdict is the index of the first refusal
    let hs := hams.map parseGenH
    let mkR (h : GenH) : Replica GenH :=
      { ham := h, beta := 1, offset := 0, rng := 0, bw := 0, cutoff := 0, cfg := { state := [], slots := [] } }
    let r := hs.foldl (fun (st : Container GenH × Option Nat × Nat) h =>
      match st.2.1 with
      | some _ => st
      | none =>
        match addStepper genericIface st.1 (mkR h) with
        | some c' => (c', none, st.2.2 + 1)
        | none => (st.1, some st.2.2, st.2.2))
      (({ graphs := [], rng := RS.ofScript [], eqA := none, eqB := none, totalSwaps := 0 } : Container GenH), none, 0)
    match r.2.1 with
    | some k => s!"refused@{k}"
    | none => "accepted"
  | "ovw" :: _name :: e1 :: g1 :: h1 :: n1 :: b1 :: c1 :: st1 :: sl1 :: e2 :: g2 :: h2 :: n2 :: b2 :: c2 :: st2 :: sl2 :: [] =>
    -- fixed witness of known finding F28: is the exact number `swap_on_chunks` should compare with its draw >= 1?
    let mk (e g h n b c st sl : String) : Replica IsingH :=
      { ham := isingKind.parse [e, g, h, n], beta := parseRat b, offset := 0, rng := 0, bw := 0,
        cutoff := parseNat c, cfg := { state := parseBits st, slots := parseSlots sl } }
    let a := mk e1 g1 h1 n1 b1 c1 st1 sl1
    let b := mk e2 g2 h2 n2 b2 c2 st2 sl2
    if 1 ≤ pSwap isingIface a b (!(hamEqIsing a.ham b.ham)) then "ge1" else "lt1"
  | "cons" :: toks =>
    -- periodic world lines of the final configurations of a ladder: `<state> <slots>` per replica
    let rec go : List String → List Bool
      | st :: sl :: rest =>
        decide (Consistent { state := parseBits st, slots := parseSlots sl }) :: go rest
      | _ => []
    showBits (go toks)
  | ["hist", _k, _n, t, sf, mf] =>
    -- cadence of the drivers (C17): a tempering step at every multiple of `sf`, a sample at every
    -- multiple of `mf`, up to `t`
    s!"{parseNat t / parseNat sf} {parseNat t / parseNat mf}"
  | ["mismatch", e1, g1, h1, n1, e2, g2, h2, n2] =>
    let a := isingKind.parse [e1, g1, h1, n1]
    let b := isingKind.parse [e2, g2, h2, n2]
    if canSwapIsing a b then "accepted" else "refused"
  | _ => "bad-op"

end Drv
end Tempering
end Qmc
