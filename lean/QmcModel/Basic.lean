/-
Basic objects of the SSE model: operators, slot arrays, configurations, propagation
(`OpContainer::verify`, `itime_fold`), the abstract Hamiltonian interface, and the
protocol encoding of operator strings shared by all drivers. Core Lean only.

Mirrors: `BasicOp`, `OpType` (src/sse/qmc_traits/op_container.rs), `Hamiltonian` trait
(src/sse/qmc_traits/diagonal.rs).
-/
import QmcModel.Proto

namespace Qmc

/-- `BasicOp`: variables, bond index, recorded inputs and outputs, the `OpType` tag
(`tagDiag = true` for `OpType::Diagonal`, in which case `outs = ins`), and the `constant` flag. -/
structure Op where
  vars : List Nat
  bond : Nat
  ins : List Bool
  outs : List Bool
  tagDiag : Bool
  const : Bool
  deriving DecidableEq, Repr, Inhabited

namespace Op
/-- `Op::diagonal(vars, bond, state, constant)` -/
def diagonal (vars : List Nat) (bond : Nat) (st : List Bool) (c : Bool) : Op :=
  { vars := vars, bond := bond, ins := st, outs := st, tagDiag := true, const := c }

/-- `Op::offdiagonal(vars, bond, ins, outs, constant)` (tag is Offdiagonal even when ins = outs) -/
def offdiagonal (vars : List Nat) (bond : Nat) (i o : List Bool) (c : Bool) : Op :=
  { vars := vars, bond := bond, ins := i, outs := o, tagDiag := false, const := c }

/-- `BasicOp::is_diagonal` (reads the tag) -/
def isDiagonal (o : Op) : Bool := o.tagDiag

/-- `clone_and_edit_in_out` / `edit_in_out`: tag recomputed from the new values -/
def withInOut (o : Op) (i u : List Bool) : Op :=
  { o with ins := i, outs := u, tagDiag := (i == u) }

/-- `index_of_var` -/
def indexOfVar (o : Op) (v : Nat) : Option Nat :=
  let i := o.vars.idxOf v
  if i < o.vars.length then some i else none

/-- structural well-formedness every stored op satisfies -/
def WF (o : Op) : Prop :=
  o.ins.length = o.vars.length ∧ o.outs.length = o.vars.length ∧ o.vars.Nodup ∧
  (o.tagDiag = true → o.outs = o.ins)

instance (o : Op) : Decidable o.WF := by unfold WF; infer_instance
end Op

abbrev Slots := List (Option Op)

structure Config where
  state : List Bool
  slots : Slots
  deriving DecidableEq, Repr

/-- write `vals` at positions `vars` -/
def writeVars (st : List Bool) (vars : List Nat) (vals : List Bool) : List Bool :=
  (vars.zip vals).foldl (fun s vb => s.set vb.1 vb.2) st

/-- read the sub-state at `vars` (`false` out of range; callers guarantee range) -/
def readVars (st : List Bool) (vars : List Nat) : List Bool :=
  vars.map (fun v => st.getD v false)

/-- does the rolling state agree with the op's recorded inputs -/
def inputsMatch (st : List Bool) (o : Op) : Bool :=
  (o.vars.zip o.ins).all (fun vb => st[vb.1]? == some vb.2)

/-- one step of `OpContainer::verify`: check inputs, write outputs -/
def applyOp (st : List Bool) (o : Op) : Option (List Bool) :=
  if inputsMatch st o then some (writeVars st o.vars o.outs) else none

/-- propagate a state through the slots in imaginary-time order; `none` if some op does not
meet its recorded inputs -/
def propagate (st : List Bool) : Slots → Option (List Bool)
  | [] => some st
  | none :: t => propagate st t
  | some o :: t =>
    match applyOp st o with
    | some st' => propagate st' t
    | none => none

/-- `OpContainer::verify(state)` -/
def Consistent (c : Config) : Prop := propagate c.state c.slots = some c.state

instance (c : Config) : Decidable (Consistent c) := by unfold Consistent; infer_instance

/-- the states `itime_fold` hands to the user's fold function: one per slot, the state *after*
applying the op at that slot (outputs written without checking inputs, as the code does). -/
def statesVisited (st : List Bool) : Slots → List (List Bool)
  | [] => []
  | none :: t => st :: statesVisited st t
  | some o :: t =>
    let st' := writeVars st o.vars o.outs
    st' :: statesVisited st' t

def countOps (s : Slots) : Nat := (s.filter Option.isSome).length
def countBond (s : Slots) (b : Nat) : Nat :=
  (s.filter (fun o => match o with | some op => op.bond == b | none => false)).length

/-- the `Hamiltonian` trait: number of bonds, variables and constant flag per bond
(`edge_fn`), matrix elements. -/
structure Ham where
  nbonds : Nat
  vars : Nat → List Nat
  const : Nat → Bool
  w : Nat → List Bool → List Bool → Rat

/-- index of a bit pattern, most significant bit first (`Interaction::index_from_iter`) -/
def bitIndex (bs : List Bool) : Nat :=
  bs.foldl (fun acc b => acc * 2 + (if b then 1 else 0)) 0

/-- a bond given by an explicit full matrix indexed by `outs ++ ins` (length `4^k`) -/
structure TBond where
  vars : List Nat
  const : Bool
  mat : List Rat
  deriving Repr

def TBond.w (b : TBond) (ins outs : List Bool) : Rat := b.mat.getD (bitIndex (outs ++ ins)) 0

/-- the harness' `TableHam` -/
def tableHam (bs : List TBond) : Ham :=
  { nbonds := bs.length
    vars := fun b => (bs[b]?.map (·.vars)).getD []
    const := fun b => (bs[b]?.map (·.const)).getD false
    w := fun b i o => (bs[b]?.map (·.w i o)).getD 0 }

/-! ### protocol encoding -/
namespace Proto

/-- `H<n>!vars:const:mat!…` -/
def parseTableHam (s : String) : List TBond :=
  match s.splitOn "!" with
  | _ :: rest =>
    rest.filterMap fun tok =>
      match tok.splitOn ":" with
      | [vs, c, m] => some { vars := parseNats vs, const := (c == "1"), mat := parseRats m }
      | _ => none
  | [] => []

def showOp (o : Op) : String :=
  s!"{o.bond};{showNats o.vars};{showBits o.ins};{showBits o.outs};{if o.tagDiag then "D" else "O"};{showBool o.const}"

def parseOp (s : String) : Option Op :=
  match s.splitOn ";" with
  | [b, vs, i, o, t, c] =>
    some { bond := parseNat b, vars := parseNats vs, ins := parseBits i, outs := parseBits o,
           tagDiag := (t == "D"), const := (c == "1") }
  | _ => none

/-- `L<cutoff>:p@op+p@op+…` -/
def showSlots (s : Slots) : String :=
  let ops := (List.range s.length).zip s |>.filterMap fun (p, o) => o.map fun op => s!"{p}@{showOp op}"
  s!"L{s.length}:{String.intercalate "+" ops}"

def parseSlots (s : String) : Slots :=
  match s.splitOn ":" with
  | [l, rest] =>
    let cutoff := parseNat (l.drop 1).toString
    let base : Slots := List.replicate cutoff none
    if rest == "" then base else
    (rest.splitOn "+").foldl (fun acc tok =>
      match tok.splitOn "@" with
      | [p, o] => acc.set (parseNat p) (parseOp o)
      | _ => acc) base
  | _ => []

end Proto
end Qmc
