/-
Line-protocol helpers shared by all drivers (core Lean only; no Mathlib so drivers link).
Tokens: naturals, integers, rationals `num/den`, bit strings `0101` (`-` = empty),
comma lists (`-` = empty).
-/
namespace Qmc.Proto

def parseNat (s : String) : Nat := s.toNat?.getD 0
def parseInt (s : String) : Int := s.toInt?.getD 0

/-- a denominator: a plain natural, or `2^k` (the harness prints tiny binary64 values that way) -/
def parseDen (d : String) : Nat :=
  match d.splitOn "^" with
  | ["2", k] => 2 ^ parseNat k
  | _ => parseNat d

/-- `num/den` (den > 0; `den` may be written `2^k`) or a plain integer. -/
def parseRat (s : String) : Rat :=
  match s.splitOn "/" with
  | [n, d] => mkRat (parseInt n) (parseDen d)
  | [n] => (parseInt n : Rat)
  | _ => 0

def parseBits (s : String) : List Bool :=
  if s == "-" then [] else s.toList.map (· == '1')

def parseList (f : String → α) (s : String) : List α :=
  if s == "-" || s == "" then [] else (s.splitOn ",").map f

def parseNats := parseList parseNat
def parseRats := parseList parseRat
def parseInts := parseList parseInt

def showBits (bs : List Bool) : String :=
  if bs.isEmpty then "-" else String.ofList (bs.map fun b => if b then '1' else '0')

/-- `num/den`; a power-of-two denominator of 2^127 or more is written `2^k`, as the harness' `rat()` does -/
def showRat (r : Rat) : String :=
  let k := r.den.log2
  if 127 ≤ k && r.den == 2 ^ k then s!"{r.num}/2^{k}" else s!"{r.num}/{r.den}"

def showList (f : α → String) (xs : List α) : String :=
  if xs.isEmpty then "-" else String.intercalate "," (xs.map f)

def showNats (xs : List Nat) : String := showList toString xs
def showRats (xs : List Rat) : String := showList showRat xs
def showBool (b : Bool) : String := if b then "1" else "0"

/-- Approximate decimal rendering of a rational for `~` tokens (12 significant decimals is
plenty for a 1e-9 comparison). -/
def showApprox (r : Rat) : String :=
  let scale : Nat := 10 ^ 15
  let v : Int := (r * (scale : Rat)).floor
  s!"~{v}e-15"

def tokens (line : String) : List String :=
  (line.trimAscii.toString.splitOn " ").filter (· ≠ "")

/-- Generic line loop: one output line per input line. -/
partial def loop (h : IO.FS.Stream) (step : List String → String) : IO Unit := do
  let line ← h.getLine
  if line.isEmpty then return ()
  let out := step (tokens line)
  IO.println out
  loop h step

def run (step : List String → String) : IO Unit := do
  let stdin ← IO.getStdin
  loop stdin step

end Qmc.Proto
