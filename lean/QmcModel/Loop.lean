/-
Directed-loop update of /repo/src/sse/qmc_traits/directed_loop.rs
(`make_loop_update_with_rng`, `apply_loop_update`, `loop_body`, `adjust_states` of
qmc_types.rs) as an exact, executable function of (configuration, weight function, script)
over the abstract slot list. The navigation getters of fast_ops.rs used by the loop
(`get_nth_p`, `get_next_p_for_rel_var`, `get_previous_p_for_rel_var`, `get_first_p_for_var`,
`get_last_p_for_var`) are modelled by scans of the slot list (justified by C11, re-checked by
the C04 correspondence). Core Lean only; importable by other properties (C06/C07).

Draw order (read from the source, after the fix 7073632 of finding F22): nothing if `n = 0`;
ONE draw `gen_range(0..Σ_ops k_op)` over the variable slots of all operators in chain order
(first occupied p first; within an op the relative variables 0..k_op-1), giving (op position,
relative variable) — every leg equally likely whatever the arity of its op —, then
`gen::<bool>()` (`true` → `OpSide::Inputs`); then one `gen_range(0.0..Σ exit weights)` per vertex
visit. (Before the fix: `gen_range(0..n)` for the op, then `gen_range(0..k_op)`; kept as
`loopStartOld` for the counter-witness `old_start_rule_not_leg_uniform`.)

Exit choice at a vertex (op with recorded (ins, outs), entrance leg `i`): for every leg `x` in
the order inputs 0..k-1, outputs 0..k-1 the weight is `w(bond, (ins,outs) with i and x toggled)`
(a bounce `x = i` toggles twice = unchanged); `choice = gen_range(0.0..total)`; the exit is the
first leg with `c < weight` where `c` starts at `choice` and is decreased by every weight that
was passed (`try_fold`); the comparison is strict, so a zero-weight leg is never chosen, not
even for `choice = 0`. The op is rewritten with entrance and exit toggled (`edit_in_out`, tag
recomputed). The loop closes when the exit leg is the initial (op, leg) or when the leg the
exit is linked to is the initial (op, leg). When the exit leg has no next (previous) op on its
variable the link crosses p = 0: `state[var]` is *set* to the new value of the exit leg and the
walk continues at the first (last) op of the variable.
-/
import QmcModel.Basic
import QmcModel.Rand

namespace Qmc

/-- `Leg = (usize, OpSide)`: relative variable and side (`out = false` ↔ `OpSide::Inputs`). -/
structure Leg where
  rel : Nat
  out : Bool
  deriving DecidableEq, Repr, Inhabited

/-- `OpSide::reverse` on a leg's side, keeping the relative variable. -/
def Leg.reverseTo (l : Leg) (rel : Nat) : Leg := ⟨rel, !l.out⟩

/-- `adjust_states(before, after, leg)` on the pair (inputs, outputs). -/
def flipIO (io : List Bool × List Bool) (l : Leg) : List Bool × List Bool :=
  if l.out then (io.1, io.2.modify l.rel not) else (io.1.modify l.rel not, io.2)

/-- the legs in the order `loop_body` lists them: inputs 0..k-1, then outputs 0..k-1 -/
def legsOf (k : Nat) : List Leg :=
  (List.range k).map (fun v => ⟨v, false⟩) ++ (List.range k).map (fun v => ⟨v, true⟩)

/-- the closure `h(op, entrance, exit)`: matrix element after toggling entrance and exit -/
def exitWeight (W : List Bool → List Bool → Rat) (io : List Bool × List Bool) (ent ex : Leg) : Rat :=
  let io' := flipIO (flipIO io ent) ex
  W io'.1 io'.2

def exitWeights (W : List Bool → List Bool → Rat) (io : List Bool × List Bool) (ent : Leg)
    (k : Nat) : List Rat :=
  (legsOf k).map (exitWeight W io ent)

/-- `iter().sum()` from 0 -/
def sumR (l : List Rat) : Rat := l.foldl (· + ·) 0

/-- the `try_fold` that walks the cumulative weights: index of the first entry with `c < w`,
`c` reduced by every entry passed; `none` = the fold ran off the end (`unwrap_err` panics). -/
def pickIdx (c : Rat) : List Rat → Option Nat
  | [] => none
  | w :: t => if c < w then some 0 else (pickIdx (c - w) t).map (· + 1)

/-- smallest distance between the running `c` and a weight it was compared with (tie detector
for the f64 comparison; not part of the decision) -/
def pickMargin (c : Rat) : List Rat → Rat
  | [] => 1
  | w :: t =>
    let d := if c < w then w - c else c - w
    if c < w then d else
      let m := pickMargin (c - w) t
      if d < m then d else m

/-! ### navigation over the slot list -/

/-- is the looked-up slot occupied -/
def isOcc : Option (Option Op) → Bool
  | some (some _) => true
  | _ => false

/-- occupied positions in increasing order -/
def occ (slots : Slots) : List Nat :=
  (List.range slots.length).filter (fun p => isOcc slots[p]?)

/-- `get_nth_p` (FastOps: from the head, follow `next_p` `n % self.n` times) -/
def nthOp (slots : Slots) (k : Nat) : Option Nat :=
  let o := occ slots
  if o.length = 0 then none else o[k % o.length]?

/-- positions and relative indices of the ops acting on variable `v`, increasing p -/
def occV (slots : Slots) (v : Nat) : List (Nat × Nat) :=
  (List.range slots.length).filterMap (fun p =>
    match slots[p]? with
    | some (some o) => (o.indexOfVar v).map (fun r => (p, r))
    | _ => none)

/-- `get_next_p_for_rel_var` -/
def nextForVar (slots : Slots) (v p : Nat) : Option (Nat × Nat) :=
  (occV slots v).find? (fun q => decide (p < q.1))
/-- `get_previous_p_for_rel_var` -/
def prevForVar (slots : Slots) (v p : Nat) : Option (Nat × Nat) :=
  (occV slots v).reverse.find? (fun q => decide (q.1 < p))
/-- `get_first_p_for_var` -/
def firstForVar (slots : Slots) (v : Nat) : Option (Nat × Nat) := (occV slots v).head?
/-- `get_last_p_for_var` -/
def lastForVar (slots : Slots) (v : Nat) : Option (Nat × Nat) := (occV slots v).getLast?
/-- `does_var_have_ops` -/
def varHasOps (slots : Slots) (v : Nat) : Bool := !(occV slots v).isEmpty

/-! ### the update -/

/-- `total_vars`: number of variable slots of all ops (`while let Some(p) = next` loop) -/
def totalVars : Slots → Nat
  | [] => 0
  | none :: t => totalVars t
  | some op :: t => op.vars.length + totalVars t

/-- the walk `if choice < n_vars {break (p, choice)}; choice -= n_vars; p = next_p.unwrap()` over
the ops in chain order, `p` = position of the head of the remaining list; `none` = the walk ran
off the end (`unwrap` panics; impossible for `choice < total_vars`). -/
def pickLeg : Slots → Nat → Nat → Option (Nat × Nat)
  | [], _, _ => none
  | none :: t, p, c => pickLeg t (p + 1) c
  | some op :: t, p, c =>
    if c < op.vars.length then some (p, c) else pickLeg t (p + 1) (c - op.vars.length)

/-- start selection: `(position, leg)`; two draws: the variable slot among all legs' variables,
then the side -/
def loopStart (slots : Slots) (rs : RS) : Option (Nat × Leg) × RS :=
  let (a, rs) := rs.genRange (totalVars slots)
  match pickLeg slots 0 a with
  | none => (none, { rs with panicked := true })
  | some (p, b) =>
    let (c, rs) := rs.genStdBool
    if rs.panicked || rs.short then (none, rs) else (some (p, ⟨b, !c⟩), rs)

/-- the start selection BEFORE the fix of F22 (op uniformly, then relative variable, then side:
three draws); not used by `loopUpdate`, kept to document the defect -/
def loopStartOld (slots : Slots) (rs : RS) : Option (Nat × Leg) × RS :=
  let (a, rs) := rs.genRange (countOps slots)
  match nthOp slots a with
  | none => (none, { rs with panicked := true })
  | some p =>
    match slots[p]? with
    | some (some op) =>
      let (b, rs) := rs.genRange op.vars.length
      let (c, rs) := rs.genStdBool
      if rs.panicked || rs.short then (none, rs) else (some (p, ⟨b, !c⟩), rs)
    | _ => (none, { rs with panicked := true })

structure LoopSt where
  state : List Bool
  slots : Slots
  rs : RS

/-- the rewritten op: entrance and exit toggled (`edit_in_out`) -/
def passThrough (op : Op) (ent ex : Leg) : Op :=
  let io := flipIO (flipIO (op.ins, op.outs) ent) ex
  op.withInOut io.1 io.2

/-- where the walk continues after leaving `op'` (the rewritten op at `pos`) through `ex`:
the new state and the linked (position, relative variable). -/
def moveOn (slots : Slots) (state : List Bool) (pos : Nat) (op' : Op) (ex : Leg) :
    List Bool × Option (Nat × Nat) :=
  let v := op'.vars.getD ex.rel 0
  if ex.out then
    match nextForVar slots v pos with
    | some q => (state, some q)
    | none => (state.set v (op'.outs.getD ex.rel false), firstForVar slots v)
  else
    match prevForVar slots v pos with
    | some q => (state, some q)
    | none => (state.set v (op'.ins.getD ex.rel false), lastForVar slots v)

/-- `loop_body`: one vertex visit. Second component `none` = `LoopResult::Return` (or the
implementation stopped: panic / script exhausted, visible in `rs`). -/
def loopBody (w : Nat → List Bool → List Bool → Rat) (init : Nat × Leg) (pos : Nat) (ent : Leg)
    (s : LoopSt) : LoopSt × Option (Nat × Leg) :=
  match s.slots[pos]? with
  | some (some op) =>
    let k := op.vars.length
    let ws := exitWeights (w op.bond) (op.ins, op.outs) ent k
    let total := sumR ws
    let (c, rs) := s.rs.genRangeF total
    if rs.panicked || rs.short then ({ s with rs := rs }, none) else
    match pickIdx c ws with
    | none => ({ s with rs := { rs with panicked := true } }, none)
    | some j =>
      let ex := (legsOf k).getD j default
      let rs := if c = 0 then rs else rs.noteMargin (pickMargin c ws / total)
      let op' := passThrough op ent ex
      let slots' := s.slots.set pos (some op')
      if (pos, ex) = init then ({ state := s.state, slots := slots', rs := rs }, none) else
      match moveOn s.slots s.state pos op' ex with
      | (state', some (p', r')) =>
        let newEnt : Leg := ⟨r', !ex.out⟩
        if (p', newEnt) = init then ({ state := state', slots := slots', rs := rs }, none)
        else ({ state := state', slots := slots', rs := rs }, some (p', newEnt))
      | (state', none) =>
        ({ state := state', slots := slots', rs := { rs with panicked := true } }, none)
  | _ => ({ s with rs := { s.rs with panicked := true } }, none)

/-- `apply_loop_update` (trampoline); fuel bounds the number of vertex visits (each consumes
one script word, so `script.length + 1` is enough). -/
def loopIter (w : Nat → List Bool → List Bool → Rat) (init : Nat × Leg) :
    Nat → Nat → Leg → LoopSt → LoopSt
  | 0, _, _, s => { s with rs := { s.rs with short := true } }
  | fuel + 1, pos, ent, s =>
    match loopBody w init pos ent s with
    | (s', none) => s'
    | (s', some (p, e)) => loopIter w init fuel p e s'

/-- `make_loop_update_with_rng(None, w, state, rng)` -/
def loopUpdate (w : Nat → List Bool → List Bool → Rat) (cfg : Config) (rs : RS) : Config × RS :=
  if countOps cfg.slots = 0 then (cfg, rs) else
  match loopStart cfg.slots rs with
  | (none, rs) => (cfg, rs)
  | (some (p, leg), rs) =>
    let s := loopIter w (p, leg) (rs.script.length + 1) p leg
      { state := cfg.state, slots := cfg.slots, rs := rs }
    ({ state := s.state, slots := s.slots }, s.rs)

/-- the first vertex visit only (what the harness observes when the script ends after the first
exit draw): returns the chosen exit leg and the rewritten op -/
def firstVisit (w : Nat → List Bool → List Bool → Rat) (op : Op) (ent : Leg) (rs : RS) :
    Option Leg × RS :=
  let k := op.vars.length
  let ws := exitWeights (w op.bond) (op.ins, op.outs) ent k
  let total := sumR ws
  let (c, rs) := rs.genRangeF total
  if rs.panicked || rs.short then (none, rs) else
  match pickIdx c ws with
  | none => (none, { rs with panicked := true })
  | some j => (some ((legsOf k).getD j default),
      if c = 0 then rs else rs.noteMargin (pickMargin c ws / total))

/-- the exit distribution the code uses at a vertex: cumulative thresholds `cum_j / total`
(the draw `u ∈ [0,1)` picks the first leg with `u·total < cum_j`) -/
def exitCumulative (W : List Bool → List Bool → Rat) (io : List Bool × List Bool) (ent : Leg)
    (k : Nat) : List Rat :=
  let ws := exitWeights W io ent k
  let total := sumR ws
  let cums := (ws.foldl (fun (acc : List Rat × Rat) x => (acc.1 ++ [acc.2 + x], acc.2 + x)) ([], 0)).1
  cums.map (· / total)

/-- the skeleton of a slot list: what the loop update never changes -/
def skeletonOf (slots : Slots) : List (Option (List Nat × Nat × Bool)) :=
  slots.map (Option.map (fun o => (o.vars, o.bond, o.const)))

end Qmc
