/-
Hamiltonians of the two samplers as values of the abstract interface `Qmc.Ham`
(QmcModel/Basic.lean).  Core Lean only; exact rationals; `eps = f64::EPSILON`.

Mirrors (src/sse/qmc_ising.rs): `two_site_hamiltonian`, `transverse_hamiltonian`,
`longitudinal_hamiltonian`, `QmcIsingGraph::hamiltonian` (bond numbering), the `bonds_fn` /
`num_bonds` closures of `timestep` / `single_diagonal_step` / `single_rvb_sweep` /
`set_enable_heatbath`, and `total_energy_offset` of `new_with_rng_with_manager_hook`.
Mirrors (src/sse/qmc_runner.rs): the `h` / `bonds_fn` closures of `Qmc::diagonal_update`
(`bonds[b].at(ins, outs).unwrap()`, `(&bonds[b].vars, bonds[b].is_constant())`).

Bond numbering of the Ising sampler (E edges, N variables):
  `0 ≤ b < E`        two-site term of edge `b`, variables `edges[b].0`, not constant;
  `E ≤ b < E+N`      transverse term on variable `b-E`, constant;
  `E+N ≤ b < E+2N`   longitudinal term on variable `b-E-N`, not constant — these bonds exist
                     (`num_bonds` counts them) iff `|h| > eps`.
Matrix elements are *weights* (the library samples `-H` shifted to be non-negative).

Domain conventions: where the Rust would index out of bounds / hit `unreachable!()` / `unwrap()`
an `Err` (patterns of the wrong length, bond index ≥ number of bonds) the value here is `0`,
`[]`, `false`; no caller in the library reaches those.
-/
import QmcModel.Basic
import QmcModel.Interaction

namespace Qmc

/-- `two_site_hamiltonian((i0,i1), (o0,o1), j)`: diagonal entries `|j| ∓ j`, off-diagonal 0. -/
def twoSiteHamiltonian (i0 i1 o0 o1 : Bool) (j : Rat) : Rat :=
  if i0 = o0 ∧ i1 = o1 then absR j + (if i0 = i1 then -j else j) else 0

/-- `transverse_hamiltonian(_, _, Γ)`: the same weight for all four (in, out) pairs. -/
def transverseHamiltonian (_i _o : Bool) (g : Rat) : Rat := g

/-- `longitudinal_hamiltonian(i, o, h)`: the field term is diagonal — `|h| + h` on (1,1),
`|h| - h` on (0,0), and 0 on the two off-diagonal pairs.
(Before `fix: longitudinal field term has no off-diagonal matrix elements`, 9464564, the
off-diagonal pairs returned `|h|`; no sampler path evaluated them, but the public
`QmcIsingGraph::hamiltonian` disagreed with the converted sampler's matrix there.) -/
def longitudinalHamiltonian (i o : Bool) (h : Rat) : Rat :=
  match i, o with
  | true, true => absR h + h
  | false, false => absR h - h
  | _, _ => 0

/-- The data of a `QmcIsingGraph` that defines its Hamiltonian (`HamInfo` plus `nvars`).
`edges` are `(VecEdge, J)`; the constructor builds `vec![a, b]` from the user's `((a, b), J)`. -/
structure IsingModel where
  edges : List (List Nat × Rat)
  transverse : Rat
  longitudinal : Rat
  nvars : Nat
  deriving Repr

namespace IsingModel

/-- `longitudinal.abs() > f64::EPSILON` -/
def hasField (m : IsingModel) : Bool := decide (absR m.longitudinal > eps)

/-- `num_bonds` of the sampler's closures -/
def numBonds (m : IsingModel) : Nat :=
  m.edges.length + m.nvars + (if m.hasField then m.nvars else 0)

/-- `QmcIsingGraph::hamiltonian(info, vars, bond, ins, outs)` (the `vars` argument is unused) -/
def hamiltonian (m : IsingModel) (bond : Nat) (ins outs : List Bool) : Rat :=
  if bond < m.edges.length then
    match ins, outs with
    | [i0, i1], [o0, o1] => twoSiteHamiltonian i0 i1 o0 o1 ((m.edges[bond]?.map (·.2)).getD 0)
    | _, _ => 0
  else if bond < m.edges.length + m.nvars then
    match ins, outs with
    | [i], [o] => transverseHamiltonian i o m.transverse
    | _, _ => 0
  else if bond < m.edges.length + 2 * m.nvars then
    match ins, outs with
    | [i], [o] => longitudinalHamiltonian i o m.longitudinal
    | _, _ => 0
  else 0

/-- first component of `bonds_fn(b)` -/
def bondVars (m : IsingModel) (b : Nat) : List Nat :=
  if b < m.edges.length then (m.edges[b]?.map (·.1)).getD []
  else if b < m.edges.length + m.nvars then [b - m.edges.length]
  else [b - m.nvars - m.edges.length]

/-- second component of `bonds_fn(b)`: only the transverse terms are constant -/
def bondConst (m : IsingModel) (b : Nat) : Bool :=
  decide (m.edges.length ≤ b ∧ b < m.edges.length + m.nvars)

/-- `total_energy_offset = Σ|J| + N·(Γ + |h|)` -/
def offset (m : IsingModel) : Rat :=
  (m.edges.map (fun e => absR e.2)).sum + (m.nvars : Rat) * (m.transverse + absR m.longitudinal)

end IsingModel

/-- The Hamiltonian the Ising sampler hands to its diagonal / heat-bath / RVB updates. -/
def isingHam (m : IsingModel) : Ham :=
  { nbonds := m.numBonds
    vars := fun b => if b < m.numBonds then m.bondVars b else []
    const := fun b => if b < m.numBonds then m.bondConst b else false
    w := fun b i o => if b < m.numBonds then m.hamiltonian b i o else 0 }

/-- same, from the constructor arguments (edges already as `vec![a, b]`) -/
def isingHam' (edges : List (List Nat × Rat)) (transverse longitudinal : Rat) (nvars : Nat) : Ham :=
  isingHam { edges := edges, transverse := transverse, longitudinal := longitudinal, nvars := nvars }

/-- `bonds[b].at(ins, outs).unwrap()` (0 where the Rust would panic) -/
def Interaction.weight (i : Interaction) (ins outs : List Bool) : Rat :=
  match i.atP ins outs with
  | .ok x => x
  | _ => 0

/-- The Hamiltonian the generic sampler (`Qmc`) hands to its updates: bond `b` is `bonds[b]`. -/
def genericHam (is : List Interaction) : Ham :=
  { nbonds := is.length
    vars := fun b => (is[b]?.map (·.vars)).getD []
    const := fun b => (is[b]?.map (·.isConstant)).getD false
    w := fun b i o => (is[b]?.map (fun x => x.weight i o)).getD 0 }

end Qmc
