/-
Model of the Metropolis diagonal update (`src/sse/qmc_traits/diagonal.rs`:
`metropolis_single_diagonal_update`, `make_diagonal_update_with_rng_and_state_ref`) and of the sweep
driver (`mutate_ps` / `mutate_subsection` / `mutate_p` in `src/sse/fast_ops.rs`) over the abstract
slot list of `Basic.lean`, as an exact, total function of (Hamiltonian, β, cutoff, configuration,
RNG script). Also the SSE configuration weight `configWeight` and the idealised probabilities
`pInsertM` / `pRemoveM`. Core Lean only.

Draw order (DESIGN.md Appendix A, re-read from the source):
* empty slot: `gen_range(0..num_bonds)`; then nothing if `β·Nb·W > L−n`, else `gen_bool(β·Nb·W/(L−n))`
* diagonal op: nothing if `L−n+1 > β·Nb·W`, else `gen_bool((L−n+1)/(β·Nb·W))`
* off-diagonal op: nothing; the rolling state takes the op's outputs.
`n` is `s.get_n()` read from the container at that slot, i.e. after the changes already made
earlier in the same sweep.
-/
import QmcModel.Basic
import QmcModel.Rand

namespace Qmc

/-- what one slot visit returns: new slot content, rolling state, operator count, RNG state -/
structure SlotRes where
  slot : Option Op
  state : List Bool
  n : Nat
  rs : RS

/-- the real code panics here (index out of range, `cutoff - n` underflow, …) -/
def SlotRes.panic (slot : Option Op) (st : List Bool) (n : Nat) (rs : RS) : SlotRes :=
  ⟨slot, st, n, { rs with panicked := true }⟩

/-- `numerator > denominator || rng.gen_bool(numerator / denominator)`:
no draw when the ratio exceeds 1 (clipped) or equals 1 (`gen_bool(1.0)`); `x/0` with `x ≤ 0`
is NaN/−∞ and `gen_bool` panics. -/
def genClipped (rs : RS) (num den : Rat) : Bool × RS :=
  if num > den then (true, rs)
  else if den = 0 then (false, { rs with panicked := true })
  else rs.genBool (num / den)

/-- the probability `genClipped` realises: `min 1 (num/den)` -/
def clip1 (x : Rat) : Rat := if x > 1 then 1 else x

/-- `state[*v]` is defined for every variable of the bond -/
def varsInRange (st : List Bool) (vars : List Nat) : Bool := vars.all (fun v => decide (v < st.length))

/-- `metropolis_single_diagonal_update` together with the count bookkeeping of `mutate_p`. -/
def metropolisSlot (H : Ham) (β : Rat) (cutoff : Nat) (slot : Option Op) (st : List Bool) (n : Nat)
    (rs : RS) : SlotRes :=
  match slot with
  | some op =>
    if op.tagDiag then
      let b := op.bond
      let vars := H.vars b
      if cutoff < n ∨ varsInRange st vars = false then SlotRes.panic slot st n rs else
      let sub := readVars st vars
      let num : Rat := β * (H.nbonds : Rat) * H.w b sub sub
      let den : Rat := ((cutoff - n : Nat) : Rat) + 1
      let (rm, rs') := genClipped rs den num
      if rm then ⟨none, st, n - 1, rs'⟩ else ⟨some op, st, n, rs'⟩
    else
      ⟨some op, writeVars st op.vars op.outs, n, rs⟩
  | none =>
    let (b, rs1) := rs.genRange H.nbonds
    let vars := H.vars b
    if cutoff < n ∨ varsInRange st vars = false then SlotRes.panic none st n rs1 else
    let sub := readVars st vars
    let num : Rat := β * (H.nbonds : Rat) * H.w b sub sub
    let den : Rat := ((cutoff - n : Nat) : Rat)
    let (ins, rs2) := genClipped rs1 num den
    if ins then ⟨some (Op.diagonal vars b sub (H.const b)), st, n + 1, rs2⟩ else ⟨none, st, n, rs2⟩

/-- `(pstart..pend).fold(.., |p| self.mutate_p(f, p, ..))`: visit the slots in order, threading the
rolling state, the current count and the RNG. -/
def sweepAux (f : Option Op → List Bool → Nat → RS → SlotRes) :
    Slots → List Bool → Nat → RS → Slots × List Bool × Nat × RS
  | [], st, n, rs => ([], st, n, rs)
  | s :: t, st, n, rs =>
    let r := f s st n rs
    let (t', st', n', rs') := sweepAux f t r.state r.n r.rs
    (r.slot :: t', st', n', rs')

/-- `if pend > self.ops.len() { self.ops.resize(pend, None) }` -/
def padSlots (cutoff : Nat) (s : Slots) : Slots := s ++ List.replicate (cutoff - s.length) none

/-- `mutate_ps(0, cutoff, (state, rng), f)`: the container is grown to `cutoff` slots, slots
`0..cutoff` are visited in order, slots beyond `cutoff` (if the container is longer) are untouched but
counted in `n`. Returns the new configuration (state = the rolling state after the sweep, which is
what `state_ref` holds afterwards), the final count and the RNG state. -/
def sweep (f : Option Op → List Bool → Nat → RS → SlotRes) (cutoff : Nat) (c : Config) (rs : RS) :
    Config × Nat × RS :=
  let sl := padSlots cutoff c.slots
  let (hd, st, n, rs') := sweepAux f (sl.take cutoff) c.state (countOps sl) rs
  ({ state := st, slots := hd ++ sl.drop cutoff }, n, rs')

/-- `make_diagonal_update_with_rng_and_state_ref` -/
def metropolisSweep (H : Ham) (β : Rat) (cutoff : Nat) (c : Config) (rs : RS) : Config × RS :=
  let (c', _, rs') := sweep (metropolisSlot H β cutoff) cutoff c rs
  (c', rs')

/-- rolling state, current count and RNG state with which slot `k` is visited -/
def sweepPrefix (f : Option Op → List Bool → Nat → RS → SlotRes) (cutoff k : Nat) (c : Config) (rs : RS) :
    Slots × List Bool × Nat × RS :=
  let sl := padSlots cutoff c.slots
  sweepAux f ((sl.take cutoff).take k) c.state (countOps sl) rs

/-! ### idealised probabilities (exact rationals) -/

/-- the probability with which `genClipped num den` answers yes (also for `den = 0 < num`, where the
code answers yes without a draw) -/
def clipProb (num den : Rat) : Rat := if num > den then 1 else num / den

/-- acceptance of an insertion of a bond with diagonal weight `w` when `n` operators are present -/
def accInsM (β : Rat) (Nb : Nat) (w : Rat) (L n : Nat) : Rat :=
  clipProb (β * (Nb : Rat) * w) ((L - n : Nat) : Rat)

/-- acceptance of the removal of such an operator when `n` operators (this one included) are present -/
def accRemM (β : Rat) (Nb : Nat) (w : Rat) (L n : Nat) : Rat :=
  clipProb (((L - n : Nat) : Rat) + 1) (β * (Nb : Rat) * w)

/-- probability that an empty slot is filled with bond `b` (weight `w` at the current state):
uniform bond choice times acceptance -/
def pInsertM (β : Rat) (Nb : Nat) (w : Rat) (L n : Nat) : Rat := 1 / (Nb : Rat) * accInsM β Nb w L n

/-- probability that a diagonal operator of weight `w` is removed -/
def pRemoveM (β : Rat) (Nb : Nat) (w : Rat) (L n : Nat) : Rat := accRemM β Nb w L n

/-! ### the SSE configuration weight `β^n (L−n)!/L! Π ⟨out|H_b|in⟩` -/

def fact : Nat → Nat
  | 0 => 1
  | n + 1 => (n + 1) * fact n

/-- product of the matrix elements of the stored operators (recorded inputs/outputs) -/
def opsWeight (H : Ham) : Slots → Rat
  | [] => 1
  | none :: t => opsWeight H t
  | some o :: t => H.w o.bond o.ins o.outs * opsWeight H t

def configWeight (H : Ham) (β : Rat) (c : Config) : Rat :=
  let L := c.slots.length
  let n := countOps c.slots
  β ^ n * ((fact (L - n) : Nat) : Rat) / ((fact L : Nat) : Rat) * opsWeight H c.slots

end Qmc
