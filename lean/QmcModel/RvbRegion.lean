/-
Exact executable model of the *proposal* of the RVB update (src/sse/qmc_traits/rvb.rs): which
region `rvb_update_with_ising_weight` proposes for a given configuration and a given sequence of
RNG words. Core Lean only.

Mirrors, statement by statement:
* `find_constants`            → `findConstants`
* start cell (`gen_range(0..#const + #idle)`, binary search on `var_starts`) → `pickStart`
* `contiguous_bits(rng) + 1`  → `contiguousBits` (QmcModel/Rvb.lean)
* `WeightedBoundaryManager`   → `WBM` (`pushAdjacent`, `popIndex`, `isEmpty`, `dissolve_into`);
  the two `BondContainer<VarPos>` are the exact `BC` model (insertion order, swap-remove), keyed by
  `usize::from(VarPos)` = the flip index (`boundary_flips`) resp. the variable (`boundary_noflips`)
* `build_cluster`             → `growOne` / `buildCluster`
* the post-processing in `rvb_update_with_ising_weight` (`subvars`, `cluster_starting_state`,
  `cluster_toggle_ps`, sort + `remove_doubles`) → `assemble`

**What the proposal reads** is collected in `Skeleton`: the number of variables, the cutoff, the
positions of the constant operators per variable (`constant_ops_on_var`) and the edge list with
`bond_mag = |J|`. Nothing else: not the spin state, not the non-constant operators, not Γ, h, not
the sign of J (`bond_prefers_aligned` is never called by `build_cluster`).

`Option`/`panic` results: the Rust code panics at this point.
-/
import QmcModel.Rvb

namespace Qmc
namespace Rvb

/-! ### what the proposal reads -/

/-- the data `rvb_update_with_ising_weight` reads before `calculate_flip_prob` -/
structure Skeleton where
  nvars : Nat
  /-- `get_cutoff()` -/
  cutoff : Nat
  /-- per variable: `constant_ops_on_var(v)`, in slot order -/
  cps : List (List Nat)
  /-- `(vars_for_bond(b).0, vars_for_bond(b).1, bond_mag(b))` -/
  edges : List (Nat × Nat × Rat)
  deriving Repr, DecidableEq

/-- variables of the operator in a slot if it is flagged constant, `[]` otherwise -/
def constVars : Option Op → List Nat
  | some o => if o.const then o.vars else []
  | none => []

/-- per slot: the variables carrying a constant operator there -/
def constSig (s : Slots) : List (List Nat) := s.map constVars

def constPsFrom (v : Nat) : Nat → List (List Nat) → List Nat
  | _, [] => []
  | p, vs :: t => if vs.contains v then p :: constPsFrom v (p + 1) t else constPsFrom v (p + 1) t

/-- `constant_ops_on_var(v)`: positions of the constant operators on variable `v`, in slot order -/
def constPs (s : Slots) (v : Nat) : List Nat := constPsFrom v 0 (constSig s)

/-- the skeleton of an Ising configuration (`EdgeNav`: `bond_mag = |J|`) -/
def skeleton (E : Ising) (c : Config) : Skeleton :=
  { nvars := E.nvars
    cutoff := c.slots.length
    cps := (List.range E.nvars).map (constPs c.slots)
    edges := E.edges.map fun e => (e.1, e.2.1, absR e.2.2) }

/-! ### `find_constants` -/

structure Consts where
  varStarts : List Nat := []
  varLengths : List Nat := []
  constantPs : List Nat := []
  /-- `vars_with_zero_ops` -/
  idle : List Nat := []
  deriving Repr, DecidableEq

def findConstants (sk : Skeleton) : Consts :=
  (List.range sk.nvars).foldl (fun c v =>
    let ps := sk.cps.getD v []
    { varStarts := c.varStarts ++ [c.constantPs.length]
      varLengths := c.varLengths ++ [ps.length]
      constantPs := c.constantPs ++ ps
      idle := if ps.isEmpty then c.idle ++ [v] else c.idle }) {}

/-- the starting cell: `choice = gen_range(0..#const + #idle)`; for `choice < #const` the owner is
found by `var_starts.binary_search(&choice)` — `Err(i) ⇒ i − 1`, `Ok(i) ⇒` the last index with
that value — i.e. in both cases the last index whose start is `≤ choice` (`var_starts` is
non-decreasing and starts with 0). -/
def pickStart (C : Consts) (s : RS) : (Nat × Option Nat) × RS :=
  let (choice, s') := s.genRange (C.constantPs.length + C.idle.length)
  if choice < C.constantPs.length then
    (((C.varStarts.filter (· ≤ choice)).length - 1, some choice), s')
  else ((C.idle.getD (choice - C.constantPs.length) 0, none), s')

/-! ### `EdgeNav` (qmc_ising.rs `make_classical_bonds`) -/

/-- `bonds_for_var(v)`: bond indices in increasing order; a bond `(a, b)` is listed under `a`
and under `b` -/
def bondsForVar (sk : Skeleton) (v : Nat) : List Nat :=
  ((List.range sk.edges.length).zip sk.edges).flatMap fun (b, e) =>
    (if e.1 = v then [b] else []) ++ (if e.2.1 = v then [b] else [])

/-- `other_var_for_bond(v, b)` -/
def otherVar (sk : Skeleton) (v b : Nat) : Option Nat :=
  let e := sk.edges.getD b (0, 0, 0)
  if v = e.1 then some e.2.1 else if v = e.2.1 then some e.1 else none

/-! ### `WeightedBoundaryManager` -/

/-- `vec.resize(k + 1, false)` when `k` is beyond the end -/
def growB (l : List Bool) (k : Nat) : List Bool :=
  if k < l.length then l else l ++ List.replicate (k + 1 - l.length) false

structure WBM where
  /-- `boundary_flips`, keyed by the flip index (`VarPos.p`) -/
  flips : BC := BC.empty
  /-- `boundary_noflips`, keyed by the variable -/
  noflips : BC := BC.empty
  /-- the `v` field of the `VarPos` stored under a flip key (that of the insertion which created
  the entry; most recent first) -/
  flipVar : List (Nat × Nat) := []
  /-- `var_pos_popped` -/
  posPopped : List Bool := []
  /-- `var_nopos_popped` -/
  noposPopped : List Bool := []
  deriving Repr

namespace WBM

def flipVarOf (w : WBM) (k : Nat) : Nat :=
  match w.flipVar.find? (·.1 == k) with
  | some kv => kv.2
  | none => 0

/-- `is_empty` -/
def isEmpty (w : WBM) : Bool := w.flips.keys.isEmpty && w.noflips.keys.isEmpty

/-- `push_adjacent(var, pos, Some(weight))` (`None` ⇒ weight 1) -/
def pushAdjacent (w : WBM) (var : Nat) (pos : Option Nat) (weight : Rat) : WBM :=
  match pos with
  | some p =>
    let popped := growB w.posPopped p
    if popped.getD p false then { w with posPopped := popped }
    else
      let wt := (w.flips.getWeight p).getD 0 + weight
      let (c, new) := w.flips.insert p wt
      { w with flips := c, posPopped := popped, flipVar := if new then (p, var) :: w.flipVar else w.flipVar }
  | none =>
    let popped := growB w.noposPopped var
    if popped.getD var false then { w with noposPopped := popped }
    else
      let wt := (w.noflips.getWeight var).getD 0 + weight
      { w with noflips := (w.noflips.insert var wt).1, noposPopped := popped }

/-- `pop_index(rng)`: `gen_bool(W_flips / (W_flips + W_noflips))`, then `get_random` on the chosen
container, mark popped, remove. Returns `(v, p, manager)`; `none` = panic (or the script ran out).
`0/0` is NaN in f64, on which `gen_bool` panics. -/
def popIndex (w : WBM) (s : RS) : Option (Nat × Option Nat × WBM) × RS :=
  let total := w.flips.total + w.noflips.total
  if total = 0 then (none, { s with panicked := true })
  else
    let (pick, s1) := s.genBool (w.flips.total / total)
    if s1.panicked || s1.short then (none, s1)
    else if pick then
      match w.flips.getRandom s1 with
      | (some (some (k, _)), s2) =>
        if s2.panicked || s2.short then (none, s2)
        else if k < w.posPopped.length then
          match w.flips.remove k with
          | some (c, _) =>
            (some (w.flipVarOf k, some k, { w with flips := c, posPopped := w.posPopped.set k true }), s2)
          | none => (none, { s2 with panicked := true })
        else (none, { s2 with panicked := true })
      | (_, s2) => (none, { s2 with panicked := true })
    else
      match w.noflips.getRandom s1 with
      | (some (some (k, _)), s2) =>
        if s2.panicked || s2.short then (none, s2)
        else if k < w.noposPopped.length then
          match w.noflips.remove k with
          | some (c, _) =>
            (some (k, none, { w with noflips := c, noposPopped := w.noposPopped.set k true }), s2)
          | none => (none, { s2 with panicked := true })
        else (none, { s2 with panicked := true })
      | (_, s2) => (none, { s2 with panicked := true })

/-- the variables `dissolve_into` reports: `boundary_flips.iter().chain(boundary_noflips.iter())` -/
def boundaryVars (w : WBM) : List Nat :=
  w.flips.keys.map (fun kw => w.flipVarOf kw.1) ++ w.noflips.keys.map (·.1)

end WBM

/-! ### `build_cluster` -/

structure Grow where
  w : WBM := {}
  /-- `cluster_vars` -/
  vars : List Nat := []
  /-- `cluster_flips` -/
  flips : List (Option Nat) := []
  panic : Bool := false
  deriving Repr

/-- the body of `edges.bonds_for_var(v).iter().for_each(|b| …)` for one bond -/
def pushNeighbours (sk : Skeleton) (C : Consts) (v : Nat) (flip : Option Nat) (w : WBM) (b : Nat) :
    Option WBM :=
  let weight := (sk.edges.getD b (0, 0, 0)).2.2
  -- `if weight <= 0.0 { return; }`: a bond of zero magnitude is skipped (/repo 523d878, finding F21;
  -- before that fix the neighbour was pushed with weight 0 and the next `pop_index` could compute
  -- 0/0 = NaN, on which `gen_bool` panics)
  if weight ≤ 0 then some w else
  match otherVar sk v b with
  | none => none
  | some ov =>
    if sk.nvars ≤ ov then none
    else
      let len := C.varLengths.getD ov 0
      let st := C.varStarts.getD ov 0
      if len = 0 then some (w.pushAdjacent ov none weight)
      else
        match flip with
        | some f =>
          let relflip := f - C.varStarts.getD v 0
          let flipInc := (relflip + 1) % (C.varLengths.getD v 0) + C.varStarts.getD v 0
          let pstart := C.constantPs.getD f 0
          let pend := C.constantPs.getD flipInc 0
          match findOverlappingStarts pstart pend sk.cutoff ((C.constantPs.drop st).take len) with
          | none => none
          | some is => some (is.foldl (fun w i => w.pushAdjacent ov (some (i + st)) weight) w)
        | none =>
          some ((List.range' st len).foldl (fun w pi => w.pushAdjacent ov (some pi) weight) w)

/-- one iteration of the `while` loop of `build_cluster` -/
def growOne (sk : Skeleton) (C : Consts) (g : Grow) (s : RS) : Grow × RS :=
  match g.w.popIndex s with
  | (none, s') => ({ g with panic := true }, s')
  | (some (v, flip, w1), s') =>
    let w2 := match flip with
      | some f =>
        let st := C.varStarts.getD v 0
        let len := C.varLengths.getD v 0
        let rel := f - st
        let dec := (rel + len - 1) % len + st
        let inc := (rel + 1) % len + st
        (w1.pushAdjacent v (some dec) 1).pushAdjacent v (some inc) 1
      | none => w1
    let r := (bondsForVar sk v).foldl (fun acc b =>
      match acc with
      | none => none
      | some w => pushNeighbours sk C v flip w b) (some w2)
    match r with
    | none => ({ g with w := w2, vars := g.vars ++ [v], flips := g.flips ++ [flip], panic := true }, s')
    | some w3 => ({ w := w3, vars := g.vars ++ [v], flips := g.flips ++ [flip] }, s')

/-- `while cluster_size > 0 && !cbm.is_empty() { …; cluster_size -= 1 }` -/
def buildCluster (sk : Skeleton) (C : Consts) : Nat → Grow → RS → Grow × RS
  | 0, g, s => (g, s)
  | n + 1, g, s =>
    if g.w.isEmpty then (g, s)
    else
      let (g', s') := growOne sk C g s
      if g'.panic || s'.panicked || s'.short then (g', s') else buildCluster sk C n g' s'

/-! ### post-processing: the region handed to `calculate_flip_prob` -/

def insertSorted (x : Nat) : List Nat → List Nat
  | [] => [x]
  | y :: t => if x ≤ y then x :: y :: t else y :: insertSorted x t

/-- `sort_unstable` on `usize` -/
def sortNat (l : List Nat) : List Nat := l.foldr insertSorted []

/-- `Vec::dedup` -/
def dedupAdj : List Nat → List Nat
  | [] => []
  | [a] => [a]
  | a :: b :: t => if a = b then dedupAdj (b :: t) else a :: dedupAdj (b :: t)

/-- what one proposal looks like (the fields of the `RvbTrace` hook that do not depend on the
weights, plus the raw cluster lists) -/
structure Proposal where
  subvars : List Nat
  /-- `cluster_starting_state`, per subvar -/
  start : List Bool
  /-- `cluster_toggle_ps` after sort + `remove_doubles` -/
  toggles : List Nat
  clusterVars : List Nat
  clusterFlips : List (Option Nat)
  panic : Bool
  deriving Repr, DecidableEq

def assemble (C : Consts) (g : Grow) : Proposal :=
  let subvars := dedupAdj (sortNat (g.vars ++ g.w.boundaryVars))
  let init : List Bool × List Nat := (List.replicate subvars.length false, [])
  let (start, togs) := (g.vars.zip g.flips).foldl (fun (acc : List Bool × List Nat) vf =>
    let sub := subvars.idxOf vf.1
    match vf.2 with
    | some fi =>
      let vstart := C.varStarts.getD vf.1 0
      if fi - vstart + 1 ≥ C.varLengths.getD vf.1 0 then
        (acc.1.set sub true, acc.2 ++ [C.constantPs.getD fi 0, C.constantPs.getD vstart 0])
      else (acc.1, acc.2 ++ [C.constantPs.getD fi 0, C.constantPs.getD (fi + 1) 0])
    | none => (acc.1.set sub true, acc.2)) init
  { subvars := subvars, start := start, toggles := removeDoubles (sortNat togs),
    clusterVars := g.vars, clusterFlips := g.flips, panic := g.panic }

/-- **the proposal**: everything `rvb_update_with_ising_weight` does for one update before
`calculate_flip_prob`, as a function of the skeleton and the RNG script. The returned `RS` holds
the remaining script (so the number of draws consumed), the smallest decision margin and the
`short` / `panicked` flags. -/
def proposeRegion (sk : Skeleton) (s : RS) : Proposal × RS :=
  let C := findConstants sk
  let (start, s1) := pickStart C s
  if s1.panicked || s1.short then (assemble C { panic := true }, s1)
  else
    let (ones, s2) := contiguousBits s1
    if s2.short then (assemble C { panic := true }, s2)
    else
      let w0 : WBM := ({} : WBM).pushAdjacent start.1 start.2 1
      let (g, s3) := buildCluster sk C (ones + 1) { w := w0 } s2
      (assemble C g, s3)

/-- the proposal for an Ising configuration -/
def proposeRegionCfg (E : Ising) (c : Config) (s : RS) : Proposal × RS :=
  proposeRegion (skeleton E c) s

/-- membership mask over all variables from the per-subvar starting state -/
def maskOf (nv : Nat) (subvars : List Nat) (start : List Bool) : List Bool :=
  (subvars.zip start).foldl (fun m vb => m.set vb.1 vb.2) (List.replicate nv false)

/-- the proposal as a `Region` (the input of `extract` / `isRvbMove`) -/
def Proposal.region (P : Proposal) (nv : Nat) : Region :=
  { subvars := P.subvars, mask0 := maskOf nv P.subvars P.start, toggles := P.toggles }

/-- precondition of the RVB update (`find_constants` debug-asserts "RVB cluster only supports
constant ops with a single variable"; for the Ising Hamiltonian `bonds_fn` flags exactly the
transverse-field bonds as constant): no operator on a 2-site edge bond is flagged constant. -/
def edgeOpsNotConst (E : Ising) (s : Slots) : Bool :=
  s.all fun o => match o with
    | some op => !(decide (op.bond < E.edges.length) && op.const)
    | none => true

end Rvb
end Qmc
