/-
Probability trees: the randomized model functions with every RNG call *reified* as a tree node.

The executable models (`QmcModel/Diagonal.lean`, `HeatBath.lean`, `SamplerCore.lean`, …) are deterministic
functions of an RNG script (`Qmc.RS`, `QmcModel/Rand.lean`).  To speak about the *law* of such a function
under random draws, every model function `f args rs` gets a tree-valued twin `fT args : PT α` obtained by
replacing each call of an RNG primitive by a `node` carrying that primitive:

* `PT.run t rs` executes the tree on a script, calling the very same `RS` primitive at every node — so
  the refinement theorems `f args rs = (fT args).run rs` (QmcProofs/Law*.lean) hold for **every** script,
  including short scripts and panicking calls, with equality of the whole `RS` (margin included);
* a node also carries the *idealised* weights of its outcomes (`Draw.w`); `law` (QmcProofs/LawTree.lean)
  multiplies them along the branches.

A primitive draw is a `Draw`: the script semantics `run : RS → Nat × RS` (outcome index, new RNG
state), the number `n` of outcomes that carry mass, and their idealised weights `w 0 … w (n-1)`.
Primitives (the idealisation of each is stated and, where it is a counting fact, proved in
QmcProofs/LawRand.lean):

* `Draw.flip p`  — `RS.genBool p` (outcome 1 = `true`): weights `p`, `1 − p` if `0 ≤ p ≤ 1`, no mass at all
  otherwise (`gen_bool` panics).  `p = 1` draws nothing (as `genBool`).
* `Draw.pick n`  — `RS.genRange n`: weight `1/n` on each of `0 … n−1`; `n = 0` (panic) has no mass.
* `Draw.panic`   — sets the `panicked` flag: no mass (the real code aborts).
* `Draw.hbPick ws thr` — the two `gen_range` calls of the heat-bath insertion (`u ∈ [0,1)`, `x ∈ [0,W)`),
  the cumulative-table search and the rejection test `u·ws[b] < thr b`; outcome `2b+1` = bond `b`
  accepted, `2b` = bond `b` rejected; idealised (continuous-uniform) weights `ws[b]/W · a_b` and
  `ws[b]/W · (1 − a_b)` with `a_b = thr b/ws[b]` clipped to `[0,1]`; no mass unless the table is valid
  (`W > 0`, else `gen_range(0.0..W)` panics; entries `≥ 0`, else the cumulative column is not sorted).

Core Lean only.
-/
import QmcModel.HeatBath

namespace Qmc.Law
open Qmc

/-- a primitive random draw: script semantics, number of outcomes, idealised weights -/
structure Draw where
  run : RS → Nat × RS
  n : Nat
  w : Nat → Rat

/-- probability tree: a model function with its RNG calls reified -/
inductive PT (α : Type) where
  | ret (a : α) : PT α
  | node (d : Draw) (k : Nat → PT α) : PT α

namespace PT
variable {α β γ : Type}

def bind : PT α → (α → PT β) → PT β
  | ret a, f => f a
  | node d k, f => node d (fun i => bind (k i) f)

def map (φ : α → β) (t : PT α) : PT β := bind t (fun a => ret (φ a))

/-- execute the tree on a script: every node calls its `RS` primitive -/
def run : PT α → RS → α × RS
  | ret a, rs => (a, rs)
  | node d k, rs => run (k (d.run rs).1) (d.run rs).2

end PT

/-! ### the primitives -/

/-- `gen_bool(p)`; outcome 1 = `true`, 0 = `false` -/
def Draw.flip (p : Rat) : Draw where
  run := fun rs => (if (rs.genBool p).1 then 1 else 0, (rs.genBool p).2)
  n := 2
  w := fun i => if 0 ≤ p ∧ p ≤ 1 then (if i = 1 then p else 1 - p) else 0

/-- `gen_range(0..n)` -/
def Draw.pick (n : Nat) : Draw where
  run := fun rs => rs.genRange n
  n := n
  w := fun _ => 1 / (n : Rat)

/-- the real code panics here -/
def Draw.panic : Draw where
  run := fun rs => (0, { rs with panicked := true })
  n := 0
  w := fun _ => 0

/-- the heat-bath bond choice and rejection test (`get_random_bond_and_max_weight` + the test of
`heat_bath_single_diagonal_update`): `u = gen_range(0.0..1.0)`, `x = gen_range(0.0..W)`,
`b = index_for_cumulative(x)`, accepted iff `u·ws[b] < thr b`.  The margins the model records are
recorded here in the same order (`ok b` says whether the model reaches the rejection test for `b`). -/
def Draw.hbPick (ws : BW) (ok : Nat → Bool) (thr : Nat → Rat) : Draw where
  run := fun rs =>
    let r1 := rs.genRangeF 1
    let r2 := r1.2.genRangeF ws.sum
    let b := indexForCumulative (cumul ws) r2.1
    let rs3 := r2.2.noteMargin (cumMargin (cumul ws) r2.1)
    if ok b then
      let rs4 := rs3.noteMargin (r1.1 * ws.getD b 0 - thr b)
      (if r1.1 * ws.getD b 0 < thr b then 2 * b + 1 else 2 * b, rs4)
    else (2 * b, rs3)
  n := 2 * ws.length
  w := fun i =>
    let b := i / 2
    let mw := ws.getD b 0
    let acc : Rat := if thr b ≤ 0 then 0 else if mw ≤ thr b then 1 else thr b / mw
    if 0 < ws.sum ∧ ∀ x ∈ ws, 0 ≤ x then (mw / ws.sum) * (if i % 2 = 1 then acc else 1 - acc) else 0

namespace PT
variable {α β : Type}

def flip (p : Rat) (yes no : PT α) : PT α := node (Draw.flip p) (fun i => if i = 1 then yes else no)
def pick (n : Nat) (k : Nat → PT α) : PT α := node (Draw.pick n) k
def panic (t : PT α) : PT α := node Draw.panic (fun _ => t)

/-- twin of `genClipped`: `numerator > denominator || rng.gen_bool(numerator / denominator)` -/
def clipped (num den : Rat) (yes no : PT α) : PT α :=
  if num > den then yes
  else if den = 0 then panic no
  else flip (num / den) yes no

end PT

/-! ### twins of the diagonal update (`QmcModel/Diagonal.lean`) -/

/-- `SlotRes` without the RNG state -/
structure SlotOut where
  slot : Option Op
  state : List Bool
  n : Nat
  deriving DecidableEq

def SlotOut.withRS (o : SlotOut) (rs : RS) : SlotRes := ⟨o.slot, o.state, o.n, rs⟩

/-- the empty-slot branch of `metropolisSlot` after bond `b` has been drawn -/
def metropolisInsertT (H : Ham) (β : Rat) (cutoff : Nat) (st : List Bool) (n : Nat) (b : Nat) : PT SlotOut :=
  let vars := H.vars b
  if cutoff < n ∨ varsInRange st vars = false then PT.panic (PT.ret ⟨none, st, n⟩) else
  let sub := readVars st vars
  let num : Rat := β * (H.nbonds : Rat) * H.w b sub sub
  let den : Rat := ((cutoff - n : Nat) : Rat)
  PT.clipped num den (PT.ret ⟨some (Op.diagonal vars b sub (H.const b)), st, n + 1⟩) (PT.ret ⟨none, st, n⟩)

/-- tree twin of `metropolisSlot`: `genRange` ↦ `pick`, `genClipped` ↦ `clipped`, `SlotRes.panic` ↦ `panic` -/
def metropolisSlotT (H : Ham) (β : Rat) (cutoff : Nat) (slot : Option Op) (st : List Bool) (n : Nat) :
    PT SlotOut :=
  match slot with
  | some op =>
    if op.tagDiag then
      let b := op.bond
      let vars := H.vars b
      if cutoff < n ∨ varsInRange st vars = false then PT.panic (PT.ret ⟨slot, st, n⟩) else
      let sub := readVars st vars
      let num : Rat := β * (H.nbonds : Rat) * H.w b sub sub
      let den : Rat := ((cutoff - n : Nat) : Rat) + 1
      PT.clipped den num (PT.ret ⟨none, st, n - 1⟩) (PT.ret ⟨some op, st, n⟩)
    else
      PT.ret ⟨some op, writeVars st op.vars op.outs, n⟩
  | none => PT.pick H.nbonds (metropolisInsertT H β cutoff st n)

/-- tree twin of `heatBathSlot` -/
def heatBathSlotT (H : Ham) (bw : BW) (β : Rat) (cutoff : Nat) (slot : Option Op) (st : List Bool) (n : Nat) :
    PT SlotOut :=
  match slot with
  | some op =>
    if op.tagDiag then
      match bwTotal bw with
      | none => PT.panic (PT.ret ⟨slot, st, n⟩)
      | some W =>
        if cutoff < n then PT.panic (PT.ret ⟨slot, st, n⟩) else
        let num : Rat := ((cutoff - n + 1 : Nat) : Rat)
        let den : Rat := num + β * W
        if den = 0 then PT.panic (PT.ret ⟨slot, st, n⟩) else
        PT.flip (num / den) (PT.ret ⟨none, st, n - 1⟩) (PT.ret ⟨some op, st, n⟩)
    else
      PT.ret ⟨some op, writeVars st op.vars op.outs, n⟩
  | none =>
    match bwTotal bw with
    | none => PT.panic (PT.ret ⟨none, st, n⟩)
    | some W =>
      if cutoff < n then PT.panic (PT.ret ⟨none, st, n⟩) else
      let num : Rat := β * W
      let den : Rat := ((cutoff - n : Nat) : Rat) + num
      if den = 0 then PT.panic (PT.ret ⟨none, st, n⟩) else
      PT.flip (num / den)
        (PT.node
          (Draw.hbPick bw (fun b => !(decide (bw.length ≤ b) || !(varsInRange st (H.vars b))))
            (fun b => H.w b (readVars st (H.vars b)) (readVars st (H.vars b))))
          (fun i =>
            let b := i / 2
            if bw.length ≤ b ∨ varsInRange st (H.vars b) = false then PT.panic (PT.ret ⟨none, st, n⟩)
            else if i % 2 = 1 then
              PT.ret ⟨some (Op.diagonal (H.vars b) b (readVars st (H.vars b)) (H.const b)), st, n + 1⟩
            else PT.ret ⟨none, st, n⟩))
        (PT.ret ⟨none, st, n⟩)

/-- tree twin of `sweepAux` -/
def sweepAuxT (f : Option Op → List Bool → Nat → PT SlotOut) :
    Slots → List Bool → Nat → PT (Slots × List Bool × Nat)
  | [], st, n => PT.ret ([], st, n)
  | s :: t, st, n =>
    PT.bind (f s st n) fun r =>
      PT.map (fun x => (r.slot :: x.1, x.2)) (sweepAuxT f t r.state r.n)

/-- tree twin of `sweep` -/
def sweepT (f : Option Op → List Bool → Nat → PT SlotOut) (cutoff : Nat) (c : Config) : PT (Config × Nat) :=
  let sl := padSlots cutoff c.slots
  PT.map (fun x => ({ state := x.2.1, slots := x.1 ++ sl.drop cutoff }, x.2.2))
    (sweepAuxT f (sl.take cutoff) c.state (countOps sl))

/-- tree twin of `metropolisSweep` -/
def metropolisSweepT (H : Ham) (β : Rat) (cutoff : Nat) (c : Config) : PT Config :=
  PT.map (fun x => x.1) (sweepT (metropolisSlotT H β cutoff) cutoff c)

/-- tree twin of `heatBathSweep` -/
def heatBathSweepT (H : Ham) (bw : BW) (β : Rat) (cutoff : Nat) (c : Config) : PT Config :=
  PT.map (fun x => x.1) (sweepT (heatBathSlotT H bw β cutoff) cutoff c)

end Qmc.Law
