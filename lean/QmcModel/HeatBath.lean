/-
Model of the heat-bath diagonal update (`src/sse/qmc_traits/heatbath.rs`:
`BondWeights::{new,total,index_for_cumulative,get_random_bond_and_max_weight}`, `make_bond_weights`,
`heat_bath_single_diagonal_update`, `make_heatbath_diagonal_update_with_rng_and_state_ref`) over the
abstract slot list, plus the table handling of the two samplers (`Qmc::{add_interaction,
set_do_heatbath, diagonal_update}`, `QmcIsingGraph::set_enable_heatbath`) as small state machines.
Core Lean only.

Draw order (DESIGN.md Appendix A, re-read from the source):
* empty slot: `gen_bool(βW/(L−n+βW))`; if true `gen_range(0.0..1.0)` (u), `gen_range(0.0..W)` (x);
  bond = `index_for_cumulative(x)`; insert iff `u·maxw_b < w_b(state)`
* diagonal op: `gen_bool((L−n+1)/(L−n+1+βW))`
* off-diagonal op: nothing; the rolling state takes the op's outputs.
-/
import QmcModel.Diagonal

namespace Qmc

/-- the `max_weight` column of `BondWeights` (the bond column is `0,1,2,…`; the cumulative column is
`cumul`) -/
abbrev BW := List Rat

def cumulFrom (acc : Rat) : List Rat → List Rat
  | [] => []
  | w :: t => (acc + w) :: cumulFrom (acc + w) t

/-- cumulative column of `BondWeights::new` -/
def cumul (ws : BW) : List Rat := cumulFrom 0 ws

/-- `BondWeights::total`: last cumulative entry, `None` without bonds -/
def bwTotal (ws : BW) : Option Rat := if ws.isEmpty then none else some ws.sum

/-- `index_for_cumulative`: binary search for `val` in the (non-decreasing) cumulative column; on a
miss the insertion point = number of entries below `val`; on an exact hit an index holding `val`
(the first one here; the driver marks exact hits as ties). -/
def indexForCumulative (cum : List Rat) (x : Rat) : Nat := (cum.filter (fun c => decide (c < x))).length

/-- all bit patterns of length `k` -/
def allSub : Nat → List (List Bool)
  | 0 => [[]]
  | k + 1 => (allSub k).flatMap fun s => [false :: s, true :: s]

/-- `.fold(0.0, |acc, w| if w > acc { w } else { acc })` over the diagonal matrix elements -/
def maxDiag (H : Ham) (b : Nat) : Rat :=
  (allSub (H.vars b).length).foldl (fun acc s => if H.w b s s > acc then H.w b s s else acc) 0

/-- `make_bond_weights` -/
def makeBondWeights (H : Ham) : BW := (List.range H.nbonds).map (maxDiag H)

/-- distance from `x` to the nearest cumulative entry (tie detection only) -/
def cumMargin (cum : List Rat) (x : Rat) : Rat :=
  cum.foldl (fun m c => let d := if c < x then x - c else c - x; if d < m then d else m) 1

/-- `heat_bath_single_diagonal_update` together with the count bookkeeping of `mutate_p`. -/
def heatBathSlot (H : Ham) (bw : BW) (β : Rat) (cutoff : Nat) (slot : Option Op) (st : List Bool) (n : Nat)
    (rs : RS) : SlotRes :=
  match slot with
  | some op =>
    if op.tagDiag then
      match bwTotal bw with
      | none => SlotRes.panic slot st n rs
      | some W =>
        if cutoff < n then SlotRes.panic slot st n rs else
        let num : Rat := ((cutoff - n + 1 : Nat) : Rat)
        let den : Rat := num + β * W
        if den = 0 then SlotRes.panic slot st n rs else
        let (rm, rs') := rs.genBool (num / den)
        if rm then ⟨none, st, n - 1, rs'⟩ else ⟨some op, st, n, rs'⟩
    else
      ⟨some op, writeVars st op.vars op.outs, n, rs⟩
  | none =>
    match bwTotal bw with
    | none => SlotRes.panic none st n rs
    | some W =>
      if cutoff < n then SlotRes.panic none st n rs else
      let num : Rat := β * W
      let den : Rat := ((cutoff - n : Nat) : Rat) + num
      if den = 0 then SlotRes.panic none st n rs else
      let (go, rs1) := rs.genBool (num / den)
      if !go then ⟨none, st, n, rs1⟩ else
      let (u, rs2) := rs1.genRangeF 1
      let (x, rs3) := rs2.genRangeF W
      let b := indexForCumulative (cumul bw) x
      let rs3 := rs3.noteMargin (cumMargin (cumul bw) x)
      let maxw := bw.getD b 0
      let vars := H.vars b
      if bw.length ≤ b ∨ varsInRange st vars = false then SlotRes.panic none st n rs3 else
      let sub := readVars st vars
      let w := H.w b sub sub
      let rs4 := rs3.noteMargin (u * maxw - w)
      if u * maxw < w then ⟨some (Op.diagonal vars b sub (H.const b)), st, n + 1, rs4⟩
      else ⟨none, st, n, rs4⟩

/-- `make_heatbath_diagonal_update_with_rng_and_state_ref` -/
def heatBathSweep (H : Ham) (bw : BW) (β : Rat) (cutoff : Nat) (c : Config) (rs : RS) : Config × RS :=
  let (c', _, rs') := sweep (heatBathSlot H bw β cutoff) cutoff c rs
  (c', rs')

/-! ### idealised probabilities -/

/-- probability that an empty slot is filled with bond `b`: attempt × weighted bond choice × rejection test.
`W` = total of the table, `mw` = table entry of the bond, `w` = its diagonal weight at the current state. -/
def pInsertHB (β W mw w : Rat) (L n : Nat) : Rat :=
  (β * W / (((L - n : Nat) : Rat) + β * W)) * (mw / W) * (w / mw)

/-- probability that a diagonal operator is removed when `n` operators (this one included) are present -/
def pRemoveHB (β W : Rat) (L n : Nat) : Rat :=
  (((L - n + 1 : Nat) : Rat)) / ((((L - n + 1 : Nat) : Rat)) + β * W)

/-! ### table handling of the samplers (state machines) -/

/-- the part of `Qmc` that the bond-weight table depends on. `mk` abstracts
`M::make_bond_weights(&h, num_bonds, bonds_fn)` as a function of the interaction list. -/
structure GenS (ι : Type) where
  bonds : List ι
  doHeatbath : Bool
  table : Option BW

inductive GenOp (ι : Type) where
  | addInteraction (i : ι)      -- `make_*interaction*` → `add_interaction`
  | setDoHeatbath (b : Bool)    -- `set_do_heatbath`
  | diagonalUpdate              -- `diagonal_update` (the table part: lazily built when heat-bath is on)

def GenS.init (ι : Type) : GenS ι := { bonds := [], doHeatbath := false, table := none }

def GenS.step {ι : Type} (mk : List ι → BW) (s : GenS ι) : GenOp ι → GenS ι
  | .addInteraction i => { s with table := none, bonds := s.bonds ++ [i] }
  | .setDoHeatbath b => { s with doHeatbath := b }
  | .diagonalUpdate =>
    if s.doHeatbath then
      match s.table with
      | none => { s with table := some (mk s.bonds) }
      | some _ => s
    else s

/-- the table the heat-bath sweep of `diagonal_update` runs with (after the lazy construction), if any -/
def GenS.tableUsed {ι : Type} (mk : List ι → BW) (s : GenS ι) : Option BW :=
  if s.doHeatbath then (match s.table with | none => some (mk s.bonds) | some t => some t) else none

def GenS.run {ι : Type} (mk : List ι → BW) (s : GenS ι) (ops : List (GenOp ι)) : GenS ι :=
  ops.foldl (GenS.step mk) s

/-- `QmcIsingGraph`: edges / Γ / h are fixed at construction (no setter exists); `ham` stands for them. -/
structure IsingS (η : Type) where
  ham : η
  table : Option BW

inductive IsingOp where
  | setEnableHeatbath (b : Bool)
  | diagonalStep                 -- `single_diagonal_step`: reads the table, never writes it

def IsingS.step {η : Type} (mk : η → BW) (s : IsingS η) : IsingOp → IsingS η
  | .setEnableHeatbath true => { s with table := some (mk s.ham) }
  | .setEnableHeatbath false => { s with table := none }
  | .diagonalStep => s

def IsingS.run {η : Type} (mk : η → BW) (s : IsingS η) (ops : List IsingOp) : IsingS η :=
  ops.foldl (IsingS.step mk) s

/-! ### two samplers exchanging their operator strings (`swap_manager_and_state`, tempering)

`QmcIsingGraph::swap_manager_and_state` and `Qmc::swap_manager_and_state` exchange `op_manager` and `state`
(and raise both cutoffs to the larger one); every Hamiltonian-side field — edges, Γ, h / the interaction
list, the heat-bath flag and the bond-weight table — stays with its sampler. `μ` is the payload that moves
(operator string + state), `σ` the Hamiltonian-side state (`IsingS η` or `GenS ι`). -/

structure HBPair (σ μ : Type) where
  a : σ
  ma : μ
  b : σ
  mb : μ

inductive HBPairOp (o : Type) where
  | left (x : o)     -- a public operation on the first sampler
  | right (x : o)    -- … on the second
  | swap             -- `a.swap_manager_and_state(b)`, `b.swap_manager_and_state(a)`, or an accepted swap of `tempering_step`
  | noswap           -- a `tempering_step` whose swap was rejected

/-- `swap_manager_and_state`: the payloads are exchanged, nothing else -/
def HBPair.swapSamplers {σ μ : Type} (p : HBPair σ μ) : HBPair σ μ := { p with ma := p.mb, mb := p.ma }

def HBPair.step {σ μ o : Type} (f : σ → o → σ) (p : HBPair σ μ) : HBPairOp o → HBPair σ μ
  | .left x => { p with a := f p.a x }
  | .right x => { p with b := f p.b x }
  | .swap => p.swapSamplers
  | .noswap => p

def HBPair.run {σ μ o : Type} (f : σ → o → σ) (p : HBPair σ μ) (ops : List (HBPairOp o)) : HBPair σ μ :=
  ops.foldl (HBPair.step f) p

/-! ### the Ising Hamiltonian as a table Hamiltonian (bond numbering of `qmc_ising.rs`) -/

/-- `two_site_hamiltonian` diagonal entries `|J| ∓ J`, index `outs ++ ins`, msb first -/
def isingEdgeMat (J : Rat) : List Rat :=
  let a := (if J < 0 then -J else J)
  (List.range 16).map fun i =>
    let o := i / 4; let ins := i % 4
    if o = ins then (if ins = 0 ∨ ins = 3 then a - J else a + J) else 0

/-- `longitudinal_hamiltonian`: `|h| + h` on (1,1), `|h| − h` on (0,0), 0 off the diagonal (the field term is diagonal) -/
def isingLongMat (h : Rat) : List Rat :=
  let a := (if h < 0 then -h else h)
  [a - h, 0, 0, a + h]

/-- bonds: edges (two-site, not constant), then one constant transverse bond per variable, then one
longitudinal bond per variable iff `h ≠ 0` (the code's test is `|h| > f64::EPSILON`). -/
def isingBonds (edges : List (Nat × Nat × Rat)) (Γ h : Rat) (nvars : Nat) : List TBond :=
  edges.map (fun e => { vars := [e.1, e.2.1], const := false, mat := isingEdgeMat e.2.2 })
  ++ (List.range nvars).map (fun v => { vars := [v], const := true, mat := [Γ, Γ, Γ, Γ] })
  ++ (if h = 0 then [] else (List.range nvars).map (fun v => { vars := [v], const := false, mat := isingLongMat h }))

/-! ### protocol steps shared by the C08 and C02 drivers -/
namespace Proto

def showTableHam (bs : List TBond) : String :=
  s!"H{bs.length}!" ++ String.intercalate "!" (bs.map fun b => s!"{showNats b.vars}:{showBool b.const}:{showRats b.mat}")

def showSweep (c : Config) (rs : RS) : String :=
  if rs.panicked then "PANIC" else
  s!"{showSlots c.slots} {showBits c.state} {rs.verdict}"

def showTable (t : Option BW) : String :=
  match t with
  | none => "none"
  | some bw => showRats bw

/-- kinds `msweep`, `hsweep`, `bw`, `mprob`, `hprob` (see Drivers/C08.lean) -/
def diagStepCore (toks : List String) : Option String :=
  match toks with
  | ["msweep", ham, beta, cutoff, state, slots, script] =>
    let H := tableHam (parseTableHam ham)
    let c : Config := { state := parseBits state, slots := parseSlots slots }
    let (c', rs) := metropolisSweep H (parseRat beta) (parseNat cutoff) c (RS.ofScript (parseNats script))
    some (showSweep c' rs)
  | ["hsweep", ham, table, beta, cutoff, state, slots, script] =>
    let H := tableHam (parseTableHam ham)
    let bw : BW := parseRats table
    let c : Config := { state := parseBits state, slots := parseSlots slots }
    let (c', rs) := heatBathSweep H bw (parseRat beta) (parseNat cutoff) c (RS.ofScript (parseNats script))
    some (showSweep c' rs)
  | ["bw", ham] =>
    let H := tableHam (parseTableHam ham)
    let bw := makeBondWeights H
    some s!"{showRats bw} {showRats (cumul bw)}"
  | ["mprob", ham, beta, cutoff, state, slots, script, k, b] =>
    let H := tableHam (parseTableHam ham)
    let β := parseRat beta
    let L := parseNat cutoff
    let c : Config := { state := parseBits state, slots := parseSlots slots }
    let (_, st, n, rs) := sweepPrefix (metropolisSlot H β L) L (parseNat k) c (RS.ofScript (parseNats script))
    let bond := parseNat b
    let sub := readVars st (H.vars bond)
    let w := H.w bond sub sub
    if rs.panicked || rs.short then some "PANIC" else
    if rs.margin < 1 / 1000000000 then some "?" else
    some s!"{n} {showApprox (1 / (H.nbonds : Rat))} {showApprox (accInsM β H.nbonds w L n)} {showApprox (accRemM β H.nbonds w L (n + 1))}"
  | ["hprob", ham, table, beta, cutoff, state, slots, script, k, b] =>
    let H := tableHam (parseTableHam ham)
    let bw : BW := parseRats table
    let β := parseRat beta
    let L := parseNat cutoff
    let c : Config := { state := parseBits state, slots := parseSlots slots }
    let (_, st, n, rs) := sweepPrefix (heatBathSlot H bw β L) L (parseNat k) c (RS.ofScript (parseNats script))
    let bond := parseNat b
    let sub := readVars st (H.vars bond)
    let w := H.w bond sub sub
    let W := (bwTotal bw).getD 0
    let mw := bw.getD bond 0
    let acc : Rat := if mw = 0 then 0 else clip1 (w / mw)
    if rs.panicked || rs.short then some "PANIC" else
    if rs.margin < 1 / 1000000000 then some "?" else
    some s!"{n} {showApprox (β * W / (((L - n : Nat) : Rat) + β * W))} {showApprox (mw / W)} {showApprox acc} {showApprox (pRemoveHB β W L (n + 1))}"
  | _ => none

/-- `diagStepCore` plus `gsweep` / `gprob`: heat-bath sweep / slot probabilities of the generic sampler, whose table
is by specification the one of its CURRENT interaction list (`makeBondWeights` of the given Hamiltonian):
  gsweep <ham> <beta> <cutoff> <state> <slots> <script>;  gprob <ham> <beta> <cutoff> <state> <slots> <script> <k> <b> -/
def diagStep (toks : List String) : Option String :=
  match toks with
  | "gsweep" :: ham :: rest =>
    diagStepCore ("hsweep" :: ham :: showRats (makeBondWeights (tableHam (parseTableHam ham))) :: rest)
  | "gprob" :: ham :: rest =>
    diagStepCore ("hprob" :: ham :: showRats (makeBondWeights (tableHam (parseTableHam ham))) :: rest)
  | ["gzero", ham, beta, cutoff, state, slots, script, k, b] =>
    -- a bond of weight 0 at slot k: the count current at the slot and the probability of passing the rejection test (0)
    let H := tableHam (parseTableHam ham)
    let bw := makeBondWeights H
    let β := parseRat beta
    let L := parseNat cutoff
    let c : Config := { state := parseBits state, slots := parseSlots slots }
    let (_, st, n, rs) := sweepPrefix (heatBathSlot H bw β L) L (parseNat k) c (RS.ofScript (parseNats script))
    let bond := parseNat b
    let sub := readVars st (H.vars bond)
    let mw := bw.getD bond 0
    let acc : Rat := if mw = 0 then 0 else clip1 (H.w bond sub sub / mw)
    if rs.panicked || rs.short then some "PANIC" else
    if rs.margin < 1 / 1000000000 then some "?" else
    some s!"{n} {showApprox acc}"
  | _ => diagStepCore toks

end Proto
end Qmc
