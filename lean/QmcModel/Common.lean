/-
Model helpers shared by several areas. Each of them used to be declared twice (once per area, under
the same name in `namespace Qmc`), which made the areas impossible to import together
(design_notes/Cleanup.md). Core Lean only.

* `absR`                 — was in Interaction.lean (C16) and Cluster.lean (C09), identical.
* `xorB`, `maskOp`,
  `maskSlots`            — was in Cluster.lean (C09) and, with `xorBits` (= `List.zipWith xor`; `xor` is an
                           `abbrev` of `bne`, so the two are definitionally equal) in place of `xorB`, in
                           Worldline.lean (C06/C07). `QmcProofs/Common.lean` has `xorB_eq_xorBits`-style
                           facts only where a proof needs them (`Qmc.xorBits_eq_xorB`, QmcProofs/Worldline.lean).
-/
import QmcModel.Basic

namespace Qmc

/-- `f64::abs` on exact rationals -/
def absR (x : Rat) : Rat := if x < 0 then -x else x

/-- pointwise xor of two bit lists -/
def xorB (x y : List Bool) : List Bool := List.zipWith (fun p q => p != q) x y

/-- the flip mask of one op: which input / output legs differ -/
def maskOp (ob oa : Op) : Op :=
  { vars := ob.vars, bond := ob.bond, ins := xorB ob.ins oa.ins, outs := xorB ob.outs oa.outs,
    tagDiag := false, const := ob.const }

/-- the flip masks of the ops of two strings on the same skeleton, position by position -/
def maskSlots : Slots → Slots → Slots
  | some ob :: tb, some oa :: ta => some (maskOp ob oa) :: maskSlots tb ta
  | _ :: tb, _ :: ta => none :: maskSlots tb ta
  | _, _ => []

end Qmc
