/-
C18 — model of the scratch-buffer pool (core Lean only).

Mirrors (Rust):
* `util/allocator.rs`  `Allocator<T>::{new_with_max_in_flight, get_instance, return_instance}`,
  `Reset`, `StackTuplizer::{new, dissolve}`
* `sse/fast_op_alloc.rs`  `DefaultFastOpAllocator` (nine allocators, one per buffer type)
* every `get_instance` / `return_instance` site of the update routines, as one *allocation
  grammar* per update kind (section "grammars" below; each definition names the Rust lines it
  transcribes)
* `util/bondcontainer.rs`  `BondContainer::{insert, remove, remove_index, clear}` and the
  `Reset` impls (what "returned empty" means)

Abstraction: an update is seen as the *word* of pool events it performs; the control flow of
the Rust (early exits, optional branches, loops with data-dependent iteration counts) becomes
`alt` / `star` of a regular grammar.  Theorems are in QmcProofs/Pool.lean, QmcProps/C18.lean.
-/
namespace Qmc.Pool

/-! ## buffer types, events, the pool as nine bounded counters -/

/-- The nine pooled buffer types (fields of `DefaultFastOpAllocator`). -/
inductive Ty where
  | usize     -- Vec<usize>
  | bool      -- Vec<bool>
  | opside    -- Vec<OpSide>
  | leg       -- Vec<Leg>
  | optUsize  -- Vec<Option<usize>>
  | f64       -- Vec<f64>
  | bcUsize   -- BondContainer<usize>
  | bcVarPos  -- BondContainer<VarPos>
  | heap      -- BinaryHeap<Reverse<usize>>
  deriving DecidableEq, Repr, Inhabited

def Ty.all : List Ty :=
  [.usize, .bool, .opside, .leg, .optUsize, .f64, .bcUsize, .bcVarPos, .heap]

/-- One pool event: `get_instance::<t>()` or `return_instance::<t>(_)`. -/
inductive Ev where
  | get (t : Ty)
  | ret (t : Ty)
  deriving DecidableEq, Repr, Inhabited

/-- Pool occupancy: number of free instances per type (`Allocator.instances.len()`). -/
abbrev Caps := Ty → Nat

def upd (c : Caps) (t : Ty) (v : Nat) : Caps := fun s => if s = t then v else c s

/-- Run an event word on the pool.  `get` on an empty free list is the Rust
`panic!("Out of instances.")` (`gen_more` is always `false`) = `none`.  `ret` pushes and never
fails (the free list is an unbounded `Vec`). -/
def run : Caps → List Ev → Option Caps
  | c, [] => some c
  | c, .get t :: w => if c t = 0 then none else run (upd c t (c t - 1)) w
  | c, .ret t :: w => run (upd c t (c t + 1)) w

/-- The same run, watching a single buffer type. -/
def runT (t : Ty) : Nat → List Ev → Option Nat
  | c, [] => some c
  | c, .get s :: w => if s = t then (if c = 0 then none else runT t (c - 1) w) else runT t c w
  | c, .ret s :: w => if s = t then runT t (c + 1) w else runT t c w

/-- Effect of one event on the number of type-`t` buffers in flight. -/
def delta (t : Ty) : Ev → Int
  | .get s => if s = t then 1 else 0
  | .ret s => if s = t then -1 else 0

/-- Net number of type-`t` buffers a word leaves in flight. -/
def netW (t : Ty) : List Ev → Int
  | [] => 0
  | e :: w => delta t e + netW t w

/-- Largest number of type-`t` buffers in flight at any point of a word (≥ 0). -/
def peakW (t : Ty) : List Ev → Int
  | [] => 0
  | e :: w => max 0 (delta t e + peakW t w)

/-- Fewest free type-`t` instances seen while running a word from `c` free ones
(what the hook's `instances_left` column bottoms out at). Integer so that a failing run is
visible as a negative number. -/
def minFree (t : Ty) (c : Nat) (w : List Ev) : Int := (c : Int) - peakW t w

/-! ## allocation grammars -/

inductive G where
  | empty                 -- no word (only produced by derivatives)
  | eps                   -- the empty word
  | ev (e : Ev)
  | seq (a b : G)
  | alt (a b : G)
  | star (a : G)
  deriving DecidableEq, Repr, Inhabited

/-- The language of a grammar. -/
inductive Lang : G → List Ev → Prop
  | eps : Lang .eps []
  | ev (e : Ev) : Lang (.ev e) [e]
  | seq {a b u v} : Lang a u → Lang b v → Lang (.seq a b) (u ++ v)
  | altL {a b u} : Lang a u → Lang (.alt a b) u
  | altR {a b u} : Lang b u → Lang (.alt a b) u
  | starNil {a} : Lang (.star a) []
  | starCons {a u v} : Lang a u → Lang (.star a) v → Lang (.star a) (u ++ v)

/-- `(net, peak)` of buffer type `t` over *all* words of the grammar, or `none` if the grammar
does not have a uniform net effect (two branches of an `alt` differ, or a `star` body is not
balanced) — such a grammar can leak. -/
def summary (t : Ty) : G → Option (Int × Int)
  | .empty => none
  | .eps => some (0, 0)
  | .ev e => some (delta t e, max 0 (delta t e))
  | .seq a b =>
    match summary t a, summary t b with
    | some (n1, p1), some (n2, p2) => some (n1 + n2, max p1 (n1 + p2))
    | _, _ => none
  | .alt a b =>
    match summary t a, summary t b with
    | some (n1, p1), some (n2, p2) => if n1 = n2 then some (n1, max p1 p2) else none
    | _, _ => none
  | .star a =>
    match summary t a with
    | some (n, p) => if n = 0 then some (0, max 0 p) else none
    | none => none

/-- Type `t`: the grammar is balanced and never needs more than `cap` buffers at once. -/
def fitsT (t : Ty) (g : G) (cap : Nat) : Bool :=
  match summary t g with
  | some (n, p) => n == 0 && decide (p ≤ (cap : Int))
  | none => false

/-- All nine types: balanced and within capacity. -/
def fitsB (g : G) (caps : Caps) : Bool := Ty.all.all fun t => fitsT t g (caps t)

/-- peak demand per type, for reporting (`none` = unbalanced) -/
def peaks (g : G) : List (Option Int) :=
  Ty.all.map fun t => match summary t g with
    | some (0, p) => some p
    | _ => none

/-! ### Brzozowski-derivative matcher -/

def nullable : G → Bool
  | .empty => false
  | .eps => true
  | .ev _ => false
  | .seq a b => nullable a && nullable b
  | .alt a b => nullable a || nullable b
  | .star _ => true

/-- `seq` with `∅·b = a·∅ = ∅`, `ε·b = b`. -/
def mkSeq (a b : G) : G :=
  if a = .empty then .empty
  else if b = .empty then .empty
  else if a = .eps then b
  else .seq a b

/-- `alt` with `∅ + b = b`, `a + ∅ = a`, `a + a = a`. -/
def mkAlt (a b : G) : G :=
  if a = .empty then b
  else if b = .empty then a
  else if a = b then a
  else .alt a b

def deriv (e : Ev) : G → G
  | .empty => .empty
  | .eps => .empty
  | .ev e' => if e = e' then .eps else .empty
  | .seq a b =>
    if nullable a then mkAlt (mkSeq (deriv e a) b) (deriv e b) else mkSeq (deriv e a) b
  | .alt a b => mkAlt (deriv e a) (deriv e b)
  | .star a => mkSeq (deriv e a) (.star a)

def matchesD (g : G) : List Ev → Bool
  | [] => nullable g
  | e :: w => matchesD (deriv e g) w

/-- Longest prefix of `w` that can still be extended to a word of `g` (for diagnostics:
where does an observed word leave the grammar). -/
def viablePrefix (g : G) : List Ev → Nat
  | [] => 0
  | e :: w => if deriv e g = .empty then 0 else 1 + viablePrefix (deriv e g) w

/-! ### grammar notation -/

def seqL : List G → G
  | [] => .eps
  | [a] => a
  | a :: as => .seq a (seqL as)

def opt (a : G) : G := .alt .eps a
def plus (a : G) : G := .seq a (.star a)
def get (t : Ty) : G := .ev (.get t)
def ret (t : Ty) : G := .ev (.ret t)

/-! ## grammars of the update routines (transcribed from the Rust control flow)

Notation in comments: file:function, the buffers in source order. -/

/-- fast_ops.rs `get_empty_args(SubvarAccess::All)` → `FastOpMutateArgs::new(nvars, None, ·)`:
`last_vars`, `last_rels` (both `Vec<Option<usize>>`). -/
def argsAllGet : G := seqL [get .optUsize, get .optUsize]
/-- fast_ops.rs `return_args` without `subvar_mapping`. -/
def argsAllRet : G := seqL [ret .optUsize, ret .optUsize]
/-- `get_empty_args(SubvarAccess::Varlist(vars))`: `last_vars`, `last_rels`, then
`vars_to_subvars`, `subvars_to_vars` (`Vec<usize>`). -/
def argsVarGet : G := seqL [get .optUsize, get .optUsize, get .usize, get .usize]
/-- `return_args` with `subvar_mapping`. -/
def argsVarRet : G := seqL [ret .optUsize, ret .optUsize, ret .usize, ret .usize]

/-- fast_ops.rs `mutate_subsection(pstart, pend, t, f, None)` (= `mutate_ps`): args for all
variables are built, every p is visited with `mutate_p` (no pool use), args returned.
Used by `make_diagonal_update_with_rng_and_state_ref` (diagonal.rs) and
`make_heatbath_diagonal_update_with_rng_and_state_ref` (heatbath.rs). -/
def sweepPs : G := seqL [argsAllGet, argsAllRet]

/-- fast_ops.rs `mutate_subsection_ops(…, None)` (= `mutate_ops`): `All` cursor, the `else`
branch walks `next_p` without a heap. -/
def sweepOpsAll : G := seqL [argsAllGet, argsAllRet]

/-- `mutate_subsection_ops(…, Some(args))` with a `Varlist` cursor: the heap branch
(`p_heap` borrowed, returned after the `while`, also when it `break`s on `p > pend`), then
`return_args`.  The matching `get_empty_args(Varlist)` of the caller comes first. -/
def sweepOpsVar : G := seqL [argsVarGet, get .heap, ret .heap, argsVarRet]

/-- `get_empty_args(Varlist)` + `mutate_subsection(…, Some(args))`: no heap. -/
def sweepPsVar : G := seqL [argsVarGet, argsVarRet]

/-- `get_empty_args(All)` + `mutate_subsection[_ops](…, Some(args))`. -/
def sweepAllArgs : G := seqL [argsAllGet, argsAllRet]

/-- fast_ops.rs `clear_and_install_ops` (via `FastOps::new_from_ops`): empty input returns
before any borrow; otherwise `last_vars`, `last_rels`. -/
def install : G := opt (seqL [get .optUsize, get .optUsize, ret .optUsize, ret .optUsize])

/-- cluster.rs `expand_whole_cluster`: `interior_frontier = StackTuplizer::<usize, Leg>::new`,
dissolved at the end (`new` gets a then b; `dissolve` returns a then b). -/
def expandCluster : G := seqL [get .usize, get .leg, ret .usize, ret .leg]

/-- cluster.rs `flip_each_cluster_rng`:
`n == 0` → return before any borrow;
`boundaries : StackTuplizer<Option<usize>, Option<usize>>`;
if a constant op exists: `frontier : StackTuplizer<usize, OpSide>`, one `expand_whole_cluster`
per cluster found (at least one), `frontier.dissolve`;
`flips : Vec<bool>`; if a weight function is given `flips_weights : Vec<f64>` (returned inside
the branch); `boundaries.dissolve`; `return_instance(flips)`. -/
def cluster : G :=
  opt (seqL [get .optUsize, get .optUsize,
    opt (seqL [get .usize, get .opside, plus expandCluster, ret .usize, ret .opside]),
    get .bool,
    opt (seqL [get .f64, ret .f64]),
    ret .optUsize, ret .optUsize, ret .bool])

/-- directed_loop.rs `loop_body`: `legs = StackTuplizer::<Leg, f64>::new`, dissolved before
returning either `Return` or `Iterate`. -/
def loopBody : G := seqL [get .leg, get .f64, ret .leg, ret .f64]

/-- directed_loop.rs `make_loop_update_with_rng`: nothing if `n == 0`, else `apply_loop_update`
= `loop_body` until the loop closes (at least once). -/
def loopUpdate : G := opt (plus loopBody)

/-- rvb.rs `calculate_flip_prob`: `bonds_before`, `bonds_after`, `p_heap`; the `while` has
three `break`s, all fall through to the three returns (heap, before, after). -/
def flipProb : G :=
  seqL [get .bcUsize, get .bcUsize, get .heap, ret .heap, ret .bcUsize, ret .bcUsize]

/-- rvb.rs `mutate_graph`: `jump_to`, `continue_until`, `bonds`; one sub-variable sweep
(`get_empty_args(Varlist)` + `mutate_subsection_ops(…, Some(args))`) per (from, until) pair —
possibly none; then `bonds`, `jump_to`, `continue_until` returned. -/
def mutateGraph : G :=
  seqL [get .usize, get .usize, get .bcUsize, .star sweepOpsVar,
        ret .bcUsize, ret .usize, ret .usize]

/-- rvb.rs `rvb_update_with_ising_weight`, body of `for _ in 0..updates`:
`cluster_vars`, `cluster_flips`; `WeightedBoundaryManager::new_from_factory`
(2 × `BondContainer<VarPos>`, 2 × `Vec<bool>`); `boundary_vars`, `boundary_flips_pos`;
`dissolve_into` (returns the four); `cluster_starting_state`, `cluster_toggle_ps`, `subvars`,
`var_to_subvar`; returns `cluster_flips`, `cluster_vars`; `substate`; `subvar_boundary_tops`;
returns `boundary_vars`, `boundary_flips_pos`; `calculate_flip_prob`; if accepted
`mutate_graph`; six returns. -/
def rvbOne : G :=
  seqL [get .usize, get .optUsize,
        get .bcVarPos, get .bcVarPos, get .bool, get .bool,
        get .usize, get .optUsize,
        ret .bcVarPos, ret .bcVarPos, ret .bool, ret .bool,
        get .bool, get .usize, get .usize, get .optUsize,
        ret .optUsize, ret .usize,
        get .bool,
        get .optUsize,
        ret .usize, ret .optUsize,
        flipProb,
        opt mutateGraph,
        ret .optUsize, ret .optUsize, ret .bool, ret .usize, ret .usize, ret .bool]

/-- rvb.rs `rvb_update_with_ising_weight` (and `rvb_update`): `var_starts`, `var_lengths`,
`constant_ps`, `vars_with_zero_ops`; `updates` iterations (any number, also zero); four
returns. -/
def rvb : G :=
  seqL [get .usize, get .usize, get .usize, get .usize, .star rvbOne,
        ret .usize, ret .usize, ret .usize, ret .usize]

/-- qmc_ising.rs `QmcIsingGraph::timestep`: diagonal (Metropolis or heat bath) sweep, RVB
sweep if enabled, cluster update. -/
def isingStep : G := seqL [sweepPs, opt rvb, cluster]

/-- qmc_runner.rs `Qmc::timestep`: `diagonal_update`, `loop_update` if enabled,
`cluster_update` if the model has cluster edges and Ising symmetry, `flip_free_bits`. -/
def genericStep : G := seqL [sweepPs, opt loopUpdate, opt cluster]

/-- The public update calls whose pool behaviour is modelled. -/
inductive Update where
  | diag          -- single_diagonal_step / Qmc::diagonal_update / make_diagonal_update*  (Metropolis)
  | heatbath      -- the same entry points with heat-bath weights
  | cluster       -- single_cluster_step / Qmc::cluster_update / flip_each_cluster*_rng
  | loopUpdate    -- Qmc::loop_update / make_loop_update_with_rng
  | rvb           -- single_rvb_sweep(k) / rvb_update* for every k
  | install       -- FastOps::new_from_ops
  | sweepOpsAll   -- mutate_ops / mutate_subsection_ops(None)
  | sweepOpsVar   -- get_empty_args(Varlist) + mutate_subsection_ops(Some(args))
  | sweepPsVar    -- get_empty_args(Varlist) + mutate_subsection(Some(args))
  | sweepAllArgs  -- get_empty_args(All) + mutate_subsection[_ops](Some(args))
  | isingStep     -- QmcIsingGraph::timestep
  | genericStep   -- Qmc::timestep
  | isingSteps    -- QmcStepper::timesteps(t, β) and friends on the Ising sampler; TemperingContainer::timesteps
  | genericSteps  -- the same on the generic sampler
  | restore       -- serde round trip of a sampler / manager / tempering container: no pool event; the
                  -- restored object's free lists are rebuilt from the stored counts (`restoreFree` below)
  | noPool        -- tempering_step / swap_manager_and_state / flip_free_bits / set_cutoff / getters
  deriving DecidableEq, Repr, Inhabited

def Update.all : List Update :=
  [.diag, .heatbath, .cluster, .loopUpdate, .rvb, .install, .sweepOpsAll, .sweepOpsVar,
   .sweepPsVar, .sweepAllArgs, .isingStep, .genericStep, .isingSteps, .genericSteps, .restore, .noPool]

def grammar : Update → G
  | .diag => sweepPs
  | .heatbath => sweepPs
  | .cluster => cluster
  | .loopUpdate => loopUpdate
  | .rvb => rvb
  | .install => install
  | .sweepOpsAll => sweepOpsAll
  | .sweepOpsVar => sweepOpsVar
  | .sweepPsVar => sweepPsVar
  | .sweepAllArgs => sweepAllArgs
  | .isingStep => isingStep
  | .genericStep => genericStep
  | .isingSteps => .star isingStep
  | .genericSteps => .star genericStep
  | .restore => .eps
  | .noPool => .eps

/-- Everything a history of public calls can do to the pool. -/
def history (calls : List Update) : G := seqL (calls.map grammar)

def Update.ofString? : String → Option Update
  | "diag" => some .diag
  | "heatbath" => some .heatbath
  | "cluster" => some .cluster
  | "loop" => some .loopUpdate
  | "rvb" => some .rvb
  | "install" => some .install
  | "sweepops" => some .sweepOpsAll
  | "sweepopsvar" => some .sweepOpsVar
  | "sweeppsvar" => some .sweepPsVar
  | "sweepallargs" => some .sweepAllArgs
  | "istep" => some .isingStep
  | "gstep" => some .genericStep
  | "isteps" => some .isingSteps
  | "gsteps" => some .genericSteps
  | "restore" => some .restore
  | "nopool" => some .noPool
  | _ => none

/-! ## what "returned empty" means: `Reset` and `BondContainer` -/

/-- `BondContainer<T>` with keys already mapped to `usize` (`T: Into<usize>`), weights exact. -/
structure BC where
  map : List (Option Nat)        -- bond number → index into `keys`
  keys : List (Nat × Rat)        -- (key, weight)
  total : Rat
  deriving Repr, DecidableEq, Inhabited

namespace BC

def new : BC := { map := [], keys := [], total := 0 }

/-- `correct_total_weight`: clamp a negative running total to 0. -/
def clamp (x : Rat) : Rat := if x < 0 then 0 else x

/-- `self.map.resize(entry_index + 1, None)` when the key is beyond the address table. -/
def grow (m : List (Option Nat)) (k : Nat) : List (Option Nat) :=
  if k ≥ m.length then m ++ List.replicate (k + 1 - m.length) none else m

/-- `BondContainer::insert` -/
def insert (b : BC) (k : Nat) (w : Rat) : BC :=
  match (grow b.map k)[k]? with
  | some (some idx) =>
    match b.keys[idx]? with
    | some (key, old) =>
      { map := grow b.map k, keys := b.keys.set idx (key, w), total := clamp (b.total + (w - old)) }
    | none => b   -- Rust: index out of bounds panic (excluded by the container invariant)
  | _ =>
    { map := (grow b.map k).set k (some b.keys.length), keys := b.keys ++ [(k, w)],
      total := b.total + w }

/-- `BondContainer::remove_index`: swap with the last key, fix its address, pop, clear the
address of the removed key, subtract the weight. -/
def removeIndex (b : BC) (i : Nat) : BC :=
  match b.keys[i]?, b.keys.getLast? with
  | some x, some l =>
    let keys := (b.keys.set i l).dropLast
    let map := (b.map.set l.1 (some i)).set x.1 none
    { map := map, keys := keys, total := clamp (b.total - x.2) }
  | _, _ => b   -- Rust: panic (excluded by the invariant)

/-- `BondContainer::remove` -/
def remove (b : BC) (k : Nat) : BC :=
  match b.map[k]? with
  | some (some idx) => removeIndex b idx
  | _ => b   -- `None` entry: nothing; `k ≥ map.len()`: Rust panics (not reached by the callers, which test `contains` first)

/-- `BondContainer::clear`: un-map every stored key, drop the keys, zero the total. -/
def clear (b : BC) : BC :=
  { map := b.keys.foldl (fun m kw => m.set kw.1 none) b.map, keys := [], total := 0 }

/-- `verif_is_clean` (what a borrower can observe of a fresh container). -/
def clean (b : BC) : Bool := b.keys.isEmpty && b.total == 0 && b.map.all (· == none)

def contains (b : BC) (k : Nat) : Bool :=
  match b.map[k]? with
  | some (some _) => true
  | _ => false

def len (b : BC) : Nat := b.keys.length

/-- The mutating part of the public interface. -/
inductive Op where
  | insert (k : Nat) (w : Rat)
  | remove (k : Nat)
  | clear
  deriving Repr, DecidableEq

def step (b : BC) : Op → BC
  | .insert k w => b.insert k w
  | .remove k => b.remove k
  | .clear => b.clear

/-- The part of the container invariant that `clear` relies on: every occupied address
belongs to a stored key. -/
def Covered (b : BC) : Prop :=
  ∀ i, i < b.map.length → b.map[i]? ≠ some none → ∃ kw ∈ b.keys, kw.1 = i

end BC

/-- A pooled buffer (contents abstracted to what `Reset` and the borrower's view need). -/
inductive Buf where
  | vec (len : Nat)              -- any `Vec<_>`: only its length is observable to `is_empty`
  | heap (len : Nat)             -- `BinaryHeap<Reverse<usize>>`
  | bc (b : BC)                  -- `BondContainer<_>`
  deriving Repr, DecidableEq, Inhabited

/-- `Reset::reset` -/
def Buf.reset : Buf → Buf
  | .vec _ => .vec 0
  | .heap _ => .heap 0
  | .bc b => .bc b.clear

/-- `Reset::verif_is_clean` -/
def Buf.clean : Buf → Bool
  | .vec n => n == 0
  | .heap n => n == 0
  | .bc b => b.clean

/-- Buffers a borrower can hand back: containers keep `Covered`. -/
def Buf.Ok : Buf → Prop
  | .bc b => b.Covered
  | _ => True

/-- The free list of one allocator with contents; `return_instance` resets then pushes,
`get_instance` pops. -/
def retBuf (free : List Buf) (b : Buf) : List Buf := b.reset :: free

/-! ## snapshot / restore of a free list (`util/allocator.rs` `numeric_serialize`) -/

/-- `T::default()` for the three shapes of pooled buffer. -/
def Buf.dflt : Ty → Buf
  | .bcUsize => .bc BC.new
  | .bcVarPos => .bc BC.new
  | .heap => .heap 0
  | _ => .vec 0

/-- `numeric_serialize::serialize`: only the number of free instances is stored. -/
def snapshotFree (free : List Buf) : Nat := free.length

/-- `numeric_serialize::deserialize`: `(0..s).map(|_| T::default()).collect()`. -/
def restoreFree (t : Ty) (n : Nat) : List Buf := List.replicate n (Buf.dflt t)

end Qmc.Pool
