/-
Models used by C14 (snapshot / restore) and C13 (reproducibility, schedule independence).
Core Lean only.  Everything here is stated over the structures that `tools/extract_fields.py`
regenerates from the Rust sources (`QmcModel/Generated/Fields.lean`), so a change of the field
lists in /repo changes these definitions' types as well.

* `Pool`     : `Allocator::{get_instance, return_instance}` (util/allocator.rs) and its count abstraction.
* `Sched`    : a parallel section = a multiset of tasks, each owning ONE component of a list
               (`par_iter_mut`, `zip(par_iter_mut)`, `par_iter_mut().chunks(2)`); a schedule is any order of
               execution.  Disjointness of the footprints is Rust's `&mut` guarantee (trusted).
* `Temper`   : `TemperingContainer::{make_ham_equalities, tempering_step, timesteps_sample}` and the rayon
               versions (`parallel_tempering_step`, `parallel_perform_swaps`, `parallel_timesteps_sample`)
               over an abstract replica (`Ops`), including the `graph_ham_eq_*` caches that the RNG-less
               restore resets to `None`.
-/
import QmcModel.Generated.Fields

namespace Qmc.Snap
open Qmc.Gen

/-! ## Scratch pool (`Allocator<T>`) -/
section Pool
variable {T : Type}

/-- what a JSON snapshot keeps of a pool: instance count and the `gen_more` flag -/
def counts (a : Allocator T) : Nat × Bool := (a.instances.length, a.gen_more)

/-- `get_instance`: pop the last instance; empty pool: `T::default()` if `gen_more`, else panic (`none`). -/
def poolGet [Inhabited T] (a : Allocator T) : Option (T × Allocator T) :=
  match a.instances.getLast? with
  | some t => some (t, { a with instances := a.instances.dropLast })
  | none => if a.gen_more then some (default, a) else none

/-- `return_instance`: `t.reset()` then push. -/
def poolRet (reset : T → T) (a : Allocator T) (t : T) : Allocator T :=
  { a with instances := a.instances ++ [reset t] }

/-- pool events of one update routine -/
inductive Ev where
  | get
  | ret
  deriving DecidableEq, Repr

/-- Run an event word: in-flight instances are kept on a stack (`ret` gives back the most recent one, or a
fresh default if nothing is in flight).  `none` = "Out of instances." panic. -/
def runPool [Inhabited T] (reset : T → T) : List Ev → Allocator T × List T → Option (Allocator T × List T)
  | [], s => some s
  | .get :: evs, (a, held) =>
    match poolGet a with
    | none => none
    | some (t, a') => runPool reset evs (a', t :: held)
  | .ret :: evs, (a, held) =>
    match held with
    | [] => runPool reset evs (poolRet reset a default, [])
    | t :: held' => runPool reset evs (poolRet reset a t, held')

/-- the same on counts only -/
def runCounts : List Ev → Nat × Bool → Option (Nat × Bool)
  | [], s => some s
  | .get :: evs, (n, gm) =>
    if n > 0 then runCounts evs (n - 1, gm) else if gm then runCounts evs (0, gm) else none
  | .ret :: evs, (n, gm) => runCounts evs (n + 1, gm)

/-- `BondContainer::clear` = the `Reset` of a pooled container (body shape-checked against the source by the
extractor): unmap every key, clear `keys`, zero `total_weight` — unconditionally.  `idx` is `Into<usize>`. -/
def bcClear {F64 K : Type} (zero : F64) (idx : K → Nat) (bc : BondContainer F64 K) : BondContainer F64 K :=
  { map := bc.keys.foldl (fun m k => m.set (idx k.1) none) bc.map, keys := [], total_weight := zero }

/-- observably `Default`: no keys, weight exactly zero, nothing mapped (`verif_is_clean`) -/
def bcClean {F64 K : Type} (zero : F64) (bc : BondContainer F64 K) : Prop :=
  bc.keys = [] ∧ bc.total_weight = zero ∧ ∀ (i v : Nat), bc.map[i]? ≠ some (some v)

/-- the container invariant `clear` relies on: only positions of present keys are mapped -/
def bcMapInv {F64 K : Type} (idx : K → Nat) (bc : BondContainer F64 K) : Prop :=
  ∀ (i v : Nat), bc.map[i]? = some (some v) → ∃ k ∈ bc.keys, idx k.1 = i

end Pool

/-! ## Parallel sections as task lists -/
section Sched
variable {C : Type}

/-- One task: it owns component `idx` (a `&mut` to it) and applies `f`. -/
structure Task (C : Type) where
  idx : Nat
  f : C → C

def modifyAt (f : C → C) : Nat → List C → List C
  | _, [] => []
  | 0, c :: cs => f c :: cs
  | i + 1, c :: cs => c :: modifyAt f i cs

/-- Execute tasks in the given order (one *schedule*). -/
def runTasks (ts : List (Task C)) (σ : List C) : List C :=
  ts.foldl (fun σ t => modifyAt t.f t.idx σ) σ

/-- what component `i` sees of a schedule: its own tasks, in order -/
def proj (i : Nat) (ts : List (Task C)) : List (C → C) :=
  (ts.filter (fun t => t.idx == i)).map (·.f)

def applyAll (fs : List (C → C)) (c : C) : C := fs.foldl (fun c f => f c) c

/-- sequential reference: `iter_mut().enumerate().for_each(|(i, c)| *c = f i c)` -/
def mapIdxFrom (f : Nat → C → C) : Nat → List C → List C
  | _, [] => []
  | k, c :: cs => f k c :: mapIdxFrom f (k + 1) cs

/-- a parallel section: one task per index, executed in the order `order` (any permutation of the indices) -/
def parSection (f : Nat → C → C) (order : List Nat) (σ : List C) : List C :=
  runTasks (order.map fun i => ⟨i, f i⟩) σ

end Sched

/-! ## Tempering container -/
section Temper
variable {F64 R Q U E A S : Type}

/-- What the drivers need from a replica `Q` and from the container RNG `R`. -/
structure Ops (F64 R Q U : Type) where
  /-- `ham_eq` -/
  hamEq : Q → Q → Bool
  /-- `get_op_cutoff` -/
  cutoff : Q → Nat
  /-- `set_op_cutoff` -/
  setCutoff : Nat → Q → Q
  /-- `swap_on_chunks(a, b, p, evaluate_hamiltonians)`: new pair and "swapped" -/
  swapOn : Q × F64 → Q × F64 → U → Bool → (Q × F64) × (Q × F64) × Bool
  /-- `rng.gen_bool(0.5)` -/
  genHalf : R → Bool × R
  /-- `rng.gen_range(0. ..1.0)` -/
  genUnif : R → U × R

abbrev TC (F64 R Q : Type) := TemperingContainer F64 R Q

/-- `make_first_subgraphs`: (the even-length prefix that is processed, the untouched rest) -/
def firstSub {α : Type} (l : List α) : List α × List α :=
  (l.take (l.length - l.length % 2), l.drop (l.length - l.length % 2))

/-- `make_second_subgraphs`: (untouched head, processed middle, untouched tail) -/
def secondSub {α : Type} (l : List α) : List α × List α × List α :=
  if l.length % 2 = 1 then (l.take 1, l.drop 1, [])
  else (l.take 1, (l.drop 1).take (l.length - 2), l.drop (l.length - 1))

/-- `make_eqs_from_graphs`: `ham_eq` of every chunk of two -/
def eqsOf (ops : Ops F64 R Q U) : List (Q × F64) → List Bool
  | a :: b :: rest => ops.hamEq a.1 b.1 :: eqsOf ops rest
  | _ => []

/-- `make_ham_equalities`: the REGENERATED body (`Generated/Fields.lean`: which cache is rebuilt under which guard),
with the two sub-slice computations plugged in -/
def makeHamEqualities (ops : Ops F64 R Q U) (tc : TC F64 R Q) : TC F64 R Q :=
  tc.makeHamEqualities (fun l => eqsOf ops (firstSub l).1) (fun l => eqsOf ops (secondSub l).2.1)

/-- `add_qmc_stepper` after a successful `can_swap_graphs` check: the REGENERATED body (which caches are reset) -/
def addReplica (tc : TC F64 R Q) (q : Q) (beta : F64) : TC F64 R Q := tc.addQmcStepper q beta

/-- serial `perform_swaps`: per chunk of two, draw the uniform, then (if a cached equality is there — `zip`)
decide and swap.  The draw for a pair happens before the `zip` looks at `hameqs`, as in the iterator chain. -/
def performSwaps (ops : Ops F64 R Q U) : R → List (Q × F64) → List Bool → List (Q × F64) × R × Nat
  | r, a :: b :: rest, eqs =>
    let (u, r1) := ops.genUnif r
    match eqs with
    | [] => (a :: b :: rest, r1, 0)
    | eq :: eqs' =>
      let (a', b', s) := ops.swapOn a b u (!eq)
      let (rest', r2, k) := performSwaps ops r1 rest eqs'
      (a' :: b' :: rest', r2, k + (if s then 1 else 0))
  | r, l, _ => (l, r, 0)

/-- `(0..k).map(|_| rng.gen_range(0. ..1.0)).collect()` -/
def drawN (ops : Ops F64 R Q U) : Nat → R → List U × R
  | 0, r => ([], r)
  | k + 1, r =>
    let (u, r1) := ops.genUnif r
    let (us, r2) := drawN ops k r1
    (u :: us, r2)

/-- chunks of two (an odd last element is impossible for the sub-slices; kept as is) -/
def chunks2 {α : Type} : List α → List (α × α)
  | a :: b :: rest => (a, b) :: chunks2 rest
  | _ => []

def unchunks2 {α : Type} : List (α × α) → List α
  | [] => []
  | (a, b) :: rest => a :: b :: unchunks2 rest

/-- the decision task of one pair: component = ((pair, its pre-drawn uniform, its cached equality), swapped?) —
exactly the item of `chunks(2).zip(probs).zip(hameqs)` -/
def pairTask (ops : Ops F64 R Q U)
    (c : (((Q × F64) × (Q × F64)) × U × Bool) × Bool) : (((Q × F64) × (Q × F64)) × U × Bool) × Bool :=
  let (a', b', s) := ops.swapOn c.1.1.1 c.1.1.2 c.1.2.1 (!c.1.2.2)
  (((a', b'), c.1.2), s)

def countTrue (l : List Bool) : Nat := (l.filter id).length

/-- `parallel_perform_swaps`: all uniforms are drawn first (sequentially, from the container RNG), then the
pair tasks run in the order `order` (one schedule of the rayon section); the sum is over the "swapped" flags.
`zip` truncation: only the first `min(#pairs, #probs, #eqs)` pairs are visited, the rest stays as it is. -/
def parPerformSwaps (ops : Ops F64 R Q U) (order : List Nat) (r : R) (l : List (Q × F64)) (eqs : List Bool) :
    List (Q × F64) × R × Nat :=
  if l.isEmpty then (l, r, 0)
  else
    let (us, r') := drawN ops (l.length / 2) r
    let comps := ((chunks2 l).zip (us.zip eqs)).map (fun c => (c, false))
    let res := parSection (fun _ => pairTask ops) order comps
    (unchunks2 (res.map (·.1.1)) ++ l.drop (2 * comps.length), r', countTrue (res.map (·.2)))

def maxCutoff (ops : Ops F64 R Q U) (l : List (Q × F64)) : Nat :=
  l.foldl (fun m g => max m (ops.cutoff g.1)) 0

def phaseA (swaps : R → List (Q × F64) → List Bool → List (Q × F64) × R × Nat)
    (s : TC F64 R Q × R) : TC F64 R Q × R :=
  let tc := s.1
  let eqs := tc.graph_ham_eq_a.getD []
  let (sub, rest) := firstSub tc.graphs
  let (sub', r', k) := swaps s.2 sub eqs
  ({ tc with graphs := sub' ++ rest, total_swaps := tc.total_swaps + k }, r')

def phaseB (swaps : R → List (Q × F64) → List Bool → List (Q × F64) × R × Nat)
    (s : TC F64 R Q × R) : TC F64 R Q × R :=
  let tc := s.1
  let eqs := tc.graph_ham_eq_b.getD []
  let (hd, sub, tl) := secondSub tc.graphs
  let (sub', r', k) := swaps s.2 sub eqs
  ({ tc with graphs := hd ++ sub' ++ tl, total_swaps := tc.total_swaps + k }, r')

/-- `if <guard> { self.make_ham_equalities() }` with the REGENERATED guard
(`self.graph_ham_eq_a.is_none() || self.graph_ham_eq_b.is_none()` in the unchanged source) -/
def ensureCaches (ops : Ops F64 R Q U) (tc : TC F64 R Q) : TC F64 R Q :=
  if tc.rebuildGuard then makeHamEqualities ops tc else tc

/-- after the caches are there: raise every cutoff to the maximum, draw the phase order, run both phases -/
def temperingRest (ops : Ops F64 R Q U)
    (setAll : Nat → List (Q × F64) → List (Q × F64))
    (swA swB : R → List (Q × F64) → List Bool → List (Q × F64) × R × Nat)
    (tc : TC F64 R Q) : TC F64 R Q :=
  let tc := { tc with graphs := setAll (maxCutoff ops tc.graphs) tc.graphs }
  match tc.rng with
  | none => tc -- `self.rng.take().unwrap()` panics; never the case for a container built through the API
  | some r =>
    let (b, r) := ops.genHalf r
    let (tc, r) := if b then phaseB swB (phaseA swA (tc, r)) else phaseA swA (phaseB swB (tc, r))
    { tc with rng := some r }

/-- the part of a tempering step after the early return (shared text of the serial and the rayon version) -/
def temperingBody (ops : Ops F64 R Q U)
    (setAll : Nat → List (Q × F64) → List (Q × F64))
    (swA swB : R → List (Q × F64) → List Bool → List (Q × F64) × R × Nat)
    (tc : TC F64 R Q) : TC F64 R Q :=
  temperingRest ops setAll swA swB (ensureCaches ops tc)

def setAllSerial (ops : Ops F64 R Q U) (c : Nat) (l : List (Q × F64)) : List (Q × F64) :=
  l.map fun g => (ops.setCutoff c g.1, g.2)

/-- `tempering_step` (serial): nothing at all for ≤ 1 replica. -/
def temperingStep (ops : Ops F64 R Q U) (tc : TC F64 R Q) : TC F64 R Q :=
  if tc.graphs.length ≤ 1 then tc
  else temperingBody ops (setAllSerial ops) (performSwaps ops) (performSwaps ops) tc

/-- A scheduler: for section number `sec` of driver iteration `k` on `n` components, the order in which rayon
happens to run the `n` tasks. -/
abbrev Scheduler := Nat → Nat → Nat → List Nat

def Scheduler.Valid (sched : Scheduler) : Prop :=
  ∀ sec k n, (sched sec k n).Perm (List.range n)

/-- `parallel_tempering_step` in driver iteration `k`: early return for ≤ 1 replica like the serial step (since `fix:`
f20b8b5, finding F30; before, only for an EMPTY container); cutoffs set by
`par_iter_mut`; phase *a* through `parallel_perform_swaps`, phase *b* through the serial `perform_swaps`
(as in the source). -/
def parTemperingStep (ops : Ops F64 R Q U) (sched : Scheduler) (k : Nat) (tc : TC F64 R Q) : TC F64 R Q :=
  if tc.graphs.length ≤ 1 then tc
  else temperingBody ops
    (fun c l => parSection (fun _ g => (ops.setCutoff c g.1, g.2)) (sched 1 k l.length) l)
    (fun r l eqs => parPerformSwaps ops (sched 2 k (min (l.length / 2) eqs.length)) r l eqs)
    (performSwaps ops) tc

/-- the caches hold what `make_ham_equalities` would compute now (or nothing) -/
def CacheValid (ops : Ops F64 R Q U) (tc : TC F64 R Q) : Prop :=
  (tc.graph_ham_eq_a = none ∨ tc.graph_ham_eq_a = some (eqsOf ops (firstSub tc.graphs).1)) ∧
  (tc.graph_ham_eq_b = none ∨ tc.graph_ham_eq_b = some (eqsOf ops (secondSub tc.graphs).2.1))

/-- what `into_tempering_container` does to the caches -/
def resetCaches (tc : TC F64 R Q) : TC F64 R Q :=
  { tc with graph_ham_eq_a := none, graph_ham_eq_b := none }

/-! ### `timesteps_sample` / `parallel_timesteps_sample` -/

/-- per-replica pieces of the sampling driver -/
structure SampleOps (F64 Q E A S : Type) where
  /-- `g.timesteps(t, beta)`: new replica and returned average energy -/
  timesteps : Nat → F64 → Q → Q × E
  /-- `*e += te * t as f64` -/
  accum : A → E → Nat → A
  /-- `g.state_ref().to_vec()` -/
  stateOf : Q → S

structure LoopState (F64 R Q A S : Type) where
  tc : TC F64 R Q
  states : List (List S)
  acc : List A
  remaining : Nat
  toSwap : Nat
  toSample : Nat

/-- the step-and-accumulate task of replica `i` on component (replica, its energy slot) -/
def stepTask (so : SampleOps F64 Q E A S) (t : Nat) (c : (Q × F64) × A) : (Q × F64) × A :=
  let (q', te) := so.timesteps t c.1.2 c.1.1
  ((q', c.1.2), so.accum c.2 te t)

/-- the sampling task on component (sample list of replica `i`, read-only replica `i`) -/
def sampleTask (so : SampleOps F64 Q E A S) (c : List S × (Q × F64)) : List S × (Q × F64) :=
  (c.1 ++ [so.stateOf c.2.1], c.2)

/-- One iteration body of the `while remaining_timesteps > 0` loop, parameterised by how the three sections
are executed. -/
def loopBody (secStep : Nat → List ((Q × F64) × A) → List ((Q × F64) × A))
    (temper : TC F64 R Q → TC F64 R Q)
    (secSample : List (List S × (Q × F64)) → List (List S × (Q × F64)))
    (swapFreq sampleFreq : Nat) (s : LoopState F64 R Q A S) : LoopState F64 R Q A S :=
  let t := min (min s.toSample s.toSwap) s.remaining
  let stepped := secStep t (s.tc.graphs.zip s.acc)
  let tc := { s.tc with graphs := stepped.map (·.1) }
  let acc := stepped.map (·.2)
  let toSample := s.toSample - t
  let toSwap := s.toSwap - t
  let remaining := s.remaining - t
  let (tc, toSwap) := if toSwap = 0 then (temper tc, swapFreq) else (tc, toSwap)
  let (states, toSample) :=
    if toSample = 0 then ((secSample (s.states.zip tc.graphs)).map (·.1), sampleFreq) else (s.states, toSample)
  { tc := tc, states := states, acc := acc, remaining := remaining, toSwap := toSwap, toSample := toSample }

/-- the loop with fuel (`fuel = timesteps` suffices when both frequencies are ≥ 1); `k` numbers the iterations -/
def sampleLoop (body : Nat → LoopState F64 R Q A S → LoopState F64 R Q A S) :
    Nat → Nat → LoopState F64 R Q A S → LoopState F64 R Q A S
  | 0, _, s => s
  | fuel + 1, k, s => if s.remaining = 0 then s else sampleLoop body fuel (k + 1) (body k s)

def initLoop (tc : TC F64 R Q) (zero : A) (timesteps swapFreq sampleFreq : Nat) : LoopState F64 R Q A S :=
  { tc := tc, states := tc.graphs.map fun _ => [], acc := tc.graphs.map fun _ => zero,
    remaining := timesteps, toSwap := swapFreq, toSample := sampleFreq }

/-- `timesteps_sample` (serial): final container, samples and energy accumulators (the division by `timesteps`
is applied to each accumulator afterwards and is the same code in both drivers). -/
def timestepsSample (ops : Ops F64 R Q U) (so : SampleOps F64 Q E A S) (zero : A)
    (timesteps swapFreq sampleFreq : Nat) (tc : TC F64 R Q) : LoopState F64 R Q A S :=
  sampleLoop (fun _ => loopBody (fun t σ => σ.map (stepTask so t)) (temperingStep ops)
      (fun σ => σ.map (sampleTask so)) swapFreq sampleFreq)
    timesteps 0 (initLoop tc zero timesteps swapFreq sampleFreq)

/-- `parallel_timesteps_sample` under scheduler `sched` -/
def parTimestepsSample (ops : Ops F64 R Q U) (so : SampleOps F64 Q E A S) (zero : A) (sched : Scheduler)
    (timesteps swapFreq sampleFreq : Nat) (tc : TC F64 R Q) : LoopState F64 R Q A S :=
  sampleLoop (fun k => loopBody
      (fun t σ => parSection (fun _ => stepTask so t) (sched 0 k σ.length) σ)
      (parTemperingStep ops sched k)
      (fun σ => parSection (fun _ => sampleTask so) (sched 3 k σ.length) σ) swapFreq sampleFreq)
    timesteps 0 (initLoop tc zero timesteps swapFreq sampleFreq)

end Temper

end Qmc.Snap
