/-
Model of `qmc::util::bondcontainer::BondContainer<T>` (src/util/bondcontainer.rs): a keyed set with
weights, a running total and weighted random selection. Field for field:
`map : Vec<Option<usize>>` (key → position in `keys`), `keys : Vec<(T, f64)>`, `total_weight`.
Keys are the `usize` images of `T` (`Into<usize>`), weights are exact rationals.

`Option` results: `none` = the Rust code panics at this point (index out of bounds / `unwrap` on
`None`). Core Lean only.
-/
import QmcModel.Rand

namespace Qmc

structure BC where
  map : List (Option Nat)
  keys : List (Nat × Rat)
  total : Rat
  deriving Repr

namespace BC

/-- `BondContainer::default()` -/
def empty : BC := { map := [], keys := [], total := 0 }

/-- `correct_total_weight`: a negative running total is clamped to 0 -/
def correct (t : Rat) : Rat := if t < 0 then 0 else t

/-- `contains` -/
def contains (c : BC) (k : Nat) : Bool := (c.map.getD k none).isSome

/-- `get_weight` -/
def getWeight (c : BC) (k : Nat) : Option Rat :=
  match c.map.getD k none with
  | some i => c.keys[i]?.map (·.2)
  | none => none

/-- `map.resize(k+1, None)` when `k` is beyond the end -/
def growMap (m : List (Option Nat)) (k : Nat) : List (Option Nat) :=
  if k < m.length then m else m ++ List.replicate (k + 1 - m.length) none

/-- `insert(value, weight)`: returns the new container and "the element is new" -/
def insert (c : BC) (k : Nat) (w : Rat) : BC × Bool :=
  let m := growMap c.map k
  match m.getD k none with
  | some i =>
    let old := (c.keys.getD i (k, 0)).2
    ({ map := m, keys := c.keys.set i ((c.keys.getD i (k, 0)).1, w),
       total := correct (c.total + (w - old)) }, false)
  | none =>
    ({ map := m.set k (some c.keys.length), keys := c.keys ++ [(k, w)], total := c.total + w }, true)

/-- `remove_index(i)`: swap with the last key, fix the moved key's address, pop, clear the
address of the removed key, subtract its weight (clamped). -/
def removeIndex (c : BC) (i : Nat) : BC :=
  let last := c.keys.length - 1
  let ki := c.keys.getD i (0, 0)
  let kl := c.keys.getD last (0, 0)
  { map := (c.map.set kl.1 (some i)).set ki.1 none
    keys := (c.keys.set i kl).take last
    total := correct (c.total - ki.2) }

/-- `remove(value)`: `none` = panic (`self.map[bond_number]` out of bounds) -/
def remove (c : BC) (k : Nat) : Option (BC × Bool) :=
  if k < c.map.length then
    match c.map.getD k none with
    | some i => some (c.removeIndex i, true)
    | none => some (c, false)
  else none

/-- `clear` -/
def clear (c : BC) : BC :=
  { map := c.keys.foldl (fun m kw => m.set kw.1 none) c.map, keys := [], total := 0 }

/-- the selection loop of `get_random` for a drawn `p`: subtract weights until `p ≤ 0` at a key
of positive weight (entries of weight 0 are skipped, also by a draw of exactly 0 — this is the
code after the F12 fix, /repo commit b694648).
Returns the index reached (`= keys.length` when the loop runs off the end). -/
def pickLoop : List (Nat × Rat) → Rat → Nat → Nat
  | [], _, i => i
  | kw :: t, p, i => if p - kw.2 ≤ 0 ∧ 0 < kw.2 then i else pickLoop t (p - kw.2) (i + 1)

/-- index selected by the draw `p`; `none` = `self.keys[i]` out of bounds (panic) -/
def pick (c : BC) (p : Rat) : Option Nat :=
  let i := pickLoop c.keys p 0
  if i < c.keys.length then some i else none

/-- cumulative weight of the first `i` keys -/
def cum (c : BC) (i : Nat) : Rat := ((c.keys.take i).map (·.2)).sum

/-- distance of the draw to the nearest *interior* cumulative threshold, relative to the total
(for the tie rule). Thresholds 0 and `total` need no margin: a non-zero draw is a positive f64
and the draw never exceeds the total, on both sides. -/
def pickMargin (c : BC) (p : Rat) : Rat :=
  let cs := ((List.range (c.keys.length + 1)).map c.cum).filter fun x => 0 < x ∧ x < c.total
  let t := if c.total = 0 then 1 else c.total
  cs.foldl (fun m x => let d := (if p - x < 0 then x - p else p - x) / t; if d < m then d else m) 1

/-- `get_random(rng)`: `none` when empty (no draw); otherwise one `gen_range(0.0..total)` draw.
Outer `Option`: `none` = empty container; inner: `none` = panic. -/
def getRandom (c : BC) (s : RS) : Option (Option (Nat × Rat)) × RS :=
  if c.keys.isEmpty then (none, s)
  else
    let (p, s') := s.genRangeF c.total
    if s'.panicked then (some none, s') else
    let s'' := s'.noteMargin (c.pickMargin p)
    match c.pick p with
    | some i => (some (c.keys[i]?), s'')
    | none => (some none, s'')

end BC
end Qmc
