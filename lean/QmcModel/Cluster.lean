/-
Cluster update (`ClusterUpdater::flip_each_cluster_rng`, src/sse/qmc_traits/cluster.rs) as a
*relation* between the configuration before and after, plus an executable decider, the cluster
decomposition of a skeleton (`numClusters`, mirroring what the code returns), the product of matrix
elements of a string, and the draw discipline (one `gen_bool` per cluster). Core Lean only.

The relation does not follow the traversal order of the Rust (stack discipline, cluster numbering);
it states what every correct traversal must produce:

* same skeleton (positions, variables, bonds, constant flags), only spin values differ;
* the set `D` of flipped legs (legs `(p, relvar, side)` whose value differs) is closed under the
  adjacency of the leg graph:
    - all legs of a non-edge op are mutually adjacent  (edge op = constant ∧ exactly one variable,
      `is_valid_cluster_edge`)            → `OpOk.closed`: a non-edge op is flipped entirely or not at all;
    - the output leg of an op ~ the input leg of the next op on that variable, cyclically through
      the time boundary                   → `linkClosed`: the flip *mask* (before xor after), read as a
      configuration on the same skeleton, is itself a consistent periodic world-line configuration
      (DESIGN C06 "LinkClosed is literally Consistent mask"); this includes
      "`state[v]` flipped iff the link of `v` crossing p = 0 is flipped";
* no leg of a (non-edge) op with flip weight 0 is flipped (`OpOk.frozen`);
* variables that carry no op keep their value (`idle`).
-/
import QmcModel.Basic
import QmcModel.Rand
import QmcModel.Common

namespace Qmc

/-! ### skeleton -/

/-- `is_valid_cluster_edge(is_constant, nvars)` -/
def isClusterEdge (isConst : Bool) (nvars : Nat) : Bool := isConst && nvars == 1

/-- what the cluster decomposition reads of an op: variables, bond, constant flag -/
structure SkOp where
  vars : List Nat
  bond : Nat
  const : Bool
  deriving DecidableEq, Repr

def Op.sk (o : Op) : SkOp := { vars := o.vars, bond := o.bond, const := o.const }

/-- `is_valid_cluster_edge_op` -/
def SkOp.isEdge (o : SkOp) : Bool := isClusterEdge o.const o.vars.length
def Op.isEdge (o : Op) : Bool := o.sk.isEdge

abbrev Skel := List (Option SkOp)

/-- positions, variables, bonds and constant flags of a string -/
def skeleton (s : Slots) : Skel := s.map (Option.map Op.sk)

/-- the ops of a string in time order -/
def opsOf : Slots → List Op
  | [] => []
  | none :: t => opsOf t
  | some o :: t => o :: opsOf t

/-- does variable `v` carry an op (`does_var_have_ops`) -/
def varHasOp (sk : Skel) (v : Nat) : Bool :=
  sk.any fun o => match o with | some o => o.vars.contains v | none => false

/-! ### product of matrix elements -/

/-- `Π_p ⟨outs_p| H_{bond_p} |ins_p⟩` over the ops of the string -/
def configWeightProd (H : Ham) : Slots → Rat
  | [] => 1
  | none :: t => configWeightProd H t
  | some o :: t => H.w o.bond o.ins o.outs * configWeightProd H t

/-- global spin flip of a sub-state -/
def flipBits (l : List Bool) : List Bool := l.map (!·)

/-- bond `b` is invariant under the global flip of its legs (`sym_under_ising` for that bond) -/
def Ham.FlipSym (H : Ham) (b : Nat) : Prop := ∀ i o, H.w b (flipBits i) (flipBits o) = H.w b i o

/-- bond `b` has a constant matrix (`is_constant`) -/
def Ham.ConstW (H : Ham) (b : Nat) : Prop :=
  ∀ i o i' o', i.length = i'.length → o.length = o'.length → H.w b i o = H.w b i' o'

/-! ### the relation

`xorB`, `maskOp`, `maskSlots` (pointwise xor; the flip mask of an op / of a string) are in
QmcModel/Common.lean, shared with Worldline.lean. -/

/-- the set `D` of flipped legs as a configuration on the same skeleton -/
def mask (b a : Config) : Config :=
  { state := xorB b.state a.state, slots := maskSlots b.slots a.slots }

def Unchanged (ob oa : Op) : Prop := oa.ins = ob.ins ∧ oa.outs = ob.outs
def FlippedAll (ob oa : Op) : Prop := oa.ins = flipBits ob.ins ∧ oa.outs = flipBits ob.outs

/-- what must hold between the op at a position before and after -/
structure OpOk (fr : SkOp → Bool) (ob oa : Op) : Prop where
  vars : oa.vars = ob.vars
  bond : oa.bond = ob.bond
  const : oa.const = ob.const
  insB : ob.ins.length = ob.vars.length
  outsB : ob.outs.length = ob.vars.length
  insA : oa.ins.length = ob.vars.length
  outsA : oa.outs.length = ob.vars.length
  /-- all legs of a non-edge op are mutually adjacent: flipped entirely or not at all -/
  closed : ob.isEdge = false → Unchanged ob oa ∨ FlippedAll ob oa
  /-- a non-edge op with flip weight 0 is never flipped -/
  frozen : ob.isEdge = false → fr ob.sk = true → Unchanged ob oa

/-- position by position: both slots empty, or both hold an op and `P` relates them -/
def PairAll (P : Op → Op → Prop) : Slots → Slots → Prop
  | [], [] => True
  | none :: tb, none :: ta => PairAll P tb ta
  | some ob :: tb, some oa :: ta => P ob oa ∧ PairAll P tb ta
  | _, _ => False

/-- `ClusterMove fr before after`: `after` results from `before` by flipping an adjacency-closed set
of legs that avoids the ops with flip weight 0 (`fr` = "the per-node weight ratio closure returns 0"). -/
structure ClusterMove (fr : SkOp → Bool) (b a : Config) : Prop where
  ops : PairAll (OpOk fr) b.slots a.slots
  stateLen : a.state.length = b.state.length
  /-- output leg ~ next input leg on the variable, cyclically, incl. the state at p = 0 -/
  linkClosed : Consistent (mask b a)
  /-- variables without ops are not touched -/
  idle : ∀ v, varHasOp (skeleton b.slots) v = false → a.state[v]? = b.state[v]?

/-! ### explicit reading of the links (used to state what `linkClosed` means leg by leg) -/

/-- value carried by the input / output leg of `o` on variable `v` -/
def Op.legIn (o : Op) (v : Nat) : Option Bool := (o.vars.zip o.ins).lookup v
def Op.legOut (o : Op) (v : Nat) : Option Bool := (o.vars.zip o.outs).lookup v

/-- input leg of the first op on `v` in the (remaining) string -/
def firstIn (v : Nat) : Slots → Option Bool
  | [] => none
  | none :: t => firstIn v t
  | some o :: t => if o.vars.contains v then o.legIn v else firstIn v t

/-! ### decider -/

def opOkB (fr : SkOp → Bool) (ob oa : Op) : Bool :=
  oa.vars == ob.vars && oa.bond == ob.bond && oa.const == ob.const &&
  ob.ins.length == ob.vars.length && ob.outs.length == ob.vars.length &&
  oa.ins.length == ob.vars.length && oa.outs.length == ob.vars.length &&
  (ob.isEdge || ((oa.ins == ob.ins && oa.outs == ob.outs) ||
                 (oa.ins == flipBits ob.ins && oa.outs == flipBits ob.outs))) &&
  (ob.isEdge || !fr ob.sk || (oa.ins == ob.ins && oa.outs == ob.outs))

def pairAllB (f : Op → Op → Bool) : Slots → Slots → Bool
  | [], [] => true
  | none :: tb, none :: ta => pairAllB f tb ta
  | some ob :: tb, some oa :: ta => f ob oa && pairAllB f tb ta
  | _, _ => false

def idleB (b a : Config) : Bool :=
  (List.range b.state.length).all fun v =>
    varHasOp (skeleton b.slots) v || a.state[v]? == b.state[v]?

/-- executable decider for `ClusterMove` -/
def isClusterMove (fr : SkOp → Bool) (b a : Config) : Bool :=
  pairAllB (opOkB fr) b.slots a.slots && a.state.length == b.state.length &&
  decide (Consistent (mask b a)) && idleB b a

/-- the tag rule of `edit_in_out`: an op whose values changed gets its tag recomputed
(`Diagonal` iff inputs = outputs); an untouched op keeps its tag. Not part of `ClusterMove`
(tags are derived data), reported separately. -/
def tagRuleB (ob oa : Op) : Bool :=
  if oa.ins == ob.ins && oa.outs == ob.outs then oa.tagDiag == ob.tagDiag
  else oa.tagDiag == (oa.ins == oa.outs)

def TagCanon (s : Slots) : Prop := ∀ o ∈ opsOf s, o.tagDiag = (o.ins == o.outs)

/-! ### the leg graph and the cluster decomposition of a skeleton

Leg ids: ops in time order; an op with `k` variables occupies `2k` consecutive ids, input legs
`off .. off+k-1` then output legs `off+k .. off+2k-1`. -/

/-- a leg `(p, relvar, side)` of the cluster leg graph (named `ClLeg`: `Qmc.Leg` is the loop update's leg,
QmcModel/Loop.lean) -/
structure ClLeg where
  p : Nat
  rel : Nat
  out : Bool
  deriving DecidableEq, Repr

structure Scan where
  p : Nat := 0
  off : Nat := 0
  /-- variable ↦ id of its most recent output leg -/
  last : List (Nat × Nat) := []
  /-- variable ↦ id of its first input leg -/
  first : List (Nat × Nat) := []
  edges : List (Nat × Nat) := []
  legs : List ClLeg := []
  hasEdge : Bool := false
  /-- leg id ranges `(off, nvars, sk)` of the ops -/
  opsAt : List (Nat × SkOp) := []

def assocSet (l : List (Nat × Nat)) (k v : Nat) : List (Nat × Nat) :=
  (k, v) :: l.filter (fun e => e.1 != k)

def Scan.stepVar (nv : Nat) (s : Scan) (kv : Nat × Nat) : Scan :=
  let inId := s.off + kv.1
  let outId := s.off + nv + kv.1
  let s := match s.last.lookup kv.2 with
    | some l => { s with edges := (l, inId) :: s.edges }
    | none => { s with first := (kv.2, inId) :: s.first }
  { s with last := assocSet s.last kv.2 outId }

def Scan.step (s : Scan) : Option SkOp → Scan
  | none => { s with p := s.p + 1 }
  | some o =>
    let nv := o.vars.length
    let s1 := ((List.range nv).zip o.vars).foldl (Scan.stepVar nv) s
    let inner : List (Nat × Nat) :=
      if o.isEdge then [] else (List.range (2 * nv)).tail.map fun j => (s.off, s.off + j)
    { s1 with
      p := s.p + 1, off := s.off + 2 * nv, edges := inner ++ s1.edges,
      legs := s1.legs ++ (List.range nv).map (fun k => ⟨s.p, k, false⟩)
                      ++ (List.range nv).map (fun k => ⟨s.p, k, true⟩),
      hasEdge := s.hasEdge || o.isEdge,
      opsAt := s.opsAt ++ [(s.off, o)] }

structure LegGraph where
  nlegs : Nat
  edges : List (Nat × Nat)
  legs : List ClLeg
  hasEdge : Bool
  opsAt : List (Nat × SkOp)

/-- adjacency of the legs of a skeleton: inner edges of non-edge ops (a star from the op's first
leg) and world-line links (output leg → input leg of the next op on the variable, the last one
wrapping to the first). -/
def legGraph (sk : Skel) : LegGraph :=
  let s := sk.foldl Scan.step {}
  let wrap := s.first.filterMap fun vf => (s.last.lookup vf.1).map fun l => (l, vf.2)
  { nlegs := s.off, edges := wrap ++ s.edges, legs := s.legs, hasEdge := s.hasEdge, opsAt := s.opsAt }

def relaxPass (edges : List (Nat × Nat)) (lab : Array Nat) : Array Nat :=
  edges.foldl (fun lab e =>
    let m := min lab[e.1]! lab[e.2]!
    (lab.set! e.1 m).set! e.2 m) lab

def relax (edges : List (Nat × Nat)) : Nat → Array Nat → Array Nat
  | 0, lab => lab
  | fuel + 1, lab =>
    let lab' := relaxPass edges.reverse (relaxPass edges lab)
    if lab' == lab then lab else relax edges fuel lab'

/-- connected components of the leg graph: `labels[i]` = smallest leg id connected to leg `i` -/
def componentLabels (g : LegGraph) : Array Nat :=
  relax g.edges (g.nlegs + 1) (Array.range g.nlegs)

/-- the clusters *as the code forms them*: the connected components when some edge op exists,
one single cluster holding everything otherwise ("The whole thing is one cluster"). -/
def clusterLabels (sk : Skel) : Array Nat :=
  let g := legGraph sk
  if g.hasEdge then componentLabels g else Array.replicate g.nlegs 0

/-- the value `flip_each_cluster_rng` returns: 0 for an empty string, 1 when no edge op exists,
else the number of connected components of the leg graph. -/
def numClusters (sk : Skel) : Nat :=
  let lab := clusterLabels sk
  ((List.range lab.size).filter fun i => lab[i]! == i).length

/-- flipped-leg indicator in leg-id order -/
def legDiff : Slots → Slots → List Bool
  | some ob :: tb, some oa :: ta => xorB ob.ins oa.ins ++ xorB ob.outs oa.outs ++ legDiff tb ta
  | _ :: tb, _ :: ta => legDiff tb ta
  | _, _ => []

/-- every cluster (as the code forms them) is flipped entirely or not at all -/
def unionOfClusters (lab : Array Nat) (d : Array Bool) : Bool :=
  d.size == lab.size && (List.range lab.size).all fun i => d[i]! == d[lab[i]!]!

/-- representatives of the clusters that were flipped -/
def flippedClusters (lab : Array Nat) (d : Array Bool) : List Nat :=
  (List.range lab.size).filter fun i => lab[i]! == i && d[i]!

/-- representatives of the clusters that hold a non-edge op of flip weight 0 -/
def frozenClusters (fr : SkOp → Bool) (sk : Skel) (lab : Array Nat) : List Nat :=
  let g := legGraph sk
  (g.opsAt.filterMap fun (off, o) =>
    if !o.isEdge && fr o && o.vars.length > 0 then some lab[off]! else none).eraseDups

/-! ### draws: one `gen_bool` per cluster, in cluster-number order -/

/-- `flips_weights.iter().map(|c| rng.gen_bool(c * prob))` (without a closure every `c` is 1) -/
def clusterFlips (prob : Rat) : List Rat → RS → List Bool × RS
  | [], s => ([], s)
  | c :: cs, s =>
    let r := s.genBool (c * prob)
    let rest := clusterFlips prob cs r.2
    (r.1 :: rest.1, rest.2)

/-- free-spin refresh after the cluster update (`single_cluster_step`, `timestep`,
`flip_free_bits`): one `gen_bool(0.5)` per variable without ops, increasing index. -/
def freeRefresh (sk : Skel) : Nat → List Bool → RS → List Bool × RS
  | _, [], s => ([], s)
  | v, x :: xs, s =>
    if varHasOp sk v then
      let rest := freeRefresh sk (v + 1) xs s
      (x :: rest.1, rest.2)
    else
      let r := s.genBool (1 / 2)
      let rest := freeRefresh sk (v + 1) xs r.2
      (r.1 :: rest.1, rest.2)

/-! ### the transverse-field Ising matrix elements (`QmcIsingGraph::hamiltonian`)
(`absR` is in QmcModel/Common.lean) -/

/-- `two_site_hamiltonian` -/
def twoSiteW (J : Rat) (i o : List Bool) : Rat :=
  match i, o with
  | [a, b], [c, d] => if a == c && b == d then absR J + (if a == b then -J else J) else 0
  | _, _ => 0

/-- `transverse_hamiltonian` -/
def transverseW (g : Rat) (_i _o : List Bool) : Rat := g

/-- `longitudinal_hamiltonian` (since the fix 9464564 the field term is diagonal: `0` off the
diagonal, `|h| + h` for (1,1), `|h| - h` for (0,0)) -/
def longitudinalW (h : Rat) (i o : List Bool) : Rat :=
  match i, o with
  | [a], [c] => if a != c then 0 else absR h + (if a then h else -h)
  | _, _ => 0

/-- bond numbering of `QmcIsingGraph`: edges, then one transverse bond per variable (constant),
then one longitudinal bond per variable -/
def isingClusterHam (edges : List (List Nat × Rat)) (g h : Rat) (nvars : Nat) : Ham :=
  { nbonds := edges.length + 2 * nvars
    vars := fun b =>
      if b < edges.length then (edges[b]?.map (·.1)).getD []
      else if b < edges.length + nvars then [b - edges.length]
      else [b - edges.length - nvars]
    const := fun b => decide (edges.length ≤ b ∧ b < edges.length + nvars)
    w := fun b i o =>
      if b < edges.length then twoSiteW ((edges[b]?.map (·.2)).getD 0) i o
      else if b < edges.length + nvars then transverseW g i o
      else longitudinalW h i o }

/-- the closure of `single_cluster_step` / `timestep` for `h ≠ 0`: ratio 0 on longitudinal bonds -/
def isingFrozen (nedges nvars : Nat) (o : SkOp) : Bool := decide (nedges + nvars ≤ o.bond)

end Qmc
