/-
Per-bond counter table of `FastOpsTemplate` (`bond_counters: Option<Vec<usize>>`, src/sse/fast_ops.rs) exactly as
`mutate_p` and `get_count` treat it since fix 0a5077c (finding F32):
* increment sites (fast path and install): `if bond >= bond_counters.len() { bond_counters.resize(bond + 1, 0) }`
  then `bond_counters[bond] += 1`                                        → `bumpCount` (GROWS on demand);
* decrement sites (fast path and uninstall): `bond_counters[bond] -= 1`     → `dropCount` (`none` = the Rust panics:
  index out of range, or `0 - 1` with overflow checks);
* `get_count(bond)`: `bc.get(bond).copied().unwrap_or(0)`                  → `getCountT` (0 beyond the table).
QmcModel/FastOps.lean's `incrBond` / `decrBond` (`List.modify`, a silent no-op out of range) agree with these
whenever the bond is inside the table (QmcProofs/FastOpsCounters.lean).  Core Lean only.
-/
import QmcModel.FastOps

namespace Qmc.Counters

/-- `if b >= len { resize(b + 1, 0) }; cs[b] += 1` -/
def bumpCount (cs : List Nat) (b : Nat) : List Nat :=
  let cs := if b ≥ cs.length then cs ++ List.replicate (b + 1 - cs.length) 0 else cs
  cs.modify b (· + 1)

/-- `cs[b] -= 1`; `none` = panic (index out of range, or subtraction from 0 with overflow checks) -/
def dropCount (cs : List Nat) (b : Nat) : Option (List Nat) :=
  match cs[b]? with
  | some (k + 1) => some (cs.set b k)
  | _ => none

/-- `get_count` on the table: 0 beyond it -/
def getCountT (cs : List Nat) (b : Nat) : Nat := cs.getD b 0

/-- `bond_counters[old.bond] -= 1` when the slot held an op (fast path and uninstall) -/
def dropOld (cs : List Nat) (old : Option Op) : Option (List Nat) :=
  match old with
  | some o => dropCount cs o.bond
  | none => some cs

/-- grow-and-increment for the new op, if any (fast path and install) -/
def bumpNew (cs : List Nat) (new : Option Op) : List Nat :=
  match new with
  | some n => bumpCount cs n.bond
  | none => cs

/-- the counter effect of one `mutate_p` whose callback answered `Some(new)` on a slot holding `old` -/
def changeCounters (cs : List Nat) (old new : Option Op) : Option (List Nat) :=
  (dropOld cs old).map fun cs => bumpNew cs new

/-- one counter event of a history: `+b` (an op of bond `b` stored) / `-b` (removed) -/
def applyEvent (acc : Option (List Nat)) (ev : Bool × Nat) : Option (List Nat) :=
  acc.bind fun cs => if ev.1 then some (bumpCount cs ev.2) else dropCount cs ev.2

/-- the table after a history of events, starting from `vec![0; nbonds]` -/
def replay (nbonds : Nat) (evs : List (Bool × Nat)) : Option (List Nat) :=
  evs.foldl applyEvent (some (List.replicate nbonds 0))

end Qmc.Counters
