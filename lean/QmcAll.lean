/-
GENERATED import list — regenerate with `python3 tools/gen_all_imports.py` (from /verif); do not edit the
imports by hand. `python3 tools/gen_all_imports.py --check` fails if a module on disk is not imported here.

Imports every module of the libraries QmcModel, QmcProofs, QmcProps (224 modules), so that
`lake build QmcAll` certifies that the whole development type-checks in ONE environment: no two modules
declare the same name (Lean: "environment already contains …"). See design_notes/Cleanup.md.

Not imported:
  * Drivers/*.lean — not library modules: each is the root of an executable and defines a root-level `main`
    (24 `main`s cannot share an environment); they are built by the `drv_*` targets.
Exceptions among the library modules (clash by design):
  (none)
-/
import QmcModel.Autocorr
import QmcModel.Basic
import QmcModel.BondContainer
import QmcModel.Classical
import QmcModel.Cluster
import QmcModel.ClusterExact
import QmcModel.Common
import QmcModel.Convert
import QmcModel.Cutoff
import QmcModel.Diagonal
import QmcModel.FastOps
import QmcModel.FastOpsCounters
import QmcModel.FastOpsHint
import QmcModel.FastOpsHintDriver
import QmcModel.Generated.Ambient
import QmcModel.Generated.Fields
import QmcModel.Generated.PoolCaps
import QmcModel.Generated.PureFns
import QmcModel.Generic
import QmcModel.Ham
import QmcModel.HeatBath
import QmcModel.Interaction
import QmcModel.IsingHam
import QmcModel.Loop
import QmcModel.Pool
import QmcModel.ProbTree
import QmcModel.Proto
import QmcModel.QmcCtor
import QmcModel.Rand
import QmcModel.Rvb
import QmcModel.RvbRegion
import QmcModel.RvbRegionOK
import QmcModel.Sampler
import QmcModel.SamplerCore
import QmcModel.SamplerLoop
import QmcModel.Snapshot
import QmcModel.Stepper
import QmcModel.Tempering
import QmcModel.Worldline
import QmcProofs.Autocorr
import QmcProofs.AutocorrFFT
import QmcProofs.BondContainer
import QmcProofs.CapstoneCount
import QmcProofs.CapstoneLimit
import QmcProofs.CapstoneLimitHam
import QmcProofs.CapstoneLimitIsing
import QmcProofs.Classical
import QmcProofs.ClassicalErgodic
import QmcProofs.Cluster
import QmcProofs.ClusterComponents
import QmcProofs.ClusterDraws
import QmcProofs.ClusterExact
import QmcProofs.ClusterGate
import QmcProofs.ClusterNav
import QmcProofs.ClusterRelax
import QmcProofs.ClusterScan
import QmcProofs.ClusterTraverse
import QmcProofs.Common
import QmcProofs.CommonRand
import QmcProofs.Composed
import QmcProofs.ConfigMarginal
import QmcProofs.ConfigMarginalIsing
import QmcProofs.ConfigMarginalSlots
import QmcProofs.Convert
import QmcProofs.ConvertOpts
import QmcProofs.Cutoff
import QmcProofs.CutoffUser
import QmcProofs.Diagonal
import QmcProofs.Dist
import QmcProofs.FastOpsBasic
import QmcProofs.FastOpsChain
import QmcProofs.FastOpsCount
import QmcProofs.FastOpsCounters
import QmcProofs.FastOpsCursor
import QmcProofs.FastOpsFill
import QmcProofs.FastOpsFull
import QmcProofs.FastOpsGlobal
import QmcProofs.FastOpsGlobalCanon
import QmcProofs.FastOpsGlobalStep
import QmcProofs.FastOpsHint
import QmcProofs.FastOpsHintIter
import QmcProofs.FastOpsHintRecycle
import QmcProofs.FastOpsInstallList
import QmcProofs.FastOpsInv
import QmcProofs.FastOpsNth
import QmcProofs.FastOpsOps
import QmcProofs.FastOpsSubFill
import QmcProofs.FastOpsSubFull
import QmcProofs.FastOpsSubOps
import QmcProofs.FastOpsSubSweep
import QmcProofs.FastOpsVar
import QmcProofs.FastOpsVarAssembly
import QmcProofs.FastOpsVarCanon
import QmcProofs.FastOpsVarInstall
import QmcProofs.Generic
import QmcProofs.Good
import QmcProofs.HeatBath
import QmcProofs.Interaction
import QmcProofs.IsingSSE
import QmcProofs.KernelInvariance
import QmcProofs.KernelInvarianceCluster
import QmcProofs.KernelInvarianceComponents
import QmcProofs.KernelInvarianceCut
import QmcProofs.KernelInvarianceCutGood
import QmcProofs.KernelInvarianceLib
import QmcProofs.KernelInvarianceMask
import QmcProofs.KernelInvarianceSlot
import QmcProofs.KernelInvarianceSpace
import QmcProofs.KernelInvarianceSweep
import QmcProofs.LawCluster
import QmcProofs.LawGeneric
import QmcProofs.LawGood
import QmcProofs.LawHeatBath
import QmcProofs.LawLoop
import QmcProofs.LawLoopStep
import QmcProofs.LawRand
import QmcProofs.LawRandF
import QmcProofs.LawRefresh
import QmcProofs.LawSlot
import QmcProofs.LawSweep
import QmcProofs.LawTimestep
import QmcProofs.LawTravOK
import QmcProofs.LawTravPerm
import QmcProofs.LawTree
import QmcProofs.Loop
import QmcProofs.LoopConsistent
import QmcProofs.LoopKernel
import QmcProofs.LoopKernelCut
import QmcProofs.LoopKernelMass
import QmcProofs.LoopKernelMassLimit
import QmcProofs.LoopNoPanic
import QmcProofs.LoopPath
import QmcProofs.LoopReverse
import QmcProofs.LoopSingleSite
import QmcProofs.MarkovUnique
import QmcProofs.PathSum
import QmcProofs.Pool
import QmcProofs.PureFnsAgree
import QmcProofs.PureFnsAgree.Autocorr
import QmcProofs.PureFnsAgree.BondContainer
import QmcProofs.PureFnsAgree.Classical
import QmcProofs.PureFnsAgree.Cluster
import QmcProofs.PureFnsAgree.ClusterIsing
import QmcProofs.PureFnsAgree.Convert
import QmcProofs.PureFnsAgree.Cutoff
import QmcProofs.PureFnsAgree.Diag
import QmcProofs.PureFnsAgree.EnergyGeneric
import QmcProofs.PureFnsAgree.EnergyIsing
import QmcProofs.PureFnsAgree.HeatBath
import QmcProofs.PureFnsAgree.HeatBathIsing
import QmcProofs.PureFnsAgree.IsingHam
import QmcProofs.PureFnsAgree.Loop
import QmcProofs.PureFnsAgree.Prelude
import QmcProofs.PureFnsAgree.RefreshGeneric
import QmcProofs.PureFnsAgree.RefreshIsing
import QmcProofs.PureFnsAgree.Rvb
import QmcProofs.PureFnsAgree.Size
import QmcProofs.PureFnsAgree.Stepper
import QmcProofs.PureFnsAgree.Tempering
import QmcProofs.QmcCtor
import QmcProofs.Refinement
import QmcProofs.RefinementBridge
import QmcProofs.RefinementClusterExact
import QmcProofs.RefinementClusterSide
import QmcProofs.RefinementSampler
import QmcProofs.RefinementSweep
import QmcProofs.Rvb
import QmcProofs.RvbBalance
import QmcProofs.RvbExtractFlip
import QmcProofs.RvbHam
import QmcProofs.RvbKernel
import QmcProofs.RvbMove
import QmcProofs.RvbRegion
import QmcProofs.RvbRegionDerive
import QmcProofs.RvbRegionOK
import QmcProofs.RvbReverse
import QmcProofs.RvbSweep
import QmcProofs.RvbWeight
import QmcProofs.SSE
import QmcProofs.SSEConfig
import QmcProofs.SamplerBridge
import QmcProofs.SamplerCluster
import QmcProofs.SamplerLoopEq
import QmcProofs.SamplerStep
import QmcProofs.Snapshot
import QmcProofs.Stepper
import QmcProofs.Tempering
import QmcProofs.TemperingDist
import QmcProofs.TemperingStep
import QmcProofs.Worldline
import QmcProofs.WorldlineIsing
import QmcProps.C01
import QmcProps.C01Capstone
import QmcProps.C01Limit
import QmcProps.C02
import QmcProps.C02Limit
import QmcProps.C03
import QmcProps.C03Kernel
import QmcProps.C03Limit
import QmcProps.C04
import QmcProps.C04Capstone
import QmcProps.C04LawLoop
import QmcProps.C04Mass
import QmcProps.C05
import QmcProps.C06
import QmcProps.C07
import QmcProps.C08
import QmcProps.C09
import QmcProps.C10
import QmcProps.C11
import QmcProps.C11Hint
import QmcProps.C12
import QmcProps.C13
import QmcProps.C14
import QmcProps.C15
import QmcProps.C16
import QmcProps.C16Sampler
import QmcProps.C17
import QmcProps.C18
import QmcProps.C19
import QmcProps.C19Unique
import QmcProps.C20
import QmcProps.C20FFT
import QmcProps.Law

-- END GENERATED IMPORTS (tools/gen_all_imports.py); everything below is hand-written and kept

/-! One environment: declarations of areas that used to exclude each other, side by side. -/

-- C09 (Cluster) next to C06/C07 (Worldline), C04 (Loop), C16 (Interaction), C11 (FastOps), C12 (Cutoff), C08 (HeatBath)
#check @Qmc.C09.clusterUpdate_is_clusterMove
#check @Qmc.C06.step_pres
#check @Qmc.C04.loopUpdate_pres
#check @Qmc.C11.refine_step
#check @Qmc.C12.headroom
#check @Qmc.C08.detailed_balance_M
#check @Qmc.Kernel.ising_timestep_invariant
-- the names that used to be declared twice, each now exactly one declaration
#check (Qmc.Leg : Type)              -- QmcModel/Loop.lean      (Cluster.lean's is `Qmc.ClLeg`)
#check (Qmc.ClLeg : Type)
#check @Qmc.occ                      -- QmcModel/Loop.lean      (FastOps.lean's are `Qmc.occAt`, `Qmc.occVAt`)
#check @Qmc.occAt
#check @Qmc.occVAt
#check @Qmc.absR                     -- QmcModel/Common.lean
#check @Qmc.maskSlots                -- QmcModel/Common.lean
#check @Qmc.writeVars_length         -- QmcProofs/Common.lean
#check @Qmc.genRangeF_nonneg         -- QmcProofs/CommonRand.lean
-- the compositions that the clashes blocked (QmcProofs/Composed.lean)
#check @Qmc.Composed.clusterUpdate_is_step
#check @Qmc.Composed.isingTimestep_pres
#check @Qmc.Composed.isingRun_inv
#check @Qmc.Composed.genericTimestep_pres
#check @Qmc.Composed.isingSpec_timestep_invariant
