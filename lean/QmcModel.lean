-- Root of the executable model (core Lean only; no Mathlib, so drivers link as lean_exe).
import QmcModel.Proto
import QmcModel.Interaction
