/-
Refinement, C09 side, instantiation: the parametrised theorems of QmcProofs/RefinementClusterSide.lean
applied to the exact cluster-update function `clusterUpdate` (QmcModel/ClusterExact.lean) with
`Qmc.C09.clusterUpdate_is_clusterMove`. Kept in its own file: it is the only Refinement file that
unfolds definitions of ClusterExact (the tag rule of `retagSlots`). Build:
`lake build QmcProofs.RefinementClusterExact`.
-/
import QmcProofs.RefinementClusterSide

namespace Qmc.Refine
open Qmc

theorem tagRule_refl (o : Op) : TagRule o o := by simp [TagRule, tagRuleB]

theorem pairAll_tagRule_refl : ∀ (s : Slots), PairAll TagRule s s
  | [] => trivial
  | none :: t => by simp only [PairAll]; exact pairAll_tagRule_refl t
  | some o :: t => by simp only [PairAll]; exact ⟨tagRule_refl o, pairAll_tagRule_refl t⟩

/-- `retagSlots` applies the tag rule of `edit_in_out` -/
theorem retagSlots_tagRule {P : Op → Op → Prop} : ∀ (sb sa : Slots), PairAll P sb (retagSlots sb sa) →
    PairAll TagRule sb (retagSlots sb sa)
  | [], sa, h => by
    have : retagSlots [] sa = sa := by cases sa <;> rfl
    rw [this] at h ⊢
    cases sa with
    | nil => trivial
    | cons _ _ => simp [PairAll] at h
  | _ :: _, [], h => by
    have : ∀ (x : Option Op) (t : Slots), retagSlots (x :: t) [] = [] := by intro x t; cases x <;> rfl
    rw [this] at h
    rename_i x t
    cases x <;> simp [PairAll] at h
  | none :: tb, none :: ta, h => by
    simp only [retagSlots, PairAll] at h ⊢
    exact retagSlots_tagRule tb ta h
  | none :: tb, some _ :: ta, h => by simp [retagSlots, PairAll] at h
  | some _ :: tb, none :: ta, h => by simp [retagSlots, PairAll] at h
  | some ob :: tb, some oa :: ta, h => by
    simp only [retagSlots, PairAll] at h ⊢
    refine ⟨?_, retagSlots_tagRule tb ta h.2⟩
    simp only [TagRule, tagRuleB]
    split <;> simp

/-- the tag rule holds for the exact cluster update -/
theorem clusterUpdate_tagRule (prob : Rat) (fr : SkOp → Bool) (c : Config) (rs : RS)
    (hshape : ShapeOk c) (hn : NodupVars c.slots) :
    PairAll TagRule c.slots (clusterUpdate prob fr c rs).1.slots := by
  have hm := (Qmc.C09.clusterUpdate_is_clusterMove prob fr c rs hshape hn).ops
  unfold clusterUpdate clusterUpdateTrace at hm ⊢
  simp only [] at hm ⊢
  split
  · exact pairAll_tagRule_refl _
  · rename_i hne
    rw [if_neg hne] at hm
    exact retagSlots_tagRule _ _ hm

/-- **the exact cluster update is a certified spin-only update** (C09 → bridge), for every flip
probability, weight-0 predicate, structurally valid configuration and script. The C06 side
(`flipCert_spinFlipStep`, `certifiedUpdate_*` in QmcProofs/Refinement.lean) turns this into
`SpinFlipStep` / `Step`; the two halves share `FlipCert` from QmcProofs/RefinementBridge.lean. -/
theorem exactClusterUpdate_flipCert (prob : Rat) (fr : SkOp → Bool) :
    ∀ c rs, ShapeOk c ∧ NodupVars c.slots → FlipCert c (clusterUpdate prob fr c rs).1 :=
  clusterUpdate_flipCert (clusterUpdate prob fr) fr (fun c => ShapeOk c ∧ NodupVars c.slots)
    (fun c rs h => Qmc.C09.clusterUpdate_is_clusterMove prob fr c rs h.1 h.2)
    (fun c rs h => clusterUpdate_tagRule prob fr c rs h.1 h.2)

theorem exactClusterUpdate_keepsWeight (prob : Rat) (fr : SkOp → Bool) (H : Ham) :
    ∀ c rs, ShapeOk c ∧ NodupVars c.slots →
      (∀ o ∈ opsOf c.slots, o.isEdge = false → fr o.sk = false → H.FlipSym o.bond) →
      (∀ o ∈ opsOf c.slots, o.isEdge = true → H.ConstW o.bond) →
      (∀ o ∈ opsOf c.slots, 0 < H.w o.bond o.ins o.outs) →
      KeepsWeight H c.slots (clusterUpdate prob fr c rs).1.slots :=
  clusterUpdate_keepsWeight (clusterUpdate prob fr) fr (fun c => ShapeOk c ∧ NodupVars c.slots) H
    (fun c rs h => Qmc.C09.clusterUpdate_is_clusterMove prob fr c rs h.1 h.2)

/-- non-vacuity on the 3-variable Ising configuration of C09, any script -/
example (ws : List Nat) : FlipCert Qmc.C09.exB (clusterUpdate (1 / 2) (fun _ => false) Qmc.C09.exB (RS.ofScript ws)).1 := by
  refine exactClusterUpdate_flipCert _ _ _ _ ⟨?_, ?_⟩
  · intro o ho
    simp only [Qmc.C09.exB, opsOf, List.mem_cons, List.not_mem_nil, or_false] at ho
    rcases ho with rfl | rfl | rfl | rfl <;> simp [Qmc.C09.sx, Qmc.C09.bd, Qmc.C09.exB]
  · intro o ho
    simp only [Qmc.C09.exB, opsOf, List.mem_cons, List.not_mem_nil, or_false] at ho
    rcases ho with rfl | rfl | rfl | rfl <;> simp [Qmc.C09.sx, Qmc.C09.bd]

end Qmc.Refine
