/-
Helper lemmas for C08/C02 (heat-bath diagonal update): ratio algebra, slot function facts, the
cumulative-table search, `make_bond_weights` really is the maximum, table-validity invariants of the
two samplers.
-/
import QmcModel.HeatBath
import QmcProofs.Diagonal
import QmcProofs.Common
import QmcProofs.CommonRand

namespace Qmc
open RS

/-! ### ratio -/

theorem pRemoveHB_succ (β W : Rat) (L n : Nat) (h : n < L) :
    pRemoveHB β W L (n + 1) = ((L : Rat) - (n : Rat)) / (((L : Rat) - (n : Rat)) + β * W) := by
  unfold pRemoveHB
  have h1 : ((L - (n + 1) + 1 : Nat) : Rat) = (L : Rat) - (n : Rat) := by
    have : L - (n + 1) + 1 = L - n := by omega
    rw [this, natSub_cast (le_of_lt h)]
  rw [h1]

theorem heatbath_ratio_aux (β W mw w : Rat) (L n : Nat) (hβ : 0 < β) (hW : 0 < W)
    (hw0 : 0 ≤ w) (hw : w ≤ mw) (hn : n < L) :
    pInsertHB β W mw w L n / pRemoveHB β W L (n + 1) = β * w / ((L : Rat) - (n : Rat)) := by
  rw [pRemoveHB_succ β W L n hn]
  unfold pInsertHB
  rw [natSub_cast (le_of_lt hn)]
  have hd : (0 : Rat) < (L : Rat) - (n : Rat) := by
    have : (n : Rat) < (L : Rat) := by exact_mod_cast hn
    linarith
  have hbw : 0 < β * W := mul_pos hβ hW
  have hsum : (0 : Rat) < (L : Rat) - (n : Rat) + β * W := by linarith
  rcases eq_or_lt_of_le (le_trans hw0 hw) with hm | hm
  · have hw' : w = 0 := by linarith
    rw [← hm, hw']; simp
  · have hm' : mw ≠ 0 := ne_of_gt hm
    field_simp

/-! ### the slot function -/

theorem heatBathSlot_offdiag (H : Ham) (bw : BW) (β : Rat) (L : Nat) (op : Op) (st n rs)
    (h : op.tagDiag = false) :
    heatBathSlot H bw β L (some op) st n rs = ⟨some op, writeVars st op.vars op.outs, n, rs⟩ := by
  unfold heatBathSlot; simp [h]

/-- unfolding of the diagonal-operator branch when nothing panics: one `gen_bool((L−n+1)/(L−n+1+βW))` -/
theorem heatBathSlot_diag (H : Ham) (bw : BW) (β : Rat) (L : Nat) (op : Op) (st : List Bool) (n : Nat) (rs : RS)
    (W : Rat) (hW : bwTotal bw = some W) (hd : op.tagDiag = true) (hn : n ≤ L)
    (hden : ((L - n + 1 : Nat) : Rat) + β * W ≠ 0) :
    heatBathSlot H bw β L (some op) st n rs =
      (let d := rs.genBool (((L - n + 1 : Nat) : Rat) / (((L - n + 1 : Nat) : Rat) + β * W))
       if d.1 then ⟨none, st, n - 1, d.2⟩ else ⟨some op, st, n, d.2⟩) := by
  unfold heatBathSlot
  simp only [hd, if_true, hW]
  rw [if_neg (by omega : ¬ L < n), if_neg hden]

/-- unfolding of the empty-slot branch when nothing panics: attempt draw, then `u`, `x`, bond by the
cumulative table, accept iff `u·maxw_b < w_b(state)` -/
theorem heatBathSlot_empty (H : Ham) (bw : BW) (β : Rat) (L : Nat) (st : List Bool) (n : Nat) (rs : RS)
    (W : Rat) (hW : bwTotal bw = some W) (hn : n ≤ L) (hden : ((L - n : Nat) : Rat) + β * W ≠ 0) :
    heatBathSlot H bw β L none st n rs =
      (let g := rs.genBool (β * W / (((L - n : Nat) : Rat) + β * W))
       if !g.1 then ⟨none, st, n, g.2⟩ else
       let u := g.2.genRangeF 1
       let x := u.2.genRangeF W
       let b := indexForCumulative (cumul bw) x.1
       let rs3 := x.2.noteMargin (cumMargin (cumul bw) x.1)
       if bw.length ≤ b ∨ varsInRange st (H.vars b) = false then SlotRes.panic none st n rs3 else
       let sub := readVars st (H.vars b)
       let rs4 := rs3.noteMargin (u.1 * bw.getD b 0 - H.w b sub sub)
       if u.1 * bw.getD b 0 < H.w b sub sub then ⟨some (Op.diagonal (H.vars b) b sub (H.const b)), st, n + 1, rs4⟩
       else ⟨none, st, n, rs4⟩) := by
  unfold heatBathSlot
  simp only [hW]
  rw [if_neg (by omega : ¬ L < n), if_neg hden]

theorem heatBathSlot_ok (H : Ham) (bw : BW) (β : Rat) (L : Nat) : SlotOK (heatBathSlot H bw β L) where
  count := by
    intro s st n rs hs
    unfold heatBathSlot
    cases s with
    | none =>
      simp only
      split
      · simp [SlotRes.panic, cnt]
      · split
        · simp [SlotRes.panic, cnt]
        · split
          · simp [SlotRes.panic, cnt]
          · split
            · simp [cnt]
            · split
              · simp [SlotRes.panic, cnt]
              · split <;> simp [cnt]
    | some op =>
      have h1 : 1 ≤ n := hs rfl
      simp only
      split
      · split
        · simp [SlotRes.panic, cnt]
        · split
          · simp [SlotRes.panic, cnt]
          · split
            · simp [SlotRes.panic, cnt]
            · split
              · simp [cnt]; omega
              · simp [cnt]
      · simp [cnt]
  offdiag := by
    intro op st n rs h
    rw [heatBathSlot_offdiag H bw β L op st n rs h]
  kind := by
    intro s st n rs hs op' h
    unfold heatBathSlot at h
    cases s with
    | none =>
      simp only at h
      split at h
      · simp [SlotRes.panic] at h
      · split at h
        · simp [SlotRes.panic] at h
        · split at h
          · simp [SlotRes.panic] at h
          · split at h
            · simp at h
            · split at h
              · simp [SlotRes.panic] at h
              · split at h
                · simp only [Option.some.injEq] at h; subst h; rfl
                · simp at h
    | some op =>
      have hd := hs op rfl
      simp only [hd, if_true] at h
      split at h
      · simp only [SlotRes.panic, Option.some.injEq] at h; subst h; exact hd
      · split at h
        · simp only [SlotRes.panic, Option.some.injEq] at h; subst h; exact hd
        · split at h
          · simp only [SlotRes.panic, Option.some.injEq] at h; subst h; exact hd
          · split at h
            · simp at h
            · simp only [Option.some.injEq] at h; subst h; exact hd

/-! `genRangeF_nonneg` is in QmcProofs/CommonRand.lean, `readVars_length` in QmcProofs/Common.lean -/

/-- the value `gen_range(0.0..1.0)` returns on word `v`: `(v >> 12)·2^-52` -/
theorem genRangeF_one (rs : RS) (v : Nat) (s : List Nat) (h : rs.script = v :: s) (hv : v < two64) :
    (rs.genRangeF 1).1 = ((v / 2 ^ 12 : Nat) : Rat) / ((2 ^ 52 : Nat) : Rat) := by
  unfold genRangeF
  rw [if_neg (by norm_num), next_cons rs v s h]
  simp only [Nat.mod_eq_of_lt hv, mul_one]

/-! ### the cumulative table -/

theorem filter_cumulFrom_ge (x : Rat) : ∀ (ws : List Rat) (acc : Rat), (∀ w ∈ ws, 0 ≤ w) → x ≤ acc →
    (cumulFrom acc ws).filter (fun c => decide (c < x)) = []
  | [], _, _, _ => rfl
  | w :: t, acc, hnn, hx => by
    simp only [cumulFrom]
    have hw : 0 ≤ w := hnn w (by simp)
    have h1 : ¬ (acc + w < x) := by linarith
    rw [List.filter_cons_of_neg (by simpa using h1)]
    exact filter_cumulFrom_ge x t (acc + w) (fun y hy => hnn y (by simp [hy])) (by linarith)

theorem sum_take_nonneg : ∀ (ws : List Rat) (k : Nat), (∀ w ∈ ws, 0 ≤ w) → 0 ≤ (ws.take k).sum
  | [], k, _ => by simp
  | w :: t, 0, _ => by simp
  | w :: t, k + 1, h => by
    simp only [List.take_succ_cons, List.sum_cons]
    have := sum_take_nonneg t k (fun y hy => h y (by simp [hy]))
    have := h w (by simp)
    linarith

theorem index_cumulFrom (x : Rat) : ∀ (ws : List Rat) (acc : Rat) (b : Nat), (∀ w ∈ ws, 0 ≤ w) →
    b < ws.length → acc + (ws.take b).sum < x → x ≤ acc + (ws.take (b + 1)).sum →
    indexForCumulative (cumulFrom acc ws) x = b
  | [], _, b, _, hb, _, _ => by simp at hb
  | w :: t, acc, 0, hnn, _, _, h2 => by
    unfold indexForCumulative
    simp only [cumulFrom]
    simp only [List.take_succ_cons, List.take_zero, List.sum_cons, List.sum_nil, add_zero] at h2
    rw [List.filter_cons_of_neg (by simpa using h2)]
    rw [filter_cumulFrom_ge x t (acc + w) (fun y hy => hnn y (by simp [hy])) h2]
    rfl
  | w :: t, acc, b + 1, hnn, hb, h1, h2 => by
    unfold indexForCumulative
    simp only [cumulFrom]
    simp only [List.take_succ_cons, List.sum_cons] at h1 h2
    have hs := sum_take_nonneg t b (fun y hy => hnn y (by simp [hy]))
    have hlt : acc + w < x := by linarith
    rw [List.filter_cons_of_pos (by simpa using hlt)]
    simp only [List.length_cons, Nat.add_right_cancel_iff]
    have := index_cumulFrom x t (acc + w) b (fun y hy => hnn y (by simp [hy]))
      (by simpa using hb) (by linarith) (by linarith)
    unfold indexForCumulative at this
    exact this

theorem sum_take_succ_sub : ∀ (ws : List Rat) (b : Nat) (hb : b < ws.length),
    (ws.take (b + 1)).sum - (ws.take b).sum = ws[b]
  | [], b, hb => by simp at hb
  | w :: t, 0, _ => by simp
  | w :: t, b + 1, hb => by
    simp only [List.take_succ_cons, List.sum_cons, List.getElem_cons_succ]
    have := sum_take_succ_sub t b (by simpa using hb)
    linarith

/-! ### `make_bond_weights` -/

theorem mem_allSub : ∀ (k : Nat) (s : List Bool), s.length = k → s ∈ allSub k
  | 0, s, h => by
    have : s = [] := List.length_eq_zero_iff.mp h
    simp [allSub, this]
  | k + 1, [], h => by simp at h
  | k + 1, b :: t, h => by
    simp only [allSub, List.mem_flatMap]
    refine ⟨t, mem_allSub k t (by simpa using h), ?_⟩
    cases b <;> simp

theorem foldl_max_ge_init (g : List Bool → Rat) : ∀ (l : List (List Bool)) (a : Rat),
    a ≤ l.foldl (fun acc s => if g s > acc then g s else acc) a
  | [], a => le_refl a
  | s :: t, a => by
    simp only [List.foldl_cons]
    by_cases hc : g s > a
    · rw [if_pos hc]
      have := foldl_max_ge_init g t (g s)
      linarith
    · rw [if_neg hc]
      exact foldl_max_ge_init g t a

theorem foldl_max_ge_mem (g : List Bool → Rat) : ∀ (l : List (List Bool)) (a : Rat) (s : List Bool), s ∈ l →
    g s ≤ l.foldl (fun acc s => if g s > acc then g s else acc) a
  | [], _, s, h => by simp at h
  | x :: t, a, s, h => by
    simp only [List.foldl_cons]
    rcases List.mem_cons.mp h with rfl | h
    · by_cases hc : g s > a
      · rw [if_pos hc]
        exact foldl_max_ge_init g t (g s)
      · rw [if_neg hc]
        have := foldl_max_ge_init g t a
        linarith [not_lt.mp hc]
    · exact foldl_max_ge_mem g t _ s h

/-- the fold result is the start value or one of the elements -/
theorem foldl_max_mem (g : List Bool → Rat) : ∀ (l : List (List Bool)) (a : Rat),
    l.foldl (fun acc s => if g s > acc then g s else acc) a = a ∨
    ∃ s ∈ l, l.foldl (fun acc s => if g s > acc then g s else acc) a = g s
  | [], a => Or.inl rfl
  | x :: t, a => by
    simp only [List.foldl_cons]
    rcases foldl_max_mem g t (if g x > a then g x else a) with h | ⟨s, hs, h⟩
    · split at h
      · right; exact ⟨x, by simp, by rw [if_pos (by assumption)]; exact h⟩
      · left; rw [if_neg (by assumption)]; exact h
    · right; exact ⟨s, by simp [hs], h⟩

theorem maxDiag_nonneg (H : Ham) (b : Nat) : 0 ≤ maxDiag H b := by
  unfold maxDiag; exact foldl_max_ge_init (fun s => H.w b s s) _ 0

theorem maxDiag_ge (H : Ham) (b : Nat) (s : List Bool) (h : s.length = (H.vars b).length) :
    H.w b s s ≤ maxDiag H b := by
  unfold maxDiag
  exact foldl_max_ge_mem (fun s => H.w b s s) _ 0 s (mem_allSub _ s h)

theorem makeBondWeights_length (H : Ham) : (makeBondWeights H).length = H.nbonds := by
  unfold makeBondWeights; simp

theorem makeBondWeights_getD (H : Ham) (b : Nat) (hb : b < H.nbonds) :
    (makeBondWeights H).getD b 0 = maxDiag H b := by
  unfold makeBondWeights
  simp [List.getD, hb]

theorem makeBondWeights_nonneg (H : Ham) : ∀ w ∈ makeBondWeights H, 0 ≤ w := by
  intro w hw
  unfold makeBondWeights at hw
  obtain ⟨b, _, rfl⟩ := List.mem_map.mp hw
  exact maxDiag_nonneg H b

/-! ### small list facts about tables -/

theorem getD_nonneg (bw : BW) (hbw : ∀ w ∈ bw, 0 ≤ w) (i : Nat) : 0 ≤ bw.getD i 0 := by
  rw [List.getD_eq_getElem?_getD]
  cases hget : bw[i]? with
  | none => simp
  | some x => simp only [Option.getD_some]; exact hbw x (List.mem_of_getElem? hget)

/-- the total of a table of non-negative entries is non-negative … -/
theorem sum_nonneg_of_nonneg : ∀ (ws : List Rat), (∀ w ∈ ws, 0 ≤ w) → 0 ≤ ws.sum
  | [], _ => by simp
  | w :: t, h => by
    simp only [List.sum_cons]
    have := sum_nonneg_of_nonneg t (fun y hy => h y (by simp [hy]))
    have := h w (by simp)
    linarith

/-- … and dominates each entry -/
theorem le_sum_of_mem : ∀ (ws : List Rat), (∀ w ∈ ws, 0 ≤ w) → ∀ (b : Nat), ws.getD b 0 ≤ ws.sum
  | [], _, b => by simp
  | w :: t, h, 0 => by
    simp only [List.getD_cons_zero, List.sum_cons]
    have := sum_nonneg_of_nonneg t (fun y hy => h y (by simp [hy]))
    linarith
  | w :: t, h, b + 1 => by
    simp only [List.getD_cons_succ, List.sum_cons]
    have := le_sum_of_mem t (fun y hy => h y (by simp [hy])) b
    have := h w (by simp)
    linarith

/-! ### table validity -/

theorem GenS.step_valid {ι : Type} (mk : List ι → BW) (s : GenS ι) (op : GenOp ι)
    (h : s.table = none ∨ s.table = some (mk s.bonds)) :
    (s.step mk op).table = none ∨ (s.step mk op).table = some (mk (s.step mk op).bonds) := by
  cases op with
  | addInteraction i => left; rfl
  | setDoHeatbath b => exact h
  | diagonalUpdate =>
    simp only [GenS.step]
    by_cases hh : s.doHeatbath = true
    · rw [if_pos hh]
      rcases h with h | h
      · rw [h]; right; rfl
      · rw [h]; right; exact h
    · rw [if_neg hh]; exact h

theorem GenS.run_valid {ι : Type} (mk : List ι → BW) : ∀ (ops : List (GenOp ι)) (s : GenS ι),
    (s.table = none ∨ s.table = some (mk s.bonds)) →
    (s.run mk ops).table = none ∨ (s.run mk ops).table = some (mk (s.run mk ops).bonds)
  | [], _, h => h
  | op :: t, s, h => by
    unfold GenS.run
    simp only [List.foldl_cons]
    exact GenS.run_valid mk t (s.step mk op) (GenS.step_valid mk s op h)

theorem IsingS.step_ham {η : Type} (mk : η → BW) (s : IsingS η) (op : IsingOp) :
    (s.step mk op).ham = s.ham := by
  cases op with
  | setEnableHeatbath b => cases b <;> rfl
  | diagonalStep => rfl

theorem IsingS.step_valid {η : Type} (mk : η → BW) (s : IsingS η) (op : IsingOp)
    (h : s.table = none ∨ s.table = some (mk s.ham)) :
    (s.step mk op).table = none ∨ (s.step mk op).table = some (mk (s.step mk op).ham) := by
  cases op with
  | setEnableHeatbath b => cases b; exact Or.inl rfl; exact Or.inr rfl
  | diagonalStep => exact h

theorem IsingS.run_valid {η : Type} (mk : η → BW) : ∀ (ops : List IsingOp) (s : IsingS η),
    (s.table = none ∨ s.table = some (mk s.ham)) →
    ((s.run mk ops).table = none ∨ (s.run mk ops).table = some (mk (s.run mk ops).ham)) ∧
      (s.run mk ops).ham = s.ham
  | [], _, h => ⟨h, rfl⟩
  | op :: t, s, h => by
    unfold IsingS.run
    simp only [List.foldl_cons]
    have := IsingS.run_valid mk t (s.step mk op) (IsingS.step_valid mk s op h)
    unfold IsingS.run at this
    exact ⟨this.1, by rw [this.2, IsingS.step_ham]⟩

/-! ### pairs of samplers -/

/-- an invariant of the Hamiltonian-side state that every single-sampler operation preserves holds for both
samplers after any interleaving of operations and swaps -/
theorem HBPair.run_inv {σ μ o : Type} (f : σ → o → σ) (Inv : σ → Prop)
    (hf : ∀ s x, Inv s → Inv (f s x)) : ∀ (ops : List (HBPairOp o)) (p : HBPair σ μ),
    Inv p.a → Inv p.b → Inv (p.run f ops).a ∧ Inv (p.run f ops).b
  | [], _, ha, hb => ⟨ha, hb⟩
  | op :: t, p, ha, hb => by
    unfold HBPair.run
    simp only [List.foldl_cons]
    have h : Inv (p.step f op).a ∧ Inv (p.step f op).b := by
      cases op with
      | left x => exact ⟨hf _ x ha, hb⟩
      | right x => exact ⟨ha, hf _ x hb⟩
      | swap => exact ⟨ha, hb⟩
      | noswap => exact ⟨ha, hb⟩
    exact HBPair.run_inv f Inv hf t (p.step f op) h.1 h.2

end Qmc
