import QmcModel.RvbRegion
import QmcProofs.RvbMove

/-! The proposal of the RVB update reads only the `Skeleton`; an `RvbMove` leaves the skeleton
untouched; hence forward and reverse proposal probabilities of every region are equal. -/

namespace Qmc
namespace Rvb

/-! ### the skeleton is determined by constant-op positions, cutoff and |J|-edges -/

theorem skeleton_eq_of_same_data (E E' : Ising) (c c' : Config)
    (hn : E.nvars = E'.nvars)
    (he : E.edges.map (fun e => (e.1, e.2.1, absR e.2.2)) = E'.edges.map (fun e => (e.1, e.2.1, absR e.2.2)))
    (hc : c.slots.length = c'.slots.length)
    (hp : ∀ v, v < E.nvars → constPs c.slots v = constPs c'.slots v) :
    skeleton E c = skeleton E' c' := by
  unfold skeleton
  rw [← hn, he, hc]
  congr 1
  apply List.map_congr_left
  intro v hv
  exact hp v (List.mem_range.1 hv)

/-! ### an RVB move does not touch what the proposal reads -/

theorem onBoundary_lt {E : Ising} {st mask : List Bool} {b : Nat} (h : OnBoundary E st mask b) :
    b < E.edges.length := by
  obtain ⟨x, hx, hb⟩ := h
  unfold boundary at hx
  rw [List.mem_filterMap] at hx
  obtain ⟨⟨b', u, v, j⟩, hmem, heq⟩ := hx
  have hb' : b' ∈ List.range E.edges.length := (List.of_mem_zip hmem).1
  simp only at heq
  split at heq
  · injection heq with heq
    subst heq
    simp only at hb
    subst hb
    exact List.mem_range.1 hb'
  · cases heq

theorem edgeOpsNotConst_cons (E : Ising) (x : Option Op) (s : Slots) :
    edgeOpsNotConst E (x :: s) = true ↔
      (∀ o, x = some o → o.bond < E.edges.length → o.const = false) ∧ edgeOpsNotConst E s = true := by
  unfold edgeOpsNotConst
  rw [List.all_cons, Bool.and_eq_true]
  constructor
  · rintro ⟨h1, h2⟩
    refine ⟨?_, h2⟩
    intro o ho hlt
    subst ho
    simp only [Bool.not_eq_true', Bool.and_eq_false_iff, decide_eq_false_iff_not] at h1
    rcases h1 with h | h
    · exact absurd hlt h
    · exact h
  · rintro ⟨h1, h2⟩
    refine ⟨?_, h2⟩
    cases x with
    | none => rfl
    | some o =>
      simp only [Bool.not_eq_true', Bool.and_eq_false_iff, decide_eq_false_iff_not]
      by_cases hlt : o.bond < E.edges.length
      · right; exact h1 o rfl hlt
      · left; exact hlt

/-- along a walk of the move relation the constant-operator signature of every slot is kept,
provided no operator on an edge bond is flagged constant -/
theorem Steps.constSig_eq {E : Ising} {p st mask tog s s' m t} (h : Steps E p st mask tog s s' m t)
    (hnc : edgeOpsNotConst E s = true) : constSig s' = constSig s := by
  induction h with
  | nil => rfl
  | skip _ _ _ _ _ _ _ _ _ ih =>
    have := ih ((edgeOpsNotConst_cons E _ _).1 hnc).2
    unfold constSig at this ⊢
    simp only [List.map_cons, this]
  | rebond p st mask tog o o' s s' m t _ hb hr _ ih =>
    obtain ⟨h1, h2⟩ := (edgeOpsNotConst_cons E _ _).1 hnc
    have hc : o.const = false := h1 o rfl (onBoundary_lt hb)
    have hc' : o'.const = false := by rw [hr.newDiag.2.2, hc]
    have := ih h2
    unfold constSig at this ⊢
    simp [this, constVars, hc, hc']
  | flip p st mask tog o o' s s' m t isTog mask2 _ _ _ _ _ _ _ _ ho' _ _ ih =>
    have := ih ((edgeOpsNotConst_cons E _ _).1 hnc).2
    have hv : o'.vars = o.vars := by rw [ho']; rfl
    have hc : o'.const = o.const := by rw [ho']; rfl
    unfold constSig at this ⊢
    simp only [List.map_cons, this, constVars, hv, hc]

/-- **an RVB move preserves exactly the data the proposal reads** -/
theorem RvbMove.skeleton_eq {E : Ising} {b a : Config} {R : Region} (h : RvbMove E b a R)
    (hnc : edgeOpsNotConst E b.slots = true) : skeleton E a = skeleton E b := by
  have hsig := h.2.2.constSig_eq hnc
  have hlen := h.count.2
  unfold skeleton
  rw [hlen]
  congr 1
  apply List.map_congr_left
  intro v _
  unfold constPs
  rw [hsig]

/-! ### proposal probabilities -/

/-- probability of an event about the proposal (which region, how many draws, …) under a finite
distribution `μ` of RNG scripts (`(script, probability)` pairs) -/
def proposalProb (sk : Skeleton) (μ : List (List Nat × Rat)) (ev : Proposal × RS → Bool) : Rat :=
  ((μ.filter fun sw => ev (proposeRegion sk (RS.ofScript sw.1))).map (·.2)).sum

/-- the event "region `R` is proposed" -/
def proposesRegion (nv : Nat) (R : Region) (out : Proposal × RS) : Bool :=
  !out.1.panic && out.1.subvars == R.subvars && maskOf nv out.1.subvars out.1.start == R.mask0 &&
    out.1.toggles == R.toggles

end Rvb
end Qmc
