import QmcModel.RvbRegion
import QmcProofs.RvbMove

/-! The proposal of the RVB update reads only the `Skeleton`; an `RvbMove` leaves the skeleton
untouched; hence forward and reverse proposal probabilities of every region are equal. -/

namespace Qmc
namespace Rvb

/-! ### the skeleton is determined by constant-op positions, cutoff and |J|-edges -/

theorem skeleton_eq_of_same_data (E E' : Ising) (c c' : Config)
    (hn : E.nvars = E'.nvars)
    (he : E.edges.map (fun e => (e.1, e.2.1, absR e.2.2)) = E'.edges.map (fun e => (e.1, e.2.1, absR e.2.2)))
    (hc : c.slots.length = c'.slots.length)
    (hp : ∀ v, v < E.nvars → constPs c.slots v = constPs c'.slots v) :
    skeleton E c = skeleton E' c' := by
  unfold skeleton
  rw [← hn, he, hc]
  congr 1
  apply List.map_congr_left
  intro v hv
  exact hp v (List.mem_range.1 hv)

/-! ### an RVB move does not touch what the proposal reads -/

theorem onBoundary_lt {E : Ising} {st mask : List Bool} {b : Nat} (h : OnBoundary E st mask b) :
    b < E.edges.length := by
  obtain ⟨x, hx, hb⟩ := h
  unfold boundary at hx
  rw [List.mem_filterMap] at hx
  obtain ⟨⟨b', u, v, j⟩, hmem, heq⟩ := hx
  have hb' : b' ∈ List.range E.edges.length := (List.of_mem_zip hmem).1
  simp only at heq
  split at heq
  · injection heq with heq
    subst heq
    simp only at hb
    subst hb
    exact List.mem_range.1 hb'
  · cases heq

theorem edgeOpsNotConst_cons (E : Ising) (x : Option Op) (s : Slots) :
    edgeOpsNotConst E (x :: s) = true ↔
      (∀ o, x = some o → o.bond < E.edges.length → o.const = false) ∧ edgeOpsNotConst E s = true := by
  unfold edgeOpsNotConst
  rw [List.all_cons, Bool.and_eq_true]
  constructor
  · rintro ⟨h1, h2⟩
    refine ⟨?_, h2⟩
    intro o ho hlt
    subst ho
    simp only [Bool.not_eq_true', Bool.and_eq_false_iff, decide_eq_false_iff_not] at h1
    rcases h1 with h | h
    · exact absurd hlt h
    · exact h
  · rintro ⟨h1, h2⟩
    refine ⟨?_, h2⟩
    cases x with
    | none => rfl
    | some o =>
      simp only [Bool.not_eq_true', Bool.and_eq_false_iff, decide_eq_false_iff_not]
      by_cases hlt : o.bond < E.edges.length
      · right; exact h1 o rfl hlt
      · left; exact hlt

/-- along a walk of the move relation the constant-operator signature of every slot is kept,
provided no operator on an edge bond is flagged constant -/
theorem Steps.constSig_eq {E : Ising} {p st mask tog s s' m t} (h : Steps E p st mask tog s s' m t)
    (hnc : edgeOpsNotConst E s = true) : constSig s' = constSig s := by
  induction h with
  | nil => rfl
  | skip _ _ _ _ _ _ _ _ _ ih =>
    have := ih ((edgeOpsNotConst_cons E _ _).1 hnc).2
    unfold constSig at this ⊢
    simp only [List.map_cons, this]
  | rebond p st mask tog o o' s s' m t _ hb hr _ ih =>
    obtain ⟨h1, h2⟩ := (edgeOpsNotConst_cons E _ _).1 hnc
    have hc : o.const = false := h1 o rfl (onBoundary_lt hb)
    have hc' : o'.const = false := by rw [hr.newDiag.2.2, hc]
    have := ih h2
    unfold constSig at this ⊢
    simp [this, constVars, hc, hc']
  | flip p st mask tog o o' s s' m t isTog mask2 _ _ _ _ _ _ _ _ ho' _ _ ih =>
    have := ih ((edgeOpsNotConst_cons E _ _).1 hnc).2
    have hv : o'.vars = o.vars := by rw [ho']; rfl
    have hc : o'.const = o.const := by rw [ho']; rfl
    unfold constSig at this ⊢
    simp only [List.map_cons, this, constVars, hv, hc]

/-- **an RVB move preserves exactly the data the proposal reads** -/
theorem RvbMove.skeleton_eq {E : Ising} {b a : Config} {R : Region} (h : RvbMove E b a R)
    (hnc : edgeOpsNotConst E b.slots = true) : skeleton E a = skeleton E b := by
  have hsig := h.2.2.constSig_eq hnc
  have hlen := h.count.2
  unfold skeleton
  rw [hlen]
  congr 1
  apply List.map_congr_left
  intro v _
  unfold constPs
  rw [hsig]

/-! ### proposal probabilities -/

/-- probability of an event about the proposal (which region, how many draws, …) under a finite
distribution `μ` of RNG scripts (`(script, probability)` pairs) -/
def proposalProb (sk : Skeleton) (μ : List (List Nat × Rat)) (ev : Proposal × RS → Bool) : Rat :=
  ((μ.filter fun sw => ev (proposeRegion sk (RS.ofScript sw.1))).map (·.2)).sum

/-- the event "region `R` is proposed" -/
def proposesRegion (nv : Nat) (R : Region) (out : Proposal × RS) : Bool :=
  !out.1.panic && out.1.subvars == R.subvars && maskOf nv out.1.subvars out.1.start == R.mask0 &&
    out.1.toggles == R.toggles

/-! ### `find_constants` -/

/-- the fold of `find_constants` over the first `n` variables -/
def fcFold (sk : Skeleton) (n : Nat) : Consts :=
  (List.range n).foldl (fun c v =>
    let ps := sk.cps.getD v []
    { varStarts := c.varStarts ++ [c.constantPs.length]
      varLengths := c.varLengths ++ [ps.length]
      constantPs := c.constantPs ++ ps
      idle := if ps.isEmpty then c.idle ++ [v] else c.idle }) {}

theorem fcFold_spec (sk : Skeleton) (n : Nat) :
    (fcFold sk n).varLengths = (List.range n).map (fun v => (sk.cps.getD v []).length) ∧
    (fcFold sk n).constantPs = ((List.range n).map (fun v => sk.cps.getD v [])).flatten ∧
    (fcFold sk n).varStarts =
      (List.range n).map (fun v => (((List.range v).map (fun u => sk.cps.getD u [])).flatten).length) ∧
    (fcFold sk n).idle = (List.range n).filter (fun v => (sk.cps.getD v []).isEmpty) := by
  induction n with
  | zero => simp [fcFold]
  | succ n ih =>
    obtain ⟨h1, h2, h3, h4⟩ := ih
    have e : fcFold sk (n + 1) =
        { varStarts := (fcFold sk n).varStarts ++ [(fcFold sk n).constantPs.length]
          varLengths := (fcFold sk n).varLengths ++ [(sk.cps.getD n []).length]
          constantPs := (fcFold sk n).constantPs ++ sk.cps.getD n []
          idle := if (sk.cps.getD n []).isEmpty then (fcFold sk n).idle ++ [n] else (fcFold sk n).idle } := by
      unfold fcFold
      rw [List.range_succ, List.foldl_append]
      rfl
    rw [e]
    refine ⟨?_, ?_, ?_, ?_⟩
    · simp only [h1, List.range_succ, List.map_append, List.map_cons, List.map_nil]
    · simp only [h2, List.range_succ, List.map_append, List.map_cons, List.map_nil, List.flatten_append,
        List.flatten_cons, List.flatten_nil, List.append_nil]
    · simp only [h3, h2, List.range_succ, List.map_append, List.map_cons, List.map_nil]
    · rw [h4, List.range_succ, List.filter_append]
      by_cases hn : (sk.cps.getD n []).isEmpty = true
      · rw [if_pos hn, List.filter_cons_of_pos (by simpa using hn)]; rfl
      · rw [if_neg hn, List.filter_cons_of_neg (by simpa using hn)]; simp

/-- `find_constants`: `var_lengths[v] = #constant ops on v`, `constant_ps` = the per-variable lists
concatenated, `var_starts[v]` = number of constant ops on the variables before `v`,
`vars_with_zero_ops` = the variables without constant ops, in increasing order. -/
theorem findConstants_spec (sk : Skeleton) :
    (findConstants sk).varLengths = (List.range sk.nvars).map (fun v => (sk.cps.getD v []).length) ∧
    (findConstants sk).constantPs = ((List.range sk.nvars).map (fun v => sk.cps.getD v [])).flatten ∧
    (findConstants sk).varStarts =
      (List.range sk.nvars).map (fun v => (((List.range v).map (fun u => sk.cps.getD u [])).flatten).length) ∧
    (findConstants sk).idle = (List.range sk.nvars).filter (fun v => (sk.cps.getD v []).isEmpty) :=
  fcFold_spec sk sk.nvars

/-- number of constant operators on the variables before `v` -/
def preLen (sk : Skeleton) (v : Nat) : Nat :=
  (((List.range v).map (fun u => sk.cps.getD u [])).flatten).length

theorem preLen_succ (sk : Skeleton) (v : Nat) : preLen sk (v + 1) = preLen sk v + (sk.cps.getD v []).length := by
  unfold preLen
  rw [List.range_succ, List.map_append, List.flatten_append, List.length_append]
  simp

theorem preLen_mono (sk : Skeleton) {u v : Nat} (h : u ≤ v) : preLen sk u ≤ preLen sk v := by
  induction v with
  | zero => have : u = 0 := by omega
            subst this; exact Nat.le_refl _
  | succ n ih =>
    by_cases hu : u = n + 1
    · subst hu; exact Nat.le_refl _
    · have := ih (by omega)
      rw [preLen_succ]; omega

theorem owner_count (sk : Skeleton) (n c : Nat) (hc : c < preLen sk n) :
    let k := (((List.range n).map (preLen sk)).filter (· ≤ c)).length
    1 ≤ k ∧ k ≤ n ∧ preLen sk (k - 1) ≤ c ∧ c < preLen sk k := by
  induction n with
  | zero => simp [preLen] at hc
  | succ n ih =>
    simp only [List.range_succ, List.map_append, List.map_cons, List.map_nil, List.filter_append]
    by_cases hlt : c < preLen sk n
    · have hf : List.filter (fun x => decide (x ≤ c)) [preLen sk n] = [] := by
        rw [List.filter_cons_of_neg (by simp; omega)]; rfl
      rw [hf, List.append_nil]
      obtain ⟨h1, h2, h3, h4⟩ := ih hlt
      exact ⟨h1, by omega, h3, h4⟩
    · have hall : List.filter (fun x => decide (x ≤ c)) ((List.range n).map (preLen sk)) =
          (List.range n).map (preLen sk) := by
        rw [List.filter_eq_self]
        intro x hx
        rw [List.mem_map] at hx
        obtain ⟨u, hu, rfl⟩ := hx
        have := preLen_mono sk (Nat.le_of_lt (List.mem_range.1 hu))
        simp; omega
      have hf : List.filter (fun x => decide (x ≤ c)) [preLen sk n] = [preLen sk n] := by
        rw [List.filter_cons_of_pos (by simp; omega)]; rfl
      rw [hall, hf]
      simp only [List.length_append, List.length_map, List.length_range, List.length_cons, List.length_nil]
      refine ⟨by omega, by omega, ?_, ?_⟩
      · have : n + (0 + 1) - 1 = n := by omega
        rw [this]; omega
      · exact hc

/-- **the start cell's owner**: for a flat cell index `choice < #constant ops` the variable the model
(and the binary search of the code) selects is the one whose block of `constant_ps` contains
`choice`: `var_starts[v] ≤ choice < var_starts[v] + var_lengths[v]`. -/
theorem pickStart_owner (sk : Skeleton) (choice : Nat) (h : choice < (findConstants sk).constantPs.length) :
    let C := findConstants sk
    let v := (C.varStarts.filter (· ≤ choice)).length - 1
    v < sk.nvars ∧ C.varStarts.getD v 0 ≤ choice ∧ choice < C.varStarts.getD v 0 + C.varLengths.getD v 0 := by
  obtain ⟨hL, hP, hS, _⟩ := findConstants_spec sk
  have hlen : (findConstants sk).constantPs.length = preLen sk sk.nvars := by rw [hP]; rfl
  have hS' : (findConstants sk).varStarts = (List.range sk.nvars).map (preLen sk) := hS
  rw [hlen] at h
  obtain ⟨h1, h2, h3, h4⟩ := owner_count sk sk.nvars choice h
  simp only
  rw [hS', hL]
  generalize hk : (((List.range sk.nvars).map (preLen sk)).filter (· ≤ choice)).length = k at h1 h2 h3 h4
  have hv : k - 1 < sk.nvars := by omega
  have e1 : ((List.range sk.nvars).map (preLen sk)).getD (k - 1) 0 = preLen sk (k - 1) := by
    simp [List.getD_eq_getElem?_getD, hv]
  have e2 : ((List.range sk.nvars).map (fun v => (sk.cps.getD v []).length)).getD (k - 1) 0 =
      (sk.cps.getD (k - 1) []).length := by
    simp [List.getD_eq_getElem?_getD, hv]
  rw [e1, e2]
  refine ⟨hv, h3, ?_⟩
  have : preLen sk k = preLen sk (k - 1) + (sk.cps.getD (k - 1) []).length := by
    have : k = (k - 1) + 1 := by omega
    rw [this, preLen_succ]; simp
  omega

end Rvb
end Qmc
