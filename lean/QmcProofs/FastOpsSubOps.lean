/-
C11: the HEAP branch of `mutate_subsection_ops` (sub-variable cursor, `SubvarAccess::Varlist`; RVB's
form) on the canonical container equals the naive position-by-position loop `subOpsLoopA`: the callback
is asked exactly at the occupied slots `pstart ≤ q ≤ pend` whose op touches a listed variable, in
increasing order, and each answer is installed by `mutate_p` under the sub-variable cursor.

The `BinaryHeap<Reverse<usize>>` is observed only through pop-min: the model keeps it as an increasing
list (`heapPush` = sorted insertion).  Loop invariant at scan position `r` (everything below `r` is done):
the heap is sorted; every entry is `≥ r` and holds an op on a listed variable; for every listed variable
the FIRST op at or after `r` is in the heap; the cursor's tables are the scan tables at `r`
(`last_p` is re-read from the node's `previous_p` at every visit, as the code does).
-/
import QmcProofs.FastOpsHint

namespace Qmc

/-! ### the heap as a sorted list -/

theorem mem_heapPush (h : List Nat) (x y : Nat) : y ∈ FastOps.heapPush h x ↔ y = x ∨ y ∈ h := by
  induction h with
  | nil => simp [FastOps.heapPush]
  | cons a t ih =>
    unfold FastOps.heapPush
    split
    · simp
    · simp only [List.mem_cons, ih]
      constructor
      · rintro (h | h | h)
        · exact Or.inr (Or.inl h)
        · exact Or.inl h
        · exact Or.inr (Or.inr h)
      · rintro (h | h | h)
        · exact Or.inr (Or.inl h)
        · exact Or.inl h
        · exact Or.inr (Or.inr h)

theorem sorted_heapPush (h : List Nat) (x : Nat) (hs : h.Pairwise (· ≤ ·)) :
    (FastOps.heapPush h x).Pairwise (· ≤ ·) := by
  induction h with
  | nil => simp [FastOps.heapPush]
  | cons a t ih =>
    obtain ⟨h1, h2⟩ := List.pairwise_cons.mp hs
    unfold FastOps.heapPush
    split
    · next hxa =>
      refine List.pairwise_cons.mpr ⟨?_, hs⟩
      intro z hz
      rcases List.mem_cons.mp hz with e | hz
      · subst e; exact hxa
      · exact Nat.le_trans hxa (h1 z hz)
    · next hxa =>
      refine List.pairwise_cons.mpr ⟨?_, ih h2⟩
      intro z hz
      rcases (mem_heapPush t x z).mp hz with e | hz
      · subst e; omega
      · exact h1 z hz

/-- push when there is something to push -/
def pushMaybe (h : List Nat) (o : Option Nat) : List Nat :=
  match o with
  | some y => FastOps.heapPush h y
  | none => h

theorem mem_foldl_pushMaybe {α : Type} (g : α → Option Nat) (l : List α) (h0 : List Nat) (y : Nat) :
    y ∈ l.foldl (fun h x => pushMaybe h (g x)) h0 ↔ y ∈ h0 ∨ ∃ x ∈ l, g x = some y := by
  induction l generalizing h0 with
  | nil => simp
  | cons a t ih =>
    simp only [List.foldl_cons, ih, List.mem_cons]
    cases hg : g a with
    | none =>
      simp only [pushMaybe]
      constructor
      · rintro (h | ⟨x, hx, hgx⟩)
        · exact Or.inl h
        · exact Or.inr ⟨x, Or.inr hx, hgx⟩
      · rintro (h | ⟨x, hx | hx, hgx⟩)
        · exact Or.inl h
        · subst hx; rw [hg] at hgx; cases hgx
        · exact Or.inr ⟨x, hx, hgx⟩
    | some z =>
      simp only [pushMaybe, mem_heapPush]
      constructor
      · rintro ((h | h) | ⟨x, hx, hgx⟩)
        · exact Or.inr ⟨a, Or.inl rfl, by rw [hg, h]⟩
        · exact Or.inl h
        · exact Or.inr ⟨x, Or.inr hx, hgx⟩
      · rintro (h | ⟨x, hx | hx, hgx⟩)
        · exact Or.inl (Or.inr h)
        · subst hx; rw [hg] at hgx; exact Or.inl (Or.inl (Option.some.inj hgx).symm)
        · exact Or.inr ⟨x, hx, hgx⟩

theorem sorted_foldl_pushMaybe {α : Type} (g : α → Option Nat) (l : List α) (h0 : List Nat)
    (hs : h0.Pairwise (· ≤ ·)) : (l.foldl (fun h x => pushMaybe h (g x)) h0).Pairwise (· ≤ ·) := by
  induction l generalizing h0 with
  | nil => exact hs
  | cons a t ih =>
    simp only [List.foldl_cons]
    apply ih
    cases g a with
    | none => exact hs
    | some z => exact sorted_heapPush h0 z hs

theorem mem_dropWhile_le (h : List Nat) (p y : Nat) (hs : h.Pairwise (· ≤ ·)) :
    y ∈ h.dropWhile (· ≤ p) ↔ y ∈ h ∧ p < y := by
  induction h with
  | nil => simp
  | cons a t ih =>
    obtain ⟨h1, h2⟩ := List.pairwise_cons.mp hs
    by_cases hap : a ≤ p
    · simp only [List.dropWhile_cons, hap, decide_true, if_true, ih h2, List.mem_cons]
      constructor
      · rintro ⟨h, hp⟩; exact ⟨Or.inr h, hp⟩
      · rintro ⟨h | h, hp⟩
        · omega
        · exact ⟨h, hp⟩
    · simp only [List.dropWhile_cons, hap, decide_false, Bool.false_eq_true, if_false, List.mem_cons]
      constructor
      · rintro (h | h)
        · exact ⟨Or.inl h, by omega⟩
        · exact ⟨Or.inr h, by have := h1 y h; omega⟩
      · rintro ⟨h, _⟩; exact h

theorem sorted_dropWhile (h : List Nat) (P : Nat → Bool) (hs : h.Pairwise (· ≤ ·)) :
    (h.dropWhile P).Pairwise (· ≤ ·) :=
  List.Pairwise.sublist (List.dropWhile_sublist P) hs

/-! ### the naive loop -/

theorem sharesVar_iff (vars : List Nat) (op : Op) : sharesVar vars op = true ↔ ∃ v, v ∈ vars ∧ v ∈ op.vars := by
  unfold sharesVar
  simp only [List.any_eq_true, List.contains_iff_mem]
  constructor
  · rintro ⟨v, h1, h2⟩; exact ⟨v, h2, h1⟩
  · rintro ⟨v, h1, h2⟩; exact ⟨v, h2, h1⟩

theorem sharesVar_false {s : Slots} {vars : List Nat} {q : Nat} {op : Op} (hsp : slotAt s q = some op)
    (h : ∀ v ∈ vars, occVAt s v q = false) : sharesVar vars op = false := by
  cases hsv : sharesVar vars op with
  | false => rfl
  | true =>
    obtain ⟨v, hv, hm⟩ := (sharesVar_iff vars op).mp hsv
    have := h v hv
    rw [occV_of_mem hsp hm] at this; cases this

/-- slots whose op (if any) touches no listed variable are skipped -/
theorem subOpsLoopA_skip {τ : Type} (nv : Nat) (nb : Option Nat) (vars : List Nat)
    (f : FastOps → Op → Nat → τ → Option (Option Op) × τ) (s : Slots) (t : τ) :
    ∀ (j p k : Nat), (∀ q, p ≤ q → q < p + j → ∀ v ∈ vars, occVAt s v q = false) →
      subOpsLoopA nv nb vars f p (j + k) s t = subOpsLoopA nv nb vars f (p + j) k s t := by
  intro j
  induction j with
  | zero => intro p k _; simp
  | succ j ih =>
    intro p k h
    have e : j + 1 + k = (j + k) + 1 := by omega
    rw [e]
    have hstep : subOpsLoopA nv nb vars f (p + 1) (j + k) s t = subOpsLoopA nv nb vars f (p + (j + 1)) k s t := by
      rw [ih (p + 1) k (fun q h1 h2 => h q (by omega) (by omega))]
      congr 1; omega
    conv => lhs; unfold subOpsLoopA
    cases hsp : slotAt s p with
    | none => exact hstep
    | some op =>
      have := sharesVar_false hsp (h p (Nat.le_refl _) (by omega))
      simp only [this, Bool.false_eq_true, if_false]
      exact hstep

theorem subOpsLoopA_none {τ : Type} (nv : Nat) (nb : Option Nat) (vars : List Nat)
    (f : FastOps → Op → Nat → τ → Option (Option Op) × τ) (s : Slots) (t : τ) (p k : Nat)
    (h : ∀ q, p ≤ q → q < p + k → ∀ v ∈ vars, occVAt s v q = false) :
    subOpsLoopA nv nb vars f p k s t = (s, t) := by
  have := subOpsLoopA_skip nv nb vars f s t k p 0 h
  simp only [Nat.add_zero] at this
  rw [this]; rfl

/-! ### tables of a sub-variable cursor (everything of `SubCur` except `last_p`) -/

structure SubTab (a : Cursor) (vs : List Nat) (s : Slots) (r : Nat) : Prop where
  hm : ∀ v, a.varToSubvar v = if v ∈ vs then some (vs.idxOf v) else none
  hv : a.lastVars = vs.map (fun v => (prevRel s v r).map (·.p))
  hr : a.lastRels = vs.map (fun v => (prevRel s v r).map (·.relv))

theorem SubCur.tab {a : Cursor} {vs : List Nat} {s : Slots} {p : Nat} (h : SubCur a vs s p) : SubTab a vs s p :=
  ⟨h.hm, h.hv, h.hr⟩

/-- no op on `v` in `[r, p)`: the scan at `p` is the scan at `r` -/
theorem prevRel_skip {s : Slots} {v r p : Nat} (hrp : r ≤ p) (h : ∀ q, r ≤ q → q < p → occVAt s v q = false) :
    prevRel s v p = prevRel s v r := by
  unfold prevRel
  congr 1
  cases hr : prevOcc (occVAt s v) r with
  | none =>
    rw [prevOcc_none_iff] at hr ⊢
    intro k hk
    by_cases hkr : k < r
    · exact hr k hkr
    · exact h k (by omega) hk
  | some x =>
    rw [prevOcc_some_iff] at hr ⊢
    refine ⟨by omega, hr.2.1, ?_⟩
    intro k hk1 hk2
    by_cases hkr : k < r
    · exact hr.2.2 k hk1 hkr
    · exact h k (by omega) hk2

theorem SubTab.at {a : Cursor} {vs : List Nat} {s : Slots} {r p : Nat} (h : SubTab a vs s r) (hrp : r ≤ p)
    (hno : ∀ q, r ≤ q → q < p → ∀ v ∈ vs, occVAt s v q = false) :
    SubCur { a with lastP := prevOcc (occAt s) p } vs s p := by
  refine ⟨rfl, h.hm, ?_, ?_⟩
  · show a.lastVars = _
    rw [h.hv]; apply List.map_congr_left; intro v hv
    rw [prevRel_skip hrp (fun q h1 h2 => hno q h1 h2 v hv)]
  · show a.lastRels = _
    rw [h.hr]; apply List.map_congr_left; intro v hv
    rw [prevRel_skip hrp (fun q h1 h2 => hno q h1 h2 v hv)]

theorem occV_writeA_ne (s : Slots) (p : Nat) (new : Option (Option Op)) (v q : Nat) (h : q ≠ p) :
    occVAt (writeA s p new) v q = occVAt s v q := by
  cases new with
  | none => rfl
  | some x =>
    simp only [writeA, occVAt, slotAt_set]
    have : ¬ (p = q ∧ p < s.length) := fun e => h e.1.symm
    simp [this]

namespace FastOps

/-! ### the loop -/

/-- the push loop over the variables of the node at `p`, as a `pushMaybe` fold -/
theorem nodePush_eq (a : Cursor) (node : Node) (l : List (Nat × Nat)) (h : List Nat) :
    l.foldl (fun (h : List Nat) (vr : Nat × Nat) =>
        match a.varToSubvar vr.1 with
        | some _ => match getNextPForRelVar vr.2 node with
          | some prel => heapPush h prel.p
          | none => h
        | none => h) h
      = l.foldl (fun h vr => pushMaybe h
          ((a.varToSubvar vr.1).bind fun _ => (getNextPForRelVar vr.2 node).map (·.p))) h := by
  congr 1
  funext h vr
  cases a.varToSubvar vr.1 with
  | none => rfl
  | some _ =>
    cases getNextPForRelVar vr.2 node with
    | none => rfl
    | some prel => rfl

theorem subOpsWalk_canon {τ : Type} (nv : Nat) (nb : Option Nat) (vs : List Nat) (hn : vs.Nodup)
    (hlt : ∀ v ∈ vs, v < nv) (f : FastOps → Op → Nat → τ → Option (Option Op) × τ)
    (hf : ∀ c o q t, SubActOK nv nb vs (some o) (f c o q t).1) (pe : Nat) :
    ∀ (fuel r : Nat) (s : Slots) (h : List Nat) (a : Cursor) (t : τ),
      WF nv nb s → s.length - r < fuel →
      h.Pairwise (· ≤ ·) →
      (∀ x ∈ h, r ≤ x ∧ ∃ v ∈ vs, occVAt s v x = true) →
      (∀ v ∈ vs, ∀ q, r ≤ q → occVAt s v q = true → (∀ j, r ≤ j → j < q → occVAt s v j = false) → q ∈ h) →
      SubTab a vs s r →
      (subOpsWalk f pe fuel h (canon nv nb s) a t).1
          = canon nv nb (subOpsLoopA nv nb vs f r (min (pe + 1) s.length - r) s t).1 ∧
      (subOpsWalk f pe fuel h (canon nv nb s) a t).2.2
          = (subOpsLoopA nv nb vs f r (min (pe + 1) s.length - r) s t).2 ∧
      WF nv nb (subOpsLoopA nv nb vs f r (min (pe + 1) s.length - r) s t).1 := by
  intro fuel
  induction fuel with
  | zero => intro r s h a t _ hfu; omega
  | succ fuel ih =>
    intro r s h a t hwf hfu hsorted hsound hcompl htab
    -- nothing on a listed variable in `[r, x)` for the heap minimum `x` (or anywhere, if the heap is empty)
    cases h with
    | nil =>
      have hnone : ∀ q, r ≤ q → ∀ v ∈ vs, occVAt s v q = false := by
        intro q hq v hv
        cases hocc : occVAt s v q with
        | false => rfl
        | true =>
          exfalso
          -- the first op on `v` at or after `r` would be in the (empty) heap
          obtain ⟨q0, hq0⟩ : ∃ q0, nextFrom (occVAt s v) r (q + 1 - r) = some q0 := by
            cases hnf : nextFrom (occVAt s v) r (q + 1 - r) with
            | some q0 => exact ⟨q0, rfl⟩
            | none =>
              rw [nextFrom_none_iff] at hnf
              have := hnf q hq (by omega); rw [hocc] at this; cases this
          rw [nextFrom_some_iff] at hq0
          have := hcompl v hv q0 hq0.1 hq0.2.2.1 hq0.2.2.2
          cases this
      rw [subOpsLoopA_none nv nb vs f s t r _ (fun q h1 _ => hnone q h1)]
      exact ⟨rfl, rfl, hwf⟩
    | cons p h' =>
      obtain ⟨hpmin, hs'⟩ := List.pairwise_cons.mp hsorted
      obtain ⟨hrp, v0, hv0, hocc0⟩ := hsound p List.mem_cons_self
      have hpL : p < s.length := occV_lt hocc0
      -- no listed op in `[r, p)`
      have hno : ∀ q, r ≤ q → q < p → ∀ v ∈ vs, occVAt s v q = false := by
        intro q hq1 hq2 v hv
        cases hocc : occVAt s v q with
        | false => rfl
        | true =>
          exfalso
          obtain ⟨q0, hq0⟩ : ∃ q0, nextFrom (occVAt s v) r (q + 1 - r) = some q0 := by
            cases hnf : nextFrom (occVAt s v) r (q + 1 - r) with
            | some q0 => exact ⟨q0, rfl⟩
            | none =>
              rw [nextFrom_none_iff] at hnf
              have := hnf q hq1 (by omega); rw [hocc] at this; cases this
          rw [nextFrom_some_iff] at hq0
          have hmem := hcompl v hv q0 hq0.1 hq0.2.2.1 hq0.2.2.2
          rcases List.mem_cons.mp hmem with e | hmem
          · omega
          · have := hpmin q0 hmem; omega
      unfold subOpsWalk
      by_cases hpe : p > pe
      · -- beyond the range: the naive loop finds nothing either
        simp only [hpe, if_true]
        rw [subOpsLoopA_none nv nb vs f s t r _
          (fun q h1 h2 => hno q h1 (by omega))]
        exact ⟨rfl, rfl, hwf⟩
      · simp only [hpe, if_false]
        obtain ⟨op, hsp, hmem0⟩ := occV_slot hocc0
        have hshare : sharesVar vs op = true := (sharesVar_iff vs op).mpr ⟨v0, hv0, hmem0⟩
        -- the naive loop: skip to `p`, ask the callback there
        have hk : min (pe + 1) s.length - r = (p - r) + ((min (pe + 1) s.length - (p + 1)) + 1) := by omega
        have hnaive : subOpsLoopA nv nb vs f r (min (pe + 1) s.length - r) s t
            = subOpsLoopA nv nb vs f (p + 1) (min (pe + 1) s.length - (p + 1))
                (writeA s p (f (canon nv nb s) op p t).1) (f (canon nv nb s) op p t).2 := by
          rw [hk, subOpsLoopA_skip nv nb vs f s t (p - r) r _ (fun q h1 h2 => hno q h1 (by omega))]
          have : r + (p - r) = p := by omega
          rw [this]
          conv => lhs; unfold subOpsLoopA
          simp only [hsp, hshare, if_true]
        -- the walk
        have hnode : (canon nv nb s).getNode p = some (canonNode s p op) := by rw [getNode_canon, hsp]; rfl
        simp only [hnode]
        have hop : (canonNode s p op).op = op := rfl
        have hprevP : (canonNode s p op).previousP = prevOcc (occAt s) p := rfl
        simp only [hop, hprevP]
        have hfok := hf (canon nv nb s) op p t
        generalize f (canon nv nb s) op p t = fr at hfok hnaive ⊢
        obtain ⟨new, t'⟩ := fr
        simp only at hfok hnaive ⊢
        have hcur : SubCur { a with lastP := prevOcc (occAt s) p } vs s p := htab.at hrp hno
        obtain ⟨hc1, hc2, hc3⟩ := mutatePWith_sub nv nb vs hn hlt s p new _ hpL hwf
          (by rw [hsp]; exact hfok) hcur
        rw [hc1, hnaive]
        have hlen : (writeA s p new).length = s.length := writeA_length s p new
        have hmin : min (pe + 1) (writeA s p new).length = min (pe + 1) s.length := by rw [hlen]
        rw [← hmin]
        -- the new heap, as a `pushMaybe` fold `PF`
        have e := nodePush_eq { a with lastP := prevOcc (occAt s) p } (canonNode s p op) op.vars.zipIdx
          (h'.dropWhile (· ≤ p))
        obtain ⟨PF, hPF⟩ : ∃ PF, PF = op.vars.zipIdx.foldl (fun h vr => pushMaybe h
            ((({ a with lastP := prevOcc (occAt s) p } : Cursor).varToSubvar vr.1).bind fun _ =>
              (getNextPForRelVar vr.2 (canonNode s p op)).map (·.p))) (h'.dropWhile (· ≤ p)) := ⟨_, rfl⟩
        rw [← hPF] at e
        have key := ih (p + 1) (writeA s p new) PF
          ((canon nv nb s).mutatePWith p new { a with lastP := prevOcc (occAt s) p }).2 t' hc3 (by rw [hlen]; omega)
          (by rw [hPF]; exact sorted_foldl_pushMaybe _ _ _ (sorted_dropWhile h' _ hs'))
          ?sound ?compl hc2.tab
        · rw [← e] at key
          exact key
        case sound =>
          -- soundness
          intro x hx
          rw [hPF, mem_foldl_pushMaybe] at hx
          rcases hx with hx | ⟨vr, hvr, hg⟩
          · rw [mem_dropWhile_le h' p x hs'] at hx
            obtain ⟨w, hw, hwocc⟩ := (hsound x (List.mem_cons_of_mem _ hx.1)).2
            exact ⟨by omega, w, hw, by rw [occV_writeA_ne s p new w x (by omega)]; exact hwocc⟩
          · -- pushed: the next op of a listed variable of the op at `p`
            have hvrv : op.vars[vr.2]? = some vr.1 := zipIdx_getElem? op.vars vr hvr
            have hmemv : vr.1 ∈ op.vars := List.mem_of_getElem? hvrv
            have hsub : ({ a with lastP := prevOcc (occAt s) p } : Cursor).varToSubvar vr.1
                = if vr.1 ∈ vs then some (vs.idxOf vr.1) else none := hcur.hm vr.1
            by_cases hin : vr.1 ∈ vs
            · rw [hsub] at hg
              simp only [hin, if_true, Option.bind_some] at hg
              have hnext : getNextPForRelVar vr.2 (canonNode s p op) = nextRel s vr.1 p := by
                simp only [getNextPForRelVar, canonNode, List.getElem?_map, hvrv, Option.map_some, Option.join_some]
              rw [hnext] at hg
              cases hnx : nextOcc (occVAt s vr.1) s.length p with
              | none => simp [nextRel, hnx] at hg
              | some y =>
                have hxy : x = y := by simp [nextRel, hnx, relAt] at hg; exact hg.symm
                subst hxy
                obtain ⟨h1, _, h3⟩ := nextOcc_gt hnx
                exact ⟨by omega, vr.1, hin, by rw [occV_writeA_ne s p new vr.1 x (by omega)]; exact h3⟩
            · rw [hsub] at hg
              simp [hin] at hg
        case compl =>
          -- completeness
          intro v hv q hq hqocc hfirst
          rw [hPF, mem_foldl_pushMaybe]
          have hqp : q ≠ p := by omega
          have hqocc' : occVAt s v q = true := by rw [← occV_writeA_ne s p new v q hqp]; exact hqocc
          have hfirst' : ∀ j, p + 1 ≤ j → j < q → occVAt s v j = false := by
            intro j h1 h2
            rw [← occV_writeA_ne s p new v j (by omega)]; exact hfirst j h1 h2
          by_cases hvop : v ∈ op.vars
          · -- pushed from the node at `p`
            right
            have hidx := List.idxOf_lt_length_of_mem hvop
            refine ⟨(v, op.vars.idxOf v), ?_, ?_⟩
            · rw [List.mem_iff_getElem?]
              refine ⟨op.vars.idxOf v, ?_⟩
              rw [List.getElem?_zipIdx]
              simp [List.getElem?_eq_getElem hidx]
            · have hsub : ({ a with lastP := prevOcc (occAt s) p } : Cursor).varToSubvar v
                  = some (vs.idxOf v) := by rw [hcur.hm v]; simp [hv]
              have hnext : getNextPForRelVar (op.vars.idxOf v) (canonNode s p op) = nextRel s v p := by
                simp only [getNextPForRelVar, canonNode]
                rw [map_idxOf' op.vars _ v hvop]; rfl
              simp only [hsub, Option.bind_some, hnext]
              have hnx : nextOcc (occVAt s v) s.length p = some q := by
                rw [nextOcc_some_iff]
                exact ⟨by omega, occV_lt hqocc', hqocc', fun j h1 h2 => hfirst' j (by omega) h2⟩
              simp [nextRel, hnx, relAt]
          · -- already in the heap, and it survives the pop
            left
            have hpv : occVAt s v p = false := occV_false_of_not_mem hsp hvop
            have hmem := hcompl v hv q (by omega) hqocc' (by
              intro j h1 h2
              by_cases hjp : j < p
              · exact hno j h1 hjp v hv
              · by_cases hjp' : j = p
                · subst hjp'; exact hpv
                · exact hfirst' j (by omega) h2)
            rcases List.mem_cons.mp hmem with e | hmem
            · omega
            · rw [mem_dropWhile_le h' p q hs']; exact ⟨hmem, by omega⟩

/-! ### the initial heap: for every listed variable the first op at or after `pstart` -/

/-- what the initialisation pushes for one `(var, prel)` pair -/
def initG (c : FastOps) (vp : Nat × Option (Nat × Nat)) : Option Nat :=
  match vp.2 with
  | some lpr => ((c.getNode lpr.1).bind (getNextPForRelVar lpr.2)).map (·.p)
  | none => (c.varEnd vp.1).map (·.1.p)

theorem initPush_eq (c : FastOps) (l : List (Nat × Option (Nat × Nat))) (h : List Nat) :
    l.foldl (fun (h : List Nat) (vp : Nat × Option (Nat × Nat)) =>
        match vp.2 with
        | some (lp, lr) =>
          match (c.getNode lp).bind (getNextPForRelVar lr) with
          | some prel => heapPush h prel.p
          | none => h
        | none =>
          match c.varEnd vp.1 with
          | some (start, _) => heapPush h start.p
          | none => h) h
      = l.foldl (fun h vp => pushMaybe h (initG c vp)) h := by
  congr 1
  funext h vp
  obtain ⟨v, o⟩ := vp
  cases o with
  | none =>
    simp only [initG]
    cases c.varEnd v with
    | none => rfl
    | some e => obtain ⟨st, tl⟩ := e; rfl
  | some lpr =>
    obtain ⟨lp, lr⟩ := lpr
    simp only [initG]
    cases (c.getNode lp).bind (getNextPForRelVar lr) with
    | none => rfl
    | some prel => rfl

theorem zip_map_self {α β : Type} (l : List α) (F : α → β) : l.zip (l.map F) = l.map (fun v => (v, F v)) := by
  induction l with
  | nil => rfl
  | cons a t ih => simp [ih]

/-- the first op on `v` at or after `r` -/
def firstFrom (s : Slots) (v r : Nat) : Option Nat := nextFrom (occVAt s v) r (s.length - r)

theorem initG_canon (nv : Nat) (nb : Option Nat) (s : Slots) (v : Nat) (hv : v < nv) (ps : Nat) :
    initG (canon nv nb s) (v, (prevRel s v ps).map (fun pr => (pr.p, pr.relv))) = firstFrom s v ps := by
  unfold initG firstFrom prevRel
  cases hp : prevOcc (occVAt s v) ps with
  | some lp =>
    obtain ⟨hlp, hocc⟩ := prevOcc_lt hp
    obtain ⟨op, hsp, hmem⟩ := occV_slot hocc
    have hnext : getNextPForRelVar (op.vars.idxOf v) (canonNode s lp op) = nextRel s v lp := by
      simp only [getNextPForRelVar, canonNode]
      rw [map_idxOf' op.vars _ v hmem]; rfl
    simp only [Option.map_some, relAt_relv hsp, getNode_canon, hsp, Option.bind_some, hnext]
    have : (nextRel s v lp).map (·.p) = nextOcc (occVAt s v) s.length lp := by
      unfold nextRel; cases nextOcc (occVAt s v) s.length lp <;> rfl
    rw [this]
    rw [prevOcc_some_iff] at hp
    cases hn : nextFrom (occVAt s v) ps (s.length - ps) with
    | none =>
      rw [nextOcc_none_iff]
      rw [nextFrom_none_iff] at hn
      intro j h1 h2
      by_cases hj : j < ps
      · exact hp.2.2 j h1 hj
      · exact hn j (by omega) (by omega)
    | some q =>
      rw [nextOcc_some_iff]
      rw [nextFrom_some_iff] at hn
      refine ⟨by omega, by omega, hn.2.2.1, ?_⟩
      intro j h1 h2
      by_cases hj : j < ps
      · exact hp.2.2 j h1 hj
      · exact hn.2.2.2 j (by omega) h2
  | none =>
    simp only [Option.map_none]
    have hfp : ((canon nv nb s).varEnd v).map (·.1) = firstRel s v := getFirstPForVar_canon nv nb s v hv
    have : ((canon nv nb s).varEnd v).map (·.1.p) = (firstRel s v).map (·.p) := by
      rw [← hfp]; cases (canon nv nb s).varEnd v <;> rfl
    rw [this]
    have : (firstRel s v).map (·.p) = firstOcc (occVAt s v) s.length := by
      unfold firstRel; cases firstOcc (occVAt s v) s.length <;> rfl
    rw [this]
    rw [prevOcc_none_iff] at hp
    cases hn : nextFrom (occVAt s v) ps (s.length - ps) with
    | none =>
      rw [firstOcc_none_iff]
      rw [nextFrom_none_iff] at hn
      intro j h1
      by_cases hj : j < ps
      · exact hp j hj
      · exact hn j (by omega) (by omega)
    | some q =>
      rw [firstOcc_some_iff]
      rw [nextFrom_some_iff] at hn
      refine ⟨by omega, hn.2.2.1, ?_⟩
      intro j h1
      by_cases hj : j < ps
      · exact hp j hj
      · exact hn.2.2.2 j (by omega) h1

theorem zipOpt_map_prel (x : Option PRel) :
    zipOpt (x.map (·.p)) (x.map (·.relv)) = x.map (fun pr => (pr.p, pr.relv)) := by
  cases x <;> rfl

/-- **the heap branch of `mutate_subsection_ops`** under a correct sub-variable cursor at `pstart`
(e.g. the one `fill_args_at_p_with_hint` builds) = the naive loop over `pstart ..= pend` -/
theorem mutateSubsectionOps_sub {τ : Type} (nv : Nat) (nb : Option Nat) (s : Slots) (vs : List Nat)
    (hn : vs.Nodup) (hlt : ∀ v ∈ vs, v < nv) (ps pe : Nat) (t : τ)
    (f : FastOps → Op → Nat → τ → Option (Option Op) × τ)
    (hf : ∀ c o q t, SubActOK nv nb vs (some o) (f c o q t).1) (hwf : WF nv nb s)
    (a : Cursor) (m : List (Option Nat)) (hmap : a.subvarMapping = some (m, vs)) (ha : SubCur a vs s ps) :
    (mutateSubsectionOps (canon nv nb s) ps pe t f (some a)).1
        = canon nv nb (subOpsLoopA nv nb vs f ps (min (pe + 1) (growA s pe).length - ps) (growA s pe) t).1 ∧
    (mutateSubsectionOps (canon nv nb s) ps pe t f (some a)).2
        = (subOpsLoopA nv nb vs f ps (min (pe + 1) (growA s pe).length - ps) (growA s pe) t).2 ∧
    WF nv nb (subOpsLoopA nv nb vs f ps (min (pe + 1) (growA s pe).length - ps) (growA s pe) t).1 := by
  have hwf' := WF_growA nv nb s pe hwf
  have ha' : SubCur a vs (growA s pe) ps := ha.growA pe
  unfold mutateSubsectionOps
  simp only [grow_canon]
  rw [hmap]
  simp only [length_canon]
  generalize growA s pe = s' at hwf' ha' ⊢
  -- the initial heap as a `pushMaybe` fold
  have hprels : (a.lastVars.zip a.lastRels).map (fun x => zipOpt x.1 x.2)
      = vs.map (fun v => (prevRel s' v ps).map (fun pr => (pr.p, pr.relv))) := by
    rw [ha'.hv, ha'.hr, List.zip_map', List.map_map]
    apply List.map_congr_left
    intro v _
    exact zipOpt_map_prel _
  have e := initPush_eq (canon nv nb s') (vs.zip ((a.lastVars.zip a.lastRels).map (fun x => zipOpt x.1 x.2))) []
  obtain ⟨PF, hPF⟩ : ∃ PF, PF = (vs.zip ((a.lastVars.zip a.lastRels).map (fun x => zipOpt x.1 x.2))).foldl
      (fun h vp => pushMaybe h (initG (canon nv nb s') vp)) [] := ⟨_, rfl⟩
  rw [← hPF] at e
  have hmemPF : ∀ y, y ∈ PF ↔ ∃ v ∈ vs, firstFrom s' v ps = some y := by
    intro y
    rw [hPF, mem_foldl_pushMaybe, hprels, zip_map_self]
    simp only [List.not_mem_nil, false_or, List.mem_map]
    constructor
    · rintro ⟨vp, ⟨v, hv, rfl⟩, hg⟩
      exact ⟨v, hv, by rw [← initG_canon nv nb s' v (hlt v hv) ps]; exact hg⟩
    · rintro ⟨v, hv, hg⟩
      exact ⟨_, ⟨v, hv, rfl⟩, by rw [initG_canon nv nb s' v (hlt v hv) ps]; exact hg⟩
  have key := subOpsWalk_canon nv nb vs hn hlt f hf pe (s'.length + 1) ps s' PF a t hwf' (by omega)
    (by rw [hPF]; exact sorted_foldl_pushMaybe _ _ _ List.Pairwise.nil)
    (by
      intro x hx
      obtain ⟨v, hv, hx⟩ := (hmemPF x).mp hx
      unfold firstFrom at hx
      rw [nextFrom_some_iff] at hx
      exact ⟨hx.1, v, hv, hx.2.2.1⟩)
    (by
      intro v hv q hq hocc hfirst
      rw [hmemPF]
      refine ⟨v, hv, ?_⟩
      unfold firstFrom
      rw [nextFrom_some_iff]
      exact ⟨hq, by have := occV_lt hocc; omega, hocc, hfirst⟩)
    ha'.tab
  rw [← e] at key
  exact key

end FastOps
end Qmc
