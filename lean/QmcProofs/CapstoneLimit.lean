/-
C01 capstone, the limit `L → ∞` (pure matrix analysis; nothing about the sampler here).

For a real square matrix `A` over a finite index type the partial sums `Σ_{k<L} βᵏ/k! · Aᵏ` converge to the matrix
exponential `NormedSpace.exp (β • A)` (Mathlib's `exp_series_hasSum_exp'`; a matrix norm — the `L∞` operator norm,
`Matrix.Norms.Operator` — is installed ONLY inside the section that needs a normed algebra; every statement is about
the canonical product topology `Matrix.topologicalSpace`, i.e. entrywise convergence).  Then

  * `exp_offset`            `e^{β(C·1 − H)} = e^{βC} • e^{−βH}`   (`Matrix.exp_add_of_commute`, `Matrix.exp_diagonal`)
  * `exp_diag_pos`          the diagonal entries of `e^{A}`, `A` real symmetric, are POSITIVE
                            (`e^{A} = (e^{A/2})ᵀ e^{A/2}`, so they are sums of squares; `e^{A/2}` is invertible, so no
                            column vanishes) — hence `exp_trace_pos`: no hypothesis `Tr e^{−βH} ≠ 0` is ever needed
  * `toReal`, `cast_partial_*`   the entrywise cast `ℚ → ℝ` commutes with the finite Taylor sums of the capstone
  * `marginal_tendsto`, `partition_tendsto`, `marginal_ratio_tendsto`, `mean_n_tendsto`, `energy_tendsto`
                            the rational sequences of `QmcProps/C01Capstone.lean` / `C01.sse_mean_n`, cast to `ℝ`,
                            converge to `e^{βC}⟨α|e^{−βH}|α⟩`, `e^{βC} Tr e^{−βH}`, `⟨α|e^{−βH}|α⟩/Tr e^{−βH}`,
                            `e^{βC}(C Tr e^{−βH} − Tr(H e^{−βH}))`, `Tr(H e^{−βH})/Tr e^{−βH}`.
-/
import Mathlib.Analysis.Normed.Algebra.MatrixExponential
import Mathlib.Analysis.SpecialFunctions.Exponential

open Filter Topology Finset
open NormedSpace (exp)
open scoped Matrix

namespace Qmc.CapstoneLimit

variable {n : Type*} [Fintype n] [DecidableEq n]

/-! ### the Taylor partial sums converge to the matrix exponential -/

/-- `Σ_{k<L} βᵏ/k! · Aᵏ` -/
noncomputable def partialExp (β : ℝ) (A : Matrix n n ℝ) (L : ℕ) : Matrix n n ℝ :=
  ∑ k ∈ range L, (β ^ k / (k.factorial : ℝ)) • A ^ k

section Normed
open scoped Matrix.Norms.Operator

theorem hasSum_taylor (β : ℝ) (A : Matrix n n ℝ) :
    HasSum (fun k : ℕ => (β ^ k / (k.factorial : ℝ)) • A ^ k) (exp (β • A)) := by
  have h := NormedSpace.exp_series_hasSum_exp' (𝕂 := ℝ) (β • A)
  have e : (fun k : ℕ => (β ^ k / (k.factorial : ℝ)) • A ^ k)
      = fun k : ℕ => ((k.factorial : ℝ)⁻¹) • (β • A) ^ k := by
    funext k
    rw [smul_pow, smul_smul, div_eq_inv_mul]
  rw [e]; exact h

end Normed

theorem partialExp_tendsto (β : ℝ) (A : Matrix n n ℝ) :
    Tendsto (partialExp β A) atTop (𝓝 (exp (β • A))) :=
  (hasSum_taylor β A).tendsto_sum_nat

/-- **the degree-`L` Taylor polynomials of `e^{βA}` converge to `e^{βA}`** (product topology = entrywise) -/
theorem taylor_tendsto (β : ℝ) (A : Matrix n n ℝ) :
    Tendsto (fun L => ∑ k ∈ range (L + 1), (β ^ k / (k.factorial : ℝ)) • A ^ k) atTop (𝓝 (exp (β • A))) :=
  (partialExp_tendsto β A).comp (tendsto_add_atTop_nat 1)

theorem taylor_entry_tendsto (β : ℝ) (A : Matrix n n ℝ) (i j : n) :
    Tendsto (fun L => (∑ k ∈ range (L + 1), (β ^ k / (k.factorial : ℝ)) • A ^ k) i j) atTop
      (𝓝 ((exp (β • A)) i j)) :=
  ((continuous_id.matrix_elem i j).tendsto _).comp (taylor_tendsto β A)

theorem taylor_trace_tendsto (β : ℝ) (A : Matrix n n ℝ) :
    Tendsto (fun L => Matrix.trace (∑ k ∈ range (L + 1), (β ^ k / (k.factorial : ℝ)) • A ^ k)) atTop
      (𝓝 (Matrix.trace (exp (β • A)))) :=
  ((continuous_id.matrix_trace).tendsto _).comp (taylor_tendsto β A)

/-! ### the constant offset factors out -/

/-- `e^{c·1 + B} = e^c • e^B` -/
theorem exp_scalar_add (c : ℝ) (B : Matrix n n ℝ) :
    exp (c • (1 : Matrix n n ℝ) + B) = Real.exp c • exp B := by
  have hc : Commute (c • (1 : Matrix n n ℝ)) B := (Commute.one_left B).smul_left c
  rw [Matrix.exp_add_of_commute _ _ hc]
  have h1 : exp (c • (1 : Matrix n n ℝ)) = Real.exp c • (1 : Matrix n n ℝ) := by
    have : c • (1 : Matrix n n ℝ) = Matrix.diagonal (fun _ => c) := by
      ext i j; simp [Matrix.diagonal, Matrix.one_apply]
    rw [this, Matrix.exp_diagonal]
    ext i j
    by_cases h : i = j
    · subst h; simp [Pi.exp_def, Real.exp_eq_exp_ℝ]
    · simp [h]
  rw [h1, smul_mul_assoc, one_mul]

/-- **`e^{β(C·1 − H)} = e^{βC} • e^{−βH}`** -/
theorem exp_offset (β C : ℝ) (H : Matrix n n ℝ) :
    exp (β • (C • (1 : Matrix n n ℝ) - H)) = Real.exp (β * C) • exp (-(β • H)) := by
  rw [← exp_scalar_add]
  congr 1
  rw [smul_sub, smul_smul, sub_eq_add_neg]

/-! ### positivity of the diagonal of the exponential of a real symmetric matrix -/

/-- the diagonal entries of `e^{A}`, `A` real symmetric, are positive -/
theorem exp_diag_pos {A : Matrix n n ℝ} (hA : A.IsSymm) (i : n) : 0 < (exp A) i i := by
  set B : Matrix n n ℝ := exp ((2⁻¹ : ℝ) • A) with hB
  have hBs : B.IsSymm := Matrix.IsSymm.exp (hA.smul _)
  have hAB : exp A = Bᵀ * B := by
    rw [hBs.eq, hB, ← Matrix.exp_add_of_commute _ _ (Commute.refl _), ← add_smul]
    norm_num
  have hdiag : (exp A) i i = ∑ k, B k i * B k i := by
    rw [hAB, Matrix.mul_apply]; simp [Matrix.transpose_apply]
  rw [hdiag]
  have hnn : ∀ k ∈ (Finset.univ : Finset n), 0 ≤ B k i * B k i := fun k _ => mul_self_nonneg _
  rcases (Finset.sum_nonneg hnn).lt_or_eq with h | h
  · exact h
  · exfalso
    have hz : ∀ k, B k i = 0 := fun k => by
      have := (Finset.sum_eq_zero_iff_of_nonneg hnn).mp h.symm k (Finset.mem_univ k)
      exact mul_self_eq_zero.mp this
    have hu : IsUnit B := Matrix.isUnit_exp _
    have hdet : IsUnit B.det := (Matrix.isUnit_iff_isUnit_det _).mp hu
    have hone : (B⁻¹ * B) i i = 1 := by rw [Matrix.nonsing_inv_mul _ hdet, Matrix.one_apply_eq]
    rw [Matrix.mul_apply] at hone
    simp [hz] at hone

/-- `Tr e^{A} > 0` for a real symmetric matrix on a non-empty index type -/
theorem exp_trace_pos [Nonempty n] {A : Matrix n n ℝ} (hA : A.IsSymm) : 0 < Matrix.trace (exp A) := by
  unfold Matrix.trace
  exact Finset.sum_pos (fun i _ => exp_diag_pos hA i) Finset.univ_nonempty

/-! ### the cast `ℚ → ℝ` commutes with the finite sums of the capstone -/

/-- entrywise cast of a rational matrix -/
abbrev toReal (M : Matrix n n ℚ) : Matrix n n ℝ := M.map ((↑) : ℚ → ℝ)

theorem toReal_pow (M : Matrix n n ℚ) (k : ℕ) : toReal (M ^ k) = toReal M ^ k :=
  map_pow (Rat.castHom ℝ).mapMatrix M k

omit [Fintype n] in
theorem toReal_offset (C : ℚ) (H : Matrix n n ℚ) :
    toReal (C • (1 : Matrix n n ℚ) - H) = (C : ℝ) • (1 : Matrix n n ℝ) - toReal H := by
  ext i j
  by_cases h : i = j <;>
    simp [toReal, Matrix.map_apply, Matrix.sub_apply, Matrix.smul_apply, h]

omit [Fintype n] [DecidableEq n] in
theorem toReal_isSymm {H : Matrix n n ℚ} (hH : H.IsSymm) : (toReal H).IsSymm := by
  ext i j
  simp only [Matrix.transpose_apply, Matrix.map_apply]
  rw [← Matrix.IsSymm.apply hH i j]

theorem cast_partial_entry (β : ℚ) (M : Matrix n n ℚ) (L : ℕ) (i j : n) :
    ((∑ k ∈ range L, β ^ k / (k.factorial : ℚ) * (M ^ k) i j : ℚ) : ℝ)
      = (partialExp (β : ℝ) (toReal M) L) i j := by
  unfold partialExp
  rw [Matrix.sum_apply, Rat.cast_sum]
  refine Finset.sum_congr rfl (fun k _ => ?_)
  rw [Matrix.smul_apply, ← toReal_pow, smul_eq_mul]
  simp [Matrix.map_apply]

theorem cast_partial_trace (β : ℚ) (M : Matrix n n ℚ) (L : ℕ) :
    ((∑ k ∈ range L, β ^ k / (k.factorial : ℚ) * Matrix.trace (M ^ k) : ℚ) : ℝ)
      = Matrix.trace (partialExp (β : ℝ) (toReal M) L) := by
  unfold Matrix.trace
  simp only [Matrix.diag_apply]
  rw [← Finset.sum_congr rfl (fun i _ => cast_partial_entry β M L i i), ← Rat.cast_sum, Finset.sum_comm]
  congr 1
  refine Finset.sum_congr rfl (fun k _ => ?_)
  rw [Finset.mul_sum]

theorem cast_partial_trace_succ (β : ℚ) (M : Matrix n n ℚ) (L : ℕ) :
    ((∑ k ∈ range L, β ^ k / (k.factorial : ℚ) * Matrix.trace (M ^ (k + 1)) : ℚ) : ℝ)
      = Matrix.trace (toReal M * partialExp (β : ℝ) (toReal M) L) := by
  unfold partialExp
  rw [Finset.mul_sum, Matrix.trace_sum, Rat.cast_sum]
  refine Finset.sum_congr rfl (fun k _ => ?_)
  rw [Matrix.mul_smul, Matrix.trace_smul, ← pow_succ', ← toReal_pow, smul_eq_mul]
  simp [Matrix.trace, Matrix.map_apply]

/-! ### the rational sequences of the capstone, cast to `ℝ`, and their limits

`M = C·1 − H` (rational), `Hr = toReal H`, `E = e^{−β Hr}`. -/

section Rational
variable (β C : ℚ) (H : Matrix n n ℚ)

theorem exp_toReal_offset :
    exp ((β : ℝ) • toReal (C • (1 : Matrix n n ℚ) - H))
      = Real.exp ((β : ℝ) * (C : ℝ)) • exp (-((β : ℝ) • toReal H)) := by
  rw [toReal_offset, exp_offset]

/-- state marginal: `⟨α|T_L(β(C−H))|α⟩ → e^{βC} ⟨α|e^{−βH}|α⟩` -/
theorem marginal_tendsto (α : n) :
    Tendsto (fun L : ℕ => ((∑ k ∈ range (L + 1), β ^ k / (k.factorial : ℚ)
        * ((C • (1 : Matrix n n ℚ) - H) ^ k) α α : ℚ) : ℝ)) atTop
      (𝓝 (Real.exp ((β : ℝ) * (C : ℝ)) * (exp (-((β : ℝ) • toReal H))) α α)) := by
  have hc : Continuous (fun X : Matrix n n ℝ => X α α) := continuous_id.matrix_elem α α
  have h := (hc.tendsto _).comp
    ((partialExp_tendsto (β : ℝ) (toReal (C • (1 : Matrix n n ℚ) - H))).comp (tendsto_add_atTop_nat 1))
  rw [exp_toReal_offset] at h
  refine h.congr (fun L => ?_)
  exact (cast_partial_entry β _ (L + 1) α α).symm

/-- total mass: `Tr T_L(β(C−H)) → e^{βC} Tr e^{−βH}` -/
theorem partition_tendsto :
    Tendsto (fun L : ℕ => ((∑ k ∈ range (L + 1), β ^ k / (k.factorial : ℚ)
        * Matrix.trace ((C • (1 : Matrix n n ℚ) - H) ^ k) : ℚ) : ℝ)) atTop
      (𝓝 (Real.exp ((β : ℝ) * (C : ℝ)) * Matrix.trace (exp (-((β : ℝ) • toReal H))))) := by
  have hc : Continuous (fun X : Matrix n n ℝ => Matrix.trace X) := continuous_id.matrix_trace
  have h := (hc.tendsto _).comp
    ((partialExp_tendsto (β : ℝ) (toReal (C • (1 : Matrix n n ℚ) - H))).comp (tendsto_add_atTop_nat 1))
  rw [exp_toReal_offset, Matrix.trace_smul, smul_eq_mul] at h
  refine h.congr (fun L => ?_)
  exact (cast_partial_trace β _ (L + 1)).symm

theorem trace_exp_neg_pos [Nonempty n] (hH : H.IsSymm) :
    0 < Matrix.trace (exp (-((β : ℝ) • toReal H))) :=
  exp_trace_pos (((toReal_isSymm hH).smul _).neg)

/-- **normalised marginal**: `⟨α|T_L|α⟩ / Tr T_L → ⟨α|e^{−βH}|α⟩ / Tr e^{−βH}` — the offset cancels -/
theorem marginal_ratio_tendsto [Nonempty n] (hH : H.IsSymm) (α : n) :
    Tendsto (fun L : ℕ =>
        ((∑ k ∈ range (L + 1), β ^ k / (k.factorial : ℚ)
          * ((C • (1 : Matrix n n ℚ) - H) ^ k) α α : ℚ) : ℝ)
        / ((∑ k ∈ range (L + 1), β ^ k / (k.factorial : ℚ)
          * Matrix.trace ((C • (1 : Matrix n n ℚ) - H) ^ k) : ℚ) : ℝ)) atTop
      (𝓝 ((exp (-((β : ℝ) • toReal H))) α α / Matrix.trace (exp (-((β : ℝ) • toReal H))))) := by
  have hZ := trace_exp_neg_pos β H hH
  have he : Real.exp ((β : ℝ) * (C : ℝ)) ≠ 0 := (Real.exp_pos _).ne'
  have h := (marginal_tendsto β C H α).div (partition_tendsto β C H) (mul_ne_zero he hZ.ne')
  rwa [mul_div_mul_left _ _ he] at h

/-- `Σ_{k<L} βᵏ/k! Tr(M^{k+1}) → Tr(M e^{βM}) = e^{βC} (C Tr e^{−βH} − Tr(H e^{−βH}))` -/
theorem mean_n_tendsto :
    Tendsto (fun L : ℕ => ((∑ k ∈ range L, β ^ k / (k.factorial : ℚ)
        * Matrix.trace ((C • (1 : Matrix n n ℚ) - H) ^ (k + 1)) : ℚ) : ℝ)) atTop
      (𝓝 (Real.exp ((β : ℝ) * (C : ℝ))
        * ((C : ℝ) * Matrix.trace (exp (-((β : ℝ) • toReal H)))
            - Matrix.trace (toReal H * exp (-((β : ℝ) • toReal H)))))) := by
  have hc : Continuous (fun X : Matrix n n ℝ => Matrix.trace (toReal (C • (1 : Matrix n n ℚ) - H) * X)) :=
    ((continuous_const (y := toReal (C • (1 : Matrix n n ℚ) - H))).matrix_mul continuous_id).matrix_trace
  have h := (hc.tendsto _).comp
    (partialExp_tendsto (β : ℝ) (toReal (C • (1 : Matrix n n ℚ) - H)))
  have hlim : Matrix.trace (toReal (C • (1 : Matrix n n ℚ) - H)
        * exp ((β : ℝ) • toReal (C • (1 : Matrix n n ℚ) - H)))
      = Real.exp ((β : ℝ) * (C : ℝ))
        * ((C : ℝ) * Matrix.trace (exp (-((β : ℝ) • toReal H)))
            - Matrix.trace (toReal H * exp (-((β : ℝ) • toReal H)))) := by
    rw [exp_toReal_offset, toReal_offset, Matrix.mul_smul, Matrix.trace_smul, sub_mul, Matrix.trace_sub,
      smul_mul_assoc, one_mul, Matrix.trace_smul, smul_eq_mul, smul_eq_mul]
  rw [hlim] at h
  refine h.congr (fun L => ?_)
  exact (cast_partial_trace_succ β _ L).symm

/-- **energy estimator**: `C − ⟨n⟩_L/β → Tr(H e^{−βH}) / Tr e^{−βH}`, `⟨n⟩_L = Σ_k k·βᵏ/k!·Tr(Mᵏ) / Σ_k βᵏ/k!·Tr(Mᵏ)` -/
theorem energy_tendsto [Nonempty n] (hβ : β ≠ 0) (hH : H.IsSymm) :
    Tendsto (fun L : ℕ =>
        (C : ℝ) - ((∑ k ∈ range (L + 1), (k : ℚ) * (β ^ k / (k.factorial : ℚ)
              * Matrix.trace ((C • (1 : Matrix n n ℚ) - H) ^ k)) : ℚ) : ℝ)
            / ((∑ k ∈ range (L + 1), β ^ k / (k.factorial : ℚ)
              * Matrix.trace ((C • (1 : Matrix n n ℚ) - H) ^ k) : ℚ) : ℝ) / (β : ℝ)) atTop
      (𝓝 (Matrix.trace (toReal H * exp (-((β : ℝ) • toReal H)))
        / Matrix.trace (exp (-((β : ℝ) • toReal H))))) := by
  have hZ := trace_exp_neg_pos β H hH
  have he : Real.exp ((β : ℝ) * (C : ℝ)) ≠ 0 := (Real.exp_pos _).ne'
  have hβr : (β : ℝ) ≠ 0 := by exact_mod_cast hβ
  have h := ((mean_n_tendsto β C H).div (partition_tendsto β C H) (mul_ne_zero he hZ.ne')).const_sub (C : ℝ)
  have hlim : (C : ℝ) - Real.exp ((β : ℝ) * (C : ℝ))
        * ((C : ℝ) * Matrix.trace (exp (-((β : ℝ) • toReal H)))
            - Matrix.trace (toReal H * exp (-((β : ℝ) • toReal H))))
        / (Real.exp ((β : ℝ) * (C : ℝ)) * Matrix.trace (exp (-((β : ℝ) • toReal H))))
      = Matrix.trace (toReal H * exp (-((β : ℝ) • toReal H)))
        / Matrix.trace (exp (-((β : ℝ) • toReal H))) := by
    rw [mul_div_mul_left _ _ he]
    field_simp
    ring
  rw [hlim] at h
  refine h.congr (fun L => ?_)
  have hmean : (∑ k ∈ range (L + 1), (k : ℚ) * (β ^ k / (k.factorial : ℚ)
        * Matrix.trace ((C • (1 : Matrix n n ℚ) - H) ^ k)))
      = β * ∑ k ∈ range L, β ^ k / (k.factorial : ℚ)
        * Matrix.trace ((C • (1 : Matrix n n ℚ) - H) ^ (k + 1)) := by
    rw [Finset.sum_range_succ', Finset.mul_sum]
    simp only [Nat.cast_zero, zero_mul, add_zero]
    refine Finset.sum_congr rfl (fun k _ => ?_)
    have hk : ((k + 1).factorial : ℚ) = (k + 1) * k.factorial := by
      rw [Nat.factorial_succ]; push_cast; ring
    have h1 : (k.factorial : ℚ) ≠ 0 := by exact_mod_cast k.factorial_ne_zero
    have h2 : ((k : ℚ) + 1) ≠ 0 := by
      have : (0 : ℚ) ≤ k := Nat.cast_nonneg k
      intro h0; linarith
    rw [hk]; push_cast
    field_simp
    ring
  simp only [Pi.div_apply]
  rw [hmean, Rat.cast_mul]
  congr 1
  rw [mul_div_assoc, mul_div_cancel_left₀ _ hβr]

end Rational

end Qmc.CapstoneLimit
