/-
Whole-timestep theorems, C06/C07/C12 side (namespace `Qmc.Sampler`): one whole `timestep` of the Ising
sampler / of the generic sampler (QmcModel/SamplerCore.lean) keeps the world lines consistent, every
stored operator legal, the container under the cutoff, and re-establishes the cutoff headroom — for
EVERY RNG script; and so does any run (one β per step, one RNG threaded through).

The two spin-only kernels are parameters here with hypotheses stated in QmcProofs/SamplerBridge.lean:
* cluster kernel: `ClusterCert H K` — proved for the exact `clusterUpdate` in QmcProofs/SamplerCluster.lean
  (C09 side; cannot be imported here: `Qmc.maskOp`/`Qmc.maskSlots`/`Qmc.Leg` clash);
* loop kernel: `LoopCert H n LK` — proved here for `Qmc.loopUpdate` (`loopUpdate_loopCert`) and, via
  `stepLoop_eq` (QmcProofs/SamplerLoopEq.lean), for the copy `StepLoop.loopUpdate` the driver runs.
Uses the Refinement theorems: sweep is a `DiagSweepStep` ⇒ `Step`, refresh is a `FreeStep`, a certified
update is a `SpinFlipStep` (QmcProofs/Refinement*.lean), `step_pres` (C06/C07), `nextCutoff_*` (C12).
-/
import QmcModel.SamplerCore
import QmcProofs.SamplerBridge
import QmcProofs.Refinement
import QmcProofs.SamplerLoopEq

namespace Qmc.Sampler
open Qmc Qmc.Refine

/-! ### the model's own refresh / sweep selector are the ones the Refinement theorems talk about -/

theorem hasOps_eq (s : Slots) (v : Nat) : hasOps s v = Refine.hasOps s v := rfl

theorem refreshAux_eq (s : Slots) : ∀ (v : Nat) (st : List Bool) (rs : RS),
    refreshAux s v st rs = Refine.refreshAux s v st rs
  | _, [], _ => rfl
  | v, x :: t, rs => by
    unfold refreshAux Refine.refreshAux
    rw [hasOps_eq]
    split
    · simp only [refreshAux_eq s (v + 1) t]
    · simp only [refreshAux_eq s (v + 1) t]

/-- the free-spin refresh of the whole-step model is the function `Refine.freeRefresh` -/
theorem freeRefresh_eq (c : Config) (rs : RS) : freeRefresh c rs = Refine.freeRefresh c rs := by
  unfold freeRefresh Refine.freeRefresh
  rw [refreshAux_eq]

theorem diagUpdate_eq (H : Ham) (bw : Option BW) (β : Rat) (L : Nat) (c : Config) (rs : RS) :
    diagUpdate H bw β L c rs = Refine.diagUpdate H bw β L c rs := by
  cases bw <;> rfl

/-! ### from C07's `Legal` to the neutral hypotheses of the cluster certificate -/

theorem shape_of_legal (H : Ham) (n : Nat) (hH : HamWF H n) (c : Config) (hn : c.state.length = n)
    (hl : Legal H c) : Shape c := by
  intro o ho
  obtain ⟨hb, hv, _, _, hwf, _⟩ := hl o ho
  refine ⟨hwf.1, hwf.2.1, hwf.2.2.1, ?_⟩
  intro v hvm
  rw [hv] at hvm
  rw [hn]
  exact (hH _ hb).2 v hvm

theorem storedOk_of_legal (H : Ham) (c : Config) (hl : Legal H c) : StoredOk H c := by
  intro o ho
  obtain ⟨hb, hv, hc, _, _, hw⟩ := hl o ho
  exact ⟨hb, hv, hc, hw⟩

/-- a certified cluster kernel is an admissible middle part of the time step -/
theorem clusterCert_midOK (H : Ham) (n : Nat) (hH : HamWF H n) (K : Config → RS → Config × RS)
    (hK : ClusterCert H K) : MidOK H n K :=
  certifiedUpdate_midOK H n K fun c rs hn _ hl =>
    hK c rs (shape_of_legal H n hH c hn hl) (storedOk_of_legal H c hl)

/-! ### what a spin-only stage keeps -/

theorem countOps_of_sameSkeleton {b a : Slots} (h : SameSkeleton b a) : countOps a = countOps b := by
  rw [← countOcc_occ, ← countOcc_occ, sameSkeleton_occ h]

/-- a `SpinFlipStep` that keeps the weights positive keeps all invariants, the container length and
the operator count -/
theorem flipStage_pres (H : Ham) (n : Nat) (hH : HamWF H n) (c a : Config) (hn : c.state.length = n)
    (hc : Consistent c) (hl : Legal H c) (h1 : SpinFlipStep c a) (h2 : FlipKeepsWeight H c.slots a.slots) :
    a.state.length = n ∧ Consistent a ∧ Legal H a ∧ a.slots.length = c.slots.length ∧
    countOps a.slots = countOps c.slots := by
  obtain ⟨c1, l1, n1⟩ := Qmc.step_pres H n hH c a (Step.flip h1 h2) hn hc hl
  exact ⟨n1, c1, l1, sameSkeleton_length h1.2.1, countOps_of_sameSkeleton h1.2.1⟩

theorem refreshStage_pres (H : Ham) (n : Nat) (hH : HamWF H n) (c : Config) (rs : RS)
    (hn : c.state.length = n) (hc : Consistent c) (hl : Legal H c) :
    (freeRefresh c rs).1.state.length = n ∧ Consistent (freeRefresh c rs).1 ∧ Legal H (freeRefresh c rs).1 ∧
    (freeRefresh c rs).1.slots = c.slots := by
  rw [freeRefresh_eq]
  obtain ⟨c1, l1, n1⟩ := Qmc.step_pres H n hH c _ (freeRefresh_is_step H n hH c rs hn hl) hn hc hl
  exact ⟨n1, c1, l1, rfl⟩

theorem diagStage_pres (H : Ham) (n : Nat) (hH : HamWF H n) (bw : Option BW) (β : Rat)
    (hd : DiagOK H bw β) (L : Nat) (c : Config) (rs : RS) (hn : c.state.length = n)
    (hfit : c.slots.length ≤ L) (hc : Consistent c) (hl : Legal H c) :
    (diagUpdate H bw β L c rs).1.state.length = n ∧ Consistent (diagUpdate H bw β L c rs).1 ∧
    Legal H (diagUpdate H bw β L c rs).1 ∧ (diagUpdate H bw β L c rs).1.slots.length = L := by
  rw [diagUpdate_eq]
  have h1 : Step H c (Refine.diagUpdate H bw β L c rs).1 :=
    Step.diag L hfit (diagUpdate_is_diagSweepStep H bw β hd _ _ _)
  obtain ⟨c1, l1, n1⟩ := Qmc.step_pres H n hH _ _ h1 hn hc hl
  refine ⟨n1, c1, l1, ?_⟩
  rw [diagUpdate_length]
  omega

/-! ### the Ising sampler -/

/-- the invariant of an Ising sampler between two `timestep`s -/
structure IsingInv (s : IsingSampler) : Prop where
  /-- edges join two different variables below `nvars` -/
  valid : s.spec.Valid
  gamma : 0 ≤ s.spec.gamma
  /-- the heat-bath table, if any, is non-negative and not longer than the bond list (true of the table
  `set_enable_heatbath` builds: `makeBondWeights_tableOK`) -/
  table : ∀ t, s.table = some t → TableOK s.spec.ham t
  len : s.state.length = s.spec.nvars
  /-- the container is not longer than the cutoff (C12's `CSampler.Inv`; the sweep covers the whole string) -/
  fits : s.slots.length ≤ s.cutoff
  cons : Consistent s.cfg
  legal : Legal s.spec.ham s.cfg

theorem IsingInv.diagOK {s : IsingSampler} (h : IsingInv s) (β : Rat) : DiagOK s.spec.ham s.table β := by
  cases ht : s.table with
  | none => exact ising_metroSigns s.spec h.gamma β
  | some t => exact h.table t ht

/-- one whole Ising `timestep` is the parametrised sampler step of QmcProofs/RefinementSampler.lean with
the cluster kernel in the middle; the model parameters and the table are not touched -/
theorem isingTimestepWith_eq (CK : ClusterK) (s : IsingSampler) (β : Rat) (rs : RS) :
    let r := isingTimestepWith CK s β rs
    let q := samplerStepWith (CK (1 / 2) s.frozenBond) s.spec.ham s.table β ⟨s.cutoff, s.cfg⟩ rs
    r.1.cutoff = q.1.cutoff ∧ r.1.cfg = q.1.cfg ∧ r.2 = q.2 ∧ r.1.spec = s.spec ∧ r.1.table = s.table := by
  refine ⟨?_, ?_, ?_, ?_, ?_⟩ <;>
    simp [isingTimestepWith, samplerStepWith, freeRefresh_eq, diagUpdate_eq, IsingSampler.cfg]

/-- **`isingTimestepWith_pres`** — from a consistent, legal sampler state whose container fits under the
cutoff, for EVERY β, EVERY script and every certified cluster kernel, the state after one whole
`timestep` (sweep with the old cutoff ; cluster update ; free-spin refresh ; cutoff rule) satisfies the
same invariant, has a free slot (`n < cutoff'`), the headroom `n + n/2 + 1 ≤ cutoff'`, and the cutoff did
not decrease. -/
theorem isingTimestepWith_pres (CK : ClusterK) (s : IsingSampler) (β : Rat) (rs : RS) (h : IsingInv s)
    (hCK : ClusterCert s.spec.ham (CK (1 / 2) s.frozenBond)) :
    let r := isingTimestepWith CK s β rs
    IsingInv r.1 ∧ r.1.n < r.1.cutoff ∧ r.1.n + r.1.n / 2 + 1 ≤ r.1.cutoff ∧ s.cutoff ≤ r.1.cutoff := by
  intro r
  have hH := s.spec.hamWF h.valid
  obtain ⟨e1, e2, _, e4, e5⟩ := isingTimestepWith_eq CK s β rs
  obtain ⟨_, _, _, _, n3, i3, c3, l3⟩ :=
    samplerStep_spec (CK (1 / 2) s.frozenBond) s.spec.ham s.spec.nvars hH
      (clusterCert_midOK _ _ hH _ hCK) s.table β (h.diagOK β) ⟨s.cutoff, s.cfg⟩ rs h.len h.fits h.cons h.legal
  have hcut : r.1.cutoff = nextCutoff s.cutoff r.1.n := rfl
  refine ⟨⟨?_, ?_, ?_, ?_, ?_, ?_, ?_⟩, ?_, ?_, ?_⟩
  · rw [e4]; exact h.valid
  · rw [e4]; exact h.gamma
  · rw [e4, e5]; exact h.table
  · rw [e4]; have : r.1.state = r.1.cfg.state := rfl
    rw [this, e2]; exact n3
  · have : r.1.slots = r.1.cfg.slots := rfl
    rw [this, e2, e1]; exact i3
  · rw [e2]; exact c3
  · rw [e4, e2]; exact l3
  · rw [hcut]; exact nextCutoff_gt_n _ _
  · rw [hcut]; exact nextCutoff_margin _ _
  · rw [hcut]; exact nextCutoff_ge_left _ _

theorem isingTimestepWith_frozen (CK : ClusterK) (s : IsingSampler) (β : Rat) (rs : RS) :
    (isingTimestepWith CK s β rs).1.frozenBond = s.frozenBond := rfl

/-- **`isingTraceWith_inv`** — the run version, "after every step": for any list of βs and any script,
every sampler of the trace satisfies the invariant, has `n < cutoff`, the headroom, and a cutoff not
below the starting one. By induction over the list of βs. -/
theorem isingTraceWith_inv (CK : ClusterK) : ∀ (βs : List Rat) (s : IsingSampler) (rs : RS), IsingInv s →
    ClusterCert s.spec.ham (CK (1 / 2) s.frozenBond) →
    ∀ t ∈ isingTraceWith CK βs s rs,
      IsingInv t ∧ t.n < t.cutoff ∧ t.n + t.n / 2 + 1 ≤ t.cutoff ∧ s.cutoff ≤ t.cutoff
  | [], _, _, _, _, t, ht => by simp [isingTraceWith] at ht
  | β :: βs, s, rs, h, hCK, t, ht => by
    obtain ⟨i1, i2, i3, i4⟩ := isingTimestepWith_pres CK s β rs h hCK
    simp only [isingTraceWith, List.mem_cons] at ht
    rcases ht with rfl | ht
    · exact ⟨i1, i2, i3, i4⟩
    · have hCK' : ClusterCert (isingTimestepWith CK s β rs).1.spec.ham
          (CK (1 / 2) (isingTimestepWith CK s β rs).1.frozenBond) := hCK
      obtain ⟨j1, j2, j3, j4⟩ := isingTraceWith_inv CK βs _ _ i1 hCK' t ht
      exact ⟨j1, j2, j3, Nat.le_trans i4 j4⟩

/-- **`isingRunWith_inv`** — the sampler at the end of any run -/
theorem isingRunWith_inv (CK : ClusterK) : ∀ (βs : List Rat) (s : IsingSampler) (rs : RS), IsingInv s →
    ClusterCert s.spec.ham (CK (1 / 2) s.frozenBond) →
    IsingInv (isingRunWith CK βs s rs).1 ∧ s.cutoff ≤ (isingRunWith CK βs s rs).1.cutoff ∧
    (βs ≠ [] → (isingRunWith CK βs s rs).1.n < (isingRunWith CK βs s rs).1.cutoff ∧
      (isingRunWith CK βs s rs).1.n + (isingRunWith CK βs s rs).1.n / 2 + 1 ≤ (isingRunWith CK βs s rs).1.cutoff)
  | [], s, _, h, _ => ⟨h, Nat.le_refl _, fun hne => absurd rfl hne⟩
  | [β], s, rs, h, hCK => by
    obtain ⟨i1, i2, i3, i4⟩ := isingTimestepWith_pres CK s β rs h hCK
    exact ⟨i1, i4, fun _ => ⟨i2, i3⟩⟩
  | β :: β' :: βs, s, rs, h, hCK => by
    obtain ⟨i1, _, _, i4⟩ := isingTimestepWith_pres CK s β rs h hCK
    have hCK' : ClusterCert (isingTimestepWith CK s β rs).1.spec.ham
        (CK (1 / 2) (isingTimestepWith CK s β rs).1.frozenBond) := hCK
    obtain ⟨j1, j2, j3⟩ := isingRunWith_inv CK (β' :: βs) _ (isingTimestepWith CK s β rs).2 i1 hCK'
    exact ⟨j1, Nat.le_trans i4 j2, fun _ => j3 (by simp)⟩

/-! ### the generic sampler -/

/-- the walk of a loop update closed (`Refine.LoopClosed`, = `C04.LoopClosed`) -/
abbrev Closed (rs : RS) : Prop := rs.panicked = false ∧ rs.short = false

/-- what the loop kernel has to deliver: whenever the walk closed, a spin-only update that keeps the
world lines periodic and every matrix element positive (for `Qmc.loopUpdate`: `loopUpdate_loopCert`) -/
def LoopCert (H : Ham) (n : Nat) (LK : LoopK) : Prop :=
  ∀ c rs, c.state.length = n → Consistent c → Legal H c → Closed (LK H.w c rs).2 →
    SpinFlipStep c (LK H.w c rs).1 ∧ FlipKeepsWeight H c.slots (LK H.w c rs).1.slots

/-- C04's exact loop update is such a kernel, for every Hamiltonian (QmcProofs/Refinement.lean,
QmcProofs/LoopConsistent.lean) -/
theorem loopUpdate_loopCert (H : Ham) (n : Nat) : LoopCert H n Qmc.loopUpdate := by
  intro c rs _ hc hl hcl
  exact ⟨(loopUpdate_is_step H c rs hc hl hcl).1, (loopUpdate_sameSkeleton H c rs hl).2⟩

/-- the invariant of a generic sampler between two `timestep`s (`n` = number of variables) -/
structure GenericInv (s : GenericSampler) (n : Nat) : Prop where
  wf : HamWF s.ham n
  /-- diagonal weights are non-negative (the constructors reject negative entries: C16) -/
  nonneg : ∀ b, b < s.ham.nbonds → ∀ st, 0 ≤ s.ham.w b st st
  table : ∀ t, s.table = some t → TableOK s.ham t
  len : s.state.length = n
  fits : s.slots.length ≤ s.cutoff
  cons : Consistent s.cfg
  legal : Legal s.ham s.cfg

theorem GenericInv.diagOK {s : GenericSampler} {n : Nat} (h : GenericInv s n) (β : Rat) :
    DiagOK s.ham s.tableUsed β := by
  unfold GenericSampler.tableUsed GenericSampler.tableAfter
  by_cases hb : s.doHeatbath = true
  · rw [if_pos hb, if_pos hb]
    cases ht : s.table with
    | none => exact makeBondWeights_tableOK s.ham
    | some t => exact h.table t ht
  · rw [if_neg hb]
    exact Or.inr h.nonneg

theorem GenericInv.tableAfter {s : GenericSampler} {n : Nat} (h : GenericInv s n) :
    ∀ t, s.tableAfter = some t → TableOK s.ham t := by
  intro t ht
  unfold GenericSampler.tableAfter at ht
  by_cases hb : s.doHeatbath = true
  · rw [if_pos hb] at ht
    cases hs : s.table with
    | none => rw [hs] at ht; cases ht; exact makeBondWeights_tableOK s.ham
    | some t' =>
      rw [hs] at ht
      have e : t' = t := by simpa using ht
      subst e
      exact h.table _ hs
  · rw [if_neg hb] at ht; exact h.table t ht

/-- **`genericTimestepWith_pres`** — one whole `Qmc::timestep` (`diagonal_update` incl. lazily built
table and cutoff rule ; [loop update] ; [cluster update] ; `flip_free_bits`) keeps the invariant and
re-establishes `n < cutoff'`, the headroom, cutoff monotone — for every β and script, any certified
cluster kernel, any loop kernel satisfying `LoopCert`, PROVIDED the loop update of this step closed
(`hclosed`; needed: an unclosed walk leaves two open world-line ends, C04's counter-example). -/
theorem genericTimestepWith_pres (LK : LoopK) (CK : ClusterK) (s : GenericSampler) (n : Nat) (β : Rat)
    (rs : RS) (h : GenericInv s n) (hLK : LoopCert s.ham n LK)
    (hCK : ClusterCert s.ham (CK (1 / 2) fun _ => false))
    (hclosed : s.doLoop = true → Closed (genericLoopStage LK s β rs).2) :
    let r := genericTimestepWith LK CK s β rs
    GenericInv r.1 n ∧ r.1.n < r.1.cutoff ∧ r.1.n + r.1.n / 2 + 1 ≤ r.1.cutoff ∧ s.cutoff ≤ r.1.cutoff ∧
    r.1.bonds = s.bonds ∧ r.1.doLoop = s.doLoop := by
  intro r
  have hH := h.wf
  -- stage 1: diagonal_update
  obtain ⟨n1, c1, l1, len1⟩ := diagStage_pres s.ham n hH s.tableUsed β (h.diagOK β) s.cutoff s.cfg rs
    h.len h.fits h.cons h.legal
  -- stage 2: loop update (or nothing)
  have st2 : (genericLoopStage LK s β rs).1.state.length = n ∧ Consistent (genericLoopStage LK s β rs).1 ∧
      Legal s.ham (genericLoopStage LK s β rs).1 ∧
      (genericLoopStage LK s β rs).1.slots.length = s.cutoff ∧
      countOps (genericLoopStage LK s β rs).1.slots = countOps (diagUpdate s.ham s.tableUsed β s.cutoff s.cfg rs).1.slots := by
    by_cases hl : s.doLoop = true
    · have hcl := hclosed hl
      have e : genericLoopStage LK s β rs
          = LK s.ham.w (diagUpdate s.ham s.tableUsed β s.cutoff s.cfg rs).1
              (diagUpdate s.ham s.tableUsed β s.cutoff s.cfg rs).2 := by
        unfold genericLoopStage genericDiagonalUpdate
        simp only [hl, if_true]
        rfl
      rw [e] at hcl ⊢
      obtain ⟨f1, f2⟩ := hLK _ _ n1 c1 l1 hcl
      obtain ⟨a1, a2, a3, a4, a5⟩ := flipStage_pres s.ham n hH _ _ n1 c1 l1 f1 f2
      exact ⟨a1, a2, a3, by rw [a4, len1], a5⟩
    · have e : genericLoopStage LK s β rs
          = ((diagUpdate s.ham s.tableUsed β s.cutoff s.cfg rs).1,
              (diagUpdate s.ham s.tableUsed β s.cutoff s.cfg rs).2) := by
        unfold genericLoopStage genericDiagonalUpdate
        simp only [hl]
        rfl
      rw [e]
      exact ⟨n1, c1, l1, len1, rfl⟩
  obtain ⟨n2, c2, l2, len2, cnt2⟩ := st2
  -- stage 3: cluster update (or nothing)
  let m : Config × RS :=
    if (genericDiagonalUpdate s β rs).1.shouldCluster then
      CK (1 / 2) (fun _ => false) (genericLoopStage LK s β rs).1 (genericLoopStage LK s β rs).2
    else genericLoopStage LK s β rs
  have st3 : m.1.state.length = n ∧ Consistent m.1 ∧ Legal s.ham m.1 ∧ m.1.slots.length = s.cutoff ∧
      countOps m.1.slots = countOps (diagUpdate s.ham s.tableUsed β s.cutoff s.cfg rs).1.slots := by
    by_cases hg : (genericDiagonalUpdate s β rs).1.shouldCluster = true
    · have e : m = CK (1 / 2) (fun _ => false) (genericLoopStage LK s β rs).1 (genericLoopStage LK s β rs).2 := by
        simp only [m, hg, if_true]
      rw [e]
      obtain ⟨f1, f2⟩ := clusterCert_midOK s.ham n hH _ hCK _ (genericLoopStage LK s β rs).2 n2 c2 l2
      obtain ⟨a1, a2, a3, a4, a5⟩ := flipStage_pres s.ham n hH _ _ n2 c2 l2 f1 f2
      exact ⟨a1, a2, a3, by rw [a4, len2], by rw [a5, cnt2]⟩
    · have e : m = genericLoopStage LK s β rs := by simp only [m, hg]; rfl
      rw [e]
      exact ⟨n2, c2, l2, len2, cnt2⟩
  obtain ⟨n3, c3, l3, len3, cnt3⟩ := st3
  -- stage 4: flip_free_bits
  obtain ⟨n4, c4, l4, sl4⟩ := refreshStage_pres s.ham n hH m.1 m.2 n3 c3 l3
  have hr : r.1 = (genericDiagonalUpdate s β rs).1.withCfg (freeRefresh m.1 m.2).1 := rfl
  have hcut : r.1.cutoff = nextCutoff s.cutoff (countOps (diagUpdate s.ham s.tableUsed β s.cutoff s.cfg rs).1.slots) := rfl
  have hslots : r.1.slots = m.1.slots := by rw [hr]; exact sl4
  have hn : r.1.n = countOps (diagUpdate s.ham s.tableUsed β s.cutoff s.cfg rs).1.slots := by
    unfold GenericSampler.n; rw [hslots, cnt3]
  have hcfg : r.1.cfg = (freeRefresh m.1 m.2).1 := rfl
  have hham : r.1.ham = s.ham := rfl
  refine ⟨⟨?_, ?_, ?_, ?_, ?_, ?_, ?_⟩, ?_, ?_, ?_, rfl, rfl⟩
  · rw [hham]; exact hH
  · rw [hham]; exact h.nonneg
  · rw [hham]; exact h.tableAfter
  · exact n4
  · rw [hslots, len3, hcut]; exact nextCutoff_ge_left _ _
  · rw [hcfg]; exact c4
  · rw [hham, hcfg]; exact l4
  · rw [hcut, hn]; exact nextCutoff_gt_n _ _
  · rw [hcut, hn]; exact nextCutoff_margin _ _
  · rw [hcut]; exact nextCutoff_ge_left _ _

/-- **`genericRunWith_inv`** — the run version by induction over any list of βs and any script, under the
hypothesis that every loop update of the run closed (`GenericLoopsClosed`, QmcModel/SamplerCore.lean) -/
theorem genericRunWith_inv (LK : LoopK) (CK : ClusterK) (n : Nat) :
    ∀ (βs : List Rat) (s : GenericSampler) (rs : RS), GenericInv s n → LoopCert s.ham n LK →
    ClusterCert s.ham (CK (1 / 2) fun _ => false) → GenericLoopsClosed LK CK βs s rs →
    ∀ t ∈ genericTraceWith LK CK βs s rs,
      GenericInv t n ∧ t.n < t.cutoff ∧ t.n + t.n / 2 + 1 ≤ t.cutoff ∧ s.cutoff ≤ t.cutoff
  | [], _, _, _, _, _, _, t, ht => by simp [genericTraceWith] at ht
  | β :: βs, s, rs, h, hLK, hCK, hcl, t, ht => by
    obtain ⟨hcl1, hcl2⟩ := hcl
    obtain ⟨i1, i2, i3, i4, i5, _⟩ := genericTimestepWith_pres LK CK s n β rs h hLK hCK hcl1
    simp only [genericTraceWith, List.mem_cons] at ht
    rcases ht with rfl | ht
    · exact ⟨i1, i2, i3, i4⟩
    · have hham : (genericTimestepWith LK CK s β rs).1.ham = s.ham := rfl
      obtain ⟨j1, j2, j3, j4⟩ := genericRunWith_inv LK CK n βs _ _ i1 (by rw [hham]; exact hLK)
        (by rw [hham]; exact hCK) hcl2 t ht
      exact ⟨j1, j2, j3, Nat.le_trans i4 j4⟩

/-! ### examples (non-vacuity): the 3-variable Ising sampler of the Refinement examples -/

/-- `spec3` (edge (0,1) J = 1, Γ = 1/2, h = 1/4), configuration `exB`, cutoff 5, heat bath on or off -/
def exIsing (hb : Bool) : IsingSampler :=
  (IsingSampler.mk spec3 exB.state exB.slots 5 none).setEnableHeatbath hb

theorem exIsing_inv (hb : Bool) : IsingInv (exIsing hb) where
  valid := spec3_valid
  gamma := by norm_num [exIsing, IsingSampler.setEnableHeatbath, spec3]
  table := by
    intro t ht
    cases hb
    · simp [exIsing, IsingSampler.setEnableHeatbath] at ht
    · simp only [exIsing, IsingSampler.setEnableHeatbath, if_true, Option.some.injEq] at ht
      subst ht
      exact makeBondWeights_tableOK _
  len := rfl
  fits := by cases hb <;> decide
  cons := exB_consistent
  legal := exB_legal

/-- every run of whole time steps from it — any βs, any script, heat bath on or off, any cluster kernel
carrying the certificate (for the exact `clusterUpdate`: `ising_clusterCert`, QmcProofs/SamplerCluster.lean) -/
example (hb : Bool) (CK : ClusterK) (hCK : ClusterCert spec3.ham (CK (1 / 2) (exIsing hb).frozenBond))
    (βs : List Rat) (ws : List Nat) :
    ∀ t ∈ isingTraceWith CK βs (exIsing hb) (RS.ofScript ws),
      IsingInv t ∧ t.n < t.cutoff ∧ t.n + t.n / 2 + 1 ≤ t.cutoff ∧ 5 ≤ t.cutoff :=
  isingTraceWith_inv CK βs _ _ (exIsing_inv hb) hCK

/-- the copy of the loop update the whole-step model and `drv_step` run (`loopK`, QmcModel/Sampler.lean)
satisfies the loop hypothesis, because it IS C04's `loopUpdate` (`stepLoop_eq`) -/
theorem loopK_stepOK (H : Ham) (n : Nat) : LoopCert H n StepLoop.loopUpdate := by
  rw [stepLoop_funext]; exact loopUpdate_loopCert H n

/-! ### example (non-vacuity), generic sampler: two variables, a constant single-site term (cluster edge)
and a symmetric diagonal two-site term, loop updates on, empty string, cutoff 2 -/

theorem gbond_w_nonneg (b : GBond) (h : ∀ x ∈ b.mat, 0 ≤ x) (i o : List Bool) : 0 ≤ b.w i o := by
  have hg : ∀ k, 0 ≤ b.mat.getD k 0 := by
    intro k
    rw [List.getD_eq_getElem?_getD]
    cases hk : b.mat[k]? with
    | none => exact Rat.le_refl
    | some x => exact h x (List.mem_of_getElem? hk)
  unfold GBond.w
  split
  · exact Rat.le_refl
  · split
    · split <;> exact hg _
    · split
      · exact hg _
      · exact Rat.le_refl

theorem genericHam_nonneg (bs : List GBond) (h : ∀ b ∈ bs, ∀ x ∈ b.mat, 0 ≤ x) (b : Nat) (i o : List Bool) :
    0 ≤ (genericHam bs).w b i o := by
  simp only [genericHam]
  cases hb : bs[b]? with
  | none => exact Rat.le_refl
  | some g => exact gbond_w_nonneg g (h g (List.mem_of_getElem? hb)) i o

def exGeneric : GenericSampler :=
  ((GenericSampler.new [false, true] true).addInteraction ⟨true, [0], [1 / 2, 1 / 2, 1 / 2, 1 / 2]⟩).addInteraction
    ⟨false, [0, 1], [1, 0, 0, 1]⟩

theorem exGeneric_inv : GenericInv exGeneric 2 where
  wf := hamWFB_sound _ _ (by decide)
  nonneg := fun b _ st => genericHam_nonneg _ (by
    intro g hg x hx
    simp only [exGeneric, GenericSampler.addInteraction, GenericSampler.new, List.nil_append, List.cons_append,
      List.mem_cons, List.not_mem_nil, or_false] at hg
    rcases hg with rfl | rfl <;> simp only [List.mem_cons, List.not_mem_nil, or_false] at hx <;>
      rcases hx with rfl | rfl | rfl | rfl <;> norm_num) b st st
  table := by intro t ht; simp [exGeneric, GenericSampler.addInteraction, GenericSampler.new] at ht
  len := rfl
  fits := by decide
  cons := by decide
  legal := by intro o ho; simp [exGeneric, GenericSampler.addInteraction, GenericSampler.new, GenericSampler.cfg] at ho

/-- the gate is open on this sampler: loop update AND cluster update both run in every step -/
example : exGeneric.doLoop = true ∧ exGeneric.shouldCluster = true := by decide +kernel

/-- every run of whole generic time steps from it with the loop update of the model, any certified cluster
kernel, any βs and script on which the loop updates closed -/
example (CK : ClusterK) (hCK : ClusterCert exGeneric.ham (CK (1 / 2) fun _ => false)) (βs : List Rat) (ws : List Nat)
    (hcl : GenericLoopsClosed StepLoop.loopUpdate CK βs exGeneric (RS.ofScript ws)) :
    ∀ t ∈ genericTraceWith StepLoop.loopUpdate CK βs exGeneric (RS.ofScript ws),
      GenericInv t 2 ∧ t.n < t.cutoff ∧ t.n + t.n / 2 + 1 ≤ t.cutoff ∧ 2 ≤ t.cutoff :=
  genericRunWith_inv _ CK 2 βs _ _ exGeneric_inv (loopK_stepOK _ _) hCK hcl

end Qmc.Sampler
