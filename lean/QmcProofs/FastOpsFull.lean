/-
C11, assembly (Appendix B step 6): growth, and the public mutations on the canonical container.
-/
import QmcProofs.FastOpsFill

namespace Qmc

theorem occV_append_none (s : Slots) (k v : Nat) : occVAt (s ++ List.replicate k none) v = occVAt s v := by
  funext q; unfold occVAt; rw [FastOps.slotAt_append_none]

theorem relAt_append_none (s : Slots) (k v : Nat) : relAt (s ++ List.replicate k none) v = relAt s v := by
  funext q; unfold relAt; rw [FastOps.slotAt_append_none]

theorem getNvars_canon (nv : Nat) (nb : Option Nat) (s : Slots) : (canon nv nb s).getNvars = nv := by
  simp [FastOps.getNvars, canon]

theorem nbonds_canon (nv : Nat) (nb : Option Nat) (s : Slots) : (canon nv nb s).nbonds = nb := by
  cases nb <;> simp [FastOps.nbonds, canon]

theorem inv_canon (nv : Nat) (nb : Option Nat) (s : Slots) (h : WF nv nb s) : Inv (canon nv nb s) := by
  unfold Inv
  rw [getNvars_canon, nbonds_canon, abs_canon]
  exact ⟨rfl, h⟩

theorem WF_growA (nv : Nat) (nb : Option Nat) (s : Slots) (k : Nat) (h : WF nv nb s) : WF nv nb (growA s k) := by
  unfold growA
  split
  · intro q op hq
    rw [FastOps.slotAt_append_none] at hq
    exact h q op hq
  · exact h

namespace FastOps

theorem grow_canon (nv : Nat) (nb : Option Nat) (s : Slots) (k : Nat) :
    (canon nv nb s).grow k = canon nv nb (growA s k) := by
  have hG : GInv nb (canon nv nb s) := by unfold GInv; rw [abs_canon, canon_g]
  obtain ⟨h1, h2⟩ := grow_global hG k
  rw [abs_canon] at h2
  unfold GInv at h1
  rw [h2] at h1
  apply eq_of_g_v
  · rw [h1, canon_g]
  · intro q
    unfold grow growA
    simp only [length_canon]
    split
    · simp only [nfv, getNode_append_none, getNode_canon, FastOps.slotAt_append_none]
      cases slotAt s q with
      | none => rfl
      | some op =>
        simp only [Option.map_some, canonNode]
        congr 1
        apply List.map_congr_left
        intro w _
        unfold nextRel
        rw [occV_append_none, relAt_append_none]
        have hout : ∀ j, s.length ≤ j → occVAt s w j = false := by
          intro j hj
          cases h : occVAt s w j with
          | false => rfl
          | true => have := occV_lt h; omega
        have hL : s.length ≤ (s ++ List.replicate (k - s.length) none).length := by simp
        have := nextOcc_extend (P := occVAt s w) (q := q) hL hout
        rw [this]
    · rfl
  · intro q
    unfold grow growA
    simp only [length_canon]
    split
    · simp only [pfv, getNode_append_none, getNode_canon, FastOps.slotAt_append_none]
      cases slotAt s q with
      | none => rfl
      | some op =>
        simp only [Option.map_some, canonNode]
        congr 1
        apply List.map_congr_left
        intro w _
        unfold prevRel
        rw [occV_append_none, relAt_append_none]
    · rfl
  · unfold grow growA
    simp only [length_canon]
    split
    · simp only [canon]
      apply List.map_congr_left
      intro w _
      unfold canonVarEnd firstRel lastRel
      rw [occV_append_none, relAt_append_none]
      have hout : ∀ j, s.length ≤ j → occVAt s w j = false := by
        intro j hj
        cases h : occVAt s w j with
        | false => rfl
        | true => have := occV_lt h; omega
      have hL : s.length ≤ (s ++ List.replicate (k - s.length) none).length := by simp
      have e1 := firstOcc_extend (P := occVAt s w) hL hout
      have e2 := lastOcc_extend (P := occVAt s w) hL hout
      rw [e1, e2]
    · rfl

/-- `mutate_p` through a freshly filled cursor -/
theorem setSlot_canon (nv : Nat) (nb : Option Nat) (s : Slots) (p : Nat) (new : Option Op)
    (hwf : WF nv nb s) (hpL : p < s.length) (hnew : ActOK nv nb (some new)) :
    (mutatePWith (canon nv nb s) p (some new)
      ((canon nv nb s).fillArgsAtP p (canon nv nb s).getEmptyArgsAll)).1 = canon nv nb (s.set p new) := by
  rw [fillArgsAtP_canon nv nb s p hwf, mutatePWith_canon nv nb s p _ (some new) hpL hwf hnew]
  rfl

/-- `mutate_subsection(pstart, pend, t, f, None)` -/
theorem mutateSubsection_canon {τ : Type} (nv : Nat) (nb : Option Nat) (s : Slots) (ps pe : Nat) (t : τ)
    (f : FastOps → Option Op → τ → Option (Option Op) × τ) (hwf : WF nv nb s) (hle : ps ≤ pe)
    (hf : ∀ c o t, ActOK nv nb (f c o t).1) :
    (mutateSubsection (canon nv nb s) ps pe t f none).1
        = canon nv nb (sweepLoopA nv nb f ps (pe - ps) (growA s pe) t).1 ∧
      (mutateSubsection (canon nv nb s) ps pe t f none).2
        = (sweepLoopA nv nb f ps (pe - ps) (growA s pe) t).2 ∧
      WF nv nb (sweepLoopA nv nb f ps (pe - ps) (growA s pe) t).1 := by
  unfold mutateSubsection
  simp only [grow_canon]
  have hwf' := WF_growA nv nb s pe hwf
  rw [fillArgsAtP_canon nv nb (growA s pe) ps hwf']
  have hlen : ps + (pe - ps) ≤ (growA s pe).length := by
    unfold growA; split
    · simp; omega
    · omega
  obtain ⟨h1, h2⟩ := sweepLoop_canon nv nb f hf _ (pe - ps) ps (growA s pe) t hwf' hlen
  rw [h1]
  exact ⟨rfl, rfl, h2⟩

end FastOps
end Qmc
