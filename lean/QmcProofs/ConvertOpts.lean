/-
Helper lemmas for C15, round 9: OPTION HISTORIES after a conversion (heat-bath switched on / off / on
again on both samplers between blocks of time steps) and conversions taken after a raw
`swap_manager_and_state`.  Models: QmcModel/Convert.lean; lock-step machinery: QmcProofs/Convert.lean.
-/
import QmcProofs.Convert

namespace Qmc
open GenericSampler

/-- one block of an option history: both samplers are told `heat-bath = hb`
(`set_enable_heatbath(hb)` / `set_do_heatbath(hb)`), then `steps` time steps follow -/
abbrev OptBlock := Bool × Nat

/-- the Ising sampler driven through an option history -/
def isingHistory (mv : Moves) (beta : Rat) :
    List OptBlock → IsingSampler × List Nat → IsingSampler × List Nat
  | [], x => x
  | (b, k) :: t, x => isingHistory mv beta t (isingSteps mv beta k (x.1.setEnableHeatbath b, x.2))

/-- the generic sampler driven through the SAME option history -/
def genericHistory (mv : Moves) (beta : Rat) :
    List OptBlock → GenericSampler × List Nat → GenericSampler × List Nat
  | [], x => x
  | (b, k) :: t, x => genericHistory mv beta t (genericSteps mv beta k (x.1.setDoHeatbath b, x.2))

/-- "`q` is the conversion of `g`" without any statement about the heat-bath flags -/
def SimC (g : IsingSampler) (q : GenericSampler) : Prop :=
  q.state = g.state ∧ q.cutoff = g.cutoff ∧
  growSlots q.slots q.cutoff = growSlots g.slots g.cutoff ∧
  q.bonds = convertBonds g.model ∧ q.doLoopUpdates = false ∧ q.shouldDoClusterUpdate = true

/-- no field, no RVB (the heat-bath flag is free) -/
def PlainC (g : IsingSampler) : Prop :=
  g.model.hasField = false ∧ g.runRvb = false ∧ (∀ e ∈ g.model.edges, e.1.length = 2)

theorem simC_of_sim {g : IsingSampler} {q : GenericSampler} (h : Sim g q) : SimC g q :=
  ⟨h.1, h.2.1, h.2.2.1, h.2.2.2.1, h.2.2.2.2.1, h.2.2.2.2.2.2⟩

theorem simC_of_simHB {g : IsingSampler} {q : GenericSampler} (h : SimHB g q) : SimC g q :=
  ⟨h.1, h.2.1, h.2.2.1, h.2.2.2.1, h.2.2.2.2.1, h.2.2.2.2.2.2⟩

theorem simC_convert (g : IsingSampler) (hf : g.model.hasField = false) (hn : 0 < g.model.nvars) :
    SimC g (convertResult g) := simC_of_sim (sim_convert g hf hn)

theorem sim_of_simC_off {g : IsingSampler} {q : GenericSampler} (h : SimC g q) :
    Sim (g.setEnableHeatbath false) (q.setDoHeatbath false) :=
  ⟨h.1, h.2.1, h.2.2.1, h.2.2.2.1, h.2.2.2.2.1, rfl, h.2.2.2.2.2⟩

theorem simHB_of_simC_on {g : IsingSampler} {q : GenericSampler} (h : SimC g q) :
    SimHB (g.setEnableHeatbath true) (q.setDoHeatbath true) :=
  ⟨h.1, h.2.1, h.2.2.1, h.2.2.2.1, h.2.2.2.2.1, rfl, h.2.2.2.2.2⟩

theorem isingTimestep_fields (mv : Moves) (g : IsingSampler) (beta : Rat) (rng : List Nat) :
    (isingTimestep mv g beta rng).1.model = g.model ∧
    (isingTimestep mv g beta rng).1.runRvb = g.runRvb ∧
    (isingTimestep mv g beta rng).1.heatbath = g.heatbath := ⟨rfl, rfl, rfl⟩

/-- time steps never touch the model nor the options -/
theorem isingSteps_fields (mv : Moves) (beta : Rat) (k : Nat) (g : IsingSampler) (rng : List Nat) :
    (isingSteps mv beta k (g, rng)).1.model = g.model ∧
    (isingSteps mv beta k (g, rng)).1.runRvb = g.runRvb ∧
    (isingSteps mv beta k (g, rng)).1.heatbath = g.heatbath := by
  induction k generalizing g rng with
  | zero => exact ⟨rfl, rfl, rfl⟩
  | succ k ih =>
    simp only [isingSteps]
    have h := ih (isingTimestep mv g beta rng).1 (isingTimestep mv g beta rng).2
    obtain ⟨f1, f2, f3⟩ := isingTimestep_fields mv g beta rng
    rw [f1, f2, f3] at h
    exact h

/-- one block: flag set on both samplers, then `k` steps -/
theorem simC_block (mv : Moves) (hmv : mv.Lawful) (hheat : mv.HeatPad) (beta : Rat) (b : Bool)
    (k : Nat) (g : IsingSampler) (q : GenericSampler) (rng : List Nat) (hs : SimC g q)
    (hp : PlainC g) :
    SimC (isingSteps mv beta k (g.setEnableHeatbath b, rng)).1
         (genericSteps mv beta k (q.setDoHeatbath b, rng)).1 ∧
    PlainC (isingSteps mv beta k (g.setEnableHeatbath b, rng)).1 ∧
    (isingSteps mv beta k (g.setEnableHeatbath b, rng)).1.heatbath = b ∧
    (genericSteps mv beta k (q.setDoHeatbath b, rng)).2
      = (isingSteps mv beta k (g.setEnableHeatbath b, rng)).2 := by
  obtain ⟨f1, f2, f3⟩ := isingSteps_fields mv beta k (g.setEnableHeatbath b) rng
  have hplain : PlainC (isingSteps mv beta k (g.setEnableHeatbath b, rng)).1 := by
    unfold PlainC; rw [f1, f2]; exact hp
  cases b with
  | false =>
    obtain ⟨h1, h2⟩ := sim_steps mv hmv beta k _ _ rng (sim_of_simC_off hs)
      ⟨hp.1, hp.2.1, rfl, hp.2.2⟩
    exact ⟨simC_of_sim h1, hplain, f3, h2⟩
  | true =>
    obtain ⟨h1, h2⟩ := simHB_steps mv hmv hheat beta k _ _ rng (simHB_of_simC_on hs)
      ⟨hp.1, hp.2.1, rfl, hp.2.2⟩
    exact ⟨simC_of_simHB h1, hplain, f3, h2⟩

/-- any option history applied to both samplers keeps them in lock-step -/
theorem simC_history (mv : Moves) (hmv : mv.Lawful) (hheat : mv.HeatPad) (beta : Rat)
    (hist : List OptBlock) (g : IsingSampler) (q : GenericSampler) (rng : List Nat)
    (hs : SimC g q) (hp : PlainC g) :
    SimC (isingHistory mv beta hist (g, rng)).1 (genericHistory mv beta hist (q, rng)).1 ∧
    (genericHistory mv beta hist (q, rng)).2 = (isingHistory mv beta hist (g, rng)).2 := by
  induction hist generalizing g q rng with
  | nil => exact ⟨hs, rfl⟩
  | cons blk t ih =>
    obtain ⟨b, k⟩ := blk
    obtain ⟨h1, h2, _, h4⟩ := simC_block mv hmv hheat beta b k g q rng hs hp
    simp only [isingHistory, genericHistory]
    have := ih (isingSteps mv beta k (g.setEnableHeatbath b, rng)).1
      (genericSteps mv beta k (q.setDoHeatbath b, rng)).1
      (isingSteps mv beta k (g.setEnableHeatbath b, rng)).2 h1 h2
    rw [← h4] at this
    have hi : isingSteps mv beta k (g.setEnableHeatbath b, rng)
        = ((isingSteps mv beta k (g.setEnableHeatbath b, rng)).1,
           (genericSteps mv beta k (q.setDoHeatbath b, rng)).2) := by rw [h4]
    have hq : genericSteps mv beta k (q.setDoHeatbath b, rng)
        = ((genericSteps mv beta k (q.setDoHeatbath b, rng)).1,
           (genericSteps mv beta k (q.setDoHeatbath b, rng)).2) := rfl
    rw [hi, hq]; exact this

/-! ### raw swap of two Ising samplers -/

theorem swapIsing_fields (a b : IsingSampler) :
    (swapIsing a b).1.model = a.model ∧ (swapIsing a b).1.runRvb = a.runRvb ∧
    (swapIsing a b).1.heatbath = a.heatbath ∧ (swapIsing a b).1.state = b.state ∧
    (swapIsing a b).1.cutoff = max a.cutoff b.cutoff ∧
    (swapIsing a b).1.slots = growSlots b.slots (max a.cutoff b.cutoff) ∧
    (swapIsing a b).2.model = b.model ∧ (swapIsing a b).2.runRvb = b.runRvb ∧
    (swapIsing a b).2.heatbath = b.heatbath ∧ (swapIsing a b).2.state = a.state ∧
    (swapIsing a b).2.cutoff = max a.cutoff b.cutoff ∧
    (swapIsing a b).2.slots = growSlots a.slots (max a.cutoff b.cutoff) :=
  ⟨rfl, rfl, rfl, rfl, rfl, rfl, rfl, rfl, rfl, rfl, rfl, rfl⟩

theorem swapIsing_wf (a b : IsingSampler) (ha : a.WF) (hb : b.WF) :
    (swapIsing a b).1.WF ∧ (swapIsing a b).2.WF :=
  ⟨⟨ha.edges2, ha.edgesNodup, ha.gammaNonneg⟩, ⟨hb.edges2, hb.edgesNodup, hb.gammaNonneg⟩⟩

end Qmc
