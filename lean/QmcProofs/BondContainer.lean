import QmcModel.BondContainer
import Mathlib.Tactic.Ring
import Mathlib.Tactic.Linarith
import Mathlib.Tactic.NormNum
import Mathlib.Algebra.Order.Field.Rat

/-! Specs of the `BondContainer` model: representation invariant, its preservation, running
total = sum of weights, and the selection rule of `get_random` (with the draw-0 edge, F12). -/

namespace Qmc
namespace BC

def sumW (ks : List (Nat × Rat)) : Rat := (ks.map (·.2)).sum

/-- representation invariant: `map` is exactly the inverse of `keys` (so keys are distinct),
weights are non-negative, and the running total is the sum of the weights. -/
structure Inv (c : BC) : Prop where
  inverse : ∀ k i, c.map.getD k none = some i ↔ (c.keys[i]?).map (·.1) = some k
  nonneg : ∀ kw ∈ c.keys, 0 ≤ kw.2
  total : c.total = sumW c.keys

theorem sumW_nonneg {ks : List (Nat × Rat)} (h : ∀ kw ∈ ks, 0 ≤ kw.2) : 0 ≤ sumW ks := by
  induction ks with
  | nil => simp [sumW]
  | cons a t ih =>
    have h1 := h a (by simp)
    have h2 := ih (fun kw hk => h kw (by simp [hk]))
    simp only [sumW, List.map_cons, List.sum_cons] at *
    linarith

theorem inv_empty : Inv empty := by
  refine ⟨?_, ?_, ?_⟩
  · intro k i; simp [empty]
  · intro kw h; simp [empty] at h
  · simp [empty, sumW]

theorem correct_of_nonneg {t : Rat} (h : 0 ≤ t) : correct t = t := by
  unfold correct; split
  · linarith
  · rfl

theorem growMap_getD (m : List (Option Nat)) (k j : Nat) :
    (growMap m k).getD j none = m.getD j none := by
  unfold growMap
  split
  · rfl
  · simp only [List.getD_eq_getElem?_getD, List.getElem?_append]
    split
    · rfl
    · rename_i h1 h2
      rw [List.getElem?_eq_none (l := m) (by omega)]
      simp only [List.getElem?_replicate]
      split <;> rfl

theorem growMap_lt (m : List (Option Nat)) (k : Nat) : k < (growMap m k).length := by
  unfold growMap; split
  · assumption
  · simp; omega

theorem sumW_set (ks : List (Nat × Rat)) (i : Nat) (h : i < ks.length) (kw : Nat × Rat) :
    sumW (ks.set i kw) = sumW ks + (kw.2 - (ks[i]).2) := by
  induction ks generalizing i with
  | nil => simp at h
  | cons a t ih =>
    cases i with
    | zero => simp [sumW]; ring
    | succ j =>
      have := ih j (by simpa using h)
      simp only [sumW, List.set_cons_succ, List.map_cons, List.sum_cons, List.getElem_cons_succ] at *
      rw [this]; ring

theorem sumW_append (a b : List (Nat × Rat)) : sumW (a ++ b) = sumW a + sumW b := by
  simp [sumW]

/-- `insert` preserves the invariant (for a non-negative weight) -/
theorem inv_insert {c : BC} (hc : Inv c) (k : Nat) {w : Rat} (hw : 0 ≤ w) : Inv (c.insert k w).1 := by
  unfold insert
  simp only
  have hg := growMap_getD c.map k
  split
  · rename_i i hi
    rw [hg] at hi
    have hki := (hc.inverse k i).1 hi
    have hil : i < c.keys.length := by
      by_contra hcon
      rw [List.getElem?_eq_none (by omega)] at hki
      simp at hki
    have hki' : (c.keys[i]).1 = k := by
      rw [List.getElem?_eq_getElem hil] at hki; simpa using hki
    have hgd : c.keys.getD i (k, 0) = c.keys[i] := by simp [List.getD_eq_getElem?_getD, hil]
    refine ⟨?_, ?_, ?_⟩
    · intro k' j
      simp only [hg, hgd]
      rw [hc.inverse k' j]
      by_cases hji : j = i
      · subst hji
        simp [hil]
      · rw [List.getElem?_set_ne (fun h => hji h.symm)]
    · intro kw hkw
      simp only [hgd] at hkw
      rcases List.mem_or_eq_of_mem_set hkw with h | h
      · exact hc.nonneg kw h
      · subst h; exact hw
    · simp only [hgd]
      rw [sumW_set _ _ hil, ← hc.total]
      have hold : 0 ≤ (c.keys[i]).2 := hc.nonneg _ (List.getElem_mem hil)
      have htot : sumW c.keys - (c.keys[i]).2 ≥ 0 := by
        have hsplit : sumW c.keys = sumW (c.keys.set i ((c.keys[i]).1, 0)) + (c.keys[i]).2 := by
          rw [sumW_set _ _ hil]; ring
        have : 0 ≤ sumW (c.keys.set i ((c.keys[i]).1, 0)) := by
          apply sumW_nonneg
          intro kw hkw
          rcases List.mem_or_eq_of_mem_set hkw with h | h
          · exact hc.nonneg kw h
          · subst h; simp
        linarith
      rw [hc.total] at *
      apply correct_of_nonneg
      linarith
  · rename_i hi
    rw [hg] at hi
    have hlt := growMap_lt c.map k
    refine ⟨?_, ?_, ?_⟩
    · intro k' j
      by_cases hk : k' = k
      · subst hk
        simp only [List.getD_eq_getElem?_getD, List.getElem?_set_self hlt, Option.getD_some,
          Option.some.injEq]
        constructor
        · intro h; subst h; simp
        · intro h
          rw [List.getElem?_append] at h
          split at h
          · have := (hc.inverse k' j).2 h
            rw [hi] at this; cases this
          · rename_i hj
            by_contra hne
            have : j - c.keys.length ≠ 0 := by omega
            cases hjj : j - c.keys.length with
            | zero => exact this hjj
            | succ n => rw [hjj] at h; simp at h
      · have : ((growMap c.map k).set k (some c.keys.length)).getD k' none = c.map.getD k' none := by
          simp only [List.getD_eq_getElem?_getD]
          rw [List.getElem?_set_ne (fun h => hk h.symm)]
          simpa [List.getD_eq_getElem?_getD] using hg k'
        rw [this, hc.inverse k' j]
        rw [List.getElem?_append]
        split
        · rfl
        · rename_i hj
          rw [List.getElem?_eq_none (by omega)]
          constructor
          · intro h; simp at h
          · intro h
            cases hjj : j - c.keys.length with
            | zero => rw [hjj] at h; simp at h; exact absurd h.symm hk
            | succ n => rw [hjj] at h; simp at h
    · intro kw hkw
      rcases List.mem_append.1 hkw with h | h
      · exact hc.nonneg kw h
      · simp at h; subst h; exact hw
    · rw [sumW_append, hc.total]; simp [sumW]

/-- keys are distinct (consequence of `inverse`) -/
theorem Inv.inj {c : BC} (hc : Inv c) {a b k : Nat}
    (ha : (c.keys[a]?).map (·.1) = some k) (hb : (c.keys[b]?).map (·.1) = some k) : a = b := by
  have h1 := (hc.inverse k a).2 ha
  have h2 := (hc.inverse k b).2 hb
  rw [h1] at h2; injection h2

theorem getD_some_lt {m : List (Option Nat)} {k i : Nat} (h : m.getD k none = some i) : k < m.length := by
  by_contra hcon
  simp [List.getD_eq_getElem?_getD, List.getElem?_eq_none (Nat.le_of_not_lt hcon)] at h

theorem sumW_take_succ (ks : List (Nat × Rat)) (n : Nat) (h : n < ks.length) :
    sumW (ks.take (n + 1)) = sumW (ks.take n) + (ks[n]).2 := by
  rw [List.take_succ_eq_append_getElem h, sumW_append]; simp [sumW]

/-- `remove_index` preserves the invariant -/
theorem inv_removeIndex {c : BC} (hc : Inv c) {i : Nat} (hi : i < c.keys.length) : Inv (c.removeIndex i) := by
  have hlast : c.keys.length - 1 < c.keys.length := by omega
  have hki : c.keys.getD i (0, 0) = c.keys[i] := by simp [List.getD_eq_getElem?_getD, hi]
  have hkl : c.keys.getD (c.keys.length - 1) (0, 0) = c.keys[c.keys.length - 1] := by
    simp [List.getD_eq_getElem?_getD, hlast]
  have hmi : c.map.getD (c.keys[i]).1 none = some i :=
    (hc.inverse _ i).2 (by simp [List.getElem?_eq_getElem hi])
  have hml : c.map.getD (c.keys[c.keys.length - 1]).1 none = some (c.keys.length - 1) :=
    (hc.inverse _ _).2 (by simp [List.getElem?_eq_getElem hlast])
  have hli := getD_some_lt hmi
  have hll := getD_some_lt hml
  -- the new key array, pointwise
  have hkeys : ∀ j, ((c.keys.set i c.keys[c.keys.length - 1]).take (c.keys.length - 1))[j]? =
      if j < c.keys.length - 1 then (if j = i then some c.keys[c.keys.length - 1] else c.keys[j]?) else none := by
    intro j
    rw [List.getElem?_take]
    split
    · rw [List.getElem?_set]
      split
      · rename_i h; subst h; simp [hi]
      · rename_i h
        have : ¬ j = i := fun e => h e.symm
        simp [this]
    · rfl
  unfold removeIndex
  simp only [hki, hkl]
  refine ⟨?_, ?_, ?_⟩
  · intro k' j
    rw [hkeys j]
    simp only [List.getD_eq_getElem?_getD]
    by_cases h1 : k' = (c.keys[i]).1
    · subst h1
      rw [List.getElem?_set_self (by simpa using hli)]
      simp only [Option.getD_some]
      constructor
      · intro h; cases h
      · intro h
        exfalso
        split at h
        · rename_i hj
          split at h
          · rename_i hji
            subst hji
            have : c.keys.length - 1 = j := hc.inj (k := (c.keys[j]).1)
              (by simpa [List.getElem?_eq_getElem hlast] using h) (by simp [List.getElem?_eq_getElem hi])
            omega
          · rename_i hji
            have : j = i := hc.inj (k := (c.keys[i]).1) h (by simp [List.getElem?_eq_getElem hi])
            exact hji this
        · simp at h
    · rw [List.getElem?_set_ne (fun e => h1 e.symm)]
      by_cases h2 : k' = (c.keys[c.keys.length - 1]).1
      · subst h2
        rw [List.getElem?_set_self (by simpa using hll)]
        simp only [Option.getD_some, Option.some.injEq]
        constructor
        · intro h; subst h
          have hne : i ≠ c.keys.length - 1 := by
            intro e
            apply h1
            simp [e]
          have : i < c.keys.length - 1 := by omega
          simp [this]
        · intro h
          split at h
          · rename_i hj
            split at h
            · rename_i hji; exact hji.symm
            · have : j = c.keys.length - 1 := hc.inj (k := (c.keys[c.keys.length - 1]).1) h
                (by simp [List.getElem?_eq_getElem hlast])
              omega
          · simp at h
      · rw [List.getElem?_set_ne (fun e => h2 e.symm)]
        have := hc.inverse k' j
        simp only [List.getD_eq_getElem?_getD] at this
        rw [this]
        constructor
        · intro h
          have hjl : j < c.keys.length := by
            by_contra hcon
            rw [List.getElem?_eq_none (by omega)] at h; simp at h
          have hji : j ≠ i := by
            intro e; subst e
            rw [List.getElem?_eq_getElem hi] at h
            simp at h; exact h1 h.symm
          have hjlast : j ≠ c.keys.length - 1 := by
            intro e; subst e
            rw [List.getElem?_eq_getElem hlast] at h
            simp at h; exact h2 h.symm
          have : j < c.keys.length - 1 := by omega
          simp [this, hji, h]
        · intro h
          split at h
          · split at h
            · simp at h; exact absurd h.symm h2
            · exact h
          · simp at h
  · intro kw hkw
    have := List.mem_of_mem_take hkw
    rcases List.mem_or_eq_of_mem_set this with h | h
    · exact hc.nonneg kw h
    · subst h; exact hc.nonneg _ (List.getElem_mem hlast)
  · have hsum : sumW ((c.keys.set i c.keys[c.keys.length - 1]).take (c.keys.length - 1)) =
        sumW c.keys - (c.keys[i]).2 := by
      have hfull : sumW c.keys = sumW (c.keys.take (c.keys.length - 1)) + (c.keys[c.keys.length - 1]).2 := by
        have := sumW_take_succ c.keys (c.keys.length - 1) hlast
        rw [← this]
        have : c.keys.length - 1 + 1 = c.keys.length := by omega
        rw [this, List.take_length]
      by_cases hil : i = c.keys.length - 1
      · have : c.keys.set i c.keys[c.keys.length - 1] = c.keys := by
          subst hil; simp
        rw [this, hfull]
        subst hil; ring
      · have hlt : i < c.keys.length - 1 := by omega
        rw [List.take_set, sumW_set _ _ (by simp; omega), hfull]
        simp only [List.getElem_take]
        ring
    have hnn : 0 ≤ sumW ((c.keys.set i c.keys[c.keys.length - 1]).take (c.keys.length - 1)) := by
      apply sumW_nonneg
      intro kw hkw
      have := List.mem_of_mem_take hkw
      rcases List.mem_or_eq_of_mem_set this with h | h
      · exact hc.nonneg kw h
      · subst h; exact hc.nonneg _ (List.getElem_mem hlast)
    rw [hsum] at hnn ⊢
    rw [hc.total]
    exact correct_of_nonneg hnn

/-- `remove` preserves the invariant, never panics on a key below `map.len()`, and reports
whether the key was present -/
theorem inv_remove {c c' : BC} {k : Nat} {b : Bool} (hc : Inv c) (h : c.remove k = some (c', b)) :
    Inv c' ∧ b = c.contains k := by
  unfold remove at h
  split at h
  · split at h
    · rename_i i hi
      injection h with h; injection h with h1 h2
      subst h1; subst h2
      have hki := (hc.inverse k i).1 hi
      have hil : i < c.keys.length := by
        by_contra hcon
        rw [List.getElem?_eq_none (by omega)] at hki; simp at hki
      exact ⟨inv_removeIndex hc hil, by unfold contains; rw [hi]; rfl⟩
    · rename_i hi
      injection h with h; injection h with h1 h2
      subst h1; subst h2
      exact ⟨hc, by unfold contains; rw [hi]; rfl⟩
  · cases h

theorem clear_map_getD (ks : List (Nat × Rat)) (m : List (Option Nat)) (k : Nat) :
    (ks.foldl (fun m kw => m.set kw.1 none) m).getD k none =
      if k ∈ ks.map (·.1) then none else m.getD k none := by
  induction ks generalizing m with
  | nil => simp
  | cons a t ih =>
    simp only [List.foldl_cons, List.map_cons, List.mem_cons]
    rw [ih]
    by_cases h1 : k ∈ t.map (·.1)
    · simp [h1]
    · simp only [h1, if_false, or_false]
      by_cases h2 : k = a.1
      · subst h2
        simp only [if_true, List.getD_eq_getElem?_getD]
        by_cases hl : a.1 < m.length
        · rw [List.getElem?_set_self hl]; rfl
        · rw [List.getElem?_eq_none (by simp; omega)]; rfl
      · simp only [h2, if_false, List.getD_eq_getElem?_getD]
        rw [List.getElem?_set_ne (fun e => h2 e.symm)]

/-- `clear` re-establishes the (empty) invariant -/
theorem inv_clear {c : BC} (hc : Inv c) : Inv c.clear := by
  refine ⟨?_, ?_, ?_⟩
  · intro k i
    simp only [clear, List.getElem?_nil, Option.map_none]
    rw [clear_map_getD]
    split
    · simp
    · rename_i hk
      constructor
      · intro h
        exfalso; apply hk
        have := (hc.inverse k i).1 h
        cases hki : c.keys[i]? with
        | none => rw [hki] at this; simp at this
        | some kw =>
          rw [hki] at this
          simp at this
          exact List.mem_map.2 ⟨kw, List.mem_of_getElem? hki, this⟩
      · intro h; cases h
  · intro kw h; simp [clear] at h
  · simp [clear, sumW]

/-! ### selection rule of `get_random` -/

/-- the plain "subtract until `p ≤ 0`" loop; `pickLoop` coincides with it for positive draws -/
def pickLoop0 : List (Nat × Rat) → Rat → Nat → Nat
  | [], _, i => i
  | kw :: t, p, i => if p - kw.2 ≤ 0 then i else pickLoop0 t (p - kw.2) (i + 1)

theorem pickLoop_eq_pickLoop0 (ks : List (Nat × Rat)) (h : ∀ kw ∈ ks, 0 ≤ kw.2) (p : Rat) (hp : 0 < p) (i : Nat) :
    pickLoop ks p i = pickLoop0 ks p i := by
  induction ks generalizing p i with
  | nil => rfl
  | cons a t ih =>
    have ha : 0 ≤ a.2 := h a (by simp)
    have ht : ∀ kw ∈ t, 0 ≤ kw.2 := fun kw hk => h kw (by simp [hk])
    unfold pickLoop pickLoop0
    by_cases h1 : p - a.2 ≤ 0
    · have : 0 < a.2 := by linarith
      simp [h1, this]
    · have : ¬ (p - a.2 ≤ 0 ∧ 0 < a.2) := fun hh => h1 hh.1
      simp only [this, h1, if_false]
      exact ih ht _ (by linarith) _

theorem pickLoop_shift (ks : List (Nat × Rat)) (p : Rat) (i : Nat) :
    pickLoop ks p i = i + pickLoop ks p 0 := by
  induction ks generalizing p i with
  | nil => simp [pickLoop]
  | cons a t ih =>
    unfold pickLoop; split
    · simp
    · rw [ih _ (i + 1), ih _ (0 + 1)]; omega

theorem pickLoop0_shift (ks : List (Nat × Rat)) (p : Rat) (i : Nat) :
    pickLoop0 ks p i = i + pickLoop0 ks p 0 := by
  induction ks generalizing p i with
  | nil => simp [pickLoop0]
  | cons a t ih =>
    unfold pickLoop0; split
    · simp
    · rw [ih _ (i + 1), ih _ (0 + 1)]; omega

/-- whatever is selected has positive weight (immediate from the loop condition) -/
theorem pickLoop_pos (ks : List (Nat × Rat)) (p : Rat) (j : Nat) (hj : j < ks.length)
    (h : pickLoop ks p 0 = j) : 0 < (ks[j]).2 := by
  induction ks generalizing p j with
  | nil => simp at hj
  | cons a t ih =>
    unfold pickLoop at h
    split at h
    · rename_i hc; subst h; simpa using hc.2
    · rw [pickLoop_shift] at h
      cases j with
      | zero => omega
      | succ n =>
        have := ih (p - a.2) n (by simpa using hj) (by omega)
        simpa using this

/-- characterisation of the plain loop: all earlier partial sums are `< p`, and the partial
sum including the selected key is `≥ p` -/
theorem pickLoop0_spec (ks : List (Nat × Rat)) (p : Rat) (j : Nat) (hj : j < ks.length) :
    pickLoop0 ks p 0 = j ↔ (∀ i, i < j → sumW (ks.take (i + 1)) < p) ∧ p ≤ sumW (ks.take (j + 1)) := by
  induction ks generalizing p j with
  | nil => simp at hj
  | cons a t ih =>
    unfold pickLoop0
    split
    · rename_i hle
      constructor
      · intro h; subst h
        refine ⟨fun i hi => absurd hi (Nat.not_lt_zero _), ?_⟩
        simp [sumW]; linarith
      · intro ⟨h1, _⟩
        cases j with
        | zero => rfl
        | succ n =>
          have := h1 0 (Nat.succ_pos _)
          simp [sumW] at this
          linarith
    · rename_i hgt
      rw [pickLoop0_shift]
      cases j with
      | zero =>
        constructor
        · intro h; omega
        · intro ⟨_, h2⟩
          simp [sumW] at h2
          exfalso; apply hgt; linarith
      | succ n =>
        have hn : n < t.length := by simpa using hj
        have := ih (p - a.2) n hn
        constructor
        · intro h
          have h' : pickLoop0 t (p - a.2) 0 = n := by omega
          obtain ⟨h1, h2⟩ := this.1 h'
          refine ⟨?_, ?_⟩
          · intro i hi
            cases i with
            | zero => simp [sumW]; linarith
            | succ m =>
              have := h1 m (by omega)
              simp only [sumW, List.take_succ_cons, List.map_cons, List.sum_cons] at this ⊢
              linarith
          · simp only [sumW, List.take_succ_cons, List.map_cons, List.sum_cons] at h2 ⊢
            linarith
        · intro ⟨h1, h2⟩
          have : pickLoop0 t (p - a.2) 0 = n := by
            apply this.2
            refine ⟨?_, ?_⟩
            · intro i hi
              have := h1 (i + 1) (by omega)
              simp only [sumW, List.take_succ_cons, List.map_cons, List.sum_cons] at this ⊢
              linarith
            · simp only [sumW, List.take_succ_cons, List.map_cons, List.sum_cons] at h2 ⊢
              linarith
          omega

/-- for positive draws and non-negative weights the code's loop has the same characterisation -/
theorem pickLoop_spec (ks : List (Nat × Rat)) (hnn : ∀ kw ∈ ks, 0 ≤ kw.2) (p : Rat) (hp : 0 < p)
    (j : Nat) (hj : j < ks.length) :
    pickLoop ks p 0 = j ↔ (∀ i, i < j → sumW (ks.take (i + 1)) < p) ∧ p ≤ sumW (ks.take (j + 1)) := by
  rw [pickLoop_eq_pickLoop0 ks hnn p hp]; exact pickLoop0_spec ks p j hj

/-- a draw `≤ 0` selects the first key of positive weight -/
theorem pickLoop_nonpos (ks : List (Nat × Rat)) (hnn : ∀ kw ∈ ks, 0 ≤ kw.2) (p : Rat) (hp : p ≤ 0)
    (j : Nat) (hj : j < ks.length) :
    pickLoop ks p 0 = j ↔ (∀ i (hi : i < j), (ks[i]'(by omega)).2 = 0) ∧ 0 < (ks[j]).2 := by
  induction ks generalizing p j with
  | nil => simp at hj
  | cons a t ih =>
    have ha : 0 ≤ a.2 := hnn a (by simp)
    have ht : ∀ kw ∈ t, 0 ≤ kw.2 := fun kw hk => hnn kw (by simp [hk])
    unfold pickLoop
    by_cases h0 : 0 < a.2
    · have : p - a.2 ≤ 0 ∧ 0 < a.2 := ⟨by linarith, h0⟩
      simp only [this, and_self, if_true]
      constructor
      · intro h; subst h; exact ⟨fun i hi => absurd hi (Nat.not_lt_zero _), by simpa using h0⟩
      · intro ⟨h1, _⟩
        cases j with
        | zero => rfl
        | succ n =>
          have := h1 0 (Nat.succ_pos _)
          simp at this; linarith
    · have ha0 : a.2 = 0 := by linarith
      have : ¬ (p - a.2 ≤ 0 ∧ 0 < a.2) := fun hh => h0 hh.2
      simp only [this, if_false]
      rw [pickLoop_shift]
      cases j with
      | zero =>
        constructor
        · intro h; omega
        · intro ⟨_, h2⟩; simp at h2; exact absurd h2 h0
      | succ n =>
        have hn : n < t.length := by simpa using hj
        have := ih ht (p - a.2) (by linarith) n hn
        constructor
        · intro h
          have h' : pickLoop t (p - a.2) 0 = n := by omega
          obtain ⟨h1, h2⟩ := this.1 h'
          refine ⟨?_, by simpa using h2⟩
          intro i hi
          cases i with
          | zero => simpa using ha0
          | succ m => simpa using h1 m (by omega)
        · intro ⟨h1, h2⟩
          have : pickLoop t (p - a.2) 0 = n := by
            apply this.2
            refine ⟨?_, by simpa using h2⟩
            intro i hi
            simpa using h1 (i + 1) (by omega)
          omega

theorem sumW_take_mono {ks : List (Nat × Rat)} (h : ∀ kw ∈ ks, 0 ≤ kw.2) {a b : Nat} (hab : a ≤ b) :
    sumW (ks.take a) ≤ sumW (ks.take b) := by
  induction b with
  | zero => have : a = 0 := by omega
            subst this; exact le_refl _
  | succ n ih =>
    by_cases hn : a = n + 1
    · subst hn; exact le_refl _
    · have h1 := ih (by omega)
      by_cases hl : n < ks.length
      · rw [sumW_take_succ _ _ hl]
        have := h _ (List.getElem_mem hl)
        linarith
      · have e1 : ks.take (n + 1) = ks := List.take_of_length_le (by omega)
        have e2 : ks.take n = ks := List.take_of_length_le (by omega)
        rw [e1]; rw [e2] at h1; exact h1

end BC
end Qmc
