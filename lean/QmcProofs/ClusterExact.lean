/-
C09, step B: the exact executable model `clusterUpdate` (QmcModel/ClusterExact.lean) always lands in
the relation `ClusterMove`.
-/
import QmcProofs.ClusterComponents

namespace Qmc

theorem genBool_zero (s : RS) (prob : Rat) : (s.genBool (0 * prob)).1 = false := by
  obtain ⟨h1, h01⟩ := zero_regular prob
  simp only [RS.genBool, if_neg h1, if_neg h01, zero_threshold]
  simp only [decide_eq_false_iff_not, Int.not_lt]
  exact Int.natCast_nonneg _

/-- a cluster of weight 0 is never accepted, whatever the script -/
theorem clusterFlips_zero (prob : Rat) : ∀ (ws : List Rat) (rs : RS) (wf : Rat × Bool),
    wf ∈ ws.zip (clusterFlips prob ws rs).1 → wf.1 = 0 → wf.2 = false
  | [], _, _, h, _ => by simp [clusterFlips] at h
  | c :: cs, rs, wf, h, h0 => by
    simp only [clusterFlips, List.zip_cons_cons, List.mem_cons] at h
    rcases h with rfl | h
    · simp only at h0 ⊢
      rw [h0]; exact genBool_zero rs prob
    · exact clusterFlips_zero prob cs _ wf h h0

theorem zip_flips_zero (prob : Rat) (w : Nat → Rat) (reps : List Nat) (rs : RS) (rf : Nat × Bool)
    (h : rf ∈ reps.zip (clusterFlips prob (reps.map w) rs).1) (hw : w rf.1 = 0) : rf.2 = false := by
  have : (w rf.1, rf.2) ∈ (reps.map w).zip (clusterFlips prob (reps.map w) rs).1 := by
    rw [List.zip_map_left]; exact List.mem_map.mpr ⟨rf, h, rfl⟩
  exact clusterFlips_zero prob _ rs _ this hw

theorem retag_pairAll {fr : SkOp → Bool} : ∀ {sb sa : Slots}, PairAll (OpOk fr) sb sa →
    PairAll (OpOk fr) sb (retagSlots sb sa) ∧ maskSlots sb (retagSlots sb sa) = maskSlots sb sa
  | [], [], _ => ⟨trivial, rfl⟩
  | [], _ :: _, h' => by simp [PairAll] at h'
  | none :: _, [], h' => by simp [PairAll] at h'
  | some _ :: _, [], h' => by simp [PairAll] at h'
  | none :: tb, none :: ta, h' => by
    simp only [PairAll] at h'
    obtain ⟨i1, i2⟩ := retag_pairAll h'
    simp only [retagSlots, PairAll, maskSlots, i2]
    exact ⟨i1, trivial⟩
  | none :: tb, some _ :: ta, h' => by simp [PairAll] at h'
  | some _ :: tb, none :: ta, h' => by simp [PairAll] at h'
  | some ob :: tb, some oa :: ta, h' => by
    simp only [PairAll] at h'
    obtain ⟨i1, i2⟩ := retag_pairAll h'.2
    simp only [retagSlots, PairAll, maskSlots, i2]
    have h1 := h'.1
    exact ⟨⟨⟨h1.vars, h1.bond, h1.const, h1.insB, h1.outsB, h1.insA, h1.outsA, h1.closed, h1.frozen⟩, i1⟩, rfl⟩

theorem clusterMove_retag {fr : SkOp → Bool} {c a : Config} (h : ClusterMove fr c a) :
    ClusterMove fr c { a with slots := retagSlots c.slots a.slots } := by
  obtain ⟨i1, i2⟩ := retag_pairAll h.ops
  refine ⟨i1, h.stateLen, ?_, h.idle⟩
  have : mask c { a with slots := retagSlots c.slots a.slots } = mask c a := by
    simp only [mask, i2]
  rw [this]; exact h.linkClosed

theorem flippedLegs_congr (whole : Bool) (lab : Array Nat) (reps : List Nat) (flips : List Bool) {i j : Nat}
    (h : lab[i]! = lab[j]!) : flippedLegs whole lab reps flips i = flippedLegs whole lab reps flips j := by
  simp only [flippedLegs, inCluster, h]

/-- **the exact model lands in the relation**: whatever the script, `clusterUpdate` produces a
cluster move of its input (for structurally valid strings) -/
theorem clusterUpdate_clusterMove (prob : Rat) (fr : SkOp → Bool) (c : Config) (rs : RS)
    (hshape : ShapeOk c) (hn : NodupVars c.slots) :
    ClusterMove fr c (clusterUpdate prob fr c rs).1 := by
  unfold clusterUpdate clusterUpdateTrace
  simp only []
  split
  · exact ClusterMove.refl fr hshape
  · apply clusterMove_retag
    refine flipConfig_clusterMove fr _ c hshape hn ?_ ?_
    · intro e he
      exact flippedLegs_congr _ _ _ _ (compLab_edge c.slots hn e he)
    · intro x hx hed hfr hpos
      simp only [flippedLegs, List.any_eq_false]
      intro rf hrf
      simp only [Bool.and_eq_true, not_and, Bool.not_eq_true]
      intro hf
      -- the cluster holds an op of weight 0: its draw is `gen_bool(0)`
      cases hin : inCluster (traverse (skeleton c.slots)).whole (compLab (skeleton c.slots)) rf.1 x.1 with
      | false => rfl
      | true =>
        exfalso
        have hmem : (x.1, x.2.sk) ∈ (legGraph (skeleton c.slots)).opsAt := by
          rw [legGraph_opsAt, (scanFrom_facts c.slots {} hn).2.2.1]
          simp only [List.nil_append]
          exact List.mem_map.mpr ⟨x, hx, rfl⟩
        have hw : clusterWeight fr (traverse (skeleton c.slots)).whole (compLab (skeleton c.slots))
            (legGraph (skeleton c.slots)).opsAt rf.1 = 0 := by
          unfold clusterWeight
          rw [if_pos]
          rw [List.any_eq_true]
          refine ⟨(x.1, x.2.sk), hmem, ?_⟩
          have hed' : x.2.sk.isEdge = false := hed
          have hpos' : 0 < x.2.sk.vars.length := hpos
          simp [hfr, hpos', hin, hed']
        have := zip_flips_zero prob _ _ rs rf hrf hw
        rw [this] at hf
        cases hf

end Qmc
