/-
Helper lemmas for C20 (autocorrelation helpers): rotations, dot products, affine maps of a series.
-/
import QmcModel.Autocorr
import QmcProofs.Stepper
import Mathlib.Algebra.Order.Field.Rat
import Mathlib.Tactic.Ring
import Mathlib.Tactic.Linarith
import Mathlib.Tactic.FieldSimp

namespace Qmc

/-! ### dot products and rotations -/

theorem dot_nil_left (b : List Rat) : dot [] b = 0 := by simp [dot]

theorem dot_cons (x y : Rat) (a b : List Rat) : dot (x :: a) (y :: b) = x * y + dot a b := by
  simp [dot]

theorem dot_comm (a b : List Rat) : dot a b = dot b a := by
  induction a generalizing b with
  | nil => cases b <;> simp [dot]
  | cons x a ih =>
    cases b with
    | nil => simp [dot]
    | cons y b => rw [dot_cons, dot_cons, ih, mul_comm]

theorem length_rot (y : List Rat) (t : Nat) : (rot y t).length = y.length := by
  simp [rot]; omega

theorem rot_zero (y : List Rat) : rot y 0 = y := by simp [rot]

theorem dot_append {a1 b1 : List Rat} (h : a1.length = b1.length) (a2 b2 : List Rat) :
    dot (a1 ++ a2) (b1 ++ b2) = dot a1 b1 + dot a2 b2 := by
  induction a1 generalizing b1 with
  | nil =>
    cases b1 with
    | nil => simp [dot]
    | cons _ _ => simp at h
  | cons x a ih =>
    cases b1 with
    | nil => simp at h
    | cons y b =>
      have h' : a.length = b.length := by simpa using h
      simp only [List.cons_append, dot_cons, ih h']
      ring

theorem dot_take_drop (a b : List Rat) (k : Nat) (h : a.length = b.length) :
    dot (a.take k) (b.take k) + dot (a.drop k) (b.drop k) = dot a b := by
  have hl : (a.take k).length = (b.take k).length := by simp [h]
  rw [← dot_append hl, List.take_append_drop, List.take_append_drop]

/-- rotating both series by the same amount does not change their dot product -/
theorem dot_rot_rot (a b : List Rat) (k : Nat) (h : a.length = b.length) : dot (rot a k) (rot b k) = dot a b := by
  unfold rot
  have hl : (a.drop k).length = (b.drop k).length := by simp [h]
  rw [dot_append hl, add_comm, dot_take_drop a b k h]

theorem rot_rot_cancel (y : List Rat) (t : Nat) (ht : t ≤ y.length) : rot (rot y t) (y.length - t) = y := by
  unfold rot
  have hl : (y.drop t).length = y.length - t := by simp
  rw [List.drop_left' hl, List.take_left' hl, List.take_append_drop]

/-- circular symmetry of the autocorrelation sum -/
theorem dot_rot_symm (y : List Rat) (t : Nat) (ht : t ≤ y.length) :
    dot y (rot y t) = dot y (rot y (y.length - t)) := by
  have h1 := dot_rot_rot y (rot y t) (y.length - t) (length_rot y t).symm
  rw [rot_rot_cancel y t ht] at h1
  rw [← h1, dot_comm]

/-- entry `s` of the rotated series is entry `(s + t) mod T` of the series -/
theorem rot_getD (y : List Rat) (t s : Nat) (ht : t ≤ y.length) (hs : s < y.length) :
    (rot y t).getD s 0 = y.getD ((s + t) % y.length) 0 := by
  unfold rot
  simp only [List.getD_eq_getElem?_getD]
  by_cases h : s < y.length - t
  · rw [List.getElem?_append_left (by simp; omega), List.getElem?_drop, Nat.mod_eq_of_lt (by omega), Nat.add_comm]
  · rw [List.getElem?_append_right (by simp; omega), List.getElem?_take]
    have e : (s + t) % y.length = s - (y.length - t) := by
      have : s + t = (s - (y.length - t)) + y.length := by omega
      rw [this, Nat.add_mod_right, Nat.mod_eq_of_lt (by omega)]
    simp only [List.length_drop]
    rw [e, if_pos (by omega)]

theorem dot_self_nonneg (y : List Rat) : 0 ≤ dot y y := by
  induction y with
  | nil => simp [dot]
  | cons v r ih => rw [dot_cons]; have := mul_self_nonneg v; linarith

theorem dot_self_eq_zero {y : List Rat} (h : dot y y = 0) : ∀ v ∈ y, v = 0 := by
  induction y with
  | nil => intro v hv; simp at hv
  | cons w r ih =>
    rw [dot_cons] at h
    have h1 := mul_self_nonneg w
    have h2 := dot_self_nonneg r
    have hw : w * w = 0 := by linarith
    have hr : dot r r = 0 := by linarith
    intro v hv
    rcases List.mem_cons.mp hv with e | e
    · rw [e]; exact mul_self_eq_zero.mp hw
    · exact ih hr v e

/-- a series with two different entries has a non-zero mean-removed norm -/
theorem dot_center_ne_zero {xs : List Rat} (h : ∃ a ∈ xs, ∃ b ∈ xs, a ≠ b) :
    dot (center xs) (center xs) ≠ 0 := by
  intro h0
  obtain ⟨a, ha, b, hb, hab⟩ := h
  have hz := dot_self_eq_zero h0
  have e1 : a - mean xs = 0 := hz _ (by unfold center; exact List.mem_map.mpr ⟨a, ha, rfl⟩)
  have e2 : b - mean xs = 0 := hz _ (by unfold center; exact List.mem_map.mpr ⟨b, hb, rfl⟩)
  exact hab (by linarith)

/-! ### affine maps of a series -/

theorem sum_map_affine (a c : Rat) (xs : List Rat) :
    (xs.map fun x => a * x + c).sum = a * xs.sum + (xs.length : Rat) * c := by
  induction xs with
  | nil => simp
  | cons x r ih => simp only [List.map_cons, List.sum_cons, List.length_cons, ih]; push_cast; ring

theorem center_affine (a c : Rat) (xs : List Rat) :
    center (xs.map fun x => a * x + c) = (center xs).map (a * ·) := by
  cases xs with
  | nil => rfl
  | cons x0 r =>
    have hlen : (((x0 :: r).length : Nat) : Rat) ≠ 0 := by
      have : (x0 :: r).length ≠ 0 := by simp
      exact_mod_cast this
    have hm : mean ((x0 :: r).map fun x => a * x + c) = a * mean (x0 :: r) + c := by
      unfold mean
      rw [sum_map_affine, List.length_map]
      field_simp
    unfold center
    rw [hm, List.map_map, List.map_map]
    apply List.map_congr_left
    intro x _
    simp only [Function.comp]
    ring

theorem dot_smul (a : Rat) (u v : List Rat) : dot (u.map (a * ·)) (v.map (a * ·)) = a * a * dot u v := by
  induction u generalizing v with
  | nil => simp [dot]
  | cons x u ih =>
    cases v with
    | nil => simp [dot]
    | cons y v => simp only [List.map_cons, dot_cons, ih]; ring

theorem rot_map (g : Rat → Rat) (y : List Rat) (t : Nat) : rot (y.map g) t = (rot y t).map g := by
  simp [rot, List.map_drop, List.map_take]

/-- the normalised autocorrelation of one observable does not see shifts and non-zero rescalings -/
theorem colAutocorr_affine (a c : Rat) (ha : a ≠ 0) (xs : List Rat) (t : Nat) :
    colAutocorr (xs.map fun x => a * x + c) t = colAutocorr xs t := by
  unfold colAutocorr
  rw [center_affine, rot_map, dot_smul, dot_smul]
  have : a * a ≠ 0 := mul_ne_zero ha ha
  rw [mul_div_mul_left _ _ this]

theorem colAutocorr_zero {xs : List Rat} (h : dot (center xs) (center xs) ≠ 0) : colAutocorr xs 0 = 1 := by
  unfold colAutocorr
  rw [rot_zero, div_self h]

theorem length_center (xs : List Rat) : (center xs).length = xs.length := by simp [center]

theorem colAutocorr_symm (xs : List Rat) (t : Nat) (ht : t ≤ xs.length) :
    colAutocorr xs t = colAutocorr xs (xs.length - t) := by
  unfold colAutocorr
  have := dot_rot_symm (center xs) t (by rw [length_center]; exact ht)
  rw [length_center] at this
  rw [this]

theorem sum_map_const_one (l : List Nat) : (l.map fun _ => (1 : Rat)).sum = (l.length : Rat) := by
  induction l with
  | nil => simp
  | cons x r ih => simp only [List.map_cons, List.sum_cons, List.length_cons, ih]; push_cast; ring

/-! ### spin products: every listed index multiplies once -/

/-- the product `calculate_spin_product_autocorrelation` forms for one list of variables -/
def spinProd (state : List Bool) (vs : List Nat) : Rat :=
  (vs.map fun v => spinVal (state.getD v false)).foldl (· * ·) 1

theorem foldl_mul_eq (a : Rat) (l : List Rat) : l.foldl (· * ·) a = a * l.foldl (· * ·) 1 := by
  induction l generalizing a with
  | nil => simp
  | cons x r ih => simp only [List.foldl_cons]; rw [ih (a * x), ih (1 * x)]; ring

theorem spinProd_nil (state : List Bool) : spinProd state [] = 1 := rfl

theorem spinProd_cons (state : List Bool) (v : Nat) (vs : List Nat) :
    spinProd state (v :: vs) = spinVal (state.getD v false) * spinProd state vs := by
  unfold spinProd
  simp only [List.map_cons, List.foldl_cons]
  rw [foldl_mul_eq]; ring

theorem spinProd_append (state : List Bool) (a b : List Nat) :
    spinProd state (a ++ b) = spinProd state a * spinProd state b := by
  induction a with
  | nil => simp [spinProd_nil]
  | cons v r ih => rw [List.cons_append, spinProd_cons, spinProd_cons, ih]; ring

theorem spinVal_sq (b : Bool) : spinVal b * spinVal b = 1 := by
  cases b <;> simp [spinVal]

theorem prodMapper_eq (prods : List (List Nat)) (state : List Bool) :
    prodMapper prods state = prods.map (spinProd state) := rfl

end Qmc
