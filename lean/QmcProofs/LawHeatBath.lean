import QmcProofs.LawSweep
import QmcProofs.HeatBath

/-!
# Heat-bath diagonal update: refinement, law of a slot visit = `slotKHB`, law of the sweep = `sweepKHB`

* `heatBathSlot_refines`, `heatBathSweep_refines` — **refinement** on every script: attempt `flip`, then the node
  `Draw.hbPick` (the two `gen_range` calls `u`, `x`, the cumulative search and the rejection test, margins
  recorded in the model's order), resp. the removal `flip`.
* `law_heatBathSlot` — **law = kernel** for one slot, for a valid table (`0 < bw.sum`, every entry dominates
  the bond's diagonal weights, one entry per bond).  The weights of `Draw.hbPick` are the idealised
  *continuous-uniform* values: bond `b` with probability `bw[b]/W`, accepted with probability
  `w_b/bw[b]` (clipped to `[0,1]`); that the `2^-52` grid of `gen_range(0.0..t)` realises them up to `2^-52` is
  C08's `cumulative_pick/width`, `hb_accept_threshold` — not part of the law.
* `law_heatBathSweep`, `heatBathSweep_law_invariant(_on)`, `heatBathSweep_law_rowSum`.
-/

open Finset

namespace Qmc.Law
open Qmc Qmc.Kernel Qmc.Dist

theorem bwTotal_eq {bw : BW} {W : Rat} (h : bwTotal bw = some W) : W = bw.sum ∧ bw ≠ [] := by
  unfold bwTotal at h
  split at h
  · cases h
  · rename_i hne
    cases h
    exact ⟨rfl, fun e => hne (by rw [e]; rfl)⟩

theorem heatBathSlot_refines (H : Ham) (bw : BW) (β : Rat) (L : Nat) (slot : Option Op) (st : List Bool)
    (n : Nat) (rs : RS) :
    heatBathSlot H bw β L slot st n rs =
      ((heatBathSlotT H bw β L slot st n).run rs).1.withRS ((heatBathSlotT H bw β L slot st n).run rs).2 := by
  unfold heatBathSlot heatBathSlotT
  cases slot with
  | none =>
    simp only
    cases hW : bwTotal bw with
    | none => rfl
    | some W =>
      obtain ⟨hWs, -⟩ := bwTotal_eq hW
      simp only
      split
      · rfl
      · split
        · rfl
        · simp only [PT.run_flip]
          cases hgo : (rs.genBool (β * W / (((L - n : Nat) : Rat) + β * W))).1
          · simp [SlotOut.withRS]
          · simp only [Bool.not_true, Bool.false_eq_true, if_false, if_true, PT.run_node, Draw.hbPick, ← hWs]
            generalize (rs.genBool (β * W / (((L - n : Nat) : Rat) + β * W))).2.genRangeF 1 = g1
            generalize g1.2.genRangeF W = g2
            generalize indexForCumulative (cumul bw) g2.1 = b
            have hd1 : (2 * b + 1) / 2 = b := by omega
            have hd0 : 2 * b / 2 = b := by omega
            have hm1 : (2 * b + 1) % 2 = 1 := by omega
            have hm0 : ¬ (2 * b % 2 = 1) := by omega
            by_cases hg : bw.length ≤ b ∨ varsInRange st (H.vars b) = false
            · have hok : (!(decide (bw.length ≤ b) || !(varsInRange st (H.vars b)))) = false := by
                rcases hg with h | h
                · simp [h]
                · simp [h]
              simp only [if_pos hg, hok, Bool.false_eq_true, if_false, hd0, PT.run_panic, PT.run_ret,
                SlotRes.panic, SlotOut.withRS]
            · have hok : (!(decide (bw.length ≤ b) || !(varsInRange st (H.vars b)))) = true := by
                have h1 : ¬ bw.length ≤ b := fun h => hg (Or.inl h)
                have h2 : varsInRange st (H.vars b) = true := by
                  cases hv : varsInRange st (H.vars b)
                  · exact absurd (Or.inr hv) hg
                  · rfl
                simp [h1, h2]
              simp only [if_neg hg, hok, if_true]
              by_cases hc : g1.1 * bw.getD b 0 <
                  H.w b (readVars st (H.vars b)) (readVars st (H.vars b))
              · simp only [if_pos hc, hd1, hm1, if_neg hg, if_true, PT.run_ret, SlotOut.withRS]
              · simp only [if_neg hc, hd0, hm0, if_neg hg, if_false, PT.run_ret, SlotOut.withRS]
  | some op =>
    simp only
    split
    · cases hW : bwTotal bw with
      | none => rfl
      | some W =>
        simp only
        split
        · rfl
        · split
          · rfl
          · simp only [PT.run_flip]
            split <;> rfl
    · rfl


/-- **refinement of the heat-bath sweep** -/
theorem heatBathSweep_refines (H : Ham) (bw : BW) (β : Rat) (cutoff : Nat) (c : Config) (rs : RS) :
    heatBathSweep H bw β cutoff c rs = (heatBathSweepT H bw β cutoff c).run rs := by
  unfold heatBathSweep heatBathSweepT
  rw [sweep_refines _ _ (heatBathSlot_refines H bw β cutoff), PT.run_map]

/-! ### leaves -/

/-- the accepted outcome `2b+1` of `hbPick` matters only if its threshold is positive -/
theorem All_hbNode_w {P : SlotOut → Prop} (bw : BW) (ok : Nat → Bool) (thr : Nat → Rat) (k : Nat → PT SlotOut)
    (h : ∀ b, b < bw.length → PT.All P (k (2 * b)) ∧ (0 < thr b → PT.All P (k (2 * b + 1)))) :
    PT.All P (PT.node (Draw.hbPick bw ok thr) k) := by
  intro i hi hw
  have hi' : i < 2 * bw.length := hi
  rcases Nat.mod_two_eq_zero_or_one i with h0 | h1
  · have : i = 2 * (i / 2) := by omega
    rw [this]; exact (h (i / 2) (by omega)).1
  · have e : i = 2 * (i / 2) + 1 := by omega
    have hpos : 0 < thr (i / 2) := by
      by_contra hc
      apply hw
      simp only [Draw.hbPick, h1, if_true, if_pos (not_lt.mp hc)]
      split <;> simp
    rw [e]; exact (h (i / 2) (by omega)).2 hpos

theorem All_hbNode {P : SlotOut → Prop} (bw : BW) (ok : Nat → Bool) (thr : Nat → Rat) (k : Nat → PT SlotOut)
    (h : ∀ b, b < bw.length → PT.All P (k (2 * b)) ∧ PT.All P (k (2 * b + 1))) :
    PT.All P (PT.node (Draw.hbPick bw ok thr) k) :=
  All_hbNode_w bw ok thr k (fun b hb => ⟨(h b hb).1, fun _ => (h b hb).2⟩)

theorem heatBathSlotT_leafOK (H : Ham) (bw : BW) (β : Rat) (L : Nat) : SlotLeafOK (heatBathSlotT H bw β L) := by
  intro s st n
  unfold heatBathSlotT
  cases s with
  | none =>
    simp only
    split
    · exact PT.All_panic _
    · split
      · exact PT.All_panic _
      · split
        · exact PT.All_panic _
        · refine PT.All_flip (All_hbNode _ _ _ _ (fun b _ => ?_)) ⟨rfl, fun st' => rfl, fun _ => rfl⟩
          have hd1 : (2 * b + 1) / 2 = b := by omega
          have hd0 : 2 * b / 2 = b := by omega
          have hm1 : (2 * b + 1) % 2 = 1 := by omega
          have hm0 : ¬ (2 * b % 2 = 1) := by omega
          simp only [hd0, hd1, hm1, hm0, if_true, if_false]
          constructor
          · split
            · exact PT.All_panic _
            · exact ⟨rfl, fun st' => rfl, fun _ => rfl⟩
          · split
            · exact PT.All_panic _
            · exact ⟨rfl, fun st' => by simp [rollState, Op.diagonal], fun _ => by simp [cnt]⟩
  | some op =>
    simp only
    split
    · rename_i hd
      split
      · exact PT.All_panic _
      · split
        · exact PT.All_panic _
        · split
          · exact PT.All_panic _
          · refine PT.All_flip ?_ ?_
            · refine ⟨by simp [rollState, hd], fun st' => by simp [rollState, hd], fun h => ?_⟩
              have := h rfl
              simp [cnt]; omega
            · exact ⟨by simp [rollState, hd], fun st' => rfl, fun _ => rfl⟩
    · rename_i hd
      exact ⟨by simp [rollState, hd], fun st' => rfl, fun _ => rfl⟩

theorem heatBathSlotT_slots (H : Ham) (bw : BW) (β : Rat) (L : Nat) (s : Option Op) (st : List Bool) (n : Nat) :
    PT.All (fun r : SlotOut => r.slot = s ∨
      (s = none ∧ ∃ b, b < bw.length ∧ H.w b (readVars st (H.vars b)) (readVars st (H.vars b)) ≠ 0 ∧
        r.slot = some (Op.diagonal (H.vars b) b (readVars st (H.vars b)) (H.const b))) ∨
      (∃ o, s = some o ∧ o.tagDiag = true ∧ r.slot = none)) (heatBathSlotT H bw β L s st n) := by
  unfold heatBathSlotT
  cases s with
  | none =>
    simp only
    split
    · exact PT.All_panic _
    · split
      · exact PT.All_panic _
      · split
        · exact PT.All_panic _
        · refine PT.All_flip (All_hbNode_w _ _ _ _ (fun b hb => ?_)) (Or.inl rfl)
          have hd1 : (2 * b + 1) / 2 = b := by omega
          have hd0 : 2 * b / 2 = b := by omega
          have hm1 : (2 * b + 1) % 2 = 1 := by omega
          have hm0 : ¬ (2 * b % 2 = 1) := by omega
          simp only [hd0, hd1, hm1, hm0, if_true, if_false]
          constructor
          · split
            · exact PT.All_panic _
            · exact Or.inl rfl
          · intro hpos
            split
            · exact PT.All_panic _
            · exact Or.inr (Or.inl ⟨trivial, b, hb, ne_of_gt hpos, rfl⟩)
  | some op =>
    simp only
    split
    · rename_i hd
      split
      · exact PT.All_panic _
      · split
        · exact PT.All_panic _
        · split
          · exact PT.All_panic _
          · exact PT.All_flip (Or.inr (Or.inr ⟨op, rfl, hd, rfl⟩)) (Or.inl rfl)
    · exact Or.inl rfl

theorem slotCfgT_heatBath_closed (H : Ham) (bw : BW) (β : Rat) (L : Nat) (hlen : bw.length = H.nbonds)
    (S : Finset Config) (hcl : SlotClosed H S) (a : Config) (ha : a ∈ S)
    (hleg : DiagLegal H a) (q : Nat) (hq : q < a.slots.length) :
    PT.All (fun b => b ∈ S) (slotCfgT (heatBathSlotT H bw β L) q a) := by
  unfold slotCfgT
  have hs := getElem?_getD hq
  refine PT.All_map _ (heatBathSlotT_slots H bw β L _ _ _) (fun r hr => ?_)
  rcases hr with h | ⟨hn, b, hb, hwb, h⟩ | ⟨o, ho, hd, h⟩
  · rw [h, setSlot_self hs]; exact ha
  · rw [hn] at hs
    rcases hcl q b (hlen ▸ hb) a ha with this | ⟨-, hz⟩
    · rw [slotFlip_empty hs] at this
      rw [h]; exact this
    · exact absurd hz hwb
  · rw [ho] at hs
    obtain ⟨hb, hcanon⟩ := hleg.op hs hd
    rcases hcl q o.bond hb a ha with this | ⟨hn, -⟩
    · rw [slotFlip_canon (by rw [hs, ← hcanon])] at this
      rw [h]; exact this
    · rw [hs] at hn; cases hn

/-! ### law of one heat-bath slot visit -/

theorem sum_range_two_mul (n : Nat) (f : Nat → Rat) :
    ∑ i ∈ Finset.range (2 * n), f i = ∑ b ∈ Finset.range n, (f (2 * b) + f (2 * b + 1)) := by
  induction n with
  | zero => simp
  | succ k ih =>
    rw [show 2 * (k + 1) = 2 * k + 1 + 1 by ring, Finset.sum_range_succ, Finset.sum_range_succ, ih,
      Finset.sum_range_succ]
    ring

theorem sum_range_getD : ∀ (ws : List Rat), ∑ b ∈ Finset.range ws.length, ws.getD b 0 = ws.sum
  | [] => by simp
  | x :: t => by
    rw [List.length_cons, Finset.sum_range_succ', List.sum_cons]
    have := sum_range_getD t
    simp only [List.getD_cons_succ, List.getD_cons_zero]
    rw [this]; ring

theorem hb_acc_eq {t m : Rat} (h0 : 0 ≤ t) (h1 : t ≤ m) :
    (if t ≤ 0 then 0 else if m ≤ t then 1 else t / m) = t / m := by
  by_cases ht : t ≤ 0
  · have : t = 0 := le_antisymm ht h0
    rw [if_pos ht, this]; simp
  · rw [if_neg ht]
    have htp : 0 < t := not_le.mp ht
    by_cases hm : m ≤ t
    · have : m = t := le_antisymm hm h1
      rw [if_pos hm, this, div_self (ne_of_gt htp)]
    · rw [if_neg hm]

/-- algebra of the empty-slot case of the heat bath -/
theorem hb_empty_algebra (n : Nat) (q W : Rat) (hW : W ≠ 0) (mw a : Nat → Rat)
    (hsum : ∑ b ∈ Finset.range n, mw b = W) (cb : Nat → Config) (c c' : Config)
    (hne : ∀ b, b < n → cb b ≠ c) :
    q * (∑ b ∈ Finset.range n, (mw b / W * (1 - a b) * (if c' = c then 1 else 0) +
          mw b / W * a b * (if c' = cb b then 1 else 0))) + (1 - q) * (if c' = c then 1 else 0) =
      (∑ b ∈ Finset.range n, if c' = cb b ∧ cb b ≠ c then q * (mw b / W) * a b else 0) +
        (if c' = c then 1 - ∑ b ∈ Finset.range n, (if cb b ≠ c then q * (mw b / W) * a b else 0) else 0) := by
  have hsumW : ∑ b ∈ Finset.range n, mw b / W = 1 := by
    rw [← Finset.sum_div, hsum, div_self hW]
  by_cases h0 : c' = c
  · have h1 : ∀ b ∈ Finset.range n, (if c' = cb b ∧ cb b ≠ c then q * (mw b / W) * a b else 0) = 0 := by
      intro b hb
      rw [if_neg]
      rintro ⟨e, hne'⟩
      exact hne' (e ▸ h0)
    have h2 : ∀ b ∈ Finset.range n, (if cb b ≠ c then q * (mw b / W) * a b else 0) = q * (mw b / W) * a b := by
      intro b hb
      rw [if_pos (hne b (Finset.mem_range.mp hb))]
    have h3 : ∀ b ∈ Finset.range n, (mw b / W * (1 - a b) * (if c' = c then 1 else 0) +
          mw b / W * a b * (if c' = cb b then 1 else 0)) = mw b / W - mw b / W * a b := by
      intro b hb
      have : ¬ c' = cb b := fun e => hne b (Finset.mem_range.mp hb) (e ▸ h0)
      rw [if_neg this, if_pos h0]; ring
    rw [Finset.sum_congr rfl h1, Finset.sum_congr rfl h2, Finset.sum_congr rfl h3, Finset.sum_const_zero,
      Finset.sum_sub_distrib, hsumW, if_pos h0, if_pos h0]
    have : ∑ b ∈ Finset.range n, q * (mw b / W) * a b = q * ∑ b ∈ Finset.range n, mw b / W * a b := by
      rw [Finset.mul_sum]; exact Finset.sum_congr rfl (fun b _ => by ring)
    rw [this]; ring
  · rw [if_neg h0 (t := 1 - ∑ b ∈ Finset.range n, (if cb b ≠ c then q * (mw b / W) * a b else 0)), add_zero,
      if_neg h0, mul_zero, add_zero, Finset.mul_sum]
    refine Finset.sum_congr rfl (fun b hb => ?_)
    by_cases h1 : c' = cb b
    · rw [if_pos h1, if_pos ⟨h1, hne b (Finset.mem_range.mp hb)⟩]; ring
    · rw [if_neg h1, if_neg (fun h => h1 h.1)]; ring


/-- row of `movesK` at a point that only the proposal `i₀` moves -/
theorem movesK_row_single {α ι : Type} [DecidableEq α] [Fintype ι] [DecidableEq ι] (f : ι → α → α)
    (A : ι → α → Rat) (a a' : α) (i₀ : ι) (hmove : f i₀ a ≠ a) (hfix : ∀ i, i ≠ i₀ → f i a = a) :
    movesK f A a a' = (if a' = f i₀ a then A i₀ a else 0) + (if a' = a then 1 - A i₀ a else 0) := by
  unfold movesK
  rw [Finset.sum_eq_single i₀, Finset.sum_eq_single i₀]
  · simp [hmove]
  · intro i _ hi; rw [hfix i hi]; simp
  · intro h; exact absurd (Finset.mem_univ _) h
  · intro i _ hi; rw [hfix i hi]; simp
  · intro h; exact absurd (Finset.mem_univ _) h

/-- row of `movesK` at a point no proposal moves -/
theorem movesK_row_fixed {α ι : Type} [DecidableEq α] [Fintype ι] (f : ι → α → α)
    (A : ι → α → Rat) (a a' : α) (hfix : ∀ i, f i a = a) :
    movesK f A a a' = if a' = a then 1 else 0 := by
  unfold movesK
  simp [hfix]

/-- **law of one heat-bath slot visit = row of `slotKHB`** (valid table with one entry per bond) -/
theorem law_heatBathSlot (H : Ham) (bw : BW) (β : Rat) (hβ : 0 ≤ β) (hW : 0 < bw.sum)
    (hw : ∀ b i, 0 ≤ H.w b i i)
    (htab : ∀ b, b < bw.length → ∀ st : List Bool,
      H.w b (readVars st (H.vars b)) (readVars st (H.vars b)) ≤ bw.getD b 0)
    (hlen : bw.length = H.nbonds)
    (c : Config) (p : Nat) (s : Option Op) (hs : c.slots[p]? = some s) (hleg : SlotLegal H c p)
    (c' : Config) :
    PT.law (PT.map (fun r : SlotOut => setSlot c p r.slot)
      (heatBathSlotT H bw β c.slots.length s (stateAt c p) (countOps c.slots))) c' =
        slotKHB H bw β p c c' := by
  have hp := lt_of_getElem? hs
  have hnL : ¬ (c.slots.length < countOps c.slots) := not_lt.mpr (countOps_le c.slots)
  have hbt : bwTotal bw = some bw.sum := by
    unfold bwTotal
    rw [if_neg]
    intro he
    have : bw = [] := List.isEmpty_iff.mp he
    rw [this] at hW; simp at hW
  have hβW : 0 ≤ β * bw.sum := mul_nonneg hβ (le_of_lt hW)
  cases s with
  | none =>
    have hsplit := slots_split hs
    have hn : countOps c.slots < c.slots.length := by
      rw [hsplit]; exact countOps_split_none _ _
    have hLn : (0 : Rat) < ((c.slots.length - countOps c.slots : Nat) : Rat) := by
      have : 0 < c.slots.length - countOps c.slots := by omega
      exact_mod_cast this
    have hden : (0 : Rat) < ((c.slots.length - countOps c.slots : Nat) : Rat) + β * bw.sum := by linarith
    have hself : setSlot c p none = c := setSlot_self hs
    have hvalid : 0 < bw.sum ∧ ∀ x ∈ bw, 0 ≤ x := by
      refine ⟨hW, fun x hx => ?_⟩
      obtain ⟨b, hb, rfl⟩ := List.getElem_of_mem hx
      have h1 := htab b hb []
      have h2 := hw b (readVars [] (H.vars b))
      have : bw.getD b 0 = bw[b] := by
        rw [List.getD_eq_getElem?_getD, List.getElem?_eq_getElem hb]; rfl
      rw [this] at h1
      linarith
    unfold heatBathSlotT
    simp only [hbt, if_neg hnL, if_neg (ne_of_gt hden)]
    rw [PT.map_flip, PT.law_flip (div_nonneg hβW (le_of_lt hden)) ((div_le_one hden).mpr (by linarith)),
      PT.map_node, PT.law_node]
    simp only [PT.map_ret, PT.law_ret, hself]
    have hn2 : (Draw.hbPick bw (fun b => !(decide (bw.length ≤ b) || !(varsInRange (stateAt c p) (H.vars b))))
        (fun b => H.w b (readVars (stateAt c p) (H.vars b)) (readVars (stateAt c p) (H.vars b)))).n =
        2 * bw.length := rfl
    rw [hn2, sum_range_two_mul]
    have hT : ∀ b ∈ Finset.range bw.length,
        ((Draw.hbPick bw (fun b => !(decide (bw.length ≤ b) || !(varsInRange (stateAt c p) (H.vars b))))
            (fun b => H.w b (readVars (stateAt c p) (H.vars b)) (readVars (stateAt c p) (H.vars b)))).w (2 * b) *
          PT.law (PT.map (fun r : SlotOut => setSlot c p r.slot)
            (if bw.length ≤ 2 * b / 2 ∨ varsInRange (stateAt c p) (H.vars (2 * b / 2)) = false then
              PT.panic (PT.ret ⟨none, stateAt c p, countOps c.slots⟩)
            else if 2 * b % 2 = 1 then
              PT.ret ⟨some (Op.diagonal (H.vars (2 * b / 2)) (2 * b / 2)
                (readVars (stateAt c p) (H.vars (2 * b / 2))) (H.const (2 * b / 2))), stateAt c p,
                countOps c.slots + 1⟩
            else PT.ret ⟨none, stateAt c p, countOps c.slots⟩)) c' +
        (Draw.hbPick bw (fun b => !(decide (bw.length ≤ b) || !(varsInRange (stateAt c p) (H.vars b))))
            (fun b => H.w b (readVars (stateAt c p) (H.vars b)) (readVars (stateAt c p) (H.vars b)))).w (2 * b + 1) *
          PT.law (PT.map (fun r : SlotOut => setSlot c p r.slot)
            (if bw.length ≤ (2 * b + 1) / 2 ∨ varsInRange (stateAt c p) (H.vars ((2 * b + 1) / 2)) = false then
              PT.panic (PT.ret ⟨none, stateAt c p, countOps c.slots⟩)
            else if (2 * b + 1) % 2 = 1 then
              PT.ret ⟨some (Op.diagonal (H.vars ((2 * b + 1) / 2)) ((2 * b + 1) / 2)
                (readVars (stateAt c p) (H.vars ((2 * b + 1) / 2))) (H.const ((2 * b + 1) / 2))), stateAt c p,
                countOps c.slots + 1⟩
            else PT.ret ⟨none, stateAt c p, countOps c.slots⟩)) c') =
        bw.getD b 0 / bw.sum * (1 - curW H c p b / bw.getD b 0) * (if c' = c then 1 else 0) +
          bw.getD b 0 / bw.sum * (curW H c p b / bw.getD b 0) *
            (if c' = setSlot c p (some (canonOp H c p b)) then 1 else 0) := by
      intro b hb
      have hb' := Finset.mem_range.mp hb
      have hd1 : (2 * b + 1) / 2 = b := by omega
      have hd0 : 2 * b / 2 = b := by omega
      have hm1 : (2 * b + 1) % 2 = 1 := by omega
      have hm0 : ¬ (2 * b % 2 = 1) := by omega
      have hg : ¬ (bw.length ≤ b ∨ varsInRange (stateAt c p) (H.vars b) = false) := by
        rw [hleg.1 b (hlen ▸ hb')]; simp; exact hb'
      have hacc := hb_acc_eq (hw b (readVars (stateAt c p) (H.vars b))) (htab b hb' (stateAt c p))
      simp only [hd0, hd1, hm1, hm0, if_neg hg, if_true, if_false, PT.map_ret, PT.law_ret, hself,
        Draw.hbPick, if_pos hvalid, hacc]
      rfl
    rw [Finset.sum_congr rfl hT]
    unfold slotKHB movesK
    rw [Fin.sum_univ_eq_sum_range (fun b => if c' = slotFlip H p b c ∧ slotFlip H p b c ≠ c then
        slotProbHB H bw β p b c else 0) bw.length,
      Fin.sum_univ_eq_sum_range (fun b => if slotFlip H p b c ≠ c then slotProbHB H bw β p b c else 0) bw.length]
    have hR1 : ∀ b ∈ Finset.range bw.length,
        (if c' = slotFlip H p b c ∧ slotFlip H p b c ≠ c then slotProbHB H bw β p b c else 0) =
        (if c' = setSlot c p (some (canonOp H c p b)) ∧ setSlot c p (some (canonOp H c p b)) ≠ c then
          β * bw.sum / (((c.slots.length - countOps c.slots : Nat) : Rat) + β * bw.sum) *
            (bw.getD b 0 / bw.sum) * (curW H c p b / bw.getD b 0) else 0) := by
      intro b _
      rw [slotFlip_empty hs]
      simp only [slotProbHB, hs, pInsertHB]
    have hR2 : ∀ b ∈ Finset.range bw.length,
        (if slotFlip H p b c ≠ c then slotProbHB H bw β p b c else 0) =
        (if setSlot c p (some (canonOp H c p b)) ≠ c then
          β * bw.sum / (((c.slots.length - countOps c.slots : Nat) : Rat) + β * bw.sum) *
            (bw.getD b 0 / bw.sum) * (curW H c p b / bw.getD b 0) else 0) := by
      intro b _
      rw [slotFlip_empty hs]
      simp only [slotProbHB, hs, pInsertHB]
    rw [Finset.sum_congr rfl hR1, Finset.sum_congr rfl hR2]
    exact hb_empty_algebra bw.length _ bw.sum (ne_of_gt hW) (fun b => bw.getD b 0)
      (fun b => curW H c p b / bw.getD b 0) (sum_range_getD bw)
      (fun b => setSlot c p (some (canonOp H c p b))) c c' (fun b _ => setSlot_ne_of hs (by simp))
  | some op =>
    have hself : setSlot c p (some op) = c := setSlot_self hs
    by_cases hd : op.tagDiag = true
    · obtain ⟨hb0, hcanon⟩ := hleg.2 op hs hd
      have hb0' : op.bond < bw.length := hlen ▸ hb0
      have hne : setSlot c p none ≠ c := setSlot_ne_of hs (by simp)
      have hflip0 : slotFlip H p op.bond c = setSlot c p none := by
        apply slotFlip_canon; rw [hs, ← hcanon]
      have hflip : ∀ b, b ≠ op.bond → slotFlip H p b c = c := by
        intro b hb
        unfold slotFlip
        simp only [hs]
        rw [if_neg]
        intro e
        rw [hcanon] at e
        exact hb (canonOp_inj e).symm
      have hnum : (0 : Rat) < ((c.slots.length - countOps c.slots + 1 : Nat) : Rat) := by
        exact_mod_cast Nat.succ_pos _
      have hden : (0 : Rat) < ((c.slots.length - countOps c.slots + 1 : Nat) : Rat) + β * bw.sum := by linarith
      unfold heatBathSlotT
      simp only [hd, if_true, hbt, if_neg hnL, if_neg (ne_of_gt hden)]
      rw [PT.map_flip, PT.law_flip (div_nonneg (le_of_lt hnum) (le_of_lt hden))
        ((div_le_one hden).mpr (by linarith))]
      simp only [PT.map_ret, PT.law_ret, hself]
      unfold slotKHB
      rw [movesK_row_single (fun b : Fin bw.length => slotFlip H p b.val) _ c c' ⟨op.bond, hb0'⟩
        (by simp only; rw [hflip0]; exact hne)
        (fun i hi => hflip i.val (fun e => hi (Fin.ext e)))]
      simp only [hflip0, slotProbHB, hs, pRemoveHB]
      by_cases h1 : c' = setSlot c p none
      · have h2 : ¬ c' = c := fun e => hne (h1 ▸ e)
        simp [h1, hne]
      · simp [h1]
    · have hflip : ∀ b, slotFlip H p b c = c := by
        intro b
        unfold slotFlip
        simp only [hs]
        rw [if_neg]
        intro e
        apply hd
        rw [e]; rfl
      have hd' : op.tagDiag = false := by simpa using hd
      unfold heatBathSlotT slotKHB
      rw [movesK_row_fixed (fun b : Fin bw.length => slotFlip H p b.val)
        (fun b : Fin bw.length => slotProbHB H bw β p b.val) c c' (fun b => hflip b.val)]
      simp only [hd', Bool.false_eq_true, if_false, PT.map_ret, PT.law_ret]
      rw [hself]


/-! ### law of the heat-bath sweep -/

/-- **law of the heat-bath sweep = `sweepKHB`**, on every finite set `S` of legal configurations with `L`
slots that the diagonal proposals do not leave; valid table with one entry per bond -/
theorem law_heatBathSweep (H : Ham) (bw : BW) (β : Rat) (hβ : 0 ≤ β) (hW : 0 < bw.sum)
    (hw : ∀ b i, 0 ≤ H.w b i i)
    (htab : ∀ b, b < bw.length → ∀ st : List Bool,
      H.w b (readVars st (H.vars b)) (readVars st (H.vars b)) ≤ bw.getD b 0)
    (hlen : bw.length = H.nbonds) (S : Finset Config) (L : Nat) (hcl : SlotClosed H S)
    (hleg : ∀ c ∈ S, DiagLegal H c ∧ c.slots.length = L) :
    lawK S (heatBathSweepT H bw β L) = sweepKHB H bw β S L := by
  refine law_sweep_eq_compList (heatBathSlotT H bw β L) (heatBathSlotT_leafOK H bw β L) (slotKHB H bw β) S L
    (fun q hq a ha => ?_) (fun c hc => ⟨(hleg c hc).1.2.2, (hleg c hc).2⟩) (fun q hq a ha b => ?_)
  · obtain ⟨hl, hL⟩ := hleg a ha
    exact slotCfgT_heatBath_closed H bw β L hlen S hcl a ha hl q (by omega)
  · obtain ⟨hl, hL⟩ := hleg a ha
    unfold slotCfgT
    have := law_heatBathSlot H bw β hβ hW hw htab hlen a q _ (getElem?_getD (by omega)) (hl.slotLegal q) b
    rw [hL] at this
    exact this

theorem slotKHB_rowSumOn_w (H : Ham) (bw : BW) (β : Rat) (p : Nat) (hlen : bw.length = H.nbonds)
    {S : Finset Config} (hcl : SlotClosed H S) : RowSumOn S (slotKHB H bw β p) := by
  refine movesK_rowSumOn_of_zero (fun b c hc => ?_)
  rcases hcl p b.val (hlen ▸ b.isLt) c hc with h | ⟨h1, h2⟩
  · exact Or.inl h
  · right
    simp only [slotProbHB, h1, h2, pInsertHB_zero]

theorem sweepKHB_invariant_of_slotClosed (H : Ham) (bw : BW) (β : Rat) (hβ : 0 < β) (hW : 0 < bw.sum)
    (hw : ∀ b i, 0 ≤ H.w b i i)
    (htab : ∀ b, b < bw.length → ∀ st : List Bool,
      H.w b (readVars st (H.vars b)) (readVars st (H.vars b)) ≤ bw.getD b 0)
    (hlen : bw.length = H.nbonds) (S : Finset Config) (hcl : SlotClosed H S) (L : Nat) :
    Invariant (sseOn H β S) (sweepKHB H bw β S L) := by
  refine invariant_compList _ (fun K hK => ?_)
  obtain ⟨p, -, rfl⟩ := List.mem_map.mp hK
  exact reversible_invariantOn (slotKHB_reversible H bw β hβ hW hw htab p)
    (slotKHB_rowSumOn_w H bw β p hlen hcl)

theorem sweepKHB_rowSum_of_slotClosed (H : Ham) (bw : BW) (β : Rat) (hlen : bw.length = H.nbonds)
    (S : Finset Config) (hcl : SlotClosed H S) (L : Nat) :
    RowSum (sweepKHB H bw β S L) := by
  refine rowSum_compList _ (fun K hK => ?_)
  obtain ⟨p, -, rfl⟩ := List.mem_map.mp hK
  exact restr_rowSum (slotKHB_rowSumOn_w H bw β p hlen hcl)

/-- **the idealised law of the executable heat-bath sweep leaves the SSE weight invariant** -/
theorem heatBathSweep_law_invariant_on (H : Ham) (bw : BW) (β : Rat) (hβ : 0 < β) (hW : 0 < bw.sum)
    (hw : ∀ b i, 0 ≤ H.w b i i)
    (htab : ∀ b, b < bw.length → ∀ st : List Bool,
      H.w b (readVars st (H.vars b)) (readVars st (H.vars b)) ≤ bw.getD b 0)
    (hlen : bw.length = H.nbonds) (S : Finset Config) (L : Nat) (hcl : SlotClosed H S)
    (hleg : ∀ c ∈ S, DiagLegal H c ∧ c.slots.length = L) :
    Invariant (sseOn H β S) (lawK S (heatBathSweepT H bw β L)) := by
  rw [law_heatBathSweep H bw β (le_of_lt hβ) hW hw htab hlen S L hcl hleg]
  exact sweepKHB_invariant_of_slotClosed H bw β hβ hW hw htab hlen S hcl L

/-- … with the table the code builds (`makeBondWeights H`), on all legal configurations -/
theorem heatBathSweep_law_invariant (H : Ham) (β : Rat) (hβ : 0 < β) (hW : 0 < (makeBondWeights H).sum)
    (hw : ∀ b i, 0 ≤ H.w b i i) (N L : Nat) :
    Invariant (sseOn H β (legalSpace H N L))
      (lawK (legalSpace H N L) (heatBathSweepT H (makeBondWeights H) β L)) :=
  heatBathSweep_law_invariant_on H _ β hβ hW hw (makeBondWeights_valid H) (makeBondWeights_length H) _ L
    (legalSpace_slotClosed H N L) (legalSpace_legal H N L)

theorem heatBathSweep_law_rowSum (H : Ham) (β : Rat) (hβ : 0 ≤ β) (hW : 0 < (makeBondWeights H).sum)
    (hw : ∀ b i, 0 ≤ H.w b i i) (N L : Nat) :
    RowSum (lawK (legalSpace H N L) (heatBathSweepT H (makeBondWeights H) β L)) := by
  rw [law_heatBathSweep H _ β hβ hW hw (makeBondWeights_valid H) (makeBondWeights_length H) _ L
    (legalSpace_slotClosed H N L) (legalSpace_legal H N L)]
  exact sweepKHB_rowSum_of_slotClosed H _ β (makeBondWeights_length H) _ (legalSpace_slotClosed H N L) L

end Qmc.Law
