import QmcModel.Rvb
import Mathlib.Tactic.Linarith
import Mathlib.Data.List.Nodup

/-! The RVB move as a relation, soundness of the decider `isRvbMove`, and what the relation
preserves (consistency, legality, operator count). -/

namespace Qmc
namespace Rvb

/-! ### the relation -/

def OnBoundary (E : Ising) (st mask : List Bool) (b : Nat) : Prop := ∃ x ∈ boundary E st mask, x.1 = b

/-- admissible re-bonding of a rotatable operator `o` (diagonal, on a boundary bond): `o'` is a
diagonal operator on a boundary bond whose weight after the flip is positive, on that bond's two
variables, recording their flipped state; the constant flag is kept. -/
structure Rebond (E : Ising) (st mask : List Bool) (o o' : Op) : Prop where
  oldDiag : o.tagDiag = true ∧ o.outs = o.ins
  target : ∃ b wb wa u v j, (b, wb, wa) ∈ boundary E st mask ∧ o'.bond = b ∧
    E.edges.getD b (0, 0, 0) = (u, v, j) ∧ 0 < wa ∧ u ≠ v ∧ o'.vars = [u, v] ∧
    o'.ins = [getB (xorL st mask) u, getB (xorL st mask) v] ∧ u < st.length ∧ v < st.length
  newDiag : o'.outs = o'.ins ∧ o'.tagDiag = true ∧ o'.const = o.const
  pos : 0 < E.opW o'

/-- lock-step walk over both operator strings from slot `p`, with the running state `st` of the
`before` string and the membership `mask`; ends with membership `m` and remaining toggles `t`. -/
inductive Steps (E : Ising) : Nat → List Bool → List Bool → List Nat → Slots → Slots → List Bool → List Nat → Prop
  | nil (p st mask tog) : Steps E p st mask tog [] [] mask tog
  | skip (p st mask tog s s' m t) :
      Steps E (p + 1) st mask tog s s' m t → Steps E p st mask tog (none :: s) (none :: s') m t
  | rebond (p st mask tog o o' s s' m t) :
      inputsMatch st o = true → OnBoundary E st mask o.bond → Rebond E st mask o o' →
      Steps E (p + 1) (writeVars st o.vars o.outs) mask tog s s' m t →
      Steps E p st mask tog (some o :: s) (some o' :: s') m t
  | flip (p st mask tog o o' s s' m t) (isTog : Bool) (mask2 : List Bool) :
      inputsMatch st o = true → ¬ OnBoundary E st mask o.bond →
      isTog = (tog.head? == some p) →
      (isTog = true → o.const = true ∧ ∃ v, o.vars = [v] ∧ mask2 = toggleAt mask v) →
      (isTog = false → mask2 = mask ∧
        ((∀ v ∈ o.vars, getB mask v = true) ∨ (∀ v ∈ o.vars, getB mask v = false))) →
      o.vars.Nodup → o.ins.length = o.vars.length → o.outs.length = o.vars.length →
      o' = xorOp o mask mask2 isTog → 0 < E.opW o' →
      Steps E (p + 1) (writeVars st o.vars o.outs) mask2 (if isTog then tog.tail else tog) s s' m t →
      Steps E p st mask tog (some o :: s) (some o' :: s') m t

/-- `after` is an RVB move of `before` on region `R` -/
def RvbMove (E : Ising) (b a : Config) (R : Region) : Prop :=
  a.state = xorL b.state R.mask0 ∧ b.state.length = R.mask0.length ∧
  Steps E 0 b.state R.mask0 R.toggles b.slots a.slots R.mask0 []

/-! ### soundness of the decider -/

theorem any_boundary_iff (E : Ising) (st mask : List Bool) (b : Nat) :
    (boundary E st mask).any (·.1 == b) = true ↔ OnBoundary E st mask b := by
  unfold OnBoundary
  simp [List.any_eq_true]

theorem rebondOk_sound {E : Ising} {st mask : List Bool} {o o' : Op} (h : rebondOk E st mask o o' = true) :
    Rebond E st mask o o' := by
  unfold rebondOk at h
  simp only at h
  cases hfind : (boundary E st mask).find? (fun x => x.1 == o'.bond) with
  | none => rw [hfind] at h; cases h
  | some x =>
    obtain ⟨b, wb, wa⟩ := x
    rw [hfind] at h
    simp only at h
    have hmem := List.mem_of_find?_eq_some hfind
    have hb : b = o'.bond := by
      have := List.find?_some hfind
      simpa using this
    rcases hed : E.edges.getD b (0, 0, 0) with ⟨u, v, j⟩
    rw [hed] at h
    simp only [Bool.and_eq_true, decide_eq_true_eq, beq_iff_eq] at h
    obtain ⟨⟨⟨⟨⟨⟨⟨⟨⟨⟨⟨h1, h2⟩, h3⟩, h4⟩, h5⟩, h6⟩, h7⟩, h8⟩, h9⟩, h10⟩, h11⟩, h12⟩ := h
    exact ⟨⟨h1, h10⟩, ⟨b, wb, wa, u, v, j, hmem, hb.symm, hed, h2, h9, h4, h5, h11, h12⟩, ⟨h6, h7, h8⟩, h3⟩

theorem flipStep_sound {E : Ising} {p : Nat} {mask : List Bool} {tog : List Nat} {o o' : Op}
    {mask2 : List Bool} {tog2 : List Nat} (h : flipStep E p mask tog o o' = some (mask2, tog2)) :
    ∃ isTog : Bool, isTog = (tog.head? == some p) ∧ tog2 = (if isTog then tog.tail else tog) ∧
      (isTog = true → o.const = true ∧ ∃ v, o.vars = [v] ∧ mask2 = toggleAt mask v) ∧
      (isTog = false → mask2 = mask ∧
        ((∀ v ∈ o.vars, getB mask v = true) ∨ (∀ v ∈ o.vars, getB mask v = false))) ∧
      o.vars.Nodup ∧ o.ins.length = o.vars.length ∧ o.outs.length = o.vars.length ∧
      o' = xorOp o mask mask2 isTog ∧ 0 < E.opW o' := by
  unfold flipStep at h
  simp only at h
  refine ⟨tog.head? == some p, rfl, ?_⟩
  cases hT : (tog.head? == some p)
  · rw [hT] at h
    simp only [Bool.false_eq_true, if_false] at h
    split at h
    · rename_i hok
      injection h with h; injection h with h1 h2
      subst h1; subst h2
      simp only [Bool.and_eq_true, Bool.or_eq_true, decide_eq_true_eq, beq_iff_eq] at hok
      obtain ⟨⟨⟨⟨⟨h1, h2⟩, h3⟩, h4⟩, h5⟩, h6⟩ := hok
      refine ⟨rfl, (fun hh => by cases hh), fun _ => ⟨rfl, ?_⟩, h2, h3, h4, h5, h6⟩
      rcases h1 with ha | hn
      · left; intro v hv; exact List.all_eq_true.1 ha v hv
      · right; intro v hv
        have := List.all_eq_true.1 hn v hv
        simpa using this
    · cases h
  · rw [hT] at h
    simp only [if_true] at h
    split at h
    · rename_i hok
      injection h with h; injection h with h1 h2
      subst h1; subst h2
      simp only [Bool.and_eq_true, decide_eq_true_eq, beq_iff_eq] at hok
      obtain ⟨⟨⟨⟨⟨⟨h0, h1⟩, h2⟩, h3⟩, h4⟩, h5⟩, h6⟩ := hok
      refine ⟨rfl, fun _ => ⟨h0, ?_⟩, (fun hh => by cases hh), h2, h3, h4, h5, h6⟩
      cases hv : o.vars with
      | nil => rw [hv] at h1; simp at h1
      | cons v vs =>
        cases vs with
        | nil => exact ⟨v, rfl, by simp⟩
        | cons w ws => rw [hv] at h1; simp at h1
    · cases h

theorem moveSteps_sound (E : Ising) (s s' : Slots) (p : Nat) (st mask : List Bool) (tog : List Nat)
    (m : List Bool) (t : List Nat) (h : moveSteps E p st mask tog s s' = some (m, t)) :
    Steps E p st mask tog s s' m t := by
  induction s generalizing s' p st mask tog with
  | nil =>
    cases s' with
    | nil =>
      unfold moveSteps at h
      injection h with h; injection h with h1 h2
      subst h1; subst h2
      exact Steps.nil ..
    | cons a t' => unfold moveSteps at h; cases h
  | cons x xs ih =>
    cases s' with
    | nil => cases x <;> (unfold moveSteps at h; cases h)
    | cons y ys =>
      cases x with
      | none =>
        cases y with
        | none =>
          unfold moveSteps at h
          exact Steps.skip _ _ _ _ _ _ _ _ (ih _ _ _ _ _ h)
        | some o' => unfold moveSteps at h; cases h
      | some o =>
        cases y with
        | none => unfold moveSteps at h; cases h
        | some o' =>
          unfold moveSteps at h
          by_cases hin : inputsMatch st o = true
          · simp only [hin, Bool.not_true, Bool.false_eq_true, if_false] at h
            by_cases hb : (boundary E st mask).any (·.1 == o.bond) = true
            · simp only [hb, if_true] at h
              by_cases hr : rebondOk E st mask o o' = true
              · simp only [hr, if_true] at h
                exact Steps.rebond _ _ _ _ _ _ _ _ _ _ hin ((any_boundary_iff ..).1 hb)
                  (rebondOk_sound hr) (ih _ _ _ _ _ h)
              · simp only [hr] at h; cases h
            · simp only [hb] at h
              cases hf : flipStep E p mask tog o o' with
              | none => rw [hf] at h; cases h
              | some mt =>
                obtain ⟨mask2, tog2⟩ := mt
                rw [hf] at h
                simp only at h
                obtain ⟨isTog, hT, ht2, c1, c2, c3, c4, c5, c6, c7⟩ := flipStep_sound hf
                subst ht2
                exact Steps.flip _ _ _ _ _ _ _ _ _ _ isTog mask2 hin
                  (fun hb' => hb ((any_boundary_iff ..).2 hb')) hT c1 c2 c3 c4 c5 c6 c7 (ih _ _ _ _ _ h)
          · have : inputsMatch st o = false := by simpa using hin
            simp only [this, Bool.not_false, if_true] at h
            cases h

theorem isRvbMove_sound {E : Ising} {b a : Config} {R : Region} (h : isRvbMove E b a R = true) :
    RvbMove E b a R := by
  unfold isRvbMove at h
  simp only [Bool.and_eq_true, beq_iff_eq] at h
  obtain ⟨⟨h1, h2⟩, h3⟩ := h
  refine ⟨h1, h2, ?_⟩
  split at h3
  · rename_i m tog hm
    simp only [Bool.and_eq_true, beq_iff_eq, List.isEmpty_iff] at h3
    obtain ⟨hm1, ht⟩ := h3
    subst hm1; subst ht
    exact moveSteps_sound _ _ _ _ _ _ _ _ _ hm
  · cases h3

/-! ### what the relation preserves -/

/-- slot occupancy is unchanged: same cutoff, same occupied slots, hence the same `n` -/
theorem Steps.occupancy {E : Ising} {p st mask tog s s' m t} (h : Steps E p st mask tog s s' m t) :
    s.map Option.isSome = s'.map Option.isSome := by
  induction h with
  | nil => rfl
  | skip _ _ _ _ _ _ _ _ _ ih => simp [ih]
  | rebond _ _ _ _ _ _ _ _ _ _ _ _ _ _ ih => simp [ih]
  | flip _ _ _ _ _ _ _ _ _ _ _ _ _ _ _ _ _ _ _ _ _ _ _ ih => simp [ih]

theorem countOps_eq_of_occupancy {s s' : Slots} (h : s.map Option.isSome = s'.map Option.isSome) :
    countOps s = countOps s' := by
  unfold countOps
  have e : ∀ l : Slots, (l.filter Option.isSome).length = ((l.map Option.isSome).filter id).length := by
    intro l; induction l with
    | nil => rfl
    | cons a t ih => cases a <;> simp [List.filter_cons, ih]
  rw [e, e, h]

/-- every operator of the new string has positive weight -/
theorem Steps.legal {E : Ising} {p st mask tog s s' m t} (h : Steps E p st mask tog s s' m t) :
    ∀ o', some o' ∈ s' → 0 < E.opW o' := by
  induction h with
  | nil => intro o' ho; simp at ho
  | skip _ _ _ _ _ _ _ _ _ ih =>
    intro o' ho
    rcases List.mem_cons.1 ho with e | e
    · cases e
    · exact ih o' e
  | rebond _ _ _ _ _ _ _ _ _ _ _ _ hr _ ih =>
    intro o' ho
    rcases List.mem_cons.1 ho with e | e
    · injection e with e; subst e; exact hr.pos
    · exact ih o' e
  | flip _ _ _ _ _ _ _ _ _ _ _ _ _ _ _ _ _ _ _ _ _ hpos _ ih =>
    intro o' ho
    rcases List.mem_cons.1 ho with e | e
    · injection e with e; subst e; exact hpos
    · exact ih o' e

/-! #### list lemmas for the consistency argument -/

theorem xorL_length (a b : List Bool) (h : a.length = b.length) : (xorL a b).length = a.length := by
  unfold xorL; simp [h]

theorem getB_xorL (a b : List Bool) (h : a.length = b.length) (i : Nat) :
    getB (xorL a b) i = (getB a i != getB b i) := by
  unfold getB xorL
  simp only [List.getD_eq_getElem?_getD, List.getElem?_zipWith]
  by_cases hi : i < a.length
  · have hi' : i < b.length := by omega
    simp [List.getElem?_eq_getElem hi, List.getElem?_eq_getElem hi']
  · simp [List.getElem?_eq_none (Nat.le_of_not_lt hi), List.getElem?_eq_none (by omega : b.length ≤ i)]

theorem ext_getB {a b : List Bool} (hl : a.length = b.length) (h : ∀ i, getB a i = getB b i) : a = b := by
  apply List.ext_getElem hl
  intro i h1 h2
  have := h i
  unfold getB at this
  simpa [List.getD_eq_getElem?_getD, List.getElem?_eq_getElem h1, List.getElem?_eq_getElem h2] using this

theorem writeVars_length (st : List Bool) (vars : List Nat) (vals : List Bool) :
    (writeVars st vars vals).length = st.length := by
  unfold writeVars
  induction vars generalizing st vals with
  | nil => simp
  | cons v vs ih =>
    cases vals with
    | nil => simp
    | cons b bs => simp only [List.zip_cons_cons, List.foldl_cons]; rw [ih]; simp

theorem toggleAt_length (mask : List Bool) (v : Nat) : (toggleAt mask v).length = mask.length := by
  unfold toggleAt; simp

theorem getB_toggleAt_ne (mask : List Bool) (v i : Nat) (h : i ≠ v) : getB (toggleAt mask v) i = getB mask i := by
  unfold toggleAt getB
  simp only [List.getD_eq_getElem?_getD]
  rw [List.getElem?_set_ne (fun e => h e.symm)]

/-- value written for variable `i`, if any -/
def lk : List Nat → List Bool → Nat → Option Bool
  | v :: vs, b :: bs, i => if v = i then some b else lk vs bs i
  | _, _, _ => none

theorem lk_cons (v : Nat) (vs : List Nat) (b : Bool) (bs : List Bool) (i : Nat) :
    lk (v :: vs) (b :: bs) i = if v = i then some b else lk vs bs i := rfl

theorem lk_none_of_not_mem (vars : List Nat) (vals : List Bool) (i : Nat) (h : i ∉ vars) : lk vars vals i = none := by
  induction vars generalizing vals with
  | nil => cases vals <;> rfl
  | cons v vs ih =>
    cases vals with
    | nil => rfl
    | cons b bs =>
      rw [lk_cons]
      have : v ≠ i := fun e => h (by simp [e])
      simp only [this, if_false]
      exact ih bs (fun hm => h (by simp [hm]))

theorem lk_some_mem (vars : List Nat) (vals : List Bool) (i : Nat) (b : Bool) (h : lk vars vals i = some b) : i ∈ vars := by
  by_contra hn
  rw [lk_none_of_not_mem vars vals i hn] at h; cases h

theorem lk_isSome_of_mem (vars : List Nat) (vals : List Bool) (i : Nat) (hl : vals.length = vars.length) (h : i ∈ vars) :
    ∃ b, lk vars vals i = some b := by
  induction vars generalizing vals with
  | nil => simp at h
  | cons v vs ih =>
    cases vals with
    | nil => simp at hl
    | cons b bs =>
      rw [lk_cons]
      by_cases hv : v = i
      · exact ⟨b, by simp [hv]⟩
      · simp only [hv, if_false]
        rcases List.mem_cons.1 h with e | e
        · exact absurd e.symm hv
        · exact ih bs (by simpa using hl) e

theorem getB_set (st : List Bool) (v : Nat) (b : Bool) (i : Nat) :
    getB (st.set v b) i = if v = i ∧ i < st.length then b else getB st i := by
  unfold getB
  simp only [List.getD_eq_getElem?_getD]
  by_cases hv : v = i
  · subst hv
    by_cases hl : v < st.length
    · simp [List.getElem?_set_self hl, hl]
    · simp [hl, List.getElem?_eq_none (by simp; omega : (st.set v b).length ≤ v),
        List.getElem?_eq_none (by omega : st.length ≤ v)]
  · rw [List.getElem?_set_ne hv]; simp [hv]

theorem getB_writeVars (st : List Bool) (vars : List Nat) (vals : List Bool) (hn : vars.Nodup) (i : Nat) :
    getB (writeVars st vars vals) i =
      match lk vars vals i with
      | some b => if i < st.length then b else false
      | none => getB st i := by
  induction vars generalizing st vals with
  | nil => cases vals <;> simp [writeVars, lk]
  | cons v vs ih =>
    cases vals with
    | nil => simp [writeVars, lk]
    | cons b bs =>
      have hn' : vs.Nodup := (List.nodup_cons.1 hn).2
      have hv : v ∉ vs := (List.nodup_cons.1 hn).1
      have e : writeVars st (v :: vs) (b :: bs) = writeVars (st.set v b) vs bs := by
        simp [writeVars]
      rw [e, ih (st.set v b) bs hn']
      rw [lk_cons]
      by_cases hvi : v = i
      · subst hvi
        rw [lk_none_of_not_mem vs bs v hv]
        simp only [if_true, getB_set]
        by_cases hl : v < st.length
        · simp [hl]
        · simp only [hl, and_false, if_false]
          unfold getB
          simp [List.getD_eq_getElem?_getD, List.getElem?_eq_none (by omega : st.length ≤ v)]
      · simp only [hvi, if_false]
        cases lk vs bs i with
        | none => simp [getB_set, hvi]
        | some c => simp

theorem lk_xorL (vars : List Nat) (vals : List Bool) (mask : List Bool) (i : Nat) (hl : vals.length = vars.length) :
    lk vars (xorL vals (vars.map (getB mask))) i = (lk vars vals i).map (fun b => b != getB mask i) := by
  induction vars generalizing vals with
  | nil => cases vals <;> simp [lk, xorL]
  | cons v vs ih =>
    cases vals with
    | nil => simp at hl
    | cons b bs =>
      have : xorL (b :: bs) ((v :: vs).map (getB mask)) = (b != getB mask v) :: xorL bs (vs.map (getB mask)) := by
        simp [xorL]
      rw [this, lk_cons, lk_cons]
      by_cases hv : v = i
      · subst hv; simp
      · simp only [hv, if_false]
        exact ih bs (by simpa using hl)

/-- writing matched inputs back changes nothing -/
theorem writeVars_matched (st : List Bool) (vars : List Nat) (ins : List Bool)
    (h : ((vars.zip ins).all fun vb => st[vb.1]? == some vb.2) = true) : writeVars st vars ins = st := by
  unfold writeVars
  induction vars generalizing ins st with
  | nil => simp
  | cons v vs ih =>
    cases ins with
    | nil => simp
    | cons b bs =>
      simp only [List.zip_cons_cons, List.all_cons, Bool.and_eq_true, beq_iff_eq] at h
      have : st.set v b = st := by
        apply List.ext_getElem?
        intro j
        by_cases hj : v = j
        · subst hj
          have hl : v < st.length := by
            by_contra hc
            rw [List.getElem?_eq_none (by omega)] at h; cases h.1
          rw [List.getElem?_set_self hl, h.1]
        · rw [List.getElem?_set_ne hj]
      simp only [List.zip_cons_cons, List.foldl_cons, this]
      exact ih st bs h.2

theorem inputsMatch_xor (st mask : List Bool) (hl : st.length = mask.length) (vars : List Nat) (ins : List Bool)
    (hli : ins.length = vars.length)
    (h : ((vars.zip ins).all fun vb => st[vb.1]? == some vb.2) = true) :
    ((vars.zip (xorL ins (vars.map (getB mask)))).all fun vb => (xorL st mask)[vb.1]? == some vb.2) = true := by
  induction vars generalizing ins with
  | nil => simp
  | cons v vs ih =>
    cases ins with
    | nil => simp at hli
    | cons b bs =>
      have e : xorL (b :: bs) ((v :: vs).map (getB mask)) = (b != getB mask v) :: xorL bs (vs.map (getB mask)) := by
        simp [xorL]
      rw [e]
      simp only [List.zip_cons_cons, List.all_cons, Bool.and_eq_true, beq_iff_eq] at h ⊢
      refine ⟨?_, ih bs (by simpa using hli) h.2⟩
      have hv : v < st.length := by
        by_contra hc
        rw [List.getElem?_eq_none (by omega)] at h; cases h.1
      have hv' : v < mask.length := by omega
      have hs : st[v] = b := by
        have := h.1
        rw [List.getElem?_eq_getElem hv] at this
        injection this
      unfold xorL getB
      rw [List.getElem?_zipWith]
      simp [List.getElem?_eq_getElem hv, List.getElem?_eq_getElem hv', hs, List.getD_eq_getElem?_getD]

/-- **the consistency core**: along a walk the new string propagates the flipped state exactly
as the old string propagates the old state, with the running membership as the difference. -/
theorem Steps.propagate {E : Ising} {p st mask tog s s' m t} (h : Steps E p st mask tog s s' m t)
    (hl : st.length = mask.length) :
    ∃ e, Qmc.propagate st s = some e ∧ Qmc.propagate (xorL st mask) s' = some (xorL e m) ∧
      e.length = m.length := by
  induction h with
  | nil p st mask tog => exact ⟨st, rfl, rfl, hl⟩
  | skip _ _ _ _ _ _ _ _ _ ih =>
    obtain ⟨e, h1, h2, h3⟩ := ih hl
    exact ⟨e, by simpa [Qmc.propagate] using h1, by simpa [Qmc.propagate] using h2, h3⟩
  | rebond p st mask tog o o' s s' m t hin _ hr _ ih =>
    have hwm : writeVars st o.vars o.outs = st := by
      rw [hr.oldDiag.2]
      exact writeVars_matched st o.vars o.ins (by simpa [inputsMatch] using hin)
    rw [hwm] at ih
    obtain ⟨e, h1, h2, h3⟩ := ih hl
    obtain ⟨b, wb, wa, u, v, j, _, _, _, _, huv, hvars, hins, hu, hv⟩ := hr.target
    have hxl : (xorL st mask).length = st.length := xorL_length st mask hl
    refine ⟨e, ?_, ?_, h3⟩
    · simp only [Qmc.propagate, applyOp, hin, if_true, hwm]; exact h1
    · have him : inputsMatch (xorL st mask) o' = true := by
        unfold inputsMatch
        rw [hvars, hins]
        simp only [List.zip_cons_cons, List.zip_nil_right, List.all_cons, List.all_nil, Bool.and_true,
          Bool.and_eq_true, beq_iff_eq]
        unfold getB
        constructor
        · rw [List.getD_eq_getElem?_getD, List.getElem?_eq_getElem (by omega)]; rfl
        · rw [List.getD_eq_getElem?_getD, List.getElem?_eq_getElem (by omega)]; rfl
      have hw : writeVars (xorL st mask) o'.vars o'.outs = xorL st mask := by
        rw [hr.newDiag.1]
        exact writeVars_matched _ _ _ (by simpa [inputsMatch] using him)
      simp only [Qmc.propagate, applyOp, him, if_true, hw]; exact h2
  | flip p st mask tog o o' s s' m t isTog mask2 hin _ _ c1 c2 hnd hli hlo ho' _ _ ih =>
    have hm2 : mask2.length = mask.length := by
      cases isTog with
      | true => obtain ⟨_, v, _, hm⟩ := c1 rfl; rw [hm, toggleAt_length]
      | false => rw [(c2 rfl).1]
    have hoff : ∀ i, i ∉ o.vars → getB mask2 i = getB mask i := by
      intro i hi
      cases isTog with
      | true =>
        obtain ⟨_, v, hv, hm⟩ := c1 rfl
        rw [hm]
        apply getB_toggleAt_ne
        intro e; apply hi; rw [hv, e]; simp
      | false => rw [(c2 rfl).1]
    have hl2 : (writeVars st o.vars o.outs).length = mask2.length := by
      rw [writeVars_length, hm2, hl]
    obtain ⟨e, h1, h2, h3⟩ := ih hl2
    refine ⟨e, ?_, ?_, h3⟩
    · simp only [Qmc.propagate, applyOp, hin, if_true]; exact h1
    · have hvars : o'.vars = o.vars := by rw [ho']; rfl
      have hins : o'.ins = xorL o.ins (o.vars.map (getB mask)) := by rw [ho']; rfl
      have houts : o'.outs = xorL o.outs (o.vars.map (getB mask2)) := by rw [ho']; rfl
      have him : inputsMatch (xorL st mask) o' = true := by
        unfold inputsMatch
        rw [hvars, hins]
        exact inputsMatch_xor st mask hl o.vars o.ins hli (by simpa [inputsMatch] using hin)
      have hw : writeVars (xorL st mask) o'.vars o'.outs = xorL (writeVars st o.vars o.outs) mask2 := by
        rw [hvars, houts]
        apply ext_getB
        · rw [writeVars_length, xorL_length _ _ hl, xorL_length _ _ hl2, writeVars_length]
        · intro i
          rw [getB_writeVars _ _ _ hnd, getB_xorL _ _ hl2, getB_writeVars _ _ _ hnd, lk_xorL _ _ _ _ hlo,
            xorL_length _ _ hl]
          cases hk : lk o.vars o.outs i with
          | some b =>
            simp only [Option.map_some]
            by_cases hi : i < st.length
            · simp [hi]
            · simp only [hi, if_false]
              have : getB mask2 i = false := by
                unfold getB
                rw [List.getD_eq_getElem?_getD, List.getElem?_eq_none (by omega)]; rfl
              rw [this]; rfl
          | none =>
            simp only [Option.map_none]
            have hni : i ∉ o.vars := by
              intro hmem
              obtain ⟨b, hb⟩ := lk_isSome_of_mem o.vars o.outs i hlo hmem
              rw [hb] at hk; cases hk
            rw [getB_xorL _ _ hl, hoff i hni]
      simp only [Qmc.propagate, applyOp, him, if_true, hw]; exact h2

/-- `Consistent` is preserved -/
theorem RvbMove.consistent {E : Ising} {b a : Config} {R : Region} (h : RvbMove E b a R)
    (hb : Consistent b) : Consistent a := by
  obtain ⟨h1, h2, h3⟩ := h
  obtain ⟨e, p1, p2, _⟩ := h3.propagate h2
  unfold Consistent at hb ⊢
  rw [hb] at p1
  injection p1 with p1
  subst p1
  rw [h1]; exact p2

/-- every operator of the result has positive weight (`Legal`, C07) -/
theorem RvbMove.legal {E : Ising} {b a : Config} {R : Region} (h : RvbMove E b a R) : Legal E a.slots :=
  fun o ho => h.2.2.legal o ho

/-- the number of operators (and the cutoff) is unchanged -/
theorem RvbMove.count {E : Ising} {b a : Config} {R : Region} (h : RvbMove E b a R) :
    countOps a.slots = countOps b.slots ∧ a.slots.length = b.slots.length := by
  have := h.2.2.occupancy
  refine ⟨(countOps_eq_of_occupancy this).symm, ?_⟩
  have := congrArg List.length this
  simpa using this.symm

/-! #### op by op: outside untouched, inside flipped symmetrically -/

theorem xorL_all_false (l : List Bool) (vars : List Nat) (mask : List Bool) (hl : l.length = vars.length)
    (h : ∀ v ∈ vars, getB mask v = false) : xorL l (vars.map (getB mask)) = l := by
  induction vars generalizing l with
  | nil => cases l with
    | nil => rfl
    | cons a t => simp at hl
  | cons v vs ih =>
    cases l with
    | nil => simp at hl
    | cons a t =>
      have e : xorL (a :: t) ((v :: vs).map (getB mask)) = (a != getB mask v) :: xorL t (vs.map (getB mask)) := by
        simp [xorL]
      rw [e, h v (by simp), ih t (by simpa using hl) (fun w hw => h w (by simp [hw]))]
      simp

theorem xorL_all_true (l : List Bool) (vars : List Nat) (mask : List Bool) (hl : l.length = vars.length)
    (h : ∀ v ∈ vars, getB mask v = true) : xorL l (vars.map (getB mask)) = flipAll l := by
  induction vars generalizing l with
  | nil => cases l with
    | nil => rfl
    | cons a t => simp at hl
  | cons v vs ih =>
    cases l with
    | nil => simp at hl
    | cons a t =>
      have e : xorL (a :: t) ((v :: vs).map (getB mask)) = (a != getB mask v) :: xorL t (vs.map (getB mask)) := by
        simp [xorL]
      rw [e, h v (by simp), ih t (by simpa using hl) (fun w hw => h w (by simp [hw]))]
      simp [flipAll]

/-- an operator none of whose variables is in the region (and that is not a toggle) is untouched -/
theorem xorOp_outside (o : Op) (mask : List Bool) (hi : o.ins.length = o.vars.length)
    (ho : o.outs.length = o.vars.length) (h : ∀ v ∈ o.vars, getB mask v = false) :
    xorOp o mask mask false = o := by
  unfold xorOp
  simp only [Bool.false_eq_true, if_false]
  rw [xorL_all_false _ _ _ hi h, xorL_all_false _ _ _ ho h]

/-- an operator completely inside the region has all inputs and outputs flipped, everything else
(variables, bond, constant flag, diagonal tag) kept -/
theorem xorOp_inside (o : Op) (mask : List Bool) (hi : o.ins.length = o.vars.length)
    (ho : o.outs.length = o.vars.length) (h : ∀ v ∈ o.vars, getB mask v = true) :
    xorOp o mask mask false = { o with ins := flipAll o.ins, outs := flipAll o.outs } := by
  unfold xorOp
  simp only [Bool.false_eq_true, if_false]
  rw [xorL_all_true _ _ _ hi h, xorL_all_true _ _ _ ho h]

end Rvb
end Qmc
