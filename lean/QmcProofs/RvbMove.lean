import QmcModel.Rvb
import Mathlib.Tactic.Linarith
import Mathlib.Data.List.Nodup

/-! The RVB move as a relation, soundness of the decider `isRvbMove`, and what the relation
preserves (consistency, legality, operator count). -/

namespace Qmc
namespace Rvb

/-! ### the relation -/

def OnBoundary (E : Ising) (st mask : List Bool) (b : Nat) : Prop := ∃ x ∈ boundary E st mask, x.1 = b

/-- admissible re-bonding of a rotatable operator `o` (diagonal, on a boundary bond): `o'` is a
diagonal operator on a boundary bond whose weight after the flip is positive, on that bond's two
variables, recording their flipped state; the constant flag is kept. -/
structure Rebond (E : Ising) (st mask : List Bool) (o o' : Op) : Prop where
  oldDiag : o.tagDiag = true ∧ o.outs = o.ins
  target : ∃ b wb wa u v j, (b, wb, wa) ∈ boundary E st mask ∧ o'.bond = b ∧
    E.edges.getD b (0, 0, 0) = (u, v, j) ∧ 0 < wa ∧ u ≠ v ∧ o'.vars = [u, v] ∧
    o'.ins = [getB (xorL st mask) u, getB (xorL st mask) v]
  newDiag : o'.outs = o'.ins ∧ o'.tagDiag = true ∧ o'.const = o.const
  pos : 0 < E.opW o'

/-- lock-step walk over both operator strings from slot `p`, with the running state `st` of the
`before` string and the membership `mask`; ends with membership `m` and remaining toggles `t`. -/
inductive Steps (E : Ising) : Nat → List Bool → List Bool → List Nat → Slots → Slots → List Bool → List Nat → Prop
  | nil (p st mask tog) : Steps E p st mask tog [] [] mask tog
  | skip (p st mask tog s s' m t) :
      Steps E (p + 1) st mask tog s s' m t → Steps E p st mask tog (none :: s) (none :: s') m t
  | rebond (p st mask tog o o' s s' m t) :
      inputsMatch st o = true → OnBoundary E st mask o.bond → Rebond E st mask o o' →
      Steps E (p + 1) (writeVars st o.vars o.outs) mask tog s s' m t →
      Steps E p st mask tog (some o :: s) (some o' :: s') m t
  | flip (p st mask tog o o' s s' m t) (isTog : Bool) (mask2 : List Bool) :
      inputsMatch st o = true → ¬ OnBoundary E st mask o.bond →
      isTog = (tog.head? == some p) →
      (isTog = true → o.const = true ∧ ∃ v, o.vars = [v] ∧ mask2 = toggleAt mask v) →
      (isTog = false → mask2 = mask ∧
        ((∀ v ∈ o.vars, getB mask v = true) ∨ (∀ v ∈ o.vars, getB mask v = false))) →
      o.vars.Nodup → o.ins.length = o.vars.length → o.outs.length = o.vars.length →
      o' = xorOp o mask mask2 isTog → 0 < E.opW o' →
      Steps E (p + 1) (writeVars st o.vars o.outs) mask2 (if isTog then tog.tail else tog) s s' m t →
      Steps E p st mask tog (some o :: s) (some o' :: s') m t

/-- `after` is an RVB move of `before` on region `R` -/
def RvbMove (E : Ising) (b a : Config) (R : Region) : Prop :=
  a.state = xorL b.state R.mask0 ∧ b.state.length = R.mask0.length ∧
  Steps E 0 b.state R.mask0 R.toggles b.slots a.slots R.mask0 []

/-! ### soundness of the decider -/

theorem any_boundary_iff (E : Ising) (st mask : List Bool) (b : Nat) :
    (boundary E st mask).any (·.1 == b) = true ↔ OnBoundary E st mask b := by
  unfold OnBoundary
  simp [List.any_eq_true]

theorem rebondOk_sound {E : Ising} {st mask : List Bool} {o o' : Op} (h : rebondOk E st mask o o' = true) :
    Rebond E st mask o o' := by
  unfold rebondOk at h
  simp only at h
  cases hfind : (boundary E st mask).find? (fun x => x.1 == o'.bond) with
  | none => rw [hfind] at h; cases h
  | some x =>
    obtain ⟨b, wb, wa⟩ := x
    rw [hfind] at h
    simp only at h
    have hmem := List.mem_of_find?_eq_some hfind
    have hb : b = o'.bond := by
      have := List.find?_some hfind
      simpa using this
    rcases hed : E.edges.getD b (0, 0, 0) with ⟨u, v, j⟩
    rw [hed] at h
    simp only [Bool.and_eq_true, decide_eq_true_eq, beq_iff_eq] at h
    obtain ⟨⟨⟨⟨⟨⟨⟨⟨⟨h1, h2⟩, h3⟩, h4⟩, h5⟩, h6⟩, h7⟩, h8⟩, h9⟩, h10⟩ := h
    exact ⟨⟨h1, h10⟩, ⟨b, wb, wa, u, v, j, hmem, hb.symm, hed, h2, h9, h4, h5⟩, ⟨h6, h7, h8⟩, h3⟩

theorem flipStep_sound {E : Ising} {p : Nat} {mask : List Bool} {tog : List Nat} {o o' : Op}
    {mask2 : List Bool} {tog2 : List Nat} (h : flipStep E p mask tog o o' = some (mask2, tog2)) :
    ∃ isTog : Bool, isTog = (tog.head? == some p) ∧ tog2 = (if isTog then tog.tail else tog) ∧
      (isTog = true → o.const = true ∧ ∃ v, o.vars = [v] ∧ mask2 = toggleAt mask v) ∧
      (isTog = false → mask2 = mask ∧
        ((∀ v ∈ o.vars, getB mask v = true) ∨ (∀ v ∈ o.vars, getB mask v = false))) ∧
      o.vars.Nodup ∧ o.ins.length = o.vars.length ∧ o.outs.length = o.vars.length ∧
      o' = xorOp o mask mask2 isTog ∧ 0 < E.opW o' := by
  unfold flipStep at h
  simp only at h
  refine ⟨tog.head? == some p, rfl, ?_⟩
  cases hT : (tog.head? == some p)
  · rw [hT] at h
    simp only [Bool.false_eq_true, if_false] at h
    split at h
    · rename_i hok
      injection h with h; injection h with h1 h2
      subst h1; subst h2
      simp only [Bool.and_eq_true, Bool.or_eq_true, decide_eq_true_eq, beq_iff_eq] at hok
      obtain ⟨⟨⟨⟨⟨h1, h2⟩, h3⟩, h4⟩, h5⟩, h6⟩ := hok
      refine ⟨rfl, (fun hh => by cases hh), fun _ => ⟨rfl, ?_⟩, h2, h3, h4, h5, h6⟩
      rcases h1 with ha | hn
      · left; intro v hv; exact List.all_eq_true.1 ha v hv
      · right; intro v hv
        have := List.all_eq_true.1 hn v hv
        simpa using this
    · cases h
  · rw [hT] at h
    simp only [if_true] at h
    split at h
    · rename_i hok
      injection h with h; injection h with h1 h2
      subst h1; subst h2
      simp only [Bool.and_eq_true, decide_eq_true_eq, beq_iff_eq] at hok
      obtain ⟨⟨⟨⟨⟨⟨h0, h1⟩, h2⟩, h3⟩, h4⟩, h5⟩, h6⟩ := hok
      refine ⟨rfl, fun _ => ⟨h0, ?_⟩, (fun hh => by cases hh), h2, h3, h4, h5, h6⟩
      cases hv : o.vars with
      | nil => rw [hv] at h1; simp at h1
      | cons v vs =>
        cases vs with
        | nil => exact ⟨v, rfl, by simp⟩
        | cons w ws => rw [hv] at h1; simp at h1
    · cases h

theorem moveSteps_sound (E : Ising) (s s' : Slots) (p : Nat) (st mask : List Bool) (tog : List Nat)
    (m : List Bool) (t : List Nat) (h : moveSteps E p st mask tog s s' = some (m, t)) :
    Steps E p st mask tog s s' m t := by
  induction s generalizing s' p st mask tog with
  | nil =>
    cases s' with
    | nil =>
      unfold moveSteps at h
      injection h with h; injection h with h1 h2
      subst h1; subst h2
      exact Steps.nil ..
    | cons a t' => unfold moveSteps at h; cases h
  | cons x xs ih =>
    cases s' with
    | nil => cases x <;> (unfold moveSteps at h; cases h)
    | cons y ys =>
      cases x with
      | none =>
        cases y with
        | none =>
          unfold moveSteps at h
          exact Steps.skip _ _ _ _ _ _ _ _ (ih _ _ _ _ _ h)
        | some o' => unfold moveSteps at h; cases h
      | some o =>
        cases y with
        | none => unfold moveSteps at h; cases h
        | some o' =>
          unfold moveSteps at h
          by_cases hin : inputsMatch st o = true
          · simp only [hin, Bool.not_true, Bool.false_eq_true, if_false] at h
            by_cases hb : (boundary E st mask).any (·.1 == o.bond) = true
            · simp only [hb, if_true] at h
              by_cases hr : rebondOk E st mask o o' = true
              · simp only [hr, if_true] at h
                exact Steps.rebond _ _ _ _ _ _ _ _ _ _ hin ((any_boundary_iff ..).1 hb)
                  (rebondOk_sound hr) (ih _ _ _ _ _ h)
              · simp only [hr] at h; cases h
            · simp only [hb] at h
              cases hf : flipStep E p mask tog o o' with
              | none => rw [hf] at h; cases h
              | some mt =>
                obtain ⟨mask2, tog2⟩ := mt
                rw [hf] at h
                simp only at h
                obtain ⟨isTog, hT, ht2, c1, c2, c3, c4, c5, c6, c7⟩ := flipStep_sound hf
                subst ht2
                exact Steps.flip _ _ _ _ _ _ _ _ _ _ isTog mask2 hin
                  (fun hb' => hb ((any_boundary_iff ..).2 hb')) hT c1 c2 c3 c4 c5 c6 c7 (ih _ _ _ _ _ h)
          · have : inputsMatch st o = false := by simpa using hin
            simp only [this, Bool.not_false, if_true] at h
            cases h

theorem isRvbMove_sound {E : Ising} {b a : Config} {R : Region} (h : isRvbMove E b a R = true) :
    RvbMove E b a R := by
  unfold isRvbMove at h
  simp only [Bool.and_eq_true, beq_iff_eq] at h
  obtain ⟨⟨h1, h2⟩, h3⟩ := h
  refine ⟨h1, h2, ?_⟩
  split at h3
  · rename_i m tog hm
    simp only [Bool.and_eq_true, beq_iff_eq, List.isEmpty_iff] at h3
    obtain ⟨hm1, ht⟩ := h3
    subst hm1; subst ht
    exact moveSteps_sound _ _ _ _ _ _ _ _ _ hm
  · cases h3

end Rvb
end Qmc
