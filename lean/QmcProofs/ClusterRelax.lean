/-
C09 helper: `componentLabels` (min-label relaxation with fuel `nlegs + 1`, QmcModel/Cluster.lean)
computes the connected components of its edge list: the label of leg `i` is the smallest leg id
connected to `i`. Graph-generic (any edge list with endpoints in range).
-/
import QmcModel.Cluster
import Mathlib.Logic.Relation
import Mathlib.Order.Nat
import Mathlib.Data.Finset.Card

namespace Qmc

/-- adjacency of leg ids (edges are undirected) -/
def Adj (edges : List (Nat × Nat)) (i j : Nat) : Prop := (i, j) ∈ edges ∨ (j, i) ∈ edges

/-- same connected component -/
def Conn (edges : List (Nat × Nat)) : Nat → Nat → Prop := Relation.ReflTransGen (Adj edges)

/-- all endpoints are leg ids `< n` -/
def EdgesInRange (edges : List (Nat × Nat)) (n : Nat) : Prop := ∀ e ∈ edges, e.1 < n ∧ e.2 < n

variable {edges : List (Nat × Nat)} {n : Nat}

theorem Adj.symm {i j : Nat} (h : Adj edges i j) : Adj edges j i := Or.symm h

theorem Conn.refl (i : Nat) : Conn edges i i := Relation.ReflTransGen.refl

theorem Conn.trans {i j k : Nat} (h1 : Conn edges i j) (h2 : Conn edges j k) : Conn edges i k :=
  Relation.ReflTransGen.trans h1 h2

theorem Conn.of_adj {i j : Nat} (h : Adj edges i j) : Conn edges i j := Relation.ReflTransGen.single h

theorem Conn.symm {i j : Nat} (h : Conn edges i j) : Conn edges j i := by
  induction h with
  | refl => exact Conn.refl _
  | tail _ hbc ih => exact (Conn.of_adj hbc.symm).trans ih

theorem Conn.lt (hr : EdgesInRange edges n) {i j : Nat} (h : Conn edges i j) (hi : i < n) : j < n := by
  induction h with
  | refl => exact hi
  | tail _ hbc _ =>
    rcases hbc with h | h
    · exact (hr _ h).2
    · exact (hr _ h).1

/-- a function constant along edges is constant on components -/
theorem Conn.const {α : Type} (f : Nat → α) (hf : ∀ e ∈ edges, f e.1 = f e.2) {i j : Nat}
    (h : Conn edges i j) : f i = f j := by
  induction h with
  | refl => rfl
  | tail _ hbc ih =>
    rcases hbc with h | h
    · rw [ih]; exact hf _ h
    · rw [ih]; exact (hf _ h).symm

/-- a path from inside a set to outside it crosses its border -/
theorem Conn.crossing (P : Nat → Prop) {i j : Nat} (h : Conn edges i j) (hi : P i) (hj : ¬ P j) :
    ∃ a b, Adj edges a b ∧ P a ∧ ¬ P b := by
  induction h with
  | refl => exact absurd hi hj
  | @tail b c _ hbc ih =>
    by_cases hb : P b
    · exact ⟨b, c, hbc, hb, hj⟩
    · exact ih hb

open Classical in
/-- the smallest leg id connected to `i` -/
noncomputable def minConn (edges : List (Nat × Nat)) (i : Nat) : Nat :=
  Nat.find (⟨i, Conn.refl i⟩ : ∃ j, Conn edges i j)

theorem minConn_conn (i : Nat) : Conn edges i (minConn edges i) := by
  classical
  exact Nat.find_spec (⟨i, Conn.refl i⟩ : ∃ j, Conn edges i j)

theorem minConn_le {i j : Nat} (h : Conn edges i j) : minConn edges i ≤ j := by
  classical
  exact Nat.find_min' (⟨i, Conn.refl i⟩ : ∃ j, Conn edges i j) h

theorem minConn_le_self (i : Nat) : minConn edges i ≤ i := minConn_le (Conn.refl i)

theorem minConn_eq_of_conn {i j : Nat} (h : Conn edges i j) : minConn edges i = minConn edges j :=
  Nat.le_antisymm (minConn_le (h.trans (minConn_conn j))) (minConn_le (h.symm.trans (minConn_conn i)))

theorem minConn_idem (i : Nat) : minConn edges (minConn edges i) = minConn edges i :=
  (minConn_eq_of_conn (minConn_conn i)).symm

theorem minConn_eq_iff {i j : Nat} : minConn edges i = minConn edges j ↔ Conn edges i j :=
  ⟨fun h => (minConn_conn i).trans (h ▸ (minConn_conn j).symm), minConn_eq_of_conn⟩

/-! ### one relaxation step -/

def relaxStep (lab : Array Nat) (e : Nat × Nat) : Array Nat :=
  let m := min lab[e.1]! lab[e.2]!
  (lab.set! e.1 m).set! e.2 m

theorem relaxPass_eq_foldl (es : List (Nat × Nat)) (lab : Array Nat) :
    relaxPass es lab = es.foldl relaxStep lab := rfl

theorem getElem!_set! (a : Array Nat) (i v j : Nat) :
    (a.set! i v)[j]! = if i = j ∧ i < a.size then v else a[j]! := by
  simp only [Array.getElem!_eq_getD, Array.getD_eq_getD_getElem?, Array.set!_eq_setIfInBounds,
    Array.getElem?_setIfInBounds]
  by_cases h : i = j
  · subst h
    by_cases h2 : i < a.size
    · simp [h2]
    · simp [h2]
  · simp [h]

theorem size_set! (a : Array Nat) (i v : Nat) : (a.set! i v).size = a.size := by
  simp [Array.set!_eq_setIfInBounds]

theorem relaxStep_size (lab : Array Nat) (e : Nat × Nat) : (relaxStep lab e).size = lab.size := by
  simp [relaxStep]

theorem relaxStep_get (lab : Array Nat) (e : Nat × Nat) (h1 : e.1 < lab.size) (h2 : e.2 < lab.size)
    (i : Nat) : (relaxStep lab e)[i]! =
      if i = e.1 ∨ i = e.2 then min lab[e.1]! lab[e.2]! else lab[i]! := by
  simp only [relaxStep, getElem!_set!, size_set!, h1, h2, and_true]
  by_cases hb : e.2 = i
  · rw [if_pos hb, if_pos (Or.inr hb.symm)]
  · rw [if_neg hb]
    by_cases ha : e.1 = i
    · rw [if_pos ha, if_pos (Or.inl ha.symm)]
    · rw [if_neg ha, if_neg (fun h => h.elim (fun h => ha h.symm) (fun h => hb h.symm))]

theorem relaxStep_le (lab : Array Nat) (e : Nat × Nat) (h1 : e.1 < lab.size) (h2 : e.2 < lab.size)
    (i : Nat) : (relaxStep lab e)[i]! ≤ lab[i]! := by
  rw [relaxStep_get lab e h1 h2]
  split
  · rename_i h
    rcases h with h | h
    · subst h; exact Nat.min_le_left _ _
    · subst h; exact Nat.min_le_right _ _
  · exact Nat.le_refl _

/-- invariant of the relaxation: right size, every label is connected to its leg and not above it -/
def LabGood (edges : List (Nat × Nat)) (n : Nat) (lab : Array Nat) : Prop :=
  lab.size = n ∧ ∀ i < n, Conn edges i lab[i]! ∧ lab[i]! ≤ i

theorem relaxStep_good (hr : EdgesInRange edges n) {lab : Array Nat} (hg : LabGood edges n lab)
    {e : Nat × Nat} (he : e ∈ edges) : LabGood edges n (relaxStep lab e) := by
  obtain ⟨hs, hl⟩ := hg
  obtain ⟨h1, h2⟩ := hr e he
  refine ⟨by rw [relaxStep_size, hs], fun i hi => ?_⟩
  rw [relaxStep_get lab e (hs ▸ h1) (hs ▸ h2)]
  have hadj : Adj edges e.1 e.2 := Or.inl he
  split
  · rename_i h
    have hmin : min lab[e.1]! lab[e.2]! = lab[e.1]! ∨ min lab[e.1]! lab[e.2]! = lab[e.2]! := by
      rcases Nat.le_total lab[e.1]! lab[e.2]! with h' | h'
      · exact Or.inl (Nat.min_eq_left h')
      · exact Or.inr (Nat.min_eq_right h')
    rcases h with h | h
    · subst h
      refine ⟨?_, Nat.le_trans (Nat.min_le_left _ _) (hl _ h1).2⟩
      rcases hmin with hm | hm
      · rw [hm]; exact (hl _ h1).1
      · rw [hm]; exact (Conn.of_adj hadj).trans (hl _ h2).1
    · subst h
      refine ⟨?_, Nat.le_trans (Nat.min_le_right _ _) (hl _ h2).2⟩
      rcases hmin with hm | hm
      · rw [hm]; exact (Conn.of_adj hadj.symm).trans (hl _ h1).1
      · rw [hm]; exact (hl _ h2).1
  · exact hl i hi

/-! ### one pass -/

theorem relaxPass_good (hr : EdgesInRange edges n) : ∀ (es : List (Nat × Nat)) (lab : Array Nat),
    (∀ e ∈ es, e ∈ edges) → LabGood edges n lab → LabGood edges n (relaxPass es lab)
  | [], lab, _, hg => hg
  | e :: t, lab, hs, hg => by
    rw [relaxPass_eq_foldl, List.foldl_cons, ← relaxPass_eq_foldl]
    exact relaxPass_good hr t _ (fun e' he' => hs e' (List.mem_cons_of_mem _ he'))
      (relaxStep_good hr hg (hs e (List.mem_cons_self ..)))

theorem relaxPass_le (hr : EdgesInRange edges n) : ∀ (es : List (Nat × Nat)) (lab : Array Nat),
    (∀ e ∈ es, e ∈ edges) → LabGood edges n lab → ∀ i : Nat, (relaxPass es lab)[i]! ≤ lab[i]!
  | [], lab, _, _, i => Nat.le_refl _
  | e :: t, lab, hs, hg, i => by
    rw [relaxPass_eq_foldl, List.foldl_cons, ← relaxPass_eq_foldl]
    have he := hs e (List.mem_cons_self ..)
    obtain ⟨h1, h2⟩ := hr e he
    exact Nat.le_trans
      (relaxPass_le hr t _ (fun e' he' => hs e' (List.mem_cons_of_mem _ he')) (relaxStep_good hr hg he) i)
      (relaxStep_le lab e (hg.1 ▸ h1) (hg.1 ▸ h2) i)

/-- after a pass over `es`, each endpoint of an edge of `es` is at most the other endpoint's old label -/
theorem relaxPass_edge (hr : EdgesInRange edges n) : ∀ (es : List (Nat × Nat)) (lab : Array Nat),
    (∀ e ∈ es, e ∈ edges) → LabGood edges n lab → ∀ e ∈ es,
      (relaxPass es lab)[e.1]! ≤ lab[e.2]! ∧ (relaxPass es lab)[e.2]! ≤ lab[e.1]!
  | [], _, _, _, e, he => by simp at he
  | e0 :: t, lab, hs, hg, e, he => by
    rw [relaxPass_eq_foldl, List.foldl_cons, ← relaxPass_eq_foldl]
    have he0 := hs e0 (List.mem_cons_self ..)
    obtain ⟨h1, h2⟩ := hr e0 he0
    have hg1 := relaxStep_good hr hg he0
    have hs' : ∀ e' ∈ t, e' ∈ edges := fun e' he' => hs e' (List.mem_cons_of_mem _ he')
    rcases List.mem_cons.mp he with rfl | ht
    · have ha := relaxPass_le hr t _ hs' hg1 e.1
      have hb := relaxPass_le hr t _ hs' hg1 e.2
      rw [relaxStep_get lab e (hg.1 ▸ h1) (hg.1 ▸ h2)] at ha hb
      simp only [true_or, or_true, if_true] at ha hb
      exact ⟨Nat.le_trans ha (Nat.min_le_right _ _), Nat.le_trans hb (Nat.min_le_left _ _)⟩
    · obtain ⟨i1, i2⟩ := relaxPass_edge hr t _ hs' hg1 e ht
      exact ⟨Nat.le_trans i1 (relaxStep_le lab e0 (hg.1 ▸ h1) (hg.1 ▸ h2) _),
        Nat.le_trans i2 (relaxStep_le lab e0 (hg.1 ▸ h1) (hg.1 ▸ h2) _)⟩

/-- the double pass of `relax` -/
def relaxRound (edges : List (Nat × Nat)) (lab : Array Nat) : Array Nat :=
  relaxPass edges.reverse (relaxPass edges lab)

theorem relaxRound_good (hr : EdgesInRange edges n) {lab : Array Nat} (hg : LabGood edges n lab) :
    LabGood edges n (relaxRound edges lab) :=
  relaxPass_good hr _ _ (fun _ he => List.mem_reverse.mp he) (relaxPass_good hr _ _ (fun _ he => he) hg)

theorem relaxRound_le (hr : EdgesInRange edges n) {lab : Array Nat} (hg : LabGood edges n lab) (i : Nat) :
    (relaxRound edges lab)[i]! ≤ lab[i]! :=
  Nat.le_trans
    (relaxPass_le hr _ _ (fun _ he => List.mem_reverse.mp he) (relaxPass_good hr _ _ (fun _ he => he) hg) i)
    (relaxPass_le hr _ _ (fun _ he => he) hg i)

theorem relaxRound_adj (hr : EdgesInRange edges n) {lab : Array Nat} (hg : LabGood edges n lab)
    {a b : Nat} (h : Adj edges a b) : (relaxRound edges lab)[b]! ≤ lab[a]! := by
  have hg1 := relaxPass_good hr edges lab (fun _ he => he) hg
  have h2 := relaxPass_le hr edges.reverse _ (fun _ he => List.mem_reverse.mp he) hg1 b
  rcases h with h | h
  · exact Nat.le_trans h2 (relaxPass_edge hr edges lab (fun _ he => he) hg _ h).2
  · exact Nat.le_trans h2 (relaxPass_edge hr edges lab (fun _ he => he) hg _ h).1

/-! ### labels versus the minimum of the component -/

theorem LabGood.minConn_le {lab : Array Nat} (hg : LabGood edges n lab) {i : Nat} (hi : i < n) :
    minConn edges i ≤ lab[i]! := Qmc.minConn_le (hg.2 i hi).1

theorem LabGood.at_min {lab : Array Nat} (hg : LabGood edges n lab) {i : Nat} (hi : i < n) :
    lab[minConn edges i]! = minConn edges i := by
  have hm : minConn edges i < n := Nat.lt_of_le_of_lt (minConn_le_self i) hi
  have h1 := (hg.2 _ hm).2
  have h2 := hg.minConn_le hm
  rw [minConn_idem] at h2
  exact Nat.le_antisymm h1 h2

/-- labels constant along every edge are the component minima -/
theorem LabGood.final_of_fixed {lab : Array Nat} (hg : LabGood edges n lab)
    (hf : ∀ e ∈ edges, lab[e.1]! = lab[e.2]!) {i : Nat} (hi : i < n) : lab[i]! = minConn edges i := by
  have := Conn.const (fun j => lab[j]!) hf (minConn_conn (edges := edges) i)
  rw [this, hg.at_min hi]

theorem fixed_of_round_eq (hr : EdgesInRange edges n) {lab : Array Nat} (hg : LabGood edges n lab)
    (h : relaxRound edges lab = lab) : ∀ e ∈ edges, lab[e.1]! = lab[e.2]! := by
  intro e he
  have h1 := relaxRound_adj hr hg (Or.inl he : Adj edges e.1 e.2)
  have h2 := relaxRound_adj hr hg (Or.inr he : Adj edges e.2 e.1)
  rw [h] at h1 h2
  exact Nat.le_antisymm h2 h1

open Classical in
/-- legs whose label is already final -/
noncomputable def doneSet (edges : List (Nat × Nat)) (n : Nat) (lab : Array Nat) : Finset Nat :=
  (Finset.range n).filter fun i => lab[i]! = minConn edges i

theorem doneSet_card_le (lab : Array Nat) : (doneSet edges n lab).card ≤ n := by
  classical
  have := Finset.card_le_card (Finset.filter_subset (fun i => lab[i]! = minConn edges i) (Finset.range n))
  rwa [Finset.card_range] at this

theorem final_of_doneSet_card {lab : Array Nat} (h : n ≤ (doneSet edges n lab).card) {i : Nat} (hi : i < n) :
    lab[i]! = minConn edges i := by
  classical
  have hsub : doneSet edges n lab ⊆ Finset.range n := Finset.filter_subset _ _
  have heq : doneSet edges n lab = Finset.range n :=
    Finset.eq_of_subset_of_card_le hsub (by rw [Finset.card_range]; exact h)
  have : i ∈ doneSet edges n lab := by rw [heq]; exact Finset.mem_range.mpr hi
  exact (Finset.mem_filter.mp this).2

theorem doneSet_progress (hr : EdgesInRange edges n) {lab : Array Nat} (hg : LabGood edges n lab)
    (hne : relaxRound edges lab ≠ lab) :
    (doneSet edges n lab).card < (doneSet edges n (relaxRound edges lab)).card := by
  classical
  have hg2 := relaxRound_good hr hg
  apply Finset.card_lt_card
  rw [Finset.ssubset_iff_of_subset]
  · -- some leg changes; walk from the minimum of its component to it
    have hex : ∃ i, i < n ∧ (relaxRound edges lab)[i]! ≠ lab[i]! := by
      by_contra hcon
      push Not at hcon
      apply hne
      apply Array.ext
      · rw [hg2.1, hg.1]
      · intro i h1 h2
        have := hcon i (hg2.1 ▸ h1)
        simpa [Array.getElem!_eq_getD, Array.getD_eq_getD_getElem?, h1, h2] using this
    obtain ⟨i, hi, hch⟩ := hex
    have hnot : ¬ lab[i]! = minConn edges i := by
      intro heq
      apply hch
      exact Nat.le_antisymm (relaxRound_le hr hg i) (heq ▸ hg2.minConn_le hi)
    obtain ⟨a, b, hab, hPa, hPb⟩ := Conn.crossing (edges := edges)
      (fun j => j < n ∧ lab[j]! = minConn edges j) (minConn_conn i).symm
      ⟨Nat.lt_of_le_of_lt (minConn_le_self i) hi, by rw [hg.at_min hi, minConn_idem]⟩
      (fun h => hnot h.2)
    have hbn : b < n := Conn.lt hr (Conn.of_adj hab) hPa.1
    refine ⟨b, ?_, ?_⟩
    · refine Finset.mem_filter.mpr ⟨Finset.mem_range.mpr hbn, ?_⟩
      have h1 := relaxRound_adj hr hg hab
      rw [hPa.2, minConn_eq_of_conn (Conn.of_adj hab)] at h1
      exact Nat.le_antisymm h1 (hg2.minConn_le hbn)
    · intro hmem
      exact hPb ⟨hbn, (Finset.mem_filter.mp hmem).2⟩
  · intro i hmem
    obtain ⟨hir, hil⟩ := Finset.mem_filter.mp hmem
    have hi := Finset.mem_range.mp hir
    refine Finset.mem_filter.mpr ⟨hir, ?_⟩
    exact Nat.le_antisymm (hil ▸ relaxRound_le hr hg i) (hg2.minConn_le hi)

/-- `relax` with enough fuel ends on the component minima -/
theorem relax_final (hr : EdgesInRange edges n) : ∀ (fuel : Nat) (lab : Array Nat),
    LabGood edges n lab → n ≤ fuel + (doneSet edges n lab).card →
    (relax edges fuel lab).size = n ∧ ∀ i < n, (relax edges fuel lab)[i]! = minConn edges i
  | 0, lab, hg, hc => by
    simp only [relax]
    exact ⟨hg.1, fun i hi => final_of_doneSet_card (by simpa using hc) hi⟩
  | fuel + 1, lab, hg, hc => by
    simp only [relax]
    have hround : relaxPass edges.reverse (relaxPass edges lab) = relaxRound edges lab := rfl
    rw [hround]
    by_cases heq : relaxRound edges lab = lab
    · rw [if_pos (by simp [heq])]
      exact ⟨hg.1, fun i hi => hg.final_of_fixed (fixed_of_round_eq hr hg heq) hi⟩
    · rw [if_neg (by simpa using heq)]
      have hp := doneSet_progress hr hg heq
      exact relax_final hr fuel _ (relaxRound_good hr hg) (by omega)

theorem labGood_range (n : Nat) : LabGood edges n (Array.range n) := by
  refine ⟨by simp, fun i hi => ?_⟩
  have : (Array.range n)[i]! = i := by
    simp [hi]
  rw [this]
  exact ⟨Conn.refl i, Nat.le_refl i⟩

/-- **`componentLabels` computes the connected components**: the label of leg `i` is the smallest
leg id connected to `i` -/
theorem componentLabels_spec (g : LegGraph) (hr : EdgesInRange g.edges g.nlegs) :
    (componentLabels g).size = g.nlegs ∧
    ∀ i < g.nlegs, (componentLabels g)[i]! = minConn g.edges i :=
  relax_final hr (g.nlegs + 1) _ (labGood_range g.nlegs) (by omega)

end Qmc
