import QmcModel.Rvb
import QmcProofs.RvbBalance

/-! The running product the code accumulates during its sweep (`Sweep.mult`, in the code's order)
is the multiplier of the extracted segment abstraction, as long as the sweep is not abandoned. -/

namespace Qmc
namespace Rvb

theorem prodR_append (a b : List Rat) : prodR (a ++ b) = prodR a * prodR b := by
  induction a with
  | nil => simp
  | cons x t ih => simp only [List.cons_append, prodR_cons, ih]; ring

/-- the invariant: `mult` is the product over the committed segments and enclosed operators -/
def Sweep.Inv (s : Sweep) : Prop :=
  s.segs.length = s.asg.length ∧
  s.mult = prodR ((s.segs.zip s.asg).map fun sj => calculateMult sj.1.wBef sj.1.wAft sj.2.length) *
    prodR (s.inner.map fun p => p.2 / p.1)

theorem Sweep.commit_inv (E : Ising) (s : Sweep) (h : s.Inv) : (s.commit E).Inv := by
  obtain ⟨h1, h2⟩ := h
  unfold Sweep.commit Sweep.Inv
  simp only
  refine ⟨by simp [h1], ?_⟩
  rw [List.zip_append h1, List.map_append, prodR_append, h2]
  simp only [List.zip_cons_cons, List.zip_nil_right, List.map_cons, List.map_nil, prodR_cons, prodR_nil]
  ring

theorem Sweep.stepOp_inv (E : Ising) (R : Region) (s : Sweep) (p : Nat) (o : Op) (h : s.Inv) :
    (s.stepOp E R p o).Inv := by
  unfold Sweep.stepOp
  split
  · exact h
  · simp only
    split
    · exact h
    · -- the enclosed-operator factor
      have hs1 : (if o.vars.all (getB s.mask) = true then
          ({ s with inner := s.inner ++ [(E.opW o, E.w o.bond (flipAll o.ins) (flipAll o.outs))],
                    mult := s.mult * (E.w o.bond (flipAll o.ins) (flipAll o.outs) / E.opW o) } : Sweep)
          else s).Inv := by
        split
        · obtain ⟨h1, h2⟩ := h
          refine ⟨h1, ?_⟩
          simp only [List.map_append, prodR_append, List.map_cons, List.map_nil, prodR_cons, prodR_nil]
          rw [h2]; ring
        · exact h
      generalize (if o.vars.all (getB s.mask) = true then
          ({ s with inner := s.inner ++ [(E.opW o, E.w o.bond (flipAll o.ins) (flipAll o.outs))],
                    mult := s.mult * (E.w o.bond (flipAll o.ins) (flipAll o.outs) / E.opW o) } : Sweep)
          else s) = s1 at hs1 ⊢
      have hs2 : (if s1.mult < f64eps then s1 else
          if (!o.tagDiag || s.tog.head? == some p) = true then s1.commit E else s1).Inv := by
        split
        · exact hs1
        · split
          · exact Sweep.commit_inv E s1 hs1
          · exact hs1
      generalize (if s1.mult < f64eps then s1 else
          if (!o.tagDiag || s.tog.head? == some p) = true then s1.commit E else s1) = s2 at hs2 ⊢
      have hs3 : (if s2.mult < f64eps then ({ s2 with broke := true } : Sweep) else s2).Inv := by
        split
        · exact hs2
        · exact hs2
      generalize (if s2.mult < f64eps then ({ s2 with broke := true } : Sweep) else s2) = s3 at hs3 ⊢
      exact hs3

theorem Sweep.run_inv (E : Ising) (R : Region) (slots : Slots) (s : Sweep) (p : Nat) (h : s.Inv) :
    (Sweep.run E R s p slots).Inv := by
  induction slots generalizing s p with
  | nil => exact h
  | cons x t ih =>
    cases x with
    | none => exact ih s (p + 1) h
    | some o => exact ih _ (p + 1) (Sweep.stepOp_inv E R s p o h)

/-- a sweep that is never abandoned is the plain sweep -/
theorem Sweep.runCode_eq_run (E : Ising) (R : Region) (slots : Slots) (s : Sweep) (p : Nat)
    (h : (Sweep.runCode E R s p slots).broke = false) (hs : s.broke = false) :
    Sweep.runCode E R s p slots = Sweep.run E R s p slots := by
  induction slots generalizing s p with
  | nil => rfl
  | cons x t ih =>
    cases x with
    | none => exact ih s (p + 1) h hs
    | some o =>
      unfold Sweep.runCode at h ⊢
      unfold Sweep.run
      simp only at h ⊢
      by_cases hb : (s.stepOp E R p o).broke = true
      · simp only [hb, if_true] at h
        cases h
      · have hb' : (s.stepOp E R p o).broke = false := by simpa using hb
        simp only [hb', Bool.false_eq_true, if_false] at h ⊢
        exact ih _ (p + 1) h hb'

/-- **the code's value is the multiplier of the segment abstraction** whenever the sweep ran to
the end (otherwise the code returns 0 and rejects). -/
theorem rvbCodeMult_eq (E : Ising) (c : Config) (R : Region) (h : (rvbCodeMult E c R).2 = false) :
    (rvbCodeMult E c R).1 = rvbRawMult E c R := by
  unfold rvbCodeMult at h ⊢
  simp only at h ⊢
  split at h
  · cases h
  · rename_i hb
    have hb' : (Sweep.runCode E R { st := c.state, mask := R.mask0, tog := R.toggles } 0 c.slots).broke = false := by
      simpa using hb
    simp only [hb', Bool.false_eq_true, if_false]
    rw [Sweep.runCode_eq_run E R c.slots _ 0 hb' rfl]
    have hinv : (Sweep.run E R { st := c.state, mask := R.mask0, tog := R.toggles } 0 c.slots).Inv :=
      Sweep.run_inv E R c.slots _ 0 ⟨rfl, by simp⟩
    have hc := Sweep.commit_inv E _ hinv
    unfold rvbRawMult extract rawMult
    simp only
    rw [hc.2, List.zip_map_right, List.map_map]
    rfl

end Rvb
end Qmc
