/-
Lemmas about the generic sampler's bookkeeping (QmcModel/Generic.lean): the two classification
flags as folds over the bond list, the offset as minus the sum of the reported shifts, what each
constructor reports and stores, and the composition structure of `timestep`.
-/
import QmcModel.Generic
import QmcProofs.Interaction
import QmcProofs.Loop

namespace Qmc

/-- the interaction is classified symmetric under the global spin flip -/
def symOk (i : Interaction) : Bool := decide (i.symUnderIsing = .ok true)

/-- the interaction is a legal cluster boundary: a constant matrix on one variable -/
def clusterEdge (i : Interaction) : Bool := isValidClusterEdge i.isConstant i.vars.length

/-- the flags are folds over the stored bonds -/
structure FlagsInv (q : GQmc) : Prop where
  breaks : q.breaksIsing = q.bonds.any (fun i => !symOk i)
  edges : q.hasClusterEdges = q.bonds.any clusterEdge

theorem flagsInv_init (d : Bool) : FlagsInv (GQmc.init d) := ⟨rfl, rfl⟩

theorem addInteraction_ok {q q' : GQmc} {i : Interaction} (ha : addInteraction q i = .ok q') :
    (FlagsInv q → FlagsInv q') ∧ q'.bonds = q.bonds ++ [i] ∧ q'.offset = q.offset ∧
      q'.doLoop = q.doLoop ∧ q'.doHeatbath = q.doHeatbath ∧ q'.bondWeightsSet = false := by
  unfold addInteraction at ha
  split at ha
  · rename_i sym hs
    injection ha with ha; subst ha
    refine ⟨fun h => ⟨?_, ?_⟩, rfl, rfl, rfl, rfl, rfl⟩
    · show (q.breaksIsing || !sym) = (q.bonds ++ [i]).any (fun i => !symOk i)
      rw [h.breaks, List.any_append]
      cases sym <;> simp [symOk, hs]
    · simp only [List.any_append, List.any_cons, List.any_nil, Bool.or_false, ← h.edges, clusterEdge]
  · cases ha
  · cases ha

/-- a call is accepted iff its constructor succeeds and the classification does not panic;
this does not depend on the sampler it is issued on -/
def accepts (c : Call) : Bool :=
  match construct c with
  | .ok (i, _) => match i.symUnderIsing with
    | .ok _ => true
    | _ => false
  | _ => false

theorem makeCall_ok {q q' : GQmc} {c : Call} (h : makeCall q c = .ok q') :
    ∃ i off, construct c = .ok (i, off) ∧ accepts c = true ∧ (FlagsInv q → FlagsInv q') ∧
      q'.bonds = q.bonds ++ [i] ∧ q'.offset = q.offset - off ∧ q'.doLoop = q.doLoop := by
  unfold makeCall at h
  split at h
  · rename_i i off hc
    split at h
    · rename_i q1 ha
      injection h with h; subst h
      obtain ⟨hf, hb, ho, hl, _, _⟩ := addInteraction_ok ha
      refine ⟨i, off, hc, ?_, fun hq => ⟨(hf hq).breaks, (hf hq).edges⟩, hb, by simp [ho], hl⟩
      unfold accepts; rw [hc]; simp only
      cases hs : i.symUnderIsing with
      | ok b => rfl
      | err => simp [addInteraction, hs] at ha
      | panic => simp [addInteraction, hs] at ha
    · cases h
    · cases h
  · cases h
  · cases h

theorem makeCall_err_iff_not_accepts {q : GQmc} {c : Call} (h : makeCall q c = .err) :
    accepts c = false := by
  unfold makeCall at h
  unfold accepts
  split at h
  · rename_i i off hc
    rw [hc]; simp only
    split at h
    · cases h
    · rename_i ha
      unfold addInteraction at ha
      split at ha
      · cases ha
      · rename_i hs; rw [hs]
      · cases ha
    · cases h
  · rename_i hc; rw [hc]
  · cases h

/-- what a sequence of calls leaves behind: the flags stay folds over the bonds, the bonds are
the accepted constructions in order, the offset is the initial one minus the sum of the shifts
the accepted constructors reported. -/
theorem makeCalls_ok {q q' : GQmc} {calls : List Call} (h : makeCalls q calls = .ok q') :
    ∃ tr : List (Call × Interaction × Rat),
      tr.map (·.1) = calls.filter accepts ∧
      (∀ x ∈ tr, construct x.1 = .ok (x.2.1, x.2.2)) ∧
      (FlagsInv q → FlagsInv q') ∧
      q'.bonds = q.bonds ++ tr.map (·.2.1) ∧
      q'.offset = q.offset - sumR (tr.map (·.2.2)) ∧
      q'.doLoop = q.doLoop := by
  induction calls generalizing q with
  | nil =>
    simp only [makeCalls] at h; injection h with h; subst h
    exact ⟨[], rfl, by simp, id, by simp, by simp [sumR_nil], rfl⟩
  | cons c t ih =>
    simp only [makeCalls] at h
    split at h
    · rename_i q1 h1
      obtain ⟨i, off, hc, hacc, hf, hb, ho, hl⟩ := makeCall_ok h1
      obtain ⟨tr, e1, e2, e3, e4, e5, e6⟩ := ih h
      refine ⟨(c, i, off) :: tr, ?_, ?_, fun hq => e3 (hf hq), ?_, ?_, by rw [e6, hl]⟩
      · simp [List.filter_cons, hacc, e1]
      · intro x hx
        rcases List.mem_cons.mp hx with rfl | hx
        · exact hc
        · exact e2 x hx
      · rw [e4, hb]; simp
      · rw [e5, ho]; simp only [List.map_cons]; rw [sumR_cons]; ring
    · rename_i h1
      obtain ⟨tr, e1, e2, e3, e4, e5, e6⟩ := ih h
      refine ⟨tr, ?_, e2, e3, e4, e5, e6⟩
      simp [List.filter_cons, makeCall_err_iff_not_accepts h1, e1]
    · cases h

/-- the gate in terms of the flags' meaning -/
theorem gate_of_flags {q : GQmc} (h : FlagsInv q) :
    shouldDoClusterUpdate q = true ↔
      (∀ i ∈ q.bonds, i.symUnderIsing = .ok true) ∧
      ∃ i ∈ q.bonds, i.isConstant = true ∧ i.vars.length = 1 := by
  unfold shouldDoClusterUpdate
  rw [h.breaks, h.edges]
  simp only [Bool.and_eq_true, Bool.not_eq_true', List.any_eq_false, List.any_eq_true,
    Bool.not_eq_true, symOk, decide_eq_false_iff_not, not_not, clusterEdge, isValidClusterEdge,
    beq_iff_eq]

/-! ### what the constructors report and store -/

theorem construct_new {m : List Rat} {vs : List Nat} {i : Interaction} {off : Rat}
    (h : construct ⟨.new, m, vs⟩ = .ok (i, off)) : off = 0 ∧ i.mat = m := by
  simp only [construct, Res.map, Res.bind] at h
  rw [new_eq] at h
  by_cases hc : (∀ x ∈ m, 0 ≤ x) ∧ (vs ≠ [] ∧ vs.Nodup) ∧ m.length = 4 ^ vs.length
  · rw [if_pos hc] at h; simp only at h; injection h with h; injection h with h1 h2
    exact ⟨h2.symm, by rw [← h1]; rfl⟩
  · rw [if_neg hc] at h; cases h

theorem construct_diag {m : List Rat} {vs : List Nat} {i : Interaction} {off : Rat}
    (h : construct ⟨.diag, m, vs⟩ = .ok (i, off)) : off = 0 ∧ i.mat = m := by
  simp only [construct, Res.map, Res.bind] at h
  rw [newDiagonal_eq] at h
  by_cases hc : (∀ x ∈ m, 0 ≤ x) ∧ (vs ≠ [] ∧ vs.Nodup) ∧ m.length = 2 ^ vs.length
  · rw [if_pos hc] at h; simp only at h; injection h with h; injection h with h1 h2
    exact ⟨h2.symm, by rw [← h1]; rfl⟩
  · rw [if_neg hc] at h; cases h

/-- the diagonal-table offset variant reports the minimum entry and stores the table minus it -/
theorem construct_diagOff {m : List Rat} {vs : List Nat} {i : Interaction} {off : Rat}
    (h : construct ⟨.diagOff, m, vs⟩ = .ok (i, off)) :
    off = (minFold m).getD 0 ∧ i.mat = m.map (· - off) ∧
      (m ≠ [] → off ∈ m ∧ ∀ x ∈ m, off ≤ x) := by
  simp only [construct] at h
  rw [newDiagonalOffset_eq] at h
  by_cases hc : (vs ≠ [] ∧ vs.Nodup) ∧ m.length = 2 ^ vs.length
  · rw [if_pos hc] at h
    injection h with h; injection h with h1 h2
    refine ⟨h2.symm, by rw [← h1, ← h2]; rfl, ?_⟩
    intro hne
    obtain ⟨d, hd, hmem, hmin⟩ := minFold_spec m hne
    rw [hd] at h2; simp only [Option.getD_some] at h2
    rw [← h2]; exact ⟨hmem, hmin⟩
  · rw [if_neg hc] at h; cases h

/-- the full-matrix offset variant reports the minimum diagonal entry and stores the matrix
with that value subtracted on the diagonal only -/
theorem construct_newOff {m : List Rat} {vs : List Nat} {i : Interaction} {off : Rat}
    (h : construct ⟨.newOff, m, vs⟩ = .ok (i, off)) :
    (off ∈ (diagIdxs vs.length).map (fun j => (m[j]?).getD 0)) ∧
    (∀ j ∈ diagIdxs vs.length, off ≤ (m[j]?).getD 0) ∧
    i.mat.length = m.length ∧
    (∀ j, j ∉ diagIdxs vs.length → i.mat[j]? = m[j]?) ∧
    (∀ j ∈ diagIdxs vs.length, i.mat[j]? = (m[j]?).map (· - off)) := by
  simp only [construct] at h
  obtain ⟨hbad, hgood⟩ := newOffset_spec m vs
  by_cases hlen : m.length = 4 ^ vs.length
  · obtain ⟨d, m', h1, h2, h3, h4, h5, heq⟩ := hgood hlen
    rw [heq, new_eq] at h
    by_cases hc : (∀ x ∈ m', 0 ≤ x) ∧ (vs ≠ [] ∧ vs.Nodup) ∧ m'.length = 4 ^ vs.length
    · rw [if_pos hc] at h
      simp only [Res.map, Res.bind] at h
      injection h with h; injection h with e1 e2
      subst e2
      have : i.mat = m' := by rw [← e1]; rfl
      rw [this]
      exact ⟨h1, h2, h3, h4, h5⟩
    · rw [if_neg hc] at h; simp [Res.map, Res.bind] at h
  · rcases hbad hlen with e | ⟨_, _, _, e⟩ <;> (rw [e] at h; cases h)

/-! ### composition structure of `timestep` -/

/-- any property of (configuration) preserved by each sub-update is preserved by `timestep`,
whatever the flags are -/
theorem timestep_preserves (P : Config → Prop) (K : Kernels) (q : GQmc)
    (hd : ∀ beta cfg rs, P cfg → P (K.diag q beta cfg rs).1)
    (hl : ∀ cfg rs, P cfg → P (loopUpdate (genericW q) cfg rs).1)
    (hc : ∀ cfg rs, P cfg → P (K.cluster cfg rs).1)
    (hf : ∀ cfg rs, P cfg → P (flipFreeBits cfg rs).1)
    (beta : Rat) (cfg : Config) (rs : RS) (h : P cfg) : P (timestep K q beta cfg rs).1 := by
  unfold timestep
  simp only
  apply hf
  split
  · apply hc
    split
    · apply hl; exact hd _ _ _ h
    · exact hd _ _ _ h
  · split
    · apply hl; exact hd _ _ _ h
    · exact hd _ _ _ h

/-- the free-spin refresh touches only the state and only at variables without operators -/
theorem flipFreeBitsFrom_spec (slots : Slots) (fuel v : Nat) (st : List Bool) (rs : RS) :
    (flipFreeBitsFrom slots fuel v st rs).1.length = st.length ∧
    ∀ u, varHasOps slots u = true →
      (flipFreeBitsFrom slots fuel v st rs).1[u]? = st[u]? := by
  induction fuel generalizing v st rs with
  | zero => exact ⟨rfl, fun _ _ => rfl⟩
  | succ f ih =>
    unfold flipFreeBitsFrom
    split
    · exact ih _ _ _
    · rename_i hv
      simp only
      obtain ⟨h1, h2⟩ := ih (v + 1) (st.set v (rs.genBool (1 / 2)).1) (rs.genBool (1 / 2)).2
      refine ⟨by rw [h1]; simp, ?_⟩
      intro u hu
      rw [h2 u hu]
      have : v ≠ u := by
        intro e; subst e; exact hv hu
      rw [List.getElem?_set_ne this]

theorem flipFreeBits_slots (cfg : Config) (rs : RS) : (flipFreeBits cfg rs).1.slots = cfg.slots := by
  unfold flipFreeBits; rfl

/-! ### the free-spin refresh keeps world lines periodic -/

theorem foldl_set_comm (l : List (Nat × Bool)) (st : List Bool) (v : Nat) (b : Bool)
    (h : ∀ x ∈ l, x.1 ≠ v) :
    l.foldl (fun s vb => s.set vb.1 vb.2) (st.set v b)
      = (l.foldl (fun s vb => s.set vb.1 vb.2) st).set v b := by
  induction l generalizing st with
  | nil => rfl
  | cons a t ih =>
    simp only [List.foldl_cons]
    have ha : a.1 ≠ v := h a (by simp)
    rw [List.set_comm _ _ (Ne.symm ha), ih _ (fun x hx => h x (by simp [hx]))]

theorem writeVars_set_comm (st : List Bool) (vars : List Nat) (vals : List Bool) (v : Nat) (b : Bool)
    (h : v ∉ vars) : writeVars (st.set v b) vars vals = (writeVars st vars vals).set v b := by
  unfold writeVars
  apply foldl_set_comm
  intro x hx e
  exact h (e ▸ (List.of_mem_zip hx).1)

theorem all_congr_mem {α} (l : List α) (p q : α → Bool) (h : ∀ x ∈ l, p x = q x) :
    l.all p = l.all q := by
  induction l with
  | nil => rfl
  | cons a t ih =>
    simp only [List.all_cons]
    rw [h a (by simp), ih (fun x hx => h x (by simp [hx]))]

theorem inputsMatch_set (st : List Bool) (o : Op) (v : Nat) (b : Bool) (h : v ∉ o.vars) :
    inputsMatch (st.set v b) o = inputsMatch st o := by
  unfold inputsMatch
  apply all_congr_mem
  intro x hx
  have : x.1 ≠ v := fun e => h (e ▸ (List.of_mem_zip hx).1)
  rw [List.getElem?_set_ne (Ne.symm this)]

theorem applyOp_set (st : List Bool) (o : Op) (v : Nat) (b : Bool) (h : v ∉ o.vars) :
    applyOp (st.set v b) o = (applyOp st o).map (·.set v b) := by
  unfold applyOp
  rw [inputsMatch_set st o v b h]
  split
  · simp [writeVars_set_comm _ _ _ _ _ h]
  · rfl

/-- a variable no op of the segment acts on is carried through `propagate` untouched -/
theorem propagate_set_untouched (seg : Slots) (st : List Bool) (v : Nat) (b : Bool)
    (h : ∀ o, some o ∈ seg → v ∉ o.vars) :
    propagate (st.set v b) seg = (propagate st seg).map (·.set v b) := by
  induction seg generalizing st with
  | nil => rfl
  | cons a t ih =>
    have ht : ∀ o, some o ∈ t → v ∉ o.vars := fun o ho => h o (by simp [ho])
    cases a with
    | none => simp only [propagate]; exact ih st ht
    | some o =>
      simp only [propagate]
      rw [applyOp_set st o v b (h o (by simp))]
      cases applyOp st o with
      | none => rfl
      | some st' => simp only [Option.map_some]; exact ih st' ht

theorem not_mem_vars_of_indexOfVar_none (o : Op) (v : Nat) (h : o.indexOfVar v = none) : v ∉ o.vars := by
  unfold Op.indexOfVar at h
  simp only at h
  split at h
  · cases h
  · rename_i hlt
    intro hm
    exact hlt (List.idxOf_lt_length_of_mem hm)

theorem no_ops_of_varHasOps_false (slots : Slots) (v : Nat) (h : varHasOps slots v = false) :
    ∀ o, some o ∈ slots → v ∉ o.vars := by
  intro o ho
  unfold varHasOps at h
  simp only [Bool.not_eq_false', List.isEmpty_iff] at h
  obtain ⟨p, hp, hpe⟩ := List.getElem_of_mem ho
  apply not_mem_vars_of_indexOfVar_none
  cases hi : o.indexOfVar v with
  | none => rfl
  | some r =>
    exfalso
    have : (p, r) ∈ occV slots v := by
      unfold occV
      rw [List.mem_filterMap]
      refine ⟨p, List.mem_range.mpr hp, ?_⟩
      rw [List.getElem?_eq_getElem hp, hpe]
      simp [hi]
    rw [h] at this
    simp at this

theorem flipFreeBitsFrom_consistent (slots : Slots) (fuel v : Nat) (st : List Bool) (rs : RS)
    (h : propagate st slots = some st) :
    propagate (flipFreeBitsFrom slots fuel v st rs).1 slots = some (flipFreeBitsFrom slots fuel v st rs).1 := by
  induction fuel generalizing v st rs with
  | zero => exact h
  | succ f ih =>
    unfold flipFreeBitsFrom
    split
    · exact ih _ _ _ h
    · rename_i hv
      simp only
      apply ih
      rw [propagate_set_untouched slots st v _ (no_ops_of_varHasOps_false slots v (by simpa using hv)), h]
      rfl

/-- the free-spin refresh keeps world lines periodic -/
theorem flipFreeBits_consistent (cfg : Config) (rs : RS) (h : Consistent cfg) :
    Consistent (flipFreeBits cfg rs).1 := by
  unfold Consistent at h ⊢
  exact flipFreeBitsFrom_consistent cfg.slots cfg.state.length 0 cfg.state rs h

end Qmc
