/-
Row mass of the fuel-truncated directed-loop kernel `loopKn w n` (QmcProofs/LoopKernel.lean).

`walkVal w φ init n pos ent c` is the expectation of `φ(result)` over the closed walks of at most
`n` visits from the head `(pos, ent)` at `c` (`φ = 1`: probability of closing within `n` visits,
`φ = 1_{c'}`: the kernel entry, `φ = 1_S`: the mass sent into a finite set `S`). It satisfies the
one-visit recursion `walkVal_succ` (sum over the exits of `exitProb · value of the outcome`).
`openFrom w init n pos ent c` is the probability that the walk has NOT closed within `n` visits,
defined by the same recursion.

Results (all over ℚ, for non-negative weight functions):
* entries are `≥ 0` and monotone in the fuel; `openFrom` is antitone, in `[0, 1]`;
* `Σ_{c' ∈ S} loopKn w n c c' ≤ 1` for EVERY configuration and every finite `S` (no legality
  needed: the exit probabilities of one visit sum to 1 or — on a vertex of total weight 0 — to 0);
* the exact accounting `rowMass n + openMass n = 1` on configurations whose stored matrix elements
  are positive (local normalisation of the exit choice + uniform start leg), and
  `Σ_{c' ∈ reach n c} loopKn w n c c' = rowMass n = 1 − openMass n`;
* a Doeblin-type sufficient condition for `openMass n → 0` at a geometric rate.
-/
import QmcProofs.LoopKernelCut
import QmcProofs.LoopNoPanic
import Mathlib.Algebra.Order.BigOperators.Group.List
import Mathlib.Algebra.Order.BigOperators.Group.Finset
import Mathlib.Algebra.BigOperators.Ring.Finset

namespace Qmc.LoopC.Mass
open Qmc Qmc.LoopC

/-! ### list sums -/

theorem sum_map_flatMap {α β : Type} (l : List α) (f : α → List β) (g : β → Rat) :
    ((l.flatMap f).map g).sum = (l.map fun x => ((f x).map g).sum).sum := by
  induction l with
  | nil => simp
  | cons x t ih => simp [List.flatMap_cons, List.map_append, List.sum_append, ih]

theorem sum_filter_map {α : Type} (l : List α) (p : α → Bool) (g : α → Rat) :
    ((l.filter p).map g).sum = (l.map fun x => if p x then g x else 0).sum := by
  induction l with
  | nil => simp
  | cons x t ih =>
    by_cases h : p x = true
    · simp [h, ih]
    · simp [h, ih]

theorem sum_map_nonneg {α : Type} (l : List α) (g : α → Rat) (h : ∀ x ∈ l, 0 ≤ g x) :
    0 ≤ (l.map g).sum := by
  apply List.sum_nonneg
  intro y hy
  obtain ⟨x, hx, rfl⟩ := List.mem_map.mp hy
  exact h x hx

theorem sumR_eq_sum (l : List Rat) : sumR l = l.sum := by
  induction l with
  | nil => rfl
  | cons a t ih => rw [sumR_cons, List.sum_cons, ih]

/-! ### local normalisation of the exit choice -/

theorem exitProb_nonneg (W : List Bool → List Bool → Rat) (hW : ∀ a b, 0 ≤ W a b)
    (io : List Bool × List Bool) (i e : Leg) (k : Nat) : 0 ≤ exitProb W io i e k := by
  unfold exitProb
  apply div_nonneg (hW _ _)
  apply sumR_nonneg
  intro x hx
  obtain ⟨l, _, rfl⟩ := List.mem_map.mp hx
  exact hW _ _

/-- **local normalisation**: the exit probabilities of one vertex visit sum to 1 whenever the
total exit weight is not 0 -/
theorem sum_exitProb (W : List Bool → List Bool → Rat) (io : List Bool × List Bool) (i : Leg)
    (k : Nat) (h : sumR (exitWeights W io i k) ≠ 0) :
    ((legsOf k).map fun e => exitProb W io i e k).sum = 1 := by
  have e1 : ((legsOf k).map fun e => exitProb W io i e k)
      = (legsOf k).map fun e => (sumR (exitWeights W io i k))⁻¹ * exitWeight W io i e := by
    apply List.map_congr_left
    intro e _
    unfold exitProb
    rw [div_eq_inv_mul]
  rw [e1, sum_map_mul_left']
  have e2 : ((legsOf k).map (exitWeight W io i)).sum = sumR (exitWeights W io i k) := by
    rw [sumR_eq_sum]; rfl
  rw [e2]
  exact inv_mul_cancel₀ h

/-- … and to 0 on a vertex of total weight 0 (every `x / 0` is 0) -/
theorem sum_exitProb_zero (W : List Bool → List Bool → Rat) (io : List Bool × List Bool) (i : Leg)
    (k : Nat) (h : sumR (exitWeights W io i k) = 0) :
    ((legsOf k).map fun e => exitProb W io i e k).sum = 0 := by
  apply List.sum_eq_zero
  intro y hy
  obtain ⟨e, _, rfl⟩ := List.mem_map.mp hy
  unfold exitProb
  rw [h, div_zero]

theorem sum_exitProb_le_one (W : List Bool → List Bool → Rat) (io : List Bool × List Bool) (i : Leg)
    (k : Nat) : ((legsOf k).map fun e => exitProb W io i e k).sum ≤ 1 := by
  by_cases h : sumR (exitWeights W io i k) = 0
  · rw [sum_exitProb_zero W io i k h]; exact zero_le_one
  · rw [sum_exitProb W io i k h]

/-- an average with the exit probabilities of values `≤ 1` is `≤ 1` -/
theorem exitAvg_le_one (W : List Bool → List Bool → Rat) (hW : ∀ a b, 0 ≤ W a b)
    (io : List Bool × List Bool) (i : Leg) (k : Nat) (g : Leg → Rat) (hg : ∀ e, g e ≤ 1) :
    ((legsOf k).map fun e => exitProb W io i e k * g e).sum ≤ 1 := by
  refine le_trans (List.sum_le_sum (g := fun e => exitProb W io i e k) ?_) (sum_exitProb_le_one W io i k)
  intro e _
  exact mul_le_of_le_one_right (exitProb_nonneg W hW io i e k) (hg e)

theorem exitAvg_nonneg (W : List Bool → List Bool → Rat) (hW : ∀ a b, 0 ≤ W a b)
    (io : List Bool × List Bool) (i : Leg) (k : Nat) (g : Leg → Rat) (hg : ∀ e, 0 ≤ g e) :
    0 ≤ ((legsOf k).map fun e => exitProb W io i e k * g e).sum :=
  sum_map_nonneg _ _ (fun e _ => mul_nonneg (exitProb_nonneg W hW io i e k) (hg e))

theorem exitAvg_mono (W : List Bool → List Bool → Rat) (hW : ∀ a b, 0 ≤ W a b)
    (io : List Bool × List Bool) (i : Leg) (k : Nat) (g g' : Leg → Rat) (hg : ∀ e, g e ≤ g' e) :
    ((legsOf k).map fun e => exitProb W io i e k * g e).sum ≤
      ((legsOf k).map fun e => exitProb W io i e k * g' e).sum :=
  List.sum_le_sum (fun e _ => mul_le_mul_of_nonneg_left (hg e) (exitProb_nonneg W hW io i e k))

/-- an average of values that are 1 on every exit of positive weight is 1 -/
theorem exitAvg_eq_one (W : List Bool → List Bool → Rat)
    (io : List Bool × List Bool) (i : Leg) (k : Nat) (h : sumR (exitWeights W io i k) ≠ 0)
    (g : Leg → Rat) (hg : ∀ e, exitWeight W io i e ≠ 0 → g e = 1) :
    ((legsOf k).map fun e => exitProb W io i e k * g e).sum = 1 := by
  rw [← sum_exitProb W io i k h]
  congr 1
  apply List.map_congr_left
  intro e _
  by_cases he : exitWeight W io i e = 0
  · unfold exitProb; rw [he]; simp
  · rw [hg e he, mul_one]

/-! ### expectation over the closed walks, and the open-walk mass -/

abbrev WFun := Nat → List Bool → List Bool → Rat

/-- expectation of `φ(result)` over the closed walks of at most `n` visits from the head
`(pos, ent)` at `c` (a walk that has not closed after `n` visits contributes nothing) -/
def walkVal (w : WFun) (φ : Config → Rat) (init : Nat × Leg) (n pos : Nat) (ent : Leg) (c : Config) : Rat :=
  ((walksFrom init n pos ent c).map fun q => pathProb w q.1 * φ q.2).sum

/-- value of the outcome of one step: closed → `φ`, continuing → the value from the new head with
one visit less, no link (the implementation would panic) → nothing -/
def contVal (w : WFun) (φ : Config → Rat) (init : Nat × Leg) (n : Nat) :
    Option (Config × Option (Nat × Leg)) → Rat
  | some (c', none) => φ c'
  | some (c1, some (p, e)) => walkVal w φ init n p e c1
  | none => 0

theorem walkVal_zero (w : WFun) (φ : Config → Rat) (init : Nat × Leg) (pos : Nat) (ent : Leg) (c : Config) :
    walkVal w φ init 0 pos ent c = 0 := by
  simp [walkVal, walksFrom]

/-- **one-visit recursion** of the closed-walk expectation -/
theorem walkVal_succ (w : WFun) (φ : Config → Rat) (init : Nat × Leg) (n pos : Nat) (ent : Leg)
    (c : Config) (op : Op) (hop : c.slots[pos]? = some (some op)) :
    walkVal w φ init (n + 1) pos ent c =
      ((legsOf op.vars.length).map fun ex =>
        exitProb (w op.bond) (op.ins, op.outs) ent ex op.vars.length *
          contVal w φ init n (stepEx init pos ent c ex)).sum := by
  unfold walkVal
  rw [walksFrom]
  simp only [hop]
  rw [sum_map_flatMap]
  congr 1
  apply List.map_congr_left
  intro ex _
  rcases hs : stepEx init pos ent c ex with _ | ⟨c1, _ | ⟨p, e⟩⟩
  · simp [contVal]
  · simp [contVal, pathProb]
  · simp only [contVal, List.map_map, walkVal]
    rw [← sum_map_mul_left']
    congr 1
    apply List.map_congr_left
    intro q _
    simp only [Function.comp, pathProb]
    ring

theorem walkVal_succ_none (w : WFun) (φ : Config → Rat) (init : Nat × Leg) (n pos : Nat) (ent : Leg)
    (c : Config) (h : ∀ op, c.slots[pos]? ≠ some (some op)) :
    walkVal w φ init (n + 1) pos ent c = 0 := by
  unfold walkVal
  rw [walksFrom]
  split
  · rename_i op hop; exact absurd hop (h op)
  · simp

/-- probability that the walk from the head `(pos, ent)` at `c` has NOT closed within `n` visits
(a walk that gets stuck — no op at the head, no link: the implementation would panic — never
closes; on legal input that does not happen, `stepEx_isSome`) -/
def openFrom (w : WFun) (init : Nat × Leg) : Nat → Nat → Leg → Config → Rat
  | 0, _, _, _ => 1
  | n + 1, pos, ent, c =>
    match c.slots[pos]? with
    | some (some op) =>
      ((legsOf op.vars.length).map fun ex =>
        exitProb (w op.bond) (op.ins, op.outs) ent ex op.vars.length *
          (match stepEx init pos ent c ex with
           | some (_, none) => 0
           | some (c1, some (p, e)) => openFrom w init n p e c1
           | none => 1)).sum
    | _ => 1

/-- the open-walk value of the outcome of one step -/
def contOpen (w : WFun) (init : Nat × Leg) (n : Nat) : Option (Config × Option (Nat × Leg)) → Rat
  | some (_, none) => 0
  | some (c1, some (p, e)) => openFrom w init n p e c1
  | none => 1

theorem openFrom_succ (w : WFun) (init : Nat × Leg) (n pos : Nat) (ent : Leg)
    (c : Config) (op : Op) (hop : c.slots[pos]? = some (some op)) :
    openFrom w init (n + 1) pos ent c =
      ((legsOf op.vars.length).map fun ex =>
        exitProb (w op.bond) (op.ins, op.outs) ent ex op.vars.length *
          contOpen w init n (stepEx init pos ent c ex)).sum := by
  rw [openFrom]
  simp only [hop]
  rfl

theorem openFrom_succ_none (w : WFun) (init : Nat × Leg) (n pos : Nat) (ent : Leg)
    (c : Config) (h : ∀ op, c.slots[pos]? ≠ some (some op)) :
    openFrom w init (n + 1) pos ent c = 1 := by
  rw [openFrom]
  split
  · rename_i op hop; exact absurd hop (h op)
  · rfl

/-- on an existing head with an in-range exit the step is never stuck -/
theorem stepEx_isSome (init : Nat × Leg) (pos : Nat) (ent : Leg) (c : Config) (ex : Leg) (op : Op)
    (hop : c.slots[pos]? = some (some op)) (hr : ex.rel < op.vars.length) :
    ∃ r, stepEx init pos ent c ex = some r := by
  unfold stepEx
  simp only [hop]
  split
  · exact ⟨_, rfl⟩
  · obtain ⟨q, hq⟩ := moveOn_some c.slots c.state pos op (passThrough op ent ex) ex hop
      (passThrough_fields op ent ex).1 hr
    rcases hm : moveOn c.slots c.state pos (passThrough op ent ex) ex with ⟨st', _ | ⟨p', r'⟩⟩
    · rw [hm] at hq; cases hq
    · simp only
      split <;> exact ⟨_, rfl⟩

/-! ### signs, monotonicity, linearity -/

theorem pathProb_nonneg (w : WFun) (hW : ∀ b i o, 0 ≤ w b i o) (tr : List Visit) : 0 ≤ pathProb w tr := by
  induction tr with
  | nil => simp [pathProb]
  | cons v t ih =>
    simp only [pathProb]
    exact mul_nonneg (exitProb_nonneg _ (hW _) _ _ _ _) ih

theorem walkVal_nonneg (w : WFun) (hW : ∀ b i o, 0 ≤ w b i o) (φ : Config → Rat) (hφ : ∀ x, 0 ≤ φ x)
    (init : Nat × Leg) (n pos : Nat) (ent : Leg) (c : Config) : 0 ≤ walkVal w φ init n pos ent c :=
  sum_map_nonneg _ _ (fun q _ => mul_nonneg (pathProb_nonneg w hW q.1) (hφ q.2))

theorem walkVal_mono_phi (w : WFun) (hW : ∀ b i o, 0 ≤ w b i o) (φ ψ : Config → Rat)
    (h : ∀ x, φ x ≤ ψ x) (init : Nat × Leg) (n pos : Nat) (ent : Leg) (c : Config) :
    walkVal w φ init n pos ent c ≤ walkVal w ψ init n pos ent c :=
  List.sum_le_sum (fun q _ => mul_le_mul_of_nonneg_left (h q.2) (pathProb_nonneg w hW q.1))

/-- the value depends on `φ` only through the results of the enumerated walks -/
theorem walkVal_congr (w : WFun) (φ ψ : Config → Rat) (init : Nat × Leg) (n pos : Nat) (ent : Leg)
    (c : Config) (h : ∀ q ∈ walksFrom init n pos ent c, φ q.2 = ψ q.2) :
    walkVal w φ init n pos ent c = walkVal w ψ init n pos ent c := by
  unfold walkVal
  congr 1
  apply List.map_congr_left
  intro q hq
  rw [h q hq]

theorem walkVal_add (w : WFun) (φ ψ : Config → Rat) (init : Nat × Leg) (n pos : Nat) (ent : Leg)
    (c : Config) :
    walkVal w (fun x => φ x + ψ x) init n pos ent c =
      walkVal w φ init n pos ent c + walkVal w ψ init n pos ent c := by
  unfold walkVal
  rw [← List.sum_map_add]
  congr 1
  apply List.map_congr_left
  intro q _
  ring

theorem walkVal_zero_fun (w : WFun) (init : Nat × Leg) (n pos : Nat) (ent : Leg) (c : Config) :
    walkVal w (fun _ => 0) init n pos ent c = 0 := by
  unfold walkVal
  apply List.sum_eq_zero
  intro y hy
  obtain ⟨q, _, rfl⟩ := List.mem_map.mp hy
  ring

/-- **monotone in the fuel** -/
theorem walkVal_mono_fuel (w : WFun) (hW : ∀ b i o, 0 ≤ w b i o) (φ : Config → Rat) (hφ : ∀ x, 0 ≤ φ x)
    (init : Nat × Leg) (n pos : Nat) (ent : Leg) (c : Config) :
    walkVal w φ init n pos ent c ≤ walkVal w φ init (n + 1) pos ent c := by
  induction n generalizing pos ent c with
  | zero => rw [walkVal_zero]; exact walkVal_nonneg w hW φ hφ _ _ _ _ _
  | succ n ih =>
    by_cases hocc : ∃ op, c.slots[pos]? = some (some op)
    · obtain ⟨op, hop⟩ := hocc
      rw [walkVal_succ w φ init n pos ent c op hop, walkVal_succ w φ init (n + 1) pos ent c op hop]
      apply exitAvg_mono _ (hW _)
      intro ex
      rcases stepEx init pos ent c ex with _ | ⟨c1, _ | ⟨p, e⟩⟩
      · exact le_refl _
      · exact le_refl _
      · exact ih p e c1
    · have hno : ∀ op, c.slots[pos]? ≠ some (some op) := fun op h => hocc ⟨op, h⟩
      rw [walkVal_succ_none w φ init n pos ent c hno, walkVal_succ_none w φ init (n + 1) pos ent c hno]

theorem walkVal_mono_le (w : WFun) (hW : ∀ b i o, 0 ≤ w b i o) (φ : Config → Rat) (hφ : ∀ x, 0 ≤ φ x)
    (init : Nat × Leg) {n m : Nat} (h : n ≤ m) (pos : Nat) (ent : Leg) (c : Config) :
    walkVal w φ init n pos ent c ≤ walkVal w φ init m pos ent c := by
  induction h with
  | refl => exact le_refl _
  | step _ ih => exact le_trans ih (walkVal_mono_fuel w hW φ hφ init _ pos ent c)

/-! ### the open-walk mass: in `[0, 1]`, antitone -/

theorem openFrom_nonneg (w : WFun) (hW : ∀ b i o, 0 ≤ w b i o) (init : Nat × Leg) (n pos : Nat)
    (ent : Leg) (c : Config) : 0 ≤ openFrom w init n pos ent c := by
  induction n generalizing pos ent c with
  | zero => simp [openFrom]
  | succ n ih =>
    by_cases hocc : ∃ op, c.slots[pos]? = some (some op)
    · obtain ⟨op, hop⟩ := hocc
      rw [openFrom_succ w init n pos ent c op hop]
      apply exitAvg_nonneg _ (hW _)
      intro ex
      rcases stepEx init pos ent c ex with _ | ⟨c1, _ | ⟨p, e⟩⟩
      · exact zero_le_one
      · exact le_refl _
      · exact ih p e c1
    · rw [openFrom_succ_none w init n pos ent c (fun op h => hocc ⟨op, h⟩)]
      exact zero_le_one

theorem openFrom_le_one (w : WFun) (hW : ∀ b i o, 0 ≤ w b i o) (init : Nat × Leg) (n pos : Nat)
    (ent : Leg) (c : Config) : openFrom w init n pos ent c ≤ 1 := by
  induction n generalizing pos ent c with
  | zero => simp [openFrom]
  | succ n ih =>
    by_cases hocc : ∃ op, c.slots[pos]? = some (some op)
    · obtain ⟨op, hop⟩ := hocc
      rw [openFrom_succ w init n pos ent c op hop]
      apply exitAvg_le_one _ (hW _)
      intro ex
      rcases stepEx init pos ent c ex with _ | ⟨c1, _ | ⟨p, e⟩⟩
      · exact le_refl _
      · exact zero_le_one
      · exact ih p e c1
    · rw [openFrom_succ_none w init n pos ent c (fun op h => hocc ⟨op, h⟩)]

/-- **antitone in the fuel** -/
theorem openFrom_anti_fuel (w : WFun) (hW : ∀ b i o, 0 ≤ w b i o) (init : Nat × Leg) (n pos : Nat)
    (ent : Leg) (c : Config) : openFrom w init (n + 1) pos ent c ≤ openFrom w init n pos ent c := by
  induction n generalizing pos ent c with
  | zero => exact openFrom_le_one w hW init 1 pos ent c
  | succ n ih =>
    by_cases hocc : ∃ op, c.slots[pos]? = some (some op)
    · obtain ⟨op, hop⟩ := hocc
      rw [openFrom_succ w init n pos ent c op hop, openFrom_succ w init (n + 1) pos ent c op hop]
      apply exitAvg_mono _ (hW _)
      intro ex
      rcases stepEx init pos ent c ex with _ | ⟨c1, _ | ⟨p, e⟩⟩
      · exact le_refl _
      · exact le_refl _
      · exact ih p e c1
    · have hno : ∀ op, c.slots[pos]? ≠ some (some op) := fun op h => hocc ⟨op, h⟩
      rw [openFrom_succ_none w init n pos ent c hno, openFrom_succ_none w init (n + 1) pos ent c hno]

theorem openFrom_anti_le (w : WFun) (hW : ∀ b i o, 0 ≤ w b i o) (init : Nat × Leg) {n m : Nat}
    (h : n ≤ m) (pos : Nat) (ent : Leg) (c : Config) :
    openFrom w init m pos ent c ≤ openFrom w init n pos ent c := by
  induction h with
  | refl => exact le_refl _
  | step _ ih => exact le_trans (openFrom_anti_fuel w hW init _ pos ent c) ih

/-! ### accounting: closed + open -/

theorem exitAvg_add (W : List Bool → List Bool → Rat) (io : List Bool × List Bool) (i : Leg)
    (k : Nat) (g g' : Leg → Rat) :
    ((legsOf k).map fun e => exitProb W io i e k * g e).sum +
      ((legsOf k).map fun e => exitProb W io i e k * g' e).sum =
    ((legsOf k).map fun e => exitProb W io i e k * (g e + g' e)).sum := by
  rw [← List.sum_map_add]
  congr 1
  apply List.map_congr_left
  intro e _
  ring

/-- closed + open never exceeds 1, on ANY configuration -/
theorem closed_add_open_le (w : WFun) (hW : ∀ b i o, 0 ≤ w b i o) (init : Nat × Leg) (n pos : Nat)
    (ent : Leg) (c : Config) :
    walkVal w (fun _ => 1) init n pos ent c + openFrom w init n pos ent c ≤ 1 := by
  induction n generalizing pos ent c with
  | zero => rw [walkVal_zero]; simp [openFrom]
  | succ n ih =>
    by_cases hocc : ∃ op, c.slots[pos]? = some (some op)
    · obtain ⟨op, hop⟩ := hocc
      rw [walkVal_succ w _ init n pos ent c op hop, openFrom_succ w init n pos ent c op hop, exitAvg_add]
      apply exitAvg_le_one _ (hW _)
      intro ex
      rcases stepEx init pos ent c ex with _ | ⟨c1, _ | ⟨p, e⟩⟩
      · simp [contVal, contOpen]
      · simp [contVal, contOpen]
      · exact ih p e c1
    · have hno : ∀ op, c.slots[pos]? ≠ some (some op) := fun op h => hocc ⟨op, h⟩
      rw [walkVal_succ_none w _ init n pos ent c hno, openFrom_succ_none w init n pos ent c hno]
      simp

/-- the head exists and every stored matrix element is positive -/
def Live (w : WFun) (pos : Nat) (ent : Leg) (c : Config) : Prop :=
  HeadOK c.slots pos ent ∧ LegalSlots w c.slots

/-- a continuing step through an exit of positive weight keeps `Live` -/
theorem live_step (w : WFun) {init : Nat × Leg} {pos : Nat} {ent : Leg} {c : Config} {ex : Leg}
    {op : Op} {c1 : Config} {p : Nat} {e : Leg} (hop : c.slots[pos]? = some (some op))
    (hl : LegalSlots w c.slots)
    (hpos : 0 < exitWeight (w op.bond) (op.ins, op.outs) ent ex)
    (hs : stepEx init pos ent c ex = some (c1, some (p, e))) : Live w p e c1 := by
  obtain ⟨op2, hop2, hslots, hcase⟩ := stepEx_cases hs
  rw [hop] at hop2; injection hop2 with e0; injection e0 with e0; subst e0
  have hsk : skeletonOf c1.slots = skeletonOf c.slots := by
    rw [hslots]; exact skeleton_set_passThrough ent ex hop
  constructor
  · rcases hcase with ⟨_, hnone, _⟩ | ⟨_, p', r', hmv, hfin⟩
    · cases hnone
    · rcases hfin with ⟨_, hnone⟩ | ⟨_, hsome⟩
      · cases hnone
      · injection hsome with hsome; injection hsome with e1 e2
        subst e1; subst e2
        obtain ⟨o2, ho2, hr2⟩ := moveOn_head _ _ _ _ _ _ _ _ hmv
        exact headOK_skeleton hsk.symm ⟨o2, ho2, hr2⟩
  · intro o ho
    rw [hslots] at ho
    rcases mem_set_some ho with rfl | ho
    · have := opW_after w ⟨pos, ent, ex, op⟩
      simp only [Visit.after, opW] at this
      rw [this]; exact hpos
    · exact hl o ho

/-- **exact accounting**: from a live head, the walk has either closed within `n` visits or is
still open — `P(closed within n) + P(open after n) = 1` -/
theorem closed_add_open (w : WFun) (hW : ∀ b i o, 0 ≤ w b i o) (init : Nat × Leg) (n pos : Nat)
    (ent : Leg) (c : Config) (hlive : Live w pos ent c) :
    walkVal w (fun _ => 1) init n pos ent c + openFrom w init n pos ent c = 1 := by
  induction n generalizing pos ent c with
  | zero => rw [walkVal_zero]; simp [openFrom]
  | succ n ih =>
    obtain ⟨⟨op, hop, hent⟩, hl⟩ := hlive
    rw [walkVal_succ w _ init n pos ent c op hop, openFrom_succ w init n pos ent c op hop, exitAvg_add]
    have htot := (exitTotal_pos (w op.bond) (hW _) (op.ins, op.outs) ent op.vars.length hent
      (hl op (List.mem_of_getElem? hop))).1
    apply exitAvg_eq_one _ _ _ _ (ne_of_gt htot)
    intro ex hne
    have hpos : 0 < exitWeight (w op.bond) (op.ins, op.outs) ent ex :=
      lt_of_le_of_ne (hW _ _ _) (Ne.symm hne)
    rcases hs : stepEx init pos ent c ex with _ | ⟨c1, _ | ⟨p, e⟩⟩
    · simp [contVal, contOpen]
    · simp [contVal, contOpen]
    · exact ih p e c1 (live_step w hop hl hpos hs)

/-! ### the start leg -/

theorem legProb_nonneg (slots : Slots) : 0 ≤ legProb slots := by
  unfold legProb
  apply div_nonneg zero_le_one
  exact mul_nonneg (by norm_num) (Nat.cast_nonneg _)

/-- the start probabilities of the legs sum to 1 (to 0 when there is no leg at all: the
implementation would panic on `gen_range(0..0)`) -/
theorem sum_legProb (slots : Slots) :
    ((startLegs slots).map fun _ => legProb slots).sum = if totalVars slots = 0 then 0 else 1 := by
  unfold startLegs
  rw [sum_map_flatMap]
  have hin : ∀ a ∈ List.range (totalVars slots),
      ((match pickLeg slots 0 a with
        | some (p, r) => [(p, (⟨r, false⟩ : Leg)), (p, ⟨r, true⟩)]
        | none => []).map fun _ => legProb slots).sum = 2 * legProb slots := by
    intro a ha
    obtain ⟨⟨p, r⟩, hq⟩ := pickLeg_total slots 0 a (List.mem_range.mp ha)
    rw [hq]
    simp only [List.map_cons, List.map_nil, List.sum_cons, List.sum_nil]
    ring
  refine Eq.trans (congrArg List.sum (List.map_congr_left hin)) ?_
  rw [List.map_const', List.sum_replicate, List.length_range]
  unfold legProb
  split
  · rename_i h0; rw [h0]; simp
  · rename_i h0
    have : (totalVars slots : Rat) ≠ 0 := by exact_mod_cast h0
    rw [nsmul_eq_mul]
    field_simp

theorem startAvg_le_one (slots : Slots) (g : Nat × Leg → Rat) (hg : ∀ init ∈ startLegs slots, g init ≤ 1) :
    ((startLegs slots).map fun init => legProb slots * g init).sum ≤ 1 := by
  refine le_trans (List.sum_le_sum (g := fun _ => legProb slots) ?_) ?_
  · intro init hi
    exact mul_le_of_le_one_right (legProb_nonneg slots) (hg init hi)
  · rw [sum_legProb]; split <;> norm_num

theorem startAvg_eq_one (slots : Slots) (hT : totalVars slots ≠ 0) (g : Nat × Leg → Rat)
    (hg : ∀ init ∈ startLegs slots, g init = 1) :
    ((startLegs slots).map fun init => legProb slots * g init).sum = 1 := by
  have : ((startLegs slots).map fun init => legProb slots * g init)
      = (startLegs slots).map fun _ => legProb slots := by
    apply List.map_congr_left
    intro init hi
    rw [hg init hi, mul_one]
  rw [this, sum_legProb, if_neg hT]

/-- operators with at least one variable each: some leg exists as soon as some operator does -/
theorem totalVars_ne_zero (s : Slots) (hv : ∀ o, some o ∈ s → o.vars ≠ []) (hn : countOps s ≠ 0) :
    totalVars s ≠ 0 := by
  induction s with
  | nil => simp [countOps] at hn
  | cons x t ih =>
    cases x with
    | none =>
      simp only [totalVars]
      apply ih (fun o ho => hv o (List.mem_cons_of_mem _ ho))
      simpa [countOps] using hn
    | some o =>
      simp only [totalVars]
      have : o.vars.length ≠ 0 := by
        have := hv o (List.mem_cons_self ..)
        simpa using this
      omega

/-! ### the row level -/

/-- expectation of `φ(result)` under the truncated kernel: `Σ_{c'} loopKn w n c c' · φ c'` as a finite
path sum (`rowVal_eq_sum`); a loop that needs more than `n` visits contributes nothing -/
def rowVal (w : WFun) (φ : Config → Rat) (n : Nat) (c : Config) : Rat :=
  if countOps c.slots = 0 then φ c else
  ((startLegs c.slots).map fun init => legProb c.slots * walkVal w φ init n init.1 init.2 c).sum

/-- **row mass** of the truncated kernel: probability that the loop closes within `n` visits -/
def rowMass (w : WFun) (n : Nat) (c : Config) : Rat := rowVal w (fun _ => 1) n c

/-- **open-walk mass**: probability that the loop has not closed within `n` visits -/
def openMass (w : WFun) (n : Nat) (c : Config) : Rat :=
  if countOps c.slots = 0 then 0 else
  ((startLegs c.slots).map fun init => legProb c.slots * openFrom w init n init.1 init.2 c).sum

/-- the kernel entry is the expectation of the indicator of `c'` -/
theorem loopKn_eq_rowVal (w : WFun) (n : Nat) (c c' : Config) :
    loopKn w n c c' = rowVal w (fun x => if x = c' then 1 else 0) n c := by
  unfold loopKn rowVal
  by_cases h0 : countOps c.slots = 0
  · rw [if_pos h0, if_pos h0]
    beta_reduce
    by_cases e : c' = c
    · rw [if_pos e, if_pos e.symm]
    · rw [if_neg e, if_neg (fun h : c = c' => e h.symm)]
  · rw [if_neg h0, if_neg h0, sum_filter_map]
    unfold loopsOf
    rw [sum_map_flatMap]
    congr 1
    apply List.map_congr_left
    intro init _
    rw [List.map_map]
    unfold walkVal
    rw [← sum_map_mul_left']
    congr 1
    apply List.map_congr_left
    intro q _
    simp only [Function.comp, decide_eq_true_eq]
    split <;> ring

theorem rowVal_add (w : WFun) (φ ψ : Config → Rat) (n : Nat) (c : Config) :
    rowVal w (fun x => φ x + ψ x) n c = rowVal w φ n c + rowVal w ψ n c := by
  unfold rowVal
  split
  · rfl
  · rw [← List.sum_map_add]
    congr 1
    apply List.map_congr_left
    intro init _
    rw [walkVal_add]; ring

theorem rowVal_zero_fun (w : WFun) (n : Nat) (c : Config) : rowVal w (fun _ => 0) n c = 0 := by
  unfold rowVal
  split
  · rfl
  · apply List.sum_eq_zero
    intro y hy
    obtain ⟨q, _, rfl⟩ := List.mem_map.mp hy
    rw [walkVal_zero_fun]; ring

theorem rowVal_finset_sum {ι : Type} [DecidableEq ι] (w : WFun) (S : Finset ι) (φ : ι → Config → Rat)
    (n : Nat) (c : Config) :
    rowVal w (fun x => ∑ s ∈ S, φ s x) n c = ∑ s ∈ S, rowVal w (φ s) n c := by
  induction S using Finset.induction_on with
  | empty => simp only [Finset.sum_empty]; exact rowVal_zero_fun w n c
  | insert a S ha ih =>
    simp only [Finset.sum_insert ha]
    rw [rowVal_add, ih]

/-- **the mass the truncated kernel sends into a finite set** is the expectation of its indicator -/
theorem sum_loopKn (w : WFun) (n : Nat) (c : Config) (S : Finset Config) :
    ∑ c' ∈ S, loopKn w n c c' = rowVal w (fun x => if x ∈ S then 1 else 0) n c := by
  have : (fun x : Config => if x ∈ S then (1 : Rat) else 0) = fun x => ∑ c' ∈ S, (if x = c' then 1 else 0) := by
    funext x
    rw [Finset.sum_ite_eq]
  rw [this, rowVal_finset_sum]
  apply Finset.sum_congr rfl
  intro c' _
  exact loopKn_eq_rowVal w n c c'

theorem rowVal_nonneg (w : WFun) (hW : ∀ b i o, 0 ≤ w b i o) (φ : Config → Rat) (hφ : ∀ x, 0 ≤ φ x)
    (n : Nat) (c : Config) : 0 ≤ rowVal w φ n c := by
  unfold rowVal
  split
  · exact hφ c
  · exact sum_map_nonneg _ _ (fun init _ => mul_nonneg (legProb_nonneg _) (walkVal_nonneg w hW φ hφ _ _ _ _ _))

theorem rowVal_mono_phi (w : WFun) (hW : ∀ b i o, 0 ≤ w b i o) (φ ψ : Config → Rat)
    (h : ∀ x, φ x ≤ ψ x) (n : Nat) (c : Config) : rowVal w φ n c ≤ rowVal w ψ n c := by
  unfold rowVal
  split
  · exact h c
  · exact List.sum_le_sum (fun init _ =>
      mul_le_mul_of_nonneg_left (walkVal_mono_phi w hW φ ψ h _ _ _ _ _) (legProb_nonneg _))

theorem rowVal_mono_fuel (w : WFun) (hW : ∀ b i o, 0 ≤ w b i o) (φ : Config → Rat) (hφ : ∀ x, 0 ≤ φ x)
    (n : Nat) (c : Config) : rowVal w φ n c ≤ rowVal w φ (n + 1) c := by
  unfold rowVal
  split
  · exact le_refl _
  · exact List.sum_le_sum (fun init _ =>
      mul_le_mul_of_nonneg_left (walkVal_mono_fuel w hW φ hφ _ _ _ _ _) (legProb_nonneg _))

/-! ### the headline facts about `loopKn` -/

theorem loopKn_nonneg (w : WFun) (hW : ∀ b i o, 0 ≤ w b i o) (n : Nat) (c c' : Config) :
    0 ≤ loopKn w n c c' := by
  rw [loopKn_eq_rowVal]
  exact rowVal_nonneg w hW _ (fun x => by split <;> norm_num) n c

theorem loopKn_mono (w : WFun) (hW : ∀ b i o, 0 ≤ w b i o) (n : Nat) (c c' : Config) :
    loopKn w n c c' ≤ loopKn w (n + 1) c c' := by
  rw [loopKn_eq_rowVal, loopKn_eq_rowVal]
  exact rowVal_mono_fuel w hW _ (fun x => by split <;> norm_num) n c

theorem loopKn_mono_le (w : WFun) (hW : ∀ b i o, 0 ≤ w b i o) {n m : Nat} (h : n ≤ m) (c c' : Config) :
    loopKn w n c c' ≤ loopKn w m c c' := by
  induction h with
  | refl => exact le_refl _
  | step _ ih => exact le_trans ih (loopKn_mono w hW _ c c')

theorem openMass_nonneg (w : WFun) (hW : ∀ b i o, 0 ≤ w b i o) (n : Nat) (c : Config) :
    0 ≤ openMass w n c := by
  unfold openMass
  split
  · exact le_refl _
  · exact sum_map_nonneg _ _ (fun init _ => mul_nonneg (legProb_nonneg _) (openFrom_nonneg w hW _ _ _ _ _))

theorem openMass_anti (w : WFun) (hW : ∀ b i o, 0 ≤ w b i o) (n : Nat) (c : Config) :
    openMass w (n + 1) c ≤ openMass w n c := by
  unfold openMass
  split
  · exact le_refl _
  · exact List.sum_le_sum (fun init _ =>
      mul_le_mul_of_nonneg_left (openFrom_anti_fuel w hW _ _ _ _ _) (legProb_nonneg _))

theorem openMass_anti_le (w : WFun) (hW : ∀ b i o, 0 ≤ w b i o) {n m : Nat} (h : n ≤ m) (c : Config) :
    openMass w m c ≤ openMass w n c := by
  induction h with
  | refl => exact le_refl _
  | step _ ih => exact le_trans (openMass_anti w hW _ c) ih

/-- closed + open `≤ 1` on ANY configuration -/
theorem rowMass_add_open_le (w : WFun) (hW : ∀ b i o, 0 ≤ w b i o) (n : Nat) (c : Config) :
    rowMass w n c + openMass w n c ≤ 1 := by
  unfold rowMass rowVal openMass
  split
  · norm_num
  · rw [← List.sum_map_add]
    have : ((startLegs c.slots).map fun init =>
        legProb c.slots * walkVal w (fun _ => 1) init n init.1 init.2 c +
          legProb c.slots * openFrom w init n init.1 init.2 c)
        = (startLegs c.slots).map fun init => legProb c.slots *
          (walkVal w (fun _ => 1) init n init.1 init.2 c + openFrom w init n init.1 init.2 c) := by
      apply List.map_congr_left
      intro init _; ring
    rw [this]
    exact startAvg_le_one _ _ (fun init _ => closed_add_open_le w hW init n _ _ c)

/-- **exact accounting of the row mass**: on a configuration whose stored matrix elements are
positive (and, if it has operators, at least one leg), `P(closed within n) + P(open after n) = 1` -/
theorem rowMass_add_open (w : WFun) (hW : ∀ b i o, 0 ≤ w b i o) (n : Nat) (c : Config)
    (hl : LegalSlots w c.slots) (hT : countOps c.slots ≠ 0 → totalVars c.slots ≠ 0) :
    rowMass w n c + openMass w n c = 1 := by
  unfold rowMass rowVal openMass
  split
  · norm_num
  · rename_i h0
    rw [← List.sum_map_add]
    have : ((startLegs c.slots).map fun init =>
        legProb c.slots * walkVal w (fun _ => 1) init n init.1 init.2 c +
          legProb c.slots * openFrom w init n init.1 init.2 c)
        = (startLegs c.slots).map fun init => legProb c.slots *
          (walkVal w (fun _ => 1) init n init.1 init.2 c + openFrom w init n init.1 init.2 c) := by
      apply List.map_congr_left
      intro init _; ring
    rw [this]
    exact startAvg_eq_one _ (hT h0) _ (fun init hi =>
      closed_add_open w hW init n _ _ c ⟨(mem_startLegs _ _).mp hi, hl⟩)

/-- **the truncated kernel is sub-stochastic**: on every configuration, the mass sent into any
finite set of configurations is at most the row mass, which is at most 1 -/
theorem sum_loopKn_le_rowMass (w : WFun) (hW : ∀ b i o, 0 ≤ w b i o) (n : Nat) (c : Config)
    (S : Finset Config) : ∑ c' ∈ S, loopKn w n c c' ≤ rowMass w n c := by
  rw [sum_loopKn]
  exact rowVal_mono_phi w hW _ _ (fun x => by split <;> norm_num) n c

theorem rowMass_le_one (w : WFun) (hW : ∀ b i o, 0 ≤ w b i o) (n : Nat) (c : Config) :
    rowMass w n c ≤ 1 := by
  have h1 := rowMass_add_open_le w hW n c
  have h2 := openMass_nonneg w hW n c
  linarith

theorem sum_loopKn_le_one (w : WFun) (hW : ∀ b i o, 0 ≤ w b i o) (n : Nat) (c : Config)
    (S : Finset Config) : ∑ c' ∈ S, loopKn w n c c' ≤ 1 :=
  le_trans (sum_loopKn_le_rowMass w hW n c S) (rowMass_le_one w hW n c)

theorem loopKn_le_one (w : WFun) (hW : ∀ b i o, 0 ≤ w b i o) (n : Nat) (c c' : Config) :
    loopKn w n c c' ≤ 1 := by
  have := sum_loopKn_le_one w hW n c {c'}
  simpa using this

/-- the configurations the truncated kernel reaches from `c` -/
def reach (n : Nat) (c : Config) : Finset Config :=
  if countOps c.slots = 0 then {c} else ((loopsOf n c).map fun ℓ => ℓ.2.2).toFinset

/-- **the full row**: summed over the configurations it reaches (or any finite superset), the
truncated kernel has exactly the row mass -/
theorem sum_loopKn_reach (w : WFun) (n : Nat) (c : Config) (S : Finset Config) (hS : reach n c ⊆ S) :
    ∑ c' ∈ S, loopKn w n c c' = rowMass w n c := by
  rw [sum_loopKn]
  unfold rowMass rowVal reach at *
  split
  · rename_i h0
    rw [if_pos h0] at hS
    beta_reduce
    rw [if_pos (hS (Finset.mem_singleton_self c))]
  · rename_i h0
    rw [if_neg h0] at hS
    congr 1
    apply List.map_congr_left
    intro init hi
    congr 1
    apply walkVal_congr
    intro q hq
    have : q.2 ∈ S := by
      apply hS
      rw [List.mem_toFinset, List.mem_map]
      refine ⟨(init, q.1, q.2), ?_, rfl⟩
      unfold loopsOf
      rw [List.mem_flatMap]
      exact ⟨init, hi, List.mem_map.mpr ⟨q, hq, rfl⟩⟩
    rw [if_pos this]

/-! ### what the truncated kernel does to a reversible measure -/

/-- **sub-invariance**: for a non-negative `π` in detailed balance with the truncated kernel, the
flow into `b` from any finite set is at most `π b` -/
theorem loopKn_subinvariant (π : Config → Rat) (hπ : ∀ a, 0 ≤ π a) (w : WFun)
    (hW : ∀ b i o, 0 ≤ w b i o) (n : Nat) (hrev : ∀ a b, π a * loopKn w n a b = π b * loopKn w n b a)
    (S : Finset Config) (b : Config) : ∑ a ∈ S, π a * loopKn w n a b ≤ π b := by
  have : ∑ a ∈ S, π a * loopKn w n a b = π b * ∑ a ∈ S, loopKn w n b a := by
    rw [Finset.mul_sum]
    exact Finset.sum_congr rfl (fun a _ => hrev a b)
  rw [this]
  exact mul_le_of_le_one_right (hπ b) (sum_loopKn_le_one w hW n b S)

/-- **the exact defect**: over the configurations `b` reaches (or any finite superset) the flow
into a legal `b` is `π b · (1 − P(the loop from b needs more than n visits))` -/
theorem loopKn_flow_exact (π : Config → Rat) (w : WFun) (hW : ∀ b i o, 0 ≤ w b i o) (n : Nat)
    (hrev : ∀ a b, π a * loopKn w n a b = π b * loopKn w n b a) (b : Config)
    (hl : LegalSlots w b.slots) (hT : countOps b.slots ≠ 0 → totalVars b.slots ≠ 0)
    (S : Finset Config) (hS : reach n b ⊆ S) :
    ∑ a ∈ S, π a * loopKn w n a b = π b * (1 - openMass w n b) := by
  have : ∑ a ∈ S, π a * loopKn w n a b = π b * ∑ a ∈ S, loopKn w n b a := by
    rw [Finset.mul_sum]
    exact Finset.sum_congr rfl (fun a _ => hrev a b)
  rw [this, sum_loopKn_reach w n b S hS]
  have := rowMass_add_open w hW n b hl hT
  congr 1
  linarith

theorem slotsWeight_nonneg (w : WFun) (hW : ∀ b i o, 0 ≤ w b i o) (S : Slots) : 0 ≤ slotsWeight w S := by
  induction S with
  | nil => simp [slotsWeight]
  | cons x t ih =>
    cases x with
    | none => simpa [slotsWeight] using ih
    | some o => simp only [slotsWeight]; exact mul_nonneg (hW _ _ _) ih

theorem cutWeight_nonneg (H : Ham) [DecidablePred (Good H)] (β : Rat) (hβ : 0 ≤ β)
    (hw : ∀ b i o, 0 ≤ H.w b i o) (a : Config) :
    0 ≤ Qmc.Kernel.cutTo (Good H) (configWeight H β) a := by
  unfold Qmc.Kernel.cutTo
  split
  · unfold configWeight
    simp only
    rw [opsWeight_eq]
    apply mul_nonneg _ (slotsWeight_nonneg H.w hw _)
    apply div_nonneg (mul_nonneg (pow_nonneg hβ _) (Nat.cast_nonneg _)) (Nat.cast_nonneg _)
  · exact le_refl _

/-- sub-invariance of the true SSE measure `configWeight·1_Good` under the truncated loop kernel -/
theorem loopKn_subinvariant_cut (H : Ham) [DecidablePred (Good H)] (β : Rat) (hβ : 0 ≤ β)
    (hw : ∀ b i o, 0 ≤ H.w b i o) (n : Nat) (S : Finset Config) (b : Config) :
    ∑ a ∈ S, Qmc.Kernel.cutTo (Good H) (configWeight H β) a * loopKn H.w n a b ≤
      Qmc.Kernel.cutTo (Good H) (configWeight H β) b :=
  loopKn_subinvariant _ (cutWeight_nonneg H β hβ hw) H.w hw n (loopKn_reversible_cut H β hw n) S b

/-- … and its exact defect on a Good configuration -/
theorem loopKn_flow_exact_cut (H : Ham) [DecidablePred (Good H)] (β : Rat)
    (hw : ∀ b i o, 0 ≤ H.w b i o) (n : Nat) (b : Config) (hb : Good H b)
    (hT : countOps b.slots ≠ 0 → totalVars b.slots ≠ 0) (S : Finset Config) (hS : reach n b ⊆ S) :
    ∑ a ∈ S, Qmc.Kernel.cutTo (Good H) (configWeight H β) a * loopKn H.w n a b =
      Qmc.Kernel.cutTo (Good H) (configWeight H β) b * (1 - openMass H.w n b) :=
  loopKn_flow_exact _ H.w hw n (loopKn_reversible_cut H β hw n) b
    (fun o ho => (hb.2 o ho).2.2.2.2.2) hT S hS

/-! ### a sufficient condition for `openMass → 0`: uniform closing probability (Doeblin) -/

theorem exitAvg_mono_mem (W : List Bool → List Bool → Rat) (hW : ∀ a b, 0 ≤ W a b)
    (io : List Bool × List Bool) (i : Leg) (k : Nat) (g g' : Leg → Rat)
    (hg : ∀ e, e.rel < k → exitWeight W io i e ≠ 0 → g e ≤ g' e) :
    ((legsOf k).map fun e => exitProb W io i e k * g e).sum ≤
      ((legsOf k).map fun e => exitProb W io i e k * g' e).sum := by
  apply List.sum_le_sum
  intro e he
  by_cases h0 : exitWeight W io i e = 0
  · unfold exitProb; rw [h0]; simp
  · exact mul_le_mul_of_nonneg_left (hg e ((mem_legsOf k e).mp he) h0) (exitProb_nonneg W hW io i e k)

theorem exitAvg_mul_left (W : List Bool → List Bool → Rat) (io : List Bool × List Bool) (i : Leg)
    (k : Nat) (a : Rat) (g : Leg → Rat) :
    ((legsOf k).map fun e => exitProb W io i e k * (a * g e)).sum =
      a * ((legsOf k).map fun e => exitProb W io i e k * g e).sum := by
  rw [← sum_map_mul_left']
  congr 1
  apply List.map_congr_left
  intro e _
  ring

/-- **one Doeblin block**: if from every state of a step-closed set `I` of live states the walk
closes within `M` visits with probability at least `δ`, then `M` more visits shrink the open mass
by the factor `1 − δ` -/
theorem openFrom_block (w : WFun) (hW : ∀ b i o, 0 ≤ w b i o) (init : Nat × Leg)
    (I : Nat → Leg → Config → Prop) (M : Nat) (δ : Rat)
    (hlive : ∀ pos ent c, I pos ent c → Live w pos ent c)
    (hstep : ∀ pos ent c op ex c1 p e, I pos ent c → c.slots[pos]? = some (some op) →
      0 < exitWeight (w op.bond) (op.ins, op.outs) ent ex →
      stepEx init pos ent c ex = some (c1, some (p, e)) → I p e c1)
    (hD : ∀ pos ent c, I pos ent c → δ ≤ walkVal w (fun _ => 1) init M pos ent c)
    (n pos : Nat) (ent : Leg) (c : Config) (hI : I pos ent c) :
    openFrom w init (n + M) pos ent c ≤ (1 - δ) * openFrom w init n pos ent c := by
  induction n generalizing pos ent c with
  | zero =>
    have h1 := closed_add_open w hW init M pos ent c (hlive _ _ _ hI)
    have h2 := hD _ _ _ hI
    simp only [Nat.zero_add, openFrom, mul_one]
    linarith
  | succ n ih =>
    obtain ⟨⟨op, hop, hent⟩, hl⟩ := hlive _ _ _ hI
    have e1 : n + 1 + M = (n + M) + 1 := by omega
    rw [e1, openFrom_succ w init (n + M) pos ent c op hop, openFrom_succ w init n pos ent c op hop,
      ← exitAvg_mul_left]
    apply exitAvg_mono_mem _ (hW _)
    intro ex hrel hne
    have hpos : 0 < exitWeight (w op.bond) (op.ins, op.outs) ent ex :=
      lt_of_le_of_ne (hW _ _ _) (Ne.symm hne)
    obtain ⟨r, hr⟩ := stepEx_isSome init pos ent c ex op hop hrel
    rcases hs : stepEx init pos ent c ex with _ | ⟨c1, _ | ⟨p, e⟩⟩
    · rw [hs] at hr; cases hr
    · simp [contOpen]
    · exact ih p e c1 (hstep _ _ _ _ _ _ _ _ hI hop hpos hs)

theorem openFrom_geometric (w : WFun) (hW : ∀ b i o, 0 ≤ w b i o) (init : Nat × Leg)
    (I : Nat → Leg → Config → Prop) (M : Nat) (δ : Rat) (hδ : δ ≤ 1)
    (hlive : ∀ pos ent c, I pos ent c → Live w pos ent c)
    (hstep : ∀ pos ent c op ex c1 p e, I pos ent c → c.slots[pos]? = some (some op) →
      0 < exitWeight (w op.bond) (op.ins, op.outs) ent ex →
      stepEx init pos ent c ex = some (c1, some (p, e)) → I p e c1)
    (hD : ∀ pos ent c, I pos ent c → δ ≤ walkVal w (fun _ => 1) init M pos ent c)
    (k pos : Nat) (ent : Leg) (c : Config) (hI : I pos ent c) :
    openFrom w init (k * M) pos ent c ≤ (1 - δ) ^ k := by
  induction k with
  | zero => simp [openFrom]
  | succ k ih =>
    have e1 : (k + 1) * M = k * M + M := by ring
    rw [e1, pow_succ]
    refine le_trans (openFrom_block w hW init I M δ hlive hstep hD (k * M) pos ent c hI) ?_
    rw [mul_comm]
    exact mul_le_mul_of_nonneg_right ih (by linarith)

theorem startAvg_le (slots : Slots) (B : Rat) (hB : 0 ≤ B) (g : Nat × Leg → Rat)
    (hg : ∀ init ∈ startLegs slots, g init ≤ B) :
    ((startLegs slots).map fun init => legProb slots * g init).sum ≤ B := by
  refine le_trans (List.sum_le_sum (g := fun _ => legProb slots * B) ?_) ?_
  · intro init hi
    exact mul_le_mul_of_nonneg_left (hg init hi) (legProb_nonneg slots)
  · have : ((startLegs slots).map fun _ => legProb slots * B)
        = (startLegs slots).map fun init => B * (fun _ => legProb slots) init := by
      apply List.map_congr_left; intro _ _; ring
    rw [this, sum_map_mul_left', sum_legProb]
    split
    · simp [hB]
    · simp

/-- **geometric decay of the open-walk mass under a uniform closing probability.**
`I init` is, for every start leg, a set of walk states (head + configuration) that contains the
start, consists of live states, and is closed under continuing steps through exits of positive
weight; if from every state in it the walk closes within `M` visits with probability `≥ δ`, then
`P(not closed within k·M visits) ≤ (1 − δ)^k`. -/
theorem openMass_geometric (w : WFun) (hW : ∀ b i o, 0 ≤ w b i o) (c : Config)
    (I : Nat × Leg → Nat → Leg → Config → Prop) (M : Nat) (δ : Rat) (hδ : δ ≤ 1)
    (hstart : ∀ init ∈ startLegs c.slots, I init init.1 init.2 c)
    (hlive : ∀ init pos ent c', I init pos ent c' → Live w pos ent c')
    (hstep : ∀ init pos ent c' op ex c1 p e, I init pos ent c' → c'.slots[pos]? = some (some op) →
      0 < exitWeight (w op.bond) (op.ins, op.outs) ent ex →
      stepEx init pos ent c' ex = some (c1, some (p, e)) → I init p e c1)
    (hD : ∀ init pos ent c', I init pos ent c' → δ ≤ walkVal w (fun _ => 1) init M pos ent c')
    (k : Nat) : openMass w (k * M) c ≤ (1 - δ) ^ k := by
  have hB : (0 : Rat) ≤ (1 - δ) ^ k := pow_nonneg (by linarith) k
  unfold openMass
  split
  · exact hB
  · apply startAvg_le _ _ hB
    intro init hi
    exact openFrom_geometric w hW init (I init) M δ hδ (hlive init) (hstep init) (hD init) k _ _ c
      (hstart init hi)

/-- the largest step-closed set of live states is `Live` itself, so the Doeblin condition may be
stated for all live states -/
theorem openMass_geometric_live (w : WFun) (hW : ∀ b i o, 0 ≤ w b i o) (c : Config)
    (hl : LegalSlots w c.slots) (M : Nat) (δ : Rat) (hδ : δ ≤ 1)
    (hD : ∀ init pos ent c', Live w pos ent c' → δ ≤ walkVal w (fun _ => 1) init M pos ent c')
    (k : Nat) : openMass w (k * M) c ≤ (1 - δ) ^ k :=
  openMass_geometric w hW c (fun _ pos ent c' => Live w pos ent c') M δ hδ
    (fun _ hi => ⟨(mem_startLegs _ _).mp hi, hl⟩) (fun _ _ _ _ h => h)
    (fun _ _ _ _ _ _ _ _ _ hI hop hpos hs => live_step w hop hI.2 hpos hs) hD k

/-! ### the Doeblin condition on a fixed skeleton; the one-visit criterion -/

/-- a step whose exit leg is the start leg or is linked to it closes the loop (the link is read
off any string `sk` with the same skeleton) -/
theorem stepEx_closes {sk : Slots} (init : Nat × Leg) (pos : Nat) (ent : Leg) (c : Config) (ex : Leg)
    (op : Op) (hsk : skeletonOf c.slots = skeletonOf sk) (hop : c.slots[pos]? = some (some op))
    (h : (pos, ex) = init ∨ partnerOf sk pos op ex = some init) :
    ∃ c', stepEx init pos ent c ex = some (c', none) := by
  unfold stepEx
  simp only [hop]
  by_cases hi : (pos, ex) = init
  · rw [if_pos hi]; exact ⟨_, rfl⟩
  · rw [if_neg hi]
    rcases h with h | h
    · exact absurd h hi
    · have h' : partnerOf sk pos (passThrough op ent ex) ex = some (init.1, init.2) := by
        rw [partnerOf_vars_congr sk pos _ op ex (passThrough_fields op ent ex).1]; exact h
      obtain ⟨st', r', hm, hee⟩ := moveOn_of_partnerOf hsk c.state h'
      rw [hm]
      simp only
      have : (init.1, (⟨r', !ex.out⟩ : Leg)) = init := by rw [← hee]
      rw [if_pos this]
      exact ⟨_, rfl⟩

/-- a closing exit bounds the one-visit closing probability from below -/
theorem walkVal_one_ge (w : WFun) (hW : ∀ b i o, 0 ≤ w b i o) (init : Nat × Leg) (pos : Nat)
    (ent : Leg) (c : Config) (op : Op) (hop : c.slots[pos]? = some (some op)) (ex : Leg)
    (hrel : ex.rel < op.vars.length) (hc : ∃ c', stepEx init pos ent c ex = some (c', none)) :
    exitProb (w op.bond) (op.ins, op.outs) ent ex op.vars.length ≤
      walkVal w (fun _ => 1) init 1 pos ent c := by
  rw [walkVal_succ w _ init 0 pos ent c op hop]
  obtain ⟨c', hc'⟩ := hc
  have hterm : exitProb (w op.bond) (op.ins, op.outs) ent ex op.vars.length =
      (fun ex => exitProb (w op.bond) (op.ins, op.outs) ent ex op.vars.length *
        contVal w (fun _ => 1) init 0 (stepEx init pos ent c ex)) ex := by
    simp only [hc', contVal, mul_one]
  rw [hterm]
  apply List.single_le_sum
  · intro y hy
    obtain ⟨e, _, rfl⟩ := List.mem_map.mp hy
    apply mul_nonneg (exitProb_nonneg _ (hW _) _ _ _ _)
    rcases stepEx init pos ent c e with _ | ⟨c1, _ | ⟨p, e'⟩⟩
    · exact le_refl _
    · exact zero_le_one
    · exact walkVal_nonneg w hW _ (fun _ => zero_le_one) _ _ _ _ _
  · exact List.mem_map.mpr ⟨ex, (mem_legsOf _ _).mpr hrel, rfl⟩

/-- the walk states over the skeleton `sk`: a live configuration with that skeleton, a head and a
start leg that exist -/
def OnSkel (w : WFun) (sk : Slots) (init : Nat × Leg) (pos : Nat) (ent : Leg) (c : Config) : Prop :=
  skeletonOf c.slots = skeletonOf sk ∧ Live w pos ent c ∧ HeadOK sk init.1 init.2

theorem onSkel_step (w : WFun) (sk : Slots) {init : Nat × Leg} {pos : Nat} {ent : Leg} {c : Config}
    {ex : Leg} {op : Op} {c1 : Config} {p : Nat} {e : Leg} (hI : OnSkel w sk init pos ent c)
    (hop : c.slots[pos]? = some (some op))
    (hpos : 0 < exitWeight (w op.bond) (op.ins, op.outs) ent ex)
    (hs : stepEx init pos ent c ex = some (c1, some (p, e))) : OnSkel w sk init p e c1 := by
  obtain ⟨hsk, hlive, hin⟩ := hI
  refine ⟨?_, live_step w hop hlive.2 hpos hs, hin⟩
  obtain ⟨op2, hop2, hslots, _⟩ := stepEx_cases hs
  rw [hslots, skeleton_set_passThrough ent ex hop2]; exact hsk

/-- **Doeblin condition over the skeleton of `c`** ⇒ geometric decay of the open-walk mass -/
theorem openMass_geometric_skel (w : WFun) (hW : ∀ b i o, 0 ≤ w b i o) (c : Config)
    (hl : LegalSlots w c.slots) (M : Nat) (δ : Rat) (hδ : δ ≤ 1)
    (hD : ∀ init pos ent c', OnSkel w c.slots init pos ent c' →
      δ ≤ walkVal w (fun _ => 1) init M pos ent c')
    (k : Nat) : openMass w (k * M) c ≤ (1 - δ) ^ k :=
  openMass_geometric w hW c (OnSkel w c.slots) M δ hδ
    (fun _ hi => ⟨rfl, ⟨(mem_startLegs _ _).mp hi, hl⟩, (mem_startLegs _ _).mp hi⟩)
    (fun _ _ _ _ h => h.2.1)
    (fun _ _ _ _ _ _ _ _ _ hI hop hpos hs => onSkel_step w c.slots hI hop hpos hs) hD k

/-- **one-visit criterion**: if at every live head over the skeleton of `c` some exit closes the
loop (it is the start leg or linked to it) and is chosen with probability `≥ δ`, then
`P(not closed within k visits) ≤ (1 − δ)^k` -/
theorem openMass_geometric_one_visit (w : WFun) (hW : ∀ b i o, 0 ≤ w b i o) (c : Config)
    (hl : LegalSlots w c.slots) (δ : Rat) (hδ : δ ≤ 1)
    (hex : ∀ init pos ent c' op, OnSkel w c.slots init pos ent c' → c'.slots[pos]? = some (some op) →
      ∃ ex, ex.rel < op.vars.length ∧
        ((pos, ex) = init ∨ partnerOf c.slots pos op ex = some init) ∧
        δ ≤ exitProb (w op.bond) (op.ins, op.outs) ent ex op.vars.length)
    (k : Nat) : openMass w k c ≤ (1 - δ) ^ k := by
  have := openMass_geometric_skel w hW c hl 1 δ hδ (fun init pos ent c' hI => by
    obtain ⟨op, hop, _⟩ := hI.2.1.1
    obtain ⟨ex, hrel, hcl, hp⟩ := hex init pos ent c' op hI hop
    exact le_trans hp (walkVal_one_ge w hW init pos ent c' op hop ex hrel
      (stepEx_closes init pos ent c' ex op hI.1 hop hcl))) k
  rwa [Nat.mul_one] at this

end Qmc.LoopC.Mass
