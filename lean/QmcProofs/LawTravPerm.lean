/-
Completeness of the traversal (the converse of `TravOK.nodup`): every component of the leg graph gets a
representative, and the labels the traversal hands out are sound (a side labelled `c` is connected to the start
side of cluster `c`). Consequence: on skeletons with a cluster edge the flips offered by the exact model are, up to
order, the component flips of `Kernel.componentFlips` (`hperm` of `clusterKernel_eq_components_partial`).
-/
import QmcProofs.LawTravOK

namespace Qmc.Law
open Qmc

section
variable (sk : Skel)

theorem mkNav_sideLeg (hnd : SkNodup sk) (q : Nat × Bool) (hq : q.1 < sk.length) :
    (mkNav sk).sideLeg q = offOf sk q.1 + (if q.2 then nvOf sk.toArray q.1 else 0) := by
  unfold Nav.sideLeg
  rw [mkNav_off sk hnd q.1 hq, mkNav_nvAt]

/-- leg id of a leg -/
def legIdOf (x : TLeg) : Nat := offOf sk x.1 + (if x.2.2 then nvOf sk.toArray x.1 else 0) + x.2.1

theorem conn_star (hnd : SkNodup sk) (P : Nat) (hP : P < sk.length) (hed : edgeAtSk sk P = false) (j1 j2 : Nat)
    (h1 : j1 < 2 * nvOf sk.toArray P) (h2 : j2 < 2 * nvOf sk.toArray P) :
    Conn (legGraph sk).edges (offOf sk P + j1) (offOf sk P + j2) := by
  have key : ∀ j, j < 2 * nvOf sk.toArray P → Conn (legGraph sk).edges (offOf sk P) (offOf sk P + j) := by
    intro j hj
    rcases Nat.eq_zero_or_pos j with rfl | hpos
    · exact Conn.refl _
    · exact Conn.of_adj (Or.inl (star_mem_legGraph sk hnd P hP hed j hpos hj))
  exact (key j1 h1).symm.trans (key j2 h2)

theorem nv_one_of_edge (P : Nat) (h : edgeAtSk sk P = true) : nvOf sk.toArray P = 1 := by
  unfold edgeAtSk at h
  unfold nvOf
  cases hsk : sk.toArray[P]! with
  | none => rw [hsk] at h; cases h
  | some o =>
    rw [hsk] at h
    simp only [SkOp.isEdge, isClusterEdge, Bool.and_eq_true, beq_iff_eq] at h
    exact h.2

theorem conn_side_leg (hnd : SkNodup sk) (x : TLeg) (hx : NValid sk.toArray (x.1, x.2.1)) :
    Conn (legGraph sk).edges (offOf sk x.1 + (if x.2.2 then nvOf sk.toArray x.1 else 0)) (legIdOf sk x) := by
  have hP : x.1 < sk.length := by simpa using hx.1
  have hk : x.2.1 < nvOf sk.toArray x.1 := hx.2
  unfold legIdOf
  rcases Nat.eq_zero_or_pos x.2.1 with h0 | hpos
  · rw [h0]; exact Conn.refl _
  · have hed : edgeAtSk sk x.1 = false := by
      cases h : edgeAtSk sk x.1 with
      | false => rfl
      | true => have := nv_one_of_edge sk x.1 h; omega
    rw [Nat.add_assoc]
    refine conn_star sk hnd x.1 hP hed _ _ ?_ ?_ <;> split <;> omega

theorem nadj_conn (hnd : SkNodup sk) {q q' : Nat × Bool} (h : NAdj (mkNav sk) q q')
    (hq : q.1 < sk.length ∧ 0 < nvOf sk.toArray q.1) :
    Conn (legGraph sk).edges ((mkNav sk).sideLeg q) ((mkNav sk).sideLeg q') ∧
      (q'.1 < sk.length ∧ 0 < nvOf sk.toArray q'.1) := by
  cases h with
  | star p s hp hnv hed =>
    rw [mkNav_size] at hp
    rw [mkNav_nvAt] at hnv
    rw [mkNav_isEdgeAt] at hed
    refine ⟨?_, hp, hnv⟩
    have e1 : (mkNav sk).sideLeg (p, s) = offOf sk p + (if s then nvOf sk.toArray p else 0) :=
      mkNav_sideLeg sk hnd (p, s) hp
    have e2 : (mkNav sk).sideLeg (p, !s) = offOf sk p + (if (!s) then nvOf sk.toArray p else 0) :=
      mkNav_sideLeg sk hnd (p, !s) hp
    rw [e1, e2]
    refine conn_star sk hnd p hp hed _ _ ?_ ?_ <;> split <;> omega
  | link x hx =>
    have hxv := (mkNav_valid sk x).mp hx
    have hxP : x.1 < sk.length := by simpa using hxv.1
    obtain ⟨⟨hpv, hpinv⟩, ⟨hnv', hninv⟩⟩ := navClose_final sk hnd _ hxv
    have c1 := conn_side_leg sk hnd x hxv
    have e1 : (mkNav sk).sideLeg x.side = offOf sk x.1 + (if x.2.2 then nvOf sk.toArray x.1 else 0) :=
      mkNav_sideLeg sk hnd x.side hxP
    rw [e1]
    obtain ⟨x1, x2, x3⟩ := x
    rw [mkNav_partner]
    cases x3
    · -- input leg a: the edge (outId (prev a), inId a)
      simp only [Bool.not_false, if_true] at c1 ⊢
      have hyP : (g2 (navClose sk (navUB sk)).1 (x1, x2)).1 < sk.length := by simpa using hpv.1
      refine ⟨?_, hyP, Nat.lt_of_le_of_lt (Nat.zero_le _) hpv.2⟩
      have c2 := conn_side_leg sk hnd ((g2 (navClose sk (navUB sk)).1 (x1, x2)).1,
        (g2 (navClose sk (navUB sk)).1 (x1, x2)).2, true) hpv
      have e2 := mkNav_sideLeg sk hnd (TLeg.side ((g2 (navClose sk (navUB sk)).1 (x1, x2)).1,
        (g2 (navClose sk (navUB sk)).1 (x1, x2)).2, true)) hyP
      rw [e2]
      have hedge := link_mem_legGraph sk hnd (x1, x2) hxv
      refine c1.trans (Conn.trans (Conn.of_adj (Or.inr ?_)) c2.symm)
      simpa [legIdOf, inId, outId, Nat.add_assoc] using hedge
    · simp only [Bool.not_true, Bool.false_eq_true, if_false] at c1 ⊢
      have hyP : (g2 (navClose sk (navUB sk)).2 (x1, x2)).1 < sk.length := by simpa using hnv'.1
      refine ⟨?_, hyP, Nat.lt_of_le_of_lt (Nat.zero_le _) hnv'.2⟩
      have c2 := conn_side_leg sk hnd ((g2 (navClose sk (navUB sk)).2 (x1, x2)).1,
        (g2 (navClose sk (navUB sk)).2 (x1, x2)).2, false) hnv'
      have e2 := mkNav_sideLeg sk hnd (TLeg.side ((g2 (navClose sk (navUB sk)).2 (x1, x2)).1,
        (g2 (navClose sk (navUB sk)).2 (x1, x2)).2, false)) hyP
      rw [e2]
      have hedge := link_mem_legGraph sk hnd _ hnv'
      rw [hninv] at hedge
      refine c1.trans (Conn.trans (Conn.of_adj (Or.inl ?_)) c2.symm)
      simpa [legIdOf, inId, outId, Nat.add_assoc] using hedge

theorem nconn_conn (hnd : SkNodup sk) {q q' : Nat × Bool} (h : NConn (mkNav sk) q q')
    (hq : q.1 < sk.length ∧ 0 < nvOf sk.toArray q.1) :
    Conn (legGraph sk).edges ((mkNav sk).sideLeg q) ((mkNav sk).sideLeg q') ∧
      (q'.1 < sk.length ∧ 0 < nvOf sk.toArray q'.1) := by
  induction h with
  | refl => exact ⟨Conn.refl _, hq⟩
  | tail _ hbc ih =>
    obtain ⟨h1, h2⟩ := nadj_conn sk hnd hbc ih.2
    exact ⟨ih.1.trans h1, h2⟩

/-- every leg id belongs to an op -/
theorem leg_decomp : ∀ (n i : Nat), i < offOf sk n → ∃ P, P < n ∧ ∃ j, j < 2 * nvOf sk.toArray P ∧ i = offOf sk P + j
  | 0, i, h => by simp [offOf] at h
  | n + 1, i, h => by
    rw [offOf_succ] at h
    by_cases h' : i < offOf sk n
    · obtain ⟨P, hP, j, hj, e⟩ := leg_decomp n i h'
      exact ⟨P, by omega, j, hj, e⟩
    · exact ⟨n, by omega, i - offOf sk n, by omega, by omega⟩

end

theorem skNodup_skeleton (s : Slots) (hn : NodupVars s) : SkNodup (skeleton s) := by
  intro o ho
  simp only [skeleton, List.mem_map] at ho
  obtain ⟨x, hx, hxo⟩ := ho
  cases x with
  | none => cases hxo
  | some op =>
    simp only [Option.map_some, Option.some.injEq] at hxo
    rw [← hxo]
    exact hn op (mem_opsOf_of_some hx)

theorem skPos_skeleton (s : Slots) (hpos : ∀ o ∈ opsOf s, o.vars ≠ []) : SkPos (skeleton s) := by
  intro o ho
  simp only [skeleton, List.mem_map] at ho
  obtain ⟨x, hx, hxo⟩ := ho
  cases x with
  | none => cases hxo
  | some op =>
    simp only [Option.map_some, Option.some.injEq] at hxo
    rw [← hxo]
    exact hpos op (mem_opsOf_of_some hx)

theorem legGraph_nlegs_offOf (sk : Skel) (hnd : SkNodup sk) : (legGraph sk).nlegs = offOf sk sk.length := by
  have := (sim_main sk hnd sk.length (Nat.le_refl _)).2
  rw [scanP_full] at this
  exact this

/-- **completeness of the traversal**: every leg's component has a representative -/
theorem traverse_complete (s : Slots) (hn : NodupVars s) (hpos : ∀ o ∈ opsOf s, o.vars ≠ []) (cp : Nat)
    (hcp : findConstantOp (skeleton s) = some cp) (i : Nat) (hi : i < (legGraph (skeleton s)).nlegs) :
    ∃ r ∈ (traverse (skeleton s)).reps, (compLab (skeleton s))[r]! = (compLab (skeleton s))[i]! := by
  have hnd := skNodup_skeleton s hn
  have hsp := skPos_skeleton s hpos
  have hG := navGraphOK (skeleton s) hnd hsp
  obtain ⟨hout, hH, hfr, hun⟩ := traverse_outInv (skeleton s) hG cp hcp
  have h0 : ¬ (skCount (skeleton s) == 0) = true := by
    intro h0
    obtain ⟨hlt, o, ho, -⟩ := findConstantOp_some _ cp hcp
    have hmem : some o ∈ skeleton s := List.mem_of_getElem? ho
    have : 0 < skCount (skeleton s) := by
      unfold skCount
      exact List.length_pos_of_mem (List.mem_filter.mpr ⟨hmem, rfl⟩)
    simp at h0; omega
  have htr : (traverse (skeleton s)).reps = (travLoop (mkNav (skeleton s))
        (4 * ((mkNav (skeleton s)).nlegs + 8) * ((mkNav (skeleton s)).nlegs + 8))
        (4 * ((mkNav (skeleton s)).nlegs + 8) * ((mkNav (skeleton s)).nlegs + 8))
        (trav0 (mkNav (skeleton s)).ops.size cp)).reps.toList := by
    simp [traverse, h0, hcp, trav0]
  generalize (travLoop (mkNav (skeleton s)) _ _ _) = r at hout hH hfr hun htr
  rw [htr]
  -- the leg and its side
  rw [legGraph_nlegs_offOf _ hnd] at hi
  obtain ⟨P, hP, j, hj, rfl⟩ := leg_decomp (skeleton s) _ _ hi
  have hnvP : 0 < nvOf (skeleton s).toArray P := by omega
  obtain ⟨x, hx1, hxv, hxid⟩ : ∃ x : TLeg, x.1 = P ∧ NValid (skeleton s).toArray (x.1, x.2.1) ∧
      legIdOf (skeleton s) x = offOf (skeleton s) P + j := by
    by_cases hjn : j < nvOf (skeleton s).toArray P
    · exact ⟨(P, j, false), rfl, ⟨by simpa using hP, hjn⟩, by simp [legIdOf]⟩
    · exact ⟨(P, j - nvOf (skeleton s).toArray P, true), rfl, ⟨by simpa using hP, by simp only; omega⟩,
        by simp only [legIdOf, if_true]; omega⟩
  -- the side is labelled
  have hsz : P < (mkNav (skeleton s)).ops.size := by rw [mkNav_size]; exact hP
  have hnvP' : 0 < (mkNav (skeleton s)).nvAt P := by rw [mkNav_nvAt]; exact hnvP
  have hsome : ((mkNav (skeleton s)).ops[P]!).isSome = true := by
    have : (mkNav (skeleton s)).nvAt P = (match (mkNav (skeleton s)).ops[P]! with
      | some o => o.vars.length | none => 0) := rfl
    cases hop : (mkNav (skeleton s)).ops[P]! with
    | none => rw [this, hop] at hnvP'; cases hnvP'
    | some _ => rfl
  have hlab : ∀ s', r.lab (P, s') ≠ none := by
    have hone : ¬ (r.lab (P, false) = none ∧ r.lab (P, true) = none) := by
      intro hb
      unfold Trav.unmapped at hun
      rw [List.find?_eq_none] at hun
      have := hun P (List.mem_range.mpr hsz)
      apply this
      have e1 : r.bin[P]! = none := hb.1
      have e2 : r.bout[P]! = none := hb.2
      simp [hsome, e1, e2]
    intro s' hnone
    have hother : (r.lab (P, !s')).isSome = true := by
      cases hl : r.lab (P, !s') with
      | some _ => rfl
      | none =>
        exfalso; apply hone
        cases s'
        · exact ⟨hnone, hl⟩
        · exact ⟨hl, hnone⟩
    rcases hH P (!s') hsz hnvP' hother (by simpa using hnone) with h | h
    · rw [hfr] at h; simp at h
    · exact h
  obtain ⟨c, hc⟩ := Option.ne_none_iff_exists'.mp (hlab x.2.2)
  have hclt := hout.labLt _ _ hc
  obtain ⟨qc, a1, a2, a3, a4, a5⟩ := hout.repsOK c hclt
  have hconn := a5 (P, x.2.2) hc
  rw [mkNav_size] at a1
  rw [mkNav_nvAt] at a2
  obtain ⟨k1, -⟩ := nconn_conn (skeleton s) hnd hconn ⟨a1, a2⟩
  have k2 := conn_side_leg (skeleton s) hnd x hxv
  rw [hx1, hxid] at k2
  have e2 := mkNav_sideLeg (skeleton s) hnd (P, x.2.2) hP
  simp only at e2
  rw [e2] at k1
  have hfull := k1.trans k2
  obtain ⟨legOf, -, hside⟩ := hG.legOf
  have hrlt := (hside qc (by rw [mkNav_size]; exact a1) (by rw [mkNav_nvAt]; exact a2)).1
  refine ⟨r.reps[c]!, ?_, ?_⟩
  · have : r.reps[c]! = r.reps[c]'hclt := by simp [Array.getElem!_eq_getD, Array.getD_eq_getD_getElem?, hclt]
    rw [this]
    exact Array.getElem_mem_toList hclt
  · rw [a3]
    exact (compLab_eq_iff s hn hrlt (by rw [legGraph_nlegs_offOf _ hnd]; exact hi)).mpr hfull

theorem reps_lt_nlegs (s : Slots) (hn : NodupVars s) (hpos : ∀ o ∈ opsOf s, o.vars ≠ []) (cp : Nat)
    (hcp : findConstantOp (skeleton s) = some cp) :
    (traverse (skeleton s)).whole = false ∧ ∀ r ∈ (traverse (skeleton s)).reps, r < (legGraph (skeleton s)).nlegs := by
  have hnd := skNodup_skeleton s hn
  have hsp := skPos_skeleton s hpos
  have hG := navGraphOK (skeleton s) hnd hsp
  obtain ⟨hout, -⟩ := traverse_outInv (skeleton s) hG cp hcp
  have h0 : ¬ (skCount (skeleton s) == 0) = true := by
    intro h0
    obtain ⟨hlt, o, ho, -⟩ := findConstantOp_some _ cp hcp
    have hmem : some o ∈ skeleton s := List.mem_of_getElem? ho
    have : 0 < skCount (skeleton s) := by
      unfold skCount
      exact List.length_pos_of_mem (List.mem_filter.mpr ⟨hmem, rfl⟩)
    simp at h0; omega
  have htr : (traverse (skeleton s)).whole = false ∧ (traverse (skeleton s)).reps = (travLoop (mkNav (skeleton s))
        (4 * ((mkNav (skeleton s)).nlegs + 8) * ((mkNav (skeleton s)).nlegs + 8))
        (4 * ((mkNav (skeleton s)).nlegs + 8) * ((mkNav (skeleton s)).nlegs + 8))
        (trav0 (mkNav (skeleton s)).ops.size cp)).reps.toList := by
    simp [traverse, h0, hcp, trav0]
  generalize (travLoop (mkNav (skeleton s)) _ _ _) = r at hout htr
  refine ⟨htr.1, ?_⟩
  rw [htr.2]
  intro r' hr'
  obtain ⟨i, hi, rfl⟩ := Array.mem_toList_iff.mp hr' |> Array.mem_iff_getElem.mp
  obtain ⟨qc, a1, a2, a3, -⟩ := hout.repsOK i hi
  obtain ⟨legOf, -, hside⟩ := hG.legOf
  have : r.reps[i] = r.reps[i]! := by simp [Array.getElem!_eq_getD, Array.getD_eq_getD_getElem?, hi]
  rw [this, a3]
  exact (hside qc a1 a2).1

/-- on a skeleton with a cluster edge: the labels of the representatives of weight 1 are, up to order, the roots
of the flippable components (`fr` false on cluster edges, as for every closure the samplers use) -/
theorem freeReps_perm_roots (fr : SkOp → Bool) (s : Slots)
    (hfre : ∀ x ∈ (legGraph (skeleton s)).opsAt, x.2.isEdge = true → fr x.2 = false)
    (hn : NodupVars s) (hpos : ∀ o ∈ opsOf s, o.vars ≠ []) (cp : Nat)
    (hcp : findConstantOp (skeleton s) = some cp) :
    ((freeReps fr (skeleton s)).map (fun r => (compLab (skeleton s))[r]!)).Perm
      (Kernel.componentRoots fr (skeleton s)) := by
  classical
  obtain ⟨hwh, hlt⟩ := reps_lt_nlegs s hn hpos cp hcp
  have htrav := travOK s hn hpos
  have hreps : modelReps (skeleton s) = (traverse (skeleton s)).reps := by
    unfold modelReps; rw [hwh]; rfl
  obtain ⟨hsz, hspec⟩ := compLab_spec s hn
  rw [List.perm_ext_iff_of_nodup]
  · intro ρ
    unfold Kernel.componentRoots freeReps
    simp only [List.mem_map, List.mem_filter, List.mem_range, Bool.and_eq_true, beq_iff_eq, decide_eq_true_eq, hreps]
    constructor
    · rintro ⟨r', ⟨hr', hw⟩, rfl⟩
      have hr'lt := hlt r' hr'
      have hle : (compLab (skeleton s))[r']! ≤ r' := by rw [hspec r' hr'lt]; exact minConn_le_self _
      have hρlt : (compLab (skeleton s))[r']! < (legGraph (skeleton s)).nlegs := by omega
      refine ⟨hρlt, ?_, (modelWeight_one_free hw).1 hwh⟩
      rw [hspec _ hρlt, hspec r' hr'lt, minConn_idem]
    · rintro ⟨hρlt, hroot, hfree⟩
      obtain ⟨r', hr', hlab⟩ := traverse_complete s hn hpos cp hcp ρ hρlt
      rw [hroot] at hlab
      refine ⟨r', ⟨hr', ?_⟩, hlab⟩
      unfold modelWeight clusterWeight
      rw [if_neg]
      rw [Bool.not_eq_true, List.any_eq_false]
      intro x hx
      simp only [Bool.and_eq_true, decide_eq_true_eq, not_and, Bool.not_eq_true]
      intro hall
      obtain ⟨⟨hfr, hpos'⟩, hin⟩ := hall
      exfalso
      have hne : x.2.isEdge = false := by
        cases h : x.2.isEdge with
        | false => rfl
        | true => rw [hfre x hx h] at hfr; cases hfr
      have := hfree x hx hne hfr hpos'
      apply this
      simp only [inCluster, hwh, Bool.false_or, beq_iff_eq] at hin
      rw [hin, hlab]
  · have hnd := htrav.nodup
    rw [← hreps] at hnd
    unfold freeReps
    exact hnd.sublist ((List.filter_sublist).map _)
  · unfold Kernel.componentRoots
    exact List.Nodup.filter _ List.nodup_range

theorem hasEdge_iff_findConstantOp (s : Slots) (hn : NodupVars s) :
    (legGraph (skeleton s)).hasEdge = (findConstantOp (skeleton s)).isSome := by
  rw [legGraph_hasEdge_eq s hn]
  cases hf : findConstantOp (skeleton s) with
  | some cp =>
    obtain ⟨hlt, o, ho, hoe⟩ := findConstantOp_some _ cp hf
    simp only [Option.isSome_some, List.any_eq_true]
    have ho' : (s[cp]?).map (Option.map Op.sk) = some (some o) := by
      simpa [skeleton] using ho
    cases hs : s[cp]? with
    | none => rw [hs] at ho'; cases ho'
    | some x =>
      rw [hs] at ho'
      cases x with
      | none => simp at ho'
      | some op =>
        simp only [Option.map_some, Option.some.injEq] at ho'
        refine ⟨op, mem_opsOf_of_some (List.mem_of_getElem? hs), ?_⟩
        show op.sk.isEdge = true
        rw [ho']; exact hoe
  | none =>
    simp only [Option.isSome_none, List.any_eq_false]
    intro op hop
    unfold findConstantOp at hf
    rw [List.find?_eq_none] at hf
    obtain ⟨p, hp⟩ := List.getElem?_of_mem (Kernel.some_mem_of_mem_opsOf hop)
    have hlt : p < s.length := by
      rcases Nat.lt_or_ge p s.length with h | h
      · exact h
      · rw [List.getElem?_eq_none h] at hp; cases hp
    have := hf p (List.mem_range.mpr (by simpa [skeleton] using hlt))
    have hsk : (skeleton s)[p]? = some (some op.sk) := by simp [skeleton, hp]
    rw [hsk] at this
    have h2 : op.sk.isEdge = false := by simpa using this
    intro h3
    have h3 : op.sk.isEdge = true := h3
    rw [h2] at h3; cases h3

theorem skCount_zero_iff (s : Slots) : skCount (skeleton s) = 0 ↔ opsOf s = [] := by
  induction s with
  | nil => simp [skCount, skeleton, opsOf]
  | cons x t ih =>
    cases x with
    | none =>
      have : skCount (skeleton (none :: t)) = skCount (skeleton t) := by simp [skCount, skeleton]
      rw [this]; simpa [opsOf] using ih
    | some o =>
      have : skCount (skeleton (some o :: t)) = skCount (skeleton t) + 1 := by simp [skCount, skeleton]
      rw [this]; simp [opsOf]

/-- **`hperm`**: on every well-formed string, for a closure that is never 0 on a cluster edge, the flips the exact
model offers are, up to order, the component flips of `Kernel.componentFlips` -/
theorem modelFlips_perm_componentFlips (fr : SkOp → Bool) (s : Slots)
    (hfre : ∀ x ∈ (legGraph (skeleton s)).opsAt, x.2.isEdge = true → fr x.2 = false) (hn : NodupVars s) (hpos : ∀ o ∈ opsOf s, o.vars ≠ []) :
    (modelFlips fr (skeleton s)).Perm (Kernel.componentFlips fr (skeleton s)) := by
  classical
  have hedge := hasEdge_iff_findConstantOp s hn
  cases hcp : findConstantOp (skeleton s) with
  | some cp =>
    rw [hcp] at hedge
    obtain ⟨hwh, -⟩ := reps_lt_nlegs s hn hpos cp hcp
    unfold modelFlips Kernel.componentFlips
    rw [if_pos (by simpa using hedge), hwh]
    have := (freeReps_perm_roots fr s hfre hn hpos cp hcp).map
      (fun ρ => Kernel.tagFlip (fun i => (compLab (skeleton s))[i]! == ρ))
    rw [List.map_map] at this
    refine List.Perm.trans (List.Perm.of_eq ?_) this
    apply List.map_congr_left
    intro r _
    simp only [Function.comp, clusterLegs_false]
  | none =>
    rw [hcp] at hedge
    unfold Kernel.componentFlips
    rw [if_neg (by simpa using hedge)]
    by_cases h0 : skCount (skeleton s) = 0
    · -- no operator at all
      have hops := (skCount_zero_iff s).mp h0
      have hnl : (legGraph (skeleton s)).nlegs = 0 := by
        rw [legGraph_nlegs_eq s hn]; exact (legCount_eq_zero_iff s hpos).mpr hops
      rw [if_neg (by rw [hnl]; simp)]
      have : modelReps (skeleton s) = [] := by
        unfold modelReps; simp [traverse, h0]
      unfold modelFlips freeReps
      rw [this]; simp
    · have hnl : 0 < (legGraph (skeleton s)).nlegs := by
        rw [legGraph_nlegs_eq s hn]
        rcases Nat.eq_zero_or_pos (legCount s) with h | h
        · exact absurd ((skCount_zero_iff s).mpr ((legCount_eq_zero_iff s hpos).mp h)) h0
        · exact h
      have h0' : ¬ (skCount (skeleton s) == 0) = true := by simpa using h0
      have hwh : (traverse (skeleton s)).whole = true := by simp [traverse, h0', hcp]
      have hreps : modelReps (skeleton s) = [0] := by unfold modelReps; rw [hwh]; rfl
      unfold modelFlips freeReps
      rw [hreps, hwh]
      by_cases hw : modelWeight fr (skeleton s) 0 = 1
      · have hall := (modelWeight_one_free hw).2 hwh
        rw [if_pos ⟨hall, hnl⟩]
        simp [hw, clusterLegs_true]
      · have hnall : ¬ ∀ r, ComponentFreeSk fr (skeleton s) r := by
          intro hall
          apply hw
          unfold modelWeight clusterWeight
          rw [if_neg]
          rw [Bool.not_eq_true, List.any_eq_false]
          intro x hx
          simp only [Bool.and_eq_true, decide_eq_true_eq, not_and, Bool.not_eq_true]
          intro hall'
          obtain ⟨⟨hfr, hpos'⟩, -⟩ := hall'
          exfalso
          have hne : x.2.isEdge = false := by
            cases h : x.2.isEdge with
            | false => rfl
            | true => rw [hfre x hx h] at hfr; cases hfr
          exact hall _ x hx hne hfr hpos' rfl
        rw [if_neg (fun h => hnall h.1)]
        simp [hw]

/-! ### on the configuration spaces of the Law theorems -/

/-- the closure is never 0 on a cluster edge of `H` (a constant bond on one variable) -/
def EdgeNotFrozen (H : Ham) (fr : SkOp → Bool) : Prop :=
  ∀ b, b < H.nbonds → isClusterEdge (H.const b) (H.vars b).length = true → fr ⟨H.vars b, b, H.const b⟩ = false

/-- **`hperm` on `cfgSpace`** -/
theorem cfgSpace_hperm {H : Ham} {N L : Nat} (hV : Kernel.VarsOK H N) (hp : VarsPos H) (fr : SkOp → Bool)
    (hfre : EdgeNotFrozen H fr) {c : Config} (hc : c ∈ Kernel.cfgSpace H N L) :
    (modelFlips fr (skeleton c.slots)).Perm (Kernel.componentFlips fr (skeleton c.slots)) := by
  have hn := (Kernel.cfgSpace_shapeOk hV hc).2
  refine modelFlips_perm_componentFlips fr c.slots ?_ hn (fun o ho => ?_)
  · intro x hx hed
    rw [legGraph_opsAt, (scanFrom_facts c.slots {} hn).2.2.1] at hx
    simp only [List.nil_append, List.mem_map] at hx
    obtain ⟨y, hy, rfl⟩ := hx
    have hop := opOffsets_mem_opsOf _ _ y hy
    obtain ⟨h1, h2, h3, -⟩ := (Kernel.mem_cfgSpace.mp hc).2.2 y.2 (Kernel.some_mem_of_mem_opsOf hop)
    have hsk : y.2.sk = ⟨H.vars y.2.bond, y.2.bond, H.const y.2.bond⟩ := by
      simp only [Op.sk, h2, h3]
    simp only at hed ⊢
    rw [hsk] at hed ⊢
    exact hfre _ h1 hed
  · obtain ⟨h1, h2, -⟩ := (Kernel.mem_cfgSpace.mp hc).2.2 o (Kernel.some_mem_of_mem_opsOf ho)
    rw [h2]; exact hp _ h1

theorem ising_edgeNotFrozen (s : Sampler.IsingSampler) :
    EdgeNotFrozen s.spec.ham (fun o => s.frozenBond o.bond) := by
  intro b _ hed
  simp only [isClusterEdge, Bool.and_eq_true, IsingSpec.ham, decide_eq_true_eq] at hed
  simp only [Sampler.IsingSampler.frozenBond]
  split
  · rfl
  · simp only [decide_eq_false_iff_not, Nat.not_le]
    exact hed.1.2

end Qmc.Law
