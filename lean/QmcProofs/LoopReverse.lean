/-
The directed loop as an exit-driven walk, and its reversal with the evolving configuration.

`stepEx` is the part of `loopBody` after the exit leg has been chosen; a `Walk` is a closed
sequence of such steps from the start leg. The model follows the walk given by the exits its
draws choose (`loopBody_stepEx`). For a start configuration with well-formed ops, canonical
diagonal tags and periodic world lines, the walk retraced backwards from the result — visits in
reverse order, each rewritten op entered through the old exit and left through the old entrance
— is again a `Walk`, and it ends in EXACTLY the start configuration (`Walk.reverse`): the ops the
retracing walk finds are the rewritten ops, what it writes back are the original ops (canonical
tag), and the state returns because both ends are periodic.
-/
import QmcProofs.LoopPath

namespace Qmc.LoopC
open Qmc

/-! ### one step with a given exit -/

/-- the part of `loopBody` after the exit has been chosen: rewrite the op, test for closing, move
along the link, test again. `none` = the implementation would panic (no op at `pos`, no link). -/
def stepEx (init : Nat × Leg) (pos : Nat) (ent : Leg) (c : Config) (ex : Leg) :
    Option (Config × Option (Nat × Leg)) :=
  match c.slots[pos]? with
  | some (some op) =>
    if (pos, ex) = init then
      some (⟨c.state, c.slots.set pos (some (passThrough op ent ex))⟩, none)
    else
      match moveOn c.slots c.state pos (passThrough op ent ex) ex with
      | (st', some (p', r')) =>
        if (p', (⟨r', !ex.out⟩ : Leg)) = init then
          some (⟨st', c.slots.set pos (some (passThrough op ent ex))⟩, none)
        else
          some (⟨st', c.slots.set pos (some (passThrough op ent ex))⟩, some (p', ⟨r', !ex.out⟩))
      | (_, none) => none
  | _ => none

/-- what a successful step did, by cases -/
theorem stepEx_cases {init : Nat × Leg} {pos : Nat} {ent : Leg} {c : Config} {ex : Leg}
    {c' : Config} {res : Option (Nat × Leg)} (h : stepEx init pos ent c ex = some (c', res)) :
    ∃ op, c.slots[pos]? = some (some op) ∧
      c'.slots = c.slots.set pos (some (passThrough op ent ex)) ∧
      (((pos, ex) = init ∧ res = none ∧ c'.state = c.state) ∨
       ((pos, ex) ≠ init ∧ ∃ p' r',
          moveOn c.slots c.state pos (passThrough op ent ex) ex = (c'.state, some (p', r')) ∧
          (((p', (⟨r', !ex.out⟩ : Leg)) = init ∧ res = none) ∨
           ((p', (⟨r', !ex.out⟩ : Leg)) ≠ init ∧ res = some (p', ⟨r', !ex.out⟩))))) := by
  unfold stepEx at h
  split at h
  · rename_i op hop
    refine ⟨op, hop, ?_⟩
    split at h
    · rename_i hi
      injection h with h; injection h with h1 h2
      subst h1; subst h2
      exact ⟨rfl, Or.inl ⟨hi, rfl, rfl⟩⟩
    · rename_i hi
      split at h
      · rename_i st' p' r' hmv
        split at h
        · rename_i h2
          injection h with h; injection h with e1 e2
          subst e1; subst e2
          exact ⟨rfl, Or.inr ⟨hi, p', r', hmv, Or.inl ⟨h2, rfl⟩⟩⟩
        · rename_i h2
          injection h with h; injection h with e1 e2
          subst e1; subst e2
          exact ⟨rfl, Or.inr ⟨hi, p', r', hmv, Or.inr ⟨h2, rfl⟩⟩⟩
      · cases h
  · cases h

/-- **the model follows `stepEx`** with the exit its draw chooses -/
theorem loopBody_stepEx (w : Nat → List Bool → List Bool → Rat) (init : Nat × Leg) (pos : Nat)
    (ent : Leg) (s : LoopSt) (op : Op) (ex : Leg) (h : exitOf w pos ent s = some (op, ex)) :
    match stepEx init pos ent ⟨s.state, s.slots⟩ ex with
    | some (c', res) =>
      (loopBody w init pos ent s).1.state = c'.state ∧ (loopBody w init pos ent s).1.slots = c'.slots ∧
        (loopBody w init pos ent s).2 = res
    | none => (loopBody w init pos ent s).2 = none ∧ (loopBody w init pos ent s).1.rs.panicked = true := by
  unfold exitOf at h
  unfold loopBody stepEx
  cases hs : s.slots[pos]? with
  | none => rw [hs] at h; cases h
  | some y =>
    cases y with
    | none => rw [hs] at h; cases h
    | some op0 =>
      rw [hs] at h
      simp only at h ⊢
      by_cases hfl : ((s.rs.genRangeF (sumR (exitWeights (w op0.bond) (op0.ins, op0.outs) ent op0.vars.length))).2.panicked ||
          (s.rs.genRangeF (sumR (exitWeights (w op0.bond) (op0.ins, op0.outs) ent op0.vars.length))).2.short) = true
      · rw [if_pos hfl] at h; cases h
      · rw [if_neg hfl] at h ⊢
        cases hp : pickIdx (s.rs.genRangeF (sumR (exitWeights (w op0.bond) (op0.ins, op0.outs) ent op0.vars.length))).1
            (exitWeights (w op0.bond) (op0.ins, op0.outs) ent op0.vars.length) with
        | none => rw [hp] at h; cases h
        | some j =>
          rw [hp] at h
          simp only [Option.some.injEq, Prod.mk.injEq] at h
          obtain ⟨e1, e2⟩ := h
          subst e1; subst e2
          simp only
          by_cases hi : (pos, (legsOf op0.vars.length).getD j default) = init
          · rw [if_pos hi, if_pos hi]
            exact ⟨rfl, rfl, rfl⟩
          · rw [if_neg hi, if_neg hi]
            rcases hm : moveOn s.slots s.state pos (passThrough op0 ent ((legsOf op0.vars.length).getD j default))
                ((legsOf op0.vars.length).getD j default) with ⟨st', _ | ⟨p', r'⟩⟩
            · exact ⟨rfl, rfl⟩
            · simp only
              by_cases h2 : (p', (⟨r', !((legsOf op0.vars.length).getD j default).out⟩ : Leg)) = init
              · rw [if_pos h2, if_pos h2]; exact ⟨rfl, rfl, rfl⟩
              · rw [if_neg h2, if_neg h2]; exact ⟨rfl, rfl, rfl⟩
/-! ### the two-open-ends invariant along exit-driven steps -/

/-- `Inv` on a configuration (the RNG state plays no role) -/
def InvC (init : Nat × Leg) (pos : Nat) (ent : Leg) (c : Config) : Prop :=
  WFSlots c.slots ∧ propagate c.state (togAt (togAt (retag c.slots) (pos, ent)) init) = some c.state

theorem stepEx_inv {init : Nat × Leg} {pos : Nat} {ent : Leg} {c : Config} {ex : Leg}
    {c' : Config} {res : Option (Nat × Leg)} (h : InvC init pos ent c)
    (hs : stepEx init pos ent c ex = some (c', res))
    (hrel : ∀ op, c.slots[pos]? = some (some op) → ex.rel < op.vars.length) :
    match res with
    | some (p, e) => InvC init p e c'
    | none => WFSlots c'.slots ∧ propagate c'.state c'.slots = some c'.state := by
  obtain ⟨hwf, hc⟩ := h
  obtain ⟨op, hop, hslots, hcase⟩ := stepEx_cases hs
  have hrel := hrel op hop
  have hwf' := wf_set_passThrough ent ex hwf hop
  have hre := retag_set_passThrough c.slots pos op ent ex hop
  rcases hcase with ⟨hinit, hnone, hst⟩ | ⟨hinit, p', r', hmv, hfin⟩
  · subst hnone
    simp only
    rw [hslots, hst]
    refine ⟨hwf', ?_⟩
    rw [← propagate_retag, hre, hinit]
    exact hc
  · have hR : (retag c.slots)[pos]? = some (some (retagOp op)) := by
      rw [retag_getElem?, hop]; rfl
    have hokR : SlotsOK (retag c.slots) := slotsOK_retag _ hwf
    have hok1 : OpOK (togOp (retagOp op) ent) := togOp_OK _ _ (hokR pos _ hR)
    have hokV : SlotsOK (togAt (togAt (retag c.slots) (pos, ent)) init) :=
      slotsOK_togAt _ _ (slotsOK_togAt _ _ hokR)
    have h1 : (togAt (retag c.slots) (pos, ent))[pos]? = some (some (togOp (retagOp op) ent)) := by
      rw [togAt_getElem?, if_pos rfl, hR]; rfl
    obtain ⟨oV, hoV, hvars, hlv⟩ : ∃ oV,
        (togAt (togAt (retag c.slots) (pos, ent)) init)[pos]? = some (some oV) ∧
        oV.vars = op.vars ∧ legVal oV ex = legVal (togOp (retagOp op) ent) ex := by
      rw [togAt_getElem?]
      by_cases hi : init.1 = pos
      · rw [if_pos hi, h1]
        refine ⟨_, rfl, rfl, ?_⟩
        apply legVal_togOp_ne
        intro e
        apply hinit
        rw [← e, ← hi]
      · rw [if_neg hi]
        exact ⟨_, h1, rfl, rfl⟩
    have hval : legVal (passThrough op ent ex) ex = !legVal oV ex := by
      have : legVal (passThrough op ent ex) ex = legVal (retagOp (passThrough op ent ex)) ex := rfl
      rw [this, retagOp_passThrough, hlv]
      apply legVal_togOp_self
      · rw [hok1.1]; exact hrel
      · rw [hok1.2.1]; exact hrel
    have hmv' : moveOn (togAt (togAt (retag c.slots) (pos, ent)) init) c.state pos
        (passThrough op ent ex) ex = (c'.state, some (p', r')) := by
      rw [moveOn_congr _ c.slots (fun v => by rw [occV_togAt, occV_togAt, occV_retag])]
      exact hmv
    have hlink := link_move hokV hc pos oV hoV ex (by rw [hvars]; exact hrel)
      (passThrough op ent ex) (by rw [hvars]; exact (passThrough_fields op ent ex).1) hval
      c'.state p' r' hmv'
    rcases hfin with ⟨hhead, hnone⟩ | ⟨hhead, hsome⟩
    · subst hnone
      simp only
      rw [hslots]
      refine ⟨hwf', ?_⟩
      rw [← propagate_retag, hre]
      rw [hhead, togAt_comm (togAt (retag c.slots) (pos, ent)) init (pos, ex), togAt_togAt] at hlink
      exact hlink
    · subst hsome
      simp only
      refine ⟨by rw [hslots]; exact hwf', ?_⟩
      rw [hslots, hre,
        togAt_comm (togAt (togAt (retag c.slots) (pos, ent)) (pos, ex)) _ init,
        togAt_comm (togAt (retag c.slots) (pos, ent)) (pos, ex) init]
      exact hlink

/-! ### closed walks -/

/-- a closed walk from the head `(pos, ent)` at `c`: steps with in-range exits, the last one (and
only the last) closes the loop started at `init`; `tr` records the visits, `c'` is the result -/
inductive Walk (init : Nat × Leg) : Nat → Leg → Config → List Visit → Config → Prop
  | last {pos : Nat} {ent : Leg} {c : Config} {ex : Leg} {op : Op} {c' : Config} :
      c.slots[pos]? = some (some op) → ex.rel < op.vars.length →
      stepEx init pos ent c ex = some (c', none) → Walk init pos ent c [⟨pos, ent, ex, op⟩] c'
  | step {pos : Nat} {ent : Leg} {c : Config} {ex : Leg} {op : Op} {c1 : Config} {p : Nat} {e : Leg}
      {t : List Visit} {c' : Config} :
      c.slots[pos]? = some (some op) → ex.rel < op.vars.length →
      stepEx init pos ent c ex = some (c1, some (p, e)) → Walk init p e c1 t c' →
      Walk init pos ent c (⟨pos, ent, ex, op⟩ :: t) c'

/-- a walk keeps the invariant, so it ends periodic (with well-formed ops) -/
theorem Walk.consistent {init : Nat × Leg} {pos : Nat} {ent : Leg} {c c' : Config} {tr : List Visit}
    (h : Walk init pos ent c tr c') (hi : InvC init pos ent c) :
    WFSlots c'.slots ∧ Consistent c' := by
  induction h with
  | last hop hrel hs =>
    have := stepEx_inv hi hs (fun op' ho => by rw [hop] at ho; cases ho; exact hrel)
    exact this
  | step hop hrel hs _ ih =>
    have := stepEx_inv hi hs (fun op' ho => by rw [hop] at ho; cases ho; exact hrel)
    exact ih this

theorem invC_start (c : Config) (init : Nat × Leg) (hwf : WFSlots c.slots) (hc : Consistent c) :
    InvC init init.1 init.2 c := by
  refine ⟨hwf, ?_⟩
  rw [togAt_togAt, propagate_retag]
  exact hc


/-! ### the evolving operator string along a list of visits -/

/-- the string evolves by the visits: each finds its `op` at its position and leaves `after` -/
def chain : Slots → List Visit → Slots → Prop
  | S, [], S' => S' = S
  | S, v :: t, S' => S[v.pos]? = some (some v.op) ∧ chain (S.set v.pos (some v.after)) t S'

theorem chain_snoc (S : Slots) (t : List Visit) (v : Visit) (X : Slots) :
    chain S (t ++ [v]) X ↔
      ∃ S1, chain S t S1 ∧ S1[v.pos]? = some (some v.op) ∧ X = S1.set v.pos (some v.after) := by
  induction t generalizing S with
  | nil =>
    simp only [List.nil_append, chain]
    constructor
    · rintro ⟨h1, h2⟩; exact ⟨S, rfl, h1, h2⟩
    · rintro ⟨S1, rfl, h1, h2⟩; exact ⟨h1, h2⟩
  | cons u t ih =>
    simp only [List.cons_append, chain]
    rw [ih]
    constructor
    · rintro ⟨h0, S1, h1, h2, h3⟩; exact ⟨S1, ⟨h0, h1⟩, h2, h3⟩
    · rintro ⟨S1, ⟨h0, h1⟩, h2, h3⟩; exact ⟨h0, S1, h1, h2, h3⟩

/-- the diagonal tag is the one `edit_in_out` computes -/
def CanonOp (o : Op) : Prop := o.tagDiag = (o.ins == o.outs)
def CanonSlots (S : Slots) : Prop := ∀ o, some o ∈ S → CanonOp o

theorem passThrough_canon (op : Op) (a b : Leg) : CanonOp (passThrough op a b) := by
  simp [CanonOp, passThrough, Op.withInOut]

theorem passThrough_back (op : Op) (a b : Leg) (h : CanonOp op) :
    passThrough (passThrough op a b) b a = op := by
  have e : flipIO (flipIO (flipIO (flipIO (op.ins, op.outs) a) b) b) a = (op.ins, op.outs) := by
    rw [flipIO_flipIO, flipIO_flipIO]
  unfold CanonOp at h
  cases op
  simp only [passThrough, Op.withInOut, Prod.mk.eta] at e h ⊢
  simp only [e, ← h]

theorem Visit.rev_rev_after (v : Visit) (h : CanonOp v.op) : v.rev.after = v.op := by
  show passThrough (passThrough v.op v.ent v.ex) v.ex v.ent = v.op
  exact passThrough_back v.op v.ent v.ex h

theorem Visit.rev_rev (v : Visit) (h : CanonOp v.op) : v.rev.rev = v := by
  cases v
  simp only [Visit.rev, Visit.after] at h ⊢
  congr 1
  exact passThrough_back _ _ _ h

/-- **the string evolves backwards along the retraced visits** -/
theorem chain_reverse (S S' : Slots) (tr : List Visit) (hc : ∀ v ∈ tr, CanonOp v.op)
    (h : chain S tr S') : chain S' (tr.map Visit.rev).reverse S := by
  induction tr generalizing S with
  | nil => simp only [chain] at h; subst h; simp [chain]
  | cons v t ih =>
    simp only [chain] at h
    obtain ⟨h0, h1⟩ := h
    have hl : v.pos < S.length := (List.getElem?_eq_some_iff.mp h0).1
    simp only [List.map_cons, List.reverse_cons]
    rw [chain_snoc]
    refine ⟨S.set v.pos (some v.after), ih _ (fun u hu => hc u (List.mem_cons_of_mem _ hu)) h1, ?_, ?_⟩
    · show (S.set v.pos (some v.after))[v.pos]? = some (some v.after)
      simp [hl]
    · show S = (S.set v.pos (some v.after)).set v.pos (some v.rev.after)
      rw [Visit.rev_rev_after v (hc v (List.mem_cons_self ..)), List.set_set]
      apply List.ext_getElem?
      intro j
      by_cases hj : v.pos = j
      · subst hj
        rw [List.getElem?_set_self hl, h0]
      · rw [List.getElem?_set_ne hj]


/-! ### a walk is a closed loop on the skeleton plus an evolving string -/

theorem skeleton_set_passThrough {slots : Slots} {pos : Nat} {op : Op} (ent ex : Leg)
    (hop : slots[pos]? = some (some op)) :
    skeletonOf (slots.set pos (some (passThrough op ent ex))) = skeletonOf slots := by
  obtain ⟨fv, fb, fc⟩ := passThrough_fields op ent ex
  exact skeletonOf_set slots pos op _ hop fv fb fc

theorem partnerOf_skeleton {s1 s2 : Slots} (h : skeletonOf s1 = skeletonOf s2) (pos : Nat) (op' : Op)
    (ex : Leg) : partnerOf s1 pos op' ex = partnerOf s2 pos op' ex := by
  unfold partnerOf
  rw [moveOn_congr s1 s2 (fun v => occV_skeleton h v)]

/-- the loop conditions of `IsLoop` with an arbitrary head -/
structure IsLoopFrom (sk : Slots) (init : Nat × Leg) (pos : Nat) (ent : Leg) (tr : List Visit) : Prop where
  wv : ∀ v ∈ tr, WV sk v
  linked : linkedList (Linked sk) tr
  first : ∃ v, tr.head? = some v ∧ (v.pos, v.ent) = (pos, ent)
  closes : ∃ v, tr.getLast? = some v ∧ Closes sk init v
  open_ : ∀ v ∈ tr.dropLast, ¬ Closes sk init v

theorem IsLoopFrom.isLoop {sk : Slots} {init : Nat × Leg} {tr : List Visit}
    (h : IsLoopFrom sk init init.1 init.2 tr) : IsLoop sk init tr :=
  ⟨h.wv, h.linked, h.first, h.closes, h.open_⟩

theorem IsLoop.isLoopFrom {sk : Slots} {init : Nat × Leg} {tr : List Visit}
    (h : IsLoop sk init tr) : IsLoopFrom sk init init.1 init.2 tr :=
  ⟨h.wv, h.linked, h.first, h.closes, h.open_⟩

/-- **walk ⇒ loop + chain** -/
theorem Walk.structure {init : Nat × Leg} {pos : Nat} {ent : Leg} {c c' : Config} {tr : List Visit}
    (h : Walk init pos ent c tr c') (sk : Slots) (hnd : ∀ o, some o ∈ sk → o.vars.Nodup)
    (hsk : skeletonOf c.slots = skeletonOf sk) (hh : HeadOK sk pos ent) (hcan : CanonSlots c.slots) :
    IsLoopFrom sk init pos ent tr ∧ chain c.slots tr c'.slots ∧
      skeletonOf c'.slots = skeletonOf sk ∧ CanonSlots c'.slots ∧ (∀ v ∈ tr, CanonOp v.op) := by
  induction h with
  | @last pos ent c ex op c' hop hrel hs =>
    obtain ⟨op2, hop2, hslots, hcase⟩ := stepEx_cases hs
    rw [hop] at hop2; injection hop2 with e; injection e with e; subst e
    have hwv : WV sk ⟨pos, ent, ex, op⟩ := by
      obtain ⟨o0, ho0, hv0⟩ := skeleton_op hsk hop
      obtain ⟨o0', ho0', her⟩ := hh
      rw [ho0] at ho0'
      injection ho0' with e; injection e with e; subst e
      exact ⟨o0, ho0, hv0.symm, hnd o0 (List.mem_of_getElem? ho0), her, by rw [hv0]; exact hrel⟩
    have hcl : Closes sk init ⟨pos, ent, ex, op⟩ := by
      rcases hcase with ⟨hi, _, _⟩ | ⟨_, p', r', hmv, hfin⟩
      · exact Or.inl hi
      · rcases hfin with ⟨hhd, _⟩ | ⟨_, hsome⟩
        · exact Or.inr (by rw [← hhd]; exact partnerOf_of_moveOn (slots := sk) hsk hmv)
        · cases hsome
    have hcan' : CanonSlots c'.slots := by
      rw [hslots]
      intro o ho
      rcases mem_set_some ho with rfl | ho
      · exact passThrough_canon _ _ _
      · exact hcan o ho
    refine ⟨⟨?_, trivial, ⟨_, rfl, rfl⟩, ⟨_, rfl, hcl⟩, ?_⟩, ?_, ?_, hcan', ?_⟩
    · intro v hv; simp only [List.mem_singleton] at hv; subst hv; exact hwv
    · intro v hv; simp at hv
    · exact ⟨hop, hslots⟩
    · rw [hslots, skeleton_set_passThrough ent ex hop]; exact hsk
    · intro v hv; simp only [List.mem_singleton] at hv; subst hv
      exact hcan op (List.mem_of_getElem? hop)
  | @step pos ent c ex op c1 p e t c' hop hrel hs hw ih =>
    obtain ⟨op2, hop2, hslots, hcase⟩ := stepEx_cases hs
    rw [hop] at hop2; injection hop2 with e0; injection e0 with e0; subst e0
    have hwv : WV sk ⟨pos, ent, ex, op⟩ := by
      obtain ⟨o0, ho0, hv0⟩ := skeleton_op hsk hop
      obtain ⟨o0', ho0', her⟩ := hh
      rw [ho0] at ho0'
      injection ho0' with e; injection e with e; subst e
      exact ⟨o0, ho0, hv0.symm, hnd o0 (List.mem_of_getElem? ho0), her, by rw [hv0]; exact hrel⟩
    have hsk1 : skeletonOf c1.slots = skeletonOf sk := by
      rw [hslots, skeleton_set_passThrough ent ex hop]; exact hsk
    have hcan1 : CanonSlots c1.slots := by
      rw [hslots]
      intro o ho
      rcases mem_set_some ho with rfl | ho
      · exact passThrough_canon _ _ _
      · exact hcan o ho
    rcases hcase with ⟨_, hnone, _⟩ | ⟨hinit, p', r', hmv, hfin⟩
    · cases hnone
    · rcases hfin with ⟨_, hnone⟩ | ⟨hhd, hsome⟩
      · cases hnone
      · injection hsome with hsome; injection hsome with e1 e2
        subst e1; subst e2
        have hpart := partnerOf_of_moveOn (slots := sk) hsk hmv
        obtain ⟨o2, ho2, hr2⟩ := moveOn_head _ _ _ _ _ _ _ _ hmv
        have hh1 : HeadOK sk p ⟨r', !ex.out⟩ := headOK_skeleton hsk ⟨o2, ho2, hr2⟩
        obtain ⟨i1, i2, i3, i4, i5⟩ := ih hsk1 hh1 hcan1
        obtain ⟨u, hu, hue⟩ := i1.first
        obtain ⟨z, hz, hzc⟩ := i1.closes
        obtain ⟨rest, hrest⟩ : ∃ rest, t = u :: rest := by
          cases t with
          | nil => simp at hu
          | cons a t' => simp at hu; exact ⟨t', by rw [hu]⟩
        have hnc : ¬ Closes sk init ⟨pos, ent, ex, op⟩ := by
          rintro (hc | hc)
          · exact hinit hc
          · have hc' : partnerOf sk pos (passThrough op ent ex) ex = some init := hc
            rw [hpart] at hc'
            injection hc' with hc'
            exact hhd hc'
        refine ⟨⟨?_, ?_, ⟨_, rfl, rfl⟩, ⟨z, ?_, hzc⟩, ?_⟩, ⟨hop, by
          show chain (c.slots.set pos (some (passThrough op ent ex))) t c'.slots
          rw [← hslots]; exact i2⟩, i3, i4, ?_⟩
        · intro v hv
          simp only [List.mem_cons] at hv
          rcases hv with rfl | hv
          · exact hwv
          · exact i1.wv v hv
        · rw [hrest]
          simp only [linkedList]
          refine ⟨?_, by rw [← hrest]; exact i1.linked⟩
          show partnerOf sk pos (passThrough op ent ex) ex = some (u.pos, u.ent)
          rw [hpart, hue]
        · rw [hrest] at hz ⊢; simpa using hz
        · intro v hv
          rw [hrest] at hv
          simp only [List.dropLast_cons_cons, List.mem_cons] at hv
          rcases hv with rfl | hv
          · exact hnc
          · exact i1.open_ v (by rw [hrest]; exact hv)
        · intro v hv
          simp only [List.mem_cons] at hv
          rcases hv with rfl | hv
          · exact hcan op (List.mem_of_getElem? hop)
          · exact i5 v hv


/-- from a partner to the `moveOn` result on a string with the same skeleton -/
theorem moveOn_of_partnerOf {sk slots : Slots} (hsk : skeletonOf slots = skeletonOf sk) (st : List Bool)
    {pos : Nat} {op' : Op} {ex : Leg} {p : Nat} {e : Leg}
    (h : partnerOf sk pos op' ex = some (p, e)) :
    ∃ st' r', moveOn slots st pos op' ex = (st', some (p, r')) ∧ e = ⟨r', !ex.out⟩ := by
  rw [← partnerOf_skeleton hsk] at h
  unfold partnerOf at h
  rw [moveOn_snd slots [] st] at h
  rcases hm : moveOn slots st pos op' ex with ⟨st', _ | ⟨p', r'⟩⟩
  · rw [hm] at h; simp at h
  · rw [hm] at h
    simp only [Option.map_some, Option.some.injEq, Prod.mk.injEq] at h
    obtain ⟨e1, e2⟩ := h
    subst e1
    exact ⟨st', r', rfl, e2.symm⟩

/-- **loop + chain ⇒ walk** -/
theorem walk_of_loopFrom (sk : Slots) (init : Nat × Leg) (tr : List Visit) :
    ∀ (pos : Nat) (ent : Leg) (c : Config) (S' : Slots), skeletonOf c.slots = skeletonOf sk →
      IsLoopFrom sk init pos ent tr → chain c.slots tr S' →
      ∃ c', Walk init pos ent c tr c' ∧ c'.slots = S' := by
  induction tr with
  | nil => intro pos ent c S' _ hl _; obtain ⟨v, hv, _⟩ := hl.first; simp at hv
  | cons v t ih =>
    intro pos ent c S' hsk hl hch
    simp only [chain] at hch
    obtain ⟨hop, hch⟩ := hch
    obtain ⟨v0, hv0, hpe⟩ := hl.first
    simp only [List.head?_cons, Option.some.injEq] at hv0
    subst hv0
    have hp : v.pos = pos := by injection hpe
    have he : v.ent = ent := by injection hpe
    obtain ⟨o0, ho0, hvo, hn0, her, hxr⟩ := hl.wv v (List.mem_cons_self ..)
    have hrel : v.ex.rel < v.op.vars.length := by rw [hvo]; exact hxr
    have hveq : v = ⟨pos, ent, v.ex, v.op⟩ := by cases v; simp_all
    cases t with
    | nil =>
      -- the only visit closes
      obtain ⟨z, hz, hzc⟩ := hl.closes
      simp only [List.getLast?_singleton, Option.some.injEq] at hz
      subst hz
      simp only [chain] at hch
      have hstep : ∃ c', stepEx init pos ent c v.ex = some (c', none) ∧
          c'.slots = c.slots.set pos (some (passThrough v.op ent v.ex)) := by
        unfold stepEx
        rw [← hp, hop]
        simp only
        by_cases hi : (v.pos, v.ex) = init
        · rw [if_pos hi]; exact ⟨_, rfl, rfl⟩
        · rw [if_neg hi]
          rcases hzc with hc | hc
          · exact absurd hc hi
          · have hc' : partnerOf sk v.pos (passThrough v.op v.ent v.ex) v.ex = some init := hc
            obtain ⟨st', r', hm, hee⟩ := moveOn_of_partnerOf hsk c.state (e := init.2) (p := init.1) hc'
            rw [he] at hm
            rw [hm]
            simp only
            have : (init.1, (⟨r', !v.ex.out⟩ : Leg)) = init := by rw [← hee]
            rw [if_pos this]
            exact ⟨_, rfl, rfl⟩
      obtain ⟨c', hs, hsl⟩ := hstep
      refine ⟨c', ?_, ?_⟩
      · rw [hveq]
        exact Walk.last (by rw [← hp]; exact hop) hrel hs
      · rw [hsl, hch, ← hp, ← he]; rfl
    | cons u t' =>
      have hnc := hl.open_ v (by simp [List.dropLast])
      have hlink : partnerOf sk v.pos v.after v.ex = some (u.pos, u.ent) := hl.linked.1
      obtain ⟨st', r', hm, hee⟩ := moveOn_of_partnerOf hsk c.state hlink
      have hi : (v.pos, v.ex) ≠ init := fun h => hnc (Or.inl h)
      have h2 : (u.pos, (⟨r', !v.ex.out⟩ : Leg)) ≠ init := by
        intro h
        apply hnc
        right
        show partnerOf sk v.pos v.after v.ex = some init
        rw [hlink, hee, h]
      have hstep : stepEx init pos ent c v.ex =
          some (⟨st', c.slots.set pos (some (passThrough v.op ent v.ex))⟩, some (u.pos, ⟨r', !v.ex.out⟩)) := by
        unfold stepEx
        rw [← hp, hop]
        simp only
        rw [if_neg hi]
        have hm' : moveOn c.slots c.state v.pos (passThrough v.op ent v.ex) v.ex = (st', some (u.pos, r')) := by
          rw [← he]; exact hm
        rw [hm']
        simp only
        rw [if_neg h2]
      have hsk1 : skeletonOf (c.slots.set pos (some (passThrough v.op ent v.ex))) = skeletonOf sk := by
        rw [skeleton_set_passThrough ent v.ex (by rw [← hp]; exact hop)]; exact hsk
      have hl1 : IsLoopFrom sk init u.pos ⟨r', !v.ex.out⟩ (u :: t') := by
        refine ⟨fun x hx => hl.wv x (List.mem_cons_of_mem _ hx), hl.linked.2, ⟨u, rfl, by rw [hee]⟩, ?_, ?_⟩
        · obtain ⟨z, hz, hzc⟩ := hl.closes
          exact ⟨z, by simpa using hz, hzc⟩
        · intro x hx
          exact hl.open_ x (by simp only [List.dropLast_cons_cons]; exact List.mem_cons_of_mem _ hx)
      have hch1 : chain (c.slots.set pos (some (passThrough v.op ent v.ex))) (u :: t') S' := by
        rw [← hp, ← he]; exact hch
      obtain ⟨c', hw, hsl⟩ := ih u.pos ⟨r', !v.ex.out⟩
        ⟨st', c.slots.set pos (some (passThrough v.op ent v.ex))⟩ S' hsk1 hl1 hch1
      refine ⟨c', ?_, hsl⟩
      rw [hveq]
      exact Walk.step (by rw [← hp]; exact hop) hrel hstep hw


/-! ### the state: touched only at variables with ops, determined there by periodicity -/

theorem varHasOps_skeleton {s1 s2 : Slots} (h : skeletonOf s1 = skeletonOf s2) (u : Nat) :
    varHasOps s1 u = varHasOps s2 u := by
  unfold varHasOps; rw [occV_skeleton h]

theorem moveOn_state (slots : Slots) (st : List Bool) (pos : Nat) (op op' : Op) (ex : Leg)
    (hop : slots[pos]? = some (some op)) (hv : op'.vars = op.vars) (hr : ex.rel < op.vars.length) :
    (moveOn slots st pos op' ex).1.length = st.length ∧
    ∀ u, varHasOps slots u = false → (moveOn slots st pos op' ex).1[u]? = st[u]? := by
  have hvv : op'.vars.getD ex.rel 0 = op.vars[ex.rel] := by
    rw [hv]; simp [List.getD, List.getElem?_eq_getElem hr]
  have hne : ∀ u, varHasOps slots u = false → op.vars[ex.rel] ≠ u := by
    intro u hu e
    exact no_ops_of_varHasOps_false slots u hu op (List.mem_of_getElem? hop) (e ▸ List.getElem_mem hr)
  unfold moveOn
  simp only [hvv]
  split
  · split
    · exact ⟨rfl, fun _ _ => rfl⟩
    · exact ⟨by simp, fun u hu => by rw [List.getElem?_set_ne (hne u hu)]⟩
  · split
    · exact ⟨rfl, fun _ _ => rfl⟩
    · exact ⟨by simp, fun u hu => by rw [List.getElem?_set_ne (hne u hu)]⟩

theorem Walk.state {init : Nat × Leg} {pos : Nat} {ent : Leg} {c c' : Config} {tr : List Visit}
    (h : Walk init pos ent c tr c') :
    c'.state.length = c.state.length ∧
    ∀ u, varHasOps c.slots u = false → c'.state[u]? = c.state[u]? := by
  induction h with
  | @last pos ent c ex op c' hop hrel hs =>
    obtain ⟨op2, hop2, hslots, hcase⟩ := stepEx_cases hs
    rw [hop] at hop2; injection hop2 with e; injection e with e; subst e
    rcases hcase with ⟨_, _, hst⟩ | ⟨_, p', r', hmv, _⟩
    · rw [hst]; exact ⟨rfl, fun _ _ => rfl⟩
    · have := moveOn_state c.slots c.state pos op (passThrough op ent ex) ex hop
        (passThrough_fields op ent ex).1 hrel
      rw [hmv] at this
      exact this
  | @step pos ent c ex op c1 p e t c' hop hrel hs _ ih =>
    obtain ⟨op2, hop2, hslots, hcase⟩ := stepEx_cases hs
    rw [hop] at hop2; injection hop2 with e0; injection e0 with e0; subst e0
    have hsk : skeletonOf c1.slots = skeletonOf c.slots := by
      rw [hslots]; exact skeleton_set_passThrough ent ex hop
    have h1 : c1.state.length = c.state.length ∧
        ∀ u, varHasOps c.slots u = false → c1.state[u]? = c.state[u]? := by
      rcases hcase with ⟨_, _, hst⟩ | ⟨_, p', r', hmv, _⟩
      · rw [hst]; exact ⟨rfl, fun _ _ => rfl⟩
      · have := moveOn_state c.slots c.state pos op (passThrough op ent ex) ex hop
          (passThrough_fields op ent ex).1 hrel
        rw [hmv] at this
        exact this
    refine ⟨by rw [ih.1, h1.1], fun u hu => ?_⟩
    rw [ih.2 u (by rw [varHasOps_skeleton hsk]; exact hu), h1.2 u hu]

/-- a periodic string determines the state at every variable an op acts on -/
theorem consistent_state_unique (S : Slots) (s1 s2 : List Bool) (hwf : WFSlots S)
    (h1 : propagate s1 S = some s1) (h2 : propagate s2 S = some s2) (_hl : s1.length = s2.length)
    (hfree : ∀ u, varHasOps S u = false → s1[u]? = s2[u]?) : s1 = s2 := by
  apply List.ext_getElem?
  intro u
  cases hu : varHasOps S u with
  | false => exact hfree u hu
  | true =>
    unfold varHasOps at hu
    have hne : occV S u ≠ [] := by
      intro e; rw [e] at hu; simp at hu
    obtain ⟨q, hq⟩ : ∃ q, firstForVar S u = some q := by
      unfold firstForVar
      cases h : occV S u with
      | nil => exact absurd h hne
      | cons a t => exact ⟨a, rfl⟩
    obtain ⟨qp, qr⟩ := q
    obtain ⟨⟨o, ho, hi⟩, hfr⟩ := firstForVar_some hq
    obtain ⟨hr, hv⟩ := indexOfVar_some hi
    obtain ⟨w1, w2, w3, _⟩ := hwf o (List.mem_of_getElem? ho)
    have hfr' : FreeIn S o.vars[qr] 0 qp := by rw [hv]; exact hfr
    have a1 := val_in h1 qp qr o ho ⟨w1, w2, w3⟩ hr hfr'
    have a2 := val_in h2 qp qr o ho ⟨w1, w2, w3⟩ hr hfr'
    rw [hv] at a1 a2
    rw [a1, a2]

/-! ### the reverse run -/

/-- what the loop needs of a configuration: well-formed ops, canonical tags, periodic world lines -/
def GoodL (c : Config) : Prop := WFSlots c.slots ∧ CanonSlots c.slots ∧ Consistent c

/-- **Reverse run.** A closed walk from `c` to `c'` started at `init`, with `c` well-formed,
canonically tagged and periodic, retraced backwards — from the exit leg of the last visit,
visits in reverse order, each rewritten op entered through the old exit and left through the old
entrance — is a closed walk from `c'` that ends in exactly `c` (string AND state). -/
theorem Walk.reverse {init : Nat × Leg} {c c' : Config} {tr : List Visit}
    (h : Walk init init.1 init.2 c tr c') (hg : GoodL c) (hh : HeadOK c.slots init.1 init.2) :
    ∃ vm, tr.getLast? = some vm ∧
      Walk (vm.pos, vm.ex) vm.pos vm.ex c' (tr.map Visit.rev).reverse c ∧
      HeadOK c'.slots vm.pos vm.ex ∧ GoodL c' := by
  obtain ⟨hwf, hcan, hcons⟩ := hg
  -- the result is well-formed and periodic
  obtain ⟨hwf', hcons'⟩ := h.consistent (invC_start c init hwf hcons)
  -- structure of the forward walk, on the skeleton of the result
  have hsk0 : skeletonOf c.slots = skeletonOf c'.slots := by
    obtain ⟨_, _, hsk, _, _⟩ := h.structure c.slots (fun o ho => (hwf o ho).2.2.1) rfl hh hcan
    exact hsk.symm
  obtain ⟨hloop, hchain, _, hcan', hcanv⟩ := h.structure c'.slots (fun o ho => (hwf' o ho).2.2.1) hsk0
    (headOK_skeleton hsk0 hh) hcan
  obtain ⟨vm, hvm, hrev⟩ := hloop.isLoop.reverse
  have hchR := chain_reverse c.slots c'.slots tr hcanv hchain
  obtain ⟨cR, hwR, hslR⟩ := walk_of_loopFrom c'.slots (vm.pos, vm.ex) _ vm.pos vm.ex c' c.slots rfl
    hrev.isLoopFrom hchR
  -- the head of the reverse walk exists
  have hhR : HeadOK c'.slots vm.pos vm.ex := by
    obtain ⟨o0, ho0, _, _, _, hx⟩ := hloop.wv vm (List.mem_of_getLast? hvm)
    exact ⟨o0, ho0, hx⟩
  -- its result is periodic on the string of `c`, hence has the state of `c`
  obtain ⟨_, hconsR⟩ := hwR.consistent (invC_start c' (vm.pos, vm.ex) hwf' hcons')
  have hstF := h.state
  have hstR := hwR.state
  have hstate : cR.state = c.state := by
    apply consistent_state_unique c.slots cR.state c.state hwf
    · have := hconsR; unfold Consistent at this; rw [hslR] at this; exact this
    · exact hcons
    · rw [hstR.1, hstF.1]
    · intro u hu
      rw [hstR.2 u (by rw [← varHasOps_skeleton hsk0]; exact hu), hstF.2 u hu]
  have : cR = c := by
    cases cR; cases c
    simp only at hslR hstate
    rw [hslR, hstate]
  rw [this] at hwR
  exact ⟨vm, hvm, hwR, hhR, hwf', hcan', hcons'⟩


end Qmc.LoopC
