import QmcModel.Rvb
import Mathlib.Tactic.Ring
import Mathlib.Tactic.Linarith
import Mathlib.Tactic.NormNum
import Mathlib.Algebra.Order.Field.Rat
import Mathlib.Data.List.Nodup

/-! Specs of the pure helpers of the RVB update. -/

namespace Qmc
namespace Rvb

/-! ### `remove_doubles` -/

theorem removeDoubles_sublist (l : List Nat) : (removeDoubles l).Sublist l := by
  fun_induction removeDoubles l with
  | case1 => exact List.Sublist.refl _
  | case2 a => exact List.Sublist.refl _
  | case3 a t ih => exact (ih.cons _).cons _
  | case4 a b t h ih => exact ih.cons_cons _

theorem count_zero_of_lt_all {a : Nat} {l : List Nat} (h : ∀ x ∈ l, a < x) : l.count a = 0 := by
  apply List.count_eq_zero.2
  intro hm; exact Nat.lt_irrefl _ (h a hm)

/-- on a sorted list `remove_doubles` keeps exactly one copy of every value of odd multiplicity
and none of the values of even multiplicity -/
theorem removeDoubles_count (l : List Nat) (hs : l.Pairwise (· ≤ ·)) (x : Nat) :
    (removeDoubles l).count x = l.count x % 2 := by
  fun_induction removeDoubles l with
  | case1 => simp
  | case2 a => by_cases h : a = x <;> simp [List.count_cons, h]
  | case3 a t ih =>
    have ht : t.Pairwise (· ≤ ·) := (List.pairwise_cons.1 (List.pairwise_cons.1 hs).2).2
    rw [ih ht]
    by_cases h : a = x <;> simp [List.count_cons, h] <;> omega
  | case4 a b t h ih =>
    have hbt : (b :: t).Pairwise (· ≤ ·) := (List.pairwise_cons.1 hs).2
    have hab : a < b := by
      have := (List.pairwise_cons.1 hs).1 b (by simp)
      omega
    rw [List.count_cons, ih hbt, List.count_cons (a := x) (b := a)]
    by_cases hax : a = x
    · subst hax
      have : (b :: t).count a = 0 := by
        apply count_zero_of_lt_all
        intro y hy
        rcases List.mem_cons.1 hy with e | e
        · subst e; exact hab
        · have := (List.pairwise_cons.1 hbt).1 y e; omega
      simp [this]
    · simp [hax]

/-- the result is strictly increasing (sorted, no repetitions) -/
theorem removeDoubles_sorted (l : List Nat) (hs : l.Pairwise (· ≤ ·)) :
    (removeDoubles l).Pairwise (· < ·) := by
  have h1 : (removeDoubles l).Pairwise (· ≤ ·) := hs.sublist (removeDoubles_sublist l)
  have h2 : (removeDoubles l).Nodup := by
    rw [List.nodup_iff_count_le_one]
    intro a
    rw [removeDoubles_count l hs]; omega
  have := List.Pairwise.and h1 h2
  exact this.imp (fun ⟨hle, hne⟩ => Nat.lt_of_le_of_ne hle hne)

theorem removeDoubles_mem (l : List Nat) (hs : l.Pairwise (· ≤ ·)) (x : Nat) :
    x ∈ removeDoubles l ↔ l.count x % 2 = 1 := by
  rw [← List.count_pos_iff, removeDoubles_count l hs]; omega

/-! ### `find_overlapping_starts` -/

theorem mem_takeWhile_pred {α} (p : α → Bool) (l : List α) (x : α) (h : x ∈ l.takeWhile p) : p x = true := by
  induction l with
  | nil => simp at h
  | cons a t ih =>
    rw [List.takeWhile_cons] at h
    split at h
    · rcases List.mem_cons.1 h with e | e
      · subst e; assumption
      · exact ih e
    · simp at h

theorem cyclicFrom_nodup (prev len : Nat) (h : prev < len) : (cyclicFrom prev len).Nodup := by
  unfold cyclicFrom
  rw [List.nodup_append]
  refine ⟨List.nodup_range' .., List.nodup_range .., ?_⟩
  intro a ha b hb
  have := (List.mem_range'_1.1 ha).1
  have := List.mem_range.1 hb
  omega

theorem cyclicFrom_lt (prev len : Nat) (h : prev < len) : ∀ i ∈ cyclicFrom prev len, i < len := by
  intro i hi
  unfold cyclicFrom at hi
  rcases List.mem_append.1 hi with h1 | h1
  · have := (List.mem_range'_1.1 h1).2; omega
  · have := List.mem_range.1 h1; omega

theorem cyclicFrom_length (prev len : Nat) (h : prev < len) : (cyclicFrom prev len).length = len := by
  unfold cyclicFrom; simp; omega

/-- exactly when the code panics -/
theorem fos_isSome_iff (ps pe cutoff : Nat) (fp : List Nat) :
    (findOverlappingStarts ps pe cutoff fp).isSome ↔ fp ≠ [] ∧ cutoff ≠ 0 ∧ ps ∉ fp := by
  unfold findOverlappingStarts binSearchErr
  by_cases h1 : fp = []
  · simp [h1]
  · by_cases h2 : cutoff = 0
    · simp [h2]
    · by_cases h3 : ps ∈ fp
      · simp [h1, h2, h3]
      · simp [h1, h2, h3]

/-- the result is a prefix (the `take_while`) of the cyclic enumeration that starts at the
interval containing `p_start`: indices are in range and pairwise distinct, every returned index
satisfies the overlap test, and the first index not returned (if any) fails it. -/
theorem fos_spec {ps pe cutoff : Nat} {fp res : List Nat}
    (h : findOverlappingStarts ps pe cutoff fp = some res) :
    ∃ prev, prev < fp.length ∧
      prev = ((fp.filter (· < ps)).length + fp.length - 1) % fp.length ∧
      res = (cyclicFrom prev fp.length).takeWhile (overlapPred ps pe cutoff (fp.getD prev 0) fp) ∧
      res.Nodup ∧ (∀ i ∈ res, i < fp.length) ∧ res.length ≤ fp.length ∧
      (∀ i ∈ res, overlapPred ps pe cutoff (fp.getD prev 0) fp i = true) := by
  unfold findOverlappingStarts binSearchErr at h
  split at h
  · cases h
  · rename_i hne
    split at h
    · cases h
    · rename_i bin hb
      split at hb
      · cases hb
      · injection hb with hb
        injection h with h
        have hlen : 0 < fp.length := by
          cases fp with
          | nil => simp at hne
          | cons a t => simp
        have hprev : (bin + fp.length - 1) % fp.length < fp.length := Nat.mod_lt _ hlen
        refine ⟨_, hprev, by rw [hb], h.symm, ?_, ?_, ?_, ?_⟩
        · rw [← h]
          exact (cyclicFrom_nodup _ _ hprev).sublist (List.takeWhile_sublist _)
        · intro i hi
          rw [← h] at hi
          exact cyclicFrom_lt _ _ hprev i ((List.takeWhile_sublist _).subset hi)
        · rw [← h]
          calc _ ≤ (cyclicFrom _ fp.length).length := (List.takeWhile_sublist _).length_le
            _ = fp.length := cyclicFrom_length _ _ hprev
        · intro i hi
          rw [← h] at hi
          exact mem_takeWhile_pred _ _ _ hi

/-! ### `calculate_mult` -/

theorem absR_nonneg (x : Rat) : 0 ≤ absR x := by
  unfold absR; split <;> linarith

theorem absR_eq_zero {x : Rat} (h : absR x = 0) : x = 0 := by
  unfold absR at h; split at h <;> linarith

/-- the value is `(W_after / W_before)^n` whenever the "close" shortcut is exact (totals that are
closer than eps are equal) and the divisor is non-zero when it matters -/
theorem calculateMult_eq_pow (wb wa : Rat) (n : Nat) (eps : Rat)
    (hclose : absR (wb - wa) < eps → wb = wa) (hwb : n ≠ 0 → wb ≠ 0) :
    calculateMult wb wa n eps = (wa / wb) ^ n := by
  unfold calculateMult
  split
  · rename_i h
    rcases h with h | h
    · subst h; simp
    · have := hclose h
      subst this
      by_cases hn : n = 0
      · subst hn; simp
      · rw [div_self (hwb hn)]; simp
  · rfl

/-- totals on a grid at least as coarse as eps (e.g. sums of multiples of 1/8 against
`f64::EPSILON`) make the shortcut exact -/
theorem close_exact_on_grid (g eps : Rat) (a b : Int) (hg : eps ≤ g) :
    absR ((a : Rat) * g - (b : Rat) * g) < eps → (a : Rat) * g = (b : Rat) * g := by
  intro h
  by_cases hab : a = b
  · subst hab; rfl
  · exfalso
    have hpos : 0 < g := by
      have := absR_nonneg ((a : Rat) * g - (b : Rat) * g); linarith
    have hfac : (a : Rat) * g - (b : Rat) * g = ((a - b : Int) : Rat) * g := by push_cast; ring
    rw [hfac] at h
    have hne : a - b ≠ 0 := fun e => hab (by omega)
    rcases lt_or_gt_of_ne hne with hlt | hgt
    · have : ((a - b : Int) : Rat) ≤ -1 := by exact_mod_cast (by omega : a - b ≤ -1)
      unfold absR at h
      split at h
      · nlinarith
      · rename_i hh; nlinarith
    · have : (1 : Rat) ≤ ((a - b : Int) : Rat) := by exact_mod_cast (by omega : 1 ≤ a - b)
      unfold absR at h
      split at h
      · rename_i hh; nlinarith
      · nlinarith

/-! ### `contiguous_bits` -/

theorem trailingOnesAux_spec (f v k : Nat) (hk : k < f) :
    RS.trailingOnesAux f v = k ↔ (∀ i, i < k → v.testBit i = true) ∧ v.testBit k = false := by
  induction f generalizing v k with
  | zero => omega
  | succ f ih =>
    unfold RS.trailingOnesAux
    cases k with
    | zero =>
      by_cases hv : v % 2 = 1
      · simp [hv, Nat.testBit_zero]
      · simp [hv, Nat.testBit_zero]
    | succ k =>
      by_cases hv : v % 2 = 1
      · simp only [hv, if_true]
        have := ih (v / 2) k (by omega)
        constructor
        · intro h
          have h' : RS.trailingOnesAux f (v / 2) = k := by omega
          obtain ⟨h1, h2⟩ := this.1 h'
          refine ⟨?_, ?_⟩
          · intro i hi
            cases i with
            | zero => simp [Nat.testBit_zero, hv]
            | succ j => rw [Nat.testBit_succ]; exact h1 j (by omega)
          · rw [Nat.testBit_succ]; exact h2
        · intro ⟨h1, h2⟩
          have : RS.trailingOnesAux f (v / 2) = k := by
            apply this.2
            refine ⟨?_, ?_⟩
            · intro i hi
              have := h1 (i + 1) (by omega)
              rwa [Nat.testBit_succ] at this
            · rwa [Nat.testBit_succ] at h2
          omega
      · simp only [hv, if_false]
        constructor
        · intro h; omega
        · intro ⟨h1, _⟩
          have := h1 0 (by omega)
          simp [Nat.testBit_zero] at this
          omega

end Rvb
end Qmc
