/-
C11, sub-variable cursors (`SubvarAccess::Varlist`): the mapping table, the scan cursor restricted
to the listed variables, and `fill_args_at_p` (the NON-hint fill) on the canonical container.
The `unfilled` counter of `get_empty_args(Varlist)` counts LISTED VARIABLES with ops; the walk may
stop when it reaches 0 without losing an entry (same counting argument as for `All`).
-/
import QmcProofs.FastOpsNth

namespace Qmc

/-- `vars_to_subvars` as built by `FastOpMutateArgs::new` -/
def mkTable (nv : Nat) (vars : List Nat) : List (Option Nat) :=
  vars.zipIdx.foldl (fun (m : List (Option Nat)) vi => m.set vi.1 (some vi.2)) (List.replicate nv none)

theorem mkTable_get (nv : Nat) (vars : List Nat) (hn : vars.Nodup) (hlt : ∀ v ∈ vars, v < nv) (v : Nat) :
    ((mkTable nv vars)[v]?).join = if v ∈ vars then some (vars.idxOf v) else none := by
  let I : List Nat → List (Option Nat) → Prop := fun D m =>
    m.length = nv ∧ ∀ w, (m[w]?).join = if w ∈ D then some (vars.idxOf w) else none
  have hbase : I [] (List.replicate nv none) := by
    refine ⟨by simp, ?_⟩
    intro w
    simp only [List.not_mem_nil, if_false, List.getElem?_replicate]
    split <;> rfl
  have hfold := fold_inv' I (fun (m : List (Option Nat)) (vi : Nat × Nat) => m.set vi.1 (some vi.2))
    (fun vi => vi.1) (fun vi => vars[vi.2]? = some vi.1)
    (by
      intro D m x hx _ ⟨h1, h2⟩
      have hxm : x.1 ∈ vars := List.mem_of_getElem? hx
      have hidx := idxOf_of_getElem? hn hx
      refine ⟨by simpa using h1, ?_⟩
      intro w
      rw [List.getElem?_set]
      by_cases hw : x.1 = w
      · subst hw
        have : x.1 < m.length := by rw [h1]; exact hlt x.1 hxm
        simp [this, hidx]
      · have : ¬ w = x.1 := fun e => hw e.symm
        simp only [hw, if_false, h2 w, List.mem_cons, this, false_or])
    vars.zipIdx [] (List.replicate nv none) (zipIdx_getElem? vars)
    (by rw [List.zipIdx_map_fst]; exact hn) (by simp) hbase
  rw [List.zipIdx_map_fst, List.append_nil] at hfold
  have := hfold.2 v
  simpa [mkTable] using this

/-- the scan cursor restricted to the listed variables (what a correct Varlist cursor at `p` is) -/
def cursorSub (nv : Nat) (vars : List Nat) (s : Slots) (p u : Nat) : Cursor :=
  { lastP := prevOcc (occAt s) p
    lastVars := vars.map (fun v => (prevRel s v p).map (·.p))
    lastRels := vars.map (fun v => (prevRel s v p).map (·.relv))
    subvarMapping := some (mkTable nv vars, vars)
    unfilled := u }

section Reads
variable (nv : Nat) (vars : List Nat) (hn : vars.Nodup) (hlt : ∀ v ∈ vars, v < nv)
include hn hlt

theorem cursorSub_sub (s : Slots) (p u v : Nat) :
    (cursorSub nv vars s p u).varToSubvar v = if v ∈ vars then some (vars.idxOf v) else none := by
  simp only [Cursor.varToSubvar, cursorSub]
  exact mkTable_get nv vars hn hlt v

omit hlt in
theorem map_idxOf {β : Type} (F : Nat → β) (v : Nat) (hv : v ∈ vars) :
    (vars.map F)[vars.idxOf v]? = some (F v) := by
  have hl := List.idxOf_lt_length_of_mem hv
  rw [List.getElem?_map, List.getElem?_eq_getElem hl, List.getElem_idxOf hl]
  rfl

theorem cursorSub_lastPRel (s : Slots) (p u v : Nat) (hv : v ∈ vars) :
    (cursorSub nv vars s p u).lastPRel v = prevRel s v p := by
  unfold Cursor.lastPRel
  rw [cursorSub_sub nv vars hn hlt]
  simp only [hv, if_true, Option.getD_some, Cursor.lastVar, Cursor.lastRel, cursorSub,
    map_idxOf vars hn _ v hv, Option.join_some]
  cases prevRel s v p <;> rfl

theorem cursorSub_lastVar (s : Slots) (p u v : Nat) (hv : v ∈ vars) :
    (cursorSub nv vars s p u).lastVar (((cursorSub nv vars s p u).varToSubvar v).getD 0)
      = (prevRel s v p).map (·.p) := by
  rw [cursorSub_sub nv vars hn hlt]
  simp only [hv, if_true, Option.getD_some, Cursor.lastVar, cursorSub, map_idxOf vars hn _ v hv,
    Option.join_some]

end Reads

/-! ### the walk with a Varlist cursor -/

section FillS
variable (vs : List Nat) (s : Slots) (p : Nat)

/-- state of a Varlist cursor during the walk -/
structure WGS (fl : Nat → Bool) (a : Cursor) : Prop where
  hm : ∀ v, a.varToSubvar v = if v ∈ vs then some (vs.idxOf v) else none
  hv : a.lastVars = vs.map (fun v => if fl v then (prevRel s v p).map (·.p) else none)
  hr : a.lastRels = vs.map (fun v => if fl v then (prevRel s v p).map (·.relv) else none)
  hc : (vs.filter (fun v => hasOpsV s v && !fl v)).length ≤ a.unfilled
  hs : ∀ v, fl v = true → (prevRel s v p).isSome = true

theorem WGS_congr {fl fl' : Nat → Bool} {a : Cursor} (h : ∀ v, v ∈ vs → fl v = fl' v)
    (hs' : ∀ v, fl' v = true → (prevRel s v p).isSome = true) (hw : WGS vs s p fl a) : WGS vs s p fl' a := by
  constructor
  · exact hw.hm
  · rw [hw.hv]; apply List.map_congr_left; intro v hv; rw [h v hv]
  · rw [hw.hr]; apply List.map_congr_left; intro v hv; rw [h v hv]
  · have : vs.filter (fun v => hasOpsV s v && !fl' v) = vs.filter (fun v => hasOpsV s v && !fl v) := by
      apply List.filter_congr; intro v hv; rw [h v hv]
    rw [this]; exact hw.hc
  · exact hs'

variable (hn : vs.Nodup)
include hn

theorem WGS_lastVar {fl : Nat → Bool} {a : Cursor} (hw : WGS vs s p fl a) (v : Nat) (hv : v ∈ vs) :
    (a.lastVar (vs.idxOf v)).isNone = !fl v := by
  simp only [Cursor.lastVar, hw.hv, map_idxOf vs hn _ v hv, Option.join_some]
  cases hf : fl v with
  | false => simp
  | true =>
    have := hw.hs v hf
    cases hp : prevRel s v p with
    | none => rw [hp] at this; cases this
    | some pr => simp

theorem WGS_fill {fl : Nat → Bool} {a : Cursor} (hw : WGS vs s p fl a) (v : Nat) (hv : v ∈ vs) (pr : PRel)
    (hpr : prevRel s v p = some pr) (hnf : fl v = false) :
    WGS vs s p (fun w => fl w || w == v)
      { a with lastVars := a.lastVars.set (vs.idxOf v) (some pr.p),
               lastRels := a.lastRels.set (vs.idxOf v) (some pr.relv),
               unfilled := a.unfilled - 1 } := by
  have hocc : hasOpsV s v = true := by
    unfold prevRel at hpr
    cases hx : prevOcc (occVAt s v) p with
    | none => rw [hx] at hpr; cases hpr
    | some x => exact hasOpsV_of_occV (prevOcc_lt hx).2
  constructor
  · exact hw.hm
  · simp only [hw.hv]
    rw [map_set_nodup vs _ v _ hv hn]
    apply List.map_congr_left
    intro w _
    by_cases hwv : w = v
    · subst hwv; simp [hpr]
    · simp [hwv]
  · simp only [hw.hr]
    rw [map_set_nodup vs _ v _ hv hn]
    apply List.map_congr_left
    intro w _
    by_cases hwv : w = v
    · subst hwv; simp [hpr]
    · simp [hwv]
  · have h1 := filter_remove_one vs (fun w => hasOpsV s w && !fl w) v hn hv (by simp [hocc, hnf])
    have : vs.filter (fun w => hasOpsV s w && !(fl w || w == v))
        = vs.filter (fun w => (hasOpsV s w && !fl w) && !(w == v)) := by
      apply List.filter_congr
      intro w _
      cases hasOpsV s w <;> cases fl w <;> cases (w == v) <;> rfl
    rw [this]
    have := hw.hc
    simp only
    omega
  · intro w hw'
    simp only [Bool.or_eq_true, beq_iff_eq] at hw'
    cases hw' with
    | inl h => exact hw.hs w h
    | inr h => subst h; rw [hpr]; rfl

omit hn in
theorem WGS_all_of_zero {fl : Nat → Bool} {a : Cursor} (hw : WGS vs s p fl a) (h0 : a.unfilled = 0) :
    ∀ v, v ∈ vs → ∀ x, prevOcc (occVAt s v) p = some x → fl v = true := by
  intro v hv x hx
  have hc := hw.hc
  rw [h0] at hc
  have hnil : vs.filter (fun v => hasOpsV s v && !fl v) = [] :=
    List.length_eq_zero_iff.mp (Nat.le_zero.mp hc)
  have hocc := hasOpsV_of_occV (prevOcc_lt hx).2
  cases hf : fl v with
  | true => rfl
  | false =>
    have : v ∈ vs.filter (fun v => hasOpsV s v && !fl v) := by
      rw [List.mem_filter]; exact ⟨hv, by simp [hocc, hf]⟩
    rw [hnil] at this; cases this

omit hn in
/-- the per-variable tables of a finished walk are those of the restricted scan cursor -/
theorem WGS_final {fl : Nat → Bool} {a : Cursor} (hw : WGS vs s p fl a)
    (hall : ∀ v, v ∈ vs → ∀ x, prevOcc (occVAt s v) p = some x → fl v = true) :
    a.lastVars = vs.map (fun v => (prevRel s v p).map (·.p)) ∧
    a.lastRels = vs.map (fun v => (prevRel s v p).map (·.relv)) := by
  rw [hw.hv, hw.hr]
  constructor
  · apply List.map_congr_left
    intro v hv
    cases hf : fl v with
    | true => simp
    | false =>
      simp only [Bool.false_eq_true, if_false]
      unfold prevRel
      cases hx : prevOcc (occVAt s v) p with
      | none => rfl
      | some x => have := hall v hv x hx; rw [hf] at this; cases this
  · apply List.map_congr_left
    intro v hv
    cases hf : fl v with
    | true => simp
    | false =>
      simp only [Bool.false_eq_true, if_false]
      unfold prevRel
      cases hx : prevOcc (occVAt s v) p with
      | none => rfl
      | some x => have := hall v hv x hx; rw [hf] at this; cases this

end FillS

namespace FastOps

/-- the loop inside `fillF` at the node `q = prevOcc occAt r`, Varlist cursor -/
theorem fillF_WGS (nv : Nat) (nb : Option Nat) (vs : List Nat) (hn : vs.Nodup) (s : Slots) (p r q : Nat)
    (oq : Op) (A : Nat → Bool)
    (hwf : WF nv nb s) (hrp : r ≤ p) (hq : prevOcc (occAt s) r = some q) (hsq : slotAt s q = some oq)
    (a : Cursor) (hw : WGS vs s p (fun w => fil s p r w || A w) a) :
    WGS vs s p (fun w => fil s p q w || A w) (fillF q (canonNode s q oq) a).1 := by
  obtain ⟨_, hnodup, hlt, _⟩ := hwf q oq hsq
  rw [prevOcc_some_iff] at hq
  obtain ⟨hqr, hqocc, hgap⟩ := hq
  have hAs : ∀ w, A w = true → (prevRel s w p).isSome = true := by
    intro w hA; exact hw.hs w (by simp [hA])
  unfold fillF
  simp only []
  let I : List Nat → Cursor → Prop := fun D a' =>
    WGS vs s p (fun w => (fil s p r w || A w) || D.contains w) a'
  have hbase : I [] (if a.lastP.isNone then { a with lastP := some q } else a) := by
    have : WGS vs s p (fun w => fil s p r w || A w) (if a.lastP.isNone then { a with lastP := some q } else a) := by
      split
      · exact ⟨hw.hm, hw.hv, hw.hr, hw.hc, hw.hs⟩
      · exact hw
    exact WGS_congr vs s p (fun v _ => by simp) (fun v hv => hw.hs v (by simpa using hv)) this
  have hfold := fold_inv' I
    (fun (a : Cursor) (vr : Nat × Nat) =>
      match a.varToSubvar vr.1 with
      | some sub =>
        if (a.lastVar sub).isNone then
          { a with lastVars := a.lastVars.set sub (some q), lastRels := a.lastRels.set sub (some vr.2),
                   unfilled := a.unfilled - 1 }
        else a
      | none => a)
    (fun vr => vr.1) (fun vr => oq.vars[vr.2]? = some vr.1)
    (by
      intro D a' x hx hD hI
      have hxmem : x.1 ∈ oq.vars := List.mem_of_getElem? hx
      have hidx := idxOf_of_getElem? hnodup hx
      have hoccq : occVAt s x.1 q = true := occV_of_mem hsq hxmem
      obtain ⟨y, hy, hqy⟩ := prevOcc_ge_of_mem hoccq (by omega : q < p)
      by_cases hxv : x.1 ∈ vs
      · have hsub : a'.varToSubvar x.1 = some (vs.idxOf x.1) := by rw [hI.hm]; simp [hxv]
        simp only [hsub]
        have hln := WGS_lastVar vs s p hn hI x.1 hxv
        by_cases hfl : ((fil s p r x.1 || A x.1) || D.contains x.1) = true
        · rw [hfl] at hln
          simp only [Bool.not_true] at hln
          simp only [hln, Bool.false_eq_true, if_false]
          apply WGS_congr vs s p _ _ hI
          · intro w _
            by_cases hw' : w = x.1
            · subst hw'; rw [hfl]; simp
            · simp [hw']
          · intro w hw'
            by_cases hwx : w = x.1
            · subst hwx; exact hI.hs _ hfl
            · exact hI.hs w (by simpa [hwx] using hw')
        · have hfl' : ((fil s p r x.1 || A x.1) || D.contains x.1) = false := by simpa using hfl
          rw [hfl'] at hln
          simp only [Bool.not_false] at hln
          simp only [hln, if_true]
          have hfr : fil s p r x.1 = false := by
            cases h1 : fil s p r x.1 with
            | false => rfl
            | true => simp [h1] at hfl'
          have hyq : y = q := by
            unfold fil at hfr
            rw [hy] at hfr
            have hyr : ¬ r ≤ y := by simpa using hfr
            by_cases e : y = q
            · exact e
            · have := hgap y (by omega) (by omega)
              rw [occ_of_occV (prevOcc_lt hy).2] at this; cases this
          subst hyq
          have hpr : prevRel s x.1 p = some ⟨y, x.2⟩ := by
            unfold prevRel; rw [hy]; simp [relAt, hsq, hidx]
          have := WGS_fill vs s p hn hI x.1 hxv ⟨y, x.2⟩ hpr hfl'
          apply WGS_congr vs s p _ _ this
          · intro w _
            by_cases hw' : w = x.1
            · subst hw'; simp
            · simp [hw']
          · intro w hw'
            by_cases hwx : w = x.1
            · subst hwx; rw [hpr]; rfl
            · exact hI.hs w (by simpa [hwx] using hw')
      · -- a variable that is not listed: the cursor ignores it
        have hsub : a'.varToSubvar x.1 = none := by rw [hI.hm]; simp [hxv]
        simp only [hsub]
        apply WGS_congr vs s p _ _ hI
        · intro w hw
          have : ¬ w = x.1 := fun e => hxv (e ▸ hw)
          simp [this]
        · intro w hw'
          by_cases hwx : w = x.1
          · subst hwx
            unfold prevRel; rw [hy]; rfl
          · exact hI.hs w (by simpa [hwx] using hw'))
    oq.vars.zipIdx [] _ (zipIdx_getElem? oq.vars)
    (by rw [List.zipIdx_map_fst]; exact hnodup) (by simp) hbase
  rw [List.zipIdx_map_fst, List.append_nil] at hfold
  apply WGS_congr vs s p _ _ hfold
  · intro w _
    simp only [List.contains_reverse]
    unfold fil
    cases hx : prevOcc (occVAt s w) p with
    | none =>
      have hnm : w ∉ oq.vars := by
        intro hm
        obtain ⟨y, hy, _⟩ := prevOcc_ge_of_mem (occV_of_mem hsq hm) (by omega : q < p)
        rw [hx] at hy; cases hy
      simp [hnm]
    | some x =>
      have hxocc := occ_of_occV (prevOcc_lt hx).2
      by_cases hrx : r ≤ x
      · have : q ≤ x := by omega
        simp [hrx, this]
      · by_cases hqx : q ≤ x
        · have hxq : x = q := by
            by_cases e : x = q
            · exact e
            · have := hgap x (by omega) (by omega)
              rw [hxocc] at this; cases this
          subst hxq
          have hm : w ∈ oq.vars := mem_of_occV hsq (prevOcc_lt hx).2
          simp [hrx, hm]
        · have hnm : w ∉ oq.vars := by
            intro hm
            obtain ⟨y, hy, hqy⟩ := prevOcc_ge_of_mem (occV_of_mem hsq hm) (by omega : q < p)
            rw [hx] at hy
            have : x = y := Option.some.inj hy
            omega
          simp [hrx, hqx, hnm]
  · intro w hw'
    simp only [Bool.or_eq_true] at hw'
    cases hw' with
    | inl h =>
      unfold fil at h
      cases hx : prevOcc (occVAt s w) p with
      | none => rw [hx] at h; cases h
      | some x => unfold prevRel; rw [hx]; rfl
    | inr h => exact hAs w h


theorem fil_all_of_none_mem (s : Slots) (p r : Nat) (hr : prevOcc (occAt s) r = none) (A : Nat → Bool)
    (vs : List Nat) :
    ∀ v, v ∈ vs → ∀ x, prevOcc (occVAt s v) p = some x → (fil s p r v || A v) = true := by
  intro v _ x hx
  have hxocc := occ_of_occV (prevOcc_lt hx).2
  rw [prevOcc_none_iff] at hr
  have : r ≤ x := by
    by_cases h : r ≤ x
    · exact h
    · have := hr x (by omega); rw [hxocc] at this; cases this
  unfold fil
  simp [hx, this]

/-- the walk of `iter_ops_above_p`, Varlist cursor -/
theorem fillWalk_WGS (nv : Nat) (nb : Option Nat) (vs : List Nat) (hn : vs.Nodup) (s : Slots) (p : Nat)
    (hwf : WF nv nb s) (A : Nat → Bool) :
    ∀ (fuel r : Nat) (a : Cursor), r ≤ p → WGS vs s p (fun w => fil s p r w || A w) a →
      (∀ q, prevOcc (occAt s) r = some q → q < fuel) →
      ∃ fl, WGS vs s p fl (fillWalk (canon nv nb s) fuel (prevOcc (occAt s) r) a) ∧
        (∀ v, v ∈ vs → ∀ x, prevOcc (occVAt s v) p = some x → fl v = true) := by
  intro fuel
  induction fuel with
  | zero =>
    intro r a _ hw hf
    have hr : prevOcc (occAt s) r = none := by
      cases h : prevOcc (occAt s) r with
      | none => rfl
      | some q => have := hf q h; omega
    exact ⟨_, by simpa [fillWalk] using hw, fil_all_of_none_mem s p r hr A vs⟩
  | succ fuel ih =>
    intro r a hrp hw hf
    cases hr : prevOcc (occAt s) r with
    | none => exact ⟨_, by simpa [fillWalk] using hw, fil_all_of_none_mem s p r hr A vs⟩
    | some q =>
      obtain ⟨hqr, hqocc⟩ := prevOcc_lt hr
      obtain ⟨oq, hsq⟩ := occ_iff.mp hqocc
      simp only [fillWalk, getNode_canon, hsq, Option.map_some]
      have hstep := fillF_WGS nv nb vs hn s p r q oq A hwf hrp hr hsq a hw
      by_cases hcont : (fillF q (canonNode s q oq) a).2 = true
      · simp only [hcont, if_true]
        have hprev : (canonNode s q oq).previousP = prevOcc (occAt s) q := rfl
        rw [hprev]
        apply ih q _ (by omega) hstep
        intro q' hq'
        have := (prevOcc_lt hq').1
        have := hf q hr
        omega
      · simp only [hcont, Bool.false_eq_true, if_false]
        refine ⟨_, hstep, ?_⟩
        apply WGS_all_of_zero vs s p hstep
        have : (fillF q (canonNode s q oq) a).2 = decide ((fillF q (canonNode s q oq) a).1.unfilled > 0) := rfl
        rw [this] at hcont
        simpa using hcont

/-- the op sitting exactly at `p`, Varlist cursor -/
theorem fillAtP_WGS (nv : Nat) (nb : Option Nat) (vs : List Nat) (hn : vs.Nodup) (s : Slots) (p : Nat)
    (op : Op) (hwf : WF nv nb s)
    (hsp : slotAt s p = some op) (a : Cursor) (hw : WGS vs s p (fun _ => false) a) :
    ∃ A : Nat → Bool, WGS vs s p (fun w => fil s p p w || A w) (fillAtP (canonNode s p op) a).1 := by
  obtain ⟨_, hnodup, hlt, _⟩ := hwf p op hsp
  refine ⟨fun w => op.vars.reverse.contains w && (prevRel s w p).isSome, ?_⟩
  unfold fillAtP
  simp only [canonNode, zip_self_map]
  let I : List Nat → Cursor → Prop := fun D a' =>
    WGS vs s p (fun w => D.contains w && (prevRel s w p).isSome) a'
  have hbase : I [] a := WGS_congr vs s p (fun v _ => by simp) (fun v hv => by simp at hv) hw
  have hfold := fold_inv' I
    (fun (a : Cursor) (vp : Nat × Option PRel) =>
      match vp.2 with
      | none => a
      | some prel =>
        match a.varToSubvar vp.1 with
        | some sub =>
          if (a.lastVar sub).isNone then
            { a with unfilled := a.unfilled - 1, lastVars := a.lastVars.set sub (some prel.p),
                     lastRels := a.lastRels.set sub (some prel.relv) }
          else a
        | none => a)
    (fun vp => vp.1) (fun vp => vp.2 = prevRel s vp.1 p ∧ vp.1 ∈ op.vars)
    (by
      intro D a' x hx hD hI
      obtain ⟨hx2, hxmem⟩ := hx
      cases hpr : x.2 with
      | none =>
        simp only []
        apply WGS_congr vs s p _ _ hI
        · intro w _
          by_cases hw' : w = x.1
          · rw [hw', ← hx2, hpr]; simp [hD]
          · simp [hw']
        · intro w hw'
          simp only [Bool.and_eq_true] at hw'
          exact hw'.2
      | some prel =>
        simp only []
        have hprel : prevRel s x.1 p = some prel := by rw [← hx2, hpr]
        by_cases hxv : x.1 ∈ vs
        · have hsub : a'.varToSubvar x.1 = some (vs.idxOf x.1) := by rw [hI.hm]; simp [hxv]
          simp only [hsub]
          have hln := WGS_lastVar vs s p hn hI x.1 hxv
          have hflD : (D.contains x.1 && (prevRel s x.1 p).isSome) = false := by
            simp [hD]
          rw [hflD] at hln
          simp only [Bool.not_false] at hln
          simp only [hln, if_true]
          have := WGS_fill vs s p hn hI x.1 hxv prel hprel hflD
          apply WGS_congr vs s p _ _ this
          · intro w _
            by_cases hw' : w = x.1
            · subst hw'; simp [hprel]
            · simp [hw']
          · intro w hw'
            simp only [Bool.and_eq_true] at hw'
            exact hw'.2
        · have hsub : a'.varToSubvar x.1 = none := by rw [hI.hm]; simp [hxv]
          simp only [hsub]
          apply WGS_congr vs s p _ _ hI
          · intro w hw
            have : ¬ w = x.1 := fun e => hxv (e ▸ hw)
            simp [this]
          · intro w hw'
            simp only [Bool.and_eq_true] at hw'
            exact hw'.2)
    (op.vars.map (fun v => (v, prevRel s v p))) [] a
    (by
      intro x hx
      rw [List.mem_map] at hx
      obtain ⟨v, hv, e⟩ := hx
      subst e
      exact ⟨rfl, hv⟩)
    (by rw [List.map_map]; simpa [Function.comp_def] using hnodup) (by simp) hbase
  rw [List.map_map, List.append_nil] at hfold
  have hkeys : (List.map ((fun (vp : Nat × Option PRel) => vp.1) ∘ fun v => (v, prevRel s v p)) op.vars) = op.vars := by
    simp [Function.comp_def]
  rw [hkeys] at hfold
  have hfil : ∀ w, fil s p p w = false := by
    intro w
    unfold fil
    cases hx : prevOcc (occVAt s w) p with
    | none => rfl
    | some x => have := (prevOcc_lt hx).1; simp; omega
  have hfold' : WGS vs s p (fun w => op.vars.reverse.contains w && (prevRel s w p).isSome)
      { (List.foldl _ a (op.vars.map (fun v => (v, prevRel s v p)))) with
        lastP := prevOcc (occAt s) p } :=
    ⟨hfold.hm, hfold.hv, hfold.hr, hfold.hc, hfold.hs⟩
  apply WGS_congr vs s p _ _ hfold'
  · intro w _; simp [hfil]
  · intro w hw'
    simp only [hfil, Bool.false_or, Bool.and_eq_true] at hw'
    exact hw'.2

end FastOps

/-- a correct Varlist cursor at `p` (table representation and `unfilled` left open) -/
structure SubCur (a : Cursor) (vs : List Nat) (s : Slots) (p : Nat) : Prop where
  hP : a.lastP = prevOcc (occAt s) p
  hm : ∀ v, a.varToSubvar v = if v ∈ vs then some (vs.idxOf v) else none
  hv : a.lastVars = vs.map (fun v => (prevRel s v p).map (·.p))
  hr : a.lastRels = vs.map (fun v => (prevRel s v p).map (·.relv))

namespace FastOps

/-- `fill_args_at_p` from any EMPTY Varlist cursor whose counter dominates the number of listed
variables with ops (that is what `get_empty_args(Varlist)` / `get_empty_args(Args)` provide).
`hdom`: the documented boundary of the non-hint fill — some listed variable has an op, or nothing is
below `p` (otherwise the early exit leaves `last_p = None`, probe `varlist_nohint`). -/
theorem fillArgsAtP_sub (nv : Nat) (nb : Option Nat) (vs : List Nat) (hn : vs.Nodup) (s : Slots) (p : Nat)
    (hwf : WF nv nb s) (a0 : Cursor) (h0 : WGS vs s p (fun _ => false) a0) (hlp0 : a0.lastP = none)
    (hdom : a0.unfilled = 0 → prevOcc (occAt s) p = none) :
    SubCur ((canon nv nb s).fillArgsAtP p a0) vs s p := by
  have hW : ∃ fl, WGS vs s p fl ((canon nv nb s).fillArgsAtP p a0) ∧
      (∀ v, v ∈ vs → ∀ x, prevOcc (occVAt s v) p = some x → fl v = true) := by
    unfold fillArgsAtP
    by_cases hu : a0.unfilled > 0
    · simp only [hu, if_true, getNode_canon]
      have hfp : ∀ w, fil s p p w = false := by
        intro w
        unfold fil
        cases hx : prevOcc (occVAt s w) p with
        | none => rfl
        | some x => have := (prevOcc_lt hx).1; simp; omega
      cases hsp : slotAt s p with
      | none =>
        simp only [Option.map_none]
        have hs : scanDown (canon nv nb s) p = prevOcc (occAt s) p := by
          unfold scanDown
          apply prevOcc_congr
          intro k; rw [← occ_abs, abs_canon]
        rw [hs]
        apply fillWalk_WGS nv nb vs hn s p hwf (fun _ => false) (p + 1) p _ (Nat.le_refl p)
        · exact WGS_congr vs s p (fun v _ => by simp [hfp]) (fun v hv => by simp [hfp] at hv) h0
        · intro q hq; have := (prevOcc_lt hq).1; omega
      | some op =>
        simp only [Option.map_some]
        obtain ⟨A, hA⟩ := fillAtP_WGS nv nb vs hn s p op hwf hsp _ h0
        by_cases hcont : (fillAtP (canonNode s p op) a0).2 = true
        · simp only [hcont, if_true]
          have hprev : (canonNode s p op).previousP = prevOcc (occAt s) p := rfl
          rw [hprev]
          apply fillWalk_WGS nv nb vs hn s p hwf A (p + 1) p _ (Nat.le_refl p) hA
          intro q hq; have := (prevOcc_lt hq).1; omega
        · simp only [hcont, Bool.false_eq_true, if_false]
          refine ⟨_, hA, ?_⟩
          apply WGS_all_of_zero vs s p hA
          have : (fillAtP (canonNode s p op) a0).2
              = decide ((fillAtP (canonNode s p op) a0).1.unfilled > 0) := rfl
          rw [this] at hcont
          simpa using hcont
    · simp only [hu, if_false]
      exact ⟨_, h0, WGS_all_of_zero vs s p h0 (by omega)⟩
  obtain ⟨fl, hfl, hall⟩ := hW
  have hG : GInv nb (canon nv nb s) := by unfold GInv; rw [abs_canon, canon_g]
  have hlp := fillArgsAtP_lastP hG p a0 hlp0 (by rw [abs_canon]; exact hdom)
  rw [abs_canon] at hlp
  obtain ⟨e1, e2⟩ := WGS_final vs s p hfl hall
  exact ⟨hlp, hfl.hm, e1, e2⟩

/-- `get_empty_args(SubvarAccess::Varlist(vars))` on the canonical container -/
theorem emptyArgsVarlist_WGS (nv : Nat) (nb : Option Nat) (vs : List Nat) (hn : vs.Nodup)
    (hlt : ∀ v ∈ vs, v < nv) (s : Slots) (p : Nat) :
    WGS vs s p (fun _ => false) ((canon nv nb s).getEmptyArgsVarlist vs) ∧
    ((canon nv nb s).getEmptyArgsVarlist vs).lastP = none ∧
    ((canon nv nb s).getEmptyArgsVarlist vs).unfilled = (vs.filter (hasOpsV s)).length := by
  have hcount : (vs.filter (fun v => ((canon nv nb s).varEnd v).isSome)).length
      = (vs.filter (hasOpsV s)).length := by
    congr 1
    apply List.filter_congr
    intro v hv
    rw [varEnd_canon nv nb s v (hlt v hv)]
    simp only [hasOpsV, canonVarEnd, firstRel, lastRel]
    have := @first_some_iff_last_some (occVAt s v) s.length
    cases h1 : firstOcc (occVAt s v) s.length <;> cases h2 : lastOcc (occVAt s v) s.length <;>
      simp [h1, h2, zipOpt] at this ⊢
  refine ⟨?_, rfl, hcount⟩
  constructor
  · intro v
    have := mkTable_get nv vs hn hlt v
    simpa [Cursor.varToSubvar, getEmptyArgsVarlist, getNvars_canon, mkTable] using this
  · simp only [getEmptyArgsVarlist, Bool.false_eq_true, if_false]
    apply List.ext_getElem?
    intro i
    simp only [List.getElem?_replicate, List.getElem?_map]
    by_cases hi : i < vs.length
    · simp [hi]
    · simp [hi, List.getElem?_eq_none (Nat.le_of_not_lt hi)]
  · simp only [getEmptyArgsVarlist, Bool.false_eq_true, if_false]
    apply List.ext_getElem?
    intro i
    simp only [List.getElem?_replicate, List.getElem?_map]
    by_cases hi : i < vs.length
    · simp [hi]
    · simp [hi, List.getElem?_eq_none (Nat.le_of_not_lt hi)]
  · simp only [Bool.not_false, Bool.and_true]
    rw [← hcount]
    exact Nat.le_refl _
  · intro v hv; cases hv

end FastOps
end Qmc
