import QmcProofs.LawTree
import QmcProofs.LoopKernelMass

/-!
# The directed-loop update as a probability tree: refinement and law = truncated loop kernel

Closes item (1) of "Kernel level" in design_notes/C04.md: the link between the EXECUTABLE loop model
(`Qmc.loopUpdate`, QmcModel/Loop.lean; `StepLoop.loopUpdate` is its verbatim copy) and the path-sum kernel
`LoopC.loopKn w n` (QmcProofs/LoopKernel.lean).

* Draws (same style as `Draw.hbPick`): `Draw.exitPick ws` — `gen_range(0.0..Σws)` + the `try_fold` (`pickIdx`) of
  `loop_body`, with the flag test and the margin note of the model; idealised (continuous-uniform) weight
  `ws[j]/Σws` on exit `j`, no mass unless `Σws > 0` (else `gen_range` panics) and all entries `≥ 0`.
  `Draw.stdBool` — `gen::<bool>()` of the start (side of the leg): `1/2`, `1/2`. `Draw.short` — fuel exhausted
  (the model raises `short`): no mass. The start slot is the existing `Draw.pick (Σk)`.
* `loopIterT`, `loopUpdateT w fuel c : PT Config` — tree twins of `loopIter`, `loopUpdate`.
  `loopIter_refines` (same fuel, every script, whole `RS`), `loopUpdate_refines`
  (`rs.script.length + 1 ≤ fuel`: the model's own fuel `script.length + 1` is never exhausted, any larger
  fuel gives the same run — `loopIter_fuel`).
* `law_loopIterT`, **`law_loopUpdateT : law (loopUpdateT w n c) c' = loopKn w n c c'`** for every configuration
  (`w ≥ 0`). The walks that have not closed after `n` visits end in `Draw.short` and carry no mass:
  `law_loopUpdateT_mass : Σ_{c' ∈ S} law (loopUpdateT w n c) c' = 1 − openMass w n c` on legal `c`, `S ⊇ reach n c`.
-/

open Finset

namespace Qmc.Law
open Qmc Qmc.LoopC Qmc.LoopC.Mass

/-! ### the draws -/

/-- the fuel of the trampoline is exhausted: the model raises `short` (the real code has no fuel) -/
def Draw.short : Draw where
  run := fun rs => (0, { rs with short := true })
  n := 0
  w := fun _ => 0

/-- `gen::<bool>()` (`RS.genStdBool`) followed by the model's flag test; outcome 1 = `true`, 0 = `false`,
2 = the draw was flagged (script exhausted): no mass -/
def Draw.stdBool : Draw where
  run := fun rs =>
    ((if ((rs.genStdBool).2.panicked || (rs.genStdBool).2.short) then 2
      else if (rs.genStdBool).1 then 1 else 0), (rs.genStdBool).2)
  n := 2
  w := fun _ => 1 / 2

/-- the weighted exit pick of `loop_body`: `choice = gen_range(0.0..Σws)`, flag test, `try_fold` over the
weights (`pickIdx`), margin note — outcome `j < ws.length` = exit `j`; outcome `ws.length` = the visit
stopped (flagged draw, or the fold ran off the end: `unwrap_err` panics). Idealised weights: `ws[j]/Σws`
(continuous-uniform `choice`: `exit_pick_interval` gives the interval of length `ws[j]`); no mass unless
`Σws > 0` and all entries are `≥ 0`. -/
def Draw.exitPick (ws : List Rat) : Draw where
  run := fun rs =>
    if ((rs.genRangeF (sumR ws)).2.panicked || (rs.genRangeF (sumR ws)).2.short) then
      (ws.length, (rs.genRangeF (sumR ws)).2)
    else
      match pickIdx (rs.genRangeF (sumR ws)).1 ws with
      | none => (ws.length, { (rs.genRangeF (sumR ws)).2 with panicked := true })
      | some j =>
        (j, if (rs.genRangeF (sumR ws)).1 = 0 then (rs.genRangeF (sumR ws)).2
            else (rs.genRangeF (sumR ws)).2.noteMargin
              (pickMargin (rs.genRangeF (sumR ws)).1 ws / sumR ws))
  n := ws.length
  w := fun j => if 0 < sumR ws ∧ ∀ x ∈ ws, 0 ≤ x then ws.getD j 0 / sumR ws else 0

/-! ### the trees -/

/-- what follows exit `j` of the visit of `op` at `pos` (twin of the tail of `loopBody`) -/
def afterExitT (init : Nat × Leg) (pos : Nat) (ent : Leg) (c : Config) (op : Op)
    (next : Nat → Leg → Config → PT Config) (j : Nat) : PT Config :=
  let ex := (legsOf op.vars.length).getD j default
  let op' := passThrough op ent ex
  let slots' := c.slots.set pos (some op')
  if (pos, ex) = init then PT.ret ⟨c.state, slots'⟩ else
  match moveOn c.slots c.state pos op' ex with
  | (state', some (p', r')) =>
    if (p', (⟨r', !ex.out⟩ : Leg)) = init then PT.ret ⟨state', slots'⟩
    else next p' ⟨r', !ex.out⟩ ⟨state', slots'⟩
  | (state', none) => PT.panic (PT.ret ⟨state', slots'⟩)

/-- tree twin of `loopBody`, the continuation of the walk as a parameter -/
def loopBodyT (w : WFun) (init : Nat × Leg) (pos : Nat) (ent : Leg) (c : Config)
    (next : Nat → Leg → Config → PT Config) : PT Config :=
  match c.slots[pos]? with
  | some (some op) =>
    PT.node (Draw.exitPick (exitWeights (w op.bond) (op.ins, op.outs) ent op.vars.length)) (fun j =>
      if (exitWeights (w op.bond) (op.ins, op.outs) ent op.vars.length).length ≤ j then PT.ret c
      else afterExitT init pos ent c op next j)
  | _ => PT.panic (PT.ret c)

/-- tree twin of `loopIter` -/
def loopIterT (w : WFun) (init : Nat × Leg) : Nat → Nat → Leg → Config → PT Config
  | 0, _, _, c => PT.node Draw.short (fun _ => PT.ret c)
  | fuel + 1, pos, ent, c => loopBodyT w init pos ent c (fun p e c1 => loopIterT w init fuel p e c1)

/-- tree twin of `loopUpdate` (`make_loop_update_with_rng(None, w, state, rng)`) with a fixed bound `fuel` on
the number of vertex visits -/
def loopUpdateT (w : WFun) (fuel : Nat) (c : Config) : PT Config :=
  if countOps c.slots = 0 then PT.ret c else
  PT.pick (totalVars c.slots) (fun a =>
    match pickLeg c.slots 0 a with
    | none => PT.panic (PT.ret c)
    | some (p, b) =>
      PT.node Draw.stdBool (fun i =>
        if 2 ≤ i then PT.ret c
        else loopIterT w (p, ⟨b, !(decide (i = 1))⟩) fuel p ⟨b, !(decide (i = 1))⟩ c))

/-! ### refinement: the executable model runs the tree -/

/-- a `LoopSt` from a tree result -/
def toLoopSt (r : Config × RS) : LoopSt := ⟨r.1.state, r.1.slots, r.2⟩

theorem run_exitPick_flagged (ws : List Rat) (rs : RS)
    (h : ((rs.genRangeF (sumR ws)).2.panicked || (rs.genRangeF (sumR ws)).2.short) = true) :
    (Draw.exitPick ws).run rs = (ws.length, (rs.genRangeF (sumR ws)).2) := by
  simp only [Draw.exitPick, h, if_true]

theorem run_exitPick_none (ws : List Rat) (rs : RS)
    (h : ¬ ((rs.genRangeF (sumR ws)).2.panicked || (rs.genRangeF (sumR ws)).2.short) = true)
    (hp : pickIdx (rs.genRangeF (sumR ws)).1 ws = none) :
    (Draw.exitPick ws).run rs = (ws.length, { (rs.genRangeF (sumR ws)).2 with panicked := true }) := by
  simp only [Draw.exitPick, h, if_false, hp, Bool.false_eq_true]

theorem run_exitPick_some (ws : List Rat) (rs : RS) (j : Nat)
    (h : ¬ ((rs.genRangeF (sumR ws)).2.panicked || (rs.genRangeF (sumR ws)).2.short) = true)
    (hp : pickIdx (rs.genRangeF (sumR ws)).1 ws = some j) :
    (Draw.exitPick ws).run rs =
      (j, if (rs.genRangeF (sumR ws)).1 = 0 then (rs.genRangeF (sumR ws)).2
          else (rs.genRangeF (sumR ws)).2.noteMargin
            (pickMargin (rs.genRangeF (sumR ws)).1 ws / sumR ws)) := by
  simp only [Draw.exitPick, h, if_false, hp, Bool.false_eq_true]

/-- **`loopIter` runs `loopIterT`** with the same fuel, on every script: configuration and the whole `RS` -/
theorem loopIter_refines (w : WFun) (init : Nat × Leg) (fuel pos : Nat) (ent : Leg) (s : LoopSt) :
    loopIter w init fuel pos ent s =
      toLoopSt ((loopIterT w init fuel pos ent ⟨s.state, s.slots⟩).run s.rs) := by
  induction fuel generalizing pos ent s with
  | zero => rfl
  | succ f ih =>
    unfold loopIter loopIterT loopBodyT loopBody
    cases hs : s.slots[pos]? with
    | none => rfl
    | some y =>
      cases y with
      | none => rfl
      | some op =>
        simp only
        generalize hws : exitWeights (w op.bond) (op.ins, op.outs) ent op.vars.length = ws
        rw [PT.run_node]
        by_cases hfl : ((s.rs.genRangeF (sumR ws)).2.panicked || (s.rs.genRangeF (sumR ws)).2.short) = true
        · rw [run_exitPick_flagged ws s.rs hfl]
          simp only [hfl, if_true, le_refl, PT.run_ret]
          rfl
        · cases hp : pickIdx (s.rs.genRangeF (sumR ws)).1 ws with
          | none =>
            rw [run_exitPick_none ws s.rs hfl hp]
            simp only [hfl, if_false, le_refl, if_true, PT.run_ret, Bool.false_eq_true]
            rfl
          | some j =>
            have hj : ¬ ws.length ≤ j := not_le.mpr (pickIdx_lt hp)
            rw [run_exitPick_some ws s.rs j hfl hp]
            simp only [hfl, if_false, hj, Bool.false_eq_true]
            unfold afterExitT
            simp only
            by_cases hi : (pos, (legsOf op.vars.length).getD j default) = init
            · simp only [hi, if_true, PT.run_ret]; rfl
            · simp only [hi, if_false]
              rcases hm : moveOn s.slots s.state pos
                  (passThrough op ent ((legsOf op.vars.length).getD j default))
                  ((legsOf op.vars.length).getD j default) with ⟨st', _ | ⟨p', r'⟩⟩
              · rfl
              · simp only
                by_cases h2 : (p', (⟨r', !((legsOf op.vars.length).getD j default).out⟩ : Leg)) = init
                · simp only [h2, if_true, PT.run_ret]; rfl
                · simp only [h2, if_false]
                  exact ih p' _ _

/-! ### the script only shrinks; the model's fuel is never exhausted -/

theorem next_script_le (s : RS) : s.next.2.script.length ≤ s.script.length := by
  unfold RS.next
  split
  · rename_i h; simp [h]
  · rename_i w t h; simp [h]

/-- an unflagged `next` consumed a word -/
theorem next_script_lt (s : RS) (h : s.next.2.short = false) :
    s.next.2.script.length < s.script.length := by
  unfold RS.next at h ⊢
  split
  · rename_i hs; rw [hs] at h; simp at h
  · rename_i w t hs; simp [hs]

theorem noteMargin_script (s : RS) (m : Rat) : (s.noteMargin m).script = s.script := by
  unfold RS.noteMargin
  simp only
  split <;> split <;> rfl

theorem genRangeLoop_script_le (range zone fuel : Nat) (s : RS) :
    (RS.genRangeLoop range zone fuel s).2.script.length ≤ s.script.length := by
  induction fuel generalizing s with
  | zero => exact le_refl _
  | succ f ih =>
    unfold RS.genRangeLoop
    simp only
    split
    · exact next_script_le s
    · split
      · exact next_script_le s
      · exact le_trans (ih _) (next_script_le s)

theorem genRange_script_le (s : RS) (n : Nat) : (s.genRange n).2.script.length ≤ s.script.length := by
  unfold RS.genRange
  split
  · exact le_refl _
  · exact genRangeLoop_script_le _ _ _ _

theorem genStdBool_script_le (s : RS) : (s.genStdBool).2.script.length ≤ s.script.length := by
  unfold RS.genStdBool RS.next32
  exact next_script_le s

/-- an unflagged real draw consumed a word -/
theorem genRangeF_script_lt (s : RS) (t : Rat)
    (h : ¬ ((s.genRangeF t).2.panicked || (s.genRangeF t).2.short) = true) :
    (s.genRangeF t).2.script.length < s.script.length := by
  unfold RS.genRangeF at h ⊢
  split
  · rename_i ht; rw [if_pos ht] at h; simp at h
  · rename_i ht
    rw [if_neg ht] at h
    simp only at h ⊢
    apply next_script_lt
    cases hh : s.next.2.short with
    | false => rfl
    | true => rw [hh] at h; simp at h

/-- a visit after which the walk continues consumed a word of the script -/
theorem loopBody_some_script (w : WFun) (init : Nat × Leg) (pos : Nat) (ent : Leg) (s : LoopSt)
    (q : Nat × Leg) (h : (loopBody w init pos ent s).2 = some q) :
    (loopBody w init pos ent s).1.rs.script.length < s.rs.script.length := by
  unfold loopBody at h ⊢
  cases hs : s.slots[pos]? with
  | none => rw [hs] at h; cases h
  | some y =>
    cases y with
    | none => rw [hs] at h; cases h
    | some op =>
      rw [hs] at h
      simp only at h ⊢
      generalize hws : exitWeights (w op.bond) (op.ins, op.outs) ent op.vars.length = ws at h ⊢
      by_cases hfl : ((s.rs.genRangeF (sumR ws)).2.panicked || (s.rs.genRangeF (sumR ws)).2.short) = true
      · rw [if_pos hfl] at h; cases h
      · have hlt := genRangeF_script_lt s.rs (sumR ws) hfl
        rw [if_neg hfl] at h ⊢
        cases hp : pickIdx (s.rs.genRangeF (sumR ws)).1 ws with
        | none => rw [hp] at h; cases h
        | some j =>
          rw [hp] at h
          simp only at h ⊢
          have hscr : (if (s.rs.genRangeF (sumR ws)).1 = 0 then (s.rs.genRangeF (sumR ws)).2
              else (s.rs.genRangeF (sumR ws)).2.noteMargin
                (pickMargin (s.rs.genRangeF (sumR ws)).1 ws / sumR ws)).script =
              (s.rs.genRangeF (sumR ws)).2.script := by
            split
            · rfl
            · exact noteMargin_script _ _
          by_cases hi : (pos, (legsOf op.vars.length).getD j default) = init
          · rw [if_pos hi] at h; cases h
          · rw [if_neg hi] at h ⊢
            rcases hm : moveOn s.slots s.state pos
                (passThrough op ent ((legsOf op.vars.length).getD j default))
                ((legsOf op.vars.length).getD j default) with ⟨st', _ | ⟨p', r'⟩⟩
            · rw [hm] at h; cases h
            · rw [hm] at h
              simp only at h ⊢
              by_cases h2 : (p', (⟨r', !((legsOf op.vars.length).getD j default).out⟩ : Leg)) = init
              · rw [if_pos h2] at h; cases h
              · rw [if_neg h2]
                simp only
                rw [hscr]; exact hlt

/-- **the fuel is irrelevant once it exceeds the script length**: the model's own fuel
`script.length + 1` is never exhausted, and any larger fuel gives the same run -/
theorem loopIter_fuel (w : WFun) (init : Nat × Leg) (f1 f2 pos : Nat) (ent : Leg) (s : LoopSt)
    (h1 : s.rs.script.length < f1) (h2 : s.rs.script.length < f2) :
    loopIter w init f1 pos ent s = loopIter w init f2 pos ent s := by
  induction f1 generalizing f2 pos ent s with
  | zero => exact absurd h1 (Nat.not_lt_zero _)
  | succ f ih =>
    cases f2 with
    | zero => exact absurd h2 (Nat.not_lt_zero _)
    | succ g =>
      unfold loopIter
      rcases hb : loopBody w init pos ent s with ⟨s', _ | ⟨p, e⟩⟩
      · rfl
      · simp only
        have hlt := loopBody_some_script w init pos ent s (p, e) (by rw [hb])
        rw [hb] at hlt
        simp only at hlt
        exact ih g p e s' (by omega) (by omega)

/-- **`loopUpdate` runs `loopUpdateT`** on every script, for every fuel above the script length
(configuration and the whole `RS`: draws, margin, `short`, `panicked`) -/
theorem loopUpdate_refines (w : WFun) (fuel : Nat) (c : Config) (rs : RS)
    (hf : rs.script.length + 1 ≤ fuel) : loopUpdate w c rs = (loopUpdateT w fuel c).run rs := by
  unfold loopUpdate loopUpdateT loopStart
  by_cases h0 : countOps c.slots = 0
  · rw [if_pos h0, if_pos h0]; rfl
  · rw [if_neg h0, if_neg h0, PT.run_pick]
    simp only
    have hl1 := genRange_script_le rs (totalVars c.slots)
    generalize rs.genRange (totalVars c.slots) = r1 at hl1 ⊢
    cases hpk : pickLeg c.slots 0 r1.1 with
    | none => rfl
    | some q =>
      obtain ⟨p, b⟩ := q
      simp only
      rw [PT.run_node]
      have hl2 := genStdBool_script_le r1.2
      by_cases hfl : (r1.2.genStdBool.2.panicked || r1.2.genStdBool.2.short) = true
      · simp only [Draw.stdBool, hfl, if_true, le_refl, PT.run_ret]
      · simp only [Draw.stdBool, hfl, if_false, Bool.false_eq_true]
        cases hb : r1.2.genStdBool.1 with
        | true =>
          simp only [if_true, show ¬ (2 ≤ 1) by decide, if_false, decide_true, Bool.not_true]
          rw [loopIter_fuel w _ _ fuel p _ _ (by simp only; omega) (by simp only; omega),
            loopIter_refines]
          rfl
        | false =>
          simp only [Bool.false_eq_true, if_false, show ¬ (2 ≤ 0) by decide, zero_ne_one, decide_false,
            Bool.not_false]
          rw [loopIter_fuel w _ _ fuel p _ _ (by simp only; omega) (by simp only; omega),
            loopIter_refines]
          rfl

/-! ### law of the tree = truncated loop kernel -/

theorem list_sum_map_range {α : Type} [Inhabited α] (l : List α) (f : α → Rat) :
    (l.map f).sum = ∑ j ∈ Finset.range l.length, f (l.getD j default) := by
  induction l with
  | nil => simp
  | cons a t ih =>
    rw [List.map_cons, List.sum_cons, List.length_cons, Finset.sum_range_succ', ih]
    simp only [List.getD_cons_succ, List.getD_cons_zero]
    ring

theorem list_range_sum (n : Nat) (f : Nat → Rat) :
    ((List.range n).map f).sum = ∑ i ∈ Finset.range n, f i := by
  induction n with
  | zero => simp
  | succ n ih =>
    rw [List.range_succ, List.map_append, List.sum_append, ih, Finset.sum_range_succ]
    simp

/-- the idealised weight of exit `j` is `exitProb` (for non-negative weights also on a vertex of total
weight 0: both sides are 0) -/
theorem exitPick_w (W : List Bool → List Bool → Rat) (hW : ∀ a b, 0 ≤ W a b)
    (io : List Bool × List Bool) (ent : Leg) (k j : Nat) (hj : j < (legsOf k).length) :
    (Draw.exitPick (exitWeights W io ent k)).w j =
      exitProb W io ent ((legsOf k).getD j default) k := by
  have hnn : ∀ x ∈ exitWeights W io ent k, 0 ≤ x := by
    intro x hx
    obtain ⟨l, _, rfl⟩ := List.mem_map.mp hx
    exact hW _ _
  have hget : (exitWeights W io ent k).getD j 0 = exitWeight W io ent ((legsOf k).getD j default) := by
    unfold exitWeights
    rw [List.getD_eq_getElem?_getD, List.getD_eq_getElem?_getD, List.getElem?_map,
      List.getElem?_eq_getElem hj]
    rfl
  show (if 0 < sumR (exitWeights W io ent k) ∧ ∀ x ∈ exitWeights W io ent k, 0 ≤ x then
      (exitWeights W io ent k).getD j 0 / sumR (exitWeights W io ent k) else 0) = _
  unfold exitProb
  rw [hget]
  by_cases hpos : 0 < sumR (exitWeights W io ent k)
  · rw [if_pos ⟨hpos, hnn⟩]
  · rw [if_neg (fun h => hpos h.1)]
    have h0 : sumR (exitWeights W io ent k) = 0 :=
      le_antisymm (not_lt.mp hpos) (sumR_nonneg _ hnn)
    rw [h0, div_zero]

/-- the continuation after exit `ex`, in terms of the exit-driven step `stepEx` -/
theorem law_afterExitT (init : Nat × Leg) (pos : Nat) (ent : Leg) (c : Config) (op : Op)
    (hop : c.slots[pos]? = some (some op)) (next : Nat → Leg → Config → PT Config) (j : Nat) (x : Config) :
    PT.law (afterExitT init pos ent c op next j) x =
      match stepEx init pos ent c ((legsOf op.vars.length).getD j default) with
      | some (c', none) => if x = c' then 1 else 0
      | some (c1, some (p, e)) => PT.law (next p e c1) x
      | none => 0 := by
  unfold afterExitT stepEx
  simp only [hop]
  by_cases hi : (pos, (legsOf op.vars.length).getD j default) = init
  · simp only [hi, if_true, PT.law_ret]
  · simp only [hi, if_false]
    rcases hm : moveOn c.slots c.state pos
        (passThrough op ent ((legsOf op.vars.length).getD j default))
        ((legsOf op.vars.length).getD j default) with ⟨st', _ | ⟨p', r'⟩⟩
    · simp only [PT.law_panic]
    · simp only
      by_cases h2 : (p', (⟨r', !((legsOf op.vars.length).getD j default).out⟩ : Leg)) = init
      · simp only [h2, if_true, PT.law_ret]
      · simp only [h2, if_false]

/-- **law of the walk tree = expectation over the closed walks** (`walkVal` of the indicator): every
configuration, every head -/
theorem law_loopIterT (w : WFun) (hW : ∀ b i o, 0 ≤ w b i o) (init : Nat × Leg) (n pos : Nat) (ent : Leg)
    (c x : Config) :
    PT.law (loopIterT w init n pos ent c) x =
      walkVal w (fun y => if x = y then 1 else 0) init n pos ent c := by
  induction n generalizing pos ent c with
  | zero =>
    rw [walkVal_zero]
    unfold loopIterT
    rw [PT.law_node]
    simp [Draw.short]
  | succ n ih =>
    unfold loopIterT loopBodyT
    by_cases hocc : ∃ op, c.slots[pos]? = some (some op)
    · obtain ⟨op, hop⟩ := hocc
      rw [walkVal_succ w _ init n pos ent c op hop]
      simp only [hop]
      rw [PT.law_node, list_sum_map_range]
      have hlen : (exitWeights (w op.bond) (op.ins, op.outs) ent op.vars.length).length =
          (legsOf op.vars.length).length := by
        unfold exitWeights; rw [List.length_map]
      show ∑ j ∈ Finset.range (exitWeights (w op.bond) (op.ins, op.outs) ent op.vars.length).length, _ = _
      rw [hlen]
      apply Finset.sum_congr rfl
      intro j hj
      have hj' : j < (legsOf op.vars.length).length := Finset.mem_range.mp hj
      rw [exitPick_w (w op.bond) (hW _) (op.ins, op.outs) ent op.vars.length j hj',
        if_neg (not_le.mpr hj'), law_afterExitT init pos ent c op hop]
      congr 1
      rcases stepEx init pos ent c ((legsOf op.vars.length).getD j default) with _ | ⟨c1, _ | ⟨p, e⟩⟩
      · rfl
      · rfl
      · exact ih p e c1
    · have hno : ∀ op, c.slots[pos]? ≠ some (some op) := fun op h => hocc ⟨op, h⟩
      rw [walkVal_succ_none w _ init n pos ent c hno]
      cases hs : c.slots[pos]? with
      | none => simp only [PT.law_panic]
      | some y =>
        cases y with
        | none => simp only [PT.law_panic]
        | some op => exact absurd hs (hno op)

/-- **law of the executable loop update (as a tree with `n` visits of fuel) = the truncated loop kernel**
`loopKn w n`, for every configuration; walks that need more than `n` visits end in `Draw.short` and carry
no mass -/
theorem law_loopUpdateT (w : WFun) (hW : ∀ b i o, 0 ≤ w b i o) (n : Nat) (c c' : Config) :
    PT.law (loopUpdateT w n c) c' = loopKn w n c c' := by
  have hφ : (fun y : Config => if y = c' then (1 : Rat) else 0) = fun y => if c' = y then 1 else 0 := by
    funext y
    by_cases h : y = c'
    · rw [if_pos h, if_pos h.symm]
    · rw [if_neg h, if_neg (fun e => h e.symm)]
  rw [loopKn_eq_rowVal, hφ]
  unfold loopUpdateT rowVal
  by_cases h0 : countOps c.slots = 0
  · rw [if_pos h0, if_pos h0, PT.law_ret]
  · rw [if_neg h0, if_neg h0, PT.law_pick]
    unfold startLegs
    rw [sum_map_flatMap, list_range_sum]
    apply Finset.sum_congr rfl
    intro a ha
    obtain ⟨⟨p, b⟩, hq⟩ := pickLeg_total c.slots 0 a (Finset.mem_range.mp ha)
    simp only [hq]
    rw [PT.law_node]
    simp only [Draw.stdBool, Finset.sum_range_succ, Finset.sum_range_zero, zero_add,
      show ¬ (2 ≤ 0) by decide, show ¬ (2 ≤ 1) by decide, if_false, zero_ne_one, decide_false,
      decide_true, Bool.not_false, Bool.not_true, List.map_cons, List.map_nil, List.sum_cons, List.sum_nil,
      add_zero]
    rw [law_loopIterT w hW, law_loopIterT w hW]
    unfold legProb
    ring

/-- **the mass of the tree**: on a configuration with positive stored matrix elements the idealised
probability that the tree with `n` visits of fuel returns a closed loop is `1 − openMass w n c` — the open-walk
mass is exactly the mass of the `short` outcomes -/
theorem law_loopUpdateT_mass (w : WFun) (hW : ∀ b i o, 0 ≤ w b i o) (n : Nat) (c : Config)
    (hl : LegalSlots w c.slots) (hT : countOps c.slots ≠ 0 → totalVars c.slots ≠ 0)
    (S : Finset Config) (hS : reach n c ⊆ S) :
    ∑ c' ∈ S, PT.law (loopUpdateT w n c) c' = 1 - openMass w n c := by
  have h1 : ∑ c' ∈ S, PT.law (loopUpdateT w n c) c' = ∑ c' ∈ S, loopKn w n c c' :=
    Finset.sum_congr rfl (fun c' _ => law_loopUpdateT w hW n c c')
  rw [h1, sum_loopKn_reach w n c S hS]
  have := rowMass_add_open w hW n c hl hT
  linarith

end Qmc.Law
