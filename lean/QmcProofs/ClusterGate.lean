/-
C09 helper: the gate of the generic sampler (`Qmc::cluster_update` refuses, `timestep` skips the
cluster update, as soon as ANY registered interaction is not classified symmetric under the global
spin flip), for every order of the `make_*interaction*` calls. For `Qmc` this gate is how C09's last
clause ("clusters holding a symmetry-breaking op are never flipped") is implemented.
Same statement as `Qmc.C04.cluster_gate` (QmcProps/C04.lean), re-derived here from the flag lemmas of
QmcProofs/Generic.lean so that C09's check does not depend on the rest of C04's file.
What "classified symmetric" / "constant" mean for the matrices is C16 (`sym_full_iff`,
`sym_diag_iff`, `isConstant_iff`).
-/
import QmcProofs.Generic

namespace Qmc

/-- samplers reachable through the public interface (flags part): any sequence, in any order, of
`add_interaction` / `make_*interaction*` calls and setter calls -/
inductive GateReach : GQmc → Prop
  | init (d : Bool) : GateReach (GQmc.init d)
  | add {q q' : GQmc} {i : Interaction} : GateReach q → addInteraction q i = .ok q' → GateReach q'
  | call {q q' : GQmc} {c : Call} : GateReach q → makeCall q c = .ok q' → GateReach q'
  | setLoop {q : GQmc} (b : Bool) : GateReach q → GateReach (setDoLoopUpdates q b)
  | setHeatbath {q : GQmc} (b : Bool) : GateReach q → GateReach (setDoHeatbath q b)

theorem gateReach_flags {q : GQmc} (h : GateReach q) : FlagsInv q := by
  induction h with
  | init d => exact flagsInv_init d
  | add _ ha ih => exact (addInteraction_ok ha).1 ih
  | call _ hc ih =>
    obtain ⟨_, _, _, _, hf, _⟩ := makeCall_ok hc
    exact hf ih
  | setLoop b _ ih => exact ⟨ih.breaks, ih.edges⟩
  | setHeatbath b _ ih => exact ⟨ih.breaks, ih.edges⟩

/-- **The gate, for any order of the adds.** `breaks_ising_symmetry` is false (so `cluster_update()`
runs) exactly when every stored interaction is classified symmetric; `should_do_cluster_update()`
is true exactly when, in addition, some stored interaction is a constant matrix on one variable. -/
theorem generic_cluster_gate {q : GQmc} (h : GateReach q) :
    (q.breaksIsing = false ↔ ∀ i ∈ q.bonds, i.symUnderIsing = .ok true) ∧
    (shouldDoClusterUpdate q = true ↔
      (∀ i ∈ q.bonds, i.symUnderIsing = .ok true) ∧
      ∃ i ∈ q.bonds, i.isConstant = true ∧ i.vars.length = 1) := by
  have hf := gateReach_flags h
  refine ⟨?_, gate_of_flags hf⟩
  rw [hf.breaks]
  simp only [List.any_eq_false, Bool.not_eq_true, Bool.not_eq_false', symOk, decide_eq_true_eq]

end Qmc
