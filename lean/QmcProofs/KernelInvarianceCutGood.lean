import QmcProofs.KernelInvariance
import QmcProofs.Good
import QmcProofs.Worldline

/-!
# The elementary moves preserve `Good` (helper of `KernelInvarianceCut.lean`)

`Good H c = Consistent c ∧ Legal H c` (QmcProofs/Good.lean).  For a Hamiltonian whose bonds act on
distinct variables below `N` (`HamWF H N = VarsOK H N`) and configurations with `N` variables
(`GoodN H N c := c.state.length = N ∧ Good H c`; on `cfgSpace H N L` this *is* `Good H c`):

* `rollState_eq_propagate`, `good_stateAt`: on Good configurations the rolling state of the sweep
  (`Kernel.stateAt`, only off-diagonal-tagged operators write) is the propagated state;
* `good_diag_is_canon`: every diagonal-tagged operator of a Good configuration is `canonOp` of its bond
  at its slot — so the "non-canonical diagonal operators are fixed points" clause of `slotFlip` never
  applies on the support of the measure;
* `good_insert`, `good_remove`, `slotFlip_good`: inserting `canonOp` of positive weight / removing a
  diagonal operator keeps `GoodN`;
* `toggleIdle_good`: flipping a variable without operators keeps `GoodN` (both ways);
* `clusterMove_good`: a C09 cluster move with canonical tags on the result keeps `GoodN`
  (`clusterMove_legal`: per-operator matrix elements are unchanged under `ClusterSym`);
* general kernel lemmas: `cutTo_reversible_of_zero`, `movesK_cut_zero`, `flipsK_pred`.
-/

namespace Qmc.Kernel
open Qmc.Dist

/-! ### general: cutting a weight to a set the kernel leaves only with probability 0 -/

section General
variable {α : Type*} {R : Type*}

/-- if the kernel has no transition from `P` to `¬P`, detailed balance for `π` gives detailed
balance for `π · 1_P` (transitions from `¬P` into `P` are allowed to have positive probability only
from points of `π`-weight … whatever: they are multiplied by 0 on one side and are 0 on the other) -/
theorem cutTo_reversible_of_zero [CommSemiring R] {π : α → R} (P : α → Prop) [DecidablePred P]
    {K : α → α → R} (hrev : Reversible π K) (hP : ∀ a b, P a → ¬ P b → K a b = 0) :
    Reversible (cutTo P π) K := by
  intro a b
  unfold cutTo
  by_cases ha : P a <;> by_cases hb : P b
  · rw [if_pos ha, if_pos hb]; exact hrev a b
  · rw [if_pos ha, if_neg hb, hP a b ha hb, mul_zero, zero_mul]
  · rw [if_neg ha, if_pos hb, hP b a hb ha, mul_zero, zero_mul]
  · rw [if_neg ha, if_neg hb, zero_mul, zero_mul]

/-- `movesK` has no transition out of `P` if every proposal either stays in `P` or has probability 0 -/
theorem movesK_cut_zero [DecidableEq α] [CommRing R] {ι : Type*} [Fintype ι] {f : ι → α → α}
    {A : ι → α → R} (P : α → Prop) (h : ∀ i a, P a → f i a ≠ a → P (f i a) ∨ A i a = 0) :
    ∀ a b, P a → ¬ P b → movesK f A a b = 0 := by
  intro a b ha hb
  have hab : ¬ b = a := fun e => hb (e ▸ ha)
  unfold movesK
  rw [if_neg hab, add_zero]
  refine Finset.sum_eq_zero (fun i _ => ?_)
  by_cases hc : b = f i a ∧ f i a ≠ a
  · rw [if_pos hc]
    rcases h i a ha hc.2 with hp | hz
    · exact absurd (hc.1 ▸ hp) hb
    · exact hz
  · rw [if_neg hc]

/-- a predicate preserved (both ways) by every flip is preserved by `flipsK` -/
theorem flipsK_pred [DecidableEq α] [CommRing R] (P : α → Prop) (fs : List (R × (α → α)))
    (h : ∀ x ∈ fs, ∀ a, P (x.2 a) ↔ P a) (a b : α) (hk : flipsK fs a b ≠ 0) : P a ↔ P b := by
  have := flipsK_support (fun c => (P c : Prop)) fs (fun x hx c => propext (h x hx c)) a b hk
  exact (iff_of_eq this).symm

end General

/-! ### operators and lists -/

theorem mem_opsOf_of_mem : ∀ {s : Slots} {o : Op}, some o ∈ s → o ∈ opsOf s
  | [], _, h => by simp at h
  | none :: t, o, h => by
    simp only [List.mem_cons, reduceCtorEq, false_or] at h
    simp only [opsOf]; exact mem_opsOf_of_mem h
  | some o' :: t, o, h => by
    simp only [List.mem_cons, Option.some.injEq] at h
    simp only [opsOf, List.mem_cons]
    rcases h with rfl | h
    · exact Or.inl rfl
    · exact Or.inr (mem_opsOf_of_mem h)

/-- matched inputs of the right length are what `readVars` reads -/
theorem readVars_of_match (st : List Bool) : ∀ (vars : List Nat) (vals : List Bool),
    matchL st vars vals = true → vals.length = vars.length → readVars st vars = vals
  | [], [], _, _ => rfl
  | [], _ :: _, _, h => by simp at h
  | _ :: _, [], _, h => by simp at h
  | v :: vs, x :: xs, hm, hl => by
    rw [matchL_cons, Bool.and_eq_true] at hm
    have hv : st[v]? = some x := by simpa using hm.1
    have ih := readVars_of_match st vs xs hm.2 (by simpa using hl)
    simp only [readVars, List.map_cons, List.cons.injEq] at ih ⊢
    exact ⟨by rw [List.getD_eq_getElem?_getD, hv]; rfl, ih⟩

/-- the number of variables and the state length in one predicate -/
def GoodN (H : Ham) (N : Nat) (c : Config) : Prop := c.state.length = N ∧ Good H c

/-! ### rolling state = propagated state -/

/-- on a string whose diagonal-tagged operators are well formed, if propagation succeeds the rolling
state of the sweep is the propagated state -/
theorem rollState_eq_propagate : ∀ (pre : Slots) (st r : List Bool),
    (∀ o, some o ∈ pre → o.WF) → propagate st pre = some r → rollState st pre = r
  | [], st, r, _, h => by simp only [propagate, Option.some.injEq] at h; simpa [rollState] using h
  | none :: t, st, r, hw, h => by
    simp only [rollState]
    exact rollState_eq_propagate t st r (fun o ho => hw o (List.mem_cons_of_mem _ ho)) h
  | some o :: t, st, r, hw, h => by
    obtain ⟨hm, h2⟩ := propagate_some_eq h
    have ih := rollState_eq_propagate t _ r (fun o' ho => hw o' (List.mem_cons_of_mem _ ho)) h2
    simp only [rollState]
    by_cases ht : o.tagDiag = true
    · rw [if_pos ht]
      rw [diag_transparent (hw o (by simp)) ht hm] at ih
      exact ih
    · rw [if_neg ht]; exact ih

/-- a Good configuration split at slot `p`: the prefix propagates to `Kernel.stateAt c p`, the rest
propagates from there back to the `p = 0` state -/
theorem good_split {H : Ham} {c : Config} (hg : Good H c) {p : Nat} {x : Option Op}
    (hx : c.slots[p]? = some x) :
    propagate c.state (c.slots.take p) = some (Kernel.stateAt c p) ∧
    propagate (Kernel.stateAt c p) (x :: c.slots.drop (p + 1)) = some c.state ∧
    (Kernel.stateAt c p).length = c.state.length := by
  have hc : propagate c.state c.slots = some c.state := hg.1
  rw [slots_split hx] at hc
  obtain ⟨m, h1, h2⟩ := propagate_append hc
  have hwf : ∀ o, some o ∈ c.slots.take p → o.WF :=
    fun o ho => (hg.2 o (List.mem_of_mem_take ho)).2.2.2.2.1
  have e : Kernel.stateAt c p = m := rollState_eq_propagate _ _ _ hwf h1
  rw [e]
  exact ⟨h1, h2, propagate_length h1⟩

/-- **`good_diag_is_canon`** — on a Good configuration every diagonal-tagged operator is the canonical
diagonal operator of its bond at the rolling state of its slot: `slotFlip`'s "anything else is a fixed
point" clause never applies to a diagonal operator of a Good configuration. -/
theorem good_diag_is_canon {H : Ham} {c : Config} (hg : Good H c) {p : Nat} {o : Op}
    (ho : c.slots[p]? = some (some o)) (ht : o.tagDiag = true) : o = canonOp H c p o.bond := by
  obtain ⟨-, h2, -⟩ := good_split hg ho
  obtain ⟨hm, -⟩ := propagate_some_eq h2
  obtain ⟨-, hv, hk, htag, hwf, -⟩ := hg.2 o (List.mem_of_getElem? ho)
  have hio : o.ins = o.outs := htag.mp ht
  have hr : readVars (Kernel.stateAt c p) (H.vars o.bond) = o.ins := by
    rw [← hv]
    exact readVars_of_match _ _ _ (by rw [← inputsMatch_eq]; exact hm) hwf.1
  cases o with
  | mk vars bond ins outs tag const =>
    simp only at hv hk hio ht hr
    simp only [canonOp, Op.diagonal, hr]
    rw [hv, hk, ← hio, ht]

/-- … hence the diagonal update can remove it: `slotFlip` moves it -/
theorem good_diag_slotFlip {H : Ham} {c : Config} (hg : Good H c) {p : Nat} {o : Op}
    (ho : c.slots[p]? = some (some o)) (ht : o.tagDiag = true) :
    slotFlip H p o.bond c = setSlot c p none := by
  have e := good_diag_is_canon hg ho ht
  exact slotFlip_canon (by rw [← e]; exact ho)

/-! ### insertion and removal -/

theorem legal_setSlot {H : Ham} {c : Config} (hl : Legal H c) (p : Nat) (x : Option Op)
    (hx : ∀ o, x = some o → o.LegalFor H) : Legal H (setSlot c p x) := by
  intro o ho
  rcases List.mem_or_eq_of_mem_set ho with h1 | h1
  · exact hl o h1
  · exact hx o h1.symm

theorem consistent_of_split {c : Config} {p : Nat} (hp : p < c.slots.length) (y : Option Op)
    {m : List Bool} (h1 : propagate c.state (c.slots.take p) = some m)
    (h2 : propagate m (y :: c.slots.drop (p + 1)) = some c.state) : Consistent (setSlot c p y) := by
  unfold Consistent
  rw [setSlot_split hp y]
  exact propagate_append_of h1 h2

/-- inserting the canonical operator of a bond of positive weight keeps `GoodN` -/
theorem good_insert {H : Ham} {N : Nat} (hH : HamWF H N) {c : Config} (hg : GoodN H N c) {p b : Nat}
    (hb : b < H.nbonds) (hx : c.slots[p]? = some none) (hw : 0 < curW H c p b) :
    GoodN H N (setSlot c p (some (canonOp H c p b))) := by
  obtain ⟨h1, h2, h3⟩ := good_split hg.2 hx
  have hlen : (Kernel.stateAt c p).length = N := by rw [h3]; exact hg.1
  refine ⟨hg.1, ?_, ?_⟩
  · refine consistent_of_split (lt_of_getElem? hx) _ h1 ?_
    have hm : inputsMatch (Kernel.stateAt c p) (canonOp H c p b) = true :=
      insertedOp_match H N hH _ hlen b hb
    rw [propagate_some_of hm]
    have hwr : writeVars (Kernel.stateAt c p) (canonOp H c p b).vars (canonOp H c p b).outs =
        Kernel.stateAt c p := insertedOp_write H N hH _ hlen b hb
    rw [hwr]
    exact h2
  · refine legal_setSlot hg.2.2 p _ (fun o ho => ?_)
    cases ho
    exact insertedOp_legal H N hH _ b hb hw

/-- removing a diagonal-tagged operator keeps `GoodN` -/
theorem good_remove {H : Ham} {N : Nat} {c : Config} (hg : GoodN H N c) {p : Nat} {o : Op}
    (hx : c.slots[p]? = some (some o)) (ht : o.tagDiag = true) : GoodN H N (setSlot c p none) := by
  obtain ⟨h1, h2, -⟩ := good_split hg.2 hx
  refine ⟨hg.1, ?_, legal_setSlot hg.2.2 p none (fun o ho => by cases ho)⟩
  refine consistent_of_split (lt_of_getElem? hx) _ h1 ?_
  obtain ⟨hm, h3⟩ := propagate_some_eq h2
  rw [diag_transparent (hg.2.2 o (List.mem_of_getElem? hx)).2.2.2.2.1 ht hm] at h3
  exact h3

/-- **`slotFlip` on a Good configuration**: the result is Good, or the proposal has weight 0 -/
theorem slotFlip_good {H : Ham} {N : Nat} (hH : HamWF H N) (hw : ∀ b i, 0 ≤ H.w b i i) {c : Config}
    (hg : GoodN H N c) (p b : Nat) (hb : b < H.nbonds) (hm : slotFlip H p b c ≠ c) :
    GoodN H N (slotFlip H p b c) ∨ (c.slots[p]? = some none ∧ curW H c p b = 0) := by
  rcases slotFlip_moves hm with h | h
  · rcases (hw b (readVars (Kernel.stateAt c p) (H.vars b))).lt_or_eq with hpos | hz
    · left; rw [slotFlip_empty h]; exact good_insert hH hg hb h hpos
    · right; exact ⟨h, hz.symm⟩
  · left; rw [slotFlip_canon h]; exact good_remove hg h rfl

/-- the slot kernels have no transition from Good to not-Good -/
theorem slotKM_cut_zero (H : Ham) (β : Rat) (N : Nat) (hH : HamWF H N) (hw : ∀ b i, 0 ≤ H.w b i i)
    (p : Nat) : ∀ a b, GoodN H N a → ¬ GoodN H N b → slotKM H β p a b = 0 := by
  refine movesK_cut_zero (GoodN H N) (fun i a ha hm => ?_)
  rcases slotFlip_good hH hw ha p i.val i.isLt hm with h | ⟨h1, h2⟩
  · exact Or.inl h
  · right
    simp only [slotProbM, h1, h2, pInsertM_zero]

theorem slotKHB_cut_zero (H : Ham) (bw : BW) (β : Rat) (N : Nat) (hH : HamWF H N)
    (hw : ∀ b i, 0 ≤ H.w b i i) (hlen : bw.length = H.nbonds) (p : Nat) :
    ∀ a b, GoodN H N a → ¬ GoodN H N b → slotKHB H bw β p a b = 0 := by
  refine movesK_cut_zero (GoodN H N) (fun i a ha hm => ?_)
  rcases slotFlip_good hH hw ha p i.val (hlen ▸ i.isLt) hm with h | ⟨h1, h2⟩
  · exact Or.inl h
  · right
    simp only [slotProbHB, h1, h2, pInsertHB_zero]

/-! ### free-spin refresh -/

theorem varHasOp_of_covered : ∀ {s : Slots} {v : Nat}, v ∈ coveredVars s → varHasOp (skeleton s) v = true
  | [], _, h => by simp [coveredVars] at h
  | none :: t, v, h => by
    have h' : v ∈ coveredVars t := by simpa [coveredVars] using h
    have := varHasOp_of_covered h'
    simp only [varHasOp, skeleton, List.map_cons, Option.map_none, List.any_cons] at this ⊢
    simpa using this
  | some o :: t, v, h => by
    have h' : v ∈ o.vars ∨ v ∈ coveredVars t := by simpa [coveredVars] using h
    simp only [varHasOp, skeleton, List.map_cons, Option.map_some, List.any_cons, Bool.or_eq_true]
    rcases h' with h1 | h1
    · left; simpa [Op.sk] using h1
    · right
      have := varHasOp_of_covered h1
      simpa [varHasOp, skeleton] using this

theorem toggleIdle_freeStep (v : Nat) (c : Config) : FreeStep c (toggleIdle v c) := by
  refine ⟨toggleIdle_slots v c, toggleIdle_length v c, ?_⟩
  intro w hw
  unfold toggleIdle
  split
  · rename_i hgd
    have hne : v ≠ w := by
      intro e
      have := varHasOp_of_covered hw
      rw [← e, hgd.1] at this
      cases this
    simp [List.getElem?_set_ne hne]
  · rfl

/-- flipping a variable without operators keeps `GoodN` -/
theorem toggleIdle_good_of {H : Ham} {N : Nat} (hH : HamWF H N) (v : Nat) {c : Config}
    (hg : GoodN H N c) : GoodN H N (toggleIdle v c) := by
  refine ⟨by rw [toggleIdle_length]; exact hg.1, ?_, ?_⟩
  · exact linkClosed_flip_consistent_aux c _ hg.2.1
      (free_spinFlip H N hH c _ hg.1 hg.2.2 (toggleIdle_freeStep v c))
  · intro o ho
    rw [toggleIdle_slots] at ho
    exact hg.2.2 o ho

theorem toggleIdle_good {H : Ham} {N : Nat} (hH : HamWF H N) (v : Nat) (c : Config) :
    GoodN H N (toggleIdle v c) ↔ GoodN H N c := by
  constructor
  · intro h
    have := toggleIdle_good_of hH v h
    rwa [toggleIdle_invol] at this
  · exact toggleIdle_good_of hH v

/-! ### cluster moves -/

/-- under the hypotheses of `clusterMove_weight`, a related pair of operators has the same matrix
element (operator by operator, not only the product) -/
theorem opOk_weight_eq {H : Ham} {fr : SkOp → Bool} {ob oa : Op} (hop : OpOk fr ob oa)
    (hs : ob.isEdge = false → fr ob.sk = false → H.FlipSym ob.bond)
    (hc : ob.isEdge = true → H.ConstW ob.bond) :
    H.w oa.bond oa.ins oa.outs = H.w ob.bond ob.ins ob.outs := by
  rw [hop.bond]
  cases he : ob.isEdge
  · cases hf : fr ob.sk
    · rcases hop.closed he with hu | hfl
      · rw [hu.1, hu.2]
      · rw [hfl.1, hfl.2]; exact hs he hf _ _
    · have hu := hop.frozen he hf
      rw [hu.1, hu.2]
  · exact hc he _ _ _ _ (by rw [hop.insA, hop.insB]) (by rw [hop.outsA, hop.outsB])

/-- **a C09 cluster move whose result has canonical tags keeps `Legal`** -/
theorem clusterMove_legal {H : Ham} {fr : SkOp → Bool} {b a : Config} (h : ClusterMove fr b a)
    (hl : Legal H b) (hta : TagCanon a.slots)
    (hsym : ∀ o ∈ opsOf b.slots, o.isEdge = false → fr o.sk = false → H.FlipSym o.bond)
    (hconst : ∀ o ∈ opsOf b.slots, o.isEdge = true → H.ConstW o.bond) : Legal H a := by
  intro oa hoa
  obtain ⟨p, hp⟩ := List.getElem?_of_mem hoa
  obtain ⟨ob, hob, hop'⟩ := (h.symm.ops.get p).2 oa hp
  have hop : OpOk fr ob oa := hop'.symm
  have hobm : some ob ∈ b.slots := List.mem_of_getElem? hob
  obtain ⟨l1, l2, l3, -, l5, l6⟩ := hl ob hobm
  have hobo := mem_opsOf_of_mem hobm
  have htag : oa.tagDiag = (oa.ins == oa.outs) := hta oa (mem_opsOf_of_mem hoa)
  have hiff : oa.tagDiag = true ↔ oa.ins = oa.outs := by rw [htag]; simp
  refine ⟨by rw [hop.bond]; exact l1, by rw [hop.vars, hop.bond]; exact l2,
    by rw [hop.const, hop.bond]; exact l3, hiff, ?_, ?_⟩
  · refine ⟨by rw [hop.insA, hop.vars], by rw [hop.outsA, hop.vars], by rw [hop.vars]; exact l5.2.2.1, ?_⟩
    intro ht; exact (hiff.mp ht).symm
  · rw [opOk_weight_eq hop (hsym ob hobo) (hconst ob hobo)]; exact l6

/-- **a C09 cluster move whose result has canonical tags keeps `GoodN`** -/
theorem clusterMove_good {H : Ham} {N : Nat} {fr : SkOp → Bool} {b a : Config} (h : ClusterMove fr b a)
    (hg : GoodN H N b) (hta : TagCanon a.slots)
    (hsym : ∀ o ∈ opsOf b.slots, o.isEdge = false → fr o.sk = false → H.FlipSym o.bond)
    (hconst : ∀ o ∈ opsOf b.slots, o.isEdge = true → H.ConstW o.bond) : GoodN H N a :=
  ⟨by rw [h.stateLen]; exact hg.1, h.consistent hg.2.1, clusterMove_legal h hg.2.2 hta hsym hconst⟩

/-- the additional property of a cluster family that the cut-down weight needs: a flip that moves a
configuration leaves canonical tags (`edit_in_out` recomputes them) -/
def ClusterFamily.TagOK {fr : SkOp → Bool} {S : Finset Config} (fam : ClusterFamily fr S) : Prop :=
  ∀ s, ∀ f ∈ fam.flips s, ∀ c ∈ S, skeleton c.slots = s → f c = c ∨ TagCanon (f c).slots

variable {fr : SkOp → Bool} {S : Finset Config}

theorem guardFlip_good_of (fam : ClusterFamily fr S) (htag : fam.TagOK) {H : Ham} {N : Nat}
    (hH : ClusterSym H fr S) {s : Skel} {f : Config → Config} (hf : f ∈ fam.flips s) {c : Config}
    (hg : GoodN H N c) : GoodN H N (guardFlip S s f c) := by
  unfold guardFlip
  by_cases h : c ∈ S ∧ skeleton c.slots = s
  · rw [if_pos h]
    rcases fam.move s f hf c h.1 h.2 with e | hm
    · rw [e]; exact hg
    · rcases htag s f hf c h.1 h.2 with e | ht
      · rw [e]; exact hg
      · exact clusterMove_good hm hg ht (hH c h.1).1 (hH c h.1).2
  · rw [if_neg h]; exact hg

theorem guardFlip_good (fam : ClusterFamily fr S) (htag : fam.TagOK) {H : Ham} {N : Nat}
    (hH : ClusterSym H fr S) {s : Skel} {f : Config → Config} (hf : f ∈ fam.flips s) (c : Config) :
    GoodN H N (guardFlip S s f c) ↔ GoodN H N c := by
  constructor
  · intro h
    have := guardFlip_good_of fam htag hH hf h
    rwa [guardFlip_invol fam hf] at this
  · exact guardFlip_good_of fam htag hH hf

/-- the model's own decomposition leaves canonical tags -/
theorem ofComponents_tagOK (fr : SkOp → Bool) (H : Ham) (N L : Nat) (hV : VarsOK H N) :
    (ClusterFamily.ofComponents fr H N L hV).TagOK := by
  intro s f hf c _ _
  rw [ClusterFamily.ofComponents_flips] at hf
  obtain ⟨D, rfl⟩ := componentFlips_D hf
  unfold tagFlip
  by_cases ht : TagCanon c.slots
  · right; rw [if_pos ht]; exact flipConfigT_tagCanon D c
  · left; rw [if_neg ht]

/-- a mask family leaves canonical tags -/
theorem ofMasks_tagOK {fr : SkOp → Bool} (H : Ham) (N L : Nat) (masks : Skel → List Config)
    (hvalid : ∀ s, ∀ m ∈ masks s, ValidMask fr m) :
    (ClusterFamily.ofMasks H N L masks hvalid).TagOK := by
  intro s f hf c _ _
  have hf' : f ∈ (masks s).map (maskFlip (masks s)) := hf
  obtain ⟨m, hm, rfl⟩ := List.mem_map.mp hf'
  by_cases h : TagCanon c.slots ∧ ∀ m' ∈ masks s, FitsShape m' c
  · right; rw [(maskFlip_dom hm h).1]; exact xorSlots_tagCanon
  · left; unfold maskFlip; rw [if_neg h]

end Qmc.Kernel
