import QmcProofs.LawLoop
import QmcProofs.LawGeneric
import QmcProofs.SamplerLoopEq
import QmcProofs.LoopKernelMassLimit

/-!
# The generic sampler `Qmc::timestep` WITH the loop update: refinement, law = kernels, the SSE cut measure

* `genericTimestepLT s β fuel` — tree twin of `Sampler.genericTimestep` for any `do_loop_updates` flag (the loop
  update as `loopUpdateT s.ham.w fuel`); `genericTimestep_loop_refines`: on every script, for every fuel above the
  length of the script left after the diagonal update; `genericTimestepLT_cfg`: its configuration part is
  `genericStepCfgLT`.
* `loop_zero_off_good`, `lawK_loopUpdateT_good` — from a Good configuration the loop tree reaches only Good
  configurations with positive idealised probability, and on `goodSpace` its law is `restr _ (loopKn H.w n)`.
* `lawK_genericStepCfgLT(_hb)` — **law of the step = (`sweepK` ∘ `loopKn n`) ; [`clusterK`] ; `refreshK`**.
* `genericLoopStep_defect` — **the exact statement about the SSE measure**: the step maps `π = configWeight` on
  `goodSpace` to `π − Σ_d π(d)·openMass n d·law(rest d)`; cut form on `cfgSpace` (`genericLoopStep_defect_cut`);
  invariance when the open-walk mass vanishes (`genericLoopStep_invariant_cut_of_closed`) and in the limit
  `openMass n → 0` (`genericLoopStep_tendsto_cut`).
-/

open Finset
namespace Qmc.Law
open Qmc Qmc.Kernel Qmc.Dist Qmc.LoopC Qmc.LoopC.Mass

/-! ### a kernel with a row defect between two invariant kernels -/

/-- `π` invariant under `A` and `R`, in detailed balance with `Lp` whose rows sum to `1 − o`: the composition
`A ; Lp ; R` maps `π` to `π − Σ_d π(d)·o(d)·R(d,·)` -/
theorem comp_defect {σ : Type} [Fintype σ] [DecidableEq σ] (π : σ → ℚ) (A Lp R : σ → σ → ℚ) (o : σ → ℚ)
    (hA : Invariant π A) (hR : Invariant π R) (hrev : Reversible π Lp)
    (hrow : ∀ d, ∑ b, Lp d b = 1 - o d) (c : σ) :
    ∑ a, π a * comp (comp A Lp) R a c = π c - ∑ d, π d * o d * R d c := by
  have h1 : ∀ d, ∑ a, π a * comp A Lp a d = π d * (1 - o d) := by
    intro d
    unfold comp
    have : ∑ a, π a * ∑ b, A a b * Lp b d = ∑ b, (∑ a, π a * A a b) * Lp b d := by
      simp only [Finset.mul_sum, Finset.sum_mul]
      rw [Finset.sum_comm]
      exact Finset.sum_congr rfl (fun b _ => Finset.sum_congr rfl (fun a _ => by ring))
    rw [this]
    have : ∑ b, (∑ a, π a * A a b) * Lp b d = ∑ b, π d * Lp d b :=
      Finset.sum_congr rfl (fun b _ => by rw [hA b]; exact hrev b d)
    rw [this, ← Finset.mul_sum, hrow d]
  have h2 : ∑ a, π a * comp (comp A Lp) R a c = ∑ d, (∑ a, π a * comp A Lp a d) * R d c := by
    show ∑ a, π a * ∑ d, comp A Lp a d * R d c = _
    simp only [Finset.mul_sum, Finset.sum_mul]
    rw [Finset.sum_comm]
    exact Finset.sum_congr rfl (fun d _ => Finset.sum_congr rfl (fun a _ => by ring))
  rw [h2]
  have h3 : ∑ d, (∑ a, π a * comp A Lp a d) * R d c = ∑ d, (π d * R d c - π d * o d * R d c) :=
    Finset.sum_congr rfl (fun d _ => by rw [h1 d]; ring)
  rw [h3, Finset.sum_sub_distrib, hR c]

/-! ### the loop update on the Good configurations -/

/-- a non-zero entry of the truncated loop kernel keeps the number of variables -/
theorem loopKn_ne_zero_state (w : WFun) (n : Nat) {a b : Config} (h : loopKn w n a b ≠ 0) :
    b.state.length = a.state.length := by
  unfold loopKn at h
  split at h
  · by_cases e : b = a
    · rw [e]
    · rw [if_neg e] at h; exact absurd rfl h
  · cases hl : (loopsOf n a).filter (fun ℓ => decide (ℓ.2.2 = b)) with
    | nil => rw [hl] at h; simp at h
    | cons ℓ t =>
      have hℓ : ℓ ∈ (loopsOf n a).filter (fun ℓ => decide (ℓ.2.2 = b)) := by rw [hl]; simp
      obtain ⟨init, tr, fin⟩ := ℓ
      rw [List.mem_filter] at hℓ
      obtain ⟨hm, hf⟩ := hℓ
      simp only [decide_eq_true_eq] at hf
      subst hf
      exact ((mem_loopsOf n a init tr fin).mp hm).2.2.state.1

/-- **from a Good configuration the loop update reaches only Good configurations of the same space** with
positive idealised probability (an exit of weight 0 is never taken; skeleton, cutoff and number of
variables are kept) -/
theorem loop_zero_off_good (H : Ham) (hw : ∀ b i o, 0 ≤ H.w b i o) (N L n : Nat) :
    ∀ a ∈ goodSpace H N L, ∀ b, b ∉ goodSpace H N L → PT.law (loopUpdateT H.w n a) b = 0 := by
  intro a ha b hb
  rw [law_loopUpdateT H.w hw]
  by_contra hne
  apply hb
  obtain ⟨hca, hNa, hga⟩ := mem_goodSpace.mp ha
  have hgb : Good H b := by
    by_contra hng
    exact hne (loopKn_to_bad H hw n hga hng)
  obtain ⟨hlen, _⟩ := loopKn_ne_zero H.w n hne
  have hst := loopKn_ne_zero_state H.w n hne
  refine mem_goodSpace.mpr ⟨mem_cfgSpace.mpr ⟨by rw [hst]; exact hNa, ?_, ?_⟩, ⟨by rw [hst]; exact hNa, hgb⟩⟩
  · rw [hlen]; exact (mem_cfgSpace.mp hca).2.1
  · intro o ho
    obtain ⟨l1, l2, l3, _, l5, _⟩ := hgb.2 o ho
    exact ⟨l1, l2, l3, l5.1, l5.2.1⟩

/-- on the Good configurations the law of the loop tree is the truncated loop kernel -/
theorem lawK_loopUpdateT_good (H : Ham) (hw : ∀ b i o, 0 ≤ H.w b i o) (N L n : Nat) :
    lawK (goodSpace H N L) (loopUpdateT H.w n) = restr (goodSpace H N L) (loopKn H.w n) := by
  funext a b
  exact law_loopUpdateT H.w hw n a.1 b.1

/-! ### twins and refinement of the whole step -/

/-- the loop stage: `if should_do_loop_update() { loop_update() }` -/
def loopStageT (w : WFun) (doLoop : Bool) (fuel : Nat) (d : Config) : PT Config :=
  if doLoop then loopUpdateT w fuel d else PT.ret d

/-- cluster update (nothing frozen) iff the gate is on ; free-spin refresh -/
def restStepT (gate : Bool) (l : Config) : PT Config :=
  PT.bind (if gate then clusterKT (1 / 2) (fun _ => false) l else PT.ret l) freeRefreshT

/-- the configuration part of one `Qmc::timestep`: diagonal update ; loop update iff `do_loop_updates` ;
cluster update iff the gate is on ; free-spin refresh -/
def genericStepCfgLT (H : Ham) (table : Option BW) (doLoop gate : Bool) (β : Rat) (cutoff fuel : Nat)
    (c : Config) : PT Config :=
  PT.bind (PT.bind (diagUpdateT H table β cutoff c) (loopStageT H.w doLoop fuel)) (restStepT gate)

/-- tree twin of `Sampler.genericTimestep` (`Qmc::timestep`), loop update included, with `fuel` vertex visits -/
def genericTimestepLT (s : Sampler.GenericSampler) (β : Rat) (fuel : Nat) : PT Sampler.GenericSampler :=
  PT.bind (diagUpdateT s.ham s.tableUsed β s.cutoff s.cfg) (fun d =>
    PT.map (fun r : Config =>
        ({ s with state := d.state, slots := d.slots, table := s.tableAfter,
                  cutoff := nextCutoff s.cutoff (countOps d.slots) } : Sampler.GenericSampler).withCfg r)
      (PT.bind (loopStageT s.ham.w s.doLoop fuel d) (restStepT s.shouldCluster)))

/-- **refinement of the generic whole step with the loop update**: on every script, for every fuel above the
length of the script that is left when the loop update starts -/
theorem genericTimestep_loop_refines (s : Sampler.GenericSampler) (β : Rat) (rs : RS) (fuel : Nat)
    (hf : (Sampler.genericDiagonalUpdate s β rs).2.script.length + 1 ≤ fuel) :
    Sampler.genericTimestep s β rs = (genericTimestepLT s β fuel).run rs := by
  unfold Sampler.genericTimestep Sampler.genericTimestepWith Sampler.genericLoopStage genericTimestepLT
    loopStageT restStepT
  unfold Sampler.genericDiagonalUpdate at hf ⊢
  simp only [PT.run_bind, PT.run_map]
  rw [diagUpdate_refines] at hf ⊢
  generalize (diagUpdateT s.ham s.tableUsed β s.cutoff s.cfg).run rs = dr at hf ⊢
  simp only [Sampler.GenericSampler.shouldCluster, Sampler.GenericSampler.cfg, Sampler.GenericSampler.ham]
    at hf ⊢
  by_cases hl : s.doLoop = true
  · simp only [hl, if_true]
    have hloop : Sampler.loopK (Sampler.genericHam s.bonds).w ⟨dr.1.state, dr.1.slots⟩ dr.2 =
        (loopUpdateT (Sampler.genericHam s.bonds).w fuel dr.1).run dr.2 := by
      unfold Sampler.loopK
      rw [Sampler.stepLoop_funext]
      exact loopUpdate_refines _ fuel dr.1 dr.2 hf
    rw [hloop]
    generalize (loopUpdateT (Sampler.genericHam s.bonds).w fuel dr.1).run dr.2 = lr
    by_cases hg : (!s.breaksIsing && s.hasClusterEdges) = true
    · simp only [hg, if_true]
      rw [clusterK_refines, freeRefresh_refines]
    · simp only [hg, Bool.false_eq_true, if_false, PT.run_ret]
      rw [freeRefresh_refines]
  · simp only [hl, Bool.false_eq_true, if_false, PT.run_ret]
    by_cases hg : (!s.breaksIsing && s.hasClusterEdges) = true
    · simp only [hg, if_true]
      rw [clusterK_refines, freeRefresh_refines]
    · simp only [hg, Bool.false_eq_true, if_false, PT.run_ret]
      rw [freeRefresh_refines]

/-- the configuration after the step is the configuration part -/
theorem genericTimestepLT_cfg (s : Sampler.GenericSampler) (β : Rat) (fuel : Nat) :
    PT.map Sampler.GenericSampler.cfg (genericTimestepLT s β fuel) =
      genericStepCfgLT s.ham s.tableUsed s.doLoop s.shouldCluster β s.cutoff fuel s.cfg := by
  unfold genericTimestepLT genericStepCfgLT
  rw [PT.map_bind, PT.bind_assoc]
  congr 1
  funext d
  rw [PT.map_map]
  exact PT.map_id' _

/-! ### law of the step = composition of the kernels -/

theorem loopStageT_true (w : WFun) (fuel : Nat) : loopStageT w true fuel = loopUpdateT w fuel := by
  funext d; simp [loopStageT]

theorem ret_zero_off (S : Finset Config) : ∀ a ∈ S, ∀ b, b ∉ S → PT.law (PT.ret a) b = 0 := by
  intro a ha b hb
  rw [PT.law_ret, if_neg]
  intro e; exact hb (e ▸ ha)

/-- no mass of `diagonal update ; loop stage` leaves the Good configurations -/
theorem diagLoop_zero_off_good (H : Ham) (hw : ∀ b i o, 0 ≤ H.w b i o) (N L : Nat) (doLoop : Bool) (n : Nat)
    (Dg : Config → PT Config)
    (hD : ∀ a ∈ goodSpace H N L, ∀ b, b ∉ goodSpace H N L → PT.law (Dg a) b = 0) :
    ∀ a ∈ goodSpace H N L, ∀ b, b ∉ goodSpace H N L →
      PT.law (PT.bind (Dg a) (loopStageT H.w doLoop n)) b = 0 := by
  intro a ha
  refine PT.law_bind_zero_off (goodSpace H N L) (goodSpace H N L) _ (Dg a) (hD a ha) (fun d hd c hc => ?_)
  unfold loopStageT
  split
  · exact loop_zero_off_good H hw N L n d hd c hc
  · exact ret_zero_off _ d hd c hc

/-- law of `diagonal update ; loop update` = `diagonal kernel ∘ truncated loop kernel` -/
theorem lawK_diagLoop (H : Ham) (hw : ∀ b i o, 0 ≤ H.w b i o) (N L n : Nat) (Dg : Config → PT Config)
    (hD : ∀ a ∈ goodSpace H N L, ∀ b, b ∉ goodSpace H N L → PT.law (Dg a) b = 0) :
    lawK (goodSpace H N L) (fun c => PT.bind (Dg c) (loopStageT H.w true n)) =
      comp (lawK (goodSpace H N L) Dg) (restr (goodSpace H N L) (loopKn H.w n)) := by
  rw [lawK_bind_of_zero _ Dg _ hD, loopStageT_true, lawK_loopUpdateT_good H hw N L n]

/-- composition of the whole step, whatever the diagonal update `Dg` whose law does not leave the Good
configurations -/
theorem lawK_genericLoopStep_of (H : Ham) (hw : ∀ b i o, 0 ≤ H.w b i o) (N L : Nat) (hV : VarsOK H N)
    (gate : Bool) (hp : gate = true → VarsPos H)
    (hsym : gate = true → ClusterSym H (fun _ => false) (cfgSpace H N L)) (n : Nat) (Dg : Config → PT Config)
    (hD : ∀ a ∈ goodSpace H N L, ∀ b, b ∉ goodSpace H N L → PT.law (Dg a) b = 0) :
    lawK (goodSpace H N L) (fun c => PT.bind (PT.bind (Dg c) (loopStageT H.w true n)) (restStepT gate)) =
      compList (genericKernels H N L hV gate
        (comp (lawK (goodSpace H N L) Dg) (restr (goodSpace H N L) (loopKn H.w n)))) := by
  have h := lawK_genericStep_of H N L hV gate hp hsym (fun c => PT.bind (Dg c) (loopStageT H.w true n))
    (diagLoop_zero_off_good H hw N L true n Dg hD)
  rw [lawK_diagLoop H hw N L n Dg hD] at h
  exact h

/-- **law of one generic step with the loop update (Metropolis) =
`(sweepKM ∘ loopKn n) ; [clusterK (ofComponents) if the gate is on] ; refreshK`** on the Good configurations -/
theorem lawK_genericStepCfgLT (H : Ham) (β : Rat) (hβ : 0 ≤ β) (hw : ∀ b i o, 0 ≤ H.w b i o)
    (hNb : 0 < H.nbonds) (N L : Nat) (hV : VarsOK H N) (gate : Bool) (hp : gate = true → VarsPos H)
    (hsym : gate = true → ClusterSym H (fun _ => false) (cfgSpace H N L)) (n : Nat) :
    lawK (goodSpace H N L) (genericStepCfgLT H none true gate β L n) =
      compList (genericKernels H N L hV gate
        (comp (sweepKM H β (goodSpace H N L) L) (restr (goodSpace H N L) (loopKn H.w n)))) := by
  have := lawK_genericLoopStep_of H hw N L hV gate hp hsym n (metropolisSweepT H β L)
    (metropolisSweep_zero_off_good H β (fun b i => hw b i i) N L hV)
  rw [law_metropolisSweep_good H β hβ (fun b i => hw b i i) hNb N L hV] at this
  exact this

/-- … with the heat-bath diagonal update -/
theorem lawK_genericStepCfgLT_hb (H : Ham) (β : Rat) (hβ : 0 ≤ β) (hW : 0 < (makeBondWeights H).sum)
    (hw : ∀ b i o, 0 ≤ H.w b i o) (N L : Nat) (hV : VarsOK H N) (gate : Bool) (hp : gate = true → VarsPos H)
    (hsym : gate = true → ClusterSym H (fun _ => false) (cfgSpace H N L)) (n : Nat) :
    lawK (goodSpace H N L) (genericStepCfgLT H (some (makeBondWeights H)) true gate β L n) =
      compList (genericKernels H N L hV gate
        (comp (sweepKHB H (makeBondWeights H) β (goodSpace H N L) L)
          (restr (goodSpace H N L) (loopKn H.w n)))) := by
  have := lawK_genericLoopStep_of H hw N L hV gate hp hsym n (heatBathSweepT H (makeBondWeights H) β L)
    (heatBathSweep_zero_off_good H _ β (fun b i => hw b i i) (makeBondWeights_length H) N L hV)
  rw [law_heatBathSweep_good H β hβ hW (fun b i => hw b i i) N L hV] at this
  exact this

/-! ### what the step does to the SSE measure: invariance up to the open-walk defect -/

/-- the rest of the step (cluster update iff gate ; refresh) leaves the SSE weight invariant on the Good
configurations and does not leave them -/
theorem restStep_invariant_good (H : Ham) (β : Rat) (N L : Nat) (hV : VarsOK H N) (gate : Bool)
    (hp : gate = true → VarsPos H) (hsym : gate = true → ClusterSym H (fun _ => false) (cfgSpace H N L)) :
    Invariant (sseOn H β (goodSpace H N L)) (lawK (goodSpace H N L) (restStepT gate)) := by
  have h := lawK_genericStep_of H N L hV gate hp hsym PT.ret (ret_zero_off _)
  have e : (fun c => PT.bind (PT.ret c) (fun d =>
      PT.bind (if gate then clusterKT (1 / 2) (fun _ => false) d else PT.ret d) freeRefreshT)) =
      restStepT gate := rfl
  rw [e] at h
  rw [h]
  refine genericKernels_invariant H β N L hV gate hsym _ ?_
  rw [lawK_ret]
  exact invariant_idK

theorem restStep_zero_off_good (H : Ham) (N L : Nat) (hV : VarsOK H N) (gate : Bool)
    (hp : gate = true → VarsPos H) (hsym : gate = true → ClusterSym H (fun _ => false) (cfgSpace H N L)) :
    ∀ a ∈ goodSpace H N L, ∀ b, b ∉ goodSpace H N L → PT.law (restStepT gate a) b = 0 :=
  genericStep_zero_off_good H N L hV gate hp hsym PT.ret (ret_zero_off _)

/-- detailed balance of the truncated loop kernel with the SSE weight, on the Good configurations -/
theorem loopKn_reversible_good (H : Ham) (β : Rat) (hw : ∀ b i o, 0 ≤ H.w b i o) (N L n : Nat) :
    Reversible (sseOn H β (goodSpace H N L)) (restr (goodSpace H N L) (loopKn H.w n)) := by
  intro a b
  have h := loopKn_reversible_cut H β hw n a.1 b.1
  unfold cutTo at h
  rw [if_pos (mem_goodSpace.mp a.2).2.2, if_pos (mem_goodSpace.mp b.2).2.2] at h
  exact h

/-- on a Good configuration some leg exists as soon as some operator does, if every bond has a variable -/
theorem good_totalVars (H : Ham) (hp : VarsPos H) {d : Config} (hg : Good H d) :
    countOps d.slots ≠ 0 → totalVars d.slots ≠ 0 :=
  Mass.totalVars_ne_zero d.slots (fun o ho => by
    obtain ⟨l1, l2, _⟩ := hg.2 o ho
    rw [l2]; exact hp o.bond l1)

/-- **row mass of the truncated loop kernel inside the Good configurations**: `1 − openMass` -/
theorem loopKn_rowSum_good (H : Ham) (hw : ∀ b i o, 0 ≤ H.w b i o) (hp : VarsPos H) (N L n : Nat)
    (d : Config) (hd : d ∈ goodSpace H N L) :
    ∑ b ∈ goodSpace H N L, loopKn H.w n d b = 1 - openMass H.w n d := by
  have hg : Good H d := (mem_goodSpace.mp hd).2.2
  have hsub : ∑ b ∈ goodSpace H N L, loopKn H.w n d b =
      ∑ b ∈ goodSpace H N L ∪ reach n d, loopKn H.w n d b := by
    apply Finset.sum_subset Finset.subset_union_left
    intro b _ hb
    rw [← law_loopUpdateT H.w hw]
    exact loop_zero_off_good H hw N L n d hd b hb
  rw [hsub, sum_loopKn_reach H.w n d _ Finset.subset_union_right]
  have := rowMass_add_open H.w hw n d (fun o ho => (hg.2 o ho).2.2.2.2.2) (good_totalVars H hp hg)
  linarith

/-- **the exact statement on the Good configurations**: with any diagonal update `Dg` that leaves the SSE
weight invariant, the step `Dg ; loop update (n visits) ; rest` maps `π = configWeight` to
`π − Σ_d π(d) · openMass n d · law(rest d)` -/
theorem genericLoopStep_defect_of (H : Ham) (β : Rat) (hw : ∀ b i o, 0 ≤ H.w b i o) (N L : Nat)
    (hV : VarsOK H N) (hp : VarsPos H) (gate : Bool)
    (hsym : gate = true → ClusterSym H (fun _ => false) (cfgSpace H N L)) (n : Nat) (Dg : Config → PT Config)
    (hD : ∀ a ∈ goodSpace H N L, ∀ b, b ∉ goodSpace H N L → PT.law (Dg a) b = 0)
    (hinv : Invariant (sseOn H β (goodSpace H N L)) (lawK (goodSpace H N L) Dg))
    (c : Config) (hc : c ∈ goodSpace H N L) :
    ∑ a ∈ goodSpace H N L, configWeight H β a *
        PT.law (PT.bind (PT.bind (Dg a) (loopStageT H.w true n)) (restStepT gate)) c =
      configWeight H β c -
        ∑ d ∈ goodSpace H N L, configWeight H β d * openMass H.w n d * PT.law (restStepT gate d) c := by
  have hK : lawK (goodSpace H N L)
      (fun a => PT.bind (PT.bind (Dg a) (loopStageT H.w true n)) (restStepT gate)) =
      comp (comp (lawK (goodSpace H N L) Dg) (restr (goodSpace H N L) (loopKn H.w n)))
        (lawK (goodSpace H N L) (restStepT gate)) := by
    rw [lawK_bind_of_zero _ (fun a => PT.bind (Dg a) (loopStageT H.w true n)) _
      (diagLoop_zero_off_good H hw N L true n Dg hD), lawK_diagLoop H hw N L n Dg hD]
  have hrow : ∀ d : (goodSpace H N L),
      ∑ b, restr (goodSpace H N L) (loopKn H.w n) d b = 1 - openMass H.w n d.1 := by
    intro d
    have := loopKn_rowSum_good H hw hp N L n d.1 d.2
    rw [← Finset.sum_coe_sort (goodSpace H N L) (fun b => loopKn H.w n d.1 b)] at this
    exact this
  have key := comp_defect (sseOn H β (goodSpace H N L)) (lawK (goodSpace H N L) Dg)
    (restr (goodSpace H N L) (loopKn H.w n)) (lawK (goodSpace H N L) (restStepT gate))
    (fun d => openMass H.w n d.1) hinv
    (restStep_invariant_good H β N L hV gate (fun _ => hp) hsym)
    (loopKn_reversible_good H β hw N L n) hrow ⟨c, hc⟩
  rw [← hK] at key
  rw [← Finset.sum_coe_sort (goodSpace H N L)
      (fun a => configWeight H β a *
        PT.law (PT.bind (PT.bind (Dg a) (loopStageT H.w true n)) (restStepT gate)) c),
    ← Finset.sum_coe_sort (goodSpace H N L)
      (fun d => configWeight H β d * openMass H.w n d * PT.law (restStepT gate d) c)]
  exact key

/-- the sum against the cut measure over the whole space is the sum against the SSE weight over the Good
configurations -/
theorem sum_cut_eq_sum_good (H : Ham) (β : Rat) (N L : Nat) (T : Config → PT Config)
    (b : (cfgSpace H N L : Finset Config)) :
    ∑ a : (cfgSpace H N L : Finset Config), sseCutOn H β (cfgSpace H N L) a * lawK (cfgSpace H N L) T a b =
      ∑ a ∈ goodSpace H N L, configWeight H β a * PT.law (T a) b.1 := by
  have hGN : ∀ a ∈ cfgSpace H N L, (Good H a ↔ GoodN H N a) := by
    intro a ha
    unfold GoodN
    rw [(mem_cfgSpace.mp ha).1]; simp
  have e := Finset.sum_coe_sort (cfgSpace H N L)
    (fun a => (if Good H a then configWeight H β a else 0) * PT.law (T a) b.1)
  simp only [sseCutOn_apply, lawK]
  rw [e]
  unfold goodSpace
  rw [Finset.sum_filter]
  refine Finset.sum_congr rfl (fun a ha => ?_)
  by_cases hg : Good H a
  · rw [if_pos hg, if_pos ((hGN a ha).mp hg)]
  · rw [if_neg hg, if_neg (fun h => hg ((hGN a ha).mpr h)), zero_mul]

/-- **the exact statement about the SSE cut measure** `configWeight · 1_Good` on `cfgSpace H N L`: the step
`Dg ; loop update with n visits ; rest` leaves it invariant up to the open-walk defect -/
theorem genericLoopStep_defect_cut_of (H : Ham) (β : Rat) (hw : ∀ b i o, 0 ≤ H.w b i o) (N L : Nat)
    (hV : VarsOK H N) (hp : VarsPos H) (gate : Bool)
    (hsym : gate = true → ClusterSym H (fun _ => false) (cfgSpace H N L)) (n : Nat) (Dg : Config → PT Config)
    (hD : ∀ a ∈ goodSpace H N L, ∀ b, b ∉ goodSpace H N L → PT.law (Dg a) b = 0)
    (hinv : Invariant (sseOn H β (goodSpace H N L)) (lawK (goodSpace H N L) Dg))
    (b : (cfgSpace H N L : Finset Config)) :
    ∑ a : (cfgSpace H N L : Finset Config), sseCutOn H β (cfgSpace H N L) a *
        lawK (cfgSpace H N L)
          (fun a => PT.bind (PT.bind (Dg a) (loopStageT H.w true n)) (restStepT gate)) a b =
      sseCutOn H β (cfgSpace H N L) b -
        ∑ d ∈ goodSpace H N L, configWeight H β d * openMass H.w n d * PT.law (restStepT gate d) b.1 := by
  rw [sum_cut_eq_sum_good]
  have hGN : Good H b.1 ↔ GoodN H N b.1 := by
    unfold GoodN
    rw [(mem_cfgSpace.mp b.2).1]; simp
  by_cases hb : b.1 ∈ goodSpace H N L
  · have hgb : Good H b.1 := hGN.mpr (mem_goodSpace.mp hb).2
    rw [sseCutOn_apply, if_pos hgb]
    exact genericLoopStep_defect_of H β hw N L hV hp gate hsym n Dg hD hinv b.1 hb
  · have hgb : ¬ Good H b.1 := fun h => hb (mem_goodSpace.mpr ⟨b.2, hGN.mp h⟩)
    rw [sseCutOn_apply, if_neg hgb]
    have h1 : ∑ a ∈ goodSpace H N L, configWeight H β a *
        PT.law (PT.bind (PT.bind (Dg a) (loopStageT H.w true n)) (restStepT gate)) b.1 = 0 := by
      refine Finset.sum_eq_zero (fun a ha => ?_)
      rw [PT.law_bind_zero_off (goodSpace H N L) (goodSpace H N L) _ _
        (diagLoop_zero_off_good H hw N L true n Dg hD a ha)
        (restStep_zero_off_good H N L hV gate (fun _ => hp) hsym) b.1 hb, mul_zero]
    have h2 : ∑ d ∈ goodSpace H N L, configWeight H β d * openMass H.w n d *
        PT.law (restStepT gate d) b.1 = 0 := by
      refine Finset.sum_eq_zero (fun d hd => ?_)
      rw [restStep_zero_off_good H N L hV gate (fun _ => hp) hsym d hd b.1 hb, mul_zero]
    rw [h1, h2, sub_zero]

/-- the open-walk defect of the step at `b`: what the loop update with `n` visits fails to return, pushed
through the rest of the step -/
noncomputable def loopDefect (H : Ham) (β : Rat) (N L : Nat) (gate : Bool) (n : Nat) (b : Config) : Rat :=
  ∑ d ∈ goodSpace H N L, configWeight H β d * openMass H.w n d * PT.law (restStepT gate d) b

/-- **`Qmc::timestep` with loop updates, Metropolis diagonal update, against the SSE cut measure**: exact -/
theorem genericLoopStep_defect_cut (H : Ham) (β : Rat) (hβ : 0 < β) (hw : ∀ b i o, 0 ≤ H.w b i o)
    (hNb : 0 < H.nbonds) (N L : Nat) (hV : VarsOK H N) (hp : VarsPos H) (gate : Bool)
    (hsym : gate = true → ClusterSym H (fun _ => false) (cfgSpace H N L)) (n : Nat)
    (b : (cfgSpace H N L : Finset Config)) :
    ∑ a : (cfgSpace H N L : Finset Config), sseCutOn H β (cfgSpace H N L) a *
        lawK (cfgSpace H N L) (genericStepCfgLT H none true gate β L n) a b =
      sseCutOn H β (cfgSpace H N L) b - loopDefect H β N L gate n b.1 :=
  genericLoopStep_defect_cut_of H β hw N L hV hp gate hsym n (metropolisSweepT H β L)
    (metropolisSweep_zero_off_good H β (fun b i => hw b i i) N L hV)
    (metropolisSweep_law_invariant_good H β hβ (fun b i => hw b i i) hNb N L hV) b

/-- … heat-bath diagonal update (table `makeBondWeights H`) -/
theorem genericLoopStep_defect_cut_hb (H : Ham) (β : Rat) (hβ : 0 < β) (hW : 0 < (makeBondWeights H).sum)
    (hw : ∀ b i o, 0 ≤ H.w b i o) (N L : Nat) (hV : VarsOK H N) (hp : VarsPos H) (gate : Bool)
    (hsym : gate = true → ClusterSym H (fun _ => false) (cfgSpace H N L)) (n : Nat)
    (b : (cfgSpace H N L : Finset Config)) :
    ∑ a : (cfgSpace H N L : Finset Config), sseCutOn H β (cfgSpace H N L) a *
        lawK (cfgSpace H N L) (genericStepCfgLT H (some (makeBondWeights H)) true gate β L n) a b =
      sseCutOn H β (cfgSpace H N L) b - loopDefect H β N L gate n b.1 :=
  genericLoopStep_defect_cut_of H β hw N L hV hp gate hsym n (heatBathSweepT H (makeBondWeights H) β L)
    (heatBathSweep_zero_off_good H _ β (fun b i => hw b i i) (makeBondWeights_length H) N L hV)
    (heatBathSweep_law_invariant_good H β hβ hW (fun b i => hw b i i) N L hV) b

/-- the defect vanishes where every loop from a Good configuration closes within `n` visits -/
theorem loopDefect_zero (H : Ham) (β : Rat) (N L : Nat) (gate : Bool) (n : Nat) (b : Config)
    (hclosed : ∀ d ∈ goodSpace H N L, openMass H.w n d = 0) : loopDefect H β N L gate n b = 0 :=
  Finset.sum_eq_zero (fun d hd => by rw [hclosed d hd, mul_zero, zero_mul])

/-- **full invariance** of the SSE cut measure under the step when the open-walk mass vanishes -/
theorem genericLoopStep_invariant_cut_of_closed (H : Ham) (β : Rat) (hβ : 0 < β)
    (hw : ∀ b i o, 0 ≤ H.w b i o) (hNb : 0 < H.nbonds) (N L : Nat) (hV : VarsOK H N) (hp : VarsPos H)
    (gate : Bool) (hsym : gate = true → ClusterSym H (fun _ => false) (cfgSpace H N L)) (n : Nat)
    (hclosed : ∀ d ∈ goodSpace H N L, openMass H.w n d = 0) :
    Invariant (sseCutOn H β (cfgSpace H N L))
      (lawK (cfgSpace H N L) (genericStepCfgLT H none true gate β L n)) := by
  intro b
  rw [genericLoopStep_defect_cut H β hβ hw hNb N L hV hp gate hsym n b,
    loopDefect_zero H β N L gate n b.1 hclosed, sub_zero]

/-- the defect tends to 0 when the open-walk mass does, on every Good configuration of the (finite) space -/
theorem loopDefect_tendsto (H : Ham) (β : Rat) (N L : Nat) (gate : Bool) (b : Config)
    (hopen : ∀ d ∈ goodSpace H N L,
      Filter.Tendsto (fun n : ℕ => ((openMass H.w n d : ℚ) : ℝ)) Filter.atTop (nhds 0)) :
    Filter.Tendsto (fun n : ℕ => ((loopDefect H β N L gate n b : ℚ) : ℝ)) Filter.atTop (nhds 0) := by
  have hsum : Filter.Tendsto (fun n : ℕ => ∑ d ∈ goodSpace H N L,
      ((configWeight H β d : ℚ) : ℝ) * ((openMass H.w n d : ℚ) : ℝ) *
        ((PT.law (restStepT gate d) b : ℚ) : ℝ)) Filter.atTop
      (nhds (∑ d ∈ goodSpace H N L, ((configWeight H β d : ℚ) : ℝ) * 0 *
        ((PT.law (restStepT gate d) b : ℚ) : ℝ))) :=
    tendsto_finsetSum _ (fun d hd => ((hopen d hd).const_mul _).mul_const _)
  have h0 : (∑ d ∈ goodSpace H N L, ((configWeight H β d : ℚ) : ℝ) * 0 *
      ((PT.law (restStepT gate d) b : ℚ) : ℝ)) = 0 :=
    Finset.sum_eq_zero (fun d _ => by ring)
  rw [h0] at hsum
  have e : (fun n : ℕ => ((loopDefect H β N L gate n b : ℚ) : ℝ)) =
      fun n : ℕ => ∑ d ∈ goodSpace H N L, ((configWeight H β d : ℚ) : ℝ) *
        ((openMass H.w n d : ℚ) : ℝ) * ((PT.law (restStepT gate d) b : ℚ) : ℝ) := by
    funext n
    unfold loopDefect
    push_cast
    rfl
  rw [e]
  exact hsum

/-- **invariance in the limit**: if the walk closes with probability 1 from every Good configuration
(`openMass n → 0`), the measure the step with `n` visits of fuel produces from the SSE cut measure converges to
the SSE cut measure -/
theorem genericLoopStep_tendsto_cut (H : Ham) (β : Rat) (hβ : 0 < β) (hw : ∀ b i o, 0 ≤ H.w b i o)
    (hNb : 0 < H.nbonds) (N L : Nat) (hV : VarsOK H N) (hp : VarsPos H) (gate : Bool)
    (hsym : gate = true → ClusterSym H (fun _ => false) (cfgSpace H N L))
    (hopen : ∀ d ∈ goodSpace H N L,
      Filter.Tendsto (fun n : ℕ => ((openMass H.w n d : ℚ) : ℝ)) Filter.atTop (nhds 0))
    (b : (cfgSpace H N L : Finset Config)) :
    Filter.Tendsto (fun n : ℕ =>
        ((∑ a : (cfgSpace H N L : Finset Config), sseCutOn H β (cfgSpace H N L) a *
          lawK (cfgSpace H N L) (genericStepCfgLT H none true gate β L n) a b : ℚ) : ℝ))
      Filter.atTop (nhds ((sseCutOn H β (cfgSpace H N L) b : ℚ) : ℝ)) := by
  have e : (fun n : ℕ =>
        ((∑ a : (cfgSpace H N L : Finset Config), sseCutOn H β (cfgSpace H N L) a *
          lawK (cfgSpace H N L) (genericStepCfgLT H none true gate β L n) a b : ℚ) : ℝ)) =
      fun n : ℕ => ((sseCutOn H β (cfgSpace H N L) b : ℚ) : ℝ) - ((loopDefect H β N L gate n b.1 : ℚ) : ℝ) := by
    funext n
    rw [genericLoopStep_defect_cut H β hβ hw hNb N L hV hp gate hsym n b]
    push_cast
    rfl
  rw [e]
  have := (loopDefect_tendsto H β N L gate b.1 hopen).const_sub ((sseCutOn H β (cfgSpace H N L) b : ℚ) : ℝ)
  rwa [sub_zero] at this

/-! ### the generic sampler `Sampler.GenericSampler` with `do_loop_updates = true` -/

/-- **the executable generic sampler with loop updates, Metropolis**: hypotheses on the interaction list only -/
theorem genericSampler_loop_defect_cut (s : Sampler.GenericSampler) (N : Nat) (hV : VarsOK s.ham N)
    (hw : ∀ b i o, 0 ≤ s.ham.w b i o) (hNb : 0 < s.bonds.length) (hhb : s.doHeatbath = false)
    (hl : s.doLoop = true) (hp : VarsPos s.ham)
    (hsym : s.shouldCluster = true → ∀ b, b < s.bonds.length → s.ham.FlipSym b)
    (β : Rat) (hβ : 0 < β) (L n : Nat) (b : (cfgSpace s.ham N L : Finset Config)) :
    ∑ a : (cfgSpace s.ham N L : Finset Config), sseCutOn s.ham β (cfgSpace s.ham N L) a *
        lawK (cfgSpace s.ham N L)
          (genericStepCfgLT s.ham s.tableUsed s.doLoop s.shouldCluster β L n) a b =
      sseCutOn s.ham β (cfgSpace s.ham N L) b - loopDefect s.ham β N L s.shouldCluster n b.1 := by
  have ht : s.tableUsed = none := by
    unfold Sampler.GenericSampler.tableUsed; rw [hhb]; rfl
  rw [ht, hl]
  exact genericLoopStep_defect_cut s.ham β hβ hw hNb N L hV hp _
    (fun hg => generic_clusterSym s.bonds N L (hsym hg)) n b

/-! ### the script only shrinks along the diagonal update: fuel bound in terms of the incoming script -/

/-- every draw of the tree (whatever its outcome) leaves a script that is not longer -/
def PT.Shr {α : Type} : PT α → Prop
  | PT.ret _ => True
  | PT.node d k => (∀ rs, (d.run rs).2.script.length ≤ rs.script.length) ∧ ∀ i, PT.Shr (k i)

theorem PT.run_script_le {α : Type} : ∀ (t : PT α), PT.Shr t → ∀ rs,
    (t.run rs).2.script.length ≤ rs.script.length
  | PT.ret _, _, _ => le_refl _
  | PT.node d k, h, rs => by
    rw [PT.run_node]
    exact le_trans (PT.run_script_le (k _) (h.2 _) _) (h.1 rs)

theorem PT.Shr_bind {α β : Type} (f : α → PT β) (hf : ∀ a, PT.Shr (f a)) :
    ∀ (t : PT α), PT.Shr t → PT.Shr (PT.bind t f)
  | PT.ret a, _ => hf a
  | PT.node _ k, h => ⟨h.1, fun i => PT.Shr_bind f hf (k i) (h.2 i)⟩

theorem PT.Shr_map {α β : Type} (φ : α → β) (t : PT α) (h : PT.Shr t) : PT.Shr (PT.map φ t) :=
  PT.Shr_bind (fun a => PT.ret (φ a)) (fun a => (show PT.Shr (PT.ret (φ a)) from trivial)) t h

theorem genBool_script_le (s : RS) (p : Rat) : (s.genBool p).2.script.length ≤ s.script.length := by
  unfold RS.genBool
  split
  · exact le_refl _
  · split
    · exact le_refl _
    · simp only
      rw [noteMargin_script]
      exact next_script_le s

theorem genRangeF_script_le (s : RS) (t : Rat) : (s.genRangeF t).2.script.length ≤ s.script.length := by
  unfold RS.genRangeF
  split
  · exact le_refl _
  · exact next_script_le s

theorem PT.Shr_flip {α : Type} (p : Rat) (y n : PT α) (hy : PT.Shr y) (hn : PT.Shr n) :
    PT.Shr (PT.flip p y n) :=
  ⟨fun rs => genBool_script_le rs p, fun i => by show PT.Shr (if i = 1 then y else n); split <;> assumption⟩

theorem PT.Shr_pick {α : Type} (n : Nat) (k : Nat → PT α) (hk : ∀ i, PT.Shr (k i)) : PT.Shr (PT.pick n k) :=
  ⟨fun rs => genRange_script_le rs n, hk⟩

theorem PT.Shr_panic {α : Type} (t : PT α) (ht : PT.Shr t) : PT.Shr (PT.panic t) :=
  ⟨fun _ => le_refl _, fun _ => ht⟩

theorem PT.Shr_clipped {α : Type} (num den : Rat) (y n : PT α) (hy : PT.Shr y) (hn : PT.Shr n) :
    PT.Shr (PT.clipped num den y n) := by
  unfold PT.clipped
  split
  · exact hy
  · split
    · exact PT.Shr_panic n hn
    · exact PT.Shr_flip _ y n hy hn

theorem hbPick_script_le (ws : BW) (ok : Nat → Bool) (thr : Nat → Rat) (rs : RS) :
    ((Draw.hbPick ws ok thr).run rs).2.script.length ≤ rs.script.length := by
  have h1 := genRangeF_script_le rs 1
  have h2 := genRangeF_script_le (rs.genRangeF 1).2 ws.sum
  simp only [Draw.hbPick]
  split
  · simp only [noteMargin_script]; omega
  · simp only [noteMargin_script]; omega

theorem metropolisSlotT_shr (H : Ham) (β : Rat) (cutoff : Nat) (slot : Option Op) (st : List Bool) (n : Nat) :
    PT.Shr (metropolisSlotT H β cutoff slot st n) := by
  unfold metropolisSlotT
  split
  · split
    · simp only
      split
      · exact PT.Shr_panic _ trivial
      · exact PT.Shr_clipped _ _ _ _ trivial trivial
    · trivial
  · apply PT.Shr_pick
    intro b
    unfold metropolisInsertT
    simp only
    split
    · exact PT.Shr_panic _ trivial
    · exact PT.Shr_clipped _ _ _ _ trivial trivial

theorem heatBathSlotT_shr (H : Ham) (bw : BW) (β : Rat) (cutoff : Nat) (slot : Option Op) (st : List Bool)
    (n : Nat) : PT.Shr (heatBathSlotT H bw β cutoff slot st n) := by
  unfold heatBathSlotT
  split
  · split
    · split
      · exact PT.Shr_panic _ trivial
      · split
        · exact PT.Shr_panic _ trivial
        · simp only
          split
          · exact PT.Shr_panic _ trivial
          · exact PT.Shr_flip _ _ _ trivial trivial
    · trivial
  · split
    · exact PT.Shr_panic _ trivial
    · split
      · exact PT.Shr_panic _ trivial
      · simp only
        split
        · exact PT.Shr_panic _ trivial
        · refine PT.Shr_flip _ _ _ ⟨fun rs => hbPick_script_le _ _ _ rs, fun i => ?_⟩ trivial
          simp only
          split
          · exact PT.Shr_panic _ trivial
          · split <;> trivial

theorem sweepAuxT_shr (f : Option Op → List Bool → Nat → PT SlotOut) (hf : ∀ s st n, PT.Shr (f s st n)) :
    ∀ (sl : Slots) (st : List Bool) (n : Nat), PT.Shr (sweepAuxT f sl st n)
  | [], _, _ => trivial
  | s :: t, st, n => by
    unfold sweepAuxT
    exact PT.Shr_bind _ (fun r => PT.Shr_map _ _ (sweepAuxT_shr f hf t r.state r.n)) _ (hf s st n)

theorem diagUpdateT_shr (H : Ham) (bw : Option BW) (β : Rat) (cutoff : Nat) (c : Config) :
    PT.Shr (diagUpdateT H bw β cutoff c) := by
  unfold diagUpdateT
  cases bw with
  | none =>
    unfold metropolisSweepT sweepT
    exact PT.Shr_map _ _ (PT.Shr_map _ _ (sweepAuxT_shr _ (metropolisSlotT_shr H β cutoff) _ _ _))
  | some t =>
    unfold heatBathSweepT sweepT
    exact PT.Shr_map _ _ (PT.Shr_map _ _ (sweepAuxT_shr _ (heatBathSlotT_shr H t β cutoff) _ _ _))

/-- the diagonal update never lengthens the script -/
theorem genericDiagonalUpdate_script_le (s : Sampler.GenericSampler) (β : Rat) (rs : RS) :
    (Sampler.genericDiagonalUpdate s β rs).2.script.length ≤ rs.script.length := by
  unfold Sampler.genericDiagonalUpdate
  simp only
  rw [diagUpdate_refines]
  exact PT.run_script_le _ (diagUpdateT_shr _ _ _ _ _) rs

/-- **refinement of the generic whole step with the loop update, fuel bound on the incoming script**:
`Sampler.genericTimestep s β rs = (genericTimestepLT s β fuel).run rs` for every script shorter than the fuel -/
theorem genericTimestep_loop_refines' (s : Sampler.GenericSampler) (β : Rat) (rs : RS) (fuel : Nat)
    (hf : rs.script.length + 1 ≤ fuel) :
    Sampler.genericTimestep s β rs = (genericTimestepLT s β fuel).run rs :=
  genericTimestep_loop_refines s β rs fuel
    (by have := genericDiagonalUpdate_script_le s β rs; omega)

end Qmc.Law
