/-
Helper of `QmcProofs/ConfigMarginal.lean` (C01, marginal of the SSE weight over the sampler's configuration space).

The finite sets the re-indexing runs over, each with a membership characterisation and a SUM RULE (generic in the
summand, any additive commutative monoid):

  * `opsF H`     — the canonical operators of `H`: `⟨H.vars b, b, ins, outs, decide (ins = outs), H.const b⟩`, `b < H.nbonds`,
                   one input and one output value per variable.  `mem_opsF`: exactly the `Kernel.OpOf H` operators with
                   canonical tag.  `sum_opsF`: `Σ_{o ∈ opsF H} g o = Σ_{b < nb} Σ_ins Σ_outs g (mkOp H b ins outs)`.
  * `slotsF H L` — operator strings with `L` slots over `opsF H`.  `mem_slotsF`: length `L`, every stored operator
                   canonical.  `sum_slotsF_succ`: split off the first slot (empty, or one of the operators).

and the one-step unfolding of `propagate` on a canonical operator (`propagate_some_mkOp`): the operator is accepted iff
its recorded inputs are the current sub-state `readVars s (H.vars b)`.
-/
import QmcProofs.SSEConfig
import QmcProofs.KernelInvarianceComponents
import QmcProofs.Good
import Mathlib.Algebra.BigOperators.Group.Finset.Sigma
import Mathlib.Data.Finset.Sigma
import Mathlib.Data.Finset.Prod

open BigOperators Finset

namespace Qmc.Marginal
open Qmc Qmc.IsingSSE Qmc.PathSum Qmc.Kernel

/-! ### patterns as a finset -/

/-- all value lists of length `k` -/
def pats (k : Nat) : Finset (List Bool) := (patterns k).toFinset

theorem mem_pats {k : Nat} {l : List Bool} : l ∈ pats k ↔ l.length = k := by
  unfold pats; rw [List.mem_toFinset]; exact mem_patterns

theorem sum_patterns_eq {M : Type*} [AddCommMonoid M] (k : Nat) (f : List Bool → M) :
    ((patterns k).map f).sum = ∑ o ∈ pats k, f o := by
  unfold pats; rw [List.sum_toFinset _ (nodup_patterns k)]

/-! ### canonical operators -/

/-- the operator of bond `b` with values `i → o`, tag computed from the values (`edit_in_out`, `Op::diagonal`) -/
def mkOp (H : Ham) (b : Nat) (i o : List Bool) : Op :=
  { vars := H.vars b, bond := b, ins := i, outs := o, tagDiag := decide (i = o), const := H.const b }

/-- an operator of `H` (`Kernel.OpOf`: what membership in `cfgSpace` says) whose tag is a function of its values -/
def CanonOp (H : Ham) (o : Op) : Prop := OpOf H o ∧ o.tagDiag = decide (o.ins = o.outs)

theorem canonOp_eq_mkOp {H : Ham} {o : Op} (h : CanonOp H o) : o = mkOp H o.bond o.ins o.outs := by
  obtain ⟨⟨-, hv, hc, -, -⟩, ht⟩ := h
  cases o with
  | mk vars bond ins outs tag const =>
    simp only at hv hc ht
    subst hv hc
    simp only [mkOp, Op.mk.injEq, true_and, and_true]
    exact ht

theorem canonOp_mkOp {H : Ham} {b : Nat} {i o : List Bool} (hb : b < H.nbonds)
    (hi : i.length = (H.vars b).length) (ho : o.length = (H.vars b).length) : CanonOp H (mkOp H b i o) :=
  ⟨⟨hb, rfl, rfl, hi, ho⟩, rfl⟩

/-- index set of the canonical operators: bond, inputs, outputs -/
def opIdx (H : Ham) : Finset (Σ _ : Nat, List Bool × List Bool) :=
  (range H.nbonds).sigma fun b => pats (H.vars b).length ×ˢ pats (H.vars b).length

/-- the canonical operators of `H` -/
def opsF (H : Ham) : Finset Op := (opIdx H).image fun x => mkOp H x.1 x.2.1 x.2.2

theorem mkOp_injective (H : Ham) :
    Function.Injective (fun x : (Σ _ : Nat, List Bool × List Bool) => mkOp H x.1 x.2.1 x.2.2) := by
  rintro ⟨b, i, o⟩ ⟨b', i', o'⟩ h
  simp only [mkOp, Op.mk.injEq] at h
  obtain ⟨-, rfl, rfl, rfl, -, -⟩ := h
  rfl

theorem mem_opsF {H : Ham} {o : Op} : o ∈ opsF H ↔ CanonOp H o := by
  unfold opsF opIdx
  simp only [mem_image, mem_sigma, mem_range, mem_product, mem_pats]
  constructor
  · rintro ⟨⟨b, i, u⟩, ⟨hb, hi, hu⟩, rfl⟩
    exact canonOp_mkOp hb hi hu
  · intro h
    refine ⟨⟨o.bond, o.ins, o.outs⟩, ⟨h.1.1, ?_, ?_⟩, (canonOp_eq_mkOp h).symm⟩
    · simp only; rw [h.1.2.2.2.1, h.1.2.1]
    · simp only; rw [h.1.2.2.2.2, h.1.2.1]

/-- **sum over the canonical operators** = sum over bond, inputs, outputs -/
theorem sum_opsF {M : Type*} [AddCommMonoid M] (H : Ham) (g : Op → M) :
    ∑ o ∈ opsF H, g o
      = ∑ b ∈ range H.nbonds, ∑ i ∈ pats (H.vars b).length, ∑ o ∈ pats (H.vars b).length,
          g (mkOp H b i o) := by
  unfold opsF
  rw [Finset.sum_image (fun x _ y _ h => mkOp_injective H h)]
  unfold opIdx
  rw [Finset.sum_sigma]
  refine Finset.sum_congr rfl (fun b _ => ?_)
  rw [Finset.sum_product]

/-! ### operator strings -/

/-- contents of one slot: empty or a canonical operator -/
def optF (H : Ham) : Finset (Option Op) := insert none ((opsF H).map ⟨some, Option.some_injective _⟩)

theorem mem_optF {H : Ham} {x : Option Op} : x ∈ optF H ↔ ∀ o, x = some o → CanonOp H o := by
  unfold optF
  simp only [mem_insert, mem_map, Function.Embedding.coeFn_mk, mem_opsF]
  cases x with
  | none => simp
  | some o =>
    simp only [reduceCtorEq, Option.some.injEq, exists_eq_right, false_or]
    exact ⟨fun h o' e => e ▸ h, fun h => h o rfl⟩

theorem sum_optF {M : Type*} [AddCommMonoid M] (H : Ham) (g : Option Op → M) :
    ∑ x ∈ optF H, g x = g none + ∑ o ∈ opsF H, g (some o) := by
  unfold optF
  rw [Finset.sum_insert (by simp), Finset.sum_map]
  rfl

/-- operator strings with `L` slots over the canonical operators of `H` -/
def slotsF (H : Ham) : Nat → Finset Slots
  | 0 => {[]}
  | L + 1 => (optF H ×ˢ slotsF H L).image fun p => p.1 :: p.2

theorem mem_slotsF {H : Ham} : ∀ {L : Nat} {sl : Slots},
    sl ∈ slotsF H L ↔ sl.length = L ∧ ∀ o, some o ∈ sl → CanonOp H o
  | 0, sl => by
    simp only [slotsF, mem_singleton]
    constructor
    · rintro rfl; simp
    · rintro ⟨h, -⟩; exact List.length_eq_zero_iff.mp h
  | L + 1, sl => by
    simp only [slotsF, mem_image, mem_product, Prod.exists]
    constructor
    · rintro ⟨x, t, ⟨hx, ht⟩, rfl⟩
      obtain ⟨hl, ho⟩ := mem_slotsF.mp ht
      refine ⟨by simp [hl], ?_⟩
      intro o hmem
      rcases List.mem_cons.mp hmem with e | hmem
      · exact mem_optF.mp hx o e.symm
      · exact ho o hmem
    · rintro ⟨hl, ho⟩
      cases sl with
      | nil => simp at hl
      | cons x t =>
        refine ⟨x, t, ⟨?_, ?_⟩, rfl⟩
        · exact mem_optF.mpr (fun o e => ho o (by simp [e]))
        · exact mem_slotsF.mpr ⟨by simpa using hl, fun o h => ho o (List.mem_cons_of_mem _ h)⟩

/-- **sum over operator strings, first slot split off** -/
theorem sum_slotsF_succ {M : Type*} [AddCommMonoid M] (H : Ham) (L : Nat) (g : Slots → M) :
    ∑ sl ∈ slotsF H (L + 1), g sl
      = ∑ t ∈ slotsF H L, g (none :: t) + ∑ o ∈ opsF H, ∑ t ∈ slotsF H L, g (some o :: t) := by
  simp only [slotsF]
  rw [Finset.sum_image (by
    rintro ⟨x, t⟩ - ⟨x', t'⟩ - h
    simp only [List.cons.injEq] at h
    rw [h.1, h.2])]
  rw [Finset.sum_product, sum_optF]

theorem sum_slotsF_zero {M : Type*} [AddCommMonoid M] (H : Ham) (g : Slots → M) :
    ∑ sl ∈ slotsF H 0, g sl = g [] := by
  simp [slotsF]

/-! ### one step of `propagate` on a canonical operator -/

theorem zip_all_iff (s : List Bool) : ∀ (vars : List Nat) (ins : List Bool), ins.length = vars.length →
    (∀ v ∈ vars, v < s.length) →
    ((vars.zip ins).all (fun vb => s[vb.1]? == some vb.2) = true ↔ ins = readVars s vars)
  | [], ins, hl, _ => by
    have : ins = [] := List.length_eq_zero_iff.mp (by simpa using hl)
    subst this; simp [readVars]
  | v :: vs, [], hl, _ => by simp at hl
  | v :: vs, i :: is, hl, hr => by
    have ih := zip_all_iff s vs is (by simpa using hl) (fun w hw => hr w (List.mem_cons_of_mem _ hw))
    have hv : v < s.length := hr v (by simp)
    simp only [List.zip_cons_cons, List.all_cons, Bool.and_eq_true, ih, readVars, List.map_cons,
      List.cons.injEq, beq_iff_eq]
    rw [List.getD_eq_getElem?_getD, List.getElem?_eq_getElem hv]
    simp only [Option.some.injEq, Option.getD_some]
    constructor
    · rintro ⟨h1, h2⟩; exact ⟨h1.symm, h2⟩
    · rintro ⟨h1, h2⟩; exact ⟨h1.symm, h2⟩

theorem inputsMatch_mkOp_iff (H : Ham) (s : List Bool) (b : Nat) (i o : List Bool)
    (hi : i.length = (H.vars b).length) (hr : ∀ v ∈ H.vars b, v < s.length) :
    inputsMatch s (mkOp H b i o) = true ↔ i = readVars s (H.vars b) := by
  unfold inputsMatch
  exact zip_all_iff s (H.vars b) i hi hr

/-- a canonical operator is accepted iff its inputs are the current sub-state; the state then takes its outputs -/
theorem propagate_some_mkOp (H : Ham) (s : List Bool) (b : Nat) (i o : List Bool) (t : Slots)
    (hi : i.length = (H.vars b).length) (hr : ∀ v ∈ H.vars b, v < s.length) :
    propagate s (some (mkOp H b i o) :: t)
      = if i = readVars s (H.vars b) then propagate (writeVars s (H.vars b) o) t else none := by
  simp only [propagate, applyOp]
  by_cases h : i = readVars s (H.vars b)
  · rw [if_pos h, (inputsMatch_mkOp_iff H s b i o hi hr).mpr h]
    rfl
  · rw [if_neg h]
    have : inputsMatch s (mkOp H b i o) = false := by
      cases hm : inputsMatch s (mkOp H b i o)
      · rfl
      · exact absurd ((inputsMatch_mkOp_iff H s b i o hi hr).mp hm) h
    rw [this]
    rfl

theorem countOps_none_cons (t : Slots) : countOps (none :: t) = countOps t := by
  simp [countOps]

theorem countOps_some_cons (o : Op) (t : Slots) : countOps (some o :: t) = countOps t + 1 := by
  simp [countOps]

theorem countOps_le_length (t : Slots) : countOps t ≤ t.length := by
  unfold countOps; exact List.length_filter_le _ _

end Qmc.Marginal
