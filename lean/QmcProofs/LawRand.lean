import QmcProofs.LawTree
import QmcProofs.Diagonal
import Mathlib.Data.Finset.Card
import Mathlib.Data.Rat.Floor
import Mathlib.Tactic.Ring
import Mathlib.Tactic.Linarith
import Mathlib.Order.Interval.Finset.Nat

/-!
# The idealisation step: weights of the tree nodes vs. uniformly random 64-bit words

`PT.law` gives the `yes` branch of `flip p` the weight `p`.  Under a uniformly random 64-bit word the
decision `RS.genBool p` (= rand 0.8.8 `gen_bool`, validated against the real generator by `drv_rand`) is
`true` on exactly `⌊p·2^64⌋` of the `2^64` words:

* `genBool_count` — `#{u < 2^64 : (genBool (ofScript [u]) p).1 = true} = ⌊p·2^64⌋` for `0 ≤ p < 1`;
* `genBool_count_one` — for `p = 1` the answer is `true` without a draw;
* `genBool_frequency` — hence the exact frequency `⌊p·2^64⌋ / 2^64` lies in `(p − 2^-64, p]`
  (`floor_threshold_bounds`, exported as `Qmc.C08.threshold_is_probability`); it *equals* `p` whenever
  `p·2^64` is an integer (`genBool_frequency_exact`), e.g. for the fair coins of the cluster update and of
  the free-spin refresh (`genBool_half_count`).

`pick n` has weight `1/n` per outcome.  `RS.genRange n` is Lemire's multiply-and-reject
(`UniformInt::sample_single`, zone `n·2^lz − 1`):

* `genRange_single` — on a one-word script the word `u` is accepted with outcome `i` iff
  `i·2^64 ≤ u·n ≤ i·2^64 + zone`;
* `genRange_uniform` — **for every `i < n` exactly `2^lz` of the `2^64` words are accepted with outcome `i`**
  (`lz = lz64 n`, `2^63 ≤ n·2^lz < 2^64`: `lz64_bounds`): conditional on acceptance the outcome is *exactly*
  uniform, and a rejected word is followed by a fresh one, so `1/n` is the exact law of `genRange n` under
  i.i.d. uniform words (the statement about the infinite redraw loop itself is not formalised).
-/

open Finset

namespace Qmc.Law
open Qmc Qmc.RS

theorem genBool_single_iff (p : Rat) (h0 : 0 ≤ p) (h1 : p < 1) (u : Nat) (hu : u < two64) :
    ((RS.ofScript [u]).genBool p).1 = true ↔ (u : Int) < ⌊p * ((two64 : Nat) : Rat)⌋ :=
  genBool_true_iff (RS.ofScript [u]) p u [] rfl hu h0 h1

theorem floor_threshold_range (p : Rat) (h0 : 0 ≤ p) (h1 : p ≤ 1) :
    0 ≤ ⌊p * ((two64 : Nat) : Rat)⌋ ∧ ⌊p * ((two64 : Nat) : Rat)⌋ ≤ (two64 : Int) := by
  constructor
  · exact Int.floor_nonneg.mpr (mul_nonneg h0 (le_of_lt two64_pos))
  · have h : p * ((two64 : Nat) : Rat) ≤ ((two64 : Nat) : Rat) := by
      have := mul_le_mul_of_nonneg_right h1 (le_of_lt two64_pos)
      rwa [one_mul] at this
    have h2 := Int.floor_le_floor h
    rw [Int.floor_natCast] at h2
    exact h2

/-- **the counting fact behind `flip p`**: of the `2^64` equally likely words exactly `⌊p·2^64⌋` make
`gen_bool(p)` answer `true` -/
theorem genBool_count (p : Rat) (h0 : 0 ≤ p) (h1 : p < 1) :
    ((Finset.range two64).filter (fun u => ((RS.ofScript [u]).genBool p).1 = true)).card =
      ⌊p * ((two64 : Nat) : Rat)⌋.toNat := by
  obtain ⟨hT0, hT1⟩ := floor_threshold_range p h0 (le_of_lt h1)
  have e : (Finset.range two64).filter (fun u => ((RS.ofScript [u]).genBool p).1 = true) =
      Finset.range ⌊p * ((two64 : Nat) : Rat)⌋.toNat := by
    ext u
    simp only [Finset.mem_filter, Finset.mem_range]
    constructor
    · rintro ⟨hu, h⟩
      have := (genBool_single_iff p h0 h1 u hu).mp h
      omega
    · intro h
      have hu : u < two64 := by omega
      exact ⟨hu, (genBool_single_iff p h0 h1 u hu).mpr (by omega)⟩
  rw [e, Finset.card_range]

/-- `gen_bool(1.0)` answers `true` and consumes nothing -/
theorem genBool_count_one (rs : RS) : rs.genBool 1 = (true, rs) := by
  unfold genBool; simp

/-- the exact frequency of `true` is within `2^-64` below `p` -/
theorem genBool_frequency (p : Rat) (h0 : 0 ≤ p) (h1 : p < 1) :
    p - 1 / ((two64 : Nat) : Rat) <
      (((Finset.range two64).filter (fun u => ((RS.ofScript [u]).genBool p).1 = true)).card : Rat) /
        ((two64 : Nat) : Rat) ∧
    (((Finset.range two64).filter (fun u => ((RS.ofScript [u]).genBool p).1 = true)).card : Rat) /
        ((two64 : Nat) : Rat) ≤ p := by
  rw [genBool_count p h0 h1]
  have hT0 := (floor_threshold_range p h0 (le_of_lt h1)).1
  have hc : ((⌊p * ((two64 : Nat) : Rat)⌋.toNat : Nat) : Rat) = ((⌊p * ((two64 : Nat) : Rat)⌋ : Int) : Rat) := by
    have : ((⌊p * ((two64 : Nat) : Rat)⌋.toNat : Nat) : Int) = ⌊p * ((two64 : Nat) : Rat)⌋ := Int.toNat_of_nonneg hT0
    exact_mod_cast this
  rw [hc]
  exact floor_threshold_bounds p

/-- … and equal to `p` when `p·2^64` is an integer -/
theorem genBool_frequency_exact (p : Rat) (h0 : 0 ≤ p) (h1 : p < 1) (k : Nat)
    (hk : p * ((two64 : Nat) : Rat) = (k : Rat)) :
    (((Finset.range two64).filter (fun u => ((RS.ofScript [u]).genBool p).1 = true)).card : Rat) /
        ((two64 : Nat) : Rat) = p := by
  rw [genBool_count p h0 h1, hk, Int.floor_natCast, Int.toNat_natCast, ← hk]
  have := two64_pos
  field_simp

/-- the fair coin is exactly fair: `2^63` of the `2^64` words answer `true` -/
theorem genBool_half_count :
    (((Finset.range two64).filter (fun u => ((RS.ofScript [u]).genBool (1 / 2)).1 = true)).card : Rat) /
        ((two64 : Nat) : Rat) = 1 / 2 :=
  genBool_frequency_exact (1 / 2) (by norm_num) (by norm_num) (2 ^ 63) (by
    unfold two64; norm_num)

/-! ### `pick n`: exact uniformity of `gen_range(0..n)` over the accepted words -/

/-- the zone of `genRange n` is `n·2^lz − 1` with `2^63 ≤ n·2^lz < 2^64` -/
theorem lz64_bounds (n : Nat) (hn : 0 < n) (hn64 : n < two64) :
    2 ^ 63 ≤ n * 2 ^ lz64 n ∧ n * 2 ^ lz64 n < two64 := by
  have hne : n ≠ 0 := Nat.pos_iff_ne_zero.mp hn
  have hk : n.log2 < 64 := (Nat.log2_lt hne).mpr hn64
  have h1 := Nat.log2_self_le hne
  have h2 : n < 2 ^ (n.log2 + 1) := Nat.lt_log2_self
  unfold lz64 two64
  have e63 : (2 : Nat) ^ 63 = 2 ^ n.log2 * 2 ^ (63 - n.log2) := by
    rw [← Nat.pow_add]; congr 1; omega
  have e64 : (2 : Nat) ^ 64 = 2 ^ (n.log2 + 1) * 2 ^ (63 - n.log2) := by
    rw [← Nat.pow_add]; congr 1; omega
  have hp : 0 < 2 ^ (63 - n.log2) := Nat.pow_pos (by norm_num)
  constructor
  · rw [e63]; exact Nat.mul_le_mul_right _ h1
  · rw [e64]; exact Nat.mul_lt_mul_of_pos_right h2 hp

theorem ceil_le_iff (a n u : Nat) (hn : 0 < n) : (a + n - 1) / n ≤ u ↔ a ≤ u * n := by
  rw [← Nat.lt_succ_iff, Nat.div_lt_iff_lt_mul hn]
  have : (u + 1) * n = u * n + n := by ring
  rw [this]; omega

/-- the multiples `u·n` in a window of length `n·m` starting at `a`: exactly `m` values of `u` -/
theorem card_mul_window (n m a M : Nat) (hn : 0 < n) (hM : (a + n - 1) / n + m ≤ M) :
    ((Finset.range M).filter (fun u => a ≤ u * n ∧ u * n < a + n * m)).card = m := by
  have hc : ∀ u, (a + n - 1) / n ≤ u ↔ a ≤ u * n := fun u => ceil_le_iff a n u hn
  generalize (a + n - 1) / n = c at hM hc
  have h2 : ∀ u, u < c + m ↔ u * n < a + n * m := by
    intro u
    rw [← not_le, ← not_le (b := u * n)]
    apply not_congr
    have h8 : m * n = n * m := Nat.mul_comm _ _
    constructor
    · intro h
      have hm : m ≤ u := by omega
      have h4 : c ≤ u - m := by omega
      have h5 := (hc (u - m)).mp h4
      have h7 : u * n = (u - m) * n + m * n := by
        rw [← Nat.add_mul]; congr 1; omega
      omega
    · intro h
      have hm : m ≤ u := by
        by_contra hcc
        have : u * n < m * n := Nat.mul_lt_mul_of_pos_right (by omega) hn
        omega
      have h7 : u * n = (u - m) * n + m * n := by
        rw [← Nat.add_mul]; congr 1; omega
      have h5 : a ≤ (u - m) * n := by omega
      have := (hc (u - m)).mpr h5
      omega
  have hsub : (Finset.range M).filter (fun u => a ≤ u * n ∧ u * n < a + n * m) = Finset.Ico c (c + m) := by
    ext u
    simp only [Finset.mem_filter, Finset.mem_range, Finset.mem_Ico, ← hc u, ← h2 u]
    constructor
    · exact fun h => h.2
    · intro h
      exact ⟨by omega, h⟩
  rw [hsub, Nat.card_Ico]
  omega


/-- `gen_range(0..n)` on a one-word script: the word is accepted (no second word asked for) with outcome `i`
iff `u·n` lies in the window `[i·2^64, i·2^64 + zone]` -/
theorem genRange_single (n u i : Nat) (hn : 0 < n) (hu : u < two64) :
    (((RS.ofScript [u]).genRange n).2.short = false ∧ ((RS.ofScript [u]).genRange n).1 = i) ↔
      ((u * n) % two64 ≤ (n * 2 ^ lz64 n) % two64 - 1 ∧ (u * n) / two64 = i) := by
  have hne : n ≠ 0 := Nat.pos_iff_ne_zero.mp hn
  unfold genRange
  rw [if_neg hne]
  simp only [RS.ofScript, List.length_cons, List.length_nil, Nat.zero_add]
  show ((genRangeLoop n ((n * 2 ^ lz64 n) % two64 - 1) (1 + 1) { script := [u] }).2.short = false ∧
    (genRangeLoop n ((n * 2 ^ lz64 n) % two64 - 1) (1 + 1) { script := [u] }).1 = i) ↔ _
  simp only [genRangeLoop, RS.next, Nat.mod_eq_of_lt hu, Bool.false_eq_true, if_false]
  by_cases hacc : (u * n) % two64 ≤ (n * 2 ^ lz64 n) % two64 - 1
  · simp [hacc]
  · simp [hacc]

/-- **the counting fact behind `pick n`**: for every outcome `i < n`, exactly `2^lz` of the `2^64` equally
likely words are accepted by `gen_range(0..n)` with outcome `i` (Lemire's multiply-and-reject with the zone
`n·2^lz − 1`) — conditional on acceptance the outcome is exactly uniform, and a rejected word is followed by an
independent fresh word -/
theorem genRange_uniform (n : Nat) (hn : 0 < n) (hn64 : n < two64) (i : Nat) (hi : i < n) :
    ((Finset.range two64).filter (fun u => ((RS.ofScript [u]).genRange n).2.short = false ∧
      ((RS.ofScript [u]).genRange n).1 = i)).card = 2 ^ lz64 n := by
  obtain ⟨hZ1, hZ2⟩ := lz64_bounds n hn hn64
  have hM : 0 < two64 := by unfold two64; norm_num
  have hZmod : (n * 2 ^ lz64 n) % two64 = n * 2 ^ lz64 n := Nat.mod_eq_of_lt hZ2
  have hZpos : 0 < n * 2 ^ lz64 n := lt_of_lt_of_le (by norm_num) hZ1
  have hfilt : (Finset.range two64).filter (fun u => ((RS.ofScript [u]).genRange n).2.short = false ∧
      ((RS.ofScript [u]).genRange n).1 = i) =
      (Finset.range two64).filter (fun u => i * two64 ≤ u * n ∧ u * n < i * two64 + n * 2 ^ lz64 n) := by
    apply Finset.filter_congr
    intro u hu
    rw [genRange_single n u i hn (Finset.mem_range.mp hu), hZmod]
    have hdm := Nat.div_add_mod (u * n) two64
    have hml := Nat.mod_lt (u * n) hM
    constructor
    · rintro ⟨h1, h2⟩
      rw [h2, Nat.mul_comm] at hdm
      omega
    · rintro ⟨h1, h2⟩
      have hdiv : u * n / two64 = i := by
        rw [Nat.div_eq_iff hM]
        constructor
        · exact h1
        · have : (i + 1) * two64 = i * two64 + two64 := by ring
          omega
      rw [hdiv, Nat.mul_comm] at hdm
      exact ⟨by omega, hdiv⟩
  rw [hfilt]
  generalize 2 ^ lz64 n = m at hZ2 ⊢
  refine card_mul_window n m (i * two64) two64 hn ?_
  -- the window of the largest outcome still ends below 2^64
  generalize hcdef : (i * two64 + n - 1) / n = c
  have h1 : c * n ≤ i * two64 + n - 1 := by rw [← hcdef]; exact Nat.div_mul_le_self _ n
  by_contra hc
  have hc' : two64 + 1 ≤ c + m := by omega
  have h2 : (two64 + 1) * n ≤ (c + m) * n := Nat.mul_le_mul_right _ hc'
  have e1 : (c + m) * n = c * n + m * n := Nat.add_mul _ _ _
  have e2 : (two64 + 1) * n = two64 * n + n := by ring
  have e3 : two64 * n = n * two64 := Nat.mul_comm _ _
  have e4 : m * n = n * m := Nat.mul_comm _ _
  have h5 : i * two64 + two64 ≤ n * two64 := by
    have : (i + 1) * two64 ≤ n * two64 := Nat.mul_le_mul_right _ hi
    have e : (i + 1) * two64 = i * two64 + two64 := by ring
    omega
  omega

end Qmc.Law
