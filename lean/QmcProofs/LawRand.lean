import QmcProofs.LawTree
import QmcProofs.Diagonal
import Mathlib.Data.Finset.Card
import Mathlib.Data.Rat.Floor

/-!
# The idealisation step: weights of the tree nodes vs. uniformly random 64-bit words

`PT.law` gives the `yes` branch of `flip p` the weight `p`.  Under a uniformly random 64-bit word the
decision `RS.genBool p` (= rand 0.8.8 `gen_bool`, validated against the real generator by `drv_rand`) is
`true` on exactly `⌊p·2^64⌋` of the `2^64` words:

* `genBool_count` — `#{u < 2^64 : (genBool (ofScript [u]) p).1 = true} = ⌊p·2^64⌋` for `0 ≤ p < 1`;
* `genBool_count_one` — for `p = 1` the answer is `true` without a draw;
* `genBool_frequency` — hence the exact frequency `⌊p·2^64⌋ / 2^64` lies in `(p − 2^-64, p]`
  (`floor_threshold_bounds`, exported as `Qmc.C08.threshold_is_probability`); it *equals* `p` whenever
  `p·2^64` is an integer (`genBool_frequency_exact`), e.g. for the fair coins of the cluster update and of
  the free-spin refresh (`genBool_half_count`).

`pick n` has weight `1/n` per outcome.  `RS.genRange n` is Lemire's multiply-and-reject
(`UniformInt::sample_single`): `genRange_lt` (QmcProofs/RefinementSweep.lean) gives the range; the exact
uniformity over the accepted words is not proved anywhere in this development (see design_notes/Law.md).
-/

open Finset

namespace Qmc.Law
open Qmc Qmc.RS

theorem genBool_single_iff (p : Rat) (h0 : 0 ≤ p) (h1 : p < 1) (u : Nat) (hu : u < two64) :
    ((RS.ofScript [u]).genBool p).1 = true ↔ (u : Int) < ⌊p * ((two64 : Nat) : Rat)⌋ :=
  genBool_true_iff (RS.ofScript [u]) p u [] rfl hu h0 h1

theorem floor_threshold_range (p : Rat) (h0 : 0 ≤ p) (h1 : p ≤ 1) :
    0 ≤ ⌊p * ((two64 : Nat) : Rat)⌋ ∧ ⌊p * ((two64 : Nat) : Rat)⌋ ≤ (two64 : Int) := by
  constructor
  · exact Int.floor_nonneg.mpr (mul_nonneg h0 (le_of_lt two64_pos))
  · have h : p * ((two64 : Nat) : Rat) ≤ ((two64 : Nat) : Rat) := by
      have := mul_le_mul_of_nonneg_right h1 (le_of_lt two64_pos)
      rwa [one_mul] at this
    have h2 := Int.floor_le_floor h
    rw [Int.floor_natCast] at h2
    exact h2

/-- **the counting fact behind `flip p`**: of the `2^64` equally likely words exactly `⌊p·2^64⌋` make
`gen_bool(p)` answer `true` -/
theorem genBool_count (p : Rat) (h0 : 0 ≤ p) (h1 : p < 1) :
    ((Finset.range two64).filter (fun u => ((RS.ofScript [u]).genBool p).1 = true)).card =
      ⌊p * ((two64 : Nat) : Rat)⌋.toNat := by
  obtain ⟨hT0, hT1⟩ := floor_threshold_range p h0 (le_of_lt h1)
  have e : (Finset.range two64).filter (fun u => ((RS.ofScript [u]).genBool p).1 = true) =
      Finset.range ⌊p * ((two64 : Nat) : Rat)⌋.toNat := by
    ext u
    simp only [Finset.mem_filter, Finset.mem_range]
    constructor
    · rintro ⟨hu, h⟩
      have := (genBool_single_iff p h0 h1 u hu).mp h
      omega
    · intro h
      have hu : u < two64 := by omega
      exact ⟨hu, (genBool_single_iff p h0 h1 u hu).mpr (by omega)⟩
  rw [e, Finset.card_range]

/-- `gen_bool(1.0)` answers `true` and consumes nothing -/
theorem genBool_count_one (rs : RS) : rs.genBool 1 = (true, rs) := by
  unfold genBool; simp

/-- the exact frequency of `true` is within `2^-64` below `p` -/
theorem genBool_frequency (p : Rat) (h0 : 0 ≤ p) (h1 : p < 1) :
    p - 1 / ((two64 : Nat) : Rat) <
      (((Finset.range two64).filter (fun u => ((RS.ofScript [u]).genBool p).1 = true)).card : Rat) /
        ((two64 : Nat) : Rat) ∧
    (((Finset.range two64).filter (fun u => ((RS.ofScript [u]).genBool p).1 = true)).card : Rat) /
        ((two64 : Nat) : Rat) ≤ p := by
  rw [genBool_count p h0 h1]
  have hT0 := (floor_threshold_range p h0 (le_of_lt h1)).1
  have hc : ((⌊p * ((two64 : Nat) : Rat)⌋.toNat : Nat) : Rat) = ((⌊p * ((two64 : Nat) : Rat)⌋ : Int) : Rat) := by
    have : ((⌊p * ((two64 : Nat) : Rat)⌋.toNat : Nat) : Int) = ⌊p * ((two64 : Nat) : Rat)⌋ := Int.toNat_of_nonneg hT0
    exact_mod_cast this
  rw [hc]
  exact floor_threshold_bounds p

/-- … and equal to `p` when `p·2^64` is an integer -/
theorem genBool_frequency_exact (p : Rat) (h0 : 0 ≤ p) (h1 : p < 1) (k : Nat)
    (hk : p * ((two64 : Nat) : Rat) = (k : Rat)) :
    (((Finset.range two64).filter (fun u => ((RS.ofScript [u]).genBool p).1 = true)).card : Rat) /
        ((two64 : Nat) : Rat) = p := by
  rw [genBool_count p h0 h1, hk, Int.floor_natCast, Int.toNat_natCast, ← hk]
  have := two64_pos
  field_simp

/-- the fair coin is exactly fair: `2^63` of the `2^64` words answer `true` -/
theorem genBool_half_count :
    (((Finset.range two64).filter (fun u => ((RS.ofScript [u]).genBool (1 / 2)).1 = true)).card : Rat) /
        ((two64 : Nat) : Rat) = 1 / 2 :=
  genBool_frequency_exact (1 / 2) (by norm_num) (by norm_num) (2 ^ 63) (by
    unfold two64; norm_num)

end Qmc.Law
