/-
C11: `get_count` without bond counters (walk along `next_p`) equals the direct count.
-/
import QmcProofs.FastOpsOps

namespace Qmc
namespace FastOps

theorem countWalk_canon (nv : Nat) (nb : Option Nat) (s : Slots) (b : Nat) :
    ∀ (k p acc fuel : Nat), p + k = s.length → k ≤ fuel →
      countWalk (canon nv nb s) b fuel (nextFrom (occAt s) p (s.length - p)) acc
        = acc + countBond (s.drop p) b := by
  intro k
  induction k with
  | zero =>
    intro p acc fuel hk _
    have hp : p = s.length := by omega
    subst hp
    simp only [Nat.sub_self, nextFrom, List.drop_length]
    cases fuel <;> simp [countWalk, countBond]
  | succ k ih =>
    intro p acc fuel hk hfuel
    have hpL : p < s.length := by omega
    have hsub : s.length - p = (s.length - (p + 1)) + 1 := by omega
    have hdrop : s.drop p = s[p] :: s.drop (p + 1) := List.drop_eq_getElem_cons hpL
    cases hsp : slotAt s p with
    | none =>
      have hnf : nextFrom (occAt s) p (s.length - p) = nextFrom (occAt s) (p + 1) (s.length - (p + 1)) := by
        rw [hsub, nextFrom, occ_false_of_slotAt hsp]; simp
      have hsp' : s[p] = none := by
        unfold slotAt at hsp
        rw [List.getElem?_eq_getElem hpL] at hsp
        simpa using hsp
      rw [hnf, hdrop, countBond_cons, hsp', ih (p + 1) acc fuel (by omega) (by omega)]
      simp [bondIs]
    | some op =>
      have hnf : nextFrom (occAt s) p (s.length - p) = some p := by
        rw [hsub, nextFrom, occ_of_slotAt hsp]; simp
      have hsp' : s[p] = some op := by
        unfold slotAt at hsp
        rw [List.getElem?_eq_getElem hpL] at hsp
        simpa using hsp
      rw [hnf]
      cases fuel with
      | zero => omega
      | succ fuel =>
        have hnot : ¬ p > (canon nv nb s).ops.length := by rw [length_canon]; omega
        simp only [countWalk, hnot, if_false, getNode_canon, hsp, Option.map_some]
        have hnext : (canonNode s p op).nextP = nextFrom (occAt s) (p + 1) (s.length - (p + 1)) := rfl
        have hop : (canonNode s p op).op = op := rfl
        rw [hnext, hop, ih (p + 1) _ fuel (by omega) (by omega), hdrop, countBond_cons, hsp']
        simp only [bondIs]
        by_cases hb : (op.bond == b) = true <;> simp [hb] <;> omega

/-- `get_count` when there are no counters -/
theorem getCount_canon_none (nv : Nat) (s : Slots) (b : Nat) :
    (canon nv none s).getCount b = countBond s b := by
  have h := countWalk_canon nv none s b s.length 0 0 s.length (by omega) (Nat.le_refl _)
  simp only [Nat.sub_zero, List.drop_zero, Nat.zero_add] at h
  simp only [getCount, canon, Option.map_none, getFirstP]
  have hf : (canonEnds s).map (·.1) = nextFrom (occAt s) 0 s.length :=
    zipOpt_fst _ _ first_some_iff_last_some
  have : (canon nv none s).ops.length = s.length := length_canon nv none s
  simp only [canon, Option.map_none] at this h
  rw [hf, this]
  exact h

theorem countBond_zero (s : Slots) (b : Nat) (h : ∀ q op, slotAt s q = some op → op.bond ≠ b) :
    countBond s b = 0 := by
  rw [countBond_eq, List.length_eq_zero_iff, List.filter_eq_nil_iff]
  intro o ho
  obtain ⟨q, hq⟩ := List.mem_iff_getElem?.mp ho
  cases o with
  | none => simp [bondIs]
  | some op =>
    have : slotAt s q = some op := by unfold slotAt; rw [hq]; rfl
    have := h q op this
    simpa [bondIs] using this

/-- `get_count` for every bond, with or without counters -/
theorem getCount_canon (nv : Nat) (nb : Option Nat) (s : Slots) (hwf : WF nv nb s) (b : Nat) :
    (canon nv nb s).getCount b = countBond s b := by
  cases nb with
  | none => exact getCount_canon_none nv s b
  | some k =>
    by_cases hb : b < k
    · exact getCount_canon_counters nv k s b hb
    · have h0 : countBond s b = 0 := by
        apply countBond_zero
        intro q op hq e
        have := (hwf q op hq).2.2.2 k rfl
        omega
      rw [h0]
      simp only [getCount, canon, Option.map_some]
      rw [List.getD_eq_getElem?_getD, List.getElem?_eq_none (by simpa using Nat.le_of_not_lt hb)]
      rfl

end FastOps
end Qmc
