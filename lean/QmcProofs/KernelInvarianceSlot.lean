import QmcProofs.KernelInvarianceLib
import QmcProps.C08
import QmcProps.C02

/-!
# The diagonal update as a Markov kernel on configurations (helper of `KernelInvariance.lean`)

`slotKM H β p` / `slotKHB H bw β p` are the one-slot kernels of the Metropolis / heat-bath diagonal
update at slot `p`, as functions `Config → Config → ℚ`, built with `movesK` from

* the proposal `slotFlip H p b` (an involution on *all* configurations): an empty slot `p` receives
  `canonOp H c p b` — the diagonal operator of bond `b` on the sub-state read from the rolling state
  at slot `p`, literally the operator `metropolisSlot` / `heatBathSlot` insert — and a slot holding
  exactly that operator is emptied; anything else (off-diagonal operator, slot out of range, an
  operator that is not the canonical diagonal one) is a fixed point;
* the probabilities `pInsertM`/`pRemoveM` (`pInsertHB`/`pRemoveHB`) of `QmcModel/Diagonal.lean`
  (`HeatBath.lean`), evaluated with the cutoff `c.slots.length` and the *current* operator count
  `countOps c.slots` of the configuration the kernel acts on.
-/

open Finset

namespace Qmc.Kernel
open Qmc Qmc.Dist

/-! ### slots, rolling state, canonical operator -/

/-- the rolling state of the sweep (`sweepAux` threads it): only operators tagged off-diagonal
write their outputs -/
def rollState (st : List Bool) : Slots → List Bool
  | [] => st
  | none :: t => rollState st t
  | some o :: t => if o.tagDiag then rollState st t else rollState (writeVars st o.vars o.outs) t

/-- the rolling state with which slot `p` is visited -/
def stateAt (c : Config) (p : Nat) : List Bool := rollState c.state (c.slots.take p)

/-- diagonal weight of bond `b` at the rolling state of slot `p` -/
def curW (H : Ham) (c : Config) (p b : Nat) : Rat :=
  H.w b (readVars (stateAt c p) (H.vars b)) (readVars (stateAt c p) (H.vars b))

/-- the operator both diagonal updates insert for bond `b` at slot `p` -/
def canonOp (H : Ham) (c : Config) (p b : Nat) : Op :=
  Op.diagonal (H.vars b) b (readVars (stateAt c p) (H.vars b)) (H.const b)

def setSlot (c : Config) (p : Nat) (x : Option Op) : Config := { c with slots := c.slots.set p x }

@[simp] theorem setSlot_state (c : Config) (p : Nat) (x : Option Op) : (setSlot c p x).state = c.state := rfl
@[simp] theorem setSlot_slots (c : Config) (p : Nat) (x : Option Op) :
    (setSlot c p x).slots = c.slots.set p x := rfl
@[simp] theorem setSlot_length (c : Config) (p : Nat) (x : Option Op) :
    (setSlot c p x).slots.length = c.slots.length := by simp

@[simp] theorem stateAt_setSlot (c : Config) (p : Nat) (x : Option Op) :
    stateAt (setSlot c p x) p = stateAt c p := by
  simp only [stateAt, setSlot_state, setSlot_slots, List.take_set_of_le (Nat.le_refl p)]

@[simp] theorem canonOp_setSlot (H : Ham) (c : Config) (p b : Nat) (x : Option Op) :
    canonOp H (setSlot c p x) p b = canonOp H c p b := by simp [canonOp]

@[simp] theorem curW_setSlot (H : Ham) (c : Config) (p b : Nat) (x : Option Op) :
    curW H (setSlot c p x) p b = curW H c p b := by simp [curW]

theorem canonOp_weight (H : Ham) (c : Config) (p b : Nat) :
    H.w (canonOp H c p b).bond (canonOp H c p b).ins (canonOp H c p b).outs = curW H c p b := rfl

theorem setSlot_setSlot (c : Config) (p : Nat) (x y : Option Op) :
    setSlot (setSlot c p x) p y = setSlot c p y := by
  simp [setSlot, List.set_set]

theorem setSlot_self {c : Config} {p : Nat} {x : Option Op} (h : c.slots[p]? = some x) :
    setSlot c p x = c := by
  obtain ⟨hp, hx⟩ := List.getElem?_eq_some_iff.mp h
  cases c with
  | mk st sl =>
    simp only [setSlot, Config.mk.injEq, true_and]
    simp only at hp hx
    rw [← hx]; exact List.set_getElem_self hp

theorem getElem?_setSlot {c : Config} {p : Nat} (hp : p < c.slots.length) (x : Option Op) :
    (setSlot c p x).slots[p]? = some x := by
  simp [List.getElem?_set_self hp]

theorem lt_of_getElem? {c : Config} {p : Nat} {x : Option Op} (h : c.slots[p]? = some x) :
    p < c.slots.length := (List.getElem?_eq_some_iff.mp h).1

theorem slots_split {c : Config} {p : Nat} {x : Option Op} (h : c.slots[p]? = some x) :
    c.slots = c.slots.take p ++ x :: c.slots.drop (p + 1) := by
  obtain ⟨hp, hx⟩ := List.getElem?_eq_some_iff.mp h
  rw [← hx, List.getElem_cons_drop hp, List.take_append_drop]

theorem setSlot_split {c : Config} {p : Nat} (hp : p < c.slots.length) (y : Option Op) :
    setSlot c p y = { state := c.state, slots := c.slots.take p ++ y :: c.slots.drop (p + 1) } := by
  simp only [setSlot, List.set_eq_take_append_cons_drop, if_pos hp]

theorem countOps_le : ∀ (s : Slots), countOps s ≤ s.length := by
  intro s; unfold countOps; exact List.length_filter_le _ _

theorem countOps_split_none (pre post : Slots) :
    countOps (pre ++ none :: post) < (pre ++ none :: post).length := by
  rw [countOps_append, countOps_cons]
  have h1 := countOps_le pre
  have h2 := countOps_le post
  simp only [cnt, Option.isSome_none, Bool.false_eq_true, if_false, List.length_append,
    List.length_cons]
  omega

theorem countOps_split_some (pre post : Slots) (o : Op) :
    countOps (pre ++ some o :: post) = countOps (pre ++ none :: post) + 1 := by
  simp only [countOps_append, countOps_cons, cnt, Option.isSome_some, if_true, Option.isSome_none,
    Bool.false_eq_true, if_false]
  omega

/-! ### the proposal -/

/-- empty slot ↔ the canonical diagonal operator of bond `b`; everything else is a fixed point -/
def slotFlip (H : Ham) (p b : Nat) (c : Config) : Config :=
  match c.slots[p]? with
  | some none => setSlot c p (some (canonOp H c p b))
  | some (some o) => if o = canonOp H c p b then setSlot c p none else c
  | none => c

theorem slotFlip_empty {H : Ham} {p b : Nat} {c : Config} (h : c.slots[p]? = some none) :
    slotFlip H p b c = setSlot c p (some (canonOp H c p b)) := by
  simp only [slotFlip, h]

theorem slotFlip_canon {H : Ham} {p b : Nat} {c : Config}
    (h : c.slots[p]? = some (some (canonOp H c p b))) : slotFlip H p b c = setSlot c p none := by
  simp only [slotFlip, h, if_true]

/-- where the proposal moves a configuration whose slot is not empty, the slot holds the canonical
operator -/
theorem slotFlip_moves {H : Ham} {p b : Nat} {c : Config} (hm : slotFlip H p b c ≠ c) :
    c.slots[p]? = some none ∨ c.slots[p]? = some (some (canonOp H c p b)) := by
  unfold slotFlip at hm
  cases h : c.slots[p]? with
  | none => rw [h] at hm; exact absurd rfl hm
  | some x =>
    cases x with
    | none => exact Or.inl rfl
    | some o =>
      rw [h] at hm
      simp only at hm
      by_cases ho : o = canonOp H c p b
      · rw [ho]; exact Or.inr rfl
      · rw [if_neg ho] at hm; exact absurd rfl hm

theorem slotFlip_invol (H : Ham) (p b : Nat) (c : Config) : slotFlip H p b (slotFlip H p b c) = c := by
  by_cases hm : slotFlip H p b c = c
  · rw [hm, hm]
  · rcases slotFlip_moves hm with h | h
    · have hp := lt_of_getElem? h
      rw [slotFlip_empty h]
      have h' : (setSlot c p (some (canonOp H c p b))).slots[p]? =
          some (some (canonOp H (setSlot c p (some (canonOp H c p b))) p b)) := by
        rw [getElem?_setSlot hp, canonOp_setSlot]
      rw [slotFlip_canon h', setSlot_setSlot, setSlot_self h]
    · have hp := lt_of_getElem? h
      rw [slotFlip_canon h]
      have h' : (setSlot c p none).slots[p]? = some none := getElem?_setSlot hp none
      rw [slotFlip_empty h', setSlot_setSlot, canonOp_setSlot, setSlot_self h]

/-- the proposal keeps the `p = 0` state, the cutoff and every other slot -/
theorem slotFlip_state (H : Ham) (p b : Nat) (c : Config) : (slotFlip H p b c).state = c.state := by
  unfold slotFlip; split
  · rfl
  · split <;> rfl
  · rfl

theorem slotFlip_length (H : Ham) (p b : Nat) (c : Config) :
    (slotFlip H p b c).slots.length = c.slots.length := by
  unfold slotFlip; split
  · simp
  · split <;> simp
  · rfl

theorem slotFlip_other (H : Ham) (p b : Nat) (c : Config) (q : Nat) (hq : q ≠ p) :
    (slotFlip H p b c).slots[q]? = c.slots[q]? := by
  unfold slotFlip; split
  · simp [List.getElem?_set_ne (Ne.symm hq)]
  · split
    · simp [List.getElem?_set_ne (Ne.symm hq)]
    · rfl
  · rfl

/-! ### the one-slot kernels -/

/-- probability of the proposal `slotFlip H p b` under the Metropolis update: `pInsertM` on an empty
slot, `pRemoveM` on an operator, both with the current cutoff and count -/
def slotProbM (H : Ham) (β : Rat) (p b : Nat) (c : Config) : Rat :=
  match c.slots[p]? with
  | some none => pInsertM β H.nbonds (curW H c p b) c.slots.length (countOps c.slots)
  | some (some _) => pRemoveM β H.nbonds (curW H c p b) c.slots.length (countOps c.slots)
  | none => 0

/-- … under the heat-bath update with table `bw` (total `bw.sum`, entry `bw.getD b 0`) -/
def slotProbHB (H : Ham) (bw : BW) (β : Rat) (p b : Nat) (c : Config) : Rat :=
  match c.slots[p]? with
  | some none => pInsertHB β bw.sum (bw.getD b 0) (curW H c p b) c.slots.length (countOps c.slots)
  | some (some _) => pRemoveHB β bw.sum c.slots.length (countOps c.slots)
  | none => 0

/-- **Metropolis single-slot kernel** -/
def slotKM (H : Ham) (β : Rat) (p : Nat) : Config → Config → Rat :=
  movesK (fun b : Fin H.nbonds => slotFlip H p b.val) (fun b => slotProbM H β p b.val)

/-- **heat-bath single-slot kernel** -/
def slotKHB (H : Ham) (bw : BW) (β : Rat) (p : Nat) : Config → Config → Rat :=
  movesK (fun b : Fin bw.length => slotFlip H p b.val) (fun b => slotProbHB H bw β p b.val)

/-- from balance on empty slots to balance wherever the proposal moves (the other case is the
same equation read from the other end) -/
theorem slot_balance_of_empty (H : Ham) (π : Config → Rat) (p b : Nat) (A : Config → Rat)
    (hempty : ∀ c, c.slots[p]? = some none →
      π c * A c = π (slotFlip H p b c) * A (slotFlip H p b c)) :
    ∀ c, slotFlip H p b c ≠ c → π c * A c = π (slotFlip H p b c) * A (slotFlip H p b c) := by
  intro c hm
  rcases slotFlip_moves hm with h | h
  · exact hempty c h
  · have hp := lt_of_getElem? h
    have h' : (slotFlip H p b c).slots[p]? = some none := by
      rw [slotFlip_canon h]; exact getElem?_setSlot hp none
    have := hempty _ h'
    rw [slotFlip_invol] at this
    exact this.symm

theorem pInsertM_zero (β : Rat) (Nb L n : Nat) : pInsertM β Nb 0 L n = 0 := by
  unfold pInsertM accInsM clipProb
  have : ¬ (β * (Nb : Rat) * 0 > ((L - n : Nat) : Rat)) := by
    rw [mul_zero]; exact not_lt.mpr (by positivity)
  rw [if_neg this]; simp

theorem pInsertHB_zero (β W mw : Rat) (L n : Nat) : pInsertHB β W mw 0 L n = 0 := by
  unfold pInsertHB; simp

/-- detailed balance of one Metropolis proposal on an empty slot (`detailed_balance_M`; a bond of
weight 0 is never proposed and its configuration has weight 0) -/
theorem slotM_balance_empty (H : Ham) (β : Rat) (hβ : 0 < β) (hNb : 0 < H.nbonds)
    (hw : ∀ b i, 0 ≤ H.w b i i) (p b : Nat) (c : Config) (h : c.slots[p]? = some none) :
    configWeight H β c * slotProbM H β p b c =
      configWeight H β (slotFlip H p b c) * slotProbM H β p b (slotFlip H p b c) := by
  have hp := lt_of_getElem? h
  rw [slotFlip_empty h]
  have hc : c = { state := c.state, slots := c.slots.take p ++ none :: c.slots.drop (p + 1) } := by
    cases c with
    | mk st sl => simp only [Config.mk.injEq, true_and]; exact slots_split h
  have hc' := setSlot_split hp (some (canonOp H c p b))
  have hA : slotProbM H β p b c =
      pInsertM β H.nbonds (curW H c p b) c.slots.length (countOps c.slots) := by
    simp only [slotProbM, h]
  have hA' : slotProbM H β p b (setSlot c p (some (canonOp H c p b))) =
      pRemoveM β H.nbonds (curW H c p b) c.slots.length
        (countOps (setSlot c p (some (canonOp H c p b))).slots) := by
    simp only [slotProbM, getElem?_setSlot hp, curW_setSlot, setSlot_length]
  rw [hA, hA']
  generalize hpre : c.slots.take p = pre at hc hc'
  generalize hpost : c.slots.drop (p + 1) = post at hc hc'
  have hsl : c.slots = pre ++ none :: post := by rw [hc]
  have hsl' : (setSlot c p (some (canonOp H c p b))).slots = pre ++ some (canonOp H c p b) :: post := by
    rw [hc']
  have e1 : configWeight H β c = configWeight H β { state := c.state, slots := pre ++ none :: post } := by
    rw [← hc]
  have e2 : configWeight H β (setSlot c p (some (canonOp H c p b))) =
      configWeight H β { state := c.state, slots := pre ++ some (canonOp H c p b) :: post } := by
    rw [hc']
  rw [hsl', countOps_split_some, hsl, e1, e2]
  have hn := countOps_split_none pre post
  rcases (hw b (readVars (stateAt c p) (H.vars b))).lt_or_eq with hpos | hzero
  · have := Qmc.C08.detailed_balance_M H β c.state pre post (canonOp H c p b) hβ hNb
      (by rw [canonOp_weight]; exact hpos) hn
    rw [canonOp_weight] at this
    exact this
  · have hz : curW H c p b = 0 := hzero.symm
    have hws := Qmc.C08.weight_step H β c.state pre post (canonOp H c p b) hn
    rw [canonOp_weight, hz] at hws
    rw [hws, hz, pInsertM_zero]
    simp

/-- the same for the heat-bath proposal (`heatbath_detailed_balance`), for any table whose entries
dominate the diagonal weights and whose total is positive -/
theorem slotHB_balance_empty (H : Ham) (bw : BW) (β : Rat) (hβ : 0 < β) (hW : 0 < bw.sum)
    (hw : ∀ b i, 0 ≤ H.w b i i)
    (htab : ∀ b, b < bw.length → ∀ st : List Bool,
      H.w b (readVars st (H.vars b)) (readVars st (H.vars b)) ≤ bw.getD b 0)
    (p b : Nat) (hb : b < bw.length) (c : Config) (h : c.slots[p]? = some none) :
    configWeight H β c * slotProbHB H bw β p b c =
      configWeight H β (slotFlip H p b c) * slotProbHB H bw β p b (slotFlip H p b c) := by
  have hp := lt_of_getElem? h
  rw [slotFlip_empty h]
  have hc : c = { state := c.state, slots := c.slots.take p ++ none :: c.slots.drop (p + 1) } := by
    cases c with
    | mk st sl => simp only [Config.mk.injEq, true_and]; exact slots_split h
  have hc' := setSlot_split hp (some (canonOp H c p b))
  have hA : slotProbHB H bw β p b c =
      pInsertHB β bw.sum (bw.getD b 0) (curW H c p b) c.slots.length (countOps c.slots) := by
    simp only [slotProbHB, h]
  have hA' : slotProbHB H bw β p b (setSlot c p (some (canonOp H c p b))) =
      pRemoveHB β bw.sum c.slots.length (countOps (setSlot c p (some (canonOp H c p b))).slots) := by
    simp only [slotProbHB, getElem?_setSlot hp, setSlot_length]
  rw [hA, hA']
  generalize hpre : c.slots.take p = pre at hc hc'
  generalize hpost : c.slots.drop (p + 1) = post at hc hc'
  have hsl : c.slots = pre ++ none :: post := by rw [hc]
  have hsl' : (setSlot c p (some (canonOp H c p b))).slots = pre ++ some (canonOp H c p b) :: post := by
    rw [hc']
  have e1 : configWeight H β c = configWeight H β { state := c.state, slots := pre ++ none :: post } := by
    rw [← hc]
  have e2 : configWeight H β (setSlot c p (some (canonOp H c p b))) =
      configWeight H β { state := c.state, slots := pre ++ some (canonOp H c p b) :: post } := by
    rw [hc']
  rw [hsl', countOps_split_some, hsl, e1, e2]
  have hn := countOps_split_none pre post
  have := Qmc.C02.heatbath_detailed_balance H β bw.sum (bw.getD b 0) c.state pre post (canonOp H c p b)
    hβ hW (by rw [canonOp_weight]; exact hw _ _) (by rw [canonOp_weight]; exact htab b hb _) hn
  rw [canonOp_weight] at this
  exact this

/-- **`slot_kernel_reversible`, Metropolis**: detailed balance of the single-slot kernel with respect
to the SSE weight, for every Hamiltonian with non-negative diagonal weights, every β > 0, slot,
cutoff and configuration. -/
theorem slotKM_reversible (H : Ham) (β : Rat) (hβ : 0 < β) (hw : ∀ b i, 0 ≤ H.w b i i) (p : Nat) :
    Reversible (configWeight H β) (slotKM H β p) := by
  by_cases hNb : 0 < H.nbonds
  · exact movesK_reversible (fun b c => slotFlip_invol H p b.val c)
      (fun b => slot_balance_of_empty H (configWeight H β) p b.val (slotProbM H β p b.val)
        (slotM_balance_empty H β hβ hNb hw p b.val))
  · exact movesK_reversible (fun b c => slotFlip_invol H p b.val c)
      (fun b => absurd (lt_of_le_of_lt (Nat.zero_le _) b.isLt) hNb)

/-- **`slot_kernel_reversible`, heat bath**: the same with `pInsertHB` / `pRemoveHB` and any valid
table (every entry dominates the bond's diagonal weights, total positive). -/
theorem slotKHB_reversible (H : Ham) (bw : BW) (β : Rat) (hβ : 0 < β) (hW : 0 < bw.sum)
    (hw : ∀ b i, 0 ≤ H.w b i i)
    (htab : ∀ b, b < bw.length → ∀ st : List Bool,
      H.w b (readVars st (H.vars b)) (readVars st (H.vars b)) ≤ bw.getD b 0) (p : Nat) :
    Reversible (configWeight H β) (slotKHB H bw β p) :=
  movesK_reversible (fun b c => slotFlip_invol H p b.val c)
    (fun b => slot_balance_of_empty H (configWeight H β) p b.val (slotProbHB H bw β p b.val)
      (slotHB_balance_empty H bw β hβ hW hw htab p b.val b.isLt))

/-- the table the code builds is valid in the sense of `slotKHB_reversible` -/
theorem makeBondWeights_valid (H : Ham) :
    ∀ b, b < (makeBondWeights H).length → ∀ st : List Bool,
      H.w b (readVars st (H.vars b)) (readVars st (H.vars b)) ≤ (makeBondWeights H).getD b 0 := by
  intro b hb st
  rw [makeBondWeights_length] at hb
  exact (Qmc.C02.real_table_valid H b hb st).1

/-! ### conservation of probability on a set closed under the proposals -/

theorem slotKM_rowSumOn (H : Ham) (β : Rat) (p : Nat) {S : Finset Config}
    (hcl : ∀ b, b < H.nbonds → ∀ c ∈ S, slotFlip H p b c ∈ S) : RowSumOn S (slotKM H β p) :=
  movesK_rowSumOn (fun b c hc => hcl b.val b.isLt c hc)

theorem slotKHB_rowSumOn (H : Ham) (bw : BW) (β : Rat) (p : Nat) {S : Finset Config}
    (hcl : ∀ b, b < bw.length → ∀ c ∈ S, slotFlip H p b c ∈ S) : RowSumOn S (slotKHB H bw β p) :=
  movesK_rowSumOn (fun b c hc => hcl b.val b.isLt c hc)

end Qmc.Kernel
