/-
C09 / Law, stage 2: the navigation tables `mkNav sk` (QmcModel/ClusterExact.lean).
-/
import QmcProofs.ClusterTraverse
import QmcProofs.ClusterComponents

namespace Qmc

abbrev PN := Array (Array (Nat × Nat))
abbrev FL := Array (Option (Nat × Nat))

/-- the inner step of `mkNav` (one variable of the op at `p`) -/
def navVarStep (p : Nat) (st : PN × PN × FL × FL) (kv : Nat × Nat) : PN × PN × FL × FL :=
  let (prev, next, first, last) := st
  let (k, v) := kv
  match last[v]! with
  | some (p', k') => (setPN prev p k (p', k'), setPN next p' k' (p, k), first, last.set! v (some (p, k)))
  | none => (prev, next, first.set! v (some (p, k)), last.set! v (some (p, k)))

/-- the outer step of `mkNav` (position `p`) -/
def navPosStep (ops : Array (Option SkOp)) (acc : Nat × Array Nat × PN × PN × FL × FL) (p : Nat) :
    Nat × Array Nat × PN × PN × FL × FL :=
  let (o, offs, prev, next, first, last) := acc
  match ops[p]! with
  | none => (o, offs.push o, prev, next, first, last)
  | some op =>
    let (prev, next, first, last) :=
      ((List.range op.vars.length).zip op.vars).foldl (navVarStep p) (prev, next, first, last)
    (o + 2 * op.vars.length, offs.push o, prev, next, first, last)

def navCloseStep (first last : FL) (st : PN × PN) (v : Nat) : PN × PN :=
  match first[v]!, last[v]! with
  | some (pf, kf), some (pl, kl) => (setPN st.1 pf kf (pl, kl), setPN st.2 pl kl (pf, kf))
  | _, _ => st

def navUB (sk : Skel) : Nat :=
  sk.foldl (fun m o => match o with
    | some o => o.vars.foldl (fun m v => max m (v + 1)) m
    | none => m) 0

def navBlank (sk : Skel) : PN :=
  sk.toArray.map fun o => match o with
    | some o => Array.replicate o.vars.length (0, 0)
    | none => #[]

def navMain (sk : Skel) (P : Nat) : Nat × Array Nat × PN × PN × FL × FL :=
  (List.range P).foldl (navPosStep sk.toArray)
    (0, #[], navBlank sk, navBlank sk, Array.replicate (navUB sk) none, Array.replicate (navUB sk) none)

def navClose (sk : Skel) (V : Nat) : PN × PN :=
  (List.range V).foldl (navCloseStep (navMain sk sk.length).2.2.2.2.1 (navMain sk sk.length).2.2.2.2.2)
    ((navMain sk sk.length).2.2.1, (navMain sk sk.length).2.2.2.1)

theorem mkNav_eq (sk : Skel) : mkNav sk =
    { ops := sk.toArray, off := (navMain sk sk.length).2.1, prev := (navClose sk (navUB sk)).1,
      next := (navClose sk (navUB sk)).2, nlegs := (navMain sk sk.length).1 } := by
  rfl

/-! ### nested arrays -/

/-- entry `x = (p, k)` of a table -/
def g2 (a : PN) (x : Nat × Nat) : Nat × Nat := (a[x.1]!)[x.2]!

theorem getElem!_modify (a : PN) (p : Nat) (f : Array (Nat × Nat) → Array (Nat × Nat)) (q : Nat) :
    (a.modify p f)[q]! = if p = q ∧ p < a.size then f a[q]! else a[q]! := by
  simp only [Array.getElem!_eq_getD, Array.getD_eq_getD_getElem?, Array.getElem?_modify]
  by_cases h : p = q
  · subst h
    by_cases h2 : p < a.size
    · simp [h2]
    · simp [h2]
  · simp [h]

theorem setPN_size (a : PN) (p k : Nat) (v : Nat × Nat) : (setPN a p k v).size = a.size := by
  simp [setPN]

theorem setPN_inner (a : PN) (p k : Nat) (v : Nat × Nat) (q : Nat) :
    ((setPN a p k v)[q]!).size = (a[q]!).size := by
  unfold setPN
  rw [getElem!_modify]
  split
  · simp [Array.set!_eq_setIfInBounds]
  · rfl

theorem g2_setPN (a : PN) (p k : Nat) (v : Nat × Nat) (x : Nat × Nat) (hp : p < a.size) (hk : k < (a[p]!).size) :
    g2 (setPN a p k v) x = if x = (p, k) then v else g2 a x := by
  obtain ⟨x1, x2⟩ := x
  unfold g2 setPN
  simp only [getElem!_modify]
  by_cases h1 : p = x1
  · subst h1
    simp only [hp, and_self, if_true, getElem!_set!_gen, hk, and_true, Prod.mk.injEq, true_and]
    by_cases h2 : k = x2
    · simp [h2]
    · have : ¬ x2 = k := fun e => h2 e.symm
      simp [h2, this]
  · have : ¬ x1 = p := fun e => h1 e.symm
    simp [h1, this]

/-! ### invariant of the main fold -/

section nav
variable (ops : Array (Option SkOp)) (UB : Nat)

def nvOf (p : Nat) : Nat := match ops[p]! with | some o => o.vars.length | none => 0
def varOf (a : Nat × Nat) : Nat := match ops[a.1]! with | some o => o.vars.getD a.2 0 | none => 0
def NValid (a : Nat × Nat) : Prop := a.1 < ops.size ∧ a.2 < nvOf ops a.1

/-- invariant of the tables while the occurrences in `proc` have been processed -/
structure JInv (proc : Nat × Nat → Prop) (st : PN × PN × FL × FL) : Prop where
  szP : st.1.size = ops.size ∧ ∀ q, (st.1[q]!).size = nvOf ops q
  szN : st.2.1.size = ops.size ∧ ∀ q, (st.2.1[q]!).size = nvOf ops q
  szF : st.2.2.1.size = UB
  szL : st.2.2.2.size = UB
  fl : ∀ w : Nat, st.2.2.1[w]! = none ↔ st.2.2.2[w]! = none
  fOK : ∀ (w : Nat) (a : Nat × Nat), st.2.2.1[w]! = some a → NValid ops a ∧ proc a ∧ varOf ops a = w
  lOK : ∀ (w : Nat) (a : Nat × Nat), st.2.2.2[w]! = some a → NValid ops a ∧ proc a ∧ varOf ops a = w
  seen : ∀ a, NValid ops a → proc a → st.2.2.2[varOf ops a]! ≠ none
  jp : ∀ a, NValid ops a → proc a → st.2.2.1[varOf ops a]! = some a ∨
    (NValid ops (g2 st.1 a) ∧ proc (g2 st.1 a) ∧ g2 st.2.1 (g2 st.1 a) = a ∧
      varOf ops (g2 st.1 a) = varOf ops a ∧ st.2.2.2[varOf ops a]! ≠ some (g2 st.1 a))
  jn : ∀ a, NValid ops a → proc a → st.2.2.2[varOf ops a]! = some a ∨
    (NValid ops (g2 st.2.1 a) ∧ proc (g2 st.2.1 a) ∧ g2 st.1 (g2 st.2.1 a) = a ∧
      varOf ops (g2 st.2.1 a) = varOf ops a ∧ st.2.2.1[varOf ops a]! ≠ some (g2 st.2.1 a))

variable {ops UB}

theorem JInv.congr {proc proc' : Nat × Nat → Prop} {st : PN × PN × FL × FL} (h : JInv ops UB proc st)
    (hp : ∀ a, NValid ops a → (proc a ↔ proc' a)) : JInv ops UB proc' st := by
  refine ⟨h.szP, h.szN, h.szF, h.szL, h.fl, ?_, ?_, ?_, ?_, ?_⟩
  · intro w a ha
    obtain ⟨h1, h2, h3⟩ := h.fOK w a ha
    exact ⟨h1, (hp a h1).mp h2, h3⟩
  · intro w a ha
    obtain ⟨h1, h2, h3⟩ := h.lOK w a ha
    exact ⟨h1, (hp a h1).mp h2, h3⟩
  · intro a ha hpa; exact h.seen a ha ((hp a ha).mpr hpa)
  · intro a ha hpa
    rcases h.jp a ha ((hp a ha).mpr hpa) with h' | ⟨h1, h2, h3, h4, h5⟩
    · exact Or.inl h'
    · exact Or.inr ⟨h1, (hp _ h1).mp h2, h3, h4, h5⟩
  · intro a ha hpa
    rcases h.jn a ha ((hp a ha).mpr hpa) with h' | ⟨h1, h2, h3, h4, h5⟩
    · exact Or.inl h'
    · exact Or.inr ⟨h1, (hp _ h1).mp h2, h3, h4, h5⟩

/-- one variable of one op -/
theorem JInv.step {proc : Nat × Nat → Prop} {st : PN × PN × FL × FL} (h : JInv ops UB proc st) (p k : Nat)
    (hn : NValid ops (p, k)) (hnp : ¬ proc (p, k)) (hv : varOf ops (p, k) < UB) :
    JInv ops UB (fun a => proc a ∨ a = (p, k)) (navVarStep p st (k, varOf ops (p, k))) := by
  obtain ⟨prev, next, first, last⟩ := st
  have hne : ∀ a, proc a → a ≠ (p, k) := fun a ha e => hnp (e ▸ ha)
  have hvL : varOf ops (p, k) < last.size := by rw [h.szL]; exact hv
  have hvF : varOf ops (p, k) < first.size := by rw [h.szF]; exact hv
  cases hl : last[varOf ops (p, k)]! with
  | none =>
    have hf : first[varOf ops (p, k)]! = none := (h.fl _).mpr hl
    have hst : navVarStep p (prev, next, first, last) (k, varOf ops (p, k)) =
        (prev, next, first.set! (varOf ops (p, k)) (some (p, k)), last.set! (varOf ops (p, k)) (some (p, k))) := by
      simp only [navVarStep, hl]
    rw [hst]
    have hF : ∀ w, (first.set! (varOf ops (p, k)) (some (p, k)))[w]! =
        if w = varOf ops (p, k) then some (p, k) else first[w]! := by
      intro w; rw [getElem!_set!_gen]
      by_cases e : varOf ops (p, k) = w
      · simp [e, e ▸ hvF]
      · have : ¬ w = varOf ops (p, k) := fun e' => e e'.symm
        simp [e, this]
    have hL : ∀ w, (last.set! (varOf ops (p, k)) (some (p, k)))[w]! =
        if w = varOf ops (p, k) then some (p, k) else last[w]! := by
      intro w; rw [getElem!_set!_gen]
      by_cases e : varOf ops (p, k) = w
      · simp [e, e ▸ hvL]
      · have : ¬ w = varOf ops (p, k) := fun e' => e e'.symm
        simp [e, this]
    -- no processed occurrence of this variable
    have hfresh : ∀ a, NValid ops a → proc a → varOf ops a ≠ varOf ops (p, k) := by
      intro a ha hpa e
      exact h.seen a ha hpa (by rw [e]; exact hl)
    refine ⟨h.szP, h.szN, by simp only [size_set!_gen]; exact h.szF, by simp only [size_set!_gen]; exact h.szL,
      ?_, ?_, ?_, ?_, ?_, ?_⟩
    · intro w; simp only [hF, hL]
      by_cases e : w = varOf ops (p, k)
      · simp [e]
      · simp only [e, if_false]; exact h.fl w
    · intro w a ha; simp only [hF] at ha
      by_cases e : w = varOf ops (p, k)
      · simp only [e, if_true, Option.some.injEq] at ha
        subst ha; exact ⟨hn, Or.inr rfl, e.symm⟩
      · simp only [e, if_false] at ha
        obtain ⟨h1, h2, h3⟩ := h.fOK w a ha
        exact ⟨h1, Or.inl h2, h3⟩
    · intro w a ha; simp only [hL] at ha
      by_cases e : w = varOf ops (p, k)
      · simp only [e, if_true, Option.some.injEq] at ha
        subst ha; exact ⟨hn, Or.inr rfl, e.symm⟩
      · simp only [e, if_false] at ha
        obtain ⟨h1, h2, h3⟩ := h.lOK w a ha
        exact ⟨h1, Or.inl h2, h3⟩
    · intro a ha hpa; simp only [hL]
      rcases hpa with hpa | rfl
      · rw [if_neg (hfresh a ha hpa)]; exact h.seen a ha hpa
      · simp
    · intro a ha hpa; simp only [hF, hL]
      rcases hpa with hpa | rfl
      · rw [if_neg (hfresh a ha hpa)]
        rcases h.jp a ha hpa with h' | ⟨h1, h2, h3, h4, h5⟩
        · exact Or.inl h'
        · exact Or.inr ⟨h1, Or.inl h2, h3, h4, by rw [if_neg (hfresh a ha hpa)]; exact h5⟩
      · left; simp
    · intro a ha hpa; simp only [hF, hL]
      rcases hpa with hpa | rfl
      · rw [if_neg (hfresh a ha hpa)]
        rcases h.jn a ha hpa with h' | ⟨h1, h2, h3, h4, h5⟩
        · exact Or.inl h'
        · exact Or.inr ⟨h1, Or.inl h2, h3, h4, by rw [if_neg (hfresh a ha hpa)]; exact h5⟩
      · left; simp
  | some a0 =>
    obtain ⟨ha0v, ha0p, ha0w⟩ := h.lOK _ a0 hl
    have ha0n : a0 ≠ (p, k) := hne a0 ha0p
    have hst : navVarStep p (prev, next, first, last) (k, varOf ops (p, k)) =
        (setPN prev p k a0, setPN next a0.1 a0.2 (p, k), first, last.set! (varOf ops (p, k)) (some (p, k))) := by
      simp only [navVarStep, hl]
    rw [hst]
    have hL : ∀ w, (last.set! (varOf ops (p, k)) (some (p, k)))[w]! =
        if w = varOf ops (p, k) then some (p, k) else last[w]! := by
      intro w; rw [getElem!_set!_gen]
      by_cases e : varOf ops (p, k) = w
      · simp [e, e ▸ hvL]
      · have : ¬ w = varOf ops (p, k) := fun e' => e e'.symm
        simp [e, this]
    have hP : ∀ x, g2 (setPN prev p k a0) x = if x = (p, k) then a0 else g2 prev x :=
      fun x => g2_setPN prev p k a0 x (by rw [h.szP.1]; exact hn.1) (by rw [h.szP.2]; exact hn.2)
    have hN : ∀ x, g2 (setPN next a0.1 a0.2 (p, k)) x = if x = a0 then (p, k) else g2 next x :=
      fun x => g2_setPN next a0.1 a0.2 (p, k) x (by rw [h.szN.1]; exact ha0v.1) (by rw [h.szN.2]; exact ha0v.2)
    have hfirst : ∀ f, first[varOf ops (p, k)]! = some f → f ≠ (p, k) := fun f hf => hne f (h.fOK _ f hf).2.1
    have hfsome : first[varOf ops (p, k)]! ≠ none := fun e => by rw [(h.fl _).mp e] at hl; cases hl
    refine ⟨⟨by rw [setPN_size]; exact h.szP.1, fun q => by rw [setPN_inner]; exact h.szP.2 q⟩,
      ⟨by rw [setPN_size]; exact h.szN.1, fun q => by rw [setPN_inner]; exact h.szN.2 q⟩, h.szF,
      by simp only [size_set!_gen]; exact h.szL, ?_, ?_, ?_, ?_, ?_, ?_⟩
    · intro w; simp only [hL]
      by_cases e : w = varOf ops (p, k)
      · simp only [e, if_true]; constructor
        · intro h'; exact absurd h' hfsome
        · intro h'; cases h'
      · simp only [e, if_false]; exact h.fl w
    · intro w a ha
      obtain ⟨h1, h2, h3⟩ := h.fOK w a ha
      exact ⟨h1, Or.inl h2, h3⟩
    · intro w a ha; simp only [hL] at ha
      by_cases e : w = varOf ops (p, k)
      · simp only [e, if_true, Option.some.injEq] at ha
        subst ha; exact ⟨hn, Or.inr rfl, e.symm⟩
      · simp only [e, if_false] at ha
        obtain ⟨h1, h2, h3⟩ := h.lOK w a ha
        exact ⟨h1, Or.inl h2, h3⟩
    · intro a ha hpa; simp only [hL]
      by_cases e : varOf ops a = varOf ops (p, k)
      · simp [e]
      · rw [if_neg e]
        rcases hpa with hpa | rfl
        · exact h.seen a ha hpa
        · exact absurd rfl e
    · -- predecessor links
      intro a ha hpa; simp only [hP, hN, hL]
      rcases hpa with hpa | rfl
      · have han : a ≠ (p, k) := hne a hpa
        rw [if_neg han]
        rcases h.jp a ha hpa with h' | ⟨h1, h2, h3, h4, h5⟩
        · exact Or.inl h'
        · right
          have h4' : varOf ops (g2 prev a) = varOf ops a := h4
          have hb0 : g2 prev a ≠ a0 := by
            intro e
            apply h5
            show last[varOf ops a]! = some (g2 prev a)
            rw [← h4', e, ha0w]; exact hl
          refine ⟨h1, Or.inl h2, by rw [if_neg hb0]; exact h3, h4, ?_⟩
          by_cases e : varOf ops a = varOf ops (p, k)
          · rw [if_pos e]; intro e'; exact hne _ h2 (Option.some.inj e').symm
          · rw [if_neg e]; exact h5
      · right
        rw [if_pos rfl, if_pos rfl, if_pos rfl]
        exact ⟨ha0v, Or.inl ha0p, rfl, ha0w, fun e => ha0n (Option.some.inj e).symm⟩
    · -- successor links
      intro a ha hpa; simp only [hP, hN, hL]
      rcases hpa with hpa | rfl
      · have han : a ≠ (p, k) := hne a hpa
        by_cases ea0 : a = a0
        · right
          subst ea0
          rw [if_pos rfl, if_pos rfl]
          refine ⟨hn, Or.inr rfl, rfl, ha0w.symm, ?_⟩
          rw [ha0w]
          intro e; exact hfirst _ e rfl
        · rw [if_neg ea0]
          rcases h.jn a ha hpa with h' | ⟨h1, h2, h3, h4, h5⟩
          · left
            have : varOf ops a ≠ varOf ops (p, k) := by
              intro e; rw [e, hl] at h'; exact ea0 (Option.some.inj h').symm
            rw [if_neg this]; exact h'
          · right
            refine ⟨h1, Or.inl h2, by rw [if_neg (hne _ h2)]; exact h3, h4, h5⟩
      · left; simp

/-- all variables of one op -/
theorem JInv.fold (p : Nat) : ∀ (kvs : List (Nat × Nat)) (proc : Nat × Nat → Prop) (st : PN × PN × FL × FL),
    JInv ops UB proc st → (kvs.map Prod.fst).Nodup →
    (∀ kv ∈ kvs, NValid ops (p, kv.1) ∧ varOf ops (p, kv.1) = kv.2 ∧ ¬ proc (p, kv.1) ∧ kv.2 < UB) →
    JInv ops UB (fun a => proc a ∨ ∃ kv ∈ kvs, a = (p, kv.1)) (kvs.foldl (navVarStep p) st)
  | [], proc, st, h, _, _ => h.congr (fun a _ => by simp)
  | kv :: t, proc, st, h, hnd, hall => by
    obtain ⟨h1, h2, h3, h4⟩ := hall kv (List.mem_cons_self ..)
    simp only [List.map_cons, List.nodup_cons] at hnd
    have hs := h.step p kv.1 h1 h3 (by rw [h2]; exact h4)
    rw [h2] at hs
    have := JInv.fold p t _ _ hs hnd.2 (fun kv' hkv' => by
      obtain ⟨g1, g2, g3, g4⟩ := hall kv' (List.mem_cons_of_mem _ hkv')
      refine ⟨g1, g2, ?_, g4⟩
      rintro (h' | h')
      · exact g3 h'
      · apply hnd.1
        rw [← (Prod.mk.inj h').2]
        exact List.mem_map_of_mem hkv')
    simp only [List.foldl_cons]
    refine this.congr (fun a _ => ?_)
    simp only [List.mem_cons, exists_eq_or_imp]
    tauto

end nav

/-! ### the bound on the variables -/

theorem navUB_foldl_max (l : List Nat) (m : Nat) :
    m ≤ l.foldl (fun m v => max m (v + 1)) m ∧ ∀ v ∈ l, v < l.foldl (fun m v => max m (v + 1)) m := by
  induction l generalizing m with
  | nil => simp
  | cons x t ih =>
    simp only [List.foldl_cons, List.mem_cons]
    obtain ⟨h1, h2⟩ := ih (max m (x + 1))
    refine ⟨by omega, ?_⟩
    rintro v (rfl | hv)
    · omega
    · exact h2 v hv

theorem navUB_spec : ∀ (sk : Skel) (m : Nat),
    m ≤ sk.foldl (fun m o => match o with
      | some o => o.vars.foldl (fun m v => max m (v + 1)) m
      | none => m) m ∧
    ∀ o, some o ∈ sk → ∀ v ∈ o.vars, v < sk.foldl (fun m o => match o with
      | some o => o.vars.foldl (fun m v => max m (v + 1)) m
      | none => m) m
  | [], m => by simp
  | none :: t, m => by
    obtain ⟨h1, h2⟩ := navUB_spec t m
    simp only [List.foldl_cons]
    exact ⟨h1, fun o ho v hv => h2 o (by simpa using ho) v hv⟩
  | some o1 :: t, m => by
    obtain ⟨h1, h2⟩ := navUB_spec t (o1.vars.foldl (fun m v => max m (v + 1)) m)
    obtain ⟨g1, g2⟩ := navUB_foldl_max o1.vars m
    simp only [List.foldl_cons]
    refine ⟨by omega, fun o ho v hv => ?_⟩
    simp only [List.mem_cons, Option.some.injEq] at ho
    rcases ho with rfl | ho
    · have := g2 v hv; omega
    · exact h2 o ho v hv

theorem lt_navUB (sk : Skel) (o : SkOp) (ho : some o ∈ sk) (v : Nat) (hv : v ∈ o.vars) : v < navUB sk :=
  (navUB_spec sk 0).2 o ho v hv

/-! ### the main fold -/

theorem toArray_getElem! (sk : Skel) (p : Nat) (x : Option SkOp) (h : sk[p]? = some x) : sk.toArray[p]! = x := by
  simp [Array.getElem!_eq_getD, Array.getD_eq_getD_getElem?, h]

theorem toArray_getElem!_none (sk : Skel) (p : Nat) (h : sk.length ≤ p) : sk.toArray[p]! = none := by
  simp [Array.getElem!_eq_getD, Array.getD_eq_getD_getElem?, List.getElem?_eq_none h]
  rfl

theorem navMain_succ (sk : Skel) (P : Nat) : navMain sk (P + 1) = navPosStep sk.toArray (navMain sk P) P := by
  unfold navMain
  rw [List.range_succ, List.foldl_append]
  rfl

/-- well-formedness of a skeleton: no op lists a variable twice -/
def SkNodup (sk : Skel) : Prop := ∀ o, some o ∈ sk → o.vars.Nodup

theorem navBlank_size (sk : Skel) : (navBlank sk).size = sk.toArray.size := by simp [navBlank]

theorem navBlank_inner (sk : Skel) (q : Nat) : ((navBlank sk)[q]!).size = nvOf sk.toArray q := by
  unfold navBlank nvOf
  by_cases hq : q < sk.length
  · have h1 : sk[q]? = some sk[q] := List.getElem?_eq_getElem hq
    rw [toArray_getElem! sk q _ h1]
    simp only [Array.getElem!_eq_getD, Array.getD_eq_getD_getElem?, Array.getElem?_map, List.getElem?_toArray, h1,
      Option.map_some, Option.getD_some]
    cases sk[q] <;> simp
  · have hq' : sk.length ≤ q := Nat.le_of_not_lt hq
    rw [toArray_getElem!_none sk q hq']
    simp [Array.getElem!_eq_getD, Array.getD_eq_getD_getElem?, List.getElem?_eq_none hq']
    rfl

theorem getElem!_replicate_none' (n i : Nat) : (Array.replicate n (none : Option (Nat × Nat)))[i]! = none := by
  simp only [Array.getElem!_eq_getD, Array.getD_eq_getD_getElem?, Array.getElem?_replicate]
  split <;> rfl

theorem navMain_inv (sk : Skel) (hnd : SkNodup sk) : ∀ P, P ≤ sk.length →
    JInv sk.toArray (navUB sk) (fun a => a.1 < P) (navMain sk P).2.2 ∧
    (navMain sk P).1 = ∑ q ∈ Finset.range P, 2 * nvOf sk.toArray q ∧
    (navMain sk P).2.1.size = P ∧
    ∀ p, p < P → (navMain sk P).2.1[p]! = ∑ q ∈ Finset.range p, 2 * nvOf sk.toArray q
  | 0, _ => by
    refine ⟨⟨⟨navBlank_size sk, navBlank_inner sk⟩, ⟨navBlank_size sk, navBlank_inner sk⟩, by simp [navMain],
      by simp [navMain], fun w => ?_, fun w a h => ?_, fun w a h => ?_, fun a _ h => absurd h (Nat.not_lt_zero _),
      fun a _ h => absurd h (Nat.not_lt_zero _), fun a _ h => absurd h (Nat.not_lt_zero _)⟩, by simp [navMain],
      by simp [navMain], fun p hp => absurd hp (Nat.not_lt_zero _)⟩
    · simp [navMain, getElem!_replicate_none']
    · simp [navMain, getElem!_replicate_none'] at h
    · simp [navMain, getElem!_replicate_none'] at h
  | P + 1, hP => by
    obtain ⟨ih1, ih2, ih3, ih4⟩ := navMain_inv sk hnd P (by omega)
    rw [navMain_succ]
    generalize navMain sk P = acc at ih1 ih2 ih3 ih4
    obtain ⟨o, offs, prev, next, first, last⟩ := acc
    simp only at ih1 ih2 ih3 ih4
    have hPl : P < sk.length := by omega
    have hget : sk[P]? = some sk[P] := List.getElem?_eq_getElem hPl
    have hops : sk.toArray[P]! = sk[P] := toArray_getElem! sk P _ hget
    have hoff : ∀ p, p < P + 1 → (offs.push o)[p]! = ∑ q ∈ Finset.range p, 2 * nvOf sk.toArray q := by
      intro p hp
      rw [getElem!_push]
      by_cases h : p < offs.size
      · rw [if_pos h]; exact ih4 p (by rw [ih3] at h; exact h)
      · have : p = offs.size := by rw [ih3] at h ⊢; omega
        rw [if_neg h, if_pos this, ih2, this, ih3]
    cases hsk : sk[P] with
    | none =>
      have hstep : navPosStep sk.toArray (o, offs, prev, next, first, last) P =
          (o, offs.push o, prev, next, first, last) := by
        simp only [navPosStep, hops, hsk]
      rw [hstep]
      have hnv : nvOf sk.toArray P = 0 := by simp only [nvOf, hops, hsk]
      refine ⟨ih1.congr (fun a ha => ?_), ?_, by simp [ih3], hoff⟩
      · constructor
        · intro h; show a.1 < P + 1; have : a.1 < P := h; omega
        · intro h
          have h : a.1 < P + 1 := h
          show a.1 < P
          rcases Nat.lt_succ_iff_lt_or_eq.mp h with h' | h'
          · exact h'
          · have := ha.2; rw [h', hnv] at this; omega
      · rw [Finset.sum_range_succ, hnv]; show o = _; rw [ih2]; omega
    | some op =>
      have hstep : navPosStep sk.toArray (o, offs, prev, next, first, last) P =
          (o + 2 * op.vars.length, offs.push o,
            ((List.range op.vars.length).zip op.vars).foldl (navVarStep P) (prev, next, first, last)) := by
        simp only [navPosStep, hops, hsk]
      rw [hstep]
      have hnv : nvOf sk.toArray P = op.vars.length := by simp only [nvOf, hops, hsk]
      have hmem : some op ∈ sk := by rw [← hsk]; exact List.getElem_mem hPl
      have hfold := JInv.fold (ops := sk.toArray) (UB := navUB sk) P ((List.range op.vars.length).zip op.vars) _ _ ih1
        (by rw [List.map_fst_zip (by simp)]; exact List.nodup_range)
        (by
          intro kv hkv
          have hk := (mem_zip_range op.vars kv).mp hkv
          have hklt := getElem?_lt hk
          refine ⟨⟨by simp; exact hPl, by rw [hnv]; exact hklt⟩, ?_, fun h => Nat.lt_irrefl _ h,
            lt_navUB sk op hmem _ (List.mem_of_getElem? hk)⟩
          simp only [varOf, hops, hsk]
          rw [List.getD_eq_getElem?_getD, hk]; rfl)
      refine ⟨hfold.congr (fun a ha => ?_), ?_, by simp [ih3], hoff⟩
      · constructor
        · rintro (h | ⟨kv, hkv, rfl⟩)
          · show a.1 < P + 1; have : a.1 < P := h; omega
          · show P < P + 1; omega
        · intro h
          have h : a.1 < P + 1 := h
          rcases Nat.lt_succ_iff_lt_or_eq.mp h with h' | h'
          · exact Or.inl h'
          · right
            have h2 := ha.2
            rw [h', hnv] at h2
            refine ⟨(a.2, op.vars[a.2]), (mem_zip_range op.vars _).mpr (List.getElem?_eq_getElem h2), ?_⟩
            obtain ⟨a1, a2⟩ := a
            simp only at h' ⊢
            rw [h']
      · rw [Finset.sum_range_succ, hnv]; show o + 2 * op.vars.length = _; rw [ih2]

/-! ### closing the world lines -/

section close
variable (ops : Array (Option SkOp)) (first last : FL)

/-- invariant of the closing fold after the variables `< V` -/
structure KInv (V : Nat) (st : PN × PN) : Prop where
  szP : st.1.size = ops.size ∧ ∀ q, (st.1[q]!).size = nvOf ops q
  szN : st.2.size = ops.size ∧ ∀ q, (st.2[q]!).size = nvOf ops q
  kp : ∀ a, NValid ops a → (V ≤ varOf ops a ∧ first[varOf ops a]! = some a) ∨
    (NValid ops (g2 st.1 a) ∧ g2 st.2 (g2 st.1 a) = a ∧ varOf ops (g2 st.1 a) = varOf ops a ∧
      (V ≤ varOf ops a → last[varOf ops a]! ≠ some (g2 st.1 a)))
  kn : ∀ a, NValid ops a → (V ≤ varOf ops a ∧ last[varOf ops a]! = some a) ∨
    (NValid ops (g2 st.2 a) ∧ g2 st.1 (g2 st.2 a) = a ∧ varOf ops (g2 st.2 a) = varOf ops a ∧
      (V ≤ varOf ops a → first[varOf ops a]! ≠ some (g2 st.2 a)))

variable {ops first last}

theorem KInv.step {V : Nat} {st : PN × PN} (h : KInv ops first last V st)
    (hfl : first[V]! = none ↔ last[V]! = none)
    (hf : ∀ a, first[V]! = some a → NValid ops a ∧ varOf ops a = V)
    (hl : ∀ a, last[V]! = some a → NValid ops a ∧ varOf ops a = V)
    (hseen : ∀ a, NValid ops a → last[varOf ops a]! ≠ none) :
    KInv ops first last (V + 1) (navCloseStep first last st V) := by
  obtain ⟨pv, nx⟩ := st
  cases hfv : first[V]! with
  | none =>
    have hlv : last[V]! = none := hfl.mp hfv
    have hst : navCloseStep first last (pv, nx) V = (pv, nx) := by simp only [navCloseStep, hfv]
    rw [hst]
    have hne : ∀ a, NValid ops a → varOf ops a ≠ V := fun a ha e => hseen a ha (by rw [e]; exact hlv)
    refine ⟨h.szP, h.szN, fun a ha => ?_, fun a ha => ?_⟩
    · rcases h.kp a ha with ⟨h1, h2⟩ | ⟨h1, h2, h3, h4⟩
      · exact Or.inl ⟨by have := hne a ha; omega, h2⟩
      · exact Or.inr ⟨h1, h2, h3, fun hV => h4 (by omega)⟩
    · rcases h.kn a ha with ⟨h1, h2⟩ | ⟨h1, h2, h3, h4⟩
      · exact Or.inl ⟨by have := hne a ha; omega, h2⟩
      · exact Or.inr ⟨h1, h2, h3, fun hV => h4 (by omega)⟩
  | some f =>
    cases hlv : last[V]! with
    | none => exact absurd (hfl.mpr hlv) (by rw [hfv]; simp)
    | some l =>
      obtain ⟨hfvld, hfvar⟩ := hf f hfv
      obtain ⟨hlvld, hlvar⟩ := hl l hlv
      have hst : navCloseStep first last (pv, nx) V = (setPN pv f.1 f.2 l, setPN nx l.1 l.2 f) := by
        simp only [navCloseStep, hfv, hlv]
      rw [hst]
      have hP : ∀ x, g2 (setPN pv f.1 f.2 l) x = if x = f then l else g2 pv x :=
        fun x => g2_setPN pv f.1 f.2 l x (by rw [h.szP.1]; exact hfvld.1) (by rw [h.szP.2]; exact hfvld.2)
      have hN : ∀ x, g2 (setPN nx l.1 l.2 f) x = if x = l then f else g2 nx x :=
        fun x => g2_setPN nx l.1 l.2 f x (by rw [h.szN.1]; exact hlvld.1) (by rw [h.szN.2]; exact hlvld.2)
      refine ⟨⟨by rw [setPN_size]; exact h.szP.1, fun q => by rw [setPN_inner]; exact h.szP.2 q⟩,
        ⟨by rw [setPN_size]; exact h.szN.1, fun q => by rw [setPN_inner]; exact h.szN.2 q⟩,
        fun a ha => ?_, fun a ha => ?_⟩
      · simp only [hP, hN]
        by_cases eaf : a = f
        · right
          subst eaf
          rw [if_pos rfl, if_pos rfl]
          exact ⟨hlvld, rfl, by rw [hlvar, hfvar], fun hV => by rw [hfvar] at hV; omega⟩
        · rw [if_neg eaf]
          rcases h.kp a ha with ⟨h1, h2⟩ | ⟨h1, h2, h3, h4⟩
          · left
            refine ⟨?_, h2⟩
            have : varOf ops a ≠ V := by
              intro e; rw [e, hfv] at h2; exact eaf (Option.some.inj h2).symm
            omega
          · right
            have hb : g2 pv a ≠ l := by
              intro e
              have hva : varOf ops a = V := by rw [← h3, e, hlvar]
              exact h4 (by omega) (by rw [hva, hlv, e])
            exact ⟨h1, by rw [if_neg hb]; exact h2, h3, fun hV => h4 (by omega)⟩
      · simp only [hP, hN]
        by_cases eal : a = l
        · right
          subst eal
          rw [if_pos rfl, if_pos rfl]
          exact ⟨hfvld, rfl, by rw [hlvar, hfvar], fun hV => by rw [hlvar] at hV; omega⟩
        · rw [if_neg eal]
          rcases h.kn a ha with ⟨h1, h2⟩ | ⟨h1, h2, h3, h4⟩
          · left
            refine ⟨?_, h2⟩
            have : varOf ops a ≠ V := by
              intro e; rw [e, hlv] at h2; exact eal (Option.some.inj h2).symm
            omega
          · right
            have hb : g2 nx a ≠ f := by
              intro e
              have hva : varOf ops a = V := by rw [← h3, e, hfvar]
              exact h4 (by omega) (by rw [hva, hfv, e])
            exact ⟨h1, by rw [if_neg hb]; exact h2, h3, fun hV => h4 (by omega)⟩

end close

theorem navClose_succ (sk : Skel) (V : Nat) : navClose sk (V + 1) =
    navCloseStep (navMain sk sk.length).2.2.2.2.1 (navMain sk sk.length).2.2.2.2.2 (navClose sk V) V := by
  unfold navClose
  rw [List.range_succ, List.foldl_append]
  rfl

theorem navClose_inv (sk : Skel) (hnd : SkNodup sk) : ∀ V,
    KInv sk.toArray (navMain sk sk.length).2.2.2.2.1 (navMain sk sk.length).2.2.2.2.2 V (navClose sk V)
  | 0 => by
    obtain ⟨hj, -⟩ := navMain_inv sk hnd sk.length (Nat.le_refl _)
    have hproc : ∀ a, NValid sk.toArray a → a.1 < sk.length := fun a ha => by simpa using ha.1
    refine ⟨hj.szP, hj.szN, fun a ha => ?_, fun a ha => ?_⟩
    · rcases hj.jp a ha (hproc a ha) with h | ⟨h1, _, h3, h4, h5⟩
      · exact Or.inl ⟨Nat.zero_le _, h⟩
      · exact Or.inr ⟨h1, h3, h4, fun _ => h5⟩
    · rcases hj.jn a ha (hproc a ha) with h | ⟨h1, _, h3, h4, h5⟩
      · exact Or.inl ⟨Nat.zero_le _, h⟩
      · exact Or.inr ⟨h1, h3, h4, fun _ => h5⟩
  | V + 1 => by
    obtain ⟨hj, -⟩ := navMain_inv sk hnd sk.length (Nat.le_refl _)
    have hproc : ∀ a, NValid sk.toArray a → a.1 < sk.length := fun a ha => by simpa using ha.1
    rw [navClose_succ]
    exact (navClose_inv sk hnd V).step (hj.fl V)
      (fun a ha => ⟨(hj.fOK V a ha).1, (hj.fOK V a ha).2.2⟩)
      (fun a ha => ⟨(hj.lOK V a ha).1, (hj.lOK V a ha).2.2⟩)
      (fun a ha => hj.seen a ha (hproc a ha))

theorem varOf_lt_navUB (sk : Skel) (a : Nat × Nat) (ha : NValid sk.toArray a) : varOf sk.toArray a < navUB sk := by
  obtain ⟨h1, h2⟩ := ha
  have hl : a.1 < sk.length := by simpa using h1
  have hget : sk[a.1]? = some sk[a.1] := List.getElem?_eq_getElem hl
  have hops := toArray_getElem! sk a.1 _ hget
  unfold nvOf at h2
  unfold varOf
  rw [hops] at h2 ⊢
  cases hsk : sk[a.1] with
  | none => rw [hsk] at h2; simp at h2
  | some op =>
    rw [hsk] at h2
    simp only at h2 ⊢
    have hmem : some op ∈ sk := by rw [← hsk]; exact List.getElem_mem hl
    rw [List.getD_eq_getElem?_getD, List.getElem?_eq_getElem h2]
    exact lt_navUB sk op hmem _ (List.getElem_mem h2)

/-- **the tables are a validity-preserving involution** -/
theorem navClose_final (sk : Skel) (hnd : SkNodup sk) (a : Nat × Nat) (ha : NValid sk.toArray a) :
    (NValid sk.toArray (g2 (navClose sk (navUB sk)).1 a) ∧
      g2 (navClose sk (navUB sk)).2 (g2 (navClose sk (navUB sk)).1 a) = a) ∧
    (NValid sk.toArray (g2 (navClose sk (navUB sk)).2 a) ∧
      g2 (navClose sk (navUB sk)).1 (g2 (navClose sk (navUB sk)).2 a) = a) := by
  have hk := navClose_inv sk hnd (navUB sk)
  have hlt := varOf_lt_navUB sk a ha
  constructor
  · rcases hk.kp a ha with ⟨h1, _⟩ | ⟨h1, h2, _, _⟩
    · omega
    · exact ⟨h1, h2⟩
  · rcases hk.kn a ha with ⟨h1, _⟩ | ⟨h1, h2, _, _⟩
    · omega
    · exact ⟨h1, h2⟩

/-! ### `NavSpec (mkNav sk)` -/

/-- every op has a variable (zero-variable ops make the real traversal loop forever) -/
def SkPos (sk : Skel) : Prop := ∀ o, some o ∈ sk → o.vars ≠ []

theorem mkNav_nvAt (sk : Skel) (p : Nat) : (mkNav sk).nvAt p = nvOf sk.toArray p := by
  rw [mkNav_eq]; rfl

theorem mkNav_size (sk : Skel) : (mkNav sk).ops.size = sk.length := by
  rw [mkNav_eq]; simp

theorem mkNav_valid (sk : Skel) (x : TLeg) : (mkNav sk).ValidLeg x ↔ NValid sk.toArray (x.1, x.2.1) := by
  unfold Nav.ValidLeg NValid
  rw [mkNav_nvAt, mkNav_size]; simp

theorem mkNav_partner (sk : Skel) (x : TLeg) : (mkNav sk).partner x =
    ((if !x.2.2 then g2 (navClose sk (navUB sk)).1 (x.1, x.2.1) else g2 (navClose sk (navUB sk)).2 (x.1, x.2.1)).1,
     (if !x.2.2 then g2 (navClose sk (navUB sk)).1 (x.1, x.2.1) else g2 (navClose sk (navUB sk)).2 (x.1, x.2.1)).2,
     !x.2.2) := by
  rw [mkNav_eq]; rfl

theorem mkNav_navSpec (sk : Skel) (hnd : SkNodup sk) (hpos : SkPos sk) : NavSpec (mkNav sk) := by
  refine ⟨?_, ?_, ?_, ?_, ?_⟩
  · intro x hx
    have ha := (mkNav_valid sk x).mp hx
    obtain ⟨⟨h1, _⟩, ⟨h2, _⟩⟩ := navClose_final sk hnd _ ha
    rw [mkNav_valid, mkNav_partner]
    obtain ⟨x1, x2, x3⟩ := x
    cases x3
    · exact h1
    · exact h2
  · intro x hx
    have ha := (mkNav_valid sk x).mp hx
    obtain ⟨⟨_, h1⟩, ⟨_, h2⟩⟩ := navClose_final sk hnd _ ha
    obtain ⟨x1, x2, x3⟩ := x
    rw [mkNav_partner, mkNav_partner]
    cases x3
    · simp only [Bool.not_false, if_true, Bool.not_true, Bool.false_eq_true, if_false] at h1 ⊢
      rw [h1]
    · simp only [Bool.not_false, if_true, Bool.not_true, Bool.false_eq_true, if_false] at h2 ⊢
      rw [h2]
  · intro p hp
    rw [mkNav_nvAt]
    have : (mkNav sk).isEdgeAt p = (match sk.toArray[p]! with | some o => o.isEdge | none => false) := by
      rw [mkNav_eq]; rfl
    rw [this] at hp
    unfold nvOf
    cases hsk : sk.toArray[p]! with
    | none => rw [hsk] at hp; cases hp
    | some o =>
      rw [hsk] at hp
      simp only [SkOp.isEdge, isClusterEdge, Bool.and_eq_true, beq_iff_eq] at hp
      exact hp.2
  · intro p hp hsome
    rw [mkNav_nvAt]
    rw [mkNav_size] at hp
    have hget : sk[p]? = some sk[p] := List.getElem?_eq_getElem hp
    have hops := toArray_getElem! sk p _ hget
    have hs : (sk.toArray[p]!).isSome = true := by rw [mkNav_eq] at hsome; exact hsome
    unfold nvOf
    rw [hops] at hs ⊢
    cases hsk : sk[p] with
    | none => rw [hsk] at hs; cases hs
    | some o =>
      have hmem : some o ∈ sk := by rw [← hsk]; exact List.getElem_mem hp
      simp only
      exact List.length_pos_iff.mpr (hpos o hmem)
  · have h := (navMain_inv sk hnd sk.length (Nat.le_refl _)).2.1
    have e1 : (mkNav sk).nlegs = (navMain sk sk.length).1 := by rw [mkNav_eq]
    rw [e1, h, mkNav_size]
    exact Finset.sum_le_sum (fun p _ => by rw [mkNav_nvAt])

/-! ### the tables against the scan of `legGraph` -/

section sim
variable (sk : Skel)

/-- leg id of the first leg of the op at position `q` -/
def offOf (q : Nat) : Nat := ∑ q' ∈ Finset.range q, 2 * nvOf sk.toArray q'
def inId (a : Nat × Nat) : Nat := offOf sk a.1 + a.2
def outId (a : Nat × Nat) : Nat := offOf sk a.1 + nvOf sk.toArray a.1 + a.2

def edgeAtSk (P : Nat) : Bool := match sk.toArray[P]! with | some o => o.isEdge | none => false

/-- an inner edge of a non-edge op -/
def IsStar (e : Nat × Nat) : Prop :=
  ∃ P j, P < sk.length ∧ edgeAtSk sk P = false ∧ 0 < nvOf sk.toArray P ∧ j < 2 * nvOf sk.toArray P ∧
    e = (offOf sk P, offOf sk P + j)

/-- the scan state of `legGraph` against the tables of `mkNav` -/
structure SInv (proc : Nat × Nat → Prop) (s : Scan) (st : PN × PN × FL × FL) : Prop where
  last : ∀ v, s.last.lookup v = (st.2.2.2[v]!).map (outId sk)
  edges : ∀ e ∈ s.edges, IsStar sk e ∨ ∃ a, NValid sk.toArray a ∧ proc a ∧
    st.2.2.1[varOf sk.toArray a]! ≠ some a ∧ e = (outId sk (g2 st.1 a), inId sk a)
  first : ∀ vf ∈ s.first, ∃ a, st.2.2.1[vf.1]! = some a ∧ vf.2 = inId sk a
  links : ∀ a, NValid sk.toArray a → proc a → st.2.2.1[varOf sk.toArray a]! ≠ some a →
    (outId sk (g2 st.1 a), inId sk a) ∈ s.edges
  firsts : ∀ a, NValid sk.toArray a → proc a → st.2.2.1[varOf sk.toArray a]! = some a →
    (varOf sk.toArray a, inId sk a) ∈ s.first

variable {sk}

theorem SInv.step {proc : Nat × Nat → Prop} {s : Scan} {st : PN × PN × FL × FL}
    (hj : JInv sk.toArray (navUB sk) proc st) (hs : SInv sk proc s st) (p k : Nat)
    (hn : NValid sk.toArray (p, k)) (hnp : ¬ proc (p, k)) (hv : varOf sk.toArray (p, k) < navUB sk)
    (hoff : s.off = offOf sk p) :
    SInv sk (fun a => proc a ∨ a = (p, k)) (Scan.stepVar (nvOf sk.toArray p) s (k, varOf sk.toArray (p, k)))
      (navVarStep p st (k, varOf sk.toArray (p, k))) := by
  obtain ⟨prev, next, first, last⟩ := st
  have hne : ∀ a, proc a → a ≠ (p, k) := fun a ha e => hnp (e ▸ ha)
  have hvL : varOf sk.toArray (p, k) < last.size := by rw [hj.szL]; exact hv
  have hvF : varOf sk.toArray (p, k) < first.size := by rw [hj.szF]; exact hv
  have hin : s.off + k = inId sk (p, k) := by rw [hoff]; rfl
  have hout : s.off + nvOf sk.toArray p + k = outId sk (p, k) := by rw [hoff]; rfl
  have hL : ∀ w, (last.set! (varOf sk.toArray (p, k)) (some (p, k)))[w]! =
      if w = varOf sk.toArray (p, k) then some (p, k) else last[w]! := by
    intro w; rw [getElem!_set!_gen]
    by_cases e : varOf sk.toArray (p, k) = w
    · simp [e, e ▸ hvL]
    · have : ¬ w = varOf sk.toArray (p, k) := fun e' => e e'.symm
      simp [e, this]
  have hF : ∀ w, (first.set! (varOf sk.toArray (p, k)) (some (p, k)))[w]! =
      if w = varOf sk.toArray (p, k) then some (p, k) else first[w]! := by
    intro w; rw [getElem!_set!_gen]
    by_cases e : varOf sk.toArray (p, k) = w
    · simp [e, e ▸ hvF]
    · have : ¬ w = varOf sk.toArray (p, k) := fun e' => e e'.symm
      simp [e, this]
  have hslast := hs.last (varOf sk.toArray (p, k))
  cases hl : last[varOf sk.toArray (p, k)]! with
  | none =>
    have hf : first[varOf sk.toArray (p, k)]! = none := (hj.fl _).mpr hl
    have hst : navVarStep p (prev, next, first, last) (k, varOf sk.toArray (p, k)) =
        (prev, next, first.set! (varOf sk.toArray (p, k)) (some (p, k)),
          last.set! (varOf sk.toArray (p, k)) (some (p, k))) := by
      simp only [navVarStep, hl]
    rw [hst]
    have hlk : s.last.lookup (varOf sk.toArray (p, k)) = none := by
      rw [hslast]; show (last[varOf sk.toArray (p, k)]!).map _ = none; rw [hl]; rfl
    have hfresh : ∀ a, NValid sk.toArray a → proc a → varOf sk.toArray a ≠ varOf sk.toArray (p, k) := by
      intro a ha hpa e
      exact hj.seen a ha hpa (by rw [e]; exact hl)
    refine ⟨fun v => ?_, fun e he => ?_, fun vf hvf => ?_, fun a ha hpa hna => ?_, fun a ha hpa hfa => ?_⟩
    · rw [stepVar_last]; show _ = ((last.set! _ _)[v]!).map _
      rw [hL]
      by_cases e : v = varOf sk.toArray (p, k)
      · rw [if_pos e, if_pos e]; simp only [Option.map_some]; rw [hout]
      · rw [if_neg e, if_neg e]; exact hs.last v
    · rw [stepVar_edges, hlk] at he
      have he : e ∈ s.edges := by
        rcases he with he | ⟨l, hl', _⟩
        · exact he
        · cases hl'
      rcases hs.edges e he with h | ⟨a, h1, h2, h3, h4⟩
      · exact Or.inl h
      · right
        refine ⟨a, h1, Or.inl h2, ?_, h4⟩
        show (first.set! _ _)[varOf sk.toArray a]! ≠ some a
        rw [hF]
        by_cases e' : varOf sk.toArray a = varOf sk.toArray (p, k)
        · rw [if_pos e']; intro h'; exact hne a h2 (Option.some.inj h').symm
        · rw [if_neg e']; exact h3
    · rw [stepVar_first] at hvf
      show ∃ a, (first.set! _ _)[vf.1]! = some a ∧ vf.2 = inId sk a
      rcases hvf with h | ⟨_, h⟩
      · obtain ⟨a, h1, h2⟩ := hs.first vf h
        refine ⟨a, ?_, h2⟩
        rw [hF]
        have : vf.1 ≠ varOf sk.toArray (p, k) := by
          intro e'; rw [e', hf] at h1; cases h1
        rw [if_neg this]; exact h1
      · refine ⟨(p, k), ?_, ?_⟩
        · rw [hF, h]; simp
        · rw [h]; exact hin
    · have hna : (first.set! _ _)[varOf sk.toArray a]! ≠ some a := hna
      rw [hF] at hna
      rcases hpa with hpa | rfl
      · rw [if_neg (hfresh a ha hpa)] at hna
        rw [stepVar_edges]; exact Or.inl (hs.links a ha hpa hna)
      · simp at hna
    · have hfa : (first.set! _ _)[varOf sk.toArray a]! = some a := hfa
      rw [hF] at hfa
      rw [stepVar_first]
      rcases hpa with hpa | rfl
      · rw [if_neg (hfresh a ha hpa)] at hfa
        exact Or.inl (hs.firsts a ha hpa hfa)
      · right; exact ⟨hlk, by rw [← hin]⟩
  | some a0 =>
    obtain ⟨ha0v, ha0p, ha0w⟩ := hj.lOK _ a0 hl
    have hst : navVarStep p (prev, next, first, last) (k, varOf sk.toArray (p, k)) =
        (setPN prev p k a0, setPN next a0.1 a0.2 (p, k), first,
          last.set! (varOf sk.toArray (p, k)) (some (p, k))) := by
      simp only [navVarStep, hl]
    rw [hst]
    have hP : ∀ x, g2 (setPN prev p k a0) x = if x = (p, k) then a0 else g2 prev x :=
      fun x => g2_setPN prev p k a0 x (by rw [hj.szP.1]; exact hn.1) (by rw [hj.szP.2]; exact hn.2)
    have hlk : s.last.lookup (varOf sk.toArray (p, k)) = some (outId sk a0) := by
      rw [hslast]; show (last[varOf sk.toArray (p, k)]!).map _ = _; rw [hl]; rfl
    have hfirst : ∀ f, first[varOf sk.toArray (p, k)]! = some f → f ≠ (p, k) :=
      fun f hf => hne f (hj.fOK _ f hf).2.1
    refine ⟨fun v => ?_, fun e he => ?_, fun vf hvf => ?_, fun a ha hpa hna => ?_, fun a ha hpa hfa => ?_⟩
    · rw [stepVar_last]; show _ = ((last.set! _ _)[v]!).map _
      rw [hL]
      by_cases e : v = varOf sk.toArray (p, k)
      · rw [if_pos e, if_pos e]; simp only [Option.map_some]; rw [hout]
      · rw [if_neg e, if_neg e]; exact hs.last v
    · rw [stepVar_edges, hlk] at he
      rcases he with he | ⟨l, hl', rfl⟩
      · rcases hs.edges e he with h | ⟨a, h1, h2, h3, h4⟩
        · exact Or.inl h
        · right
          refine ⟨a, h1, Or.inl h2, h3, ?_⟩
          show e = (outId sk (g2 (setPN prev p k a0) a), inId sk a)
          rw [hP, if_neg (hne a h2)]; exact h4
      · right
        refine ⟨(p, k), hn, Or.inr rfl, fun h' => hfirst _ h' rfl, ?_⟩
        show _ = (outId sk (g2 (setPN prev p k a0) (p, k)), inId sk (p, k))
        rw [hP, if_pos rfl, ← hin]
        simp only [Option.some.injEq] at hl'
        rw [hl']
    · rw [stepVar_first, hlk] at hvf
      simp only [reduceCtorEq, false_and, or_false] at hvf
      exact hs.first vf hvf
    · have hna : first[varOf sk.toArray a]! ≠ some a := hna
      show (outId sk (g2 (setPN prev p k a0) a), inId sk a) ∈ _
      rw [stepVar_edges, hP]
      rcases hpa with hpa | rfl
      · rw [if_neg (hne a hpa)]; exact Or.inl (hs.links a ha hpa hna)
      · rw [if_pos rfl]; right; exact ⟨outId sk a0, hlk, by rw [← hin]⟩
    · have hfa : first[varOf sk.toArray a]! = some a := hfa
      rw [stepVar_first]
      rcases hpa with hpa | rfl
      · exact Or.inl (hs.firsts a ha hpa hfa)
      · exact absurd rfl (hfirst _ hfa)

theorem SInv.congr {proc proc' : Nat × Nat → Prop} {s : Scan} {st : PN × PN × FL × FL} (h : SInv sk proc s st)
    (hp : ∀ a, NValid sk.toArray a → (proc a ↔ proc' a)) : SInv sk proc' s st :=
  ⟨h.last, fun e he => by
    rcases h.edges e he with h' | ⟨a, h1, h2, h3, h4⟩
    · exact Or.inl h'
    · exact Or.inr ⟨a, h1, (hp a h1).mp h2, h3, h4⟩, h.first,
    fun a ha hpa hna => h.links a ha ((hp a ha).mpr hpa) hna,
    fun a ha hpa hfa => h.firsts a ha ((hp a ha).mpr hpa) hfa⟩

theorem foldl_stepVar_off (nv : Nat) : ∀ (kvs : List (Nat × Nat)) (s : Scan),
    (kvs.foldl (Scan.stepVar nv) s).off = s.off
  | [], _ => rfl
  | kv :: t, s => by
    rw [List.foldl_cons, foldl_stepVar_off nv t, (stepVar_fields nv s kv).1]

theorem SInv.fold (p : Nat) : ∀ (kvs : List (Nat × Nat)) (proc : Nat × Nat → Prop) (s : Scan)
    (st : PN × PN × FL × FL), JInv sk.toArray (navUB sk) proc st → SInv sk proc s st → (kvs.map Prod.fst).Nodup →
    (∀ kv ∈ kvs, NValid sk.toArray (p, kv.1) ∧ varOf sk.toArray (p, kv.1) = kv.2 ∧ ¬ proc (p, kv.1) ∧
      kv.2 < navUB sk) → s.off = offOf sk p →
    SInv sk (fun a => proc a ∨ ∃ kv ∈ kvs, a = (p, kv.1)) (kvs.foldl (Scan.stepVar (nvOf sk.toArray p)) s)
      (kvs.foldl (navVarStep p) st)
  | [], proc, s, st, _, hs, _, _, _ => hs.congr (fun a _ => by simp)
  | kv :: t, proc, s, st, hj, hs, hnd, hall, hoff => by
    obtain ⟨h1, h2, h3, h4⟩ := hall kv (List.mem_cons_self ..)
    simp only [List.map_cons, List.nodup_cons] at hnd
    have hj' := hj.step p kv.1 h1 h3 (by rw [h2]; exact h4)
    have hs' := hs.step hj p kv.1 h1 h3 (by rw [h2]; exact h4) hoff
    rw [h2] at hj' hs'
    have := SInv.fold p t _ _ _ hj' hs' hnd.2 (fun kv' hkv' => by
      obtain ⟨g1, g2, g3, g4⟩ := hall kv' (List.mem_cons_of_mem _ hkv')
      refine ⟨g1, g2, ?_, g4⟩
      rintro (h' | h')
      · exact g3 h'
      · apply hnd.1
        rw [← (Prod.mk.inj h').2]
        exact List.mem_map_of_mem hkv') (by rw [(stepVar_fields _ s _).1]; exact hoff)
    simp only [List.foldl_cons]
    refine this.congr (fun a _ => ?_)
    simp only [List.mem_cons, exists_eq_or_imp]
    tauto

variable (sk)

/-- the scan of `legGraph` after the first `P` positions -/
def scanP (P : Nat) : Scan := (sk.take P).foldl Scan.step {}

theorem scanP_succ (P : Nat) (hP : P < sk.length) : scanP sk (P + 1) = (scanP sk P).step sk[P] := by
  unfold scanP
  rw [List.take_add_one, List.foldl_append, List.getElem?_eq_getElem hP]
  rfl

theorem offOf_succ (P : Nat) : offOf sk (P + 1) = offOf sk P + 2 * nvOf sk.toArray P := by
  unfold offOf; rw [Finset.sum_range_succ]

theorem sim_main (hnd : SkNodup sk) : ∀ P, P ≤ sk.length →
    SInv sk (fun a => a.1 < P) (scanP sk P) (navMain sk P).2.2 ∧ (scanP sk P).off = offOf sk P
  | 0, _ => by
    refine ⟨⟨fun v => ?_, fun e he => ?_, fun vf hvf => ?_, fun a _ h => absurd h (Nat.not_lt_zero _),
      fun a _ h => absurd h (Nat.not_lt_zero _)⟩, by simp [scanP, offOf]⟩
    · simp [scanP, navMain, getElem!_replicate_none']
    · simp [scanP] at he
    · simp [scanP] at hvf
  | P + 1, hP => by
    obtain ⟨ih, ihoff⟩ := sim_main hnd P (by omega)
    obtain ⟨hj, -⟩ := navMain_inv sk hnd P (by omega)
    have hPl : P < sk.length := by omega
    rw [scanP_succ sk P hPl, navMain_succ]
    generalize navMain sk P = acc at ih hj
    obtain ⟨o, offs, prev, next, first, last⟩ := acc
    simp only at ih hj
    have hget : sk[P]? = some sk[P] := List.getElem?_eq_getElem hPl
    have hops : sk.toArray[P]! = sk[P] := toArray_getElem! sk P _ hget
    cases hsk : sk[P] with
    | none =>
      have hstep : navPosStep sk.toArray (o, offs, prev, next, first, last) P =
          (o, offs.push o, prev, next, first, last) := by
        simp only [navPosStep, hops, hsk]
      rw [hstep]
      have hnv : nvOf sk.toArray P = 0 := by simp only [nvOf, hops, hsk]
      refine ⟨?_, by rw [offOf_succ, hnv]; exact ihoff⟩
      have : SInv sk (fun a => a.1 < P) ((scanP sk P).step none) (prev, next, first, last) :=
        ⟨ih.last, ih.edges, ih.first, ih.links, ih.firsts⟩
      refine this.congr (fun a ha => ?_)
      constructor
      · intro h; show a.1 < P + 1; have : a.1 < P := h; omega
      · intro h
        have h : a.1 < P + 1 := h
        show a.1 < P
        rcases Nat.lt_succ_iff_lt_or_eq.mp h with h' | h'
        · exact h'
        · have := ha.2; rw [h', hnv] at this; omega
    | some op =>
      have hstep : navPosStep sk.toArray (o, offs, prev, next, first, last) P =
          (o + 2 * op.vars.length, offs.push o,
            ((List.range op.vars.length).zip op.vars).foldl (navVarStep P) (prev, next, first, last)) := by
        simp only [navPosStep, hops, hsk]
      rw [hstep]
      have hnv : nvOf sk.toArray P = op.vars.length := by simp only [nvOf, hops, hsk]
      have hmem : some op ∈ sk := by rw [← hsk]; exact List.getElem_mem hPl
      have hfold := SInv.fold (sk := sk) P ((List.range op.vars.length).zip op.vars) _ _ _ hj ih
        (by rw [List.map_fst_zip (by simp)]; exact List.nodup_range)
        (by
          intro kv hkv
          have hk := (mem_zip_range op.vars kv).mp hkv
          have hklt := getElem?_lt hk
          refine ⟨⟨by simp; exact hPl, by rw [hnv]; exact hklt⟩, ?_, fun h => Nat.lt_irrefl _ h,
            lt_navUB sk op hmem _ (List.mem_of_getElem? hk)⟩
          simp only [varOf, hops, hsk]
          rw [List.getD_eq_getElem?_getD, hk]; rfl) ihoff
      rw [hnv] at hfold
      refine ⟨?_, by rw [offOf_succ, hnv, ← ihoff]; rfl⟩
      have hcong : SInv sk (fun a => a.1 < P + 1)
          (((List.range op.vars.length).zip op.vars).foldl (Scan.stepVar op.vars.length) (scanP sk P))
          (((List.range op.vars.length).zip op.vars).foldl (navVarStep P) (prev, next, first, last)) := by
        refine hfold.congr (fun a ha => ?_)
        constructor
        · rintro (h | ⟨kv, hkv, rfl⟩)
          · show a.1 < P + 1; have : a.1 < P := h; omega
          · show P < P + 1; omega
        · intro h
          have h : a.1 < P + 1 := h
          rcases Nat.lt_succ_iff_lt_or_eq.mp h with h' | h'
          · exact Or.inl h'
          · right
            have h2 := ha.2
            rw [h', hnv] at h2
            refine ⟨(a.2, op.vars[a.2]), (mem_zip_range op.vars _).mpr (List.getElem?_eq_getElem h2), ?_⟩
            obtain ⟨a1, a2⟩ := a
            simp only at h' ⊢
            rw [h']
      refine ⟨hcong.last, fun e he => ?_, hcong.first,
        fun a ha hpa hna => List.mem_append_right _ (hcong.links a ha hpa hna), hcong.firsts⟩
      have he' : e ∈ (if op.isEdge then [] else (List.range (2 * op.vars.length)).tail.map
          fun j => ((scanP sk P).off, (scanP sk P).off + j)) ++
          (((List.range op.vars.length).zip op.vars).foldl (Scan.stepVar op.vars.length) (scanP sk P)).edges := he
      rw [List.mem_append] at he'
      rcases he' with h | h
      · left
        cases hed : op.isEdge
        · rw [hed] at h
          simp only [Bool.false_eq_true, if_false, List.mem_map] at h
          obtain ⟨j, hj', rfl⟩ := h
          obtain ⟨hj1, hj2⟩ := (mem_tail_range _ _).mp hj'
          refine ⟨P, j, hPl, by simp only [edgeAtSk, hops, hsk, hed], by rw [hnv]; omega, by rw [hnv]; exact hj2, ?_⟩
          rw [ihoff]
        · rw [hed] at h; simp at h
      · exact hcong.edges e h

/-! ### what the closing fold changes -/

theorem navClose_sizes (hnd : SkNodup sk) (V : Nat) :
    ((navClose sk V).1.size = sk.toArray.size ∧ ∀ q, ((navClose sk V).1[q]!).size = nvOf sk.toArray q) :=
  (navClose_inv sk hnd V).szP

theorem navClose_step_prev (hnd : SkNodup sk) (V : Nat) (x : Nat × Nat) :
    g2 (navClose sk (V + 1)).1 x =
      match (navMain sk sk.length).2.2.2.2.1[V]!, (navMain sk sk.length).2.2.2.2.2[V]! with
      | some f, some l => if x = f then l else g2 (navClose sk V).1 x
      | _, _ => g2 (navClose sk V).1 x := by
  obtain ⟨hj, -⟩ := navMain_inv sk hnd sk.length (Nat.le_refl _)
  rw [navClose_succ]
  cases hf : (navMain sk sk.length).2.2.2.2.1[V]! with
  | none => simp only [navCloseStep, hf]
  | some f =>
    cases hl : (navMain sk sk.length).2.2.2.2.2[V]! with
    | none => simp only [navCloseStep, hf, hl]
    | some l =>
      simp only [navCloseStep, hf, hl]
      have hfv := (hj.fOK V f hf).1
      obtain ⟨s1, s2⟩ := navClose_sizes sk hnd V
      exact g2_setPN _ f.1 f.2 l x (by rw [s1]; exact hfv.1) (by rw [s2]; exact hfv.2)

/-- a determined predecessor entry survives the closing fold -/
theorem navClose_keep (hnd : SkNodup sk) (a : Nat × Nat)
    (hna : (navMain sk sk.length).2.2.2.2.1[varOf sk.toArray a]! ≠ some a) : ∀ V,
    g2 (navClose sk V).1 a = g2 (navMain sk sk.length).2.2.1 a
  | 0 => rfl
  | V + 1 => by
    obtain ⟨hj, -⟩ := navMain_inv sk hnd sk.length (Nat.le_refl _)
    rw [navClose_step_prev sk hnd V a]
    cases hf : (navMain sk sk.length).2.2.2.2.1[V]! with
    | none => exact navClose_keep hnd a hna V
    | some f =>
      cases hl : (navMain sk sk.length).2.2.2.2.2[V]! with
      | none => exact navClose_keep hnd a hna V
      | some l =>
        simp only
        have : a ≠ f := by
          intro e
          apply hna
          rw [e, (hj.fOK V f hf).2.2, hf]
        rw [if_neg this]; exact navClose_keep hnd a hna V

/-- the first occurrence of a variable gets the last one as predecessor -/
theorem navClose_first (hnd : SkNodup sk) (v : Nat) (f l : Nat × Nat)
    (hf : (navMain sk sk.length).2.2.2.2.1[v]! = some f) (hl : (navMain sk sk.length).2.2.2.2.2[v]! = some l) :
    ∀ V, v < V → g2 (navClose sk V).1 f = l
  | 0, h => absurd h (Nat.not_lt_zero _)
  | V + 1, h => by
    obtain ⟨hj, -⟩ := navMain_inv sk hnd sk.length (Nat.le_refl _)
    rw [navClose_step_prev sk hnd V f]
    by_cases hv : v = V
    · subst hv
      rw [hf, hl]; simp
    · have hlt : v < V := by omega
      cases hf' : (navMain sk sk.length).2.2.2.2.1[V]! with
      | none => exact navClose_first hnd v f l hf hl V hlt
      | some f' =>
        cases hl' : (navMain sk sk.length).2.2.2.2.2[V]! with
        | none => exact navClose_first hnd v f l hf hl V hlt
        | some l' =>
          simp only
          have : f ≠ f' := by
            intro e
            have h1 := (hj.fOK v f hf).2.2
            have h2 := (hj.fOK V f' hf').2.2
            rw [e, h2] at h1
            exact hv h1.symm
          rw [if_neg this]; exact navClose_first hnd v f l hf hl V hlt

/-- **every edge of `legGraph sk` is an inner edge of a non-edge op or joins a leg to its link partner** -/
theorem legGraph_edges_nav (hnd : SkNodup sk) : ∀ e ∈ (legGraph sk).edges,
    IsStar sk e ∨ ∃ a, NValid sk.toArray a ∧ e = (outId sk (g2 (navClose sk (navUB sk)).1 a), inId sk a) := by
  obtain ⟨hs, -⟩ := sim_main sk hnd sk.length (Nat.le_refl _)
  obtain ⟨hj, -⟩ := navMain_inv sk hnd sk.length (Nat.le_refl _)
  have hscan : scanP sk sk.length = sk.foldl Scan.step {} := by unfold scanP; rw [List.take_length]
  have hedges : (legGraph sk).edges = wrapEdges (sk.foldl Scan.step {}) ++ (sk.foldl Scan.step {}).edges := rfl
  rw [hscan] at hs
  intro e he
  rw [hedges, List.mem_append] at he
  rcases he with he | he
  · obtain ⟨vf, hvf, l, hl, rfl⟩ := (mem_wrapEdges _ _).mp he
    obtain ⟨a, ha1, ha2⟩ := hs.first vf hvf
    have hl2 := hs.last vf.1
    rw [hl] at hl2
    cases hlast : (navMain sk sk.length).2.2.2.2.2[vf.1]! with
    | none => rw [hlast] at hl2; cases hl2
    | some b =>
      rw [hlast] at hl2
      simp only [Option.map_some, Option.some.injEq] at hl2
      obtain ⟨hav, _, hvar⟩ := hj.fOK vf.1 a ha1
      right
      refine ⟨a, hav, ?_⟩
      have hub : vf.1 < navUB sk := by rw [← hvar]; exact varOf_lt_navUB sk a hav
      rw [navClose_first sk hnd vf.1 a b ha1 hlast (navUB sk) hub, hl2, ha2]
  · rcases hs.edges e he with h | ⟨a, h1, _, h3, h4⟩
    · exact Or.inl h
    · right
      refine ⟨a, h1, ?_⟩
      rw [navClose_keep sk hnd a h3 (navUB sk)]; exact h4

/-! ### from leg ids back to legs -/

theorem offOf_mono {P Q : Nat} (h : P ≤ Q) : offOf sk P ≤ offOf sk Q := by
  unfold offOf
  exact Finset.sum_le_sum_of_subset (Finset.range_mono h)

open Classical in
/-- the leg with a given id -/
noncomputable def legOfId (i : Nat) : TLeg :=
  if h : ∃ P, i < offOf sk (P + 1) then
    if i - offOf sk (Nat.find h) < nvOf sk.toArray (Nat.find h) then (Nat.find h, i - offOf sk (Nat.find h), false)
    else (Nat.find h, i - offOf sk (Nat.find h) - nvOf sk.toArray (Nat.find h), true)
  else (0, 0, false)

open Classical in
theorem legOfId_spec (P j : Nat) (hj : j < 2 * nvOf sk.toArray P) :
    legOfId sk (offOf sk P + j) =
      if j < nvOf sk.toArray P then (P, j, false) else (P, j - nvOf sk.toArray P, true) := by
  have hex : ∃ Q, offOf sk P + j < offOf sk (Q + 1) := ⟨P, by rw [offOf_succ]; omega⟩
  have hfind : Nat.find hex = P := by
    rw [Nat.find_eq_iff]
    refine ⟨by rw [offOf_succ]; omega, fun Q hQ h => ?_⟩
    have := offOf_mono sk (show Q + 1 ≤ P by omega)
    omega
  unfold legOfId
  rw [dif_pos hex, hfind]
  simp only [Nat.add_sub_cancel_left]

theorem legOfId_in (a : Nat × Nat) (ha : a.2 < nvOf sk.toArray a.1) : legOfId sk (inId sk a) = (a.1, a.2, false) := by
  unfold inId
  rw [legOfId_spec sk a.1 a.2 (by omega), if_pos ha]

theorem legOfId_out (a : Nat × Nat) (ha : a.2 < nvOf sk.toArray a.1) : legOfId sk (outId sk a) = (a.1, a.2, true) := by
  unfold outId
  rw [Nat.add_assoc, legOfId_spec sk a.1 _ (by omega), if_neg (by omega)]
  simp

/-! ### the converse: links and inner edges ARE edges of `legGraph` -/

theorem foldl_stepVar_edges_mono (nv : Nat) : ∀ (kvs : List (Nat × Nat)) (s : Scan) (e : Nat × Nat),
    e ∈ s.edges → e ∈ (kvs.foldl (Scan.stepVar nv) s).edges
  | [], _, _, h => h
  | kv :: t, s, e, h => by
    rw [List.foldl_cons]
    exact foldl_stepVar_edges_mono nv t _ e ((stepVar_edges nv s kv e).mpr (Or.inl h))

theorem step_edges_mono (s : Scan) (x : Option SkOp) (e : Nat × Nat) (h : e ∈ s.edges) : e ∈ (s.step x).edges := by
  cases x with
  | none => exact h
  | some o => exact List.mem_append_right _ (foldl_stepVar_edges_mono _ _ s e h)

theorem scanP_stars (hnd : SkNodup sk) : ∀ P, P ≤ sk.length → ∀ P', P' < P → edgeAtSk sk P' = false →
    ∀ j, 1 ≤ j → j < 2 * nvOf sk.toArray P' → (offOf sk P', offOf sk P' + j) ∈ (scanP sk P).edges
  | 0, _, _, h, _, _, _, _ => absurd h (Nat.not_lt_zero _)
  | P + 1, hP, P', hP', hed, j, hj1, hj2 => by
    have hPl : P < sk.length := by omega
    rw [scanP_succ sk P hPl]
    rcases Nat.lt_succ_iff_lt_or_eq.mp hP' with h | h
    · exact step_edges_mono _ _ _ (scanP_stars hnd P (by omega) P' h hed j hj1 hj2)
    · subst h
      have hoff := (sim_main sk hnd P' (by omega)).2
      have hget : sk[P']? = some sk[P'] := List.getElem?_eq_getElem hPl
      have hops : sk.toArray[P']! = sk[P'] := toArray_getElem! sk P' _ hget
      cases hsk : sk[P'] with
      | none =>
        have : nvOf sk.toArray P' = 0 := by simp only [nvOf, hops, hsk]
        omega
      | some op =>
        have hnv : nvOf sk.toArray P' = op.vars.length := by simp only [nvOf, hops, hsk]
        have hed' : op.isEdge = false := by simpa only [edgeAtSk, hops, hsk] using hed
        show _ ∈ (if op.isEdge then [] else (List.range (2 * op.vars.length)).tail.map
          fun j => ((scanP sk P').off, (scanP sk P').off + j)) ++ _
        rw [hed', hoff]
        refine List.mem_append_left _ ?_
        simp only [Bool.false_eq_true, if_false, List.mem_map]
        exact ⟨j, (mem_tail_range _ _).mpr ⟨hj1, by rw [← hnv]; exact hj2⟩, rfl⟩

theorem legGraph_edges_raw : (legGraph sk).edges = wrapEdges (sk.foldl Scan.step {}) ++ (sk.foldl Scan.step {}).edges :=
  rfl

theorem scanP_full : scanP sk sk.length = sk.foldl Scan.step {} := by unfold scanP; rw [List.take_length]

/-- an inner edge of a non-edge op is an edge of `legGraph` -/
theorem star_mem_legGraph (hnd : SkNodup sk) (P : Nat) (hP : P < sk.length) (hed : edgeAtSk sk P = false) (j : Nat)
    (hj1 : 1 ≤ j) (hj2 : j < 2 * nvOf sk.toArray P) : (offOf sk P, offOf sk P + j) ∈ (legGraph sk).edges := by
  rw [legGraph_edges_raw, ← scanP_full]
  exact List.mem_append_right _ (scanP_stars sk hnd sk.length (Nat.le_refl _) P hP hed j hj1 hj2)

/-- the link of every valid input leg is an edge of `legGraph` -/
theorem link_mem_legGraph (hnd : SkNodup sk) (a : Nat × Nat) (ha : NValid sk.toArray a) :
    (outId sk (g2 (navClose sk (navUB sk)).1 a), inId sk a) ∈ (legGraph sk).edges := by
  obtain ⟨hs, -⟩ := sim_main sk hnd sk.length (Nat.le_refl _)
  obtain ⟨hj, -⟩ := navMain_inv sk hnd sk.length (Nat.le_refl _)
  rw [scanP_full] at hs
  have hproc : a.1 < sk.length := by simpa using ha.1
  rw [legGraph_edges_raw]
  by_cases hf : (navMain sk sk.length).2.2.2.2.1[varOf sk.toArray a]! = some a
  · refine List.mem_append_left _ ((mem_wrapEdges _ _).mpr ?_)
    have h1 := hs.firsts a ha hproc hf
    cases hl : (navMain sk sk.length).2.2.2.2.2[varOf sk.toArray a]! with
    | none => exact absurd ((hj.fl _).mpr hl) (by rw [hf]; simp)
    | some b =>
      have h2 := hs.last (varOf sk.toArray a)
      rw [hl] at h2
      refine ⟨_, h1, outId sk b, h2, ?_⟩
      rw [navClose_first sk hnd _ a b hf hl (navUB sk) (varOf_lt_navUB sk a ha)]
  · refine List.mem_append_right _ ?_
    rw [navClose_keep sk hnd a hf (navUB sk)]
    exact hs.links a ha hproc hf

end sim

end Qmc
