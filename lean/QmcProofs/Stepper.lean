/-
Helper lemmas for C17 (measurement helpers): the measuring loop, the chunk loop of the tempering
drivers, schedules of per-replica actions, `itime_fold`.
-/
import QmcModel.Stepper
import Mathlib.Algebra.Order.Field.Rat
import Mathlib.Tactic.Ring
import Mathlib.Tactic.Linarith
import Mathlib.Tactic.FieldSimp

namespace Qmc

universe u v

/-! ### iteration, sums -/

theorem iter_succ' {σ : Type u} (g : σ → σ) (k : Nat) (s : σ) : iter g (k + 1) s = iter g k (g s) := by
  induction k with
  | zero => rfl
  | succ k ih => show g (iter g (k + 1) s) = g (iter g k (g s)); rw [ih]

theorem iter_add {σ : Type u} (g : σ → σ) (a b : Nat) (s : σ) : iter g (a + b) s = iter g b (iter g a s) := by
  induction b with
  | zero => rfl
  | succ b ih => show g (iter g (a + b) s) = g (iter g b (iter g a s)); rw [ih]

theorem sumTo_congr {g h : Nat → Nat} {k : Nat} (e : ∀ j, j < k → g j = h j) : sumTo g k = sumTo h k := by
  induction k with
  | zero => rfl
  | succ k ih =>
    simp only [sumTo]
    rw [ih (fun j hj => e j (Nat.lt_succ_of_lt hj)), e k (Nat.lt_succ_self k)]

theorem sumToQ_congr {g h : Nat → Rat} {k : Nat} (e : ∀ j, j < k → g j = h j) : sumToQ g k = sumToQ h k := by
  induction k with
  | zero => rfl
  | succ k ih =>
    simp only [sumToQ]
    rw [ih (fun j hj => e j (Nat.lt_succ_of_lt hj)), e k (Nat.lt_succ_self k)]

theorem sumToQ_add (g : Nat → Rat) (a b : Nat) : sumToQ g (a + b) = sumToQ g a + sumToQ (fun j => g (a + j)) b := by
  induction b with
  | zero => simp [sumToQ]
  | succ b ih => rw [← Nat.add_assoc]; simp only [sumToQ]; rw [ih]; ring

theorem sumToQ_const (c : Rat) (k : Nat) : sumToQ (fun _ => c) k = c * (k : Rat) := by
  induction k with
  | zero => simp [sumToQ]
  | succ k ih => simp only [sumToQ]; rw [ih]; push_cast; ring

theorem sumToQ_zero (k : Nat) : sumToQ (fun _ => 0) k = 0 := by
  rw [sumToQ_const]; ring

theorem sumTo_cast (g : Nat → Nat) (k : Nat) : ((sumTo g k : Nat) : Rat) = sumToQ (fun j => (g j : Rat)) k := by
  induction k with
  | zero => simp [sumTo, sumToQ]
  | succ k ih => simp only [sumTo, sumToQ]; push_cast; rw [ih]

/-! ### division / remainder facts with a variable modulus -/

theorem succ_div_of_mod_eq_zero {T f : Nat} (h : (T + 1) % f = 0) :
    (T + 1) / f = T / f + 1 ∧ (T / f + 1) * f = T + 1 := by
  have hd : f ∣ T + 1 := Nat.dvd_of_mod_eq_zero h
  have h1 : (T + 1) / f = T / f + 1 := by rw [Nat.succ_div]; simp [hd]
  exact ⟨h1, by rw [← h1]; exact Nat.div_mul_cancel hd⟩

theorem succ_div_of_mod_ne_zero {T f : Nat} (h : (T + 1) % f ≠ 0) : (T + 1) / f = T / f := by
  have hd : ¬ f ∣ T + 1 := fun hd => h (Nat.mod_eq_zero_of_dvd hd)
  rw [Nat.succ_div]; simp [hd]

/-- adding `t ≤ s - k % s` to `k`: the remainder grows by `t` unless the next multiple is hit exactly -/
theorem add_mod_within {k t s : Nat} (hs : 0 < s) (ht : t ≤ s - k % s) :
    (k + t) % s = if t = s - k % s then 0 else k % s + t := by
  have hr : k % s < s := Nat.mod_lt _ hs
  have hk : s * (k / s) + k % s = k := Nat.div_add_mod k s
  have e : k + t = s * (k / s) + (k % s + t) := by omega
  rw [e, Nat.mul_add_mod]
  split
  · next h => rw [h]; have : k % s + (s - k % s) = s := by omega
              rw [this]; exact Nat.mod_self s
  · next h => exact Nat.mod_eq_of_lt (by omega)

/-! ### the measuring loop -/

section measure
variable {σ : Type u} {α : Type v} (step : σ → σ) (n : σ → Nat) (fold : α → σ → α)

theorem measureLoop_succ (T f : Nat) (s0 : σ) (a0 : α) :
    measureLoop step n fold (T + 1) f s0 a0 =
      measureBody step n fold f (measureLoop step n fold T f s0 a0) T := by
  simp [measureLoop, List.range_succ, List.foldl_append]

/-- the states the fold sees: after steps `f, 2f, …, ⌊T/f⌋·f` -/
def sampledStates (T f : Nat) (s0 : σ) : List σ :=
  (List.range (T / f)).map fun k => iter step ((k + 1) * f) s0

theorem measureLoop_spec {f : Nat} (hf : 0 < f) (T : Nat) (s0 : σ) (a0 : α) :
    (measureLoop step n fold T f s0 a0).st = iter step T s0 ∧
    (measureLoop step n fold T f s0 a0).measured = T / f ∧
    (measureLoop step n fold T f s0 a0).acc = (sampledStates step T f s0).foldl fold a0 ∧
    (measureLoop step n fold T f s0 a0).totalN = sumTo (fun k => n (iter step ((k + 1) * f) s0)) (T / f) := by
  induction T with
  | zero => simp [measureLoop, sampledStates, iter, sumTo]
  | succ T ih =>
    obtain ⟨h1, h2, h3, h4⟩ := ih
    rw [measureLoop_succ]
    by_cases hm : (T + 1) % f = 0
    · obtain ⟨hd, hmul⟩ := succ_div_of_mod_eq_zero hm
      simp only [measureBody, hm, if_true]
      refine ⟨by rw [h1]; rfl, by rw [h2, hd], ?_, ?_⟩
      · rw [h3, h1, sampledStates, sampledStates, hd, List.range_succ, List.map_append, List.foldl_append]
        simp only [List.map_cons, List.map_nil, List.foldl_cons, List.foldl_nil, hmul]
        rfl
      · rw [h4, h1, hd]; simp only [sumTo, hmul]; rfl
    · have hd := succ_div_of_mod_ne_zero hm
      simp only [measureBody, hm, if_false]
      refine ⟨by rw [h1]; rfl, by rw [h2, hd], ?_, ?_⟩
      · rw [h3, sampledStates, sampledStates, hd]
      · rw [h4, hd]

end measure

/-! ### the chunk loop: event log -/

theorem expandEv_append (a b : List Ev) : expandEv (a ++ b) = expandEv a ++ expandEv b := by
  induction a with
  | nil => rfl
  | cons e r ih => cases e <;> simp [expandEv, ih]

theorem expandEv_adv (t : Nat) (r : List Ev) : expandEv (Ev.adv t :: r) = List.replicate t (Ev.adv 1) ++ expandEv r := rfl

theorem expandEv_tickEvents (s f k : Nat) : expandEv (tickEvents s f k) = tickEvents s f k := by
  unfold tickEvents; split <;> split <;> rfl

theorem tickEvents_quiet {s f k : Nat} (hs : k % s ≠ 0) (hf : k % f ≠ 0) : tickEvents s f k = [] := by
  simp [tickEvents, hs, hf]

/-- a stretch of `t` steps without a multiple of `s` or `f` strictly inside -/
theorem tickLog_add_quiet (s f k : Nat) : ∀ t, 0 < t → (∀ j, 0 < j → j < t → tickEvents s f (k + j) = []) →
    tickLog s f (k + t) = tickLog s f k ++ (List.replicate t (Ev.adv 1) ++ tickEvents s f (k + t)) := by
  intro t
  induction t with
  | zero => intro h; exact absurd h (Nat.lt_irrefl 0)
  | succ t ih =>
    intro _ hq
    by_cases ht : t = 0
    · subst ht; simp [tickLog]
    · have h1 := ih (Nat.pos_of_ne_zero ht) (fun j hj hjt => hq j hj (Nat.lt_succ_of_lt hjt))
      have h2 := hq t (Nat.pos_of_ne_zero ht) (Nat.lt_succ_self t)
      rw [← Nat.add_assoc]
      show tickLog s f (k + t) ++ (Ev.adv 1 :: tickEvents s f (k + t + 1)) = _
      rw [h1, h2, List.replicate_succ']
      simp

/-- container state, energy accumulators and samples: what an event sequence does -/
structure IState (κ : Type u) where
  c : κ
  acc : Nat → Rat
  samples : List (List (List Bool))

def interpEv {κ : Type u} (C : Container κ) (x : IState κ) : Ev → IState κ
  | Ev.adv t => { c := (C.advance t x.c).1, acc := fun i => x.acc i + (C.advance t x.c).2 i * (t : Rat), samples := x.samples }
  | Ev.swap => { c := C.swapStep x.c, acc := x.acc, samples := x.samples }
  | Ev.sample => { c := x.c, acc := x.acc, samples := x.samples ++ [C.states x.c] }

def interp {κ : Type u} (C : Container κ) (log : List Ev) (x : IState κ) : IState κ := log.foldl (interpEv C) x

theorem interp_append {κ : Type u} (C : Container κ) (a b : List Ev) (x : IState κ) :
    interp C (a ++ b) x = interp C b (interp C a x) := by simp [interp, List.foldl_append]

def CState.toI {κ : Type u} (x : CState κ) : IState κ := { c := x.c, acc := x.energyAcc, samples := x.samples }

section chunk
variable {κ : Type u} (C : Container κ)

/-- the chunk length chosen by one iteration -/
def chunkT (x : CState κ) : Nat := min (min x.toSample x.toSwap) x.remaining

/-- the events one iteration appends -/
def chunkEvs (x : CState κ) : List Ev :=
  Ev.adv (chunkT x) :: ((if x.toSwap - chunkT x = 0 then [Ev.swap] else []) ++
    (if x.toSample - chunkT x = 0 then [Ev.sample] else []))

theorem chunkIter_remaining (s f : Nat) (x : CState κ) : (chunkIter C s f x).remaining = x.remaining - chunkT x := rfl
theorem chunkIter_toSwap (s f : Nat) (x : CState κ) :
    (chunkIter C s f x).toSwap = if x.toSwap - chunkT x = 0 then s else x.toSwap - chunkT x := rfl
theorem chunkIter_toSample (s f : Nat) (x : CState κ) :
    (chunkIter C s f x).toSample = if x.toSample - chunkT x = 0 then f else x.toSample - chunkT x := rfl

theorem chunkIter_log (s f : Nat) (x : CState κ) : (chunkIter C s f x).log = x.log ++ chunkEvs x := by
  unfold chunkIter chunkEvs chunkT
  dsimp only
  generalize min (min x.toSample x.toSwap) x.remaining = t
  by_cases h1 : x.toSwap - t = 0 <;> by_cases h2 : x.toSample - t = 0 <;> simp [h1, h2]

theorem chunkIter_sem (s f : Nat) (x : CState κ) : (chunkIter C s f x).toI = interp C (chunkEvs x) x.toI := by
  unfold chunkIter chunkEvs chunkT CState.toI interp
  dsimp only
  generalize min (min x.toSample x.toSwap) x.remaining = t
  by_cases h1 : x.toSwap - t = 0 <;> by_cases h2 : x.toSample - t = 0 <;> simp [h1, h2, interpEv]

/-- loop invariant of `while remaining_timesteps > 0` (elapsed time `k = T - remaining`) -/
structure ChunkInv (T s f : Nat) (c0 : κ) (x : CState κ) : Prop where
  le : x.remaining ≤ T
  swap_eq : x.toSwap = s - (T - x.remaining) % s
  sample_eq : x.toSample = f - (T - x.remaining) % f
  log_eq : expandEv x.log = tickLog s f (T - x.remaining)
  pos : ∀ t, Ev.adv t ∈ x.log → 0 < t
  sem : x.toI = interp C x.log { c := c0, acc := fun _ => 0, samples := [] }

theorem chunkInv_init (T s f : Nat) (c0 : κ) : ChunkInv C T s f c0 (chunkInit T s f c0) := by
  refine ⟨Nat.le_refl _, ?_, ?_, ?_, ?_, ?_⟩ <;> simp [chunkInit, expandEv, tickLog, CState.toI, interp]

theorem chunkInv_step {T s f : Nat} {c0 : κ} (hs : 0 < s) (hf : 0 < f) {x : CState κ}
    (h : ChunkInv C T s f c0 x) (hr : x.remaining ≠ 0) :
    ChunkInv C T s f c0 (chunkIter C s f x) ∧ (chunkIter C s f x).remaining < x.remaining := by
  obtain ⟨hle, hsw, hsa, hlog, hpos, hsem⟩ := h
  have hks : (T - x.remaining) % s < s := Nat.mod_lt _ hs
  have hkf : (T - x.remaining) % f < f := Nat.mod_lt _ hf
  have ht1 : 0 < chunkT x := by unfold chunkT; omega
  have hts : chunkT x ≤ s - (T - x.remaining) % s := by unfold chunkT; omega
  have htf : chunkT x ≤ f - (T - x.remaining) % f := by unfold chunkT; omega
  have htr : chunkT x ≤ x.remaining := by unfold chunkT; omega
  have hk : T - (x.remaining - chunkT x) = (T - x.remaining) + chunkT x := by omega
  have ms := add_mod_within hs hts
  have mf := add_mod_within hf htf
  refine ⟨⟨?_, ?_, ?_, ?_, ?_, ?_⟩, ?_⟩
  · rw [chunkIter_remaining]; omega
  · rw [chunkIter_toSwap, chunkIter_remaining, hk, ms, hsw]
    split <;> split <;> omega
  · rw [chunkIter_toSample, chunkIter_remaining, hk, mf, hsa]
    split <;> split <;> omega
  · rw [chunkIter_log, chunkIter_remaining, hk, expandEv_append, hlog]
    rw [tickLog_add_quiet s f (T - x.remaining) (chunkT x) ht1]
    · congr 1
      unfold chunkEvs
      rw [expandEv_adv]
      congr 1
      have p1 : ((T - x.remaining + chunkT x) % s = 0) ↔ (x.toSwap - chunkT x = 0) := by
        rw [ms, hsw]; split <;> omega
      have p2 : ((T - x.remaining + chunkT x) % f = 0) ↔ (x.toSample - chunkT x = 0) := by
        rw [mf, hsa]; split <;> omega
      unfold tickEvents
      simp only [p1, p2]
      split <;> split <;> simp [expandEv]
    · intro j hj hjt
      have js := add_mod_within (k := T - x.remaining) (t := j) hs (by omega)
      have jf := add_mod_within (k := T - x.remaining) (t := j) hf (by omega)
      apply tickEvents_quiet
      · rw [js]; split <;> omega
      · rw [jf]; split <;> omega
  · intro t ht
    rw [chunkIter_log] at ht
    rcases List.mem_append.mp ht with h | h
    · exact hpos t h
    · unfold chunkEvs at h
      simp only [List.mem_cons, List.mem_append] at h
      rcases h with h | h | h
      · cases h; exact ht1
      · split at h <;> simp at h
      · split at h <;> simp at h
  · rw [chunkIter_sem, chunkIter_log, interp_append, hsem]
  · rw [chunkIter_remaining]; omega

theorem chunkLoop_inv {T s f : Nat} {c0 : κ} (hs : 0 < s) (hf : 0 < f) :
    ∀ (fuel : Nat) (x : CState κ), ChunkInv C T s f c0 x → x.remaining ≤ fuel →
      ChunkInv C T s f c0 (chunkLoop C s f fuel x) ∧ (chunkLoop C s f fuel x).remaining = 0 := by
  intro fuel
  induction fuel with
  | zero => intro x h hr; exact And.intro h (Nat.le_zero.mp hr)
  | succ fuel ih =>
    intro x h hr
    unfold chunkLoop
    by_cases h0 : x.remaining = 0
    · rw [if_pos h0]; exact And.intro h h0
    · rw [if_neg h0]
      obtain ⟨h', hlt⟩ := chunkInv_step C hs hf h h0
      exact ih _ h' (by omega)

end chunk


/-! ### replicas: one chunk = its single steps; the documented process -/

section replicas
variable {ρ : Type u} {γ : Type v} (R : ReplicaSys ρ γ)

def mInit (r : ρ) : MState ρ Unit := { st := r, acc := (), measured := 0, totalN := 0 }

theorem replicaRun_eq_iter (t : Nat) (r : ρ) : replicaRun R t r = iter (tickOne R) t (mInit r) := by
  induction t with
  | zero => rfl
  | succ t ih =>
    unfold replicaRun at ih ⊢
    rw [measureLoop_succ, ih]
    simp [measureBody, Nat.mod_one, tickOne, iter]

theorem replicaRun_spec (t : Nat) (r : ρ) :
    (replicaRun R t r).st = iter R.step t r ∧ (replicaRun R t r).measured = t ∧
    (replicaRun R t r).totalN = sumTo (fun k => R.n (iter R.step (k + 1) r)) t := by
  have h := measureLoop_spec R.step R.n (fun (_ : Unit) _ => ()) (f := 1) Nat.one_pos t r ()
  simp only [Nat.div_one, Nat.mul_one] at h
  exact ⟨h.1, h.2.1, h.2.2.2⟩

/-- `get_energy_for_average_n` of slot `i` is `-(avg / β i) + off i` (true of both samplers) -/
def Affine (β off : Nat → Rat) : Prop := (∀ i, β i ≠ 0) ∧ ∀ i a, R.energy i a = -(a / β i) + off i

theorem sumToQ_affine (g : Nat → Rat) (b o : Rat) (t : Nat) :
    sumToQ (fun j => -(g j / b) + o) t = -(sumToQ g t / b) + o * (t : Rat) := by
  induction t with
  | zero => simp [sumToQ]
  | succ t ih => simp only [sumToQ]; rw [ih]; push_cast; ring

/-- sum over the `t` steps of a chunk of the energy at the `n` of slot `i` -/
def stepSum (rs : List ρ) (i t : Nat) : Rat :=
  match rs[i]? with
  | some r => sumToQ (fun j => R.energy i (R.n (iter R.step (j + 1) r))) t
  | none => 0

/-- the chunk energy times the chunk length is the sum of the per-step energies -/
theorem chunkTe_mul {β off : Nat → Rat} (ha : Affine R β off) (rs : List ρ) (i t : Nat) (ht : 0 < t) :
    chunkTe R (rs.map (replicaRun R t)) i * (t : Rat) = stepSum R rs i t := by
  unfold chunkTe stepSum
  rw [List.getElem?_map]
  cases rs[i]? with
  | none => simp
  | some r =>
    obtain ⟨_, hm, hn⟩ := replicaRun_spec R t r
    simp only [Option.map_some, avgN, hm, hn]
    have hfun : (fun j => R.energy i (R.n (iter R.step (j + 1) r))) =
        (fun j => -(((R.n (iter R.step (j + 1) r) : Nat) : Rat) / β i) + off i) := by
      funext j; exact ha.2 i _
    rw [hfun, sumToQ_affine, ha.2, sumTo_cast]
    have hb := ha.1 i
    have htq : (t : Rat) ≠ 0 := by exact_mod_cast (Nat.pos_iff_ne_zero.mp ht)
    field_simp

/-- explicit effect of advancing by `t` -/
def advI (t : Nat) (x : IState (List ρ × γ)) : IState (List ρ × γ) :=
  { c := (x.c.1.map (iter R.step t), x.c.2), acc := fun i => x.acc i + stepSum R x.c.1 i t, samples := x.samples }

theorem interpEv_adv {β off : Nat → Rat} (ha : Affine R β off) (t : Nat) (ht : 0 < t) (x : IState (List ρ × γ)) :
    interpEv (serialContainer R) x (Ev.adv t) = advI R t x := by
  unfold interpEv advI serialContainer serialAdvance
  simp only
  congr 1
  · congr 1
    rw [List.map_map]
    exact List.map_congr_left (fun r _ => (replicaRun_spec R t r).1)
  · funext i
    rw [chunkTe_mul R ha _ i t ht]

theorem advI_zero (x : IState (List ρ × γ)) : advI R 0 x = x := by
  unfold advI
  have h1 : x.c.1.map (iter R.step 0) = x.c.1 := by
    have : iter R.step 0 = id := rfl
    rw [this]; exact List.map_id _
  have h2 : (fun i => x.acc i + stepSum R x.c.1 i 0) = x.acc := by
    funext i; unfold stepSum; cases x.c.1[i]? <;> simp [sumToQ]
  rw [h1, h2]

theorem advI_succ (t : Nat) (x : IState (List ρ × γ)) : advI R 1 (advI R t x) = advI R (t + 1) x := by
  unfold advI
  simp only
  congr 1
  · congr 1
    rw [List.map_map]
    exact List.map_congr_left (fun r _ => rfl)
  · funext i
    unfold stepSum
    rw [List.getElem?_map]
    cases x.c.1[i]? with
    | none => simp
    | some r => simp only [Option.map_some, sumToQ]; rw [Rat.add_assoc]; congr 1; simp [iter]

theorem interp_replicate_adv {β off : Nat → Rat} (ha : Affine R β off) (t : Nat) (x : IState (List ρ × γ)) :
    interp (serialContainer R) (List.replicate t (Ev.adv 1)) x = advI R t x := by
  induction t with
  | zero => rw [advI_zero]; rfl
  | succ t ih =>
    rw [List.replicate_succ', interp_append, ih]
    show interpEv (serialContainer R) (advI R t x) (Ev.adv 1) = _
    rw [interpEv_adv R ha 1 Nat.one_pos, advI_succ]

/-- executing a chunked log = executing its single-step expansion (state, energy sums, samples) -/
theorem interp_expand {β off : Nat → Rat} (ha : Affine R β off) :
    ∀ (log : List Ev) (x : IState (List ρ × γ)), (∀ t, Ev.adv t ∈ log → 0 < t) →
      interp (serialContainer R) log x = interp (serialContainer R) (expandEv log) x := by
  intro log
  induction log with
  | nil => intro x _; rfl
  | cons e r ih =>
    intro x hp
    have hr : ∀ t, Ev.adv t ∈ r → 0 < t := fun t h => hp t (List.mem_cons_of_mem _ h)
    cases e with
    | adv t =>
      have ht : 0 < t := hp t (List.mem_cons_self)
      rw [expandEv_adv, interp_append, interp_replicate_adv R ha, ← ih _ hr]
      show interp (serialContainer R) r (interpEv (serialContainer R) x (Ev.adv t)) = _
      rw [interpEv_adv R ha t ht]
    | swap => exact ih _ hr
    | sample => exact ih _ hr

/-- what the documented single-step process produces up to time `k` -/
def tickI (s f : Nat) (c0 : List ρ × γ) (k : Nat) : IState (List ρ × γ) :=
  { c := tickState R s c0 k, acc := fun i => sumToQ (stepEnergy R s c0 i) k, samples := samplesUpTo R s f c0 k }

theorem interp_tickLog {β off : Nat → Rat} (ha : Affine R β off) (s f : Nat) (c0 : List ρ × γ) (k : Nat) :
    interp (serialContainer R) (tickLog s f k) { c := c0, acc := fun _ => 0, samples := [] } = tickI R s f c0 k := by
  induction k with
  | zero => simp [tickLog, interp, tickI, tickState, sumToQ, samplesUpTo]
  | succ k ih =>
    show interp (serialContainer R) (tickLog s f k ++ (Ev.adv 1 :: tickEvents s f (k + 1))) _ = _
    rw [interp_append, ih]
    show interp (serialContainer R) (tickEvents s f (k + 1)) (interpEv (serialContainer R) (tickI R s f c0 k) (Ev.adv 1)) = _
    rw [interpEv_adv R ha 1 Nat.one_pos]
    have hadv : advI R 1 (tickI R s f c0 k) =
        { c := ((tickState R s c0 k).1.map R.step, (tickState R s c0 k).2),
          acc := fun i => sumToQ (stepEnergy R s c0 i) (k + 1), samples := samplesUpTo R s f c0 k } := by
      have e1 : (tickState R s c0 k).1.map (iter R.step 1) = (tickState R s c0 k).1.map R.step :=
        List.map_congr_left (fun r _ => rfl)
      have e2 : (fun i => sumToQ (stepEnergy R s c0 i) k + stepSum R (tickState R s c0 k).1 i 1) =
          fun i => sumToQ (stepEnergy R s c0 i) (k + 1) := by
        funext i
        simp only [sumToQ]
        congr 1
        unfold stepSum stepEnergy preState
        rw [List.getElem?_map]
        cases (tickState R s c0 k).1[i]? <;> simp [sumToQ, iter]
      unfold advI tickI
      simp only [e1, e2]
    rw [hadv]
    unfold tickEvents tickI
    by_cases h1 : (k + 1) % s = 0 <;> by_cases h2 : (k + 1) % f = 0 <;>
      simp [h1, h2, interp, interpEv, serialContainer, tickState, samplesUpTo]

theorem samplesUpTo_eq (f : Nat) (s : Nat) (c0 : List ρ × γ) (T : Nat) :
    samplesUpTo R s f c0 T =
      (List.range (T / f)).map fun j => (tickState R s c0 ((j + 1) * f)).1.map R.state := by
  induction T with
  | zero => simp [samplesUpTo]
  | succ T ih =>
    simp only [samplesUpTo]
    by_cases hm : (T + 1) % f = 0
    · obtain ⟨hd, hmul⟩ := succ_div_of_mod_eq_zero hm
      rw [if_pos hm, ih, hd, List.range_succ, List.map_append]
      simp [hmul]
    · rw [if_neg hm, ih, succ_div_of_mod_ne_zero hm]; simp

/-! ### any schedule of the per-replica steps gives the serial result -/

theorem runSched_spec (sched : List Nat) : ∀ (ms : List (MState ρ Unit)),
    runSched R sched ms = ms.mapIdx (fun i m => iter (tickOne R) (sched.count i) m) := by
  induction sched with
  | nil =>
    intro ms
    apply List.ext_getElem?
    intro j
    simp [runSched, List.getElem?_mapIdx, iter]
  | cons a rest ih =>
    intro ms
    show runSched R rest (ms.modify a (tickOne R)) = _
    rw [ih]
    apply List.ext_getElem?
    intro j
    rw [List.getElem?_mapIdx, List.getElem?_mapIdx, List.getElem?_modify, List.count_cons]
    cases ms[j]? with
    | none => rfl
    | some m =>
      by_cases h : a = j
      · subst h; simp [iter_succ']
      · have : (a == j) = false := by simpa using h
        simp [h, this]

theorem parallelAdvance_eq_serial (pick : Nat → List ρ × γ → List Nat) (t : Nat) (c : List ρ × γ)
    (hv : ValidSched (pick t c) c.1.length t) : parallelAdvance R pick t c = serialAdvance R t c := by
  have hms : runSched R (pick t c) (c.1.map fun r => ({ st := r, acc := (), measured := 0, totalN := 0 } : MState ρ Unit)) =
      c.1.map (replicaRun R t) := by
    rw [runSched_spec]
    apply List.ext_getElem?
    intro j
    rw [List.getElem?_mapIdx, List.getElem?_map, List.getElem?_map]
    by_cases hj : j < c.1.length
    · rw [hv j hj]
      cases c.1[j]? with
      | none => rfl
      | some r => simp [replicaRun_eq_iter, mInit]
    · rw [List.getElem?_eq_none (by omega)]; rfl
  unfold parallelAdvance serialAdvance
  simp only [hms]

end replicas

/-! ### `itime_fold` -/

theorem itimeStates_length (st : List Bool) (sl : Slots) : (itimeStates st sl).length = sl.length := by
  induction sl generalizing st with
  | nil => rfl
  | cons o t ih => cases o <;> simp [itimeStates, ih]

/-- the visited states are the sampler's state followed by the state after each slot but the last -/
theorem itimeStates_eq (st : List Bool) (sl : Slots) :
    itimeStates st sl = (st :: statesVisited st sl).dropLast := by
  induction sl generalizing st with
  | nil => rfl
  | cons o t ih =>
    cases o with
    | none => simp only [itimeStates, statesVisited]; rw [ih]; rfl
    | some op => simp only [itimeStates, statesVisited]; rw [ih]; rfl


/-! ### counting events -/

def advLen : Ev → Nat
  | Ev.adv t => t
  | _ => 0

/-- total number of single steps an event log advances -/
def totalAdv (log : List Ev) : Nat := (log.map advLen).sum

theorem count_adv_expand (log : List Ev) : (expandEv log).count (Ev.adv 1) = totalAdv log := by
  induction log with
  | nil => rfl
  | cons e r ih =>
    cases e with
    | adv t => rw [expandEv_adv, List.count_append, List.count_replicate_self, ih]; simp [totalAdv, advLen]
    | swap => simp only [expandEv]; rw [List.count_cons, ih]; simp [totalAdv, advLen]
    | sample => simp only [expandEv]; rw [List.count_cons, ih]; simp [totalAdv, advLen]

theorem count_swap_expand (log : List Ev) : (expandEv log).count Ev.swap = log.count Ev.swap := by
  induction log with
  | nil => rfl
  | cons e r ih =>
    cases e with
    | adv t =>
      rw [expandEv_adv, List.count_append, ih, List.count_cons]
      have : (List.replicate t (Ev.adv 1)).count Ev.swap = 0 := by
        rw [List.count_replicate]; simp
      simp [this]
    | swap => simp only [expandEv]; rw [List.count_cons, List.count_cons, ih]
    | sample => simp only [expandEv]; rw [List.count_cons, List.count_cons, ih]

theorem count_sample_expand (log : List Ev) : (expandEv log).count Ev.sample = log.count Ev.sample := by
  induction log with
  | nil => rfl
  | cons e r ih =>
    cases e with
    | adv t =>
      rw [expandEv_adv, List.count_append, ih, List.count_cons]
      have : (List.replicate t (Ev.adv 1)).count Ev.sample = 0 := by
        rw [List.count_replicate]; simp
      simp [this]
    | swap => simp only [expandEv]; rw [List.count_cons, List.count_cons, ih]
    | sample => simp only [expandEv]; rw [List.count_cons, List.count_cons, ih]

theorem tickLog_count_adv (s f T : Nat) : (tickLog s f T).count (Ev.adv 1) = T := by
  induction T with
  | zero => rfl
  | succ T ih =>
    simp only [tickLog, List.count_append, ih, List.count_cons, tickEvents]
    split <;> split <;> simp

theorem count_swap_tickEvents (s f k : Nat) : (tickEvents s f k).count Ev.swap = if k % s = 0 then 1 else 0 := by
  unfold tickEvents; split <;> split <;> simp

theorem count_sample_tickEvents (s f k : Nat) : (tickEvents s f k).count Ev.sample = if k % f = 0 then 1 else 0 := by
  unfold tickEvents; split <;> split <;> simp

theorem tickLog_count_swap (s f T : Nat) : (tickLog s f T).count Ev.swap = T / s := by
  induction T with
  | zero => simp [tickLog]
  | succ T ih =>
    simp only [tickLog, List.count_append, ih, List.count_cons, count_swap_tickEvents]
    by_cases hm : (T + 1) % s = 0
    · rw [(succ_div_of_mod_eq_zero hm).1, if_pos hm]; simp
    · rw [succ_div_of_mod_ne_zero hm, if_neg hm]; simp

theorem tickLog_count_sample (s f T : Nat) : (tickLog s f T).count Ev.sample = T / f := by
  induction T with
  | zero => simp [tickLog]
  | succ T ih =>
    simp only [tickLog, List.count_append, ih, List.count_cons, count_sample_tickEvents]
    by_cases hm : (T + 1) % f = 0
    · rw [(succ_div_of_mod_eq_zero hm).1, if_pos hm]; simp
    · rw [succ_div_of_mod_ne_zero hm, if_neg hm]; simp

/-! ### excluded inputs: a zero period makes no progress -/

theorem chunkLoop_swap_zero_stuck {κ : Type u} (C : Container κ) (f : Nat) :
    ∀ (fuel : Nat) (x : CState κ), x.toSwap = 0 → 
      (chunkLoop C 0 f fuel x).remaining = x.remaining := by
  intro fuel
  induction fuel with
  | zero => intro x _; rfl
  | succ fuel ih =>
    intro x h
    unfold chunkLoop
    by_cases h0 : x.remaining = 0
    · rw [if_pos h0]
    · rw [if_neg h0]
      have ht : chunkT x = 0 := by unfold chunkT; omega
      have h1 : (chunkIter C 0 f x).toSwap = 0 := by rw [chunkIter_toSwap, ht, h]; simp
      rw [ih _ h1, chunkIter_remaining, ht]; rfl

theorem chunkLoop_sample_zero_stuck {κ : Type u} (C : Container κ) (s : Nat) :
    ∀ (fuel : Nat) (x : CState κ), x.toSample = 0 → 
      (chunkLoop C s 0 fuel x).remaining = x.remaining := by
  intro fuel
  induction fuel with
  | zero => intro x _; rfl
  | succ fuel ih =>
    intro x h
    unfold chunkLoop
    by_cases h0 : x.remaining = 0
    · rw [if_pos h0]
    · rw [if_neg h0]
      have ht : chunkT x = 0 := by unfold chunkT; omega
      have h1 : (chunkIter C s 0 x).toSample = 0 := by rw [chunkIter_toSample, ht, h]; simp
      rw [ih _ h1, chunkIter_remaining, ht]; rfl

end Qmc
