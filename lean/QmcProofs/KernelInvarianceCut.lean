import QmcProofs.KernelInvarianceCutGood
import QmcProofs.Composed

/-!
# Invariance of the TRUE SSE measure `configWeight H β · 1_{Good H}`

`Good H c = Consistent c ∧ Legal H c` (QmcProofs/Good.lean, shared with the marginal side of C01):
periodic world lines, every stored operator a positive-weight term of `H` with canonical tag — the
configurations the sampler can actually be in (`good_of_isingInv`: the invariant `Sampler.IsingInv`
that C06/C07/Composed prove for the executable whole-step model implies it, and puts the
configuration in `cfgSpace`).  The measure is

  `sseCutOn H β S c = if Good H c then configWeight H β c else 0`   (`c ∈ S`)

(`= cutTo (Good H) (configWeight H β)`; `sseCutOn_pos_iff`: for β > 0 it is positive exactly on the
Good configurations).  Every kernel of `KernelInvariance.lean` is in detailed balance with it, and one
`timestep` leaves it invariant:

  `slot_kernel_reversible_cut(_hb)`, `sweep_invariant_cut(_hb)`, `cluster_kernel_reversible_cut`,
  `free_refresh_invariant_cut`, `timestep_invariant_cut(_hb)`, `timestep_invariant_cut_with`,
  `timestep_invariant_components_cut(_hb)`, `ising_timestep_invariant_cut(_hb)`.

Hypotheses beyond those of the uncut theorems: `HamWF H N` (bonds on distinct variables `< N`; it was
already needed for the model's cluster decomposition), all configurations of `S` have `N` variables
(true of `cfgSpace H N L`), and for an abstract cluster family `ClusterFamily.TagOK` (flips leave
canonical tags — proved for `ofComponents` and `ofMasks`).

Whole-type statements use `GoodN H N c = (c.state.length = N ∧ Good H c)`; on `S` it is `Good H c`.
-/

open Finset

namespace Qmc.Kernel
open Qmc.Dist

/-! ### decidability, the measure -/

instance instDecidableLegal (H : Ham) (c : Config) : Decidable (Legal H c) :=
  decidable_of_iff _ (legalB_iff H c)

instance instDecidableGood (H : Ham) (c : Config) : Decidable (Good H c) := by
  unfold Good; infer_instance

instance instDecidableGoodN (H : Ham) (N : Nat) (c : Config) : Decidable (GoodN H N c) := by
  unfold GoodN; infer_instance

/-- **the true SSE measure on the finite set `S`**: the SSE weight on Good configurations, 0 elsewhere -/
def sseCutOn (H : Ham) [DecidablePred (Good H)] (β : Rat) (S : Finset Config) : S → Rat :=
  fun c => cutTo (Good H) (configWeight H β) c.1

theorem sseCutOn_apply (H : Ham) [DecidablePred (Good H)] (β : Rat) (S : Finset Config) (c : S) :
    sseCutOn H β S c = if Good H c.1 then configWeight H β c.1 else 0 := rfl

/-- on a set of configurations with `N` variables the cut by `Good H` is the cut by `GoodN H N` -/
theorem sseCutOn_eq (H : Ham) [DecidablePred (Good H)] (β : Rat) (N : Nat) {S : Finset Config}
    (hN : ∀ c ∈ S, c.state.length = N) :
    sseCutOn H β S = fun c : S => cutTo (GoodN H N) (configWeight H β) c.1 := by
  funext c
  simp only [sseCutOn, cutTo, GoodN, hN c.1 c.2, true_and]

/-- detailed balance with the cut weight on `Config` + conservation of probability on `S`
⇒ invariance of the true SSE measure on `S` -/
theorem invariant_cut_of (H : Ham) [DecidablePred (Good H)] (β : Rat) (N : Nat) {S : Finset Config}
    (hN : ∀ c ∈ S, c.state.length = N) {K : Config → Config → Rat}
    (hrev : Reversible (cutTo (GoodN H N) (configWeight H β)) K) (hrow : RowSumOn S K) :
    Invariant (sseCutOn H β S) (restr S K) := by
  rw [sseCutOn_eq H β N hN]
  exact reversible_invariantOn hrev hrow

theorem reversible_cut_on (H : Ham) [DecidablePred (Good H)] (β : Rat) (N : Nat) {S : Finset Config}
    (hN : ∀ c ∈ S, c.state.length = N) {K : Config → Config → Rat}
    (hrev : Reversible (cutTo (GoodN H N) (configWeight H β)) K) :
    Reversible (sseCutOn H β S) (restr S K) := by
  rw [sseCutOn_eq H β N hN]
  exact restr_reversible hrev

/-! ### what the sampler's invariant gives; positivity of the measure on its support -/

/-- a Good configuration lies in the configuration space of its size -/
theorem good_mem_cfgSpace {H : Ham} {c : Config} (hg : Good H c) :
    c ∈ cfgSpace H c.state.length c.slots.length := by
  rw [mem_cfgSpace]
  refine ⟨rfl, rfl, fun o ho => ?_⟩
  obtain ⟨l1, l2, l3, -, l5, -⟩ := hg.2 o ho
  exact ⟨l1, l2, l3, l5.1, l5.2.1⟩

/-- **`IsingInv s → Good`**: the invariant of the executable whole-step model between two `timestep`s
(QmcProofs/SamplerStep.lean; kept by every step: `Composed.isingTimestep_pres`, `isingRun_inv`) says
the configuration is Good for the sampler's Hamiltonian, has `nvars` variables, and lies in the
configuration space on which invariance is stated. -/
theorem good_of_isingInv {s : Sampler.IsingSampler} (h : Sampler.IsingInv s) :
    Good s.spec.ham s.cfg ∧ s.cfg.state.length = s.spec.nvars ∧
      s.cfg ∈ cfgSpace s.spec.ham s.spec.nvars s.slots.length := by
  have hg : Good s.spec.ham s.cfg := ⟨h.cons, h.legal⟩
  refine ⟨hg, h.len, ?_⟩
  have := good_mem_cfgSpace hg
  rwa [show s.cfg.state.length = s.spec.nvars from h.len] at this

theorem opsWeight_pos_of_legal (H : Ham) : ∀ (s : Slots),
    (∀ o, some o ∈ s → 0 < H.w o.bond o.ins o.outs) → 0 < opsWeight H s
  | [], _ => by simp [opsWeight]
  | none :: t, h => by
    simp only [opsWeight]
    exact opsWeight_pos_of_legal H t (fun o ho => h o (List.mem_cons_of_mem _ ho))
  | some o :: t, h => by
    simp only [opsWeight]
    exact mul_pos (h o (by simp))
      (opsWeight_pos_of_legal H t (fun o' ho => h o' (List.mem_cons_of_mem _ ho)))

/-- the SSE weight of a Good (even: legal) configuration is positive for β > 0 -/
theorem configWeight_pos_of_legal (H : Ham) (β : Rat) (hβ : 0 < β) {c : Config} (hl : Legal H c) :
    0 < configWeight H β c := by
  unfold configWeight
  simp only
  have h1 : (0 : Rat) < ((fact (c.slots.length - countOps c.slots) : Nat) : Rat) := by
    exact_mod_cast fact_pos _
  have h2 : (0 : Rat) < ((fact c.slots.length : Nat) : Rat) := by exact_mod_cast fact_pos _
  have h3 := opsWeight_pos_of_legal H c.slots (fun o ho => (hl o ho).2.2.2.2.2)
  positivity

/-- **the measure is positive exactly on the Good configurations** -/
theorem sseCutOn_pos_iff (H : Ham) [DecidablePred (Good H)] (β : Rat) (hβ : 0 < β) (S : Finset Config)
    (c : S) : 0 < sseCutOn H β S c ↔ Good H c.1 := by
  rw [sseCutOn_apply]
  by_cases hg : Good H c.1
  · rw [if_pos hg]; exact ⟨fun _ => hg, fun _ => configWeight_pos_of_legal H β hβ hg.2⟩
  · rw [if_neg hg]; exact ⟨fun h => absurd h (lt_irrefl _), fun h => absurd h hg⟩

/-! ## single-slot kernels -/

/-- **`slot_kernel_reversible_cut`** (Metropolis): detailed balance with the SSE weight cut down to the
Good configurations with `N` variables, on the whole type `Config`. -/
theorem slot_kernel_reversible_cut (H : Ham) (β : Rat) (hβ : 0 < β) (hw : ∀ b i, 0 ≤ H.w b i i)
    (N : Nat) (hH : HamWF H N) (p : Nat) :
    Reversible (cutTo (GoodN H N) (configWeight H β)) (slotKM H β p) :=
  cutTo_reversible_of_zero _ (slotKM_reversible H β hβ hw p) (slotKM_cut_zero H β N hH hw p)

/-- **`slot_kernel_reversible_cut`** (heat bath, any valid table with one entry per bond) -/
theorem slot_kernel_reversible_cut_hb (H : Ham) (bw : BW) (β : Rat) (hβ : 0 < β) (hW : 0 < bw.sum)
    (hw : ∀ b i, 0 ≤ H.w b i i)
    (htab : ∀ b, b < bw.length → ∀ st : List Bool,
      H.w b (readVars st (H.vars b)) (readVars st (H.vars b)) ≤ bw.getD b 0)
    (hlen : bw.length = H.nbonds) (N : Nat) (hH : HamWF H N) (p : Nat) :
    Reversible (cutTo (GoodN H N) (configWeight H β)) (slotKHB H bw β p) :=
  cutTo_reversible_of_zero _ (slotKHB_reversible H bw β hβ hW hw htab p)
    (slotKHB_cut_zero H bw β N hH hw hlen p)

/-! ## sweep -/

/-- **`sweep_invariant_cut`**: the Metropolis sweep leaves the true SSE measure invariant -/
theorem sweep_invariant_cut (H : Ham) [DecidablePred (Good H)] (β : Rat) (hβ : 0 < β)
    (hw : ∀ b i, 0 ≤ H.w b i i) (N : Nat) (hH : HamWF H N) {S : Finset Config} (hS : Closed H S)
    (hN : ∀ c ∈ S, c.state.length = N) (L : Nat) :
    Invariant (sseCutOn H β S) (sweepKM H β S L) := by
  refine invariant_compList _ (fun K hK => ?_)
  obtain ⟨p, -, rfl⟩ := List.mem_map.mp hK
  exact invariant_cut_of H β N hN (slot_kernel_reversible_cut H β hβ hw N hH p)
    (slotKM_rowSumOn H β p (hS.slot p))

/-- **`sweep_invariant_cut`**, heat-bath variant -/
theorem sweep_invariant_cut_hb (H : Ham) [DecidablePred (Good H)] (bw : BW) (β : Rat) (hβ : 0 < β)
    (hW : 0 < bw.sum) (hw : ∀ b i, 0 ≤ H.w b i i)
    (htab : ∀ b, b < bw.length → ∀ st : List Bool,
      H.w b (readVars st (H.vars b)) (readVars st (H.vars b)) ≤ bw.getD b 0)
    (hlen : bw.length = H.nbonds) (N : Nat) (hH : HamWF H N) {S : Finset Config} (hS : Closed H S)
    (hN : ∀ c ∈ S, c.state.length = N) (L : Nat) :
    Invariant (sseCutOn H β S) (sweepKHB H bw β S L) := by
  refine invariant_compList _ (fun K hK => ?_)
  obtain ⟨p, -, rfl⟩ := List.mem_map.mp hK
  exact invariant_cut_of H β N hN (slot_kernel_reversible_cut_hb H bw β hβ hW hw htab hlen N hH p)
    (slotKHB_rowSumOn H bw β p (fun b hb => hS.slot p b (hlen ▸ hb)))

/-! ## cluster update -/

variable {fr : SkOp → Bool} {S : Finset Config}

/-- **`cluster_kernel_reversible_cut`**: for a cluster family whose flips leave canonical tags, the
cluster kernel is in detailed balance with the cut-down weight (each flip maps Good to Good:
`clusterMove_consistent`, `clusterMove_legal`). -/
theorem cluster_kernel_reversible_cut (fam : ClusterFamily fr S) (htag : fam.TagOK) (H : Ham) (β : Rat)
    (N : Nat) (hH : ClusterSym H fr S) :
    Reversible (cutTo (GoodN H N) (configWeight H β)) (clusterK fam) := by
  refine cutTo_reversible _ (cluster_kernel_reversible fam H β hH) (fun a b hk => ?_)
  unfold clusterK fiberK at hk
  refine flipsK_pred (GoodN H N) _ (fun x hx c => ?_) a b hk
  obtain ⟨-, f, hf, e⟩ := mem_clusterFlipList hx
  rw [e]; exact guardFlip_good fam htag hH hf c

theorem cluster_kernel_invariant_cut (fam : ClusterFamily fr S) (htag : fam.TagOK) (H : Ham)
    [DecidablePred (Good H)] (β : Rat) (N : Nat) (hH : ClusterSym H fr S)
    (hN : ∀ c ∈ S, c.state.length = N) :
    Invariant (sseCutOn H β S) (restr S (clusterK fam)) :=
  invariant_cut_of H β N hN (cluster_kernel_reversible_cut fam htag H β N hH) (clusterK_rowSumOn fam)

/-! ## free-spin refresh -/

/-- **`free_refresh_invariant_cut`** (detailed-balance form) -/
theorem free_refresh_reversible_cut (H : Ham) (β : Rat) (N : Nat) (hH : HamWF H N) (M : Nat) :
    Reversible (cutTo (GoodN H N) (configWeight H β)) (refreshK M) := by
  refine cutTo_reversible _ (free_refresh_reversible H β M) (fun a b hk => ?_)
  refine flipsK_pred (GoodN H N) _ (fun x hx c => ?_) a b hk
  obtain ⟨-, v, e⟩ := mem_refreshList hx
  rw [e]; exact toggleIdle_good hH v c

/-- **`free_refresh_invariant_cut`** -/
theorem free_refresh_invariant_cut (H : Ham) [DecidablePred (Good H)] (β : Rat) (N : Nat)
    (hH : HamWF H N) (M : Nat) {S : Finset Config} (hS : Closed H S)
    (hN : ∀ c ∈ S, c.state.length = N) :
    Invariant (sseCutOn H β S) (restr S (refreshK M)) :=
  invariant_cut_of H β N hN (free_refresh_reversible_cut H β N hH M) (refreshK_rowSumOn M hS.idle)

/-! ## one `timestep` -/

/-- composition, with named hypotheses for the diagonal kernel and any extra steps (RVB) -/
theorem timestep_invariant_cut_with (H : Ham) [DecidablePred (Good H)] (β : Rat) (N : Nat)
    (hH : HamWF H N) (fam : ClusterFamily fr S) (htag : fam.TagOK) (hsym : ClusterSym H fr S)
    (hS : Closed H S) (hN : ∀ c ∈ S, c.state.length = N) (M : Nat) (sweepK : S → S → Rat)
    (extra : List (S → S → Rat)) (hsweep : Invariant (sseCutOn H β S) sweepK)
    (hextra : ∀ K ∈ extra, Invariant (sseCutOn H β S) K) :
    Invariant (sseCutOn H β S) (timestepWith sweepK extra fam M) := by
  refine invariant_compList _ (fun K hK => ?_)
  simp only [List.mem_cons, List.mem_append, List.not_mem_nil, or_false] at hK
  rcases hK with (rfl | hK) | rfl | rfl
  · exact hsweep
  · exact hextra K hK
  · exact cluster_kernel_invariant_cut fam htag H β N hsym hN
  · exact free_refresh_invariant_cut H β N hH M hS hN

/-- **`timestep_invariant_cut`**: sweep ; cluster ; refresh leaves the true SSE measure invariant -/
theorem timestep_invariant_cut (H : Ham) [DecidablePred (Good H)] (β : Rat) (hβ : 0 < β)
    (hw : ∀ b i, 0 ≤ H.w b i i) (N : Nat) (hH : HamWF H N) (fam : ClusterFamily fr S)
    (htag : fam.TagOK) (hsym : ClusterSym H fr S) (hS : Closed H S)
    (hN : ∀ c ∈ S, c.state.length = N) (L : Nat) :
    Invariant (sseCutOn H β S) (timestepK H β fam L N) :=
  timestep_invariant_cut_with H β N hH fam htag hsym hS hN N _ []
    (sweep_invariant_cut H β hβ hw N hH hS hN L) (fun _ h => by simp at h)

/-- **`timestep_invariant_cut`**, heat-bath variant -/
theorem timestep_invariant_cut_hb (H : Ham) [DecidablePred (Good H)] (bw : BW) (β : Rat) (hβ : 0 < β)
    (hW : 0 < bw.sum) (hw : ∀ b i, 0 ≤ H.w b i i)
    (htab : ∀ b, b < bw.length → ∀ st : List Bool,
      H.w b (readVars st (H.vars b)) (readVars st (H.vars b)) ≤ bw.getD b 0)
    (hlen : bw.length = H.nbonds) (N : Nat) (hH : HamWF H N) (fam : ClusterFamily fr S)
    (htag : fam.TagOK) (hsym : ClusterSym H fr S) (hS : Closed H S)
    (hN : ∀ c ∈ S, c.state.length = N) (L : Nat) :
    Invariant (sseCutOn H β S) (timestepKHB H bw β fam L N) :=
  timestep_invariant_cut_with H β N hH fam htag hsym hS hN N _ []
    (sweep_invariant_cut_hb H bw β hβ hW hw htab hlen N hH hS hN L) (fun _ h => by simp at h)

theorem cfgSpace_len (H : Ham) (N L : Nat) : ∀ c ∈ cfgSpace H N L, c.state.length = N :=
  fun _ hc => (mem_cfgSpace.mp hc).1

/-- **with the model's own cluster decomposition, on the whole configuration space** -/
theorem timestep_invariant_components_cut (H : Ham) [DecidablePred (Good H)] (β : Rat) (hβ : 0 < β)
    (hw : ∀ b i, 0 ≤ H.w b i i) (fr : SkOp → Bool) (N L : Nat) (hV : VarsOK H N)
    (hsym : ClusterSym H fr (cfgSpace H N L)) :
    Invariant (sseCutOn H β (cfgSpace H N L))
      (timestepK H β (ClusterFamily.ofComponents fr H N L hV) L N) :=
  timestep_invariant_cut H β hβ hw N hV _ (ofComponents_tagOK fr H N L hV) hsym
    (cfgSpace_closed H N L) (cfgSpace_len H N L) L

theorem timestep_invariant_components_cut_hb (H : Ham) [DecidablePred (Good H)] (β : Rat) (hβ : 0 < β)
    (hw : ∀ b i, 0 ≤ H.w b i i) (hW : 0 < (makeBondWeights H).sum) (fr : SkOp → Bool) (N L : Nat)
    (hV : VarsOK H N) (hsym : ClusterSym H fr (cfgSpace H N L)) :
    Invariant (sseCutOn H β (cfgSpace H N L))
      (timestepKHB H (makeBondWeights H) β (ClusterFamily.ofComponents fr H N L hV) L N) :=
  timestep_invariant_cut_hb H _ β hβ hW hw (makeBondWeights_valid H) (makeBondWeights_length H) N hV _
    (ofComponents_tagOK fr H N L hV) hsym (cfgSpace_closed H N L) (cfgSpace_len H N L) L

/-! ## the Ising sampler: hypotheses on the parameters only -/

/-- **`ising_timestep_invariant_cut`** — for the Hamiltonian `s.spec.ham` (`IsingSpec.ham`) and the
freezing rule `s.frozenBond` of the executable whole-step model `Sampler.isingTimestep`: any valid graph
(edges on two different variables below `nvars`), couplings of any sign, Γ ≥ 0, any h, β > 0, any
number of slots `L`.  One `timestep` (Metropolis sweep ; each flippable component of the model's own
decomposition with probability ½ ; free-spin refresh) leaves the true SSE measure
`configWeight · 1_{Consistent ∧ Legal}` invariant on the configuration space. -/
theorem ising_timestep_invariant_cut (s : Sampler.IsingSampler) [DecidablePred (Good s.spec.ham)]
    (hv : s.spec.Valid) (hg : 0 ≤ s.spec.gamma) (β : Rat) (hβ : 0 < β) (L : Nat) :
    Invariant (sseCutOn s.spec.ham β (cfgSpace s.spec.ham s.spec.nvars L))
      (timestepK s.spec.ham β
        (ClusterFamily.ofComponents (fun o => s.frozenBond o.bond) s.spec.ham s.spec.nvars L
          (s.spec.hamWF hv)) L s.spec.nvars) :=
  timestep_invariant_components_cut _ β hβ (fun b i => Refine.ising_w_nonneg s.spec hg b i i) _ _ L _
    (clusterSym_cfgSpace _ _ _ L (Composed.ising_bondSym s).sym (Composed.ising_bondSym s).const)

/-- the heat-bath variant (table `makeBondWeights`, the one `set_enable_heatbath` builds) -/
theorem ising_timestep_invariant_cut_hb (s : Sampler.IsingSampler) [DecidablePred (Good s.spec.ham)]
    (hv : s.spec.Valid) (hg : 0 ≤ s.spec.gamma) (β : Rat) (hβ : 0 < β) (L : Nat)
    (hW : 0 < (makeBondWeights s.spec.ham).sum) :
    Invariant (sseCutOn s.spec.ham β (cfgSpace s.spec.ham s.spec.nvars L))
      (timestepKHB s.spec.ham (makeBondWeights s.spec.ham) β
        (ClusterFamily.ofComponents (fun o => s.frozenBond o.bond) s.spec.ham s.spec.nvars L
          (s.spec.hamWF hv)) L s.spec.nvars) :=
  timestep_invariant_components_cut_hb _ β hβ (fun b i => Refine.ising_w_nonneg s.spec hg b i i) hW _ _ L
    _ (clusterSym_cfgSpace _ _ _ L (Composed.ising_bondSym s).sym (Composed.ising_bondSym s).const)

/-- invariance written out as a sum over the Good configurations of the space -/
theorem ising_timestep_invariant_cut_sum (s : Sampler.IsingSampler) (hv : s.spec.Valid)
    (hg : 0 ≤ s.spec.gamma) (β : Rat) (hβ : 0 < β) (L : Nat)
    (c' : (cfgSpace s.spec.ham s.spec.nvars L : Finset Config)) :
    ∑ c : (cfgSpace s.spec.ham s.spec.nvars L : Finset Config),
        (if Good s.spec.ham c.1 then configWeight s.spec.ham β c.1 else 0) *
          timestepK s.spec.ham β
            (ClusterFamily.ofComponents (fun o => s.frozenBond o.bond) s.spec.ham s.spec.nvars L
              (s.spec.hamWF hv)) L s.spec.nvars c c' =
      if Good s.spec.ham c'.1 then configWeight s.spec.ham β c'.1 else 0 :=
  ising_timestep_invariant_cut s hv hg β hβ L c'

end Qmc.Kernel

/-! ## non-vacuity -/

namespace Qmc.Kernel.CutExample
open Qmc.Dist Qmc.Kernel Qmc.Refine Qmc.Sampler

/-- the example configuration `exB` of C09 / Refinement (σx, bond operator, σx on spin 0; σx on spin 1;
idle spin 2; `spec3`: edge (0,1), J = 1, Γ = 1/2, h = 1/4) is Good -/
theorem exB_good : Good spec3.ham exB := ⟨exB_consistent, exB_legal⟩

theorem exB_mem : exB ∈ cfgSpace spec3.ham 3 5 := good_mem_cfgSpace exB_good

/-- … and has positive measure -/
example : 0 < sseCutOn spec3.ham (3 / 2) (cfgSpace spec3.ham 3 5) ⟨exB, exB_mem⟩ :=
  (sseCutOn_pos_iff spec3.ham (3 / 2) (by norm_num) _ _).mpr exB_good

theorem spec3_nonneg : ∀ b i, 0 ≤ spec3.ham.w b i i :=
  fun b i => ising_w_nonneg spec3 (by norm_num [spec3]) b i i

theorem spec3_nbonds : spec3.ham.nbonds = 7 := by
  simp [IsingSpec.ham, IsingSpec.nedges, spec3]

/-- the weight of the transverse bond of spin 0 (bond 1) at the empty slot 3 of `exB` is Γ = 1/2 -/
theorem exB_curW : curW spec3.ham exB 3 1 = 1 / 2 := by
  simp [curW, IsingSpec.ham, IsingSpec.nedges, spec3]

/-- the configuration reached by inserting σx-diagonal on spin 0 at the empty slot 3 is Good … -/
theorem exB_insert_good : GoodN spec3.ham 3 (setSlot exB 3 (some (canonOp spec3.ham exB 3 1))) :=
  good_insert spec3_wf ⟨rfl, exB_good⟩ (by rw [spec3_nbonds]; decide) (by decide) (by rw [exB_curW]; norm_num)

theorem pInsertM_pos (β : Rat) (Nb : Nat) (w : Rat) (L n : Nat) (hβ : 0 < β) (hNb : 0 < Nb) (hw : 0 < w)
    (hn : n < L) : 0 < pInsertM β Nb w L n := by
  unfold pInsertM accInsM clipProb
  have h1 : (0 : Rat) < (Nb : Rat) := by exact_mod_cast hNb
  have h2 : (0 : Rat) < ((L - n : Nat) : Rat) := by
    have : 0 < L - n := by omega
    exact_mod_cast this
  split <;> positivity

/-- … and the slot kernel goes there from `exB` with positive probability: the kernel moves a Good
configuration of positive measure to another Good configuration -/
example : 0 < slotKM spec3.ham (3 / 2) 3 exB (setSlot exB 3 (some (canonOp spec3.ham exB 3 1))) := by
  have h := slotKM_insert_entry spec3.ham (3 / 2) 3 ⟨1, by rw [spec3_nbonds]; decide⟩ exB (by decide)
    (fun b' e => by
      have := congrArg Op.bond e
      exact Fin.ext this)
  rw [h]
  exact pInsertM_pos _ _ _ _ _ (by norm_num) (by rw [spec3_nbonds]; decide) (by rw [exB_curW]; norm_num) (by decide)

/-- every diagonal operator of `exB` is canonical: the bond operator at slot 1 -/
example : bd [true, false] = canonOp spec3.ham exB 1 0 :=
  good_diag_is_canon exB_good (p := 1) (o := bd [true, false]) (by decide) rfl

/-- the invariant of the whole-step model gives Good, the right size, and membership in the space -/
example (hb : Bool) : Good spec3.ham (exIsing hb).cfg ∧ (exIsing hb).cfg.state.length = 3 ∧
    (exIsing hb).cfg ∈ cfgSpace spec3.ham 3 5 :=
  good_of_isingInv (exIsing_inv hb)

/-- the headline theorem on `spec3` (h ≠ 0: three frozen longitudinal bonds), β = 3/2, any `L` -/
example (hb : Bool) (L : Nat) :
    Invariant (sseCutOn spec3.ham (3 / 2) (cfgSpace spec3.ham 3 L))
      (timestepK spec3.ham (3 / 2)
        (ClusterFamily.ofComponents (fun o => (exIsing hb).frozenBond o.bond) spec3.ham 3 L
          (spec3.hamWF spec3_valid)) L 3) :=
  ising_timestep_invariant_cut (exIsing hb) spec3_valid
    (by norm_num [exIsing, IsingSampler.setEnableHeatbath, spec3]) (3 / 2) (by norm_num) L

/-- the pieces, on the same instance -/
example (p : Nat) : Reversible (cutTo (GoodN spec3.ham 3) (configWeight spec3.ham (3 / 2)))
    (slotKM spec3.ham (3 / 2) p) :=
  slot_kernel_reversible_cut _ _ (by norm_num) spec3_nonneg 3 spec3_wf p

example : Invariant (sseCutOn spec3.ham (3 / 2) (cfgSpace spec3.ham 3 5))
    (sweepKM spec3.ham (3 / 2) (cfgSpace spec3.ham 3 5) 5) :=
  sweep_invariant_cut _ _ (by norm_num) spec3_nonneg 3 spec3_wf (cfgSpace_closed _ 3 5)
    (cfgSpace_len _ 3 5) 5

example : Reversible (cutTo (GoodN spec3.ham 3) (configWeight spec3.ham (3 / 2)))
    (clusterK (ClusterFamily.ofComponents (fun o => (exIsing false).frozenBond o.bond) spec3.ham 3 5
      (spec3.hamWF spec3_valid))) :=
  cluster_kernel_reversible_cut _ (ofComponents_tagOK _ _ 3 5 _) _ _ 3
    (clusterSym_cfgSpace _ _ _ 5 (Composed.ising_bondSym (exIsing false)).sym
      (Composed.ising_bondSym (exIsing false)).const)

example : Invariant (sseCutOn spec3.ham (3 / 2) (cfgSpace spec3.ham 3 5)) (restr _ (refreshK 3)) :=
  free_refresh_invariant_cut _ _ 3 spec3_wf 3 (cfgSpace_closed _ 3 5) (cfgSpace_len _ 3 5)

end Qmc.Kernel.CutExample
