import QmcProofs.LawRand
import QmcProps.C08
import Mathlib.Algebra.Order.Floor.Ring

/-!
# The idealisation step for `Draw.hbPick`: the `2^-52` grid of `gen_range(0.0..t)`

`Draw.hbPick` (QmcModel/ProbTree.lean) carries the continuous-uniform weights `ws[b]/W` (bond choice) and `w_b/ws[b]`
(rejection test).  The model draws `u = gen_range(0.0..1.0)` and `x = gen_range(0.0..W)` as `((v >> 12)·2^-52)·t` from one
64-bit word each (`RS.genRangeF`), so under uniform words both live on a grid of `2^52` equally likely points
(each point = `2^12` words).  Counting facts:

* `hb_accept_count` — the rejection test `u·mw < w` (`0 ≤ w ≤ mw`, `mw > 0`) passes on exactly `2^12·⌈(w/mw)·2^52⌉` words;
  `hb_accept_frequency`: frequency ∈ `[w/mw, w/mw + 2^-52)`; `hb_accept_frequency_exact`: `= w/mw` for a dyadic ratio.
* `pick_iff_inBond` — `index_for_cumulative(x) = b` iff `x ∈ (cum(b−1), cum(b)]` (closed at 0 for the first bond): the
  converse of C08's `cumulative_pick`, by a covering argument.
* `hb_pick_count` — dyadic table (cumulative sums on the grid, `cum(b)·2^52 = k_b·W`): bond `b` is selected on exactly
  `2^12·(min (k_{b+1}+1) 2^52 − lo)` words, `lo = 0` for the first bond, `k_b + 1` otherwise;
  `hb_pick_frequency_interior`: `= ws[b]/W` exactly for an interior bond; the first bond gets one grid point more
  (`x = 0`), the last one less (`x = W` is never drawn) — a deviation of `2^-52` from `ws[b]/W` that the code has too.
For a non-dyadic table the count is `⌊cum(b)·2^52/W⌋ − ⌊cum(b−1)·2^52/W⌋` up to the same boundary terms (not stated).
-/

open Finset
namespace Qmc.Law
open Qmc Qmc.RS

/-! ### `hbPick`: the `2^-52` grid of `gen_range(0.0..t)` -/

/-- words whose top 52 bits are below `K`: `2^12·K` of them (`K ≤ 2^52`) -/
theorem card_shift_lt (K : Nat) (hK : K ≤ 2 ^ 52) :
    ((Finset.range two64).filter (fun v => v / 2 ^ 12 < K)).card = 2 ^ 12 * K := by
  have e : (Finset.range two64).filter (fun v => v / 2 ^ 12 < K) = Finset.range (2 ^ 12 * K) := by
    ext v
    simp only [Finset.mem_filter, Finset.mem_range]
    rw [Nat.div_lt_iff_lt_mul (by norm_num : 0 < 2 ^ 12)]
    have h64 : two64 = 2 ^ 12 * 2 ^ 52 := by unfold two64; norm_num
    constructor
    · intro h; omega
    · intro h
      refine ⟨?_, by omega⟩
      have : 2 ^ 12 * K ≤ 2 ^ 12 * 2 ^ 52 := Nat.mul_le_mul_left _ hK
      omega
  rw [e, Finset.card_range]

/-- **the counting fact behind the acceptance weight of `hbPick`**: with `u = gen_range(0.0..1.0)` on a uniform
64-bit word (`u = (v >> 12)·2^-52`), the rejection test `u·mw < w` (`0 ≤ w ≤ mw`, `mw > 0`) passes on exactly
`2^12 · ⌈(w/mw)·2^52⌉` of the `2^64` words -/
theorem hb_accept_count (mw w : Rat) (hmw : 0 < mw) (hw0 : 0 ≤ w) (hw1 : w ≤ mw) :
    ((Finset.range two64).filter (fun v => ((RS.ofScript [v]).genRangeF 1).1 * mw < w)).card =
      2 ^ 12 * ⌈w / mw * ((2 ^ 52 : Nat) : Rat)⌉.toNat := by
  have hT0 : 0 ≤ w / mw * ((2 ^ 52 : Nat) : Rat) := mul_nonneg (div_nonneg hw0 (le_of_lt hmw)) (by positivity)
  have hT1 : w / mw * ((2 ^ 52 : Nat) : Rat) ≤ ((2 ^ 52 : Nat) : Rat) := by
    have : w / mw ≤ 1 := (div_le_one hmw).mpr hw1
    calc w / mw * ((2 ^ 52 : Nat) : Rat) ≤ 1 * ((2 ^ 52 : Nat) : Rat) :=
          mul_le_mul_of_nonneg_right this (by positivity)
      _ = _ := one_mul _
  have hc0 : 0 ≤ ⌈w / mw * ((2 ^ 52 : Nat) : Rat)⌉ := Int.ceil_nonneg hT0
  have hc1 : ⌈w / mw * ((2 ^ 52 : Nat) : Rat)⌉ ≤ ((2 ^ 52 : Nat) : Int) := by
    rw [Int.ceil_le]; exact_mod_cast hT1
  have hfilt : (Finset.range two64).filter (fun v => ((RS.ofScript [v]).genRangeF 1).1 * mw < w) =
      (Finset.range two64).filter (fun v => v / 2 ^ 12 < ⌈w / mw * ((2 ^ 52 : Nat) : Rat)⌉.toNat) := by
    apply Finset.filter_congr
    intro v hv
    rw [Qmc.C08.hb_accept_threshold (RS.ofScript [v]) v [] rfl (Finset.mem_range.mp hv) mw w hmw]
    generalize v / 2 ^ 12 = n
    have key : (n : Rat) < w / mw * ((2 ^ 52 : Nat) : Rat) ↔
        (n : Int) < ⌈w / mw * ((2 ^ 52 : Nat) : Rat)⌉ := by
      rw [Int.lt_ceil, Int.cast_natCast]
    rw [key]
    omega
  rw [hfilt, card_shift_lt _ (by omega)]

/-- hence the exact acceptance frequency lies in `[w/mw, w/mw + 2^-52)` … -/
theorem hb_accept_frequency (mw w : Rat) (hmw : 0 < mw) (hw0 : 0 ≤ w) (hw1 : w ≤ mw) :
    w / mw ≤ (((Finset.range two64).filter
        (fun v => ((RS.ofScript [v]).genRangeF 1).1 * mw < w)).card : Rat) / ((two64 : Nat) : Rat) ∧
    (((Finset.range two64).filter
        (fun v => ((RS.ofScript [v]).genRangeF 1).1 * mw < w)).card : Rat) / ((two64 : Nat) : Rat) <
      w / mw + 1 / ((2 ^ 52 : Nat) : Rat) := by
  rw [hb_accept_count mw w hmw hw0 hw1]
  have h64 : ((two64 : Nat) : Rat) = 4096 * ((2 ^ 52 : Nat) : Rat) := by unfold two64; norm_num
  generalize ((2 ^ 52 : Nat) : Rat) = P at h64 ⊢
  have hP : 0 < P := by
    have := two64_pos
    rw [h64] at this
    linarith
  have hr0 : 0 ≤ w / mw := div_nonneg hw0 (le_of_lt hmw)
  generalize w / mw = r at hr0 ⊢
  have hr : 0 ≤ r * P := mul_nonneg hr0 (le_of_lt hP)
  · have hc0 : 0 ≤ ⌈r * P⌉ := Int.ceil_nonneg hr
    have hcast : ((⌈r * P⌉.toNat : Nat) : Rat) = ((⌈r * P⌉ : Int) : Rat) := by
      have : ((⌈r * P⌉.toNat : Nat) : Int) = ⌈r * P⌉ := Int.toNat_of_nonneg hc0
      exact_mod_cast this
    have hcard : ((2 ^ 12 * ⌈r * P⌉.toNat : Nat) : Rat) = 4096 * ((⌈r * P⌉ : Int) : Rat) := by
      rw [← hcast]; push_cast; norm_num
    rw [hcard, h64]
    have hle := Int.le_ceil (r * P)
    have hlt := Int.ceil_lt_add_one (r * P)
    constructor
    · rw [le_div_iff₀ (by positivity)]
      nlinarith
    · rw [div_lt_iff₀ (by positivity)]
      have : (r + 1 / P) * (4096 * P) = 4096 * (r * P + 1) := by field_simp
      rw [this]
      nlinarith


/-- … and is exactly `w/mw` when `(w/mw)·2^52` is an integer (dyadic ratio) -/
theorem hb_accept_frequency_exact (mw w : Rat) (hmw : 0 < mw) (hw0 : 0 ≤ w) (hw1 : w ≤ mw) (k : Nat)
    (hk : w / mw * ((2 ^ 52 : Nat) : Rat) = (k : Rat)) :
    (((Finset.range two64).filter
        (fun v => ((RS.ofScript [v]).genRangeF 1).1 * mw < w)).card : Rat) / ((two64 : Nat) : Rat) = w / mw := by
  rw [hb_accept_count mw w hmw hw0 hw1, hk, Int.ceil_natCast, Int.toNat_natCast]
  have h64 : ((two64 : Nat) : Rat) = 4096 * ((2 ^ 52 : Nat) : Rat) := by unfold two64; norm_num
  have hP : (0 : Rat) < ((2 ^ 52 : Nat) : Rat) := by positivity
  rw [h64]
  have : ((2 ^ 12 * k : Nat) : Rat) = 4096 * (k : Rat) := by push_cast; norm_num
  rw [this, ← hk]
  field_simp

/-! #### the bond choice: `x = gen_range(0.0..W)`, `b = index_for_cumulative(x)` -/

theorem genRangeF_val (v : Nat) (hv : v < two64) (t : Rat) (ht : 0 < t) :
    ((RS.ofScript [v]).genRangeF t).1 = ((v / 2 ^ 12 : Nat) : Rat) / ((2 ^ 52 : Nat) : Rat) * t := by
  unfold genRangeF
  rw [if_neg (not_le.mpr ht), next_cons (RS.ofScript [v]) v [] rfl]
  simp only [Nat.mod_eq_of_lt hv]

/-- `index_for_cumulative` at a value at or below 0 is 0 (non-negative table) -/
theorem index_nonpos (ws : BW) (hnn : ∀ w ∈ ws, 0 ≤ w) (x : Rat) (hx : x ≤ 0) :
    indexForCumulative (cumul ws) x = 0 := by
  unfold indexForCumulative cumul
  rw [filter_cumulFrom_ge x ws 0 hnn hx]; rfl

/-- the interval of bond `b`: `(cum(b−1), cum(b)]`, closed at 0 for the first bond -/
def InBond (ws : BW) (b : Nat) (x : Rat) : Prop :=
  (b = 0 ∨ (ws.take b).sum < x) ∧ x ≤ (ws.take (b + 1)).sum

theorem pick_of_inBond (ws : BW) (hnn : ∀ w ∈ ws, 0 ≤ w) (b : Nat) (hb : b < ws.length) (x : Rat)
    (h : InBond ws b x) : indexForCumulative (cumul ws) x = b := by
  obtain ⟨h1, h2⟩ := h
  by_cases hlt : (ws.take b).sum < x
  · exact Qmc.C08.cumulative_pick ws hnn b hb x hlt h2
  · rcases h1 with rfl | h1
    · have : x ≤ 0 := by simpa using not_lt.mp hlt
      exact index_nonpos ws hnn x this
    · exact absurd h1 hlt

theorem inBond_cover (ws : BW) (x : Rat) (hxW : x ≤ ws.sum) (hne : ws ≠ []) :
    ∃ b, b < ws.length ∧ InBond ws b x := by
  classical
  have hex : ∃ b, b < ws.length ∧ x ≤ (ws.take (b + 1)).sum := by
    refine ⟨ws.length - 1, ?_, ?_⟩
    · have : 0 < ws.length := List.length_pos_iff.mpr hne
      omega
    · have : 0 < ws.length := List.length_pos_iff.mpr hne
      rw [show ws.length - 1 + 1 = ws.length by omega, List.take_length]
      exact hxW
  obtain ⟨hb, hx⟩ := Nat.find_spec hex
  refine ⟨Nat.find hex, hb, ?_, hx⟩
  by_cases h0 : Nat.find hex = 0
  · exact Or.inl h0
  · right
    by_contra hc
    have hmin := Nat.find_min hex (m := Nat.find hex - 1) (by omega)
    apply hmin
    refine ⟨by omega, ?_⟩
    rw [show Nat.find hex - 1 + 1 = Nat.find hex by omega]
    exact not_lt.mp hc

/-- **`index_for_cumulative(x) = b` iff `x` lies in the interval of bond `b`** (`x ≤ W`, non-negative table) -/
theorem pick_iff_inBond (ws : BW) (hnn : ∀ w ∈ ws, 0 ≤ w) (b : Nat) (hb : b < ws.length) (x : Rat)
    (hxW : x ≤ ws.sum) : indexForCumulative (cumul ws) x = b ↔ InBond ws b x := by
  constructor
  · intro h
    obtain ⟨b', hb', hin⟩ := inBond_cover ws x hxW (by intro e; rw [e] at hb; simp at hb)
    have := pick_of_inBond ws hnn b' hb' x hin
    rw [h] at this
    rw [this]; exact hin
  · exact pick_of_inBond ws hnn b hb x


/-- words whose top 52 bits lie in `[lo, hi)`: `2^12·(hi − lo)` of them (`hi ≤ 2^52`) -/
theorem card_shift_Ico (lo hi : Nat) (hhi : hi ≤ 2 ^ 52) :
    ((Finset.range two64).filter (fun v => lo ≤ v / 2 ^ 12 ∧ v / 2 ^ 12 < hi)).card = 2 ^ 12 * (hi - lo) := by
  have e : (Finset.range two64).filter (fun v => lo ≤ v / 2 ^ 12 ∧ v / 2 ^ 12 < hi) =
      Finset.Ico (2 ^ 12 * lo) (2 ^ 12 * hi) := by
    ext v
    simp only [Finset.mem_filter, Finset.mem_range, Finset.mem_Ico]
    rw [Nat.div_lt_iff_lt_mul (by norm_num : 0 < 2 ^ 12), Nat.le_div_iff_mul_le (by norm_num : 0 < 2 ^ 12)]
    have h64 : two64 = 2 ^ 12 * 2 ^ 52 := by unfold two64; norm_num
    have : 2 ^ 12 * hi ≤ 2 ^ 12 * 2 ^ 52 := Nat.mul_le_mul_left _ hhi
    constructor
    · intro h; omega
    · intro h; omega
  rw [e, Nat.card_Ico, Nat.mul_sub]

/-- **the counting fact behind the bond weights of `hbPick`, dyadic table**: if the cumulative sums before and after
bond `b` are multiples `k_b·W/2^52`, `k_{b+1}·W/2^52` of the grid, then `x = gen_range(0.0..W)` on a uniform 64-bit word
selects bond `b` on exactly `2^12·(min (k_{b+1}+1) 2^52 − lo)` words, `lo = 0` for the first bond and `k_b + 1` otherwise —
i.e. `2^12·(k_{b+1} − k_b) = 2^64·ws[b]/W` for an interior bond, one grid point more for the first bond (`x = 0` belongs
to it) and one less for the last (`x = W` is never drawn) -/
theorem hb_pick_count (ws : BW) (hnn : ∀ w ∈ ws, 0 ≤ w) (hW : 0 < ws.sum) (b : Nat) (hb : b < ws.length)
    (kb kb1 : Nat) (h1 : (ws.take b).sum * ((2 ^ 52 : Nat) : Rat) = (kb : Rat) * ws.sum)
    (h2 : (ws.take (b + 1)).sum * ((2 ^ 52 : Nat) : Rat) = (kb1 : Rat) * ws.sum) :
    ((Finset.range two64).filter
      (fun v => indexForCumulative (cumul ws) ((RS.ofScript [v]).genRangeF ws.sum).1 = b)).card =
      2 ^ 12 * (min (kb1 + 1) (2 ^ 52) - (if b = 0 then 0 else kb + 1)) := by
  have hP : (0 : Rat) < ((2 ^ 52 : Nat) : Rat) := by positivity
  have hfilt : (Finset.range two64).filter
      (fun v => indexForCumulative (cumul ws) ((RS.ofScript [v]).genRangeF ws.sum).1 = b) =
      (Finset.range two64).filter (fun v => (if b = 0 then 0 else kb + 1) ≤ v / 2 ^ 12 ∧
        v / 2 ^ 12 < min (kb1 + 1) (2 ^ 52)) := by
    apply Finset.filter_congr
    intro v hv
    have hv' := Finset.mem_range.mp hv
    have hj : v / 2 ^ 12 < 2 ^ 52 := by
      rw [Nat.div_lt_iff_lt_mul (by norm_num : 0 < 2 ^ 12)]
      have h64 : two64 = 2 ^ 52 * 2 ^ 12 := by unfold two64; norm_num
      omega
    rw [genRangeF_val v hv' ws.sum hW]
    generalize v / 2 ^ 12 = j at hj ⊢
    have hjq : (j : Rat) < ((2 ^ 52 : Nat) : Rat) := by exact_mod_cast hj
    have hxW : (j : Rat) / ((2 ^ 52 : Nat) : Rat) * ws.sum ≤ ws.sum := by
      have : (j : Rat) / ((2 ^ 52 : Nat) : Rat) ≤ 1 := (div_le_one hP).mpr (le_of_lt hjq)
      calc (j : Rat) / ((2 ^ 52 : Nat) : Rat) * ws.sum ≤ 1 * ws.sum :=
            mul_le_mul_of_nonneg_right this (le_of_lt hW)
        _ = ws.sum := one_mul _
    rw [pick_iff_inBond ws hnn b hb _ hxW]
    unfold InBond
    have e1 : (ws.take b).sum < (j : Rat) / ((2 ^ 52 : Nat) : Rat) * ws.sum ↔ kb < j := by
      have : (ws.take b).sum < (j : Rat) / ((2 ^ 52 : Nat) : Rat) * ws.sum ↔
          (ws.take b).sum * ((2 ^ 52 : Nat) : Rat) < (j : Rat) * ws.sum := by
        rw [div_mul_eq_mul_div, lt_div_iff₀ hP]
      rw [this, h1, mul_lt_mul_iff_of_pos_right hW]
      exact_mod_cast Iff.rfl
    have e2 : (j : Rat) / ((2 ^ 52 : Nat) : Rat) * ws.sum ≤ (ws.take (b + 1)).sum ↔ j ≤ kb1 := by
      have : (j : Rat) / ((2 ^ 52 : Nat) : Rat) * ws.sum ≤ (ws.take (b + 1)).sum ↔
          (j : Rat) * ws.sum ≤ (ws.take (b + 1)).sum * ((2 ^ 52 : Nat) : Rat) := by
        rw [div_mul_eq_mul_div, div_le_iff₀ hP]
      rw [this, h2, mul_le_mul_iff_of_pos_right hW]
      exact_mod_cast Iff.rfl
    rw [e1, e2]
    by_cases hb0 : b = 0
    · simp only [hb0, true_or, true_and, if_true, Nat.zero_le]
      omega
    · simp only [hb0, false_or, if_false]
      omega
  rw [hfilt, card_shift_Ico _ _ (Nat.min_le_right _ _)]


/-- for an interior bond of a dyadic table the frequency is exactly `ws[b]/W` -/
theorem hb_pick_frequency_interior (ws : BW) (hnn : ∀ w ∈ ws, 0 ≤ w) (hW : 0 < ws.sum) (b : Nat)
    (hb : b < ws.length) (hb0 : b ≠ 0) (kb kb1 : Nat) (hk : kb1 < 2 ^ 52)
    (h1 : (ws.take b).sum * ((2 ^ 52 : Nat) : Rat) = (kb : Rat) * ws.sum)
    (h2 : (ws.take (b + 1)).sum * ((2 ^ 52 : Nat) : Rat) = (kb1 : Rat) * ws.sum) :
    (((Finset.range two64).filter
      (fun v => indexForCumulative (cumul ws) ((RS.ofScript [v]).genRangeF ws.sum).1 = b)).card : Rat) /
        ((two64 : Nat) : Rat) = ws[b] / ws.sum := by
  rw [hb_pick_count ws hnn hW b hb kb kb1 h1 h2, if_neg hb0]
  have hP : (0 : Rat) < ((2 ^ 52 : Nat) : Rat) := by positivity
  have hwb : 0 ≤ ws[b] := hnn _ (List.getElem_mem hb)
  have hwidth := Qmc.C08.cumulative_width ws b hb
  have hle : kb ≤ kb1 := by
    have : (kb : Rat) * ws.sum ≤ (kb1 : Rat) * ws.sum := by
      rw [← h1, ← h2]
      have : (ws.take b).sum ≤ (ws.take (b + 1)).sum := by linarith
      exact mul_le_mul_of_nonneg_right this (le_of_lt hP)
    have := (mul_le_mul_iff_of_pos_right hW).mp this
    exact_mod_cast this
  have hmin : min (kb1 + 1) (2 ^ 52) - (kb + 1) = kb1 - kb := by omega
  rw [hmin]
  have h64 : ((two64 : Nat) : Rat) = 4096 * ((2 ^ 52 : Nat) : Rat) := by unfold two64; norm_num
  have hc : ((2 ^ 12 * (kb1 - kb) : Nat) : Rat) = 4096 * ((kb1 : Rat) - (kb : Rat)) := by
    rw [Nat.cast_mul, Nat.cast_sub hle]; norm_num
  rw [hc, h64]
  have hkey : ((kb1 : Rat) - (kb : Rat)) * ws.sum = ws[b] * ((2 ^ 52 : Nat) : Rat) := by
    rw [sub_mul, ← h1, ← h2, ← hwidth]; ring
  rw [div_eq_div_iff (by positivity) (ne_of_gt hW)]
  calc 4096 * ((kb1 : Rat) - (kb : Rat)) * ws.sum = 4096 * (((kb1 : Rat) - (kb : Rat)) * ws.sum) := by ring
    _ = ws[b] * (4096 * ((2 ^ 52 : Nat) : Rat)) := by rw [hkey]; ring

end Qmc.Law
