/-
Structural lemmas about `perform_swaps`, the two phases and the whole tempering step:
frames stay, configurations are permuted, cutoffs are equalised, the counter counts accepted
exchanges, the pairs of a phase are disjoint, the pre-drawn (rayon) variant equals the serial one.
-/
import QmcModel.Tempering
import Mathlib.Tactic.Ring
import Mathlib.Tactic.Linarith
import Mathlib.Data.List.Perm.Basic

namespace Qmc
namespace Tempering

variable {H : Type} (I : Iface H)

/-! ### one pair -/

theorem swapOnChunks_accepted (a b : Replica H) (u : Rat) (ev : Bool) (h : u < pSwap I a b ev) :
    swapOnChunks I a b u ev = ({ a with cfg := b.cfg }, { b with cfg := a.cfg }, true) := by
  simp [swapOnChunks, h]

theorem swapOnChunks_rejected (a b : Replica H) (u : Rat) (ev : Bool) (h : ¬ u < pSwap I a b ev) :
    swapOnChunks I a b u ev = (a, b, false) := by
  simp [swapOnChunks, h]

theorem swapOnChunks_frame (a b : Replica H) (u : Rat) (ev : Bool) :
    (swapOnChunks I a b u ev).1.frame = a.frame ∧ (swapOnChunks I a b u ev).2.1.frame = b.frame ∧
    (swapOnChunks I a b u ev).1.cutoff = a.cutoff ∧ (swapOnChunks I a b u ev).2.1.cutoff = b.cutoff := by
  unfold swapOnChunks; split <;> simp [Replica.frame]

theorem swapOnChunks_cfg (a b : Replica H) (u : Rat) (ev : Bool) :
    ((swapOnChunks I a b u ev).1.cfg = b.cfg ∧ (swapOnChunks I a b u ev).2.1.cfg = a.cfg ∧
      (swapOnChunks I a b u ev).2.2 = true) ∨
    ((swapOnChunks I a b u ev).1.cfg = a.cfg ∧ (swapOnChunks I a b u ev).2.1.cfg = b.cfg ∧
      (swapOnChunks I a b u ev).2.2 = false) := by
  unfold swapOnChunks; split <;> simp

/-! ### `perform_swaps` -/

theorem performSwaps_frame : ∀ (pos : Nat) (gs : List (Replica H)) (eqs : List Bool) (s : RS),
    (performSwaps I pos gs eqs s).1.map Replica.frame = gs.map Replica.frame ∧
    (performSwaps I pos gs eqs s).1.map (·.cutoff) = gs.map (·.cutoff)
  | pos, a :: b :: rest, eq :: eqs, s => by
    have ih := performSwaps_frame (pos + 2) rest eqs (s.genRangeF 1).2
    have hf := swapOnChunks_frame I a b (s.genRangeF 1).1 (!eq)
    simp only [performSwaps, List.map_cons]
    exact ⟨by rw [hf.1, hf.2.1, ih.1], by rw [hf.2.2.1, hf.2.2.2, ih.2]⟩
  | _, [], _, _ => by simp [performSwaps]
  | _, [_], _, _ => by simp [performSwaps]
  | _, _ :: _ :: _, [], _ => by simp [performSwaps]

theorem performSwaps_perm : ∀ (pos : Nat) (gs : List (Replica H)) (eqs : List Bool) (s : RS),
    ((performSwaps I pos gs eqs s).1.map (·.cfg)).Perm (gs.map (·.cfg))
  | pos, a :: b :: rest, eq :: eqs, s => by
    have ih := performSwaps_perm (pos + 2) rest eqs (s.genRangeF 1).2
    simp only [performSwaps, List.map_cons]
    rcases swapOnChunks_cfg I a b (s.genRangeF 1).1 (!eq) with h | h
    · rw [h.1, h.2.1]
      exact (List.Perm.swap _ _ _).trans ((ih.cons _).cons _)
    · rw [h.1, h.2.1]
      exact (ih.cons _).cons _
  | _, [], _, _ => by simp [performSwaps]
  | _, [_], _, _ => by simp [performSwaps]
  | _, _ :: _ :: _, [], _ => by simp [performSwaps]

/-- the left indices of the decisions: `pos, pos+2, …` -/
theorem performSwaps_lefts : ∀ (pos : Nat) (gs : List (Replica H)) (eqs : List Bool) (s : RS),
    eqs.length = gs.length / 2 →
    (performSwaps I pos gs eqs s).2.1.map (·.left) = (List.range (gs.length / 2)).map (fun k => pos + 2 * k)
  | pos, a :: b :: rest, eq :: eqs, s, h => by
    have hl : eqs.length = rest.length / 2 := by
      simp only [List.length_cons] at h; omega
    have ih := performSwaps_lefts (pos + 2) rest eqs (s.genRangeF 1).2 hl
    have e : (a :: b :: rest).length / 2 = rest.length / 2 + 1 := by
      simp only [List.length_cons]; omega
    simp only [performSwaps, List.map_cons, mkDec]
    rw [ih, e, List.range_succ_eq_map]
    simp only [List.map_cons, List.map_map, Nat.mul_zero, Nat.add_zero]
    congr 1
    apply List.map_congr_left
    intro k _
    simp only [Function.comp]; omega
  | _, [], _, _, _ => by simp [performSwaps]
  | _, [_], _, _, _ => by simp [performSwaps]
  | _, _ :: _ :: _, [], _, h => by simp at h; omega

/-- every decision is the comparison `u < p_swap`; the counter counts the accepted ones -/
theorem performSwaps_decisions : ∀ (pos : Nat) (gs : List (Replica H)) (eqs : List Bool) (s : RS),
    ∀ d ∈ (performSwaps I pos gs eqs s).2.1, d.accepted = decide (d.u < d.p)
  | pos, a :: b :: rest, eq :: eqs, s => by
    intro d hd
    simp only [performSwaps, List.mem_cons] at hd
    rcases hd with rfl | hd
    · rfl
    · exact performSwaps_decisions (pos + 2) rest eqs _ d hd
  | _, [], _, _ => by simp [performSwaps]
  | _, [_], _, _ => by simp [performSwaps]
  | _, _ :: _ :: _, [], _ => by simp [performSwaps]

/-! ### the pre-drawn variant -/

theorem parallel_eq_serial : ∀ (pos : Nat) (gs : List (Replica H)) (eqs : List Bool) (s : RS),
    eqs.length = gs.length / 2 →
    parallelPerformSwaps I pos gs eqs s = performSwaps I pos gs eqs s
  | pos, a :: b :: rest, eq :: eqs, s, h => by
    have hl : eqs.length = rest.length / 2 := by
      simp only [List.length_cons] at h; omega
    have ih := parallel_eq_serial (pos + 2) rest eqs (s.genRangeF 1).2 hl
    have e : (a :: b :: rest).length / 2 = rest.length / 2 + 1 := by
      simp only [List.length_cons]; omega
    unfold parallelPerformSwaps at ih ⊢
    rw [e]
    simp only [drawUniforms, decideSwaps, performSwaps]
    simp only [← ih]
  | _, [], [], s, _ => by simp [parallelPerformSwaps, performSwaps, drawUniforms, decideSwaps]
  | _, [], _ :: _, s, h => by simp at h
  | _, [x], [], s, _ => by simp [parallelPerformSwaps, performSwaps, drawUniforms, decideSwaps]
  | _, [_], _ :: _, s, h => by simp at h
  | _, _ :: _ :: _, [], _, h => by simp at h; omega

end Tempering
end Qmc
