/-
Structural lemmas about `perform_swaps`, the two phases and the whole tempering step:
frames stay, configurations are permuted, cutoffs are equalised, the counter counts accepted
exchanges, the pairs of a phase are disjoint, the pre-drawn (rayon) variant equals the serial one.
-/
import QmcModel.Tempering
import Mathlib.Tactic.Ring
import Mathlib.Tactic.Linarith
import Mathlib.Data.List.Perm.Basic

namespace Qmc
namespace Tempering

variable {H : Type} (I : Iface H)

/-! ### one pair -/

/-- all replicas of the list have cutoff field `m` and at least `m` slots (what the step establishes
before swapping) -/
def EqM (m : Nat) (gs : List (Replica H)) : Prop :=
  ∀ r ∈ gs, r.cutoff = m ∧ m ≤ r.cfg.slots.length

theorem padTo_ge (s : Slots) (c : Nat) (h : c ≤ s.length) : padTo s c = s := by
  have : c - s.length = 0 := by omega
  simp [padTo, this]

/-- with equal cutoffs and long enough strings `swap_manager_and_state` is the plain exchange -/
theorem swapGraphs_eq_exchange (a b : Replica H) (m : Nat) (ha : a.cutoff = m) (hb : b.cutoff = m)
    (hla : m ≤ a.cfg.slots.length) (hlb : m ≤ b.cfg.slots.length) :
    swapGraphs a b = ({ a with cfg := b.cfg }, { b with cfg := a.cfg }) := by
  obtain ⟨ham, beta, offset, rng, bw, cutoff, ⟨st, sl⟩⟩ := a
  obtain ⟨ham', beta', offset', rng', bw', cutoff', ⟨st', sl'⟩⟩ := b
  simp only at ha hb hla hlb
  subst ha; subst hb
  simp [swapGraphs, Replica.setCutoff, padTo_ge _ _ hla, padTo_ge _ _ hlb]

theorem swapOnChunks_accepted (a b : Replica H) (u : Rat) (ev : Bool) (h : u < pSwap I a b ev) :
    swapOnChunks I a b u ev = ((swapGraphs a b).1, (swapGraphs a b).2, true) := by
  simp [swapOnChunks, h]

theorem swapOnChunks_rejected (a b : Replica H) (u : Rat) (ev : Bool) (h : ¬ u < pSwap I a b ev) :
    swapOnChunks I a b u ev = (a, b, false) := by
  simp [swapOnChunks, h]

theorem swapOnChunks_frame (a b : Replica H) (u : Rat) (ev : Bool) :
    (swapOnChunks I a b u ev).1.frame = a.frame ∧ (swapOnChunks I a b u ev).2.1.frame = b.frame := by
  unfold swapOnChunks; split <;> simp [Replica.frame, swapGraphs, Replica.setCutoff]

theorem swapOnChunks_cfg (a b : Replica H) (u : Rat) (ev : Bool) (m : Nat)
    (ha : a.cutoff = m ∧ m ≤ a.cfg.slots.length) (hb : b.cutoff = m ∧ m ≤ b.cfg.slots.length) :
    (swapOnChunks I a b u ev).1.cutoff = m ∧ (swapOnChunks I a b u ev).2.1.cutoff = m ∧
    (((swapOnChunks I a b u ev).1.cfg = b.cfg ∧ (swapOnChunks I a b u ev).2.1.cfg = a.cfg ∧
      (swapOnChunks I a b u ev).2.2 = true) ∨
    ((swapOnChunks I a b u ev).1.cfg = a.cfg ∧ (swapOnChunks I a b u ev).2.1.cfg = b.cfg ∧
      (swapOnChunks I a b u ev).2.2 = false)) := by
  unfold swapOnChunks
  rw [swapGraphs_eq_exchange a b m ha.1 hb.1 ha.2 hb.2]
  split <;> simp [ha.1, hb.1]

/-! ### `perform_swaps` -/

theorem performSwaps_frame : ∀ (pos : Nat) (gs : List (Replica H)) (eqs : List Bool) (s : RS),
    (performSwaps I pos gs eqs s).1.map Replica.frame = gs.map Replica.frame
  | pos, a :: b :: rest, eq :: eqs, s => by
    have ih := performSwaps_frame (pos + 2) rest eqs (s.genRangeF 1).2
    have hf := swapOnChunks_frame I a b (s.genRangeF 1).1 (!eq)
    simp only [performSwaps, List.map_cons]
    rw [hf.1, hf.2, ih]
  | _, [], _, _ => by simp [performSwaps]
  | _, [_], _, _ => by simp [performSwaps]
  | _, _ :: _ :: _, [], _ => by simp [performSwaps]

theorem performSwaps_inv (m : Nat) : ∀ (pos : Nat) (gs : List (Replica H)) (eqs : List Bool) (s : RS),
    EqM m gs →
    EqM m (performSwaps I pos gs eqs s).1 ∧
    ((performSwaps I pos gs eqs s).1.map (·.cfg)).Perm (gs.map (·.cfg))
  | pos, a :: b :: rest, eq :: eqs, s, h => by
    have ha := h a (List.mem_cons_self ..)
    have hb := h b (List.mem_cons_of_mem _ (List.mem_cons_self ..))
    have hr : EqM m rest := fun r hr => h r (List.mem_cons_of_mem _ (List.mem_cons_of_mem _ hr))
    have ih := performSwaps_inv m (pos + 2) rest eqs (s.genRangeF 1).2 hr
    have hc := swapOnChunks_cfg I a b (s.genRangeF 1).1 (!eq) m ha hb
    simp only [performSwaps, List.map_cons]
    constructor
    · intro r hr'
      simp only [List.mem_cons] at hr'
      rcases hr' with rfl | rfl | hr'
      · rcases hc.2.2 with h1 | h1
        · exact ⟨hc.1, by rw [h1.1]; exact hb.2⟩
        · exact ⟨hc.1, by rw [h1.1]; exact ha.2⟩
      · rcases hc.2.2 with h1 | h1
        · exact ⟨hc.2.1, by rw [h1.2.1]; exact ha.2⟩
        · exact ⟨hc.2.1, by rw [h1.2.1]; exact hb.2⟩
      · exact ih.1 r hr'
    · rcases hc.2.2 with h1 | h1
      · rw [h1.1, h1.2.1]
        exact (List.Perm.swap _ _ _).trans ((ih.2.cons _).cons _)
      · rw [h1.1, h1.2.1]
        exact (ih.2.cons _).cons _
  | _, [], _, _, h => by simp [performSwaps, EqM]
  | _, [x], _, _, h => by simpa [performSwaps] using h
  | _, x :: y :: t, [], _, h => by simpa [performSwaps] using h

/-- the left indices of the decisions: `pos, pos+2, …` -/
theorem performSwaps_lefts : ∀ (pos : Nat) (gs : List (Replica H)) (eqs : List Bool) (s : RS),
    eqs.length = gs.length / 2 →
    (performSwaps I pos gs eqs s).2.1.map (·.left) = (List.range (gs.length / 2)).map (fun k => pos + 2 * k)
  | pos, a :: b :: rest, eq :: eqs, s, h => by
    have hl : eqs.length = rest.length / 2 := by
      simp only [List.length_cons] at h; omega
    have ih := performSwaps_lefts (pos + 2) rest eqs (s.genRangeF 1).2 hl
    have e : (a :: b :: rest).length / 2 = rest.length / 2 + 1 := by
      simp only [List.length_cons]; omega
    simp only [performSwaps, List.map_cons, mkDec]
    rw [ih, e, List.range_succ_eq_map]
    simp only [List.map_cons, List.map_map, Nat.mul_zero, Nat.add_zero]
    congr 1
    apply List.map_congr_left
    intro k _
    simp only [Function.comp]; omega
  | _, [], _, _, _ => by simp [performSwaps]
  | _, [_], _, _, _ => by simp [performSwaps]
  | _, _ :: _ :: _, [], _, h => by simp at h; omega

/-- every decision is the comparison `u < p_swap`; the counter counts the accepted ones -/
theorem performSwaps_decisions : ∀ (pos : Nat) (gs : List (Replica H)) (eqs : List Bool) (s : RS),
    ∀ d ∈ (performSwaps I pos gs eqs s).2.1, d.accepted = decide (d.u < d.p)
  | pos, a :: b :: rest, eq :: eqs, s => by
    intro d hd
    simp only [performSwaps, List.mem_cons] at hd
    rcases hd with rfl | hd
    · rfl
    · exact performSwaps_decisions (pos + 2) rest eqs _ d hd
  | _, [], _, _ => by simp [performSwaps]
  | _, [_], _, _ => by simp [performSwaps]
  | _, _ :: _ :: _, [], _ => by simp [performSwaps]

/-- the numbers a phase compares with its draws, as a function of the phase's *input* ladder -/
def pairProbs : List (Replica H) → List Bool → List (Rat × Bool)
  | a :: b :: rest, eq :: eqs => (pSwap I a b (!eq), !eq) :: pairProbs rest eqs
  | _, _ => []

/-- pairs of one phase do not interfere: every decision uses the two replicas that were at its
positions when the phase started, and the cached flag of that pair -/
theorem performSwaps_probs : ∀ (pos : Nat) (gs : List (Replica H)) (eqs : List Bool) (s : RS),
    (performSwaps I pos gs eqs s).2.1.map (fun d => (d.p, d.evaluated)) = pairProbs I gs eqs
  | pos, a :: b :: rest, eq :: eqs, s => by
    simp only [performSwaps, List.map_cons, pairProbs, mkDec]
    rw [performSwaps_probs (pos + 2) rest eqs _]
  | _, [], _, _ => by simp [performSwaps, pairProbs]
  | _, [_], _, _ => by simp [performSwaps, pairProbs]
  | _, _ :: _ :: _, [], _ => by simp [performSwaps, pairProbs]

/-! ### the pre-drawn variant -/

theorem parallel_eq_serial : ∀ (pos : Nat) (gs : List (Replica H)) (eqs : List Bool) (s : RS),
    eqs.length = gs.length / 2 →
    parallelPerformSwaps I pos gs eqs s = performSwaps I pos gs eqs s
  | pos, a :: b :: rest, eq :: eqs, s, h => by
    have hl : eqs.length = rest.length / 2 := by
      simp only [List.length_cons] at h; omega
    have ih := parallel_eq_serial (pos + 2) rest eqs (s.genRangeF 1).2 hl
    have e : (a :: b :: rest).length / 2 = rest.length / 2 + 1 := by
      simp only [List.length_cons]; omega
    unfold parallelPerformSwaps at ih ⊢
    rw [e]
    simp only [drawUniforms, decideSwaps, performSwaps]
    simp only [← ih]
  | _, [], [], s, _ => by simp [parallelPerformSwaps, performSwaps, drawUniforms, decideSwaps]
  | _, [], _ :: _, s, h => by simp at h
  | _, [x], [], s, _ => by simp [parallelPerformSwaps, performSwaps, drawUniforms, decideSwaps]
  | _, [_], _ :: _, s, h => by simp at h
  | _, _ :: _ :: _, [], _, h => by simp at h; omega

/-! ### the two phases -/

/-- what the step needs from a swap routine -/
structure GoodSwap (f : SwapFn H) : Prop where
  frame : ∀ pos gs eqs s, (f pos gs eqs s).1.map Replica.frame = gs.map Replica.frame
  inv : ∀ m pos gs eqs s, EqM m gs →
    EqM m (f pos gs eqs s).1 ∧ ((f pos gs eqs s).1.map (·.cfg)).Perm (gs.map (·.cfg))

theorem goodSwap_serial : GoodSwap (performSwaps I) :=
  ⟨performSwaps_frame I, fun m pos gs eqs s h => performSwaps_inv I m pos gs eqs s h⟩

theorem decideSwaps_frame : ∀ (pos : Nat) (gs : List (Replica H)) (us : List Rat) (eqs : List Bool),
    (decideSwaps I pos gs us eqs).1.map Replica.frame = gs.map Replica.frame
  | pos, a :: b :: rest, u :: us, eq :: eqs => by
    have ih := decideSwaps_frame (pos + 2) rest us eqs
    have hf := swapOnChunks_frame I a b u (!eq)
    simp only [decideSwaps, List.map_cons]
    rw [hf.1, hf.2, ih]
  | _, [], _, _ => by simp [decideSwaps]
  | _, [_], _, _ => by simp [decideSwaps]
  | _, _ :: _ :: _, [], _ => by simp [decideSwaps]
  | _, _ :: _ :: _, _ :: _, [] => by simp [decideSwaps]

theorem decideSwaps_inv (m : Nat) : ∀ (pos : Nat) (gs : List (Replica H)) (us : List Rat)
    (eqs : List Bool), EqM m gs →
    EqM m (decideSwaps I pos gs us eqs).1 ∧
    ((decideSwaps I pos gs us eqs).1.map (·.cfg)).Perm (gs.map (·.cfg))
  | pos, a :: b :: rest, u :: us, eq :: eqs, h => by
    have ha := h a (List.mem_cons_self ..)
    have hb := h b (List.mem_cons_of_mem _ (List.mem_cons_self ..))
    have hr : EqM m rest := fun r hr => h r (List.mem_cons_of_mem _ (List.mem_cons_of_mem _ hr))
    have ih := decideSwaps_inv m (pos + 2) rest us eqs hr
    have hc := swapOnChunks_cfg I a b u (!eq) m ha hb
    simp only [decideSwaps, List.map_cons]
    constructor
    · intro r hr'
      simp only [List.mem_cons] at hr'
      rcases hr' with rfl | rfl | hr'
      · rcases hc.2.2 with h1 | h1
        · exact ⟨hc.1, by rw [h1.1]; exact hb.2⟩
        · exact ⟨hc.1, by rw [h1.1]; exact ha.2⟩
      · rcases hc.2.2 with h1 | h1
        · exact ⟨hc.2.1, by rw [h1.2.1]; exact ha.2⟩
        · exact ⟨hc.2.1, by rw [h1.2.1]; exact hb.2⟩
      · exact ih.1 r hr'
    · rcases hc.2.2 with h1 | h1
      · rw [h1.1, h1.2.1]
        exact (List.Perm.swap _ _ _).trans ((ih.2.cons _).cons _)
      · rw [h1.1, h1.2.1]
        exact (ih.2.cons _).cons _
  | _, [], _, _, h => by simp [decideSwaps, EqM]
  | _, [x], _, _, h => by simpa [decideSwaps] using h
  | _, x :: y :: t, [], _, h => by simpa [decideSwaps] using h
  | _, x :: y :: t, _ :: _, [], h => by simpa [decideSwaps] using h

theorem goodSwap_parallel : GoodSwap (parallelPerformSwaps I) :=
  ⟨fun pos gs eqs s => decideSwaps_frame I pos gs _ eqs,
   fun m pos gs eqs s h => decideSwaps_inv I m pos gs _ eqs h⟩

theorem split_first {α : Type} (gs : List α) :
    firstSub gs ++ gs.drop (firstLen gs.length) = gs := List.take_append_drop _ _

theorem secondEnd_pos {n : Nat} (h : 0 < n) : 1 ≤ secondEnd n := by
  unfold secondEnd; split <;> omega

theorem split_second {α : Type} (gs : List α) :
    gs.take 1 ++ secondSub gs ++ gs.drop (secondEnd gs.length) = gs := by
  cases gs with
  | nil => simp [secondSub]
  | cons a t =>
    have h1 : 1 ≤ secondEnd (a :: t).length := secondEnd_pos (by simp)
    unfold secondSub
    have : (a :: t).take 1 = ((a :: t).take (secondEnd (a :: t).length)).take 1 := by
      rw [List.take_take, Nat.min_eq_left h1]
    rw [this, List.take_append_drop, List.take_append_drop]

section
variable {I}
variable {f : SwapFn H} (hf : GoodSwap f)
include hf

theorem phaseA_frame (gs : List (Replica H)) (eqs : List Bool) (s : RS) :
    (phaseA f gs eqs s).1.map Replica.frame = gs.map Replica.frame := by
  unfold phaseA
  simp only [List.map_append]
  rw [hf.frame, ← List.map_append, split_first]

theorem phaseB_frame (gs : List (Replica H)) (eqs : List Bool) (s : RS) :
    (phaseB f gs eqs s).1.map Replica.frame = gs.map Replica.frame := by
  unfold phaseB
  simp only [List.map_append]
  rw [hf.frame, ← List.map_append, ← List.map_append, split_second]

theorem phaseA_inv (m : Nat) (gs : List (Replica H)) (eqs : List Bool) (s : RS) (h : EqM m gs) :
    EqM m (phaseA f gs eqs s).1 ∧
    ((phaseA f gs eqs s).1.map (·.cfg)).Perm (gs.map (·.cfg)) := by
  have hsub : EqM m (firstSub gs) := fun r hr => h r (List.mem_of_mem_take hr)
  have g := hf.inv m 0 (firstSub gs) eqs s hsub
  unfold phaseA
  simp only [List.map_append]
  constructor
  · intro r hr
    rcases List.mem_append.mp hr with hr | hr
    · exact g.1 r hr
    · exact h r (List.mem_of_mem_drop hr)
  · have h1 := g.2.append_right ((gs.drop (firstLen gs.length)).map (·.cfg))
    have h2 : (firstSub gs).map (·.cfg) ++ (gs.drop (firstLen gs.length)).map (·.cfg) = gs.map (·.cfg) := by
      rw [← List.map_append, split_first]
    rw [h2] at h1; exact h1

theorem phaseB_inv (m : Nat) (gs : List (Replica H)) (eqs : List Bool) (s : RS) (h : EqM m gs) :
    EqM m (phaseB f gs eqs s).1 ∧
    ((phaseB f gs eqs s).1.map (·.cfg)).Perm (gs.map (·.cfg)) := by
  have hsub : EqM m (secondSub gs) := fun r hr =>
    h r (List.mem_of_mem_take (List.mem_of_mem_drop hr))
  have g := hf.inv m 1 (secondSub gs) eqs s hsub
  unfold phaseB
  simp only [List.map_append]
  constructor
  · intro r hr
    rcases List.mem_append.mp hr with hr | hr
    · rcases List.mem_append.mp hr with hr | hr
      · exact h r (List.mem_of_mem_take hr)
      · exact g.1 r hr
    · exact h r (List.mem_of_mem_drop hr)
  · have h1 := (g.2.append_left ((gs.take 1).map (·.cfg))).append_right
      ((gs.drop (secondEnd gs.length)).map (·.cfg))
    have h2 : (gs.take 1).map (·.cfg) ++ (secondSub gs).map (·.cfg) ++
        (gs.drop (secondEnd gs.length)).map (·.cfg) = gs.map (·.cfg) := by
      rw [← List.map_append, ← List.map_append, split_second]
    rw [h2] at h1; exact h1

end

/-! ### cutoff equalisation -/

theorem map_setCutoff_frame (gs : List (Replica H)) (m : Nat) :
    (gs.map (·.setCutoff m)).map Replica.frame = gs.map Replica.frame := by
  simp [List.map_map, Function.comp_def, Replica.setCutoff, Replica.frame]

theorem padTo_length_ge (s : Slots) (c : Nat) : c ≤ (padTo s c).length := by
  simp [padTo]; omega

/-- `set_cutoff(m)` on every replica establishes the invariant of the swap phase -/
theorem eqM_setCutoff (gs : List (Replica H)) (m : Nat) : EqM m (gs.map (·.setCutoff m)) := by
  intro r hr
  simp only [List.mem_map] at hr
  obtain ⟨r0, _, rfl⟩ := hr
  exact ⟨rfl, padTo_length_ge _ _⟩

theorem foldl_max_ge (gs : List (Replica H)) : ∀ (m0 : Nat),
    m0 ≤ gs.foldl (fun m r => max m r.cutoff) m0 ∧
    ∀ r ∈ gs, r.cutoff ≤ gs.foldl (fun m r => max m r.cutoff) m0 := by
  induction gs with
  | nil => intro m0; simp
  | cons a t ih =>
    intro m0
    simp only [List.foldl_cons, List.mem_cons]
    have h := ih (max m0 a.cutoff)
    refine ⟨le_trans (le_max_left _ _) h.1, ?_⟩
    rintro r (rfl | hr)
    · exact le_trans (le_max_right _ _) h.1
    · exact h.2 r hr

theorem le_maxCutoff {gs : List (Replica H)} {r : Replica H} (h : r ∈ gs) : r.cutoff ≤ maxCutoff gs :=
  (foldl_max_ge gs 0).2 r h

/-- the maximum is attained (non-empty ladder): equalisation never invents a larger cutoff -/
theorem maxCutoff_attained : ∀ (gs : List (Replica H)) (m0 : Nat),
    gs.foldl (fun m r => max m r.cutoff) m0 = m0 ∨
      ∃ r ∈ gs, gs.foldl (fun m r => max m r.cutoff) m0 = r.cutoff := by
  intro gs
  induction gs with
  | nil => intro m0; simp
  | cons a t ih =>
    intro m0
    simp only [List.foldl_cons, List.mem_cons]
    rcases ih (max m0 a.cutoff) with h | ⟨r, hr, h⟩
    · rw [h]
      rcases Nat.le_total m0 a.cutoff with h1 | h1
      · right; exact ⟨a, Or.inl rfl, by rw [Nat.max_eq_right h1]⟩
      · left; exact Nat.max_eq_left h1
    · right; exact ⟨r, Or.inr hr, h⟩

theorem padTo_length (s : Slots) (c : Nat) (h : s.length ≤ c) : (padTo s c).length = c := by
  simp [padTo]; omega

theorem countOps_padTo (s : Slots) (c : Nat) : countOps (padTo s c) = countOps s := by
  simp [padTo, countOps, List.filter_append]

/-! ### the whole step -/

theorem stepCore_spec (fa : SwapFn H) (hfa : GoodSwap fa) (ts : Nat) (eqs : List Bool × List Bool)
    (gs : List (Replica H)) (g : Bool × RS) (m : Nat) (hm : EqM m gs) :
    (stepCore I fa ts eqs gs g).1.graphs.map Replica.frame = gs.map Replica.frame ∧
    EqM m (stepCore I fa ts eqs gs g).1.graphs ∧
    ((stepCore I fa ts eqs gs g).1.graphs.map (·.cfg)).Perm (gs.map (·.cfg)) ∧
    (stepCore I fa ts eqs gs g).1.totalSwaps = ts + countAccepted (stepCore I fa ts eqs gs g).2 ∧
    (stepCore I fa ts eqs gs g).1.eqA = some eqs.1 ∧ (stepCore I fa ts eqs gs g).1.eqB = some eqs.2 := by
  have hs := goodSwap_serial I
  unfold stepCore
  by_cases hg : g.1 = true
  · rw [if_pos hg]
    have ha := phaseA_inv hfa m gs eqs.1 g.2 hm
    have hb := phaseB_inv hs m (phaseA fa gs eqs.1 g.2).1 eqs.2 (phaseA fa gs eqs.1 g.2).2.2 ha.1
    refine ⟨?_, hb.1, hb.2.trans ha.2, ?_, rfl, rfl⟩
    · show List.map Replica.frame (phaseB (performSwaps I) (phaseA fa gs eqs.1 g.2).1 eqs.2
        (phaseA fa gs eqs.1 g.2).2.2).1 = _
      rw [phaseB_frame hs, phaseA_frame hfa]
    · simp [countAccepted, List.filter_append, Nat.add_assoc]
  · rw [if_neg hg]
    have hb := phaseB_inv hs m gs eqs.2 g.2 hm
    have ha := phaseA_inv hfa m (phaseB (performSwaps I) gs eqs.2 g.2).1 eqs.1
      (phaseB (performSwaps I) gs eqs.2 g.2).2.2 hb.1
    refine ⟨?_, ha.1, ha.2.trans hb.2, ?_, rfl, rfl⟩
    · show List.map Replica.frame (phaseA fa (phaseB (performSwaps I) gs eqs.2 g.2).1 eqs.1
        (phaseB (performSwaps I) gs eqs.2 g.2).2.2).1 = _
      rw [phaseA_frame hfa, phaseB_frame hs]
    · simp [countAccepted, List.filter_append, Nat.add_assoc]

theorem stepBody_spec (fa : SwapFn H) (hfa : GoodSwap fa) (c : Container H) :
    (stepBody I fa c).1.graphs.map Replica.frame = c.graphs.map Replica.frame ∧
    EqM (maxCutoff c.graphs) (stepBody I fa c).1.graphs ∧
    ((stepBody I fa c).1.graphs.map (·.cfg)).Perm
      ((c.graphs.map (·.setCutoff (maxCutoff c.graphs))).map (·.cfg)) ∧
    (stepBody I fa c).1.totalSwaps = c.totalSwaps + countAccepted (stepBody I fa c).2 := by
  unfold stepBody
  have h := stepCore_spec I fa hfa c.totalSwaps (hamEqualities I c)
    (c.graphs.map (·.setCutoff (maxCutoff c.graphs))) (c.rng.genBool (1 / 2))
    (maxCutoff c.graphs) (eqM_setCutoff _ _)
  refine ⟨?_, h.2.1, h.2.2.1, h.2.2.2.1⟩
  rw [h.1, map_setCutoff_frame]

/-! ### which pairs are attempted -/

theorem firstSub_length {α : Type} (gs : List α) : (firstSub gs).length = firstLen gs.length := by
  unfold firstSub firstLen; rw [List.length_take]; split <;> omega

theorem secondSub_length {α : Type} (gs : List α) : (secondSub gs).length = secondEnd gs.length - 1 := by
  unfold secondSub secondEnd; rw [List.length_drop, List.length_take]; split <;> omega

theorem makeEqs_length : ∀ gs : List (Replica H), (makeEqs I gs).length = gs.length / 2
  | [] => by simp [makeEqs]
  | [_] => by simp [makeEqs]
  | a :: b :: rest => by
    simp only [makeEqs, List.length_cons]; rw [makeEqs_length rest]; omega

theorem makeEqs_congr : ∀ (gs gs' : List (Replica H)),
    gs.map (·.ham) = gs'.map (·.ham) → makeEqs I gs = makeEqs I gs'
  | [], [], _ => rfl
  | [], _ :: _, h => by simp at h
  | _ :: _, [], h => by simp at h
  | [a], [a'], _ => rfl
  | [_], _ :: _ :: _, h => by simp at h
  | _ :: _ :: _, [_], h => by simp at h
  | a :: b :: rest, a' :: b' :: rest', h => by
    simp only [List.map_cons, List.cons.injEq] at h
    simp only [makeEqs]
    rw [h.1, h.2.1, makeEqs_congr rest rest' h.2.2]

/-- the left indices phase a / phase b attempt on a ladder of `n` replicas -/
def phaseALefts (n : Nat) : List Nat := (List.range (n / 2)).map (fun k => 0 + 2 * k)
def phaseBLefts (n : Nat) : List Nat := (List.range ((n - 1) / 2)).map (fun k => 1 + 2 * k)

theorem phaseA_lefts (gs : List (Replica H)) (eqs : List Bool) (s : RS)
    (h : eqs.length = firstLen gs.length / 2) :
    (phaseA (performSwaps I) gs eqs s).2.1.map (·.left) = phaseALefts gs.length := by
  unfold phaseA phaseALefts
  simp only []
  rw [performSwaps_lefts I 0 (firstSub gs) eqs s (by rw [firstSub_length]; exact h), firstSub_length]
  have : firstLen gs.length / 2 = gs.length / 2 := by unfold firstLen; split <;> omega
  rw [this]

theorem phaseB_lefts (gs : List (Replica H)) (eqs : List Bool) (s : RS)
    (h : eqs.length = (secondEnd gs.length - 1) / 2) :
    (phaseB (performSwaps I) gs eqs s).2.1.map (·.left) = phaseBLefts gs.length := by
  unfold phaseB phaseBLefts
  simp only []
  rw [performSwaps_lefts I 1 (secondSub gs) eqs s (by rw [secondSub_length]; exact h), secondSub_length]
  have : (secondEnd gs.length - 1) / 2 = (gs.length - 1) / 2 := by unfold secondEnd; split <;> omega
  rw [this]

/-- lengths of the cached equalities fit the two phases -/
def EqLens (eqs : List Bool × List Bool) (n : Nat) : Prop :=
  eqs.1.length = firstLen n / 2 ∧ eqs.2.length = (secondEnd n - 1) / 2

theorem phase_length {f : SwapFn H} (hf : GoodSwap f) (gs : List (Replica H)) (eqs : List Bool) (s : RS) :
    (phaseA f gs eqs s).1.length = gs.length ∧ (phaseB f gs eqs s).1.length = gs.length := by
  have a := congrArg List.length (phaseA_frame hf gs eqs s)
  have b := congrArg List.length (phaseB_frame hf gs eqs s)
  simpa using And.intro a b

theorem stepCore_lefts (ts : Nat) (eqs : List Bool × List Bool) (gs : List (Replica H)) (g : Bool × RS)
    (h : EqLens eqs gs.length) :
    (stepCore I (performSwaps I) ts eqs gs g).2.map (·.left) =
      if g.1 then phaseALefts gs.length ++ phaseBLefts gs.length
      else phaseBLefts gs.length ++ phaseALefts gs.length := by
  have hs := goodSwap_serial I
  unfold stepCore
  by_cases hg : g.1 = true
  · rw [if_pos hg, if_pos hg]
    simp only [List.map_append]
    rw [phaseA_lefts I gs eqs.1 g.2 h.1,
      phaseB_lefts I _ eqs.2 _ (by rw [(phase_length hs gs eqs.1 g.2).1]; exact h.2),
      (phase_length hs gs eqs.1 g.2).1]
  · rw [if_neg hg, if_neg hg]
    simp only [List.map_append]
    rw [phaseB_lefts I gs eqs.2 g.2 h.2,
      phaseA_lefts I _ eqs.1 _ (by rw [(phase_length hs gs eqs.2 g.2).2]; exact h.1),
      (phase_length hs gs eqs.2 g.2).2]

/-! ### rayon step = serial step -/

theorem phaseA_parallel_eq (gs : List (Replica H)) (eqs : List Bool) (s : RS)
    (h : eqs.length = firstLen gs.length / 2) :
    phaseA (parallelPerformSwaps I) gs eqs s = phaseA (performSwaps I) gs eqs s := by
  unfold phaseA
  rw [parallel_eq_serial I 0 (firstSub gs) eqs s (by rw [firstSub_length]; exact h)]

theorem stepCore_parallel_eq (ts : Nat) (eqs : List Bool × List Bool) (gs : List (Replica H))
    (g : Bool × RS) (h : EqLens eqs gs.length) :
    stepCore I (parallelPerformSwaps I) ts eqs gs g = stepCore I (performSwaps I) ts eqs gs g := by
  have hs := goodSwap_serial I
  unfold stepCore
  by_cases hg : g.1 = true
  · rw [if_pos hg, if_pos hg]
    simp only []
    rw [phaseA_parallel_eq I gs eqs.1 g.2 h.1]
  · rw [if_neg hg, if_neg hg]
    simp only []
    rw [phaseA_parallel_eq I _ eqs.1 _ (by rw [(phase_length hs gs eqs.2 g.2).2]; exact h.1)]

/-! ### the cache of Hamiltonian equalities -/

/-- a cached list, when present, is what `make_ham_equalities` would compute now -/
def CacheValid (c : Container H) : Prop :=
  (∀ a, c.eqA = some a → a = makeEqs I (firstSub c.graphs)) ∧
  (∀ b, c.eqB = some b → b = makeEqs I (secondSub c.graphs))

theorem hamEqualities_eq (c : Container H) (h : CacheValid I c) :
    hamEqualities I c = (makeEqs I (firstSub c.graphs), makeEqs I (secondSub c.graphs)) := by
  unfold hamEqualities
  cases ha : c.eqA with
  | none => rfl
  | some a =>
    cases hb : c.eqB with
    | none => rfl
    | some b => simp only []; rw [h.1 a ha, h.2 b hb]

theorem hamEqualities_lens (c : Container H) (h : CacheValid I c) :
    EqLens (hamEqualities I c) c.graphs.length := by
  rw [hamEqualities_eq I c h]
  exact ⟨by simp [makeEqs_length, firstSub_length], by simp [makeEqs_length, secondSub_length]⟩

theorem frame_ham (gs gs' : List (Replica H)) (h : gs.map Replica.frame = gs'.map Replica.frame) :
    gs.map (·.ham) = gs'.map (·.ham) := by
  have := congrArg (List.map (fun f : H × Rat × Rat × Nat × Nat => f.1)) h
  simpa [List.map_map, Function.comp_def, Replica.frame] using this

theorem cacheValid_stepBody (fa : SwapFn H) (hfa : GoodSwap fa) (c : Container H)
    (h : CacheValid I c) : CacheValid I (stepBody I fa c).1 := by
  have sp := stepBody_spec I fa hfa c
  have hh := frame_ham _ _ sp.1
  have hl : (stepBody I fa c).1.graphs.length = c.graphs.length := by
    simpa using congrArg List.length hh
  have core := stepCore_spec I fa hfa c.totalSwaps (hamEqualities I c)
    (c.graphs.map (·.setCutoff (maxCutoff c.graphs))) (c.rng.genBool (1 / 2))
    (maxCutoff c.graphs) (eqM_setCutoff _ _)
  have eA : (stepBody I fa c).1.eqA = some (hamEqualities I c).1 := core.2.2.2.2.1
  have eB : (stepBody I fa c).1.eqB = some (hamEqualities I c).2 := core.2.2.2.2.2
  rw [hamEqualities_eq I c h] at eA eB
  constructor
  · intro a ha
    rw [eA] at ha
    cases ha
    apply makeEqs_congr
    unfold firstSub
    rw [List.map_take, List.map_take, hl, hh]
  · intro b hb
    rw [eB] at hb
    cases hb
    apply makeEqs_congr
    unfold secondSub
    rw [List.map_drop, List.map_drop, List.map_take, List.map_take, hl, hh]

theorem cacheValid_step (c : Container H) (h : CacheValid I c) :
    CacheValid I (stepBody I (performSwaps I) c).1 :=
  cacheValid_stepBody I _ (goodSwap_serial I) c h

/-- changing configurations / cutoffs / the container rng, but no frame, keeps the cache valid -/
theorem cacheValid_evolve (c : Container H) (gs' : List (Replica H)) (s : RS)
    (hf : gs'.map Replica.frame = c.graphs.map Replica.frame) (h : CacheValid I c) :
    CacheValid I { c with graphs := gs', rng := s } := by
  have hh := frame_ham _ _ hf
  have hl : gs'.length = c.graphs.length := by simpa using congrArg List.length hh
  constructor
  · intro a ha
    rw [h.1 a ha]
    apply makeEqs_congr
    unfold firstSub
    simp only []
    rw [List.map_take, List.map_take, hl, hh]
  · intro b hb
    rw [h.2 b hb]
    apply makeEqs_congr
    unfold secondSub
    simp only []
    rw [List.map_drop, List.map_drop, List.map_take, List.map_take, hl, hh]

end Tempering
end Qmc
