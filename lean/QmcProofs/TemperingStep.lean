/-
Structural lemmas about `perform_swaps`, the two phases and the whole tempering step:
frames stay, configurations are permuted, cutoffs are equalised, the counter counts accepted
exchanges, the pairs of a phase are disjoint, the pre-drawn (rayon) variant equals the serial one.
-/
import QmcModel.Tempering
import Mathlib.Tactic.Ring
import Mathlib.Tactic.Linarith
import Mathlib.Data.List.Perm.Basic

namespace Qmc
namespace Tempering

variable {H : Type} (I : Iface H)

/-! ### one pair -/

theorem swapOnChunks_accepted (a b : Replica H) (u : Rat) (ev : Bool) (h : u < pSwap I a b ev) :
    swapOnChunks I a b u ev = ({ a with cfg := b.cfg }, { b with cfg := a.cfg }, true) := by
  simp [swapOnChunks, h]

theorem swapOnChunks_rejected (a b : Replica H) (u : Rat) (ev : Bool) (h : ¬ u < pSwap I a b ev) :
    swapOnChunks I a b u ev = (a, b, false) := by
  simp [swapOnChunks, h]

theorem swapOnChunks_frame (a b : Replica H) (u : Rat) (ev : Bool) :
    (swapOnChunks I a b u ev).1.frame = a.frame ∧ (swapOnChunks I a b u ev).2.1.frame = b.frame ∧
    (swapOnChunks I a b u ev).1.cutoff = a.cutoff ∧ (swapOnChunks I a b u ev).2.1.cutoff = b.cutoff := by
  unfold swapOnChunks; split <;> simp [Replica.frame]

theorem swapOnChunks_cfg (a b : Replica H) (u : Rat) (ev : Bool) :
    ((swapOnChunks I a b u ev).1.cfg = b.cfg ∧ (swapOnChunks I a b u ev).2.1.cfg = a.cfg ∧
      (swapOnChunks I a b u ev).2.2 = true) ∨
    ((swapOnChunks I a b u ev).1.cfg = a.cfg ∧ (swapOnChunks I a b u ev).2.1.cfg = b.cfg ∧
      (swapOnChunks I a b u ev).2.2 = false) := by
  unfold swapOnChunks; split <;> simp

/-! ### `perform_swaps` -/

theorem performSwaps_frame : ∀ (pos : Nat) (gs : List (Replica H)) (eqs : List Bool) (s : RS),
    (performSwaps I pos gs eqs s).1.map Replica.frame = gs.map Replica.frame ∧
    (performSwaps I pos gs eqs s).1.map (·.cutoff) = gs.map (·.cutoff)
  | pos, a :: b :: rest, eq :: eqs, s => by
    have ih := performSwaps_frame (pos + 2) rest eqs (s.genRangeF 1).2
    have hf := swapOnChunks_frame I a b (s.genRangeF 1).1 (!eq)
    simp only [performSwaps, List.map_cons]
    exact ⟨by rw [hf.1, hf.2.1, ih.1], by rw [hf.2.2.1, hf.2.2.2, ih.2]⟩
  | _, [], _, _ => by simp [performSwaps]
  | _, [_], _, _ => by simp [performSwaps]
  | _, _ :: _ :: _, [], _ => by simp [performSwaps]

theorem performSwaps_perm : ∀ (pos : Nat) (gs : List (Replica H)) (eqs : List Bool) (s : RS),
    ((performSwaps I pos gs eqs s).1.map (·.cfg)).Perm (gs.map (·.cfg))
  | pos, a :: b :: rest, eq :: eqs, s => by
    have ih := performSwaps_perm (pos + 2) rest eqs (s.genRangeF 1).2
    simp only [performSwaps, List.map_cons]
    rcases swapOnChunks_cfg I a b (s.genRangeF 1).1 (!eq) with h | h
    · rw [h.1, h.2.1]
      exact (List.Perm.swap _ _ _).trans ((ih.cons _).cons _)
    · rw [h.1, h.2.1]
      exact (ih.cons _).cons _
  | _, [], _, _ => by simp [performSwaps]
  | _, [_], _, _ => by simp [performSwaps]
  | _, _ :: _ :: _, [], _ => by simp [performSwaps]

/-- the left indices of the decisions: `pos, pos+2, …` -/
theorem performSwaps_lefts : ∀ (pos : Nat) (gs : List (Replica H)) (eqs : List Bool) (s : RS),
    eqs.length = gs.length / 2 →
    (performSwaps I pos gs eqs s).2.1.map (·.left) = (List.range (gs.length / 2)).map (fun k => pos + 2 * k)
  | pos, a :: b :: rest, eq :: eqs, s, h => by
    have hl : eqs.length = rest.length / 2 := by
      simp only [List.length_cons] at h; omega
    have ih := performSwaps_lefts (pos + 2) rest eqs (s.genRangeF 1).2 hl
    have e : (a :: b :: rest).length / 2 = rest.length / 2 + 1 := by
      simp only [List.length_cons]; omega
    simp only [performSwaps, List.map_cons, mkDec]
    rw [ih, e, List.range_succ_eq_map]
    simp only [List.map_cons, List.map_map, Nat.mul_zero, Nat.add_zero]
    congr 1
    apply List.map_congr_left
    intro k _
    simp only [Function.comp]; omega
  | _, [], _, _, _ => by simp [performSwaps]
  | _, [_], _, _, _ => by simp [performSwaps]
  | _, _ :: _ :: _, [], _, h => by simp at h; omega

/-- every decision is the comparison `u < p_swap`; the counter counts the accepted ones -/
theorem performSwaps_decisions : ∀ (pos : Nat) (gs : List (Replica H)) (eqs : List Bool) (s : RS),
    ∀ d ∈ (performSwaps I pos gs eqs s).2.1, d.accepted = decide (d.u < d.p)
  | pos, a :: b :: rest, eq :: eqs, s => by
    intro d hd
    simp only [performSwaps, List.mem_cons] at hd
    rcases hd with rfl | hd
    · rfl
    · exact performSwaps_decisions (pos + 2) rest eqs _ d hd
  | _, [], _, _ => by simp [performSwaps]
  | _, [_], _, _ => by simp [performSwaps]
  | _, _ :: _ :: _, [], _ => by simp [performSwaps]

/-! ### the pre-drawn variant -/

theorem parallel_eq_serial : ∀ (pos : Nat) (gs : List (Replica H)) (eqs : List Bool) (s : RS),
    eqs.length = gs.length / 2 →
    parallelPerformSwaps I pos gs eqs s = performSwaps I pos gs eqs s
  | pos, a :: b :: rest, eq :: eqs, s, h => by
    have hl : eqs.length = rest.length / 2 := by
      simp only [List.length_cons] at h; omega
    have ih := parallel_eq_serial (pos + 2) rest eqs (s.genRangeF 1).2 hl
    have e : (a :: b :: rest).length / 2 = rest.length / 2 + 1 := by
      simp only [List.length_cons]; omega
    unfold parallelPerformSwaps at ih ⊢
    rw [e]
    simp only [drawUniforms, decideSwaps, performSwaps]
    simp only [← ih]
  | _, [], [], s, _ => by simp [parallelPerformSwaps, performSwaps, drawUniforms, decideSwaps]
  | _, [], _ :: _, s, h => by simp at h
  | _, [x], [], s, _ => by simp [parallelPerformSwaps, performSwaps, drawUniforms, decideSwaps]
  | _, [_], _ :: _, s, h => by simp at h
  | _, _ :: _ :: _, [], _, h => by simp at h; omega

/-! ### the two phases -/

/-- what the step needs from a swap routine -/
structure GoodSwap (f : SwapFn H) : Prop where
  frame : ∀ pos gs eqs s, (f pos gs eqs s).1.map Replica.frame = gs.map Replica.frame
  cutoff : ∀ pos gs eqs s, (f pos gs eqs s).1.map (·.cutoff) = gs.map (·.cutoff)
  perm : ∀ pos gs eqs s, ((f pos gs eqs s).1.map (·.cfg)).Perm (gs.map (·.cfg))

theorem goodSwap_serial : GoodSwap (performSwaps I) :=
  ⟨fun pos gs eqs s => (performSwaps_frame I pos gs eqs s).1,
   fun pos gs eqs s => (performSwaps_frame I pos gs eqs s).2,
   performSwaps_perm I⟩

theorem split_first {α : Type} (gs : List α) :
    firstSub gs ++ gs.drop (firstLen gs.length) = gs := List.take_append_drop _ _

theorem secondEnd_pos {n : Nat} (h : 0 < n) : 1 ≤ secondEnd n := by
  unfold secondEnd; split <;> omega

theorem split_second {α : Type} (gs : List α) :
    gs.take 1 ++ secondSub gs ++ gs.drop (secondEnd gs.length) = gs := by
  cases gs with
  | nil => simp [secondSub]
  | cons a t =>
    have h1 : 1 ≤ secondEnd (a :: t).length := secondEnd_pos (by simp)
    unfold secondSub
    have : (a :: t).take 1 = ((a :: t).take (secondEnd (a :: t).length)).take 1 := by
      rw [List.take_take, Nat.min_eq_left h1]
    rw [this, List.take_append_drop, List.take_append_drop]

section
variable {I}
variable {f : SwapFn H} (hf : GoodSwap f)
include hf

theorem phaseA_frame (gs : List (Replica H)) (eqs : List Bool) (s : RS) :
    (phaseA f gs eqs s).1.map Replica.frame = gs.map Replica.frame ∧
    (phaseA f gs eqs s).1.map (·.cutoff) = gs.map (·.cutoff) ∧
    ((phaseA f gs eqs s).1.map (·.cfg)).Perm (gs.map (·.cfg)) := by
  unfold phaseA
  simp only [List.map_append]
  refine ⟨?_, ?_, ?_⟩
  · rw [hf.frame, ← List.map_append, split_first]
  · rw [hf.cutoff, ← List.map_append, split_first]
  · have h1 := (hf.perm 0 (firstSub gs) eqs s).append_right ((gs.drop (firstLen gs.length)).map (·.cfg))
    have h2 : (firstSub gs).map (·.cfg) ++ (gs.drop (firstLen gs.length)).map (·.cfg) = gs.map (·.cfg) := by
      rw [← List.map_append, split_first]
    rw [h2] at h1; exact h1

theorem phaseB_frame (gs : List (Replica H)) (eqs : List Bool) (s : RS) :
    (phaseB f gs eqs s).1.map Replica.frame = gs.map Replica.frame ∧
    (phaseB f gs eqs s).1.map (·.cutoff) = gs.map (·.cutoff) ∧
    ((phaseB f gs eqs s).1.map (·.cfg)).Perm (gs.map (·.cfg)) := by
  unfold phaseB
  simp only [List.map_append]
  refine ⟨?_, ?_, ?_⟩
  · rw [hf.frame, ← List.map_append, ← List.map_append, split_second]
  · rw [hf.cutoff, ← List.map_append, ← List.map_append, split_second]
  · have h1 := ((hf.perm 1 (secondSub gs) eqs s).append_left ((gs.take 1).map (·.cfg))).append_right
      ((gs.drop (secondEnd gs.length)).map (·.cfg))
    have h2 : (gs.take 1).map (·.cfg) ++ (secondSub gs).map (·.cfg) ++
        (gs.drop (secondEnd gs.length)).map (·.cfg) = gs.map (·.cfg) := by
      rw [← List.map_append, ← List.map_append, split_second]
    rw [h2] at h1; exact h1

end

/-! ### cutoff equalisation -/

theorem map_setCutoff_frame (gs : List (Replica H)) (m : Nat) :
    (gs.map (·.setCutoff m)).map Replica.frame = gs.map Replica.frame := by
  simp [List.map_map, Function.comp_def, Replica.setCutoff, Replica.frame]

theorem map_setCutoff_cutoff (gs : List (Replica H)) (m : Nat) :
    (gs.map (·.setCutoff m)).map (·.cutoff) = gs.map (fun _ => m) := by
  simp [List.map_map, Function.comp_def, Replica.setCutoff]

theorem foldl_max_ge (gs : List (Replica H)) : ∀ (m0 : Nat),
    m0 ≤ gs.foldl (fun m r => max m r.cutoff) m0 ∧
    ∀ r ∈ gs, r.cutoff ≤ gs.foldl (fun m r => max m r.cutoff) m0 := by
  induction gs with
  | nil => intro m0; simp
  | cons a t ih =>
    intro m0
    simp only [List.foldl_cons, List.mem_cons]
    have h := ih (max m0 a.cutoff)
    refine ⟨le_trans (le_max_left _ _) h.1, ?_⟩
    rintro r (rfl | hr)
    · exact le_trans (le_max_right _ _) h.1
    · exact h.2 r hr

theorem le_maxCutoff {gs : List (Replica H)} {r : Replica H} (h : r ∈ gs) : r.cutoff ≤ maxCutoff gs :=
  (foldl_max_ge gs 0).2 r h

/-- the maximum is attained (non-empty ladder): equalisation never invents a larger cutoff -/
theorem maxCutoff_attained : ∀ (gs : List (Replica H)) (m0 : Nat),
    gs.foldl (fun m r => max m r.cutoff) m0 = m0 ∨
      ∃ r ∈ gs, gs.foldl (fun m r => max m r.cutoff) m0 = r.cutoff := by
  intro gs
  induction gs with
  | nil => intro m0; simp
  | cons a t ih =>
    intro m0
    simp only [List.foldl_cons, List.mem_cons]
    rcases ih (max m0 a.cutoff) with h | ⟨r, hr, h⟩
    · rw [h]
      rcases Nat.le_total m0 a.cutoff with h1 | h1
      · right; exact ⟨a, Or.inl rfl, by rw [Nat.max_eq_right h1]⟩
      · left; exact Nat.max_eq_left h1
    · right; exact ⟨r, Or.inr hr, h⟩

theorem padTo_length (s : Slots) (c : Nat) (h : s.length ≤ c) : (padTo s c).length = c := by
  simp [padTo]; omega

theorem countOps_padTo (s : Slots) (c : Nat) : countOps (padTo s c) = countOps s := by
  simp [padTo, countOps, List.filter_append]

/-! ### the whole step -/

theorem stepCore_spec (fa : SwapFn H) (hfa : GoodSwap fa) (ts : Nat) (eqs : List Bool × List Bool)
    (gs : List (Replica H)) (g : Bool × RS) :
    (stepCore I fa ts eqs gs g).1.graphs.map Replica.frame = gs.map Replica.frame ∧
    (stepCore I fa ts eqs gs g).1.graphs.map (·.cutoff) = gs.map (·.cutoff) ∧
    ((stepCore I fa ts eqs gs g).1.graphs.map (·.cfg)).Perm (gs.map (·.cfg)) ∧
    (stepCore I fa ts eqs gs g).1.totalSwaps = ts + countAccepted (stepCore I fa ts eqs gs g).2 ∧
    (stepCore I fa ts eqs gs g).1.eqA = some eqs.1 ∧ (stepCore I fa ts eqs gs g).1.eqB = some eqs.2 := by
  have hs := goodSwap_serial I
  unfold stepCore
  by_cases hg : g.1 = true
  · rw [if_pos hg]
    have ha := phaseA_frame hfa gs eqs.1 g.2
    have hb := phaseB_frame hs (phaseA fa gs eqs.1 g.2).1 eqs.2 (phaseA fa gs eqs.1 g.2).2.2
    refine ⟨?_, ?_, ?_, ?_, rfl, rfl⟩
    · rw [hb.1, ha.1]
    · rw [hb.2.1, ha.2.1]
    · exact hb.2.2.trans ha.2.2
    · simp [countAccepted, List.filter_append, Nat.add_assoc]
  · rw [if_neg hg]
    have hb := phaseB_frame hs gs eqs.2 g.2
    have ha := phaseA_frame hfa (phaseB (performSwaps I) gs eqs.2 g.2).1 eqs.1
      (phaseB (performSwaps I) gs eqs.2 g.2).2.2
    refine ⟨?_, ?_, ?_, ?_, rfl, rfl⟩
    · rw [ha.1, hb.1]
    · rw [ha.2.1, hb.2.1]
    · exact ha.2.2.trans hb.2.2
    · simp [countAccepted, List.filter_append, Nat.add_assoc]

theorem stepBody_spec (fa : SwapFn H) (hfa : GoodSwap fa) (c : Container H) :
    (stepBody I fa c).1.graphs.map Replica.frame = c.graphs.map Replica.frame ∧
    (stepBody I fa c).1.graphs.map (·.cutoff) = c.graphs.map (fun _ => maxCutoff c.graphs) ∧
    ((stepBody I fa c).1.graphs.map (·.cfg)).Perm
      ((c.graphs.map (·.setCutoff (maxCutoff c.graphs))).map (·.cfg)) ∧
    (stepBody I fa c).1.totalSwaps = c.totalSwaps + countAccepted (stepBody I fa c).2 := by
  unfold stepBody
  have h := stepCore_spec I fa hfa c.totalSwaps (hamEqualities I c)
    (c.graphs.map (·.setCutoff (maxCutoff c.graphs))) (c.rng.genBool (1 / 2))
  refine ⟨?_, ?_, h.2.2.1, h.2.2.2.1⟩
  · rw [h.1, map_setCutoff_frame]
  · rw [h.2.1, map_setCutoff_cutoff]

end Tempering
end Qmc
