import QmcProofs.RvbRegionOK
import QmcProofs.BondContainer

/-!
# `RegionOK` of the model's own proposal, derived

`proposeRegion` (QmcModel/RvbRegion.lean: the exact model of `find_constants`, the start cell,
`build_cluster` with the `WeightedBoundaryManager`, and the post-processing into `subvars`,
`cluster_starting_state`, `cluster_toggle_ps`) hands `calculate_flip_prob` a region that satisfies
`RegionOK` (QmcProofs/RvbReverse.lean) whenever it does not panic and the configuration is Good:
`proposeRegion_regionOK`.  Hence the hypothesis can be dropped from the kernel when the proposal law is
the model's own (`rvbKP`, `rvbKP_eq_rvbK`, `ising_timestep_invariant_rvb_cut_proposal`).
-/

namespace Qmc.Rvb.Derive
open Qmc Qmc.Rvb Qmc.Rvb.ExtractFlip Qmc.Rvb.Kernel

/-! ## key sets of the `BondContainer` -/

def keysOf (c : BC) : List Nat := c.keys.map (·.1)

theorem mem_keysOf_iff {c : BC} {k : Nat} :
    k ∈ keysOf c ↔ ∃ i : Nat, (c.keys[i]?).map (fun kw : Nat × Rat => kw.1) = some k := by
  unfold keysOf
  rw [List.mem_iff_getElem?]
  simp only [List.getElem?_map]

theorem mem_keysOf_of_map {c : BC} (hc : BC.Inv c) {k i : Nat} (h : c.map.getD k none = some i) :
    k ∈ keysOf c := mem_keysOf_iff.2 ⟨i, (hc.inverse k i).1 h⟩

theorem map_of_mem_keysOf {c : BC} (hc : BC.Inv c) {k : Nat} (h : k ∈ keysOf c) :
    ∃ i, c.map.getD k none = some i := by
  obtain ⟨i, hi⟩ := mem_keysOf_iff.1 h
  exact ⟨i, (hc.inverse k i).2 hi⟩

/-- `insert`: the key set grows by exactly `k`; "new" is reported iff `k` was absent -/
theorem keysOf_insert {c : BC} (hc : BC.Inv c) (k : Nat) (w : Rat) :
    (∀ x, x ∈ keysOf (c.insert k w).1 ↔ x ∈ keysOf c ∨ x = k) ∧
      ((c.insert k w).2 = false → k ∈ keysOf c) ∧ ((c.insert k w).2 = true → k ∉ keysOf c) := by
  unfold BC.insert
  simp only
  cases hm : (BC.growMap c.map k).getD k none with
  | some i =>
    rw [BC.growMap_getD] at hm
    have hk : k ∈ keysOf c := mem_keysOf_of_map hc hm
    have hki := (hc.inverse k i).1 hm
    have hil : i < c.keys.length := by
      by_contra hcon
      rw [List.getElem?_eq_none (by omega)] at hki; simp at hki
    have hfst : (c.keys.getD i (k, 0)).1 = k := by
      rw [List.getD_eq_getElem?_getD]
      cases hx : c.keys[i]? with
      | none => rfl
      | some kw => rw [hx] at hki; simpa using hki
    refine ⟨?_, fun _ => hk, fun h => (by cases h)⟩
    intro x
    simp only [keysOf, List.map_set, hfst]
    have : (c.keys.map (·.1)).set i k = c.keys.map (·.1) := by
      apply List.ext_getElem?
      intro j
      by_cases hj : i = j
      · subst hj
        rw [List.getElem?_set_self (by simpa using hil), List.getElem?_map]
        exact hki.symm
      · rw [List.getElem?_set_ne hj]
    rw [this]
    constructor
    · intro h; exact Or.inl h
    · rintro (h | h)
      · exact h
      · rw [h]; exact hk
  | none =>
    rw [BC.growMap_getD] at hm
    refine ⟨?_, fun h => (by cases h), fun _ hk => ?_⟩
    · intro x
      simp [keysOf]
    · obtain ⟨i, hi⟩ := map_of_mem_keysOf hc hk
      rw [hm] at hi; cases hi

theorem keysOf_removeIndex {c : BC} {i : Nat} (hi : i < c.keys.length) :
    (∀ x, x ∈ keysOf (c.removeIndex i) → x ∈ keysOf c) ∧
      (∀ x, x ∈ keysOf c → x ≠ (c.keys[i]).1 → x ∈ keysOf (c.removeIndex i)) := by
  have hlast : c.keys.length - 1 < c.keys.length := by omega
  have hkl : c.keys.getD (c.keys.length - 1) (0, 0) = c.keys[c.keys.length - 1] := by
    simp [List.getD_eq_getElem?_getD, hlast]
  have hnew : ∀ j, (c.removeIndex i).keys[j]? =
      if j < c.keys.length - 1 then (if i = j then some (c.keys[c.keys.length - 1]) else c.keys[j]?) else none := by
    intro j
    unfold BC.removeIndex
    simp only [hkl, List.getElem?_take]
    by_cases hj : j < c.keys.length - 1
    · rw [if_pos hj, if_pos hj]
      by_cases hij : i = j
      · subst hij; rw [if_pos rfl, List.getElem?_set_self hi]
      · rw [if_neg hij, List.getElem?_set_ne hij]
    · rw [if_neg hj, if_neg hj]
  constructor
  · intro x hx
    obtain ⟨j, hj⟩ := mem_keysOf_iff.1 hx
    rw [hnew j] at hj
    split at hj
    · split at hj
      · exact mem_keysOf_iff.2 ⟨c.keys.length - 1, by rw [List.getElem?_eq_getElem hlast]; exact hj⟩
      · exact mem_keysOf_iff.2 ⟨j, hj⟩
    · simp at hj
  · intro x hx hne
    obtain ⟨j, hj⟩ := mem_keysOf_iff.1 hx
    have hjl : j < c.keys.length := by
      by_contra hcon
      rw [List.getElem?_eq_none (by omega)] at hj; simp at hj
    have hji : i ≠ j := by
      intro e; subst e
      rw [List.getElem?_eq_getElem hi] at hj
      simp only [Option.map_some, Option.some.injEq] at hj
      exact hne hj.symm
    by_cases hjlast : j < c.keys.length - 1
    · exact mem_keysOf_iff.2 ⟨j, by rw [hnew j, if_pos hjlast, if_neg hji]; exact hj⟩
    · have hje : j = c.keys.length - 1 := by omega
      have hil : i < c.keys.length - 1 := by omega
      refine mem_keysOf_iff.2 ⟨i, ?_⟩
      rw [hnew i, if_pos hil, if_pos rfl]
      rw [hje, List.getElem?_eq_getElem hlast] at hj
      exact hj

/-! ## what `find_constants` computes: ownership of flat cell indices -/

/-- the flat cell index `k` lies in the block of variable `v` -/
def Owns (C : Consts) (v k : Nat) : Prop :=
  C.varStarts.getD v 0 ≤ k ∧ k < C.varStarts.getD v 0 + C.varLengths.getD v 0

theorem consts_getD (sk : Skeleton) (v : Nat) (hv : v < sk.nvars) :
    (findConstants sk).varStarts.getD v 0 = preLen sk v ∧
      (findConstants sk).varLengths.getD v 0 = (sk.cps.getD v []).length := by
  obtain ⟨hL, -, hS, -⟩ := findConstants_spec sk
  have hS' : (findConstants sk).varStarts = (List.range sk.nvars).map (preLen sk) := hS
  rw [hS', hL]
  constructor <;> simp [List.getD_eq_getElem?_getD, hv]

theorem owns_unique (sk : Skeleton) {v v' k : Nat} (hv : v < sk.nvars) (hv' : v' < sk.nvars)
    (h : Owns (findConstants sk) v k) (h' : Owns (findConstants sk) v' k) : v = v' := by
  unfold Owns at h h'
  rw [(consts_getD sk v hv).1, (consts_getD sk v hv).2] at h
  rw [(consts_getD sk v' hv').1, (consts_getD sk v' hv').2] at h'
  rw [← preLen_succ] at h h'
  rcases Nat.lt_trichotomy v v' with hlt | heq | hgt
  · have := preLen_mono sk (show v + 1 ≤ v' by omega); omega
  · exact heq
  · have := preLen_mono sk (show v' + 1 ≤ v by omega); omega

theorem flatten_at {α} : ∀ (l : List (List α)) (i j : Nat) (hi : i < l.length) (hj : j < (l[i]).length),
    l.flatten[(l.take i).flatten.length + j]? = some ((l[i])[j])
  | a :: t, 0, j, _, hj => by
    simp only [List.take_zero, List.flatten_nil, List.length_nil, Nat.zero_add, List.flatten_cons,
      List.getElem_cons_zero] at hj ⊢
    rw [List.getElem?_append_left hj, List.getElem?_eq_getElem hj]
  | a :: t, i + 1, j, hi, hj => by
    simp only [List.take_succ_cons, List.flatten_cons, List.length_append, List.getElem_cons_succ] at hj ⊢
    rw [Nat.add_assoc, List.getElem?_append_right (by omega), Nat.add_sub_cancel_left]
    exact flatten_at t i j (by simpa using hi) hj

/-- the position stored at an owned flat index is one of the variable's constant-operator positions -/
theorem constantPs_at (sk : Skeleton) {v k : Nat} (hv : v < sk.nvars) (h : Owns (findConstants sk) v k) :
    ∃ p, (findConstants sk).constantPs[k]? = some p ∧ p ∈ sk.cps.getD v [] ∧
      (sk.cps.getD v [])[k - preLen sk v]? = some p := by
  unfold Owns at h
  rw [(consts_getD sk v hv).1, (consts_getD sk v hv).2] at h
  obtain ⟨-, hP, -, -⟩ := findConstants_spec sk
  have hl : v < ((List.range sk.nvars).map (fun u => sk.cps.getD u [])).length := by simpa using hv
  have hlv : ((List.range sk.nvars).map (fun u => sk.cps.getD u []))[v] = sk.cps.getD v [] := by simp
  have hj : k - preLen sk v < (((List.range sk.nvars).map (fun u => sk.cps.getD u []))[v]).length := by
    rw [hlv]; omega
  have htake : (((List.range sk.nvars).map (fun u => sk.cps.getD u [])).take v).flatten.length = preLen sk v := by
    unfold preLen
    rw [← List.map_take, List.take_range, Nat.min_eq_left (by omega)]
  have := flatten_at _ v (k - preLen sk v) hl hj
  rw [htake, show preLen sk v + (k - preLen sk v) = k by omega] at this
  refine ⟨_, by rw [hP]; exact this, ?_, ?_⟩
  · simp only [hlv]; exact List.getElem_mem _
  · simp only [hlv]; rw [List.getElem?_eq_getElem]

/-! ## what `constant_ops_on_var` lists -/

theorem mem_constPsFrom {v : Nat} : ∀ (sig : List (List Nat)) (p0 x : Nat), x ∈ constPsFrom v p0 sig →
    ∃ k, x = p0 + k ∧ v ∈ sig.getD k []
  | [], _, _, h => by simp [constPsFrom] at h
  | vs :: t, p0, x, h => by
    unfold constPsFrom at h
    by_cases hc : vs.contains v = true
    · rw [if_pos hc] at h
      rcases List.mem_cons.1 h with e | e
      · exact ⟨0, e, by simpa using hc⟩
      · obtain ⟨k, hk, hv⟩ := mem_constPsFrom t (p0 + 1) x e
        exact ⟨k + 1, by omega, by simpa using hv⟩
    · rw [if_neg hc] at h
      obtain ⟨k, hk, hv⟩ := mem_constPsFrom t (p0 + 1) x h
      exact ⟨k + 1, by omega, by simpa using hv⟩

/-- a listed position holds an operator flagged constant that acts on the variable -/
theorem mem_constPs {s : Slots} {v p : Nat} (h : p ∈ constPs s v) :
    ∃ o, s[p]? = some (some o) ∧ o.const = true ∧ v ∈ o.vars := by
  unfold constPs at h
  obtain ⟨k, hk, hv⟩ := mem_constPsFrom _ 0 p h
  have hp : p = k := by omega
  subst hp
  unfold constSig at hv
  rw [List.getD_eq_getElem?_getD, List.getElem?_map] at hv
  cases hs : s[p]? with
  | none => rw [hs] at hv; simp at hv
  | some x =>
    rw [hs] at hv
    cases x with
    | none => simp [constVars] at hv
    | some o =>
      simp only [Option.map_some, Option.getD_some, constVars] at hv
      by_cases hc : o.const = true
      · rw [if_pos hc] at hv; exact ⟨o, rfl, hc, hv⟩
      · rw [if_neg hc] at hv; simp at hv

/-! ## the `WeightedBoundaryManager` -/

theorem getRandom_mem {c : BC} {s s' : RS} {k : Nat} {w : Rat}
    (h : c.getRandom s = (some (some (k, w)), s')) : k ∈ keysOf c := by
  unfold BC.getRandom at h
  split at h
  · cases h
  · simp only at h
    split at h
    · cases h
    · split at h
      · rename_i i _
        injection h with h1 _
        injection h1 with h1
        exact mem_keysOf_iff.2 ⟨i, by rw [h1]; rfl⟩
      · cases h

theorem growB_getD (l : List Bool) (k j : Nat) : (growB l k).getD j false = l.getD j false := by
  unfold growB
  split
  · rfl
  · simp only [List.getD_eq_getElem?_getD, List.getElem?_append]
    split
    · rfl
    · rw [List.getElem?_eq_none (l := l) (by omega)]
      simp only [List.getElem?_replicate]
      split <;> rfl

/-- invariant of the boundary manager relative to the cluster variables `gv` collected so far -/
structure WInv (sk : Skeleton) (gv : List Nat) (w : WBM) : Prop where
  fInv : BC.Inv w.flips
  nInv : BC.Inv w.noflips
  fvOwn : ∀ kv ∈ w.flipVar, kv.2 < sk.nvars ∧ Owns (findConstants sk) kv.2 kv.1
  fvHas : ∀ k ∈ keysOf w.flips, ∃ v, (k, v) ∈ w.flipVar
  popF : ∀ p, w.posPopped.getD p false = true → ∃ v ∈ gv, v < sk.nvars ∧ Owns (findConstants sk) v p
  popN : ∀ v, w.noposPopped.getD v false = true → v ∈ gv

theorem flipVarOf_owns {sk : Skeleton} {gv : List Nat} {w : WBM} (h : WInv sk gv w) {k : Nat}
    (hk : k ∈ keysOf w.flips) :
    w.flipVarOf k < sk.nvars ∧ Owns (findConstants sk) (w.flipVarOf k) k := by
  obtain ⟨v, hv⟩ := h.fvHas k hk
  unfold WBM.flipVarOf
  cases hf : w.flipVar.find? (·.1 == k) with
  | none =>
    have := List.find?_eq_none.1 hf (k, v) hv
    simp at this
  | some kv =>
    have hm := List.mem_of_find?_eq_some hf
    have hk' : kv.1 = k := by simpa using List.find?_some hf
    have := h.fvOwn kv hm
    rw [hk'] at this
    exact this

theorem mem_boundaryVars {w : WBM} {x : Nat} :
    x ∈ w.boundaryVars ↔ (∃ k ∈ keysOf w.flips, w.flipVarOf k = x) ∨ x ∈ keysOf w.noflips := by
  unfold WBM.boundaryVars keysOf
  simp only [List.mem_append, List.mem_map]
  constructor
  · rintro (⟨kw, hkw, rfl⟩ | h)
    · exact Or.inl ⟨kw.1, ⟨kw, hkw, rfl⟩, rfl⟩
    · exact Or.inr h
  · rintro (⟨k, ⟨kw, hkw, rfl⟩, rfl⟩ | h)
    · exact Or.inl ⟨kw, hkw, rfl⟩
    · exact Or.inr h

theorem getWeight_nonneg {c : BC} (hc : BC.Inv c) (k : Nat) : 0 ≤ (c.getWeight k).getD 0 := by
  unfold BC.getWeight
  split
  · rename_i i _
    cases hx : c.keys[i]? with
    | none => simp
    | some kw => simpa using hc.nonneg kw (List.mem_of_getElem? hx)
  · simp

theorem flipVarOf_cons_ne (w : WBM) (p var k : Nat) (h : k ≠ p) (fl : BC) (pp : List Bool) :
    ({ w with flips := fl, posPopped := pp, flipVar := (p, var) :: w.flipVar } : WBM).flipVarOf k =
      w.flipVarOf k := by
  unfold WBM.flipVarOf
  simp only [List.find?_cons]
  have : ((p, var).1 == k) = false := by simpa using (fun e : p = k => h e.symm)
  rw [this]

/-- pushing a cell `(var, p)` owned by `var` -/
theorem push_some {sk : Skeleton} {gv : List Nat} {w : WBM} (h : WInv sk gv w) {var p : Nat} {wt : Rat}
    (hw : 0 ≤ wt) (hv : var < sk.nvars) (ho : Owns (findConstants sk) var p) :
    WInv sk gv (w.pushAdjacent var (some p) wt) ∧
      (∀ x, x ∈ w.boundaryVars → x ∈ (w.pushAdjacent var (some p) wt).boundaryVars) ∧
      (var ∈ gv ∨ var ∈ (w.pushAdjacent var (some p) wt).boundaryVars) := by
  unfold WBM.pushAdjacent
  simp only
  by_cases hpop : (growB w.posPopped p).getD p false = true
  · rw [if_pos hpop]
    rw [growB_getD] at hpop
    refine ⟨⟨h.fInv, h.nInv, h.fvOwn, h.fvHas, ?_, h.popN⟩, fun x hx => hx, ?_⟩
    · intro q hq
      simp only [growB_getD] at hq
      exact h.popF q hq
    · obtain ⟨v, hvg, hvn, hvo⟩ := h.popF p hpop
      rw [owns_unique sk hv hvn ho hvo]
      exact Or.inl hvg
  · rw [if_neg hpop]
    have hwt : 0 ≤ (w.flips.getWeight p).getD 0 + wt := add_nonneg (getWeight_nonneg h.fInv p) hw
    obtain ⟨hk1, hk2, hk3⟩ := keysOf_insert h.fInv p ((w.flips.getWeight p).getD 0 + wt)
    have hinv := BC.inv_insert h.fInv p hwt
    generalize hins : w.flips.insert p ((w.flips.getWeight p).getD 0 + wt) = ins at hk1 hk2 hk3 hinv
    obtain ⟨c, new⟩ := ins
    simp only at hk1 hk2 hk3 hinv ⊢
    have hW : WInv sk gv { w with flips := c, posPopped := growB w.posPopped p, flipVar := (if new = true then (p, var) :: w.flipVar else w.flipVar) } := by
      refine ⟨hinv, h.nInv, ?_, ?_, ?_, h.popN⟩
      · intro kv hkv
        cases new with
        | false => exact h.fvOwn kv hkv
        | true =>
          simp only [if_true, List.mem_cons] at hkv
          rcases hkv with rfl | hkv
          · exact ⟨hv, ho⟩
          · exact h.fvOwn kv hkv
      · intro k hk
        rcases (hk1 k).1 hk with hk | rfl
        · obtain ⟨v, hv'⟩ := h.fvHas k hk
          exact ⟨v, by cases new <;> simp [hv']⟩
        · cases new with
          | true => exact ⟨var, by simp⟩
          | false =>
            obtain ⟨v, hv'⟩ := h.fvHas k (hk2 rfl)
            exact ⟨v, by simpa using hv'⟩
      · intro q hq
        simp only [growB_getD] at hq
        exact h.popF q hq
    have hfv : ∀ k ∈ keysOf w.flips, ({ w with flips := c, posPopped := growB w.posPopped p, flipVar := (if new = true then (p, var) :: w.flipVar else w.flipVar) } : WBM).flipVarOf k =
          w.flipVarOf k := by
      intro k hk
      cases new with
      | false => rfl
      | true =>
        simp only [if_true]
        exact flipVarOf_cons_ne w p var k (fun e => hk3 rfl (e ▸ hk)) c _
    refine ⟨hW, ?_, Or.inr ?_⟩
    · intro x hx
      rw [mem_boundaryVars] at hx ⊢
      rcases hx with ⟨k, hk, rfl⟩ | hx
      · exact Or.inl ⟨k, (hk1 k).2 (Or.inl hk), hfv k hk⟩
      · exact Or.inr hx
    · rw [mem_boundaryVars]
      have hp : p ∈ keysOf c := (hk1 p).2 (Or.inr rfl)
      obtain ⟨o1, o2⟩ := flipVarOf_owns hW (k := p) hp
      exact Or.inl ⟨p, hp, owns_unique sk o1 hv o2 ho⟩

/-- pushing an idle variable -/
theorem push_none {sk : Skeleton} {gv : List Nat} {w : WBM} (h : WInv sk gv w) {var : Nat} {wt : Rat}
    (hw : 0 ≤ wt) :
    WInv sk gv (w.pushAdjacent var none wt) ∧
      (∀ x, x ∈ w.boundaryVars → x ∈ (w.pushAdjacent var none wt).boundaryVars) ∧
      (var ∈ gv ∨ var ∈ (w.pushAdjacent var none wt).boundaryVars) := by
  unfold WBM.pushAdjacent
  simp only
  by_cases hpop : (growB w.noposPopped var).getD var false = true
  · rw [if_pos hpop]
    rw [growB_getD] at hpop
    refine ⟨⟨h.fInv, h.nInv, h.fvOwn, h.fvHas, h.popF, ?_⟩, fun x hx => hx, Or.inl (h.popN var hpop)⟩
    intro q hq
    simp only [growB_getD] at hq
    exact h.popN q hq
  · rw [if_neg hpop]
    have hwt : 0 ≤ (w.noflips.getWeight var).getD 0 + wt := add_nonneg (getWeight_nonneg h.nInv var) hw
    obtain ⟨hk1, -, -⟩ := keysOf_insert h.nInv var ((w.noflips.getWeight var).getD 0 + wt)
    have hinv := BC.inv_insert h.nInv var hwt
    refine ⟨⟨h.fInv, hinv, h.fvOwn, h.fvHas, h.popF, ?_⟩, ?_, Or.inr ?_⟩
    · intro q hq
      simp only [growB_getD] at hq
      exact h.popN q hq
    · intro x hx
      rw [mem_boundaryVars] at hx ⊢
      rcases hx with hx | hx
      · exact Or.inl hx
      · exact Or.inr ((hk1 x).2 (Or.inl hx))
    · rw [mem_boundaryVars]
      exact Or.inr ((hk1 var).2 (Or.inr rfl))

/-- what a successful `pop_index` returns -/
theorem popIndex_some {w : WBM} {s s' : RS} {v : Nat} {flip : Option Nat} {w1 : WBM}
    (h : w.popIndex s = (some (v, flip, w1), s')) :
    (∃ k c b, flip = some k ∧ v = w.flipVarOf k ∧ k ∈ keysOf w.flips ∧ w.flips.remove k = some (c, b) ∧
        w1 = { w with flips := c, posPopped := w.posPopped.set k true }) ∨
    (∃ k c b, flip = none ∧ v = k ∧ k ∈ keysOf w.noflips ∧ w.noflips.remove k = some (c, b) ∧
        w1 = { w with noflips := c, noposPopped := w.noposPopped.set k true }) := by
  unfold WBM.popIndex at h
  simp only at h
  split at h
  · cases h
  · split at h
    · cases h
    · split at h
      · -- flips
        split at h
        · rename_i k wk s2 hg
          split at h
          · cases h
          · split at h
            · split at h
              · rename_i c b hr
                injection h with h1 _
                injection h1 with h1
                injection h1 with e1 e2
                injection e2 with e2 e3
                exact Or.inl ⟨k, c, b, e2.symm, e1.symm, getRandom_mem hg, hr, e3.symm⟩
              · cases h
            · cases h
        · cases h
      · -- noflips
        split at h
        · rename_i k wk s2 hg
          split at h
          · cases h
          · split at h
            · split at h
              · rename_i c b hr
                injection h with h1 _
                injection h1 with h1
                injection h1 with e1 e2
                injection e2 with e2 e3
                exact Or.inr ⟨k, c, b, e2.symm, e1.symm, getRandom_mem hg, hr, e3.symm⟩
              · cases h
            · cases h
        · cases h

theorem keysOf_remove {c c' : BC} {k : Nat} {b : Bool} (hc : BC.Inv c) (hk : k ∈ keysOf c)
    (h : c.remove k = some (c', b)) :
    (∀ x, x ∈ keysOf c' → x ∈ keysOf c) ∧ (∀ x, x ∈ keysOf c → x ≠ k → x ∈ keysOf c') := by
  obtain ⟨i, hi⟩ := map_of_mem_keysOf hc hk
  unfold BC.remove at h
  rw [if_pos (BC.getD_some_lt hi), hi] at h
  injection h with h
  injection h with h1 _
  subst h1
  have hki := (hc.inverse k i).1 hi
  have hil : i < c.keys.length := by
    by_contra hcon
    rw [List.getElem?_eq_none (by omega)] at hki; simp at hki
  have hk' : (c.keys[i]).1 = k := by
    rw [List.getElem?_eq_getElem hil] at hki; simpa using hki
  obtain ⟨r1, r2⟩ := keysOf_removeIndex (c := c) hil
  exact ⟨r1, fun x hx hne => r2 x hx (by rw [hk']; exact hne)⟩

theorem getD_set_true (l : List Bool) (k q : Nat) (h : (l.set k true).getD q false = true) :
    q = k ∨ l.getD q false = true := by
  by_cases e : k = q
  · exact Or.inl e.symm
  · rw [List.getD_eq_getElem?_getD, List.getElem?_set_ne e, ← List.getD_eq_getElem?_getD] at h
    exact Or.inr h

/-- a pop keeps the invariant (with the popped variable added to the cluster), the popped cell is
owned by the popped variable, and everything else stays on the boundary -/
theorem pop_inv {sk : Skeleton} {gv : List Nat} {w : WBM} (hw : WInv sk gv w) {s s' : RS} {v : Nat}
    {flip : Option Nat} {w1 : WBM} (h : w.popIndex s = (some (v, flip, w1), s')) :
    WInv sk (gv ++ [v]) w1 ∧ (∀ f, flip = some f → v < sk.nvars ∧ Owns (findConstants sk) v f) ∧
      (∀ x, x ∈ w.boundaryVars → x = v ∨ x ∈ w1.boundaryVars) := by
  have hmono : ∀ x, x ∈ gv → x ∈ gv ++ [v] := fun x hx => List.mem_append_left _ hx
  rcases popIndex_some h with ⟨k, c, b, rfl, rfl, hk, hr, rfl⟩ | ⟨k, c, b, rfl, rfl, hk, hr, rfl⟩
  · obtain ⟨o1, o2⟩ := flipVarOf_owns hw hk
    obtain ⟨r1, r2⟩ := keysOf_remove hw.fInv hk hr
    refine ⟨⟨(BC.inv_remove hw.fInv hr).1, hw.nInv, hw.fvOwn, fun x hx => hw.fvHas x (r1 x hx), ?_, ?_⟩,
      fun f hf => (by injection hf with hf; subst hf; exact ⟨o1, o2⟩), ?_⟩
    · intro q hq
      rcases getD_set_true _ _ _ hq with rfl | hq
      · exact ⟨_, List.mem_append_right _ (by simp), o1, o2⟩
      · obtain ⟨u, hu, h1, h2⟩ := hw.popF q hq
        exact ⟨u, hmono u hu, h1, h2⟩
    · intro u hu; exact hmono u (hw.popN u hu)
    · intro x hx
      rw [mem_boundaryVars] at hx
      rcases hx with ⟨k', hk', rfl⟩ | hx
      · by_cases e : k' = k
        · left; rw [e]
        · right
          rw [mem_boundaryVars]
          exact Or.inl ⟨k', r2 k' hk' e, rfl⟩
      · right; rw [mem_boundaryVars]; exact Or.inr hx
  · obtain ⟨r1, r2⟩ := keysOf_remove hw.nInv hk hr
    refine ⟨⟨hw.fInv, (BC.inv_remove hw.nInv hr).1, hw.fvOwn, hw.fvHas, ?_, ?_⟩,
      fun f hf => (by cases hf), ?_⟩
    · intro q hq
      obtain ⟨u, hu, h1, h2⟩ := hw.popF q hq
      exact ⟨u, hmono u hu, h1, h2⟩
    · intro u hu
      rcases getD_set_true _ _ _ hu with rfl | hu
      · exact List.mem_append_right _ (by simp)
      · exact hmono u (hw.popN u hu)
    · intro x hx
      rw [mem_boundaryVars] at hx
      rcases hx with hx | hx
      · right; rw [mem_boundaryVars]; exact Or.inl hx
      · by_cases e : x = v
        · exact Or.inl e
        · right; rw [mem_boundaryVars]; exact Or.inr (r2 x hx e)

/-! ## `find_overlapping_starts` never returns an empty list on sorted in-range positions -/

theorem sorted_filter_lt : ∀ (l : List Nat), l.Pairwise (· < ·) → ∀ (x i : Nat) (hi : i < l.length),
    (l[i] < x ↔ i < (l.filter (· < x)).length)
  | [], _, _, i, hi => by simp at hi
  | a :: t, hs, x, i, hi => by
    have hs' := List.pairwise_cons.1 hs
    by_cases hax : a < x
    · rw [List.filter_cons_of_pos (by simpa using hax)]
      cases i with
      | zero => simp [hax]
      | succ i =>
        simp only [List.getElem_cons_succ, List.length_cons, Nat.add_lt_add_iff_right]
        exact sorted_filter_lt t hs'.2 x i (by simpa using hi)
    · rw [List.filter_cons_of_neg (by simpa using hax)]
      have hnil : t.filter (· < x) = [] := by
        rw [List.filter_eq_nil_iff]
        intro y hy
        have := hs'.1 y hy
        simp only [decide_eq_true_eq]; omega
      rw [hnil]
      cases i with
      | zero => simp [hax]
      | succ i =>
        have := hs'.1 (t[i]'(by simpa using hi)) (List.getElem_mem _)
        simp only [List.getElem_cons_succ, List.length_nil, Nat.not_lt_zero, iff_false]
        omega

theorem sorted_getElem_lt {l : List Nat} (hs : l.Pairwise (· < ·)) {i j : Nat} (hj : j < l.length)
    (hij : i < j) : l[i]'(by omega) < l[j] :=
  List.pairwise_iff_getElem.1 hs i j (by omega) hj hij

theorem fos_ne_nil {ps pe cutoff : Nat} {fp res : List Nat} (hs : fp.Pairwise (· < ·))
    (hb : ∀ p ∈ fp, p < cutoff) (hps : ps < cutoff)
    (h : findOverlappingStarts ps pe cutoff fp = some res) : res ≠ [] := by
  have hsome : (findOverlappingStarts ps pe cutoff fp).isSome := by rw [h]; rfl
  obtain ⟨hne, hc0, hnot⟩ := (fos_isSome_iff ps pe cutoff fp).1 hsome
  obtain ⟨prev, hprev, hpe, hres, -, -, -, -⟩ := fos_spec h
  have hlen : 0 < fp.length := by omega
  -- the enumeration starts with `prev`
  have hcyc : ∃ rest, cyclicFrom prev fp.length = prev :: rest := by
    unfold cyclicFrom
    have : fp.length - prev = (fp.length - prev - 1) + 1 := by omega
    rw [this, List.range'_succ]
    exact ⟨_, rfl⟩
  obtain ⟨rest, hrest⟩ := hcyc
  suffices hp : overlapPred ps pe cutoff (fp.getD prev 0) fp prev = true by
    rw [hres, hrest, List.takeWhile_cons, if_pos hp]; simp
  -- arithmetic
  set bin := (fp.filter (· < ps)).length with hbin
  have hbinle : bin ≤ fp.length := List.length_filter_le _ _
  have hL : fp.getD prev 0 = fp[prev] := by simp [List.getD_eq_getElem?_getD, hprev]
  have hnext : (prev + 1) % fp.length < fp.length := Nat.mod_lt _ hlen
  have hN : fp.getD ((prev + 1) % fp.length) 0 = fp[(prev + 1) % fp.length] := by
    simp [List.getD_eq_getElem?_getD, hnext]
  have hLc : fp[prev] < cutoff := hb _ (List.getElem_mem _)
  have hNc : fp[(prev + 1) % fp.length] < cutoff := hb _ (List.getElem_mem _)
  have hflt : ∀ i (hi : i < fp.length), (fp[i] < ps ↔ i < bin) := fun i hi => sorted_filter_lt fp hs ps i hi
  have hne' : ∀ i (hi : i < fp.length), fp[i] ≠ ps := fun i hi e => hnot (e ▸ List.getElem_mem _)
  unfold overlapPred
  simp only [hL, hN]
  have hcs : (fp[prev] + cutoff - fp[prev]) % cutoff = 0 := by
    rw [Nat.add_sub_cancel_left, Nat.mod_self]
  rw [hcs]
  -- it suffices: next is `lowest` itself, or 0 < off ps < ce
  suffices hgoal : (fp[(prev + 1) % fp.length] + cutoff - fp[prev]) % cutoff = 0 ∨
      (0 < (ps + cutoff - fp[prev]) % cutoff ∧
        (ps + cutoff - fp[prev]) % cutoff < (fp[(prev + 1) % fp.length] + cutoff - fp[prev]) % cutoff) by
    rcases hgoal with h0 | ⟨h1, h2⟩
    · simp [h0]
    · simp [h1, h2]
  by_cases hb0 : bin = 0
  · -- ps is below every position: prev is the last index, next index 0
    have hpv : prev = fp.length - 1 := by
      rw [hpe, hb0, Nat.zero_add, Nat.mod_eq_of_lt (by omega)]
    have hnx : (prev + 1) % fp.length = 0 := by
      rw [hpv, show fp.length - 1 + 1 = fp.length by omega, Nat.mod_self]
    have hps0 : ps < fp[0] := by
      have := (hflt 0 hlen).not.2 (by omega)
      have := hne' 0 hlen
      omega
    by_cases h1 : fp.length = 1
    · left
      have : (prev + 1) % fp.length = prev := by rw [hnx, hpv, h1]
      simp only [this]
      rw [Nat.add_sub_cancel_left, Nat.mod_self]
    · right
      have hlt : fp[0] < fp[prev] := sorted_getElem_lt hs hprev (by omega)
      simp only [hnx]
      rw [Nat.mod_eq_of_lt (by omega), Nat.mod_eq_of_lt (by omega)]
      omega
  · -- prev = bin - 1 is the last position below ps
    have hpv : prev = bin - 1 := by
      rw [hpe, show bin + fp.length - 1 = (bin - 1) + fp.length by omega, Nat.add_mod_right,
        Nat.mod_eq_of_lt (by omega)]
    have hLps : fp[prev] < ps := (hflt prev hprev).2 (by omega)
    have hoff : (ps + cutoff - fp[prev]) % cutoff = ps - fp[prev] := by
      rw [show ps + cutoff - fp[prev] = (ps - fp[prev]) + cutoff by omega, Nat.add_mod_right,
        Nat.mod_eq_of_lt (by omega)]
    by_cases hbl : bin < fp.length
    · right
      have hnx : (prev + 1) % fp.length = bin := by
        rw [hpv, show bin - 1 + 1 = bin by omega, Nat.mod_eq_of_lt hbl]
      have hNps : ps < fp[bin] := by
        have := (hflt bin hbl).not.2 (by omega)
        have := hne' bin hbl
        omega
      simp only [hnx]
      rw [hoff, show fp[bin] + cutoff - fp[prev] = (fp[bin] - fp[prev]) + cutoff by omega, Nat.add_mod_right,
        Nat.mod_eq_of_lt (by have := hb _ (List.getElem_mem (l := fp) hbl); omega)]
      omega
    · have hbe : bin = fp.length := by omega
      have hnx : (prev + 1) % fp.length = 0 := by
        rw [hpv, hbe, show fp.length - 1 + 1 = fp.length by omega, Nat.mod_self]
      by_cases h1 : fp.length = 1
      · left
        have : (prev + 1) % fp.length = prev := by rw [hnx, hpv, hbe, h1]
        simp only [this]
        rw [Nat.add_sub_cancel_left, Nat.mod_self]
      · right
        have hlt : fp[0] < fp[prev] := sorted_getElem_lt hs hprev (by omega)
        simp only [hnx]
        rw [hoff, Nat.mod_eq_of_lt (by omega)]
        omega

/-! ## the positions of one variable as a slice of `constant_ps`; sortedness -/

theorem flatten_slice {α} : ∀ (l : List (List α)) (i : Nat) (hi : i < l.length),
    (l.flatten.drop (l.take i).flatten.length).take (l[i]).length = l[i]
  | a :: t, 0, _ => by simp
  | a :: t, i + 1, hi => by
    simp only [List.take_succ_cons, List.flatten_cons, List.length_append, List.getElem_cons_succ]
    rw [List.drop_append]
    simp only [List.drop_eq_nil_of_le (Nat.le_add_right a.length _), List.nil_append, Nat.add_sub_cancel_left]
    exact flatten_slice t i (by simpa using hi)

theorem constantPs_slice (sk : Skeleton) {v : Nat} (hv : v < sk.nvars) :
    (((findConstants sk).constantPs.drop ((findConstants sk).varStarts.getD v 0)).take
      ((findConstants sk).varLengths.getD v 0)) = sk.cps.getD v [] := by
  rw [(consts_getD sk v hv).1, (consts_getD sk v hv).2]
  obtain ⟨-, hP, -, -⟩ := findConstants_spec sk
  have hl : v < ((List.range sk.nvars).map (fun u => sk.cps.getD u [])).length := by simpa using hv
  have hlv : ((List.range sk.nvars).map (fun u => sk.cps.getD u []))[v] = sk.cps.getD v [] := by simp
  have htake : (((List.range sk.nvars).map (fun u => sk.cps.getD u [])).take v).flatten.length = preLen sk v := by
    unfold preLen
    rw [← List.map_take, List.take_range, Nat.min_eq_left (by omega)]
  have := flatten_slice _ v hl
  rw [htake, hlv] at this
  rw [hP]; exact this

theorem constPsFrom_sorted (v : Nat) : ∀ (sig : List (List Nat)) (p0 : Nat),
    (constPsFrom v p0 sig).Pairwise (· < ·) ∧ ∀ x ∈ constPsFrom v p0 sig, p0 ≤ x ∧ x < p0 + sig.length
  | [], p0 => by simp [constPsFrom]
  | vs :: t, p0 => by
    obtain ⟨ih1, ih2⟩ := constPsFrom_sorted v t (p0 + 1)
    unfold constPsFrom
    split
    · refine ⟨List.pairwise_cons.2 ⟨fun y hy => by have := ih2 y hy; omega, ih1⟩, ?_⟩
      intro x hx
      rcases List.mem_cons.1 hx with rfl | hx
      · simp
      · have := ih2 x hx; simp only [List.length_cons]; omega
    · refine ⟨ih1, fun x hx => ?_⟩
      have := ih2 x hx; simp only [List.length_cons]; omega

/-- the positions of the constant operators of every variable are increasing and below the cutoff -/
def SkOK (sk : Skeleton) : Prop :=
  ∀ v, v < sk.nvars → (sk.cps.getD v []).Pairwise (· < ·) ∧ ∀ p ∈ sk.cps.getD v [], p < sk.cutoff

theorem skeleton_cps (E : Ising) (c : Config) {v : Nat} (hv : v < E.nvars) :
    (Rvb.skeleton E c).cps.getD v [] = constPs c.slots v := by
  simp [Rvb.skeleton, List.getD_eq_getElem?_getD, hv]

theorem skeleton_skOK (E : Ising) (c : Config) : SkOK (Rvb.skeleton E c) := by
  intro v hv
  have hv' : v < E.nvars := hv
  rw [skeleton_cps E c hv']
  obtain ⟨h1, h2⟩ := constPsFrom_sorted v (constSig c.slots) 0
  refine ⟨h1, fun p hp => ?_⟩
  have := h2 p hp
  simp only [constSig, List.length_map, Nat.zero_add] at this
  exact this.2

/-! ## `build_cluster` -/

/-- pushing several cells of the same variable `ov` -/
theorem push_cells {sk : Skeleton} {gv : List Nat} {ov : Nat} (hov : ov < sk.nvars) {wt : Rat}
    (hw : 0 ≤ wt) (g : Nat → Nat) : ∀ (ps : List Nat) (w : WBM), WInv sk gv w →
      (∀ p ∈ ps, Owns (findConstants sk) ov (g p)) →
      WInv sk gv (ps.foldl (fun w p => w.pushAdjacent ov (some (g p)) wt) w) ∧
      (∀ x, x ∈ w.boundaryVars → x ∈ (ps.foldl (fun w p => w.pushAdjacent ov (some (g p)) wt) w).boundaryVars) ∧
      (ps ≠ [] → ov ∈ gv ∨ ov ∈ (ps.foldl (fun w p => w.pushAdjacent ov (some (g p)) wt) w).boundaryVars)
  | [], w, h, _ => ⟨h, fun _ hx => hx, fun hne => absurd rfl hne⟩
  | p :: t, w, h, ho => by
    obtain ⟨h1, h2, h3⟩ := push_some h hw hov (ho p (by simp))
    obtain ⟨i1, i2, -⟩ := push_cells hov hw g t _ h1 (fun q hq => ho q (List.mem_cons_of_mem _ hq))
    refine ⟨i1, fun x hx => i2 x (h2 x hx), fun _ => ?_⟩
    rcases h3 with h3 | h3
    · exact Or.inl h3
    · exact Or.inr (i2 _ h3)

/-- coupling magnitude of bond `b` as the proposal reads it -/
def bondW (sk : Skeleton) (b : Nat) : Rat := (sk.edges.getD b (0, 0, 0)).2.2

/-- one bond of the popped cell: the neighbour across a bond of positive magnitude ends up in the
cluster or on the boundary -/
theorem pushNeighbours_inv {sk : Skeleton} (hsk : SkOK sk) {gv : List Nat} {w w' : WBM} {v : Nat}
    {flip : Option Nat} {b : Nat} (hw : WInv sk gv w)
    (hflip : ∀ f, flip = some f → v < sk.nvars ∧ Owns (findConstants sk) v f)
    (h : pushNeighbours sk (findConstants sk) v flip w b = some w') :
    WInv sk gv w' ∧ (∀ x, x ∈ w.boundaryVars → x ∈ w'.boundaryVars) ∧
      (0 < bondW sk b → ∃ ov, otherVar sk v b = some ov ∧ (ov ∈ gv ∨ ov ∈ w'.boundaryVars)) := by
  unfold pushNeighbours at h
  simp only at h
  by_cases hwt : bondW sk b ≤ 0
  · unfold bondW at hwt
    rw [if_pos hwt] at h
    injection h with h; subst h
    exact ⟨hw, fun _ hx => hx, fun hp => by unfold bondW at hp; exact absurd hp (not_lt.2 hwt)⟩
  · have hwt' := hwt
    unfold bondW at hwt
    rw [if_neg hwt] at h
    have hpos : 0 ≤ (sk.edges.getD b (0, 0, 0)).2.2 := le_of_lt (not_le.1 hwt)
    cases hov : otherVar sk v b with
    | none => rw [hov] at h; cases h
    | some ov =>
      rw [hov] at h
      simp only at h
      by_cases hn : sk.nvars ≤ ov
      · rw [if_pos hn] at h; cases h
      · rw [if_neg hn] at h
        have hovn : ov < sk.nvars := by omega
        by_cases hl0 : (findConstants sk).varLengths.getD ov 0 = 0
        · rw [if_pos hl0] at h
          injection h with h; subst h
          obtain ⟨p1, p2, p3⟩ := push_none (var := ov) hw hpos
          exact ⟨p1, p2, fun _ => ⟨ov, rfl, p3⟩⟩
        · rw [if_neg hl0] at h
          cases flip with
          | some f =>
            simp only at h
            obtain ⟨hvn, hvo⟩ := hflip f rfl
            cases hfos : findOverlappingStarts ((findConstants sk).constantPs.getD f 0)
                ((findConstants sk).constantPs.getD
                  ((f - (findConstants sk).varStarts.getD v 0 + 1) % (findConstants sk).varLengths.getD v 0 +
                    (findConstants sk).varStarts.getD v 0) 0) sk.cutoff
                (((findConstants sk).constantPs.drop ((findConstants sk).varStarts.getD ov 0)).take
                  ((findConstants sk).varLengths.getD ov 0)) with
            | none => rw [hfos] at h; cases h
            | some is =>
              rw [hfos] at h
              injection h with h; subst h
              rw [constantPs_slice sk hovn] at hfos
              obtain ⟨ps, hps1, hps2, -⟩ := constantPs_at sk hvn hvo
              have hpstart : (findConstants sk).constantPs.getD f 0 = ps := by
                rw [List.getD_eq_getElem?_getD, hps1]; rfl
              rw [hpstart] at hfos
              have hne := fos_ne_nil (hsk ov hovn).1 (hsk ov hovn).2 ((hsk v hvn).2 ps hps2) hfos
              obtain ⟨_, _, _, _, _, hlt, _, _⟩ := fos_spec hfos
              have hown : ∀ i ∈ is, Owns (findConstants sk) ov (i + (findConstants sk).varStarts.getD ov 0) := by
                intro i hi
                have := hlt i hi
                rw [← (consts_getD sk ov hovn).2] at this
                unfold Owns; omega
              obtain ⟨p1, p2, p3⟩ := push_cells hovn hpos
                (fun i => i + (findConstants sk).varStarts.getD ov 0) is w hw hown
              exact ⟨p1, p2, fun _ => ⟨ov, rfl, p3 hne⟩⟩
          | none =>
            simp only at h
            injection h with h; subst h
            have hown : ∀ p ∈ List.range' ((findConstants sk).varStarts.getD ov 0)
                ((findConstants sk).varLengths.getD ov 0), Owns (findConstants sk) ov p := by
              intro p hp
              rw [List.mem_range'_1] at hp
              exact hp
            have hne : List.range' ((findConstants sk).varStarts.getD ov 0)
                ((findConstants sk).varLengths.getD ov 0) ≠ [] := by
              intro e
              have := congrArg List.length e
              simp at this
              exact hl0 this
            obtain ⟨p1, p2, p3⟩ := push_cells hovn hpos (fun p => p) _ w hw hown
            exact ⟨p1, p2, fun _ => ⟨ov, rfl, p3 hne⟩⟩

/-- the body of the fold over the bonds of the popped variable in `growOne` -/
def nbStep (sk : Skeleton) (C : Consts) (v : Nat) (flip : Option Nat) (acc : Option WBM) (b : Nat) : Option WBM :=
  match acc with
  | none => none
  | some w => pushNeighbours sk C v flip w b

theorem foldl_none {sk : Skeleton} {C : Consts} {v : Nat} {flip : Option Nat} : ∀ (bs : List Nat),
    bs.foldl (nbStep sk C v flip) (none : Option WBM) = none
  | [] => rfl
  | _ :: t => foldl_none t

/-- all bonds of the popped cell -/
theorem neighbours_fold {sk : Skeleton} (hsk : SkOK sk) {gv : List Nat} {v : Nat} {flip : Option Nat}
    (hflip : ∀ f, flip = some f → v < sk.nvars ∧ Owns (findConstants sk) v f) :
    ∀ (bs : List Nat) (w w3 : WBM), WInv sk gv w →
      bs.foldl (nbStep sk (findConstants sk) v flip) (some w) = some w3 →
      WInv sk gv w3 ∧ (∀ x, x ∈ w.boundaryVars → x ∈ w3.boundaryVars) ∧
        (∀ b ∈ bs, 0 < bondW sk b → ∃ ov, otherVar sk v b = some ov ∧ (ov ∈ gv ∨ ov ∈ w3.boundaryVars))
  | [], w, w3, hw, h => by
    simp only [List.foldl_nil, Option.some.injEq] at h
    subst h
    exact ⟨hw, fun _ hx => hx, fun b hb => by simp at hb⟩
  | b :: t, w, w3, hw, h => by
    simp only [List.foldl_cons, nbStep] at h
    cases hp : pushNeighbours sk (findConstants sk) v flip w b with
    | none => rw [hp, foldl_none] at h; cases h
    | some w1 =>
      rw [hp] at h
      obtain ⟨p1, p2, p3⟩ := pushNeighbours_inv hsk hw hflip hp
      obtain ⟨i1, i2, i3⟩ := neighbours_fold hsk hflip t w1 w3 p1 h
      refine ⟨i1, fun x hx => i2 x (p2 x hx), ?_⟩
      intro b' hb' hpos
      rcases List.mem_cons.1 hb' with rfl | hb'
      · obtain ⟨ov, ho, hin⟩ := p3 hpos
        exact ⟨ov, ho, hin.imp id (i2 ov)⟩
      · exact i3 b' hb' hpos

/-- invariant of the growing cluster -/
structure GInv (sk : Skeleton) (g : Grow) : Prop where
  w : WInv sk g.vars g.w
  len : g.vars.length = g.flips.length
  own : ∀ (i v f : Nat), g.vars[i]? = some v → g.flips[i]? = some (some f) →
    v < sk.nvars ∧ Owns (findConstants sk) v f
  nbr : ∀ u ∈ g.vars, ∀ b ∈ bondsForVar sk u, 0 < bondW sk b →
    ∃ ov, otherVar sk u b = some ov ∧ (ov ∈ g.vars ∨ ov ∈ g.w.boundaryVars)

theorem owns_adjacent {C : Consts} {v f : Nat} (h : Owns C v f) :
    Owns C v ((f - C.varStarts.getD v 0 + C.varLengths.getD v 0 - 1) % C.varLengths.getD v 0 + C.varStarts.getD v 0) ∧
    Owns C v ((f - C.varStarts.getD v 0 + 1) % C.varLengths.getD v 0 + C.varStarts.getD v 0) := by
  unfold Owns at *
  have hl : 0 < C.varLengths.getD v 0 := by omega
  have h1 := Nat.mod_lt (f - C.varStarts.getD v 0 + C.varLengths.getD v 0 - 1) hl
  have h2 := Nat.mod_lt (f - C.varStarts.getD v 0 + 1) hl
  omega

/-- the part of `growOne` after the two time neighbours have been pushed -/
theorem growOne_tail {sk : Skeleton} (hsk : SkOK sk) {g : Grow} (hg : GInv sk g) {v : Nat} {flip : Option Nat}
    {w1 w2 w3 : WBM} (q2 : ∀ f, flip = some f → v < sk.nvars ∧ Owns (findConstants sk) v f)
    (q3 : ∀ x, x ∈ g.w.boundaryVars → x = v ∨ x ∈ w1.boundaryVars)
    (hw2 : WInv sk (g.vars ++ [v]) w2) (hp2 : ∀ x, x ∈ w1.boundaryVars → x ∈ w2.boundaryVars)
    (hr : (bondsForVar sk v).foldl (nbStep sk (findConstants sk) v flip) (some w2) = some w3) :
    GInv sk { w := w3, vars := g.vars ++ [v], flips := g.flips ++ [flip] } := by
  obtain ⟨n1, n2, n3⟩ := neighbours_fold hsk q2 _ w2 w3 hw2 hr
  refine ⟨n1, by simp [hg.len], ?_, ?_⟩
  · intro i u f hu hf
    simp only at hu hf
    by_cases hi : i < g.vars.length
    · rw [List.getElem?_append_left hi] at hu
      rw [List.getElem?_append_left (by rw [← hg.len]; exact hi)] at hf
      exact hg.own i u f hu hf
    · have hi' : g.vars.length ≤ i := by omega
      rw [List.getElem?_append_right hi'] at hu
      rw [List.getElem?_append_right (by rw [← hg.len]; exact hi')] at hf
      have h0 : i - g.vars.length = 0 := by
        by_contra hne
        rw [List.getElem?_eq_none (by simp; omega)] at hu; cases hu
      rw [h0] at hu
      rw [← hg.len, h0] at hf
      simp only [List.getElem?_cons_zero, Option.some.injEq] at hu hf
      subst hu
      exact q2 f hf
  · intro u hu b hb hpos
    simp only at hu ⊢
    rcases List.mem_append.1 hu with hu | hu
    · obtain ⟨ov, ho, hin⟩ := hg.nbr u hu b hb hpos
      refine ⟨ov, ho, ?_⟩
      rcases hin with hin | hin
      · exact Or.inl (List.mem_append_left _ hin)
      · rcases q3 ov hin with rfl | hin
        · exact Or.inl (List.mem_append_right _ (by simp))
        · exact Or.inr (n2 ov (hp2 ov hin))
    · rw [List.mem_singleton] at hu
      subst hu
      exact n3 b hb hpos

theorem growOne_inv {sk : Skeleton} (hsk : SkOK sk) {g : Grow} {s : RS} (hg : GInv sk g)
    (hp : (growOne sk (findConstants sk) g s).1.panic = false) :
    GInv sk (growOne sk (findConstants sk) g s).1 := by
  unfold growOne at hp ⊢
  generalize hpop : g.w.popIndex s = rs at hp ⊢
  obtain ⟨r, s'⟩ := rs
  cases r with
  | none => simp only at hp; cases hp
  | some vfw =>
    obtain ⟨v, flip, w1⟩ := vfw
    obtain ⟨q1, q2, q3⟩ := pop_inv hg.w hpop
    cases flip with
    | none =>
      simp only at hp ⊢
      split at hp
      · simp only at hp; cases hp
      · rename_i w3 hr
        exact growOne_tail hsk hg q2 q3 q1 (fun _ hx => hx) hr
    | some f =>
      simp only at hp ⊢
      obtain ⟨hvn, hvo⟩ := q2 f rfl
      obtain ⟨o1, o2⟩ := owns_adjacent hvo
      obtain ⟨a1, a2, -⟩ := push_some q1 (wt := 1) (by decide) hvn o1
      obtain ⟨b1, b2, -⟩ := push_some a1 (wt := 1) (by decide) hvn o2
      split at hp
      · simp only at hp; cases hp
      · rename_i w3 hr
        exact growOne_tail hsk hg q2 q3 b1 (fun x hx => b2 x (a2 x hx)) hr

theorem buildCluster_inv {sk : Skeleton} (hsk : SkOK sk) : ∀ (n : Nat) (g : Grow) (s : RS), GInv sk g →
    (buildCluster sk (findConstants sk) n g s).1.panic = false →
    GInv sk (buildCluster sk (findConstants sk) n g s).1
  | 0, g, s, hg, _ => hg
  | n + 1, g, s, hg, hp => by
    unfold buildCluster at hp ⊢
    by_cases he : g.w.isEmpty = true
    · rw [if_pos he]; exact hg
    · rw [if_neg he] at hp ⊢
      simp only at hp ⊢
      by_cases hf : ((growOne sk (findConstants sk) g s).1.panic ||
          (growOne sk (findConstants sk) g s).2.panicked || (growOne sk (findConstants sk) g s).2.short) = true
      · rw [if_pos hf] at hp ⊢
        exact growOne_inv hsk hg hp
      · rw [if_neg hf] at hp ⊢
        have hp1 : (growOne sk (findConstants sk) g s).1.panic = false := by
          cases hh : (growOne sk (findConstants sk) g s).1.panic with
          | false => rfl
          | true => rw [hh] at hf; simp at hf
        exact buildCluster_inv hsk n _ _ (growOne_inv hsk hg hp1) hp

/-! ## the post-processing (`assemble`) -/

theorem mem_insertSorted (x y : Nat) : ∀ l : List Nat, y ∈ insertSorted x l ↔ y = x ∨ y ∈ l
  | [] => by simp [insertSorted]
  | z :: t => by
    unfold insertSorted
    split
    · simp
    · simp only [List.mem_cons, mem_insertSorted x y t]
      constructor
      · rintro (h | h | h)
        · exact Or.inr (Or.inl h)
        · exact Or.inl h
        · exact Or.inr (Or.inr h)
      · rintro (h | h | h)
        · exact Or.inr (Or.inl h)
        · exact Or.inl h
        · exact Or.inr (Or.inr h)

theorem mem_sortNat (y : Nat) : ∀ l : List Nat, y ∈ sortNat l ↔ y ∈ l
  | [] => by simp [sortNat]
  | x :: t => by
    have ih := mem_sortNat y t
    unfold sortNat at ih ⊢
    simp only [List.foldr_cons, mem_insertSorted, ih, List.mem_cons]

theorem mem_dedupAdj (y : Nat) : ∀ l : List Nat, y ∈ dedupAdj l ↔ y ∈ l
  | [] => by simp [dedupAdj]
  | [a] => by simp [dedupAdj]
  | a :: b :: t => by
    have ih := mem_dedupAdj y (b :: t)
    unfold dedupAdj
    split
    · rename_i hab
      rw [ih, hab]; simp
    · simp only [List.mem_cons, ih]

/-- the accumulator of the fold in `assemble`: which entries of `start` are set, which positions are toggles -/
def asmStep (C : Consts) (subvars : List Nat) (acc : List Bool × List Nat) (vf : Nat × Option Nat) :
    List Bool × List Nat :=
  let sub := subvars.idxOf vf.1
  match vf.2 with
  | some fi =>
    let vstart := C.varStarts.getD vf.1 0
    if fi - vstart + 1 ≥ C.varLengths.getD vf.1 0 then
      (acc.1.set sub true, acc.2 ++ [C.constantPs.getD fi 0, C.constantPs.getD vstart 0])
    else (acc.1, acc.2 ++ [C.constantPs.getD fi 0, C.constantPs.getD (fi + 1) 0])
  | none => (acc.1.set sub true, acc.2)

theorem getD_set_true' (l : List Bool) (k q : Nat) (h : (l.set k true).getD q false = true) :
    q = k ∨ l.getD q false = true := getD_set_true l k q h

theorem asm_fold (C : Consts) (subvars : List Nat) : ∀ (l : List (Nat × Option Nat)) (acc : List Bool × List Nat),
    (∀ i, (l.foldl (asmStep C subvars) acc).1.getD i false = true →
      acc.1.getD i false = true ∨ ∃ vf ∈ l, i = subvars.idxOf vf.1) ∧
    (∀ t ∈ (l.foldl (asmStep C subvars) acc).2, t ∈ acc.2 ∨ ∃ v fi k, (v, some fi) ∈ l ∧
      t = C.constantPs.getD k 0 ∧ (k = fi ∨ k = fi + 1 ∧ fi + 1 < C.varStarts.getD v 0 + C.varLengths.getD v 0 ∨
        k = C.varStarts.getD v 0))
  | [], acc => ⟨fun i h => Or.inl h, fun t h => Or.inl h⟩
  | vf :: l, acc => by
    obtain ⟨ih1, ih2⟩ := asm_fold C subvars l (asmStep C subvars acc vf)
    simp only [List.foldl_cons]
    constructor
    · intro i hi
      rcases ih1 i hi with h | ⟨vf', hvf', e⟩
      · have : acc.1.getD i false = true ∨ i = subvars.idxOf vf.1 := by
          unfold asmStep at h
          simp only at h
          split at h
          · split at h
            · exact (getD_set_true _ _ _ h).symm
            · exact Or.inl h
          · exact (getD_set_true _ _ _ h).symm
        rcases this with h | h
        · exact Or.inl h
        · exact Or.inr ⟨vf, by simp, h⟩
      · exact Or.inr ⟨vf', List.mem_cons_of_mem _ hvf', e⟩
    · intro t ht
      rcases ih2 t ht with h | ⟨v, fi, k, hm, e, hk⟩
      · obtain ⟨v, o⟩ := vf
        unfold asmStep at h
        simp only at h
        cases o with
        | none => exact Or.inl h
        | some fi =>
          simp only at h
          split at h
          · simp only [List.mem_append, List.mem_cons, List.not_mem_nil, or_false] at h
            rcases h with h | h | h
            · exact Or.inl h
            · exact Or.inr ⟨v, fi, fi, by simp, h, Or.inl rfl⟩
            · exact Or.inr ⟨v, fi, _, by simp, h, Or.inr (Or.inr rfl)⟩
          · rename_i hlt
            simp only [List.mem_append, List.mem_cons, List.not_mem_nil, or_false] at h
            rcases h with h | h | h
            · exact Or.inl h
            · exact Or.inr ⟨v, fi, fi, by simp, h, Or.inl rfl⟩
            · exact Or.inr ⟨v, fi, fi + 1, by simp, h, Or.inr (Or.inl ⟨rfl, by omega⟩)⟩
      · exact Or.inr ⟨v, fi, k, List.mem_cons_of_mem _ hm, e, hk⟩

theorem maskOf_true (nv : Nat) : ∀ (l : List (Nat × Bool)) (m : List Bool) (v : Nat),
    getB (l.foldl (fun m vb => m.set vb.1 vb.2) m) v = true → getB m v = true ∨ (v, true) ∈ l
  | [], m, v, h => Or.inl h
  | vb :: l, m, v, h => by
    rcases maskOf_true nv l _ v h with h1 | h1
    · rw [getB_set] at h1
      split at h1
      · rename_i hc
        right
        have : vb = (v, true) := by
          obtain ⟨a, b⟩ := vb
          simp only at hc h1
          rw [hc.1, h1]
        rw [this]; simp
      · exact Or.inl h1
    · exact Or.inr (List.mem_cons_of_mem _ h1)

theorem assemble_eq (C : Consts) (g : Grow) :
    (assemble C g).subvars = dedupAdj (sortNat (g.vars ++ g.w.boundaryVars)) ∧
    (assemble C g).start = ((g.vars.zip g.flips).foldl (asmStep C (dedupAdj (sortNat (g.vars ++ g.w.boundaryVars))))
      (List.replicate (dedupAdj (sortNat (g.vars ++ g.w.boundaryVars))).length false, [])).1 ∧
    (assemble C g).toggles = removeDoubles (sortNat ((g.vars.zip g.flips).foldl
      (asmStep C (dedupAdj (sortNat (g.vars ++ g.w.boundaryVars))))
      (List.replicate (dedupAdj (sortNat (g.vars ++ g.w.boundaryVars))).length false, [])).2) ∧
    (assemble C g).panic = g.panic := ⟨rfl, rfl, rfl, rfl⟩

theorem getB_replicate_false (n v : Nat) : getB (List.replicate n false) v = false := by
  unfold getB
  rw [List.getD_eq_getElem?_getD, List.getElem?_replicate]
  split <;> rfl

theorem getD_replicate_false (n v : Nat) : (List.replicate n false).getD v false = false :=
  getB_replicate_false n v

theorem mem_zip_range {α} (l : List α) (i : Nat) (x : α) (h : l[i]? = some x) :
    (i, x) ∈ (List.range l.length).zip l := by
  have hi := lt_of_getElem?_some h
  rw [List.mem_iff_getElem?]
  refine ⟨i, ?_⟩
  rw [List.getElem?_zip_eq_some]
  exact ⟨by simp [hi], h⟩

/-- a legal operator flagged constant acts on exactly one variable -/
theorem const_vars_single {E : Ising} {o : Op} (hL : o.LegalFor (isingHam E)) (hc : o.const = true) :
    o.vars = [o.bond - E.edges.length] := by
  obtain ⟨t1, t2⟩ := (opOK_of_legalFor hL).2.2 hc
  rw [hL.2.1]
  simp only [isingHam, isingEdges, isingClusterHam, List.length_map]
  rw [if_neg (by omega), if_pos t2]

theorem absR_pos {x : Rat} (h : x ≠ 0) : 0 < absR x :=
  lt_of_le_of_ne (Rvb.absR_nonneg x) (fun e => h (Rvb.absR_eq_zero e.symm))

/-- **the region assembled from a cluster grown under the invariant is well formed** -/
theorem assemble_regionOK {E : Ising} {c : Config} (hg : Good (isingHam E) c) {g : Grow}
    (hG : GInv (Rvb.skeleton E c) g) :
    RegionOK E c ((assemble (findConstants (Rvb.skeleton E c)) g).region E.nvars) := by
  obtain ⟨e1, e2, e3, -⟩ := assemble_eq (findConstants (Rvb.skeleton E c)) g
  have hnv : (Rvb.skeleton E c).nvars = E.nvars := rfl
  -- membership in subvars
  have hsv : ∀ x, x ∈ (assemble (findConstants (Rvb.skeleton E c)) g).subvars ↔
      x ∈ g.vars ∨ x ∈ g.w.boundaryVars := by
    intro x; rw [e1, mem_dedupAdj, mem_sortNat, List.mem_append]
  -- entries of the cluster
  have hzip : ∀ v fi, (v, some fi) ∈ g.vars.zip g.flips →
      v ∈ g.vars ∧ v < E.nvars ∧ Owns (findConstants (Rvb.skeleton E c)) v fi := by
    intro v fi hm
    obtain ⟨i, hi⟩ := List.mem_iff_getElem?.1 hm
    rw [List.getElem?_zip_eq_some] at hi
    obtain ⟨h1, h2⟩ := hG.own i v fi hi.1 hi.2
    exact ⟨(List.of_mem_zip hm).1, h1, h2⟩
  -- inside at p = 0 ⇒ cluster variable
  have hmask : ∀ x, getB ((assemble (findConstants (Rvb.skeleton E c)) g).region E.nvars).mask0 x = true →
      x ∈ g.vars := by
    intro x hx
    change getB (maskOf E.nvars _ _) x = true at hx
    unfold maskOf at hx
    rcases maskOf_true E.nvars _ _ x hx with h | h
    · rw [getB_replicate_false] at h; cases h
    · obtain ⟨i, hi⟩ := List.mem_iff_getElem?.1 h
      rw [List.getElem?_zip_eq_some] at hi
      obtain ⟨hi1, hi2⟩ := hi
      simp only at hi1 hi2
      have hst : (assemble (findConstants (Rvb.skeleton E c)) g).start.getD i false = true := by
        rw [List.getD_eq_getElem?_getD, hi2]; rfl
      rw [e2] at hst
      rcases (asm_fold _ _ _ _).1 i hst with h0 | ⟨vf, hvf, hidx⟩
      · rw [getD_replicate_false] at h0; cases h0
      · have hvm : vf.1 ∈ g.vars := (List.of_mem_zip hvf).1
        have hvs : vf.1 ∈ (assemble (findConstants (Rvb.skeleton E c)) g).subvars := (hsv _).2 (Or.inl hvm)
        rw [e1] at hvs hi1
        have hlt := List.idxOf_lt_length_of_mem hvs
        rw [hidx, List.getElem?_eq_getElem hlt, List.getElem_idxOf hlt] at hi1
        injection hi1 with hi1
        rw [← hi1]; exact hvm
  -- a toggle position is a constant-operator position of a cluster variable
  have htog : ∀ p ∈ ((assemble (findConstants (Rvb.skeleton E c)) g).region E.nvars).toggles,
      ∃ v ∈ g.vars, p ∈ constPs c.slots v := by
    intro p hp
    change p ∈ (assemble (findConstants (Rvb.skeleton E c)) g).toggles at hp
    rw [e3] at hp
    have hp' := (mem_sortNat p _).1 ((removeDoubles_sublist _).subset hp)
    rcases (asm_fold _ _ _ _).2 p hp' with h0 | ⟨v, fi, k, hm, hpk, hk⟩
    · simp at h0
    · obtain ⟨hv1, hv2, hv3⟩ := hzip v fi hm
      have hown : Owns (findConstants (Rvb.skeleton E c)) v k := by
        unfold Owns at hv3 ⊢
        rcases hk with rfl | ⟨rfl, h⟩ | rfl
        · exact hv3
        · omega
        · omega
      obtain ⟨q, hq1, hq2, -⟩ := constantPs_at (Rvb.skeleton E c) (by rw [hnv]; exact hv2) hown
      have : p = q := by rw [hpk, List.getD_eq_getElem?_getD, hq1]; rfl
      rw [skeleton_cps E c hv2] at hq2
      exact ⟨v, hv1, by rw [this]; exact hq2⟩
  -- ever inside ⇒ cluster variable
  have hever : ∀ x, EverIn c ((assemble (findConstants (Rvb.skeleton E c)) g).region E.nvars) x → x ∈ g.vars := by
    intro x hx
    rcases hx with hx | ⟨p, hp, o, ho, hxo⟩
    · exact hmask x hx
    · obtain ⟨v, hv, hpv⟩ := htog p hp
      obtain ⟨o', ho', hc', hvo'⟩ := mem_constPs hpv
      rw [ho] at ho'
      injection ho' with ho'
      injection ho' with ho'
      subst ho'
      have hs := const_vars_single (hg.2 o (List.mem_of_getElem? ho)) hc'
      rw [hs] at hxo hvo'
      simp only [List.mem_singleton] at hxo hvo'
      rw [hxo, ← hvo']; exact hv
  refine ⟨?_, fun x hx => (hsv x).2 (Or.inl (hever x hx)), ?_⟩
  · intro p hp o ho
    obtain ⟨v, -, hpv⟩ := htog p hp
    obtain ⟨o', ho', hc', -⟩ := mem_constPs hpv
    rw [ho] at ho'
    injection ho' with ho'
    injection ho' with ho'
    rw [ho']; exact hc'
  · intro e he hj hin
    obtain ⟨b, hb⟩ := List.mem_iff_getElem?.1 he
    have hskb : (Rvb.skeleton E c).edges[b]? = some (e.1, e.2.1, absR e.2.2) := by
      simp only [Rvb.skeleton, List.getElem?_map, hb, Option.map_some]
    have hgd : (Rvb.skeleton E c).edges.getD b (0, 0, 0) = (e.1, e.2.1, absR e.2.2) := by
      rw [List.getD_eq_getElem?_getD, hskb]; rfl
    have hbw : 0 < bondW (Rvb.skeleton E c) b := by
      unfold bondW; rw [hgd]; exact absR_pos hj
    have hzr := mem_zip_range _ b _ hskb
    have hmemb : ∀ u, (u = e.1 ∨ u = e.2.1) → b ∈ bondsForVar (Rvb.skeleton E c) u := by
      intro u hu
      unfold bondsForVar
      rw [List.mem_flatMap]
      refine ⟨_, hzr, ?_⟩
      simp only [List.mem_append]
      rcases hu with rfl | rfl
      · left; simp
      · right; simp
    have key : ∀ u, u ∈ g.vars → (u = e.1 ∨ u = e.2.1) →
        ∀ ov, otherVar (Rvb.skeleton E c) u b = some ov →
          ov ∈ (assemble (findConstants (Rvb.skeleton E c)) g).subvars := by
      intro u hu hue ov hov
      obtain ⟨ov', ho', hin'⟩ := hG.nbr u hu b (hmemb u hue) hbw
      rw [hov] at ho'
      injection ho' with ho'
      subst ho'
      exact (hsv ov).2 hin'
    have hoth1 : otherVar (Rvb.skeleton E c) e.1 b = some e.2.1 := by
      unfold otherVar; simp only [hgd, if_true]
    have hoth2 : ∃ ov, otherVar (Rvb.skeleton E c) e.2.1 b = some ov ∧ (ov = e.1 ∨ e.2.1 = e.1) := by
      unfold otherVar
      simp only [hgd]
      by_cases h : e.2.1 = e.1
      · rw [if_pos h]; exact ⟨_, rfl, Or.inr h⟩
      · rw [if_neg h]; exact ⟨e.1, by simp, Or.inl rfl⟩
    rcases hin with hin | hin
    · have hu := hever _ hin
      exact ⟨(hsv _).2 (Or.inl hu), key e.1 hu (Or.inl rfl) _ hoth1⟩
    · have hu := hever _ hin
      obtain ⟨ov, hov, hov'⟩ := hoth2
      have hsub := key e.2.1 hu (Or.inr rfl) ov hov
      refine ⟨?_, (hsv _).2 (Or.inl hu)⟩
      rcases hov' with rfl | h
      · exact hsub
      · rw [← h]; exact (hsv _).2 (Or.inl hu)

/-! ## the whole proposal -/

theorem pickStart_owns (sk : Skeleton) (s : RS) (f : Nat)
    (h : (pickStart (findConstants sk) s).1.2 = some f) :
    (pickStart (findConstants sk) s).1.1 < sk.nvars ∧
      Owns (findConstants sk) (pickStart (findConstants sk) s).1.1 f := by
  unfold pickStart at h ⊢
  simp only at h ⊢
  split at h
  · rename_i hlt
    simp only at h
    injection h with h
    rw [if_pos hlt]
    simp only
    have := pickStart_owner sk _ hlt
    simp only at this
    rw [← h]
    exact ⟨this.1, this.2.1, this.2.2⟩
  · simp only at h; cases h

theorem winv_empty (sk : Skeleton) : WInv sk [] ({} : WBM) :=
  ⟨BC.inv_empty, BC.inv_empty, fun _ h => by simp at h, fun _ h => by simp [keysOf, BC.empty] at h,
    fun p h => by simp at h, fun v h => by simp at h⟩

/-- the boundary manager holding the start cell -/
def startW (sk : Skeleton) (s : RS) : WBM :=
  ({} : WBM).pushAdjacent (pickStart (findConstants sk) s).1.1 (pickStart (findConstants sk) s).1.2 1

theorem ginv_start (sk : Skeleton) (s : RS) : GInv sk { w := startW sk s } := by
  have hw : WInv sk [] (startW sk s) := by
    unfold startW
    cases hf : (pickStart (findConstants sk) s).1.2 with
    | none => exact (push_none (winv_empty sk) (by decide)).1
    | some f =>
      obtain ⟨h1, h2⟩ := pickStart_owns sk s f hf
      exact (push_some (winv_empty sk) (by decide) h1 h2).1
  exact ⟨hw, rfl, fun i v f hv _ => by simp at hv, fun u hu => by simp at hu⟩

/-- **`RegionOK` of the model's own proposal is derived**: whenever `proposeRegion` (the exact model of
everything `rvb_update_with_ising_weight` does before `calculate_flip_prob`) does not panic on a Good
configuration, the region it hands over is well formed — for every RNG script. -/
theorem proposeRegion_regionOK {E : Ising} {c : Config} (hg : Good (isingHam E) c) (rs : RS)
    (hp : (proposeRegionCfg E c rs).1.panic = false) :
    RegionOK E c ((proposeRegionCfg E c rs).1.region E.nvars) := by
  unfold proposeRegionCfg proposeRegion at hp ⊢
  simp only at hp ⊢
  by_cases h1 : ((pickStart (findConstants (Rvb.skeleton E c)) rs).2.panicked ||
      (pickStart (findConstants (Rvb.skeleton E c)) rs).2.short) = true
  · rw [if_pos h1] at hp
    exact absurd hp (by rw [(assemble_eq _ _).2.2.2]; simp)
  · rw [if_neg h1] at hp ⊢
    by_cases h2 : (contiguousBits (pickStart (findConstants (Rvb.skeleton E c)) rs).2).2.short = true
    · rw [if_pos h2] at hp
      exact absurd hp (by rw [(assemble_eq _ _).2.2.2]; simp)
    · rw [if_neg h2] at hp ⊢
      simp only at hp ⊢
      rw [(assemble_eq _ _).2.2.2] at hp
      exact assemble_regionOK hg (buildCluster_inv (skeleton_skOK E c) _ _ _ (ginv_start _ rs) hp)

/-! ## the kernel with the model's own proposal law: no hypothesis on the region -/

open Qmc.Dist Qmc.Kernel in
/-- `MoveOK` without the well-formedness of the region -/
structure MoveOK' (E : Ising) (N : Nat) (R : Region) (c c' : Config) : Prop where
  move : RvbMove E c c' R
  good : GoodN (isingHam E) N c
  nb : (rvbCodeMult E c R).2 = false
  nb' : (rvbCodeMult E c' R).2 = false

open Classical in
/-- the per-region transition probability without the `RegionOK` guard -/
noncomputable def rvbTP (E : Ising) (N : Nat) (eps : Rat) (R : Region) (c c' : Config) : Rat :=
  if MoveOK' E N R c c' then
    transProb (extract E c R).1 (extract E c R).2.1 (extract E c' R).2.1 eps
  else 0

/-- the model's proposal law: probability, under the finite distribution `μ` of RNG scripts, that
`proposeRegion` hands over region `R` -/
def qProp (E : Ising) (μ : List (List Nat × Rat)) : Skeleton → Region → Rat :=
  fun sk R => proposalProb sk μ (proposesRegion E.nvars R)

/-- **the RVB kernel with the model's own proposal**, no well-formedness guard on the region -/
noncomputable def rvbKP (E : Ising) (N : Nat) (eps : Rat) (μ : List (List Nat × Rat)) (Rs : List Region)
    (S : Finset Config) : Config → Config → Rat :=
  remK S (mixRate (Rvb.skeleton E) Rs (qProp E μ) (rvbTP E N eps))

theorem sum_ne_zero_exists : ∀ (l : List Rat), l.sum ≠ 0 → ∃ x ∈ l, x ≠ 0
  | [], h => by simp at h
  | a :: t, h => by
    by_cases ha : a = 0
    · rw [List.sum_cons, ha, zero_add] at h
      obtain ⟨x, hx, hx0⟩ := sum_ne_zero_exists t h
      exact ⟨x, List.mem_cons_of_mem _ hx, hx0⟩
    · exact ⟨a, by simp, ha⟩

/-- a region proposed with positive probability from a Good configuration is well formed -/
theorem regionOK_of_qProp {E : Ising} {μ : List (List Nat × Rat)} {c : Config} {R : Region}
    (hg : Good (isingHam E) c) (hq : qProp E μ (Rvb.skeleton E c) R ≠ 0) : RegionOK E c R := by
  unfold qProp proposalProb at hq
  obtain ⟨x, hx, -⟩ := sum_ne_zero_exists _ hq
  obtain ⟨sw, hsw, -⟩ := List.mem_map.1 hx
  rw [List.mem_filter] at hsw
  obtain ⟨-, hev⟩ := hsw
  unfold proposesRegion at hev
  simp only [Bool.and_eq_true, Bool.not_eq_true', beq_iff_eq] at hev
  obtain ⟨⟨⟨h1, h2⟩, h3⟩, h4⟩ := hev
  have hreg : R = (proposeRegionCfg E c (RS.ofScript sw.1)).1.region E.nvars := by
    cases R with
    | mk sv m0 tg =>
      simp only at h2 h3 h4
      unfold Proposal.region proposeRegionCfg
      subst h2 h3 h4
      rfl
  rw [hreg]
  exact proposeRegion_regionOK hg _ h1

/-- **the guard `RegionOK` is redundant under the model's proposal law**: the two kernels are equal -/
theorem rvbKP_eq_rvbK (E : Ising) (N : Nat) (eps : Rat) (μ : List (List Nat × Rat)) (Rs : List Region)
    (S : Finset Config) : rvbKP E N eps μ Rs S = rvbK E N eps (qProp E μ) Rs S := by
  have hterm : ∀ R a b, qProp E μ (Rvb.skeleton E a) R * rvbTP E N eps R a b =
      qProp E μ (Rvb.skeleton E a) R * rvbT E N eps R a b := by
    intro R a b
    by_cases hq : qProp E μ (Rvb.skeleton E a) R = 0
    · rw [hq, zero_mul, zero_mul]
    · congr 1
      unfold rvbTP rvbT
      by_cases hm : MoveOK' E N R a b
      · have hm2 : MoveOK E N R a b := ⟨hm.move, hm.good, regionOK_of_qProp hm.good.2 hq, hm.nb, hm.nb'⟩
        rw [if_pos hm, if_pos hm2]
      · have hm2 : ¬ MoveOK E N R a b := fun h => hm ⟨h.move, h.good, h.nb, h.nb'⟩
        rw [if_neg hm, if_neg hm2]
  have hmix : mixRate (Rvb.skeleton E) Rs (qProp E μ) (rvbTP E N eps) =
      mixRate (Rvb.skeleton E) Rs (qProp E μ) (rvbT E N eps) := by
    funext a b
    unfold mixRate
    congr 1
    apply List.map_congr_left
    intro R _
    exact hterm R a b
  unfold rvbKP rvbK
  rw [hmix]

open Qmc.Dist Qmc.Kernel in
/-- **`ising_timestep_invariant_rvb_cut_proposal`**: one Ising `timestep` with the RVB update enabled, the
RVB step being the kernel `rvbKP` built from the model's own proposal law and with NO hypothesis on the
proposed regions, leaves the true SSE measure invariant. -/
theorem ising_timestep_invariant_rvb_cut_proposal (E : Ising) (L : Nat) (he : EdgesOK E) (hg : 0 ≤ E.gamma)
    (β : Rat) (hβ : 0 < β) (eps : Rat) (hclose : CloseExact E eps) (μ : List (List Nat × Rat))
    (Rs : List Region) :
    Invariant (sseCutOn (isingHam E) β (cfgSpace (isingHam E) E.nvars L))
      (timestepWith (sweepKM (isingHam E) β (cfgSpace (isingHam E) E.nvars L) L)
        [restr (cfgSpace (isingHam E) E.nvars L)
          (rvbKP E E.nvars eps μ Rs (cfgSpace (isingHam E) E.nvars L))]
        (ClusterFamily.ofComponents (isingFrozen (isingEdges E).length E.nvars) (isingHam E) E.nvars L
          (isingHam_varsOK he)) E.nvars) := by
  rw [rvbKP_eq_rvbK]
  exact Qmc.Rvb.Kernel.ising_timestep_invariant_rvb_cut E L he hg β hβ eps hclose _ Rs

end Qmc.Rvb.Derive
