/-
Configurations ↔ paths: the sum over all *consistent* operator lists with a given bond word
(each operator records the current sub-state as inputs and any outputs) of the product of their
matrix elements equals the corresponding entry of the product of the bond matrices
`⟨s'|M_b|s⟩ = opEntry H b s s'`. This is the link between the sampler's configuration space
(`Config`, `propagate`) and the matrix-level statements of QmcProofs/SSE.lean.
-/
import QmcProofs.IsingSSE
import Mathlib.Data.List.Nodup
import Mathlib.Algebra.BigOperators.Group.Finset.Basic
import Mathlib.Data.Finset.Image

namespace Qmc.PathSum
open Qmc Qmc.IsingSSE

/-! ### all bit patterns of a given length -/

theorem mem_patterns {n : Nat} {l : List Bool} : l ∈ patterns n ↔ l.length = n := by
  induction n generalizing l with
  | zero => simp [patterns]
  | succ n ih =>
    simp only [patterns, List.mem_append, List.mem_map]
    constructor
    · rintro (⟨t, ht, rfl⟩ | ⟨t, ht, rfl⟩) <;> simp [ih.mp ht]
    · intro h
      cases l with
      | nil => simp at h
      | cons b t =>
        have ht : t ∈ patterns n := ih.mpr (by simpa using h)
        cases b
        · left; exact ⟨t, ht, rfl⟩
        · right; exact ⟨t, ht, rfl⟩

theorem nodup_patterns (n : Nat) : (patterns n).Nodup := by
  induction n with
  | zero => simp [patterns]
  | succ n ih =>
    simp only [patterns]
    apply List.Nodup.append
    · exact ih.map (fun a b h => by simpa using h)
    · exact ih.map (fun a b h => by simpa using h)
    · intro x hx hy
      simp only [List.mem_map] at hx hy
      obtain ⟨a, _, rfl⟩ := hx
      obtain ⟨b, _, hb⟩ := hy
      simp at hb

/-! ### `writeVars` / `readVars` -/

theorem writeVars_cons (st : List Bool) (v : Nat) (vs : List Nat) (b : Bool) (bs : List Bool) :
    writeVars st (v :: vs) (b :: bs) = writeVars (st.set v b) vs bs := rfl

theorem writeVars_nil_left (st : List Bool) (vals : List Bool) : writeVars st [] vals = st := rfl

theorem writeVars_nil_right (st : List Bool) (vars : List Nat) : writeVars st vars [] = st := by
  unfold writeVars; simp

theorem length_writeVars (st : List Bool) (vars : List Nat) (vals : List Bool) :
    (writeVars st vars vals).length = st.length := by
  induction vars generalizing st vals with
  | nil => rfl
  | cons v vs ih =>
    cases vals with
    | nil => rw [writeVars_nil_right]
    | cons b bs => rw [writeVars_cons, ih, List.length_set]

theorem getElem?_writeVars_of_not_mem (st : List Bool) (vars : List Nat) (vals : List Bool)
    (i : Nat) (hi : i ∉ vars) : (writeVars st vars vals)[i]? = st[i]? := by
  induction vars generalizing st vals with
  | nil => rfl
  | cons v vs ih =>
    cases vals with
    | nil => rw [writeVars_nil_right]
    | cons b bs =>
      rw [writeVars_cons, ih _ _ (fun h => hi (by simp [h]))]
      rw [List.getElem?_set_ne (fun e => hi (by simp [e]))]

theorem readVars_writeVars (st : List Bool) (vars : List Nat) (vals : List Bool)
    (hnd : vars.Nodup) (hr : ∀ v ∈ vars, v < st.length) (hl : vals.length = vars.length) :
    readVars (writeVars st vars vals) vars = vals := by
  induction vars generalizing st vals with
  | nil => cases vals <;> simp_all [readVars]
  | cons v vs ih =>
    cases vals with
    | nil => simp at hl
    | cons b bs =>
      have hnd' := List.nodup_cons.mp hnd
      rw [writeVars_cons]
      simp only [readVars, List.map_cons]
      congr 1
      · rw [List.getD_eq_getElem?_getD, getElem?_writeVars_of_not_mem _ _ _ _ hnd'.1,
          List.getElem?_set_self (hr v (by simp))]
        rfl
      · exact ih (st.set v b) bs hnd'.2
          (fun w hw => by rw [List.length_set]; exact hr w (by simp [hw])) (by simpa using hl)

theorem agreeOff_writeVars (s : List Bool) (vars : List Nat) (vals : List Bool) :
    agreeOff vars s (writeVars s vars vals) = true := by
  unfold agreeOff
  simp only [Bool.and_eq_true, beq_iff_eq, List.all_eq_true, List.mem_range, Bool.or_eq_true]
  refine ⟨(length_writeVars s vars vals).symm, fun i hi => ?_⟩
  by_cases hm : i ∈ vars
  · left; simpa using hm
  · right
    simp [List.getD_eq_getElem?_getD, getElem?_writeVars_of_not_mem _ _ _ _ hm]

theorem eq_writeVars_of_agreeOff {vars : List Nat} {s s' : List Bool}
    (hnd : vars.Nodup) (hr : ∀ v ∈ vars, v < s.length) (h : agreeOff vars s s' = true) :
    s' = writeVars s vars (readVars s' vars) := by
  have hlen : s.length = s'.length := by
    unfold agreeOff at h; simp only [Bool.and_eq_true, beq_iff_eq] at h; exact h.1
  have hag : agreeOff vars s' (writeVars s vars (readVars s' vars)) = true := by
    have h1 := agreeOff_writeVars s vars (readVars s' vars)
    unfold agreeOff at h h1 ⊢
    simp only [Bool.and_eq_true, beq_iff_eq, List.all_eq_true, List.mem_range, Bool.or_eq_true] at h h1 ⊢
    refine ⟨by rw [← hlen]; exact h1.1, fun i hi => ?_⟩
    have hi' : i < s.length := by rw [hlen]; exact hi
    rcases h.2 i hi' with a | a
    · left; exact a
    · rcases h1.2 i hi' with b | b
      · left; exact b
      · right; rw [← a, b]
  apply eq_of_agreeOff hag
  intro v hv
  have := readVars_writeVars s vars (readVars s' vars) hnd hr (by simp [readVars])
  unfold readVars at this
  have := (List.map_inj_left.mp this) v hv
  exact this.symm


/-! ### the two sums -/

/-- entry `⟨t| M_{b_n} ⋯ M_{b_1} |s⟩` as a sum over intermediate basis states (matrix product) -/
def pathSum (H : Ham) (N : Nat) : List Nat → List Bool → List Bool → Rat
  | [], s, t => if s = t then 1 else 0
  | b :: bs, s, t => ((patterns N).map (fun s' => opEntry H b s s' * pathSum H N bs s' t)).sum

/-- sum over all consistent operator lists with bond word `bs` leading from `s` to `t`: the
operator at each step records the current sub-state as its inputs (so `propagate` accepts it) and
may have any outputs; its factor is the matrix element `H.w b ins outs`. -/
def configSum (H : Ham) : List Nat → List Bool → List Bool → Rat
  | [], s, t => if s = t then 1 else 0
  | b :: bs, s, t =>
    ((patterns (H.vars b).length).map (fun outs =>
      H.w b (readVars s (H.vars b)) outs * configSum H bs (writeVars s (H.vars b) outs) t)).sum

/-- the operator list a choice of outputs describes, and the fact that it is consistent -/
def mkOps (H : Ham) : List Nat → List (List Bool) → List Bool → Slots
  | b :: bs, o :: os, s =>
    some { vars := H.vars b, bond := b, ins := readVars s (H.vars b), outs := o,
           tagDiag := (readVars s (H.vars b) == o), const := H.const b }
      :: mkOps H bs os (writeVars s (H.vars b) o)
  | _, _, _ => []

theorem inputsMatch_mk (s : List Bool) (vars : List Nat) (o : List Bool) (b : Nat) (c t : Bool)
    (hr : ∀ v ∈ vars, v < s.length) :
    inputsMatch s { vars := vars, bond := b, ins := readVars s vars, outs := o, tagDiag := t, const := c } = true := by
  unfold inputsMatch readVars
  simp only [List.all_eq_true]
  intro vb hvb
  have hmem := List.of_mem_zip hvb
  -- zip of a list with its map
  have : vb.2 = s.getD vb.1 false := by
    have := List.mem_iff_getElem.mp hvb
    obtain ⟨i, hi, rfl⟩ := this
    simp [List.getElem_zip]
  rw [this]
  have hlt := hr vb.1 hmem.1
  simp [List.getD_eq_getElem?_getD, List.getElem?_eq_getElem hlt]

/-- every term of `configSum` is a consistent configuration: propagating `s` through the operator
list built from any outputs succeeds -/
theorem propagate_mkOps (H : Ham) (bs : List Nat) (os : List (List Bool)) (s : List Bool)
    (hr : ∀ b ∈ bs, ∀ v ∈ H.vars b, v < s.length) :
    ∃ t, propagate s (mkOps H bs os s) = some t := by
  induction bs generalizing os s with
  | nil => exact ⟨s, by cases os <;> rfl⟩
  | cons b bs ih =>
    cases os with
    | nil => exact ⟨s, rfl⟩
    | cons o os =>
      simp only [mkOps, propagate, applyOp]
      rw [inputsMatch_mk _ _ _ _ _ _ (hr b (by simp))]
      simp only [if_true]
      exact ih os _ (fun b' hb' v hv => by
        rw [length_writeVars]; exact hr b' (by simp [hb']) v hv)

/-- **Configurations = paths.** For bonds whose variable lists are duplicate-free and in range,
the sum over consistent operator lists equals the matrix-product entry. -/
theorem configSum_eq_pathSum (H : Ham) (N : Nat) (bs : List Nat) (s t : List Bool)
    (hs : s.length = N)
    (hnd : ∀ b ∈ bs, (H.vars b).Nodup) (hr : ∀ b ∈ bs, ∀ v ∈ H.vars b, v < N) :
    configSum H bs s t = pathSum H N bs s t := by
  induction bs generalizing s with
  | nil => rfl
  | cons b bs ih =>
    simp only [configSum, pathSum]
    have hndb := hnd b (by simp)
    have hrb : ∀ v ∈ H.vars b, v < s.length := fun v hv => by rw [hs]; exact hr b (by simp) v hv
    -- rewrite both list sums as finset sums
    rw [← List.sum_toFinset _ (nodup_patterns _), ← List.sum_toFinset _ (nodup_patterns _)]
    set φ : List Bool → List Bool := fun outs => writeVars s (H.vars b) outs with hφ
    have himg : ∀ outs ∈ (patterns (H.vars b).length).toFinset, φ outs ∈ (patterns N).toFinset := by
      intro outs _
      simp only [List.mem_toFinset, mem_patterns, hφ, length_writeVars, hs]
    have hinj : Set.InjOn φ (patterns (H.vars b).length).toFinset := by
      intro o1 h1 o2 h2 heq
      have l1 : o1.length = (H.vars b).length := by simpa [mem_patterns] using h1
      have l2 : o2.length = (H.vars b).length := by simpa [mem_patterns] using h2
      have := congrArg (fun x => readVars x (H.vars b)) heq
      simp only [hφ] at this
      rwa [readVars_writeVars _ _ _ hndb hrb l1, readVars_writeVars _ _ _ hndb hrb l2] at this
    -- the path sum only sees states in the image of φ
    symm
    rw [← Finset.sum_subset (s₁ := (patterns (H.vars b).length).toFinset.image φ)
      (s₂ := (patterns N).toFinset)]
    · rw [Finset.sum_image hinj]
      symm
      refine Finset.sum_congr rfl (fun outs ho => ?_)
      have lo : outs.length = (H.vars b).length := by simpa [mem_patterns] using ho
      have hag := agreeOff_writeVars s (H.vars b) outs
      simp only [hφ, opEntry, hag, if_true, readVars_writeVars _ _ _ hndb hrb lo]
      rw [ih (writeVars s (H.vars b) outs) (by rw [length_writeVars, hs])
        (fun b' hb' => hnd b' (by simp [hb'])) (fun b' hb' => hr b' (by simp [hb']))]
    · intro x hx
      obtain ⟨outs, ho, rfl⟩ := Finset.mem_image.mp hx
      exact himg outs ho
    · intro s' hs' hnot
      unfold opEntry
      split
      · rename_i hag
        exfalso; apply hnot
        have := eq_writeVars_of_agreeOff hndb hrb hag
        refine Finset.mem_image.mpr ⟨readVars s' (H.vars b), ?_, this.symm⟩
        simp [mem_patterns, readVars]
      · simp

end Qmc.PathSum
