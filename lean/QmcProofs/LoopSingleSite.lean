/-
The walking head of the directed loop always sits on a leg that exists (`HeadOK`), and the
consequence recorded as known finding F20: a loop visit of a single-variable operator toggles
entrance and exit — both legs or none — so a diagonal single-variable operator stays diagonal.
With the cluster gate off no sub-update of `timestep` can therefore create an off-diagonal
single-site operator (`timesteps_single_site_diag`).
-/
import QmcProofs.LoopConsistent

namespace Qmc.LoopC
open Qmc

/-! ### the integer draw stays in range -/

theorem next_lt (s : RS) : s.next.1 < RS.two64 := by
  unfold RS.next
  split
  · simp [RS.two64]
  · exact Nat.mod_lt _ (by simp [RS.two64])

theorem next_flags (s : RS) :
    s.next.2.panicked = s.panicked ∧ (s.next.2.short = false → s.short = false) := by
  unfold RS.next
  split
  · exact ⟨rfl, fun h => by simp at h⟩
  · exact ⟨rfl, fun h => h⟩

theorem genRangeLoop_lt (range zone : Nat) (hr : 0 < range) (fuel : Nat) (s : RS) :
    (RS.genRangeLoop range zone fuel s).1 < range := by
  induction fuel generalizing s with
  | zero => exact hr
  | succ f ih =>
    unfold RS.genRangeLoop
    simp only
    split
    · exact hr
    · split
      · simp only
        rw [Nat.div_lt_iff_lt_mul (by simp [RS.two64])]
        have := Nat.mul_lt_mul_of_lt_of_le (next_lt s) (Nat.le_refl range) hr
        rw [Nat.mul_comm range]; exact this
      · exact ih _

/-- `gen_range(0..n)` answers below `n` (also the placeholder answers of the model when the
script is exhausted) -/
theorem genRange_lt (rs : RS) (n : Nat) (hn : n ≠ 0) : (rs.genRange n).1 < n := by
  unfold RS.genRange
  rw [if_neg hn]
  exact genRangeLoop_lt n _ (Nat.pos_of_ne_zero hn) _ _

/-! ### the head of the walk is a leg that exists -/

def HeadOK (slots : Slots) (pos : Nat) (ent : Leg) : Prop :=
  ∃ op, slots[pos]? = some (some op) ∧ ent.rel < op.vars.length

theorem loopStart_head (slots : Slots) (rs rs' : RS) (p : Nat) (leg : Leg)
    (h : loopStart slots rs = (some (p, leg), rs')) : HeadOK slots p leg := by
  unfold loopStart at h
  simp only at h
  split at h
  · cases h
  · rename_i p' b hp
    split at h
    · cases h
    · injection h with h1 _
      injection h1 with h1
      injection h1 with h1 h2
      subst h1
      obtain ⟨j, op, hj, hop, hr, _⟩ := (pickLeg_iff slots 0 _ p' b).mp hp
      have : j = p' := by omega
      subst this
      exact ⟨op, hop, by rw [← h2]; exact hr⟩

theorem moveOn_head (slots : Slots) (st st' : List Bool) (pos : Nat) (op' : Op) (ex : Leg)
    (p' r' : Nat) (h : moveOn slots st pos op' ex = (st', some (p', r'))) :
    ∃ o2, slots[p']? = some (some o2) ∧ r' < o2.vars.length := by
  unfold moveOn at h
  simp only at h
  split at h
  · split at h
    · rename_i q hq
      injection h with _ e2
      injection e2 with e2; subst e2
      obtain ⟨_, ⟨o2, ho2, hi2⟩, _⟩ := nextForVar_some hq
      exact ⟨o2, ho2, (indexOfVar_some hi2).1⟩
    · injection h with _ e2
      obtain ⟨⟨o2, ho2, hi2⟩, _⟩ := firstForVar_some e2
      exact ⟨o2, ho2, (indexOfVar_some hi2).1⟩
  · split at h
    · rename_i q hq
      injection h with _ e2
      injection e2 with e2; subst e2
      obtain ⟨_, ⟨o2, ho2, hi2⟩, _⟩ := prevForVar_some hq
      exact ⟨o2, ho2, (indexOfVar_some hi2).1⟩
    · injection h with _ e2
      obtain ⟨⟨o2, ho2, hi2⟩, _⟩ := lastForVar_some e2
      exact ⟨o2, ho2, (indexOfVar_some hi2).1⟩

theorem headOK_set {slots : Slots} {pos p' : Nat} {op o2 : Op} {r' : Nat} (x : Op)
    (hop : slots[pos]? = some (some op)) (hx : x.vars = op.vars)
    (ho2 : slots[p']? = some (some o2)) (hr : r' < o2.vars.length) :
    HeadOK (slots.set pos (some x)) p' ⟨r', true⟩ ∧ HeadOK (slots.set pos (some x)) p' ⟨r', false⟩ := by
  have hl : pos < slots.length := (List.getElem?_eq_some_iff.mp hop).1
  by_cases he : pos = p'
  · subst he
    rw [hop] at ho2
    injection ho2 with ho2; injection ho2 with ho2; subst ho2
    have : (slots.set pos (some x))[pos]? = some (some x) := by simp [hl]
    exact ⟨⟨x, this, by rw [hx]; exact hr⟩, ⟨x, this, by rw [hx]; exact hr⟩⟩
  · have : (slots.set pos (some x))[p']? = some (some o2) := by
      rw [List.getElem?_set_ne he]; exact ho2
    exact ⟨⟨o2, this, hr⟩, ⟨o2, this, hr⟩⟩

/-- a visit that continues hands on a head that exists -/
theorem loopBody_head (w : Nat → List Bool → List Bool → Rat) (init : Nat × Leg) (pos : Nat)
    (ent : Leg) (s : LoopSt) (p : Nat) (e : Leg) (h : (loopBody w init pos ent s).2 = some (p, e)) :
    HeadOK (loopBody w init pos ent s).1.slots p e := by
  rcases loopBody_cases w init pos ent s with ⟨hn, _⟩ | ⟨op, ex, hop, _, hslots, hcase⟩
  · rw [hn] at h; cases h
  · rcases hcase with ⟨_, hnone, _⟩ | ⟨_, st', p', r', hmv, _, hfin⟩
    · rw [hnone] at h; cases h
    · rcases hfin with ⟨_, hnone⟩ | ⟨_, hsome⟩
      · rw [hnone] at h; cases h
      · rw [hsome] at h
        injection h with h; injection h with e1 e2
        subst e1; subst e2
        obtain ⟨o2, ho2, hr⟩ := moveOn_head _ _ _ _ _ _ _ _ hmv
        rw [hslots]
        have := headOK_set (passThrough op ent ex) hop (passThrough_fields op ent ex).1 ho2 hr
        cases hx : ex.out <;> simp only [Bool.not_true, Bool.not_false]
        · exact this.1
        · exact this.2

/-! ### single-variable operators stay diagonal (F20) -/

/-- every stored single-variable operator is diagonal (`is_diagonal()`, i.e. the tag; for a
well-formed op the tag implies `outs = ins`) -/
def SingleSiteDiag (slots : Slots) : Prop :=
  ∀ o, some o ∈ slots → o.vars.length = 1 → o.tagDiag = true

/-- a visit of a diagonal single-variable op toggles both legs or none -/
theorem passThrough_single_diag (op : Op) (hwf : op.WF) (h1 : op.vars.length = 1)
    (ht : op.tagDiag = true) (ent ex : Leg) (he : ent.rel < 1) (hx : ex.rel < 1) :
    (passThrough op ent ex).tagDiag = true := by
  obtain ⟨l1, l2, _, l4⟩ := hwf
  have ho := l4 ht
  rw [h1] at l1
  obtain ⟨r1, b1⟩ := ent
  obtain ⟨r2, b2⟩ := ex
  simp only at he hx
  have e1 : r1 = 0 := by omega
  have e2 : r2 = 0 := by omega
  subst e1; subst e2
  match hi : op.ins, l1 with
  | [a], _ =>
    cases b1 <;> cases b2 <;> simp [passThrough, Op.withInOut, flipIO, ho, hi]

theorem loopBody_single (w : Nat → List Bool → List Bool → Rat) (init : Nat × Leg) (pos : Nat)
    (ent : Leg) (s : LoopSt) (hwf : WFSlots s.slots) (hd : SingleSiteDiag s.slots)
    (hh : HeadOK s.slots pos ent) : SingleSiteDiag (loopBody w init pos ent s).1.slots := by
  rcases loopBody_slots w init pos ent s with heq | ⟨op, ex, hop, hrel, _, heq⟩
  · rw [heq]; exact hd
  · rw [heq]
    obtain ⟨op0, hop0, hent⟩ := hh
    rw [hop] at hop0
    injection hop0 with hop0; injection hop0 with hop0; subst hop0
    have hmem : some op ∈ s.slots := List.mem_of_getElem? hop
    intro o ho hlen
    rcases mem_set_some ho with rfl | ho
    · have hl : op.vars.length = 1 := by rw [← (passThrough_fields op ent ex).1]; exact hlen
      exact passThrough_single_diag op (hwf op hmem) hl (hd op hmem hl) ent ex
        (by rw [← hl]; exact hent) (by rw [← hl]; exact hrel)
    · exact hd o ho hlen

theorem wfSlots_loopBody (w : Nat → List Bool → List Bool → Rat) (init : Nat × Leg) (pos : Nat)
    (ent : Leg) (s : LoopSt) (hwf : WFSlots s.slots) : WFSlots (loopBody w init pos ent s).1.slots := by
  rcases loopBody_slots w init pos ent s with heq | ⟨op, ex, hop, _, _, heq⟩
  · rw [heq]; exact hwf
  · rw [heq]; exact wf_set_passThrough ent ex hwf hop

theorem loopIter_single (w : Nat → List Bool → List Bool → Rat) (init : Nat × Leg) (fuel pos : Nat)
    (ent : Leg) (s : LoopSt) (hwf : WFSlots s.slots) (hd : SingleSiteDiag s.slots)
    (hh : HeadOK s.slots pos ent) : SingleSiteDiag (loopIter w init fuel pos ent s).slots := by
  induction fuel generalizing pos ent s with
  | zero => exact hd
  | succ f ih =>
    have h1 := loopBody_single w init pos ent s hwf hd hh
    have h2 := wfSlots_loopBody w init pos ent s hwf
    have h3 := loopBody_head w init pos ent s
    unfold loopIter
    split
    · rename_i s' heq; rw [heq] at h1; exact h1
    · rename_i s' p e heq
      rw [heq] at h1 h2 h3
      exact ih p e s' h2 h1 (h3 p e rfl)

/-- the loop update never turns a diagonal single-variable operator off-diagonal -/
theorem loopUpdate_single (w : Nat → List Bool → List Bool → Rat) (cfg : Config) (rs : RS)
    (hwf : WFSlots cfg.slots) (hd : SingleSiteDiag cfg.slots) :
    SingleSiteDiag (loopUpdate w cfg rs).1.slots := by
  unfold loopUpdate
  split
  · exact hd
  · split
    · exact hd
    · rename_i p leg rs' heq
      exact loopIter_single w (p, leg) _ p leg _ hwf hd (loopStart_head _ _ _ _ _ heq)

theorem loopIter_wf (w : Nat → List Bool → List Bool → Rat) (init : Nat × Leg) (fuel pos : Nat)
    (ent : Leg) (s : LoopSt) (hwf : WFSlots s.slots) : WFSlots (loopIter w init fuel pos ent s).slots := by
  induction fuel generalizing pos ent s with
  | zero => exact hwf
  | succ f ih =>
    have h2 := wfSlots_loopBody w init pos ent s hwf
    unfold loopIter
    split
    · rename_i s' heq; rw [heq] at h2; exact h2
    · rename_i s' p e heq; rw [heq] at h2; exact ih p e s' h2

theorem loopUpdate_wf (w : Nat → List Bool → List Bool → Rat) (cfg : Config) (rs : RS)
    (hwf : WFSlots cfg.slots) : WFSlots (loopUpdate w cfg rs).1.slots := by
  unfold loopUpdate
  split
  · exact hwf
  · split
    · exact hwf
    · exact loopIter_wf w _ _ _ _ _ hwf

/-! ### any number of timesteps with the gate off -/

/-- `timesteps`: a sequence of `timestep` calls (one β per step), threading configuration and RNG -/
def timesteps (K : Kernels) (q : GQmc) : List Rat → Config → RS → Config × RS
  | [], cfg, rs => (cfg, rs)
  | β :: t, cfg, rs =>
    let r := timestep K q β cfg rs
    timesteps K q t r.1 r.2

/-- the invariant of F20: well-formed ops, every single-variable op diagonal -/
def DiagInv (cfg : Config) : Prop := WFSlots cfg.slots ∧ SingleSiteDiag cfg.slots

theorem loopUpdate_diagInv (w : Nat → List Bool → List Bool → Rat) (cfg : Config) (rs : RS)
    (h : DiagInv cfg) : DiagInv (loopUpdate w cfg rs).1 :=
  ⟨loopUpdate_wf w cfg rs h.1, loopUpdate_single w cfg rs h.1 h.2⟩

theorem timestep_single (K : Kernels) (q : GQmc) (hgate : shouldDoClusterUpdate q = false)
    (hdiag : ∀ β cfg rs, DiagInv cfg → DiagInv (K.diag q β cfg rs).1)
    (β : Rat) (cfg : Config) (rs : RS) (h : DiagInv cfg) : DiagInv (timestep K q β cfg rs).1 := by
  unfold timestep
  simp only [hgate, Bool.false_eq_true, if_false]
  have h1 := hdiag β cfg rs h
  unfold DiagInv
  rw [flipFreeBits_slots]
  split
  · exact loopUpdate_diagInv _ _ _ h1
  · exact h1

theorem timesteps_single (K : Kernels) (q : GQmc) (hgate : shouldDoClusterUpdate q = false)
    (hdiag : ∀ β cfg rs, DiagInv cfg → DiagInv (K.diag q β cfg rs).1)
    (βs : List Rat) (cfg : Config) (rs : RS) (h : DiagInv cfg) :
    DiagInv (timesteps K q βs cfg rs).1 := by
  induction βs generalizing cfg rs with
  | nil => exact h
  | cons β t ih =>
    simp only [timesteps]
    exact ih _ _ (timestep_single K q hgate hdiag β cfg rs h)

end Qmc.LoopC
