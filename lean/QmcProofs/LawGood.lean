import QmcProofs.LawSweep
import QmcProofs.LawHeatBath
import QmcProofs.KernelInvarianceCut

/-!
# Law = kernel on the support of the SSE measure (`Good` configurations)

`Good H c = Consistent c ∧ Legal H c` (`QmcProofs/Good.lean`) is the support of the SSE measure; a-kernel's
`QmcProofs/KernelInvarianceCut*.lean` proves invariance of `configWeight · 1_Good` under the kernels.  Here:

* `good_diagLegal` — `GoodN H N c → DiagLegal H c` (for `HamWF H N`): the legality needed for law = kernel
  holds on the support of the measure;
* `goodSpace H N L` — the Good configurations of `cfgSpace H N L`; `goodSpace_slotClosed`: the diagonal
  proposals leave it only by inserting an operator of weight 0 (`SlotClosed`);
* `law_metropolisSweep_good`, `law_heatBathSweep_good` — law = kernel on `goodSpace`;
* `invariant_cut_of_good` — invariance of `sseOn` on `goodSpace` ⇒ invariance of `sseCutOn` on `cfgSpace`;
* `metropolisSweep_law_invariant_cut`, `heatBathSweep_law_invariant_cut` — **the idealised law of the
  executable sweep leaves the true SSE measure `configWeight · 1_Good` invariant on `cfgSpace H N L`**.
-/

open Finset
namespace Qmc.Law
open Qmc Qmc.Kernel Qmc.Dist

/-- **`Good` ⇒ `DiagLegal`**: on the support of the SSE measure (consistent world lines, legal operators —
`QmcProofs/Good.lean`) the legality needed for law = kernel holds -/
theorem good_diagLegal {H : Ham} {N : Nat} {c : Config} (hH : HamWF H N) (hg : GoodN H N c) :
    DiagLegal H c := by
  refine ⟨fun b hb v hv => ?_, fun p hp => ?_, ?_⟩
  · rw [hg.1]; exact (hH b hb).2 v hv
  · rw [opLegalAt_iff]
    intro o ho hd
    have hs : c.slots[p]? = some (some o) := by rw [getElem?_getD hp, ho]
    exact ⟨(hg.2.2 o (List.mem_of_getElem? hs)).1, good_diag_is_canon hg.2 hs hd⟩
  · exact rollState_eq_propagate _ _ _ (fun o ho => (hg.2.2 o ho).2.2.2.2.1) hg.2.1

/-- **the Good configurations** of the configuration space: the support of the SSE measure -/
noncomputable def goodSpace (H : Ham) (N L : Nat) : Finset Config := (cfgSpace H N L).filter (fun c => GoodN H N c)

theorem mem_goodSpace {H : Ham} {N L : Nat} {c : Config} :
    c ∈ goodSpace H N L ↔ c ∈ cfgSpace H N L ∧ GoodN H N c := by
  unfold goodSpace; rw [Finset.mem_filter]

/-- the diagonal proposals leave the Good configurations only by inserting an operator of weight 0 -/
theorem goodSpace_slotClosed (H : Ham) (N L : Nat) (hH : HamWF H N) (hw : ∀ b i, 0 ≤ H.w b i i) :
    SlotClosed H (goodSpace H N L) := by
  intro p b hb c hc
  rw [mem_goodSpace] at hc
  by_cases hm : slotFlip H p b c = c
  · left; rw [hm, mem_goodSpace]; exact hc
  · rcases slotFlip_good hH hw hc.2 p b hb hm with h | h
    · left; rw [mem_goodSpace]; exact ⟨cfgSpace_slotFlip H N L p b hb c hc.1, h⟩
    · right; exact h

theorem goodSpace_legal (H : Ham) (N L : Nat) (hH : HamWF H N) :
    ∀ c ∈ goodSpace H N L, DiagLegal H c ∧ c.slots.length = L := by
  intro c hc
  rw [mem_goodSpace] at hc
  exact ⟨good_diagLegal hH hc.2, (mem_cfgSpace.mp hc.1).2.1⟩

/-- **law of the Metropolis sweep = `sweepKM` on the support of the SSE measure** -/
theorem law_metropolisSweep_good (H : Ham) (β : Rat) (hβ : 0 ≤ β) (hw : ∀ b i, 0 ≤ H.w b i i)
    (hNb : 0 < H.nbonds) (N L : Nat) (hH : HamWF H N) :
    lawK (goodSpace H N L) (metropolisSweepT H β L) = sweepKM H β (goodSpace H N L) L :=
  law_metropolisSweep H β hβ hw hNb _ L (goodSpace_slotClosed H N L hH hw) (goodSpace_legal H N L hH)

theorem law_heatBathSweep_good (H : Ham) (β : Rat) (hβ : 0 ≤ β) (hW : 0 < (makeBondWeights H).sum)
    (hw : ∀ b i, 0 ≤ H.w b i i) (N L : Nat) (hH : HamWF H N) :
    lawK (goodSpace H N L) (heatBathSweepT H (makeBondWeights H) β L) =
      sweepKHB H (makeBondWeights H) β (goodSpace H N L) L :=
  law_heatBathSweep H _ β hβ hW hw (makeBondWeights_valid H) (makeBondWeights_length H) _ L
    (goodSpace_slotClosed H N L hH hw) (goodSpace_legal H N L hH)

/-- **from invariance on the Good configurations to invariance of the true SSE measure
`configWeight · 1_Good` on the whole configuration space**, for any program that from a Good
configuration reaches only Good configurations with positive idealised probability -/
theorem invariant_cut_of_good (H : Ham) (β : Rat) (N L : Nat) (T : Config → PT Config)
    (hzero : ∀ a ∈ goodSpace H N L, ∀ b, b ∉ goodSpace H N L → PT.law (T a) b = 0)
    (hinv : Invariant (sseOn H β (goodSpace H N L)) (lawK (goodSpace H N L) T)) :
    Invariant (sseCutOn H β (cfgSpace H N L)) (lawK (cfgSpace H N L) T) := by
  intro b
  have hGN : ∀ a ∈ cfgSpace H N L, (Good H a ↔ GoodN H N a) := by
    intro a ha
    unfold GoodN
    rw [(mem_cfgSpace.mp ha).1]; simp
  have h1 : ∑ a : (cfgSpace H N L : Finset Config), sseCutOn H β (cfgSpace H N L) a *
      lawK (cfgSpace H N L) T a b =
      ∑ a ∈ goodSpace H N L, configWeight H β a * PT.law (T a) b.1 := by
    have e := Finset.sum_coe_sort (cfgSpace H N L)
      (fun a => (if Good H a then configWeight H β a else 0) * PT.law (T a) b.1)
    simp only [sseCutOn_apply, lawK]
    rw [e]
    unfold goodSpace
    rw [Finset.sum_filter]
    refine Finset.sum_congr rfl (fun a ha => ?_)
    by_cases hg : Good H a
    · rw [if_pos hg, if_pos ((hGN a ha).mp hg)]
    · rw [if_neg hg, if_neg (fun h => hg ((hGN a ha).mpr h)), zero_mul]
  rw [h1]
  by_cases hb : b.1 ∈ goodSpace H N L
  · have := hinv ⟨b.1, hb⟩
    rw [← Finset.sum_coe_sort (goodSpace H N L) (fun a => configWeight H β a * PT.law (T a) b.1)]
    have hgb : Good H b.1 := (hGN b.1 b.2).mpr (mem_goodSpace.mp hb).2
    rw [sseCutOn_apply, if_pos hgb]
    exact this
  · have hgb : ¬ Good H b.1 := fun h => hb (mem_goodSpace.mpr ⟨b.2, (hGN b.1 b.2).mp h⟩)
    rw [sseCutOn_apply, if_neg hgb]
    refine Finset.sum_eq_zero (fun a ha => ?_)
    rw [hzero a ha b.1 hb, mul_zero]


/-! ### the sweeps on the support of the measure -/

theorem metropolisSweep_zero_off_good (H : Ham) (β : Rat) (hw : ∀ b i, 0 ≤ H.w b i i) (N L : Nat)
    (hH : HamWF H N) : ∀ a ∈ goodSpace H N L, ∀ b, b ∉ goodSpace H N L →
      PT.law (metropolisSweepT H β L a) b = 0 := by
  intro a ha b hb
  exact law_sweep_zero_off (metropolisSlotT H β L) (metropolisSlotT_leafOK H β L) _ L
    (fun q hq a ha => slotCfgT_metropolis_closed H β L _ (goodSpace_slotClosed H N L hH hw) a ha
      (goodSpace_legal H N L hH a ha).1 q (by rw [(goodSpace_legal H N L hH a ha).2]; exact hq))
    (fun c hc => ⟨(goodSpace_legal H N L hH c hc).1.2.2, (goodSpace_legal H N L hH c hc).2⟩) a ha b hb

theorem heatBathSweep_zero_off_good (H : Ham) (bw : BW) (β : Rat) (hw : ∀ b i, 0 ≤ H.w b i i)
    (hlen : bw.length = H.nbonds) (N L : Nat)
    (hH : HamWF H N) : ∀ a ∈ goodSpace H N L, ∀ b, b ∉ goodSpace H N L →
      PT.law (heatBathSweepT H bw β L a) b = 0 := by
  intro a ha b hb
  exact law_sweep_zero_off (heatBathSlotT H bw β L) (heatBathSlotT_leafOK H bw β L) _ L
    (fun q hq a ha => slotCfgT_heatBath_closed H bw β L hlen _ (goodSpace_slotClosed H N L hH hw) a ha
      (goodSpace_legal H N L hH a ha).1 q (by rw [(goodSpace_legal H N L hH a ha).2]; exact hq))
    (fun c hc => ⟨(goodSpace_legal H N L hH c hc).1.2.2, (goodSpace_legal H N L hH c hc).2⟩) a ha b hb

/-- the idealised law of the executable Metropolis sweep leaves the SSE weight invariant on the Good
configurations … -/
theorem metropolisSweep_law_invariant_good (H : Ham) (β : Rat) (hβ : 0 < β) (hw : ∀ b i, 0 ≤ H.w b i i)
    (hNb : 0 < H.nbonds) (N L : Nat) (hH : HamWF H N) :
    Invariant (sseOn H β (goodSpace H N L)) (lawK (goodSpace H N L) (metropolisSweepT H β L)) :=
  metropolisSweep_law_invariant_on H β hβ hw hNb _ L (goodSpace_slotClosed H N L hH hw)
    (goodSpace_legal H N L hH)

/-- … **and the true SSE measure `configWeight · 1_Good` invariant on the whole configuration space**
(the statement of `Kernel.sweep_invariant_cut`, for the law of the executable model instead of `sweepKM`) -/
theorem metropolisSweep_law_invariant_cut (H : Ham) (β : Rat) (hβ : 0 < β) (hw : ∀ b i, 0 ≤ H.w b i i)
    (hNb : 0 < H.nbonds) (N L : Nat) (hH : HamWF H N) :
    Invariant (sseCutOn H β (cfgSpace H N L)) (lawK (cfgSpace H N L) (metropolisSweepT H β L)) :=
  invariant_cut_of_good H β N L _ (metropolisSweep_zero_off_good H β hw N L hH)
    (metropolisSweep_law_invariant_good H β hβ hw hNb N L hH)

theorem heatBathSweep_law_invariant_good (H : Ham) (β : Rat) (hβ : 0 < β)
    (hW : 0 < (makeBondWeights H).sum) (hw : ∀ b i, 0 ≤ H.w b i i) (N L : Nat) (hH : HamWF H N) :
    Invariant (sseOn H β (goodSpace H N L))
      (lawK (goodSpace H N L) (heatBathSweepT H (makeBondWeights H) β L)) :=
  heatBathSweep_law_invariant_on H _ β hβ hW hw (makeBondWeights_valid H) (makeBondWeights_length H) _ L
    (goodSpace_slotClosed H N L hH hw) (goodSpace_legal H N L hH)

theorem heatBathSweep_law_invariant_cut (H : Ham) (β : Rat) (hβ : 0 < β)
    (hW : 0 < (makeBondWeights H).sum) (hw : ∀ b i, 0 ≤ H.w b i i) (N L : Nat) (hH : HamWF H N) :
    Invariant (sseCutOn H β (cfgSpace H N L))
      (lawK (cfgSpace H N L) (heatBathSweepT H (makeBondWeights H) β L)) :=
  invariant_cut_of_good H β N L _
    (heatBathSweep_zero_off_good H _ β hw (makeBondWeights_length H) N L hH)
    (heatBathSweep_law_invariant_good H β hβ hW hw N L hH)

end Qmc.Law
