/-
Lemmas about the regenerated field maps (`QmcModel/Generated/Fields.lean`) and the models of
`QmcModel/Snapshot.lean`.  Used by `QmcProps/C14.lean` and `QmcProps/C13.lean`.
Every proof about a generated definition is generic (`cases x; simp [..]`): it is re-run against whatever the
extractor produced from the current sources and fails as soon as one field is not carried over verbatim.
-/
import QmcModel.Snapshot
import Mathlib.Tactic.Common

namespace Qmc.Snap
open Qmc.Gen

/-! ## Ising sampler: snapshot / restore / serde / clone -/
section Ising
variable {F64 R M BW : Type}

theorem ising_restore_snapshot (g : QmcIsingGraph F64 R M BW) (sg : SerializeQmcGraph F64 M BW) (r : R)
    (hv : g.vars = List.range g.vars.length) (h : g.snapshot = some (sg, r)) : sg.restore r = g := by
  cases g with
  | mk edges transverse longitudinal state cutoff op_manager teo rng vars rvb cb trs rcc bw =>
    cases rng with
    | none => simp [QmcIsingGraph.snapshot] at h
    | some r0 =>
      simp only [QmcIsingGraph.snapshot, Option.some.injEq, Prod.mk.injEq] at h
      obtain ⟨h1, h2⟩ := h
      subst h1 h2
      simp only [SerializeQmcGraph.restore]
      simp only at hv
      rw [← hv]

theorem ising_snapshot_isSome (g : QmcIsingGraph F64 R M BW) : g.snapshot.isSome = g.rng.isSome := by
  cases g with
  | mk edges transverse longitudinal state cutoff op_manager teo rng vars rvb cb trs rcc bw =>
    cases rng <;> simp [QmcIsingGraph.snapshot]

theorem ising_snapshot_restore (sg : SerializeQmcGraph F64 M BW) (r : R) :
    (sg.restore r).snapshot = some (sg, r) := by
  cases sg
  simp [SerializeQmcGraph.restore, QmcIsingGraph.snapshot]

theorem ising_restore_wf (sg : SerializeQmcGraph F64 M BW) (r : R) :
    (sg.restore r).vars = List.range (sg.restore r).vars.length ∧ (sg.restore r).rng = some r := by
  cases sg
  simp [SerializeQmcGraph.restore]

theorem ising_serde_roundtrip (rtR : R → R) (rtM : M → M) (rtB : BW → BW)
    (hR : ∀ x, rtR x = x) (hM : ∀ x, rtM x = x) (hB : ∀ x, rtB x = x) (g : QmcIsingGraph F64 R M BW) :
    g.serdeRT rtR rtM rtB = g := by
  cases g
  simp [QmcIsingGraph.serdeRT, hR, hM, hB]

theorem serialize_graph_serde_roundtrip (rtM : M → M) (rtB : BW → BW)
    (hM : ∀ x, rtM x = x) (hB : ∀ x, rtB x = x) (sg : SerializeQmcGraph F64 M BW) :
    sg.serdeRT rtM rtB = sg := by
  cases sg
  simp [SerializeQmcGraph.serdeRT, hM, hB]

theorem ising_clone_eq (g : QmcIsingGraph F64 R M BW) : g.clone = g := by
  cases g
  rfl

end Ising

section QmcClone
variable {F64 R M I BW : Type}

theorem qmc_clone_eq (q : Gen.Qmc F64 R M I BW) : q.clone = q := by
  cases q
  rfl

theorem qmc_serde_roundtrip (rtR : R → R) (rtM : M → M) (rtI : I → I) (rtB : BW → BW)
    (hR : ∀ x, rtR x = x) (hM : ∀ x, rtM x = x) (hI : ∀ x, rtI x = x) (hB : ∀ x, rtB x = x)
    (q : Gen.Qmc F64 R M I BW) : q.serdeRT rtR rtM rtI rtB = q := by
  cases q
  simp [Gen.Qmc.serdeRT, hR, hM, hI, hB]

end QmcClone

/-! ## Leaves: every serde struct below the samplers round-trips to itself, except `Allocator` -/
section Leaves
variable {F64 T O LV A N P V S IT : Type}

theorem bondWeights_serde (x : BondWeights F64) : x.serdeRT = x := by cases x; rfl

theorem bondContainer_serde (rt : T → T) (h : ∀ x, rt x = x) (x : BondContainer F64 T) : x.serdeRT rt = x := by
  cases x; simp [BondContainer.serdeRT, h]

theorem pRel_serde (x : PRel) : x.serdeRT = x := by cases x; rfl

theorem basicOp_serde (rtV : V → V) (rtS : S → S) (hV : ∀ x, rtV x = x) (hS : ∀ x, rtS x = x)
    (x : BasicOp V S) : x.serdeRT rtV rtS = x := by
  cases x; simp [BasicOp.serdeRT, hV, hS]

theorem interaction_serde (rt : IT → IT) (h : ∀ x, rt x = x) (x : Interaction F64 IT) : x.serdeRT rt = x := by
  cases x; simp [Interaction.serdeRT, h]

theorem node_serde (rtO : O → O) (rtL : LV → LV) (hO : ∀ x, rtO x = x) (hL : ∀ x, rtL x = x)
    (x : FastOpNodeTemplate O LV) : x.serdeRT rtO rtL = x := by
  cases x; simp [FastOpNodeTemplate.serdeRT, hO, hL]

/-- the op container round-trips to itself up to its allocator -/
theorem fastOps_serde (rtA : A → A) (rtN : N → N) (rtP : P → P) (hN : ∀ x, rtN x = x) (hP : ∀ x, rtP x = x)
    (x : FastOpsTemplate A N P) : x.serdeRT rtA rtN rtP = { x with alloc := rtA x.alloc } := by
  cases x; simp [FastOpsTemplate.serdeRT, hN, hP]

theorem fastOps_serde_id (rtA : A → A) (rtN : N → N) (rtP : P → P) (hA : ∀ x, rtA x = x) (hN : ∀ x, rtN x = x)
    (hP : ∀ x, rtP x = x) (x : FastOpsTemplate A N P) : x.serdeRT rtA rtN rtP = x := by
  rw [fastOps_serde rtA rtN rtP hN hP, hA]

end Leaves

/-! ## Pool -/
section Pool
variable {T : Type} [Inhabited T]

theorem alloc_snapshot_counts (a : Allocator T) : counts a.serdeRT = counts a := by
  cases a; simp [Allocator.serdeRT, counts]

theorem alloc_serde_clean (a : Allocator T) (h : ∀ t ∈ a.instances, t = default) : a.serdeRT = a := by
  cases a with
  | mk inst gm =>
    simp only [Allocator.serdeRT, Allocator.mk.injEq, and_true]
    simp only at h
    exact (List.eq_replicate_iff.mpr ⟨rfl, h⟩).symm

theorem counts_get (a : Allocator T) :
    (poolGet a).map (fun p => counts p.2) =
      (if (counts a).1 > 0 then some ((counts a).1 - 1, (counts a).2)
       else if (counts a).2 then some (0, (counts a).2) else none) := by
  cases a with
  | mk inst gm =>
    rcases List.eq_nil_or_concat inst with h | ⟨l, t, h⟩
    · subst h; cases gm <;> simp [poolGet, counts]
    · subst h; simp [poolGet, counts]

omit [Inhabited T] in
theorem counts_ret (reset : T → T) (a : Allocator T) (t : T) :
    counts (poolRet reset a t) = ((counts a).1 + 1, (counts a).2) := by
  cases a; simp [poolRet, counts]

theorem pool_run_counts_only (reset : T → T) (evs : List Ev) (a : Allocator T) (held : List T) :
    (runPool reset evs (a, held)).map (fun s => counts s.1) = runCounts evs (counts a) := by
  induction evs generalizing a held with
  | nil => simp [runPool, runCounts]
  | cons e evs ih =>
    cases e with
    | get =>
      have hg := counts_get a
      cases hga : poolGet a with
      | none =>
        rw [hga] at hg
        simp only [Option.map_none] at hg
        simp only [runPool, hga, Option.map_none]
        rcases hc : counts a with ⟨n, gm⟩
        rw [hc] at hg
        dsimp only at hg
        simp only [runCounts]
        split at hg
        · simp at hg
        · split at hg
          · simp at hg
          · simp [*]
      | some p =>
        obtain ⟨t, a'⟩ := p
        rw [hga] at hg
        simp only [Option.map_some] at hg
        simp only [runPool, hga]
        rw [ih]
        rcases hc : counts a with ⟨n, gm⟩
        rw [hc] at hg
        dsimp only at hg
        simp only [runCounts]
        split at hg
        · simp only [Option.some.injEq] at hg; simp [*]
        · split at hg
          · simp only [Option.some.injEq] at hg; simp [*]
          · simp at hg
    | ret =>
      cases held with
      | nil =>
        simp only [runPool]
        rw [ih, counts_ret]
        rcases hc : counts a with ⟨n, gm⟩
        simp [runCounts]
      | cons t held' =>
        simp only [runPool]
        rw [ih, counts_ret]
        rcases hc : counts a with ⟨n, gm⟩
        simp [runCounts]

end Pool

/-! ## Tempering container: snapshot / restore -/
section TemperRestore
variable {F64 R1 R2 Q SQ : Type}

theorem optMapM_restore (snapG : Q → Option (SQ × R2)) (restoreG : SQ → R2 → Q)
    (l : List (Q × F64)) (hG : ∀ p ∈ l, ∀ sg r, snapG p.1 = some (sg, r) → restoreG sg r = p.1)
    (pairs : List ((SQ × F64) × R2))
    (h : optMapM (fun (p : Q × F64) => (snapG p.1).map (fun sr => ((sr.1, p.2), sr.2))) l = some pairs) :
    pairs.map (fun p => (restoreG p.1.1 p.2, p.1.2)) = l := by
  induction l generalizing pairs with
  | nil =>
    simp only [optMapM, Option.some.injEq] at h
    subst h; rfl
  | cons p l ih =>
    simp only [optMapM] at h
    cases hs : snapG p.1 with
    | none => simp [hs] at h
    | some sr =>
      cases hm : optMapM (fun (p : Q × F64) => (snapG p.1).map (fun sr => ((sr.1, p.2), sr.2))) l with
      | none => simp [hs, hm] at h
      | some bs =>
        simp only [hs, hm, Option.map_some, Option.some.injEq] at h
        subst h
        simp only [List.map_cons, ih (fun q hq => hG q (List.mem_cons_of_mem _ hq)) bs hm, List.cons.injEq, and_true]
        obtain ⟨sg, r⟩ := sr
        rw [hG p List.mem_cons_self sg r hs]

theorem tempering_restore_snapshot (snapG : Q → Option (SQ × R2)) (restoreG : SQ → R2 → Q)
    (tc : TemperingContainer F64 R1 Q)
    (hG : ∀ p ∈ tc.graphs, ∀ sg r, snapG p.1 = some (sg, r) → restoreG sg r = p.1) (st : SerializeTemperingContainer F64 SQ) (r : R1) (rs : List R2)
    (h : tc.snapshot snapG = some (st, r, rs)) :
    st.restore restoreG r rs = resetCaches tc := by
  unfold TemperingContainer.snapshot at h
  split at h
  · rename_i pairs rng hp hr
    simp only [Option.some.injEq, Prod.mk.injEq] at h
    obtain ⟨h1, h2, h3⟩ := h
    subst h1 h2 h3
    cases tc with
    | mk graphs rng0 ea eb ts =>
      simp only at hp hr
      subst hr
      simp only [SerializeTemperingContainer.restore, resetCaches, List.zip_unzip]
      rw [optMapM_restore snapG restoreG graphs hG pairs hp]
  · simp at h

end TemperRestore

/-! ## Tempering container: the reset caches are recomputed -/
section Cache
variable {F64 R Q U : Type}

theorem ensure_of_valid (ops : Ops F64 R Q U) (tc : TC F64 R Q) (h : CacheValid ops tc) :
    ensureCaches ops tc = makeHamEqualities ops tc := by
  cases tc with
  | mk graphs rng ea eb ts =>
    obtain ⟨ha, hb⟩ := h
    simp only at ha hb
    rcases ha with ha | ha <;> rcases hb with hb | hb <;> subst ha <;> subst hb <;>
      simp [ensureCaches, makeHamEqualities]

theorem ensure_reset (ops : Ops F64 R Q U) (tc : TC F64 R Q) :
    ensureCaches ops (resetCaches tc) = makeHamEqualities ops tc := by
  cases tc; simp [ensureCaches, makeHamEqualities, resetCaches]

theorem body_reset_irrelevant (ops : Ops F64 R Q U) (setAll : Nat → List (Q × F64) → List (Q × F64))
    (swA swB : R → List (Q × F64) → List Bool → List (Q × F64) × R × Nat)
    (tc : TC F64 R Q) (h : CacheValid ops tc) :
    temperingBody ops setAll swA swB (resetCaches tc) = temperingBody ops setAll swA swB tc := by
  simp only [temperingBody, ensure_reset, ensure_of_valid ops tc h]

theorem resetCaches_graphs (tc : TC F64 R Q) : (resetCaches tc).graphs = tc.graphs := rfl

theorem resetCaches_idem (tc : TC F64 R Q) : resetCaches (resetCaches tc) = resetCaches tc := rfl

theorem cacheValid_reset (ops : Ops F64 R Q U) (tc : TC F64 R Q) : CacheValid ops (resetCaches tc) :=
  ⟨Or.inl rfl, Or.inl rfl⟩

theorem step_reset_irrelevant (ops : Ops F64 R Q U) (tc : TC F64 R Q) (h : CacheValid ops tc) :
    resetCaches (temperingStep ops (resetCaches tc)) = resetCaches (temperingStep ops tc) := by
  unfold temperingStep
  rw [resetCaches_graphs]
  split
  · rfl
  · rw [body_reset_irrelevant ops _ _ _ tc h]

theorem parStep_reset_irrelevant (ops : Ops F64 R Q U) (sched : Scheduler) (k : Nat) (tc : TC F64 R Q)
    (h : CacheValid ops tc) :
    resetCaches (parTemperingStep ops sched k (resetCaches tc)) = resetCaches (parTemperingStep ops sched k tc) := by
  unfold parTemperingStep
  rw [resetCaches_graphs]
  split
  · rfl
  · rw [body_reset_irrelevant ops _ _ _ tc h]

end Cache

/-! ## The caches stay valid: `ham_eq` depends only on a signature that no step changes -/
section CachePreserve
variable {F64 R Q U H : Type}

/-- `ham_eq` compares Hamiltonian parameters (`sig`), and neither `set_op_cutoff` nor `swap_graphs` (which exchanges
op managers and states only) changes them. -/
structure HamStable (ops : Ops F64 R Q U) (sig : Q → H) (eqH : H → H → Bool) : Prop where
  hamEq_sig : ∀ a b, ops.hamEq a b = eqH (sig a) (sig b)
  sig_setCutoff : ∀ c q, sig (ops.setCutoff c q) = sig q
  sig_swap : ∀ a b u e, sig (ops.swapOn a b u e).1.1 = sig a.1 ∧ sig (ops.swapOn a b u e).2.1.1 = sig b.1

def sigs (sig : Q → H) (l : List (Q × F64)) : List H := l.map (fun g => sig g.1)

theorem eqsOf_congr {ops : Ops F64 R Q U} {sig : Q → H} {eqH : H → H → Bool} (hs : HamStable ops sig eqH) :
    ∀ (l l' : List (Q × F64)), sigs sig l = sigs sig l' → eqsOf ops l = eqsOf ops l'
  | a :: b :: rest, l', h => by
    match l', h with
    | a' :: b' :: rest', h =>
      simp only [sigs, List.map_cons, List.cons.injEq] at h
      obtain ⟨ha, hb, hr⟩ := h
      simp only [eqsOf, hs.hamEq_sig, ha, hb]
      rw [eqsOf_congr hs rest rest' hr]
    | [a'], h => simp [sigs] at h
    | [], h => simp [sigs] at h
  | [a], l', h => by
    match l', h with
    | [a'], _ => simp [eqsOf]
    | [], h => simp [sigs] at h
    | _ :: _ :: _, h => simp [sigs] at h
  | [], l', h => by
    match l', h with
    | [], _ => rfl
    | _ :: _, h => simp [sigs] at h

theorem sigs_length (sig : Q → H) (l : List (Q × F64)) : (sigs sig l).length = l.length := by simp [sigs]

theorem sigs_firstSub (sig : Q → H) (l l' : List (Q × F64)) (h : sigs sig l = sigs sig l') :
    sigs sig (firstSub l).1 = sigs sig (firstSub l').1 := by
  have hl : l.length = l'.length := by rw [← sigs_length sig l, h, sigs_length]
  simp only [firstSub, sigs, List.map_take] at *
  rw [h, hl]

theorem sigs_secondSub (sig : Q → H) (l l' : List (Q × F64)) (h : sigs sig l = sigs sig l') :
    sigs sig (secondSub l).2.1 = sigs sig (secondSub l').2.1 := by
  have hl : l.length = l'.length := by rw [← sigs_length sig l, h, sigs_length]
  simp only [secondSub, sigs] at *
  rw [hl]
  split <;> simp only [List.map_take, List.map_drop, h]

theorem firstSub_append {α : Type} (l : List α) : (firstSub l).1 ++ (firstSub l).2 = l := by
  simp [firstSub]

theorem secondSub_append {α : Type} (l : List α) :
    (secondSub l).1 ++ (secondSub l).2.1 ++ (secondSub l).2.2 = l := by
  unfold secondSub
  split
  · simp only [List.append_nil]
    exact List.take_append_drop 1 l
  · rename_i h
    rcases l with _ | ⟨a, l⟩
    · rfl
    · simp only [List.length_cons, List.take_succ_cons, List.take_zero, List.drop_succ_cons, List.drop_zero,
        Nat.add_sub_cancel, List.cons_append, List.nil_append, List.cons.injEq, true_and]
      have : l.length - 1 + 1 = l.length := by
        simp only [List.length_cons] at h
        omega
      have h2 : List.drop l.length (a :: l) = List.drop (l.length - 1) l := by
        conv_lhs => rw [← this]
        rfl
      rw [h2, show l.length + 1 - 2 = l.length - 1 by omega, List.take_append_drop]

theorem performSwaps_sigs {ops : Ops F64 R Q U} {sig : Q → H} {eqH : H → H → Bool} (hs : HamStable ops sig eqH) :
    ∀ (r : R) (l : List (Q × F64)) (eqs : List Bool), sigs sig (performSwaps ops r l eqs).1 = sigs sig l
  | r, a :: b :: rest, [] => by simp [performSwaps]
  | r, a :: b :: rest, eq :: eqs' => by
    have ih := performSwaps_sigs hs (ops.genUnif r).2 rest eqs'
    have h2 := hs.sig_swap a b (ops.genUnif r).1 (!eq)
    simp only [performSwaps, sigs, List.map_cons] at *
    rw [ih, h2.1, h2.2]
  | r, [a], eqs => by simp [performSwaps]
  | r, [], eqs => by simp [performSwaps]

/-- a swap routine that keeps the signatures in place -/
def KeepsSigs (sig : Q → H) (sw : R → List (Q × F64) → List Bool → List (Q × F64) × R × Nat) : Prop :=
  ∀ r l eqs, sigs sig (sw r l eqs).1 = sigs sig l

theorem sigs_append (sig : Q → H) (l l' : List (Q × F64)) : sigs sig (l ++ l') = sigs sig l ++ sigs sig l' := by
  simp [sigs]

theorem phaseA_keeps {sig : Q → H} {sw} (h : KeepsSigs (F64 := F64) sig sw) (s : TC F64 R Q × R) :
    sigs sig (phaseA sw s).1.graphs = sigs sig s.1.graphs ∧
    (phaseA sw s).1.graph_ham_eq_a = s.1.graph_ham_eq_a ∧ (phaseA sw s).1.graph_ham_eq_b = s.1.graph_ham_eq_b := by
  refine ⟨?_, rfl, rfl⟩
  have h' : ∀ r l eqs, sigs sig (sw r l eqs).1 = sigs sig l := h
  simp only [phaseA, sigs_append, h']
  rw [← sigs_append, firstSub_append]

theorem phaseB_keeps {sig : Q → H} {sw} (h : KeepsSigs (F64 := F64) sig sw) (s : TC F64 R Q × R) :
    sigs sig (phaseB sw s).1.graphs = sigs sig s.1.graphs ∧
    (phaseB sw s).1.graph_ham_eq_a = s.1.graph_ham_eq_a ∧ (phaseB sw s).1.graph_ham_eq_b = s.1.graph_ham_eq_b := by
  refine ⟨?_, rfl, rfl⟩
  have h' : ∀ r l eqs, sigs sig (sw r l eqs).1 = sigs sig l := h
  simp only [phaseB, sigs_append, h']
  rw [← sigs_append, ← sigs_append, secondSub_append]

theorem rest_keeps {ops : Ops F64 R Q U} {sig : Q → H} {setAll swA swB}
    (hset : ∀ c l, sigs sig (setAll c l) = sigs sig l)
    (hA : KeepsSigs sig swA) (hB : KeepsSigs sig swB) (tc : TC F64 R Q) :
    sigs sig (temperingRest ops setAll swA swB tc).graphs = sigs sig tc.graphs ∧
    (temperingRest ops setAll swA swB tc).graph_ham_eq_a = tc.graph_ham_eq_a ∧
    (temperingRest ops setAll swA swB tc).graph_ham_eq_b = tc.graph_ham_eq_b := by
  unfold temperingRest
  simp only
  split
  · exact ⟨hset _ _, rfl, rfl⟩
  · rename_i r hr
    have h1 := phaseA_keeps hA ({ tc with graphs := setAll (maxCutoff ops tc.graphs) tc.graphs }, (ops.genHalf r).2)
    have h2 := phaseB_keeps hB (phaseA swA ({ tc with graphs := setAll (maxCutoff ops tc.graphs) tc.graphs }, (ops.genHalf r).2))
    have h3 := phaseB_keeps hB ({ tc with graphs := setAll (maxCutoff ops tc.graphs) tc.graphs }, (ops.genHalf r).2)
    have h4 := phaseA_keeps hA (phaseB swB ({ tc with graphs := setAll (maxCutoff ops tc.graphs) tc.graphs }, (ops.genHalf r).2))
    split
    · simp only
      exact ⟨by rw [h2.1, h1.1]; exact hset _ _, by rw [h2.2.1, h1.2.1], by rw [h2.2.2, h1.2.2]⟩
    · simp only
      exact ⟨by rw [h4.1, h3.1]; exact hset _ _, by rw [h4.2.1, h3.2.1], by rw [h4.2.2, h3.2.2]⟩

theorem cacheValid_makeHamEqualities (ops : Ops F64 R Q U) (tc : TC F64 R Q) :
    CacheValid ops (makeHamEqualities ops tc) := ⟨Or.inr rfl, Or.inr rfl⟩

theorem body_cacheValid {ops : Ops F64 R Q U} {sig : Q → H} {eqH : H → H → Bool} (hs : HamStable ops sig eqH)
    {setAll swA swB} (hset : ∀ c l, sigs sig (setAll c l) = sigs sig l)
    (hA : KeepsSigs sig swA) (hB : KeepsSigs sig swB) (tc : TC F64 R Q) (h : CacheValid ops tc) :
    CacheValid ops (temperingBody ops setAll swA swB tc) := by
  unfold temperingBody
  rw [ensure_of_valid ops tc h]
  obtain ⟨hg, ha, hb⟩ := rest_keeps (ops := ops) hset hA hB (makeHamEqualities ops tc)
  have hg' : sigs sig (temperingRest ops setAll swA swB (makeHamEqualities ops tc)).graphs = sigs sig tc.graphs := hg
  constructor
  · right
    rw [ha]
    show some (eqsOf ops (firstSub tc.graphs).1) = _
    rw [eqsOf_congr hs _ _ (sigs_firstSub sig _ _ hg')]
  · right
    rw [hb]
    show some (eqsOf ops (secondSub tc.graphs).2.1) = _
    rw [eqsOf_congr hs _ _ (sigs_secondSub sig _ _ hg')]

theorem setAllSerial_sigs {ops : Ops F64 R Q U} {sig : Q → H} {eqH : H → H → Bool} (hs : HamStable ops sig eqH)
    (c : Nat) (l : List (Q × F64)) : sigs sig (setAllSerial ops c l) = sigs sig l := by
  simp [sigs, setAllSerial, hs.sig_setCutoff]

theorem step_cacheValid {ops : Ops F64 R Q U} {sig : Q → H} {eqH : H → H → Bool} (hs : HamStable ops sig eqH)
    (tc : TC F64 R Q) (h : CacheValid ops tc) : CacheValid ops (temperingStep ops tc) := by
  unfold temperingStep
  split
  · exact h
  · exact body_cacheValid hs (setAllSerial_sigs hs) (performSwaps_sigs hs) (performSwaps_sigs hs) tc h

end CachePreserve

end Qmc.Snap
